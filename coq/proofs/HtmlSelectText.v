(* C17 (HTML half) on TEXT: for every document of the C09 level-B grammar (proofs/HtmlRender*.v), the editor
   helpers run over the rendered text return the tags of the document's own record, with ranges computed from
   the attributes AS WRITTEN, each range slicing the text to exactly that part.

   SPEC (no scanner, no tokenizer in it):
     select_tag pos is_prev tags     next: first tag of the record that ends after pos;
                                     previous: last tag of the record that starts before pos
     attr_items p a                  (range, text) for one written attribute whose white space starts at p:
                                       [name start, end of value)   "name=value as written"
                                       unquoted value               the body between the quotes / braces
                                       class only: words of the body
                                     or ([name start, name end), name) for an attribute without value
     written_model t                 start, end, tag name range :: squash (ranges of all attr_items)
     ctx_of_tag t                    the ContextTag of get_open_tag: name, type, range, attribute tokens
                                     [attr_tokens] of the record (names / values as written, exact ranges) *)
From Coq Require Import List NArith ZArith Bool Lia ZifyBool.
From Emmet Require Import lib.Base lib.HtmlLib gen.GenHtml model.HtmlScan model.HtmlMatch model.HtmlActions
  proofs.HtmlScanProofs proofs.HtmlFoldProofs proofs.HtmlForestProofs proofs.HtmlC16Proofs
  proofs.HtmlRenderLib proofs.HtmlRender proofs.HtmlRenderScan proofs.HtmlRenderCompose
  proofs.HtmlActionsProofs proofs.HtmlSelectFull.
Import ListNotations.
Local Open Scope Z_scope.

(* ================================================================== SPEC *)
Definition ev_of_tag (t : tagrec) : event :=
  mkEv (tr_name t) (if tr_sc t then ESelfClose else EOpen) (tr_start t) (tr_end t).

Definition select_tag (pos : Z) (is_prev : bool) (tags : list tagrec) : option tagrec :=
  if is_prev then last_opt (filter (fun t => Z.of_N (tr_start t) <? pos) tags)
  else find (fun t => pos <? Z.of_N (tr_end t)) tags.

(* the value without its quotes / braces, and how many characters precede it after the `=` *)
Definition written_inner (v : aval) : option (nat * str) :=
  match v with
  | VNone => None
  | VQuoted _ body => Some (1%nat, body)
  | VUnquoted body => Some (O, body)
  | VExpr ps => Some (1%nat, render_expr ps)
  end.

Definition slice_at (src : str) (r : range) : str :=
  firstn (Z.to_nat (snd r - fst r)) (skipn (Z.to_nat (fst r)) src).

Definition zlen (s : str) : Z := Z.of_nat (length s).

Definition attr_items (p : Z) (a : dattr) : list (range * str) :=
  let ns := p + zlen (da_ws a) in
  let name := render_aname (da_name a) in
  let ne := ns + zlen name in
  match written_inner (da_val a) with
  | None => [((ns, ne), name)]
  | Some (k, body) =>
      let x := ne + 1 + Z.of_nat k in
      ((ns, ne + zlen (value_part (da_val a))), name ++ value_part (da_val a)) ::
      ((x, x + zlen body), body) ::
      (if str_eqb name class_name
       then map (fun w => (w, slice_at body (fst w - x, snd w - x))) (words body x) else [])
  end.
Fixpoint attrs_items (p : Z) (l : list dattr) : list (range * str) :=
  match l with
  | [] => []
  | a :: rest => attr_items p a ++ attrs_items (p + zlen (render_attr a)) rest
  end.

(* everything select_item_html may select in tag t, with the text it must slice to *)
Definition tag_items (t : tagrec) : list (range * str) :=
  (name_range (tr_start t) (tr_name t), tr_name t) ::
  attrs_items (Z.of_N (tr_start t) + 1 + zlen (tr_name t)) (tr_attrs t).

Definition written_ranges (t : tagrec) : list range :=
  name_range (tr_start t) (tr_name t) ::
  squash (Some (name_range (tr_start t) (tr_name t)))
         (map fst (attrs_items (Z.of_N (tr_start t) + 1 + zlen (tr_name t)) (tr_attrs t))).
Definition written_model (t : tagrec) : sel_model :=
  mkSel (Z.of_N (tr_start t)) (Z.of_N (tr_end t)) (written_ranges t).

Definition tag_tokens (t : tagrec) : list attr :=
  attr_tokens (tr_start t + N.of_nat (S (length (tr_name t))))%N (tr_attrs t).
Definition ctx_of_tag (t : tagrec) : context_tag :=
  mkCtxTag (tr_name t) (if tr_sc t then ESelfClose else EOpen) (tr_start t) (tr_end t) (Some (tag_tokens t)).

(* ================================================================== list lemmas *)
Lemma find_andb {A} (p q : A -> bool) : forall l, find (fun x => p x && q x) l = find q (filter p l).
Proof.
  induction l as [|x l IH]; [reflexivity|]. cbn [find filter]. destruct (p x); cbn [andb find]; [|exact IH].
  destruct (q x); [reflexivity|exact IH].
Qed.

Lemma filter_andb {A} (p q : A -> bool) : forall l, filter (fun x => p x && q x) l = filter q (filter p l).
Proof.
  induction l as [|x l IH]; [reflexivity|]. cbn [filter]. destruct (p x); cbn [andb filter]; [|exact IH].
  destruct (q x); [f_equal|]; exact IH.
Qed.

Lemma find_map {A B} (f : A -> B) (q : B -> bool) : forall l,
  find q (map f l) = option_map f (find (fun x => q (f x)) l).
Proof. induction l as [|x l IH]; [reflexivity|]. cbn [map find]. destruct (q (f x)); [reflexivity|exact IH]. Qed.

Lemma filter_map {A B} (f : A -> B) (q : B -> bool) : forall l,
  filter q (map f l) = map f (filter (fun x => q (f x)) l).
Proof. induction l as [|x l IH]; [reflexivity|]. cbn [map filter]. destruct (q (f x)); cbn [map]; [f_equal|]; exact IH. Qed.

Lemma last_opt_map {A B} (f : A -> B) : forall l, last_opt (map f l) = option_map f (last_opt l).
Proof.
  induction l as [|x l IH]; [reflexivity|]. cbn [map last_opt]. rewrite IH.
  destruct (last_opt l); reflexivity.
Qed.

(* ================================================================== the open / self-closing events are the tags *)
Definition oe_item_stmt (i : item) : Prop :=
  forall p, filter is_open_or_self (events_forest (nodes_item p i)) = map ev_of_tag (tags_item p i).
Definition oe_items_stmt (d : list item) : Prop :=
  forall p, filter is_open_or_self (events_forest (nodes_items p d)) = map ev_of_tag (tags_items p d).

Lemma filter_app' {A} (p : A -> bool) (a b : list A) : filter p (a ++ b) = filter p a ++ filter p b.
Proof. induction a as [|x a IH]; [reflexivity|]. cbn [app filter]. destruct (p x); cbn [app]; [f_equal|]; exact IH. Qed.

Lemma open_events_doc : (forall i, oe_item_stmt i) /\ (forall d, oe_items_stmt d).
Proof.
  assert (Hnone : forall i, (forall p, nodes_item p i = []) -> (forall p, tags_item p i = []) -> oe_item_stmt i).
  { intros i H1 H2 p. rewrite H1, H2. reflexivity. }
  assert (HT : forall s, oe_item_stmt (IText s)) by (intros; apply Hnone; reflexivity).
  assert (HLt : forall s, oe_item_stmt (ILt s)) by (intros; apply Hnone; reflexivity).
  assert (HCo : forall b, oe_item_stmt (IComment b)) by (intros; apply Hnone; reflexivity).
  assert (HCd : forall b, oe_item_stmt (ICData b)) by (intros; apply Hnone; reflexivity).
  assert (HPi : forall ps, oe_item_stmt (IPI ps)) by (intros; apply Hnone; reflexivity).
  assert (HSe : forall n l w, oe_item_stmt (ISelf n l w)) by (intros n l w p; reflexivity).
  assert (HVo : forall n l w, oe_item_stmt (IVoid n l w)) by (intros n l w p; reflexivity).
  assert (HRa : forall n l w b, oe_item_stmt (IRaw n l w b)) by (intros n l w b p; reflexivity).
  assert (HPa : forall n l w kids, oe_items_stmt kids -> oe_item_stmt (IPaired n l w kids)).
  { intros n l w kids IH p. rewrite nodes_item_paired, tags_item_paired. cbv zeta.
    unfold events_forest. cbn [flat_map events_node]. rewrite app_nil_r.
    cbn [filter is_open_or_self ev_type]. rewrite filter_app'. cbn [filter is_open_or_self ev_type]. rewrite app_nil_r.
    cbn [map]. f_equal. apply IH. }
  assert (HQ0 : oe_items_stmt []) by (intros p; reflexivity).
  assert (HQ1 : forall i d, oe_item_stmt i -> oe_items_stmt d -> oe_items_stmt (i :: d)).
  { intros i d Hi Hd p. cbn [nodes_items tags_items]. unfold events_forest. rewrite flat_map_app, filter_app', map_app.
    f_equal; [apply Hi|apply Hd]. }
  split.
  - exact (item_ind2 _ _ HT HLt HCo HCd HPi HPa HSe HVo HRa HQ0 HQ1).
  - exact (items_ind2 _ _ HT HLt HCo HCd HPi HPa HSe HVo HRa HQ0 HQ1).
Qed.

Lemma open_events_tags d : filter is_open_or_self (events d) = map ev_of_tag (tags_of d).
Proof. destruct open_events_doc as [_ G]. apply G. Qed.

Lemma select_target_tags pos is_prev evs tags :
  filter is_open_or_self evs = map ev_of_tag tags ->
  select_target pos is_prev evs = option_map ev_of_tag (select_tag pos is_prev tags).
Proof.
  intros H. unfold select_target, select_tag. destruct is_prev.
  - unfold prev_pred. rewrite filter_andb, H, filter_map, last_opt_map. reflexivity.
  - unfold next_pred. rewrite find_andb, H, find_map. reflexivity.
Qed.

(* ================================================================== the spec over written attributes *)
Lemma aval_strip v t : aval_ok v = true -> value_text v = Some t ->
  exists k body, written_inner v = Some (k, body) /\ strip t = (k, (length t - k - length body)%nat) /\ inner t = body /\
                 (k + length body <= length t)%nat.
Proof.
  intros Hok Ht. destruct v as [|q body|body|ps]; cbn [value_text written_inner aval_ok] in *; try discriminate;
    inversion Ht; subst t; clear Ht.
  - unfold quoted_ok in Hok. apply andb_true_iff in Hok. destruct Hok as [Hq _].
    destruct (strip_quoted q body Hq) as [E1 E2]. exists 1%nat, body. rewrite E1, E2.
    cbn [length]. rewrite app_length. cbn [length]. repeat split; try lia. f_equal. lia.
  - unfold unquoted_ok in Hok. destruct body as [|c r]; [discriminate|].
    apply andb_true_iff in Hok. destruct Hok as [Hop Hall]. apply negb_true_iff in Hop.
    cbn [forallb] in Hall. apply andb_true_iff in Hall. destruct Hall as [Hc _].
    unfold is_unquoted in Hc. apply andb_true_iff in Hc. destruct Hc as [Hc _]. apply andb_true_iff in Hc.
    destruct Hc as [Hq _]. apply negb_true_iff in Hq.
    unfold opener in Hop. apply orb_false_iff in Hop. destruct Hop as [_ Hb].
    destruct (strip_plain c r Hq Hb) as [E1 E2]. exists O, (c :: r). rewrite E1, E2.
    repeat split; try lia. f_equal. lia.
  - destruct (strip_braced (render_expr ps)) as [E1 E2]. exists 1%nat, (render_expr ps). rewrite E1, E2.
    cbn [length]. rewrite app_length. cbn [length]. repeat split; try lia. f_equal. lia.
Qed.

Lemma value_part_length v t : value_text v = Some t -> zlen (value_part v) = 1 + zlen t.
Proof. intros H. unfold value_part, zlen. rewrite H. cbn [length]. lia. Qed.

Lemma map_fst_items_words (body : str) x :
  map fst (map (fun w : range => (w, slice_at body (fst w - x, snd w - x))) (words body x)) = words body x.
Proof. rewrite map_map. cbn [fst]. apply map_id. Qed.

Lemma attr_sel_written : forall l (p : N),
  forallb dattr_ok l = true ->
  flat_map attr_sel (attr_tokens p l) = map fst (attrs_items (Z.of_N p) l).
Proof.
  induction l as [|a l IH]; intros p Hl; [reflexivity|].
  cbn [forallb] in Hl. apply andb_true_iff in Hl. destruct Hl as [Ha Hl].
  cbn [attr_tokens flat_map attrs_items]. rewrite map_app. rewrite IH by exact Hl.
  f_equal.
  2:{ f_equal. f_equal. unfold zlen. lia. }
  destruct (dattr_ok_parts a Ha) as (_ & _ & _ & Hv).
  unfold attr_sel, attr_items. cbn [a_value a_ns a_ne a_name].
  destruct (value_text (da_val a)) as [t|] eqn:Et.
  - destruct (aval_strip _ _ Hv Et) as (k & body & Ew & Es & Ei & Hb).
    rewrite Ew, Es, Ei. cbn [fst snd map]. rewrite (value_part_length _ _ Et).
    assert (Ex : Z.of_N (p + N.of_nat (length (da_ws a)) + N.of_nat (length (render_aname (da_name a))) + 1) + Z.of_nat k =
                 Z.of_N p + zlen (da_ws a) + zlen (render_aname (da_name a)) + 1 + Z.of_nat k) by (unfold zlen; lia).
    rewrite Ex. f_equal; [f_equal; unfold zlen; lia|]. f_equal; [f_equal; unfold zlen; lia|].
    destruct (str_eqb (render_aname (da_name a)) class_name); [|reflexivity].
    rewrite map_fst_items_words. reflexivity.
  - assert (Ew : written_inner (da_val a) = None) by (destruct (da_val a); try discriminate; reflexivity).
    rewrite Ew. cbn [map fst]. f_equal. f_equal; unfold zlen; lia.
Qed.

(* ================================================================== every range slices the text to its part *)
Definition sliced (src : str) (it : range * str) : Prop := slice_at src (fst it) = snd it.

Lemma slice_mid (A M B : str) a b :
  a = zlen A -> b = a + zlen M -> slice_at (A ++ M ++ B) (a, b) = M.
Proof.
  intros -> ->. unfold slice_at, zlen. cbn [fst snd].
  replace (Z.to_nat (Z.of_nat (length A) + Z.of_nat (length M) - Z.of_nat (length A))) with (length M) by lia.
  rewrite Nat2Z.id. rewrite skipn_app_exact by reflexivity. apply firstn_app_exact. reflexivity.
Qed.

Lemma slice_sub (src body : str) x a b :
  0 <= x -> slice_at src (x, x + zlen body) = body -> x <= a -> a <= b -> b <= x + zlen body ->
  slice_at src (a, b) = slice_at body (a - x, b - x).
Proof.
  unfold slice_at, zlen. cbn [fst snd]. intros Hx Hs Ha Hab Hb.
  replace (Z.to_nat (x + Z.of_nat (length body) - x)) with (length body) in Hs by lia.
  replace (Z.to_nat (b - x - (a - x))) with (Z.to_nat (b - a)) by lia.
  assert (Hl : length (firstn (length body) (skipn (Z.to_nat x) src)) = length body) by (rewrite Hs; reflexivity).
  rewrite <- Hs.
  rewrite frag_slice.
  - f_equal. f_equal. lia.
  - rewrite Hl. lia.
Qed.

Lemma separated_nonempty : forall l lo, separated lo l -> Forall (fun r => fst r < snd r) l.
Proof.
  induction l as [|r rest IH]; intros lo Hs; [constructor|]. cbn [separated] in Hs. destruct Hs as (A & B & C).
  constructor; [exact B|]. eapply IH. exact C.
Qed.

Lemma words_inside (body : str) x : Forall (fun w => x <= fst w /\ fst w < snd w /\ snd w <= x + zlen body) (words body x).
Proof.
  destruct (words_spec body x) as (Hsep & Hb & _).
  pose proof (separated_nonempty _ _ Hsep) as Hne.
  apply separated_lower in Hsep. rewrite Forall_forall in *. intros w Hw.
  specialize (Hsep w Hw). specialize (Hb w Hw). specialize (Hne w Hw). cbn beta in *. unfold zlen.
  split; [exact Hsep|]. split; [exact Hne|exact Hb].
Qed.

Lemma slice_mid' (src A M B : str) a b :
  src = A ++ M ++ B -> a = zlen A -> b = a + zlen M -> slice_at src (a, b) = M.
Proof. intros ->. apply slice_mid. Qed.

Ltac by_slice_mid A M B :=
  apply (slice_mid' _ A M B);
  [repeat rewrite <- app_assoc; cbn [app]; repeat rewrite <- app_assoc; reflexivity
  |unfold zlen; rewrite ?app_length; cbn [length]; lia
  |unfold zlen; rewrite ?app_length; cbn [length]; lia].

Lemma attr_items_sliced (pre post : str) (a : dattr) :
  dattr_ok a = true ->
  Forall (sliced (pre ++ render_attr a ++ post)) (attr_items (zlen pre) a).
Proof.
  intros Ha. destruct (dattr_ok_parts a Ha) as (_ & _ & _ & Hv).
  unfold attr_items, render_attr.
  set (ws := da_ws a). set (name := render_aname (da_name a)). set (vp := value_part (da_val a)).
  destruct (written_inner (da_val a)) as [[k body]|] eqn:Ew.
  - assert (Hfull : sliced (pre ++ (ws ++ name ++ vp) ++ post)
                      ((zlen pre + zlen ws, zlen pre + zlen ws + zlen name + zlen vp), name ++ vp)).
    { unfold sliced. cbn [fst snd]. by_slice_mid (pre ++ ws) (name ++ vp) post. }
    assert (Hbody : sliced (pre ++ (ws ++ name ++ vp) ++ post)
                      ((zlen pre + zlen ws + zlen name + 1 + Z.of_nat k,
                        zlen pre + zlen ws + zlen name + 1 + Z.of_nat k + zlen body), body)).
    { unfold sliced. cbn [fst snd]. unfold vp, value_part.
      destruct (da_val a) as [|q b|b|ps]; cbn [written_inner value_text] in *; try discriminate;
        inversion Ew; subst k body; clear Ew.
      - by_slice_mid (pre ++ ws ++ name ++ [c_eq; q]) b ([q] ++ post).
      - by_slice_mid (pre ++ ws ++ name ++ [c_eq]) b post.
      - by_slice_mid (pre ++ ws ++ name ++ [c_eq; c_lbrace]) (render_expr ps) ([c_rbrace] ++ post). }
    constructor; [exact Hfull|]. constructor; [exact Hbody|].
    destruct (str_eqb name class_name); [|constructor].
    rewrite Forall_map. pose proof (words_inside body (zlen pre + zlen ws + zlen name + 1 + Z.of_nat k)) as Hw.
    eapply Forall_impl; [|exact Hw]. cbn beta. intros w (W1 & W2 & W3). unfold sliced. cbn [fst snd].
    destruct w as [wa wb]. cbn [fst snd] in *.
    apply slice_sub; try lia; [unfold zlen; lia|exact Hbody].
  - constructor; [|constructor]. unfold sliced. cbn [fst snd].
    by_slice_mid (pre ++ ws) name (vp ++ post).
Qed.

Lemma attrs_items_sliced : forall l (pre post : str),
  forallb dattr_ok l = true ->
  Forall (sliced (pre ++ render_attrs l ++ post)) (attrs_items (zlen pre) l).
Proof.
  induction l as [|a l IH]; intros pre post Hl; [constructor|].
  cbn [forallb] in Hl. apply andb_true_iff in Hl. destruct Hl as [Ha Hl].
  cbn [attrs_items]. unfold render_attrs. cbn [flat_map]. fold (render_attrs l). apply Forall_app. split.
  - rewrite <- app_assoc. apply attr_items_sliced. exact Ha.
  - rewrite <- app_assoc. rewrite (app_assoc pre).
    replace (zlen pre + zlen (render_attr a)) with (zlen (pre ++ render_attr a)) by (unfold zlen; rewrite app_length; lia).
    apply IH. exact Hl.
Qed.

Lemma tag_items_sliced (text : str) (t : tagrec) :
  tag_in 0 text t -> Forall (sliced text) (tag_items t).
Proof.
  intros (Hok & pre & post & -> & Hs). rewrite N.add_0_l in Hs.
  destruct (tag_ok_parts _ _ _ Hok) as (Hn & Hl & Hw).
  unfold tag_items, tr_text, open_tag. constructor.
  - unfold sliced, name_range. cbn [fst snd].
    change (pre ++ (c_lt :: tr_name t ++ render_attrs (tr_attrs t) ++ tr_ws t ++ (if tr_sc t then [c_slash; c_gt] else [c_gt])) ++ post)
      with (pre ++ ([c_lt] ++ tr_name t ++ render_attrs (tr_attrs t) ++ tr_ws t ++ (if tr_sc t then [c_slash; c_gt] else [c_gt])) ++ post).
    rewrite <- !app_assoc. rewrite (app_assoc pre).
    apply slice_mid; unfold zlen; rewrite ?app_length; cbn [length]; lia.
  - change (pre ++ (c_lt :: tr_name t ++ render_attrs (tr_attrs t) ++ tr_ws t ++ (if tr_sc t then [c_slash; c_gt] else [c_gt])) ++ post)
      with (pre ++ ([c_lt] ++ tr_name t ++ render_attrs (tr_attrs t) ++ tr_ws t ++ (if tr_sc t then [c_slash; c_gt] else [c_gt])) ++ post).
    rewrite <- !app_assoc. rewrite (app_assoc [c_lt]). rewrite (app_assoc pre).
    replace (Z.of_N (tr_start t) + 1 + zlen (tr_name t)) with (zlen (pre ++ [c_lt] ++ tr_name t))
      by (unfold zlen; rewrite !app_length; cbn [length]; lia).
    apply attrs_items_sliced. exact Hl.
Qed.

(* ================================================================== composition *)
Section Text.
  Variable special : list (str * option (list str)).
  Variable d : list item.
  Hypothesis Hd : forallb (item_ok special) d = true.

  Lemma tag_in_doc t : In t (tags_of d) -> tag_in 0 (render d) t.
  Proof. intros Ht. destruct (tags_in_doc special) as [_ G]. exact (G d 0%N t Hd Ht). Qed.

  Lemma tag_sel_text t : In t (tags_of d) -> tag_sel (render d) (ev_of_tag t) = written_model t.
  Proof.
    intros Ht. unfold tag_sel, written_model, ev_of_tag. cbn [ev_start ev_end ev_name].
    rewrite (get_attributes_doc special d t Hd Ht). f_equal.
    unfold tag_sel_ranges, written_ranges. f_equal. f_equal.
    destruct (tag_in_doc t Ht) as (Hok & _). destruct (tag_ok_parts _ _ _ Hok) as (_ & Hl & _).
    rewrite (attr_sel_written _ _ Hl). f_equal. f_equal. unfold zlen. lia.
  Qed.

  Lemma tag_event_in t : In t (tags_of d) -> In (ev_of_tag t) (events d).
  Proof.
    intros Ht. assert (H : In (ev_of_tag t) (filter is_open_or_self (events d))).
    { rewrite open_events_tags. apply in_map. exact Ht. }
    apply filter_In in H. tauto.
  Qed.

  Lemma scan_doc : scan special (render d) = (events d, None).
  Proof. apply scan_render. exact Hd. Qed.

  Lemma events_doc_ordered : events_ordered 0 (events d).
  Proof. destruct (scan_events_wf special (render d)) as [_ H]. rewrite scan_doc in H. exact H. Qed.

  (* every range of the written model lies inside its tag, after the `<` *)
  Lemma written_ranges_inside t : In t (tags_of d) ->
    Forall (tok_in (Z.of_N (tr_start t) + 1) (Z.of_N (tr_end t))) (written_ranges t).
  Proof.
    intros Ht. pose proof (tag_event_in t Ht) as Hin.
    assert (Hin' : In (ev_of_tag t) (fst (scan special (render d)))) by (rewrite scan_doc; exact Hin).
    pose proof (scan_event_range_wf special (render d) (ev_of_tag t) Hin') as Hw.
    assert (Hty : match ev_type (ev_of_tag t) with EClose => true | _ => false end = false)
      by (unfold ev_of_tag; cbn [ev_type]; destruct (tr_sc t); reflexivity).
    rewrite Hty in Hw.
    destruct (selection_model_wf (render d) _ _ _ Hw) as (m & Hm & _ & _ & _ & HF).
    assert (Em : sel_ranges m = written_ranges t).
    { rewrite get_tag_selection_model_eq in Hm. injection Hm as Hm. rewrite <- Hm.
      exact (f_equal sel_ranges (tag_sel_text t Ht)). }
    rewrite Em in HF. exact HF.
  Qed.

  Theorem select_item_text (o : opts) pos is_prev :
    special = o_special o ->
    select_item_html o (render d) pos is_prev =
    Ok (option_map written_model (select_tag pos is_prev (tags_of d))).
  Proof.
    intros Hsp. rewrite select_item_html_eq. rewrite <- Hsp, scan_doc. cbn [fst].
    rewrite (select_target_tags pos is_prev (events d) (tags_of d) (open_events_tags d)).
    f_equal.
    assert (Hsel : forall t, select_tag pos is_prev (tags_of d) = Some t -> In t (tags_of d)).
    { intros t H. unfold select_tag in H. destruct is_prev.
      - apply last_opt_in in H. apply filter_In in H. tauto.
      - apply find_some in H. tauto. }
    destruct (select_tag pos is_prev (tags_of d)) as [t|]; [|reflexivity].
    cbn [option_map]. f_equal. apply tag_sel_text. apply Hsel. reflexivity.
  Qed.

  (* get_open_tag: a tag of the record strictly containing the position is returned, with the tokens of the record *)
  Theorem get_open_tag_text_complete pos t :
    special = o_special default_opts ->
    In t (tags_of d) -> Z.of_N (tr_start t) < pos -> pos < Z.of_N (tr_end t) ->
    get_open_tag (render d) pos = Ok (Some (ctx_of_tag t)).
  Proof.
    intros Hsp Ht H1 H2. unfold get_open_tag. rewrite <- Hsp, scan_doc.
    unfold get_open_tag_of, after_scan. cbn [fst snd].
    assert (Hhit : strictly_in (ev_start (ev_of_tag t)) pos (ev_end (ev_of_tag t)) = true).
    { unfold strictly_in, ev_of_tag. cbn [ev_start ev_end]. lia. }
    rewrite (open_tag_go_complete pos (events d) 0%N (ev_of_tag t) events_doc_ordered (tag_event_in t Ht) Hhit).
    f_equal. f_equal. unfold ctx_of_tag, ev_of_tag. cbn [ev_name ev_type ev_start ev_end].
    rewrite (get_attributes_doc special d t Hd Ht). destruct (tr_sc t); reflexivity.
  Qed.

  (* ... and an open / self-closing tag that is returned is a tag of the record strictly containing the position *)
  Theorem get_open_tag_text_sound pos c :
    special = o_special default_opts ->
    get_open_tag (render d) pos = Ok (Some c) -> ct_type c <> EClose ->
    exists t, In t (tags_of d) /\ Z.of_N (tr_start t) < pos /\ pos < Z.of_N (tr_end t) /\ c = ctx_of_tag t.
  Proof.
    intros Hsp H Hty. unfold get_open_tag in H. rewrite <- Hsp, scan_doc in H.
    unfold get_open_tag_of, after_scan in H. cbn [fst snd] in H.
    destruct (open_tag_go pos (events d)) as [[e|]|] eqn:Eo; try discriminate.
    apply open_tag_go_sound in Eo. destruct Eo as [Hin Hhit].
    inversion H; subst c; clear H. cbn [ct_type] in Hty.
    assert (Ho : is_open_or_self e = true) by (unfold is_open_or_self; destruct (ev_type e); congruence).
    assert (Hf : In e (filter is_open_or_self (events d))) by (apply filter_In; split; assumption).
    rewrite open_events_tags in Hf. apply in_map_iff in Hf. destruct Hf as (t & <- & Ht).
    exists t. split; [exact Ht|].
    unfold strictly_in, ev_of_tag in Hhit. cbn [ev_start ev_end] in Hhit.
    split; [lia|]. split; [lia|].
    unfold ctx_of_tag, ev_of_tag. cbn [ev_name ev_type ev_start ev_end].
    rewrite (get_attributes_doc special d t Hd Ht). destruct (tr_sc t); reflexivity.
  Qed.

  (* the tokens of the record slice the text to the names and values as written, inside the tag, in order *)
  Theorem tag_tokens_slice t : In t (tags_of d) ->
    Forall (token_slices (render d)) (tag_tokens t) /\
    attrs_sorted (render d) (tr_start t) (tr_end t) (tag_tokens t).
  Proof.
    intros Ht. split.
    - destruct (tag_in_doc t Ht) as (Hok & pre & post & E & Hs). rewrite N.add_0_l in Hs.
      unfold tag_tokens. rewrite E. unfold tr_text, open_tag.
      change (pre ++ (c_lt :: tr_name t ++ render_attrs (tr_attrs t) ++ tr_ws t ++ (if tr_sc t then [c_slash; c_gt] else [c_gt])) ++ post)
        with (pre ++ ([c_lt] ++ tr_name t ++ render_attrs (tr_attrs t) ++ tr_ws t ++ (if tr_sc t then [c_slash; c_gt] else [c_gt])) ++ post).
      rewrite <- !app_assoc. rewrite (app_assoc [c_lt]). rewrite (app_assoc pre).
      replace (tr_start t + N.of_nat (S (length (tr_name t))))%N with (N.of_nat (length (pre ++ [c_lt] ++ tr_name t)))
        by (rewrite !app_length; cbn [length]; lia).
      apply attr_tokens_slice.
    - unfold tag_tokens. rewrite <- (get_attributes_doc special d t Hd Ht).
      pose proof (tag_event_in t Ht) as Hin.
      assert (Hin' : In (ev_of_tag t) (fst (scan special (render d)))) by (rewrite scan_doc; exact Hin).
      pose proof (scan_event_range_wf special (render d) (ev_of_tag t) Hin') as Hw.
      destruct Hw as (W1 & W2 & _). cbn [fst snd ev_of_tag ev_start ev_end] in *.
      apply get_attributes_sorted; lia.
  Qed.
End Text.

(* ================================================================== the statements of props/C17Html.v *)
Theorem select_text (o : opts) (d : list item) (pos : Z) (is_prev : bool) :
  forallb (item_ok (o_special o)) d = true ->
  select_item_html o (render d) pos is_prev = Ok (option_map written_model (select_tag pos is_prev (tags_of d))) /\
  forall t, In t (tags_of d) ->
    Forall (sliced (render d)) (tag_items t) /\
    Forall (tok_in (Z.of_N (tr_start t) + 1) (Z.of_N (tr_end t))) (written_ranges t).
Proof.
  intros Hd. split.
  - apply (select_item_text (o_special o) d Hd). reflexivity.
  - intros t Ht. split.
    + apply tag_items_sliced. apply (tag_in_doc (o_special o) d Hd t Ht).
    + apply (written_ranges_inside (o_special o) d Hd t Ht).
Qed.

Theorem get_open_tag_text (d : list item) (pos : Z) :
  forallb (item_ok (o_special default_opts)) d = true ->
  (forall t, In t (tags_of d) -> Z.of_N (tr_start t) < pos -> pos < Z.of_N (tr_end t) ->
     get_open_tag (render d) pos = Ok (Some (ctx_of_tag t))) /\
  (forall c, get_open_tag (render d) pos = Ok (Some c) -> ct_type c <> EClose ->
     exists t, In t (tags_of d) /\ Z.of_N (tr_start t) < pos /\ pos < Z.of_N (tr_end t) /\ c = ctx_of_tag t) /\
  (forall t, In t (tags_of d) ->
     Forall (token_slices (render d)) (tag_tokens t) /\
     attrs_sorted (render d) (tr_start t) (tr_end t) (tag_tokens t)).
Proof.
  intros Hd. split; [|split].
  - intros t. apply (get_open_tag_text_complete _ d Hd). reflexivity.
  - intros c. apply (get_open_tag_text_sound _ d Hd). reflexivity.
  - intros t. apply (tag_tokens_slice _ d Hd).
Qed.

(* the written ranges are the ranges of the attribute items, squashed (by definition) *)
Lemma written_ranges_items t :
  written_ranges t =
  name_range (tr_start t) (tr_name t) ::
  squash (Some (name_range (tr_start t) (tr_name t))) (map fst (tl (tag_items t))).
Proof. reflexivity. Qed.
