(* C16 (HTML half): the public functions of the model on every string and every
   position: no internal error, every reported range is a well-formed tag range
   of the source, match = head of balanced_outward, nesting of the balance lists,
   attribute ranges inside the tag. *)
From Coq Require Import List NArith ZArith Bool Lia ZifyBool.
From Emmet Require Import lib.Base lib.HtmlLib gen.GenHtml model.HtmlScan model.HtmlMatch
  proofs.HtmlScanProofs proofs.HtmlFoldProofs.
Import ListNotations.
Local Open Scope N_scope.

(* a reported tag range: inside the source, from `<` to `>`, name right after `<` or `</` *)
Definition tag_range_wf (s : str) (closing : bool) (name : str) (r : N * N) : Prop :=
  fst r < snd r /\ snd r <= N.of_nat (length s) /\
  nth_error s (N.to_nat (fst r)) = Some c_lt /\
  nth_error s (N.to_nat (snd r) - 1) = Some c_gt /\
  name <> [] /\
  if closing
  then nth_error s (N.to_nat (fst r) + 1) = Some c_slash /\
       sliceN s (fst r + 2) (fst r + 2 + N.of_nat (length name)) = name /\
       fst r + 2 + N.of_nat (length name) < snd r
  else sliceN s (fst r + 1) (fst r + 1 + N.of_nat (length name)) = name /\
       fst r + 1 + N.of_nat (length name) < snd r.

Definition balanced_wf (s : str) (b : balanced) : Prop :=
  tag_range_wf s false (b_name b) (b_open b) /\
  match b_close b with Some c => tag_range_wf s true (b_name b) c | None => True end.

Definition OpenP (s : str) (name : str) (r : N * N) : Prop := tag_range_wf s false name r.
Definition CloseP (s : str) (name : str) (r : N * N) : Prop := tag_range_wf s true name r.

Lemma scan_evs_from special s : evs_from (OpenP s) (CloseP s) (fst (scan special s)).
Proof.
  destruct (scan_events_wf special s) as [HF _]. rewrite Forall_forall in HF.
  intros e He. specialize (HF e He). unfold event_wf in HF.
  destruct HF as (H1 & H2 & H3 & H4 & H5 & H6).
  unfold OpenP, CloseP, tag_range_wf. cbn [fst snd].
  destruct (ev_type e); repeat split; try assumption; try tauto.
Qed.

Lemma bal_from_wf s b : bal_from (OpenP s) (CloseP s) b -> balanced_wf s b.
Proof. intros H. exact H. Qed.

(* ------------------------------------------------------------------ balanced_outward *)
Theorem balanced_outward_wf o s pos :
  exists l, balanced_outward o s pos = Ok l /\
    Forall (balanced_wf s) l /\ Forall (contains_pos pos) l /\ strictly_nested l.
Proof.
  unfold balanced_outward, balanced_outward_of. rewrite scan_no_internal_error.
  eexists. split; [reflexivity|].
  destruct (scan_events_wf (o_special o) s) as [_ Hord].
  destruct (outward_go_nested o pos _ Hord) as [A B].
  split; [|split; assumption].
  apply (outward_go_from (OpenP s) (CloseP s)); [apply scan_evs_from|constructor].
Qed.

(* ------------------------------------------------------------------ attributes of a matched tag *)
Lemma sliceN_length (s : str) a b : b <= N.of_nat (length s) -> a <= b -> length (sliceN s a b) = N.to_nat (b - a).
Proof.
  intros H1 H2. unfold sliceN. rewrite firstn_length, skipn_length. lia.
Qed.

Lemma sliceN_sliceN (src : str) a b x y :
  b <= N.of_nat (length src) -> a <= b -> x <= y -> y <= b - a ->
  sliceN (sliceN src a b) x y = sliceN src (a + x) (a + y).
Proof.
  intros H1 H2 H3 H4. unfold sliceN at 1 3. unfold sliceN.
  rewrite frag_slice.
  - f_equal; [lia|]. f_equal. lia.
  - rewrite firstn_length, skipn_length. lia.
Qed.

Lemma attrs_sorted_shift (src : str) start stop :
  stop <= N.of_nat (length src) -> start <= stop ->
  forall l lo hi, hi <= stop - start ->
    attrs_sorted (sliceN src start stop) lo hi l ->
    attrs_sorted src (lo + start) (hi + start) (map (shift_attr start) l).
Proof.
  intros Hs1 Hs2. induction l as [|a rest IH]; intros lo hi Hhi H; [exact I|].
  cbn [map attrs_sorted] in *. destruct H as [Hw Hr].
  assert (Hend : attr_end (shift_attr start a) = attr_end a + start).
  { unfold attr_end, shift_attr. cbn [a_value a_ne]. destruct (a_value a) as [[[v vs] ve]|]; reflexivity. }
  split.
  - unfold attr_wf in *. unfold shift_attr. cbn [a_ns a_ne a_name a_value].
    destruct Hw as (W1 & W2 & W3 & W4).
    assert (Hne : a_ne a <= hi).
    { destruct (a_value a) as [[[v vs] ve]|]; [|exact W4]. destruct W4 as (X1 & X2 & X3 & _). lia. }
    split; [lia|]. split; [lia|]. split.
    { rewrite W3. rewrite sliceN_sliceN by lia. f_equal; lia. }
    destruct (a_value a) as [[[v vs] ve]|].
    + destruct W4 as (X1 & X2 & X3 & X4 & X5).
      split; [lia|]. split; [lia|]. split; [lia|]. split; [|exact X5].
      rewrite X4. rewrite sliceN_sliceN by lia. f_equal; lia.
    + lia.
  - rewrite Hend. apply IH; [exact Hhi|exact Hr].
Qed.

(* get_attributes: the tokens lie between the tag start and the tag end, in order,
   and slice the SOURCE to their names and values ("attrs_shift") *)
Theorem get_attributes_sorted (src : str) start stop name :
  stop <= N.of_nat (length src) -> start <= stop ->
  attrs_sorted src start stop (get_attributes src start stop name).
Proof.
  intros H1 H2. unfold get_attributes.
  pose proof (attributes_sorted (sliceN src start stop) (Some name)) as H.
  rewrite sliceN_length in H by assumption. rewrite N2Nat.id in H.
  apply (attrs_sorted_shift src start stop H1 H2) in H; [|lia].
  rewrite N.add_0_l in H. replace (stop - start + start) with stop in H by lia. exact H.
Qed.

(* ------------------------------------------------------------------ match *)
Theorem html_match_wf o s pos :
  exists r l, html_match o s pos = Ok r /\ balanced_outward o s pos = Ok l /\
    match r with
    | None => l = []
    | Some m =>
        (* match() equals the first entry of balanced_outward() *)
        hd_error l = Some (mkBal (m_name m) (m_open m) (m_close m)) /\
        attrs_sorted s (fst (m_open m)) (snd (m_open m)) (m_attrs m)
    end.
Proof.
  destruct (balanced_outward_wf o s pos) as (l & Hl & Hwf & _).
  unfold html_match, html_match_of, after_scan. rewrite scan_no_internal_error.
  unfold balanced_outward, balanced_outward_of in Hl. rewrite scan_no_internal_error in Hl.
  inversion Hl as [Hl']; clear Hl.
  pose proof (match_go_hd_outward o pos (fst (scan (o_special o) s)) []) as Hm.
  rewrite Hl' in Hm.
  destruct (match_go o pos [] (fst (scan (o_special o) s))) as [b|].
  - eexists _, l. split; [reflexivity|]. split; [unfold balanced_outward, balanced_outward_of; rewrite scan_no_internal_error, Hl'; reflexivity|].
    cbn [m_name m_open m_close m_attrs]. split; [destruct b; symmetry; exact Hm|].
    destruct l as [|b' l']; [discriminate|]. cbn in Hm. inversion Hm; subst b'.
    inversion Hwf as [|? ? Hb _]; subst. destruct Hb as [Ho _]. unfold tag_range_wf in Ho.
    destruct Ho as (O1 & O2 & _).
    apply get_attributes_sorted; lia.
  - exists None, l. split; [reflexivity|]. split; [unfold balanced_outward, balanced_outward_of; rewrite scan_no_internal_error, Hl'; reflexivity|].
    destruct l; [reflexivity|discriminate].
Qed.

(* ------------------------------------------------------------------ balanced_inward *)
Theorem balanced_inward_wf o s pos :
  exists l, balanced_inward o s pos = Ok l /\ Forall (balanced_wf s) l /\ inward_nested l.
Proof.
  unfold balanced_inward, balanced_inward_of, after_scan. rewrite scan_no_internal_error.
  destruct (scan_events_wf (o_special o) s) as [_ Hord].
  destruct (inward_go o pos [] (fst (scan (o_special o) s))) as [l|] eqn:E.
  - exists l. split; [reflexivity|]. split.
    + eapply (inward_go_from (OpenP s) (CloseP s)); [apply scan_evs_from|constructor|exact E].
    + eapply (inward_go_nested o pos _ [] 0); [exact Hord|exact I|exact E].
  - exists []. split; [reflexivity|]. split; [constructor|exact I].
Qed.

(* plain reading of "successive balanced_inward entries lie inside each other" *)
Fixpoint lie_inside (l : list balanced) : Prop :=
  match l with
  | a :: (b :: _) as rest => bal_start a <= bal_start b /\ bal_end b <= bal_end a /\ lie_inside rest
  | _ => True
  end.

Lemma inward_nested_lie_inside : forall l, inward_nested l -> lie_inside l.
Proof.
  induction l as [|a rest IH]; intros H; [exact I|].
  cbn [inward_nested] in H. destruct H as (W & R & N).
  destruct rest as [|b rest']; [exact I|].
  cbn [lie_inside]. destruct R as (c & Ec & R1 & R2).
  unfold bal_wf in W. rewrite Ec in W. destruct W as (W1 & W2 & W3).
  unfold bal_start, bal_end in *. rewrite Ec. repeat split; try lia. apply IH. exact N.
Qed.
