(* C10 Level B: the scanner model on rendered stylesheets.
     css_scan_render : wf_sheet sh = true -> scan (render sh) = events sh
   for every sheet of the grammar of model/CssSheet.v.  Technique: the loop is structural
   recursion with a skip counter, so "one round consumes the block b and turns state st into
   st'" composes by list append (scan_go_round); one lemma per kind of lexeme, a fold over
   runs, the selector invariant, then induction over the item tree. *)
From Coq Require Import ZArith List Bool Lia ZifyBool.
From Emmet Require Import lib.Base model.CssScan model.CssMatch model.CssTree model.CssSheet
     proofs.CssScanProofs.
Import ListNotations.
Local Open Scope Z_scope.

Lemma zlen_app {A} (a b : list A) : zlen (a ++ b) = zlen a + zlen b.
Proof. unfold zlen. rewrite app_length. lia. Qed.
Lemma zlen_cons {A} (x : A) l : zlen (x :: l) = 1 + zlen l.
Proof. unfold zlen. cbn [length]. lia. Qed.
Lemma zlen_nil {A} : zlen (@nil A) = 0.
Proof. reflexivity. Qed.
Lemma zlen_nonneg {A} (l : list A) : 0 <= zlen l.
Proof. unfold zlen. lia. Qed.

(* ------------------------------------------------------------------ the loop *)
Lemma scan_go_skip : forall s skip st pos, (skip <= length s)%nat ->
  scan_go skip st pos s = scan_go 0 st (pos + Z.of_nat skip) (skipn skip s).
Proof.
  induction s as [|c r IH]; intros skip st pos H.
  - cbn [length] in H. assert (skip = O) by lia. subst. cbn [skipn]. rewrite Z.add_0_r. reflexivity.
  - destruct skip as [|k].
    + cbn [skipn]. rewrite Z.add_0_r. reflexivity.
    + cbn [length] in H. cbn [scan_go skipn]. rewrite IH by lia. f_equal. lia.
Qed.

(* one round that consumes exactly the non-empty block [b] *)
Lemma scan_go_round b rest st pos st' evs :
  b <> [] -> scan_round st pos (b ++ rest) = (length b, st', evs) ->
  scan_go 0 st pos (b ++ rest) = evs ++ scan_go 0 st' (pos + zlen b) rest.
Proof.
  intros Hb H. destruct b as [|c b']; [contradiction|].
  cbn [app] in *. cbn [scan_go]. rewrite H. cbn [length Nat.pred].
  rewrite scan_go_skip by (rewrite app_length; lia).
  rewrite skipn_app, skipn_all, Nat.sub_diag. cbn [skipn app].
  f_equal. f_equal. rewrite zlen_cons. unfold zlen. lia.
Qed.

(* ------------------------------------------------------------------ character facts *)
Lemma comment_len_head c rest : (c =? c_slash)%N = false -> comment_len (c :: rest) = O.
Proof. intros H. unfold comment_len. destruct rest; [reflexivity|]. rewrite H. reflexivity. Qed.

Lemma space_not c k : is_space c = true -> is_space k = false -> (c =? k)%N = false.
Proof.
  intros H Hk. destruct (c =? k)%N eqn:E; [|reflexivity].
  apply N.eqb_eq in E. subst. congruence.
Qed.

Lemma plain_inv c : plain c = true ->
  is_space c = false /\ is_quote c = false /\ (c =? c_lbrace)%N = false /\ (c =? c_rbrace)%N = false /\
  (c =? c_semi)%N = false /\ (c =? c_colon)%N = false /\ (c =? c_lparen)%N = false /\
  (c =? c_rparen)%N = false /\ (c =? c_slash)%N = false.
Proof.
  unfold plain. intros H. apply negb_true_iff in H.
  repeat (apply orb_false_iff in H; destruct H as [H ?]). repeat split; try assumption.
  unfold is_space, is_white_space.
  repeat match goal with E : (c =? _)%N = false |- _ => rewrite E; clear E end. reflexivity.
Qed.

Lemma quote_cases q : is_quote q = true -> q = c_dquote \/ q = c_squote.
Proof.
  unfold is_quote. intros H. apply orb_true_iff in H. destruct H as [H|H]; apply N.eqb_eq in H; auto.
Qed.

(* ------------------------------------------------------------------ gaps are transparent *)
Lemma ws_round c rest st pos : is_space c = true ->
  scan_go 0 st pos (c :: rest) = scan_go (cspan is_space rest) st (pos + 1) rest.
Proof.
  intros H. cbn [scan_go]. unfold scan_round.
  rewrite comment_len_head by (apply space_not; [exact H|reflexivity]).
  cbn [cspan]. rewrite H. cbn [app Nat.pred]. reflexivity.
Qed.

Lemma ws_skip_eq rest st pos : scan_go (cspan is_space rest) st pos rest = scan_go 0 st pos rest.
Proof.
  destruct rest as [|c r]; [reflexivity|]. cbn [cspan]. destruct (is_space c) eqn:E; [|reflexivity].
  rewrite (ws_round c r st pos E). reflexivity.
Qed.

Lemma scan_ws c rest st pos : is_space c = true ->
  scan_go 0 st pos (c :: rest) = scan_go 0 st (pos + 1) rest.
Proof. intros H. rewrite ws_round by exact H. apply ws_skip_eq. Qed.

Lemma comment_body_closed : forall body rest, com_ok body = true ->
  comment_body (body ++ c_star :: c_slash :: rest) = (length body + 2)%nat.
Proof.
  induction body as [|c r IH]; intros rest H.
  - reflexivity.
  - cbn [com_ok] in H. apply andb_true_iff in H. destruct H as [H1 H2].
    cbn [app comment_body length]. specialize (IH rest H2).
    destruct (c =? c_star)%N eqn:Ec.
    + destruct r as [|c2 r'].
      * cbn [app]. cbn [app] in IH. change (c_star =? c_slash)%N with false. cbv iota.
        cbn [app] in IH. rewrite IH. reflexivity.
      * cbn [app]. cbn [andb] in H1. destruct (c2 =? c_slash)%N; [discriminate|].
        cbn [app] in IH. rewrite IH. reflexivity.
    + rewrite IH. reflexivity.
Qed.

Lemma scan_comment body rest st pos : com_ok body = true ->
  scan_go 0 st pos (render_glex (GCom body) ++ rest) =
  scan_go 0 st (pos + zlen (render_glex (GCom body))) rest.
Proof.
  intros H. rewrite (scan_go_round (render_glex (GCom body)) rest st pos st []).
  - reflexivity.
  - discriminate.
  - unfold scan_round. cbn [render_glex app comment_len].
    change ((c_slash =? c_slash)%N && (c_star =? c_star)%N) with true. cbv iota.
    rewrite <- app_assoc. cbn [app]. rewrite comment_body_closed by exact H.
    replace (length (c_slash :: c_star :: body ++ [c_star; c_slash])) with (2 + (length body + 2))%nat
      by (cbn [length]; rewrite app_length; cbn [length]; lia).
    reflexivity.
Qed.

Lemma scan_glex g rest st pos : glex_ok g = true ->
  scan_go 0 st pos (render_glex g ++ rest) = scan_go 0 st (pos + zlen (render_glex g)) rest.
Proof.
  destruct g as [c|body]; intros H.
  - cbn [render_glex app]. rewrite zlen_cons, zlen_nil. rewrite scan_ws by exact H. reflexivity.
  - apply scan_comment. exact H.
Qed.

Lemma scan_gap : forall g rest st pos, gap_ok g = true ->
  scan_go 0 st pos (render_gap g ++ rest) = scan_go 0 st (pos + zlen (render_gap g)) rest.
Proof.
  induction g as [|x g IH]; intros rest st pos H.
  - cbn. rewrite Z.add_0_r. reflexivity.
  - cbn [gap_ok forallb] in H. apply andb_true_iff in H. destruct H as [H1 H2].
    unfold render_gap. cbn [flat_map]. rewrite <- app_assoc. rewrite scan_glex by exact H1.
    fold (render_gap g). rewrite IH by exact H2. rewrite zlen_app. f_equal. lia.
Qed.

(* ------------------------------------------------------------------ tokens *)
(* the state after a token of [n] characters at [pos]: `state.start` is kept when set *)
Definition tok_st (st : sstate) (pos n ex : Z) : sstate :=
  mkSt (if st_start st =? -1 then pos else st_start st) (pos + n)
       (st_pdelim st) (st_pstart st) (st_pend st) ex (st_sel st).

Lemma tok_st_seq st pos n ex n' m ex' : 0 <= pos ->
  tok_st (tok_st st pos n ex) (pos + n') m ex' = tok_st st pos (n' + m) ex'.
Proof.
  intros Hp. unfold tok_st. cbn [st_start st_pdelim st_pstart st_pend st_sel].
  destruct (st_start st =? -1) eqn:E.
  - replace (pos =? -1) with false by lia. f_equal. lia.
  - rewrite E. f_equal. lia.
Qed.

Lemma tok_st_seq2 st p0 n ex pos m ex' : 0 <= p0 ->
  tok_st (tok_st st p0 n ex) pos m ex' = tok_st st p0 (pos - p0 + m) ex'.
Proof.
  intros Hp. replace pos with (p0 + (pos - p0)) at 1 by lia. apply tok_st_seq. exact Hp.
Qed.

Lemma tok_st_expr st pos n ex : st_expr (tok_st st pos n ex) = ex.
Proof. reflexivity. Qed.

Lemma round_plain c rest st pos : plain c = true ->
  scan_round st pos (c :: rest) = (1%nat, tok_st st pos 1 (st_expr st), []).
Proof.
  intros H. apply plain_inv in H. destruct H as (Hs & Hq & H1 & H2 & H3 & H4 & H5 & H6 & H7).
  unfold scan_round. rewrite comment_len_head by exact H7. cbn [cspan]. rewrite Hs.
  rewrite H2, H3, H1, H4. unfold else_branch. rewrite H5, H6, Hq. reflexivity.
Qed.

Lemma round_open rest st pos :
  scan_round st pos (c_lparen :: rest) = (1%nat, tok_st st pos 1 (st_expr st + 1), []).
Proof. unfold scan_round. rewrite comment_len_head by reflexivity. reflexivity. Qed.

Lemma round_close rest st pos :
  scan_round st pos (c_rparen :: rest) = (1%nat, tok_st st pos 1 (st_expr st - 1), []).
Proof. unfold scan_round. rewrite comment_len_head by reflexivity. reflexivity. Qed.

Lemma round_colon_expr rest st pos : (st_expr st =? 0) = false ->
  scan_round st pos (c_colon :: rest) = (1%nat, tok_st st pos 1 (st_expr st), []).
Proof.
  intros H. unfold scan_round. rewrite comment_len_head by reflexivity.
  cbn [cspan]. change (is_space c_colon) with false. cbv iota.
  change (c_colon =? c_rbrace)%N with false. change (c_colon =? c_semi)%N with false.
  change (c_colon =? c_lbrace)%N with false. change (c_colon =? c_colon)%N with true. cbv iota.
  unfold truthyZ. rewrite H. reflexivity.
Qed.

Lemma cspan_colons : forall k c rest, (c_colon =? c)%N = false ->
  cspan (N.eqb c_colon) (repeat c_colon k ++ c :: rest) = k.
Proof.
  induction k as [|k IH]; intros c rest H; cbn [repeat app cspan].
  - rewrite H. reflexivity.
  - change (c_colon =? c_colon)%N with true. cbv iota. rewrite IH by exact H. reflexivity.
Qed.

(* two or more colons outside parentheses are one token *)
Lemma round_colons k c rest st pos : (st_expr st =? 0) = true -> (c_colon =? c)%N = false ->
  scan_round st pos ((c_colon :: repeat c_colon (S k)) ++ c :: rest) =
    (length (c_colon :: repeat c_colon (S k)), tok_st st pos (zlen (c_colon :: repeat c_colon (S k))) (st_expr st), []).
Proof.
  intros H Hc. unfold scan_round. cbn [app]. rewrite comment_len_head by reflexivity.
  cbn [cspan]. change (is_space c_colon) with false. cbv iota.
  change (c_colon =? c_rbrace)%N with false. change (c_colon =? c_semi)%N with false.
  change (c_colon =? c_lbrace)%N with false. change (c_colon =? c_colon)%N with true. cbv iota.
  unfold truthyZ. rewrite H. cbn [negb]. rewrite cspan_colons by exact Hc.
  unfold else_branch, tok_st, zlen. cbn [length]. rewrite repeat_length. reflexivity.
Qed.

(* a delimiting colon: outside parentheses, not followed by another colon *)
Definition head_not_colon (s : str) : Prop :=
  match s with c :: _ => (c_colon =? c)%N = false | [] => True end.

Lemma round_colon_delim rest st pos : (st_expr st =? 0) = true -> head_not_colon rest ->
  scan_round st pos (c_colon :: rest) = (1%nat, colon_branch st pos, []).
Proof.
  intros H Hr. unfold scan_round. rewrite comment_len_head by reflexivity.
  cbn [cspan]. change (is_space c_colon) with false. cbv iota.
  change (c_colon =? c_rbrace)%N with false. change (c_colon =? c_semi)%N with false.
  change (c_colon =? c_lbrace)%N with false. change (c_colon =? c_colon)%N with true. cbv iota.
  unfold truthyZ. rewrite H. cbn [negb].
  destruct rest as [|c r]; [reflexivity|]. cbn [head_not_colon] in Hr. cbn [cspan]. rewrite Hr. reflexivity.
Qed.

(* strings *)
Lemma lit_body_closed q : is_quote q = true -> forall body rest, forallb (sbit_ok q) body = true ->
  lit_body q (render_sbits body ++ q :: rest) = S (length (render_sbits body)).
Proof.
  intros Hq. induction body as [|b body IH]; intros rest H.
  - cbn [render_sbits flat_map app lit_body length]. rewrite N.eqb_refl. reflexivity.
  - cbn [forallb] in H. apply andb_true_iff in H. destruct H as [H1 H2].
    unfold render_sbits. cbn [flat_map]. fold (render_sbits body). rewrite <- app_assoc.
    destruct b as [c|c]; cbn [render_sbit app lit_body length].
    + cbn [sbit_ok] in H1. apply negb_true_iff in H1.
      apply orb_false_iff in H1. destruct H1 as [H1 Hb]. rewrite H1, Hb. rewrite IH by exact H2. reflexivity.
    + assert (E : ((c_bslash =? q) || (c_bslash =? c_nl) || (c_bslash =? c_cr))%N = false)
        by (destruct (quote_cases q Hq) as [-> | ->]; reflexivity).
      rewrite E. change (c_bslash =? c_bslash)%N with true. cbv iota.
      rewrite IH by exact H2. reflexivity.
Qed.

Lemma round_str q body rest st pos : is_quote q = true -> forallb (sbit_ok q) body = true ->
  scan_round st pos ((q :: render_sbits body ++ [q]) ++ rest) =
    (length (q :: render_sbits body ++ [q]), tok_st st pos (zlen (q :: render_sbits body ++ [q])) (st_expr st), []).
Proof.
  intros Hq Hb. unfold scan_round. cbn [app].
  assert (Hs : (q =? c_slash)%N = false) by (destruct (quote_cases q Hq) as [-> | ->]; reflexivity).
  rewrite comment_len_head by exact Hs. cbn [cspan].
  assert (Hsp : is_space q = false) by (destruct (quote_cases q Hq) as [-> | ->]; reflexivity).
  rewrite Hsp.
  assert (E1 : (q =? c_rbrace)%N = false) by (destruct (quote_cases q Hq) as [-> | ->]; reflexivity).
  assert (E2 : (q =? c_semi)%N = false) by (destruct (quote_cases q Hq) as [-> | ->]; reflexivity).
  assert (E3 : (q =? c_lbrace)%N = false) by (destruct (quote_cases q Hq) as [-> | ->]; reflexivity).
  assert (E4 : (q =? c_colon)%N = false) by (destruct (quote_cases q Hq) as [-> | ->]; reflexivity).
  assert (E5 : (q =? c_lparen)%N = false) by (destruct (quote_cases q Hq) as [-> | ->]; reflexivity).
  assert (E6 : (q =? c_rparen)%N = false) by (destruct (quote_cases q Hq) as [-> | ->]; reflexivity).
  rewrite E1, E2, E3, E4. unfold else_branch. rewrite E5, E6, Hq. unfold literal_len. rewrite Hq.
  rewrite <- app_assoc. cbn [app]. rewrite lit_body_closed by assumption.
  unfold tok_st, zlen. cbn [length]. rewrite app_length. cbn [length].
  replace (length (render_sbits body) + 1)%nat with (S (length (render_sbits body))) by lia. reflexivity.
Qed.

Lemma render_lexs_cons lx r : render_lexs (lx :: r) = render_lex lx ++ render_lexs r.
Proof. reflexivity. Qed.

(* a `/` that does not open a comment *)
Definition head_not_star (s : str) : Prop :=
  match s with c :: _ => (c =? c_star)%N = false | [] => True end.

Lemma round_slash rest st pos : head_not_star rest ->
  scan_round st pos (c_slash :: rest) = (1%nat, tok_st st pos 1 (st_expr st), []).
Proof.
  intros H. unfold scan_round.
  assert (E : comment_len (c_slash :: rest) = O).
  { unfold comment_len. destruct rest as [|c2 r]; [reflexivity|]. cbn [head_not_star] in H. rewrite H.
    rewrite andb_false_r. reflexivity. }
  rewrite E. reflexivity.
Qed.

Lemma head_lex_not_star d y tail : lex_ok d y = true ->
  match y with LCh c => (c =? c_star)%N = false | _ => True end -> head_not_star (render_lex y ++ tail).
Proof.
  destruct y as [c|q body| | | |k c| |g]; intros H Hs; cbn [render_lex app head_not_star]; cbn [lex_ok] in H;
    try reflexivity; try exact Hs.
  - apply andb_true_iff in H. destruct H as [Hq _]. destruct (quote_cases q Hq) as [-> | ->]; reflexivity.
  - destruct g as [c|b]; cbn [render_glex app]; [|reflexivity]. cbn [glex_ok] in H.
    apply space_not; [exact H|reflexivity].
Qed.

(* from the side condition of the grammar *)
Lemma next_ok_head d x r tail : next_ok x r = true -> lexs_ok d r = true ->
  x = LSlash -> head_not_star (render_lexs r ++ tail).
Proof.
  intros Hn Hr ->. cbn [next_ok] in Hn. destruct r as [|y r]; [discriminate|].
  cbn [lexs_ok] in Hr. apply andb_true_iff in Hr. destruct Hr as [Hr _]. apply andb_true_iff in Hr. destruct Hr as [Hy _].
  rewrite render_lexs_cons, <- app_assoc. apply (head_lex_not_star d); [exact Hy|].
  destruct y; try exact I. apply negb_true_iff in Hn. exact Hn.
Qed.

(* ------------------------------------------------------------------ one lexeme *)
Definition lex_st (st : sstate) (pos : Z) (lx : lex) : sstate :=
  if is_tok lx then tok_st st pos (zlen (render_lex lx)) (lex_d (st_expr st) lx) else st.

Lemma scan_block b rest st pos st' :
  b <> [] -> scan_round st pos (b ++ rest) = (length b, st', []) ->
  scan_go 0 st pos (b ++ rest) = scan_go 0 st' (pos + zlen b) rest.
Proof. intros Hb H. rewrite (scan_go_round b rest st pos st' []) by assumption. reflexivity. Qed.

Lemma scan_lex lx rest st pos : 0 <= pos -> lex_ok (st_expr st) lx = true ->
  (lx = LSlash -> head_not_star rest) ->
  scan_go 0 st pos (render_lex lx ++ rest) =
  scan_go 0 (lex_st st pos lx) (pos + zlen (render_lex lx)) rest.
Proof.
  intros Hp H Hsl. destruct lx as [c|q body| | | |k c| |g]; unfold lex_st; cbn [is_tok lex_d render_lex]; cbn [lex_ok] in H.
  - apply (scan_block [c]); [discriminate|]. apply round_plain. exact H.
  - apply andb_true_iff in H. destruct H as [Hq Hb].
    apply (scan_block (q :: render_sbits body ++ [q])); [discriminate|]. apply round_str; assumption.
  - apply (scan_block [c_lparen]); [discriminate|]. apply round_open.
  - apply (scan_block [c_rparen]); [discriminate|]. apply round_close.
  - apply negb_true_iff in H. apply (scan_block [c_colon]); [discriminate|]. apply round_colon_expr. exact H.
  - apply andb_true_iff in H. destruct H as [Hd Hc].
    pose proof (plain_inv c Hc) as (_ & _ & _ & _ & _ & Hcc & _).
    assert (Hcc' : (c_colon =? c)%N = false) by (rewrite N.eqb_sym; exact Hcc).
    change (c_colon :: repeat c_colon (S k) ++ [c]) with ((c_colon :: repeat c_colon (S k)) ++ [c]).
    rewrite <- app_assoc. cbn [app].
    change (c_colon :: repeat c_colon (S k) ++ c :: rest) with ((c_colon :: repeat c_colon (S k)) ++ c :: rest).
    rewrite (scan_block (c_colon :: repeat c_colon (S k)) (c :: rest) st pos _ ltac:(discriminate)
               (round_colons k c rest st pos Hd Hcc')).
    change (c :: rest) with ([c] ++ rest).
    rewrite (scan_block [c] rest _ _ _ ltac:(discriminate) (round_plain c rest _ _ Hc)).
    rewrite tok_st_expr. rewrite tok_st_seq by exact Hp.
    change (c_colon :: repeat c_colon (S k) ++ [c]) with ((c_colon :: repeat c_colon (S k)) ++ [c]).
    rewrite zlen_app. change (zlen [c]) with 1. f_equal. lia.
  - apply (scan_block [c_slash]); [discriminate|]. apply round_slash. apply Hsl. reflexivity.
  - apply scan_glex. exact H.
Qed.

(* ------------------------------------------------------------------ runs *)

Lemma gap_lex_d ex lx : is_tok lx = false -> lex_d ex lx = ex.
Proof. destruct lx; intros H; try discriminate; reflexivity. Qed.

(* lexemes that follow a first token: the state has the form [tok_st st p0 n ex]
   (token region [p0, p0+n) so far); it keeps that form, and when the list ends with a token
   the region extends to the end of the list *)
Lemma scan_lexs_after : forall lexs st p0 n ex pos rest,
  0 <= p0 -> 0 <= n -> p0 + n <= pos -> lexs_ok ex lexs = true ->
  exists m, 0 <= m /\ p0 + m <= pos + zlen (render_lexs lexs) /\
    scan_go 0 (tok_st st p0 n ex) pos (render_lexs lexs ++ rest) =
    scan_go 0 (tok_st st p0 m (lexs_d ex lexs)) (pos + zlen (render_lexs lexs)) rest /\
    (match lexs with [] => p0 + n = pos | _ => ends_tok lexs = true end ->
     p0 + m = pos + zlen (render_lexs lexs)).
Proof.
  induction lexs as [|lx r IH]; intros st p0 n ex pos rest Hp0 Hn Hle H.
  - exists n. change (zlen (render_lexs [])) with 0. cbn [render_lexs flat_map app lexs_d]. rewrite Z.add_0_r.
    repeat split; try lia.
  - cbn [lexs_ok] in H. apply andb_true_iff in H. destruct H as [H1 H2].
    apply andb_true_iff in H1. destruct H1 as [H1 Hnx].
    rewrite render_lexs_cons, <- app_assoc, zlen_app.
    pose proof (zlen_nonneg (render_lex lx)) as Hl.
    rewrite (scan_lex lx _ (tok_st st p0 n ex) pos);
      [|lia|exact H1|apply (next_ok_head (lex_d ex lx)); assumption].
    unfold lex_st. rewrite tok_st_expr. cbn [lexs_d].
    destruct (is_tok lx) eqn:Et.
    + rewrite tok_st_seq2 by exact Hp0.
      destruct (IH st p0 (pos - p0 + zlen (render_lex lx)) (lex_d ex lx) (pos + zlen (render_lex lx)) rest)
        as (m & Hm & Hmle & Hs & He); try lia; try exact H2.
      exists m. split; [exact Hm|]. split; [lia|]. split.
      * rewrite Hs. f_equal. lia.
      * intros E. rewrite Z.add_assoc. apply He. destruct r; [lia|exact E].
    + rewrite (gap_lex_d ex lx Et) in *.
      destruct (IH st p0 n ex (pos + zlen (render_lex lx)) rest)
        as (m & Hm & Hmle & Hs & He); try lia; try exact H2.
      exists m. split; [exact Hm|]. split; [lia|]. split.
      * rewrite Hs. f_equal. lia.
      * intros E. rewrite Z.add_assoc. apply He. destruct r; [cbn [ends_tok] in E; congruence|exact E].
Qed.

(* a run: the token region is the whole run *)
Lemma scan_run r rest st pos : 0 <= pos -> st_expr st = 0 -> run_ok r = true ->
  scan_go 0 st pos (render_lexs r ++ rest) =
  scan_go 0 (tok_st st pos (zlen (render_lexs r)) 0) (pos + zlen (render_lexs r)) rest.
Proof.
  intros Hp He H. unfold run_ok in H.
  apply andb_true_iff in H. destruct H as [H H4]. apply andb_true_iff in H. destruct H as [H H3].
  apply andb_true_iff in H. destruct H as [H1 H2]. apply Z.eqb_eq in H2.
  destruct r as [|lx r]; [discriminate|]. cbn [starts_tok] in H3.
  cbn [lexs_ok] in H1. apply andb_true_iff in H1. destruct H1 as [H1 H1'].
  apply andb_true_iff in H1. destruct H1 as [H1 Hnx].
  cbn [lexs_d] in H2.
  rewrite render_lexs_cons, <- app_assoc, zlen_app.
  pose proof (zlen_nonneg (render_lex lx)) as Hl.
  rewrite (scan_lex lx _ st pos);
    [|lia|rewrite He; exact H1|apply (next_ok_head (lex_d 0 lx)); assumption].
  unfold lex_st. rewrite H3, He.
  destruct (scan_lexs_after r st pos (zlen (render_lex lx)) (lex_d 0 lx) (pos + zlen (render_lex lx)) rest)
    as (m & Hm & Hmle & Hs & Hend); try lia; try exact H1'.
  rewrite Hs, H2.
  assert (Em : m = zlen (render_lex lx) + zlen (render_lexs r)).
  { assert (pos + m = pos + zlen (render_lex lx) + zlen (render_lexs r)); [|lia].
    apply Hend. destruct r; [reflexivity|exact H4]. }
  rewrite Em. f_equal. lia.
Qed.

(* ------------------------------------------------------------------ delimiters *)
Lemma scan_semi rest st pos :
  scan_go 0 st pos (c_semi :: rest) =
  snd (end_branch st pos false) ++ scan_go 0 (st_reset st) (pos + 1) rest.
Proof.
  change (c_semi :: rest) with ([c_semi] ++ rest).
  rewrite (scan_go_round [c_semi] rest st pos (st_reset st) (snd (end_branch st pos false)));
    [reflexivity|discriminate|].
  unfold scan_round. cbn [app]. rewrite comment_len_head by reflexivity. reflexivity.
Qed.

Lemma scan_rbrace rest st pos :
  scan_go 0 st pos (c_rbrace :: rest) =
  snd (end_branch st pos true) ++ scan_go 0 (st_reset st) (pos + 1) rest.
Proof.
  change (c_rbrace :: rest) with ([c_rbrace] ++ rest).
  rewrite (scan_go_round [c_rbrace] rest st pos (st_reset st) (snd (end_branch st pos true)));
    [reflexivity|discriminate|].
  unfold scan_round. cbn [app]. rewrite comment_len_head by reflexivity. reflexivity.
Qed.

Lemma scan_lbrace rest st pos :
  scan_go 0 st pos (c_lbrace :: rest) =
  snd (open_branch st pos) ++ scan_go 0 (fst (open_branch st pos)) (pos + 1) rest.
Proof.
  change (c_lbrace :: rest) with ([c_lbrace] ++ rest).
  rewrite (scan_go_round [c_lbrace] rest st pos (fst (open_branch st pos)) (snd (open_branch st pos)));
    [reflexivity|discriminate|].
  unfold scan_round. cbn [app]. rewrite comment_len_head by reflexivity.
  cbn [cspan]. change (is_space c_lbrace) with false. cbv iota.
  change (c_lbrace =? c_rbrace)%N with false. change (c_lbrace =? c_semi)%N with false.
  change (c_lbrace =? c_lbrace)%N with true. cbv iota.
  destruct (open_branch st pos) as [st' evs]. reflexivity.
Qed.

Lemma scan_colon rest st pos : st_expr st = 0 -> head_not_colon rest ->
  scan_go 0 st pos (c_colon :: rest) = scan_go 0 (colon_branch st pos) (pos + 1) rest.
Proof.
  intros He Hr. change (c_colon :: rest) with ([c_colon] ++ rest).
  rewrite (scan_go_round [c_colon] rest st pos (colon_branch st pos) []); [reflexivity|discriminate|].
  apply round_colon_delim; [rewrite He; reflexivity|exact Hr].
Qed.

(* what may follow a delimiting colon *)
Lemma head_glex g tail : glex_ok g = true -> head_not_colon (render_glex g ++ tail).
Proof.
  destruct g as [c|b]; intros H; cbn [render_glex app head_not_colon]; [|reflexivity].
  cbn [glex_ok] in H. destruct (c_colon =? c)%N eqn:E; [|reflexivity].
  apply N.eqb_eq in E. subst c. discriminate.
Qed.

Lemma head_tok lx tail : lex_ok 0 lx = true -> is_tok lx = true ->
  match lx with LPseudo _ _ => False | _ => True end -> head_not_colon (render_lex lx ++ tail).
Proof.
  destruct lx as [c|q body| | | |k c| |g]; intros H Ht Hp; cbn [render_lex app head_not_colon]; cbn [lex_ok] in H;
    try reflexivity; try contradiction; try discriminate.
  - apply plain_inv in H. destruct H as (_ & _ & _ & _ & _ & H & _). rewrite N.eqb_sym. exact H.
  - apply andb_true_iff in H. destruct H as [Hq _]. destruct (quote_cases q Hq) as [-> | ->]; reflexivity.
Qed.

Lemma colon_sep_head g r tail : gap_ok g = true -> run_ok r = true -> colon_sep g r = true ->
  head_not_colon (render_gap g ++ render_lexs r ++ tail).
Proof.
  intros Hg Hr Hs. destruct g as [|x g].
  - cbn [render_gap flat_map app]. unfold run_ok in Hr.
    apply andb_true_iff in Hr. destruct Hr as [Hr _]. apply andb_true_iff in Hr. destruct Hr as [Hr H3].
    apply andb_true_iff in Hr. destruct Hr as [H1 _].
    destruct r as [|lx r]; [discriminate|]. cbn [starts_tok] in H3. cbn [lexs_ok] in H1.
    apply andb_true_iff in H1. destruct H1 as [H1 _]. apply andb_true_iff in H1. destruct H1 as [H1 _].
    rewrite render_lexs_cons, <- app_assoc. apply head_tok; [exact H1|exact H3|].
    cbn [colon_sep] in Hs. destruct lx; try exact I. discriminate.
  - cbn [gap_ok forallb] in Hg. apply andb_true_iff in Hg. destruct Hg as [Hx _].
    unfold render_gap. cbn [flat_map]. rewrite <- app_assoc. apply head_glex. exact Hx.
Qed.

(* ------------------------------------------------------------------ declarations *)
Lemma decl_events ns nl colon vs vl semi : 0 <= ns -> 0 <= nl -> 0 <= vs ->
  end_branch (tok_st (colon_branch (tok_st st0 ns nl 0) colon) vs vl 0) semi false =
  (st0, [mkEv PropertyName ns (ns + nl) colon; mkEv PropertyValue vs (vs + vl) semi]).
Proof.
  intros H1 Hl H2. unfold end_branch, tok_st, colon_branch, st0, st_reset.
  cbn [st_start st_end st_pdelim st_pstart st_pend st_expr st_sel].
  change (-1 =? -1) with true. cbv iota.
  replace (ns =? -1) with false by lia. replace (ns + nl =? -1) with false by lia.
  cbv iota. change (-1 =? -1) with true. cbv iota.
  replace (ns =? -1) with false by lia. replace (vs =? -1) with false by lia.
  reflexivity.
Qed.

(* ------------------------------------------------------------------ selectors *)
(* after a run of the selector: some token is pending, it ends at [last], and the selector's
   first character [first] is remembered as selector_start, as property_start, or as start *)
Definition sel_done (first last : Z) (st : sstate) : Prop :=
  st_start st <> -1 /\ st_end st = last /\ st_expr st = 0 /\
  (st_sel st = first \/ (st_sel st = -1 /\ st_pstart st = first) \/
   (st_sel st = -1 /\ st_pstart st = -1 /\ st_start st = first)).
(* after a delimiting colon of the selector *)
Definition sel_colon (first : Z) (st : sstate) : Prop :=
  st_start st = -1 /\ st_end st = -1 /\ st_expr st = 0 /\
  (st_sel st = first \/ (st_sel st = -1 /\ st_pstart st = first)).

Lemma sel_done_open first last st brace : 0 <= first -> 0 <= last -> sel_done first last st ->
  open_branch st brace = (st0, [mkEv Selector first last brace]).
Proof.
  intros Hf Hl (H1 & H2 & H3 & H4). unfold open_branch.
  replace (st_start st =? -1) with false by lia. cbn [andb]. rewrite H2.
  replace (last =? -1) with false by lia.
  assert (Er : st_reset st = st0) by (unfold st_reset, st0; rewrite H3; reflexivity). rewrite Er.
  destruct (st_pstart st =? -1) eqn:Ep; cbn [negb]; destruct (st_sel st =? -1) eqn:Es; cbn [negb];
    do 3 f_equal; lia.
Qed.

Lemma sel_done_colon first last st pos : 0 <= first -> sel_done first last st ->
  sel_colon first (colon_branch st pos).
Proof.
  intros Hf (H1 & H2 & H3 & H4). unfold sel_colon, colon_branch.
  cbn [st_start st_end st_expr st_sel st_pstart].
  replace (st_start st =? -1) with false by lia. cbn [andb].
  repeat split; try assumption.
  destruct (st_pstart st =? -1) eqn:Ep; lia.
Qed.

Lemma sel_colon_run first st pos n : 0 <= pos -> sel_colon first st ->
  sel_done first (pos + n) (tok_st st pos n 0).
Proof.
  intros Hp (H1 & H2 & H3 & H4). unfold sel_done, tok_st.
  cbn [st_start st_end st_expr st_sel st_pstart]. rewrite H1. change (-1 =? -1) with true. cbv iota.
  repeat split; try lia.
Qed.

Lemma sel_lead pos : sel_colon pos (colon_branch st0 pos).
Proof. unfold sel_colon. cbn. auto. Qed.

Lemma sel_first pos n : 0 <= pos -> sel_done pos (pos + n) (tok_st st0 pos n 0).
Proof. intros Hp. unfold sel_done. cbn. repeat split; try lia. Qed.

Lemma sel_done_expr first last st : sel_done first last st -> st_expr st = 0.
Proof. intros (_ & _ & H & _). exact H. Qed.

Lemma scan_more : forall more st pos first rest,
  0 <= first -> 0 <= pos -> sel_done first pos st -> forallb more_ok more = true ->
  exists st', scan_go 0 st pos (flat_map render_more more ++ rest) =
              scan_go 0 st' (pos + zlen (flat_map render_more more)) rest /\
              sel_done first (pos + zlen (flat_map render_more more)) st'.
Proof.
  induction more as [|[[g1 g2] r] more IH]; intros st pos first rest Hf Hp Hd H.
  - exists st. cbn [flat_map app]. change (zlen []) with 0. rewrite Z.add_0_r. split; [reflexivity|exact Hd].
  - cbn [forallb more_ok] in H. apply andb_true_iff in H. destruct H as [H Hm].
    apply andb_true_iff in H. destruct H as [H Hs]. apply andb_true_iff in H. destruct H as [H Hr].
    apply andb_true_iff in H. destruct H as [Hg1 Hg2].
    cbn [flat_map render_more]. rewrite zlen_app.
    repeat (rewrite <- app_assoc || rewrite <- app_comm_cons).
    pose proof (zlen_nonneg (render_gap g1)) as L1. pose proof (zlen_nonneg (render_gap g2)) as L2.
    pose proof (zlen_nonneg (render_lexs r)) as L3.
    rewrite scan_gap by exact Hg1.
    rewrite scan_colon; [|exact (sel_done_expr _ _ _ Hd)|apply colon_sep_head; assumption].
    rewrite scan_gap by exact Hg2.
    set (pc := pos + zlen (render_gap g1)).
    assert (Hc : sel_colon first (colon_branch st pc)) by (eapply sel_done_colon; eauto).
    rewrite scan_run; [|lia|destruct Hc as (_ & _ & Hc & _); exact Hc|exact Hr].
    set (pr := pc + 1 + zlen (render_gap g2)).
    assert (Hd' : sel_done first (pr + zlen (render_lexs r)) (tok_st (colon_branch st pc) pr (zlen (render_lexs r)) 0))
      by (apply sel_colon_run; [lia|exact Hc]).
    destruct (IH _ (pr + zlen (render_lexs r)) first rest Hf ltac:(lia) Hd' Hm) as (st' & Hs' & Hd'').
    exists st'.
    assert (E : pos + (zlen (render_gap g1 ++ c_colon :: render_gap g2 ++ render_lexs r) + zlen (flat_map render_more more))
                = pr + zlen (render_lexs r) + zlen (flat_map render_more more)).
    { rewrite zlen_app, zlen_cons, zlen_app. unfold pr, pc. lia. }
    rewrite E. split; [exact Hs'|exact Hd''].
Qed.

Lemma scan_sel sel rest pos : 0 <= pos -> sel_ok sel = true ->
  exists st', scan_go 0 st0 pos (render_sel sel ++ rest) =
              scan_go 0 st' (pos + zlen (render_sel sel)) rest /\
              sel_done pos (pos + zlen (render_sel sel)) st'.
Proof.
  intros Hp H. destruct sel as [lead first more]. unfold sel_ok in H. cbn [sl_lead sl_first sl_more] in H.
  apply andb_true_iff in H. destruct H as [H Hm]. apply andb_true_iff in H. destruct H as [Hl Hr].
  unfold render_sel. cbn [sl_lead sl_first sl_more].
  pose proof (zlen_nonneg (render_lexs first)) as L1.
  destruct lead as [g|].
  - apply andb_true_iff in Hl. destruct Hl as [Hg Hs].
    pose proof (zlen_nonneg (render_gap g)) as L2.
    repeat (rewrite <- app_assoc || rewrite <- app_comm_cons).
    rewrite scan_colon; [|reflexivity|apply colon_sep_head; assumption].
    rewrite scan_gap by exact Hg.
    rewrite scan_run; [|lia|reflexivity|exact Hr].
    set (pr := pos + 1 + zlen (render_gap g)).
    assert (Hd : sel_done pos (pr + zlen (render_lexs first)) (tok_st (colon_branch st0 pos) pr (zlen (render_lexs first)) 0))
      by (apply sel_colon_run; [lia|apply sel_lead]).
    destruct (scan_more more _ (pr + zlen (render_lexs first)) pos rest Hp ltac:(lia) Hd Hm) as (st' & Hs' & Hd').
    exists st'.
    assert (E : pos + zlen (c_colon :: render_gap g ++ render_lexs first ++ flat_map render_more more)
                = pr + zlen (render_lexs first) + zlen (flat_map render_more more)).
    { rewrite zlen_cons, !zlen_app. unfold pr. lia. }
    rewrite E. split; [exact Hs'|exact Hd'].
  - cbn [app]. rewrite <- app_assoc.
    rewrite scan_run; [|lia|reflexivity|exact Hr].
    assert (Hd : sel_done pos (pos + zlen (render_lexs first)) (tok_st st0 pos (zlen (render_lexs first)) 0))
      by (apply sel_first; exact Hp).
    destruct (scan_more more _ (pos + zlen (render_lexs first)) pos rest Hp ltac:(lia) Hd Hm) as (st' & Hs' & Hd').
    exists st'. rewrite zlen_app, Z.add_assoc. split; [exact Hs'|exact Hd'].
Qed.

(* ------------------------------------------------------------------ items *)
Section ItemInd.
  Variable P : item -> Prop.
  Hypothesis HD : forall g1 name g2 g3 value g4, P (SDecl g1 name g2 g3 value g4).
  Hypothesis HR : forall g1 sel g2 body g3, Forall P body -> P (SRule g1 sel g2 body g3).
  Fixpoint item_ind' (it : item) : P it :=
    match it with
    | SDecl g1 name g2 g3 value g4 => HD g1 name g2 g3 value g4
    | SRule g1 sel g2 body g3 =>
        HR g1 sel g2 body g3
           ((fix go (l : list item) : Forall P l :=
               match l with
               | [] => Forall_nil P
               | x :: r => Forall_cons x (item_ind' x) (go r)
               end) body)
    end.
End ItemInd.

Lemma lay_item_rule pos g1 sel g2 body g3 :
  lay_item pos (SRule g1 sel g2 body g3) =
  let ss := pos + zlen (render_gap g1) in
  let se := ss + zlen (render_sel sel) in
  let brace := se + zlen (render_gap g2) in
  Rule ss se brace (lay_items (brace + 1) body)
       (brace + 1 + zlen (render_items body) + zlen (render_gap g3)).
Proof.
  reflexivity.
Qed.

Lemma ilen_nonneg it : 0 <= ilen it.
Proof. apply zlen_nonneg. Qed.

Definition item_stmt (it : item) : Prop :=
  wf_item it = true -> forall pos rest, 0 <= pos ->
  scan_go 0 st0 pos (render_item it ++ rest) =
  CssTree.events (lay_item pos it) ++ scan_go 0 st0 (pos + ilen it) rest.

Lemma scan_items_of body : Forall item_stmt body -> forallb wf_item body = true ->
  forall pos rest, 0 <= pos ->
  scan_go 0 st0 pos (render_items body ++ rest) =
  events_forest (lay_items pos body) ++ scan_go 0 st0 (pos + zlen (render_items body)) rest.
Proof.
  induction 1 as [|x r Hx Hr IH]; intros Hwf pos rest Hp.
  - cbn [render_items flat_map app lay_items events_forest]. change (zlen []) with 0. rewrite Z.add_0_r. reflexivity.
  - cbn [forallb] in Hwf. apply andb_true_iff in Hwf. destruct Hwf as [Hw1 Hw2].
    unfold render_items. cbn [flat_map]. fold (render_items r). rewrite <- app_assoc.
    rewrite (Hx Hw1 pos _ Hp). pose proof (ilen_nonneg x).
    rewrite (IH Hw2 (pos + ilen x) rest) by lia.
    cbn [lay_items]. unfold events_forest. cbn [flat_map]. rewrite <- app_assoc.
    rewrite zlen_app. fold (ilen x). rewrite Z.add_assoc. reflexivity.
Qed.

Lemma scan_item : forall it, item_stmt it.
Proof.
  induction it as [g1 name g2 g3 value g4|g1 sel g2 body g3 IH] using item_ind'; intros Hwf pos rest Hp.
  - cbn [wf_item] in Hwf.
    repeat match type of Hwf with (_ && _) = true => apply andb_true_iff in Hwf; destruct Hwf as [Hwf ?] end.
    rename Hwf into Hg1, H4 into Hn, H3 into Hg2, H2 into Hg3, H1 into Hv, H0 into Hg4, H into Hs.
    pose proof (zlen_nonneg (render_gap g1)). pose proof (zlen_nonneg (render_gap g2)).
    pose proof (zlen_nonneg (render_gap g3)). pose proof (zlen_nonneg (render_gap g4)).
    pose proof (zlen_nonneg (render_lexs name)). pose proof (zlen_nonneg (render_lexs value)).
    unfold ilen. cbn [render_item lay_item]. cbv zeta.
    repeat (rewrite <- app_assoc || rewrite <- app_comm_cons). cbn [app].
    rewrite scan_gap by exact Hg1.
    rewrite scan_run; [|lia|reflexivity|exact Hn].
    rewrite scan_gap by exact Hg2.
    rewrite scan_colon; [|reflexivity|apply colon_sep_head; assumption].
    rewrite scan_gap by exact Hg3.
    rewrite scan_run; [|lia|reflexivity|exact Hv].
    rewrite scan_gap by exact Hg4.
    rewrite scan_semi. rewrite decl_events by lia. cbn [snd CssTree.events app].
    f_equal. f_equal.
    + change (st_reset _) with st0. f_equal.
      rewrite !zlen_app, zlen_cons, !zlen_app, zlen_cons. change (zlen []) with 0. lia.
  - cbn [wf_item] in Hwf.
    repeat match type of Hwf with (_ && _) = true => apply andb_true_iff in Hwf; destruct Hwf as [Hwf ?] end.
    rename Hwf into Hg1, H2 into Hsel, H1 into Hg2, H0 into Hb, H into Hg3.
    pose proof (zlen_nonneg (render_gap g1)). pose proof (zlen_nonneg (render_gap g2)).
    pose proof (zlen_nonneg (render_gap g3)). pose proof (zlen_nonneg (render_sel sel)).
    pose proof (zlen_nonneg (render_items body)).
    rewrite lay_item_rule. cbv zeta. unfold ilen. cbn [render_item CssTree.events].
    repeat (rewrite <- app_assoc || rewrite <- app_comm_cons). cbn [app].
    rewrite scan_gap by exact Hg1.
    destruct (scan_sel sel (render_gap g2 ++ c_lbrace :: flat_map render_item body ++ render_gap g3 ++ c_rbrace :: rest)
                (pos + zlen (render_gap g1)) ltac:(lia) Hsel) as (st' & Hs' & Hd).
    rewrite Hs'. rewrite scan_gap by exact Hg2. rewrite scan_lbrace.
    assert (Hf : 0 <= pos + zlen (render_gap g1)) by lia.
    assert (Hl : 0 <= pos + zlen (render_gap g1) + zlen (render_sel sel)) by lia.
    rewrite (sel_done_open _ _ st' _ Hf Hl Hd). cbn [fst snd app]. f_equal.
    fold (render_items body).
    rewrite (scan_items_of body IH Hb) by lia. unfold events_forest. f_equal.
    rewrite scan_gap by exact Hg3. rewrite scan_rbrace.
    change (snd (end_branch st0 _ true)) with
      [mkEv BlockEnd (pos + zlen (render_gap g1) + zlen (render_sel sel) + zlen (render_gap g2) + 1 +
                      zlen (render_items body) + zlen (render_gap g3))
                     (pos + zlen (render_gap g1) + zlen (render_sel sel) + zlen (render_gap g2) + 1 +
                      zlen (render_items body) + zlen (render_gap g3) + 1)
                     (pos + zlen (render_gap g1) + zlen (render_sel sel) + zlen (render_gap g2) + 1 +
                      zlen (render_items body) + zlen (render_gap g3))].
    cbn [app]. f_equal. change (st_reset st0) with st0. f_equal.
    rewrite !zlen_app, zlen_cons, !zlen_app, zlen_cons. change (zlen []) with 0. unfold render_items. lia.
Qed.

(* ------------------------------------------------------------------ the sheet *)
Theorem scan_render sh : wf_sheet sh = true -> scan (render sh) = events sh.
Proof.
  intros H. unfold wf_sheet in H. apply andb_true_iff in H. destruct H as [Hi Hg].
  unfold scan, render, events, tree.
  assert (Hall : Forall item_stmt (sh_items sh)) by (apply Forall_forall; intros x _; apply scan_item).
  rewrite (scan_items_of (sh_items sh) Hall Hi 0 _ (Z.le_refl 0)).
  rewrite <- (app_nil_r (render_gap (sh_tail sh))). rewrite scan_gap by exact Hg.
  cbn [scan_go]. change (scan_eof st0) with (@nil event). rewrite app_nil_r. reflexivity.
Qed.

(* ------------------------------------------------------------------ the layout is a well-formed tree *)
Definition lay_stmt (it : item) : Prop :=
  forall pos lo hi, lo <= pos -> pos + ilen it <= hi ->
  wf_node lo hi (lay_item pos it) /\ node_end (lay_item pos it) = pos + ilen it.

Lemma lay_items_seq body : Forall lay_stmt body ->
  forall pos hi, pos + zlen (render_items body) <= hi -> seq_ok wf_node pos hi (lay_items pos body).
Proof.
  induction 1 as [|x r Hx Hr IH]; intros pos hi Hle.
  - cbn [lay_items seq_ok]. change (zlen (render_items [])) with 0 in Hle. lia.
  - unfold render_items in Hle. cbn [flat_map] in Hle. fold (render_items r) in Hle.
    rewrite zlen_app in Hle. fold (ilen x) in Hle.
    pose proof (zlen_nonneg (render_items r)). pose proof (ilen_nonneg x).
    cbn [lay_items seq_ok]. destruct (Hx pos pos hi ltac:(lia) ltac:(lia)) as [Hw He].
    split; [exact Hw|]. rewrite He. apply IH. lia.
Qed.

Lemma lay_item_wf : forall it, lay_stmt it.
Proof.
  induction it as [g1 name g2 g3 value g4|g1 sel g2 body g3 IH] using item_ind'; intros pos lo hi Hlo Hhi.
  - pose proof (zlen_nonneg (render_gap g1)). pose proof (zlen_nonneg (render_gap g2)).
    pose proof (zlen_nonneg (render_gap g3)). pose proof (zlen_nonneg (render_gap g4)).
    pose proof (zlen_nonneg (render_lexs name)). pose proof (zlen_nonneg (render_lexs value)).
    unfold ilen in *. cbn [render_item] in *.
    rewrite !zlen_app, zlen_cons, !zlen_app, zlen_cons in *. change (zlen []) with 0 in *.
    cbn [lay_item wf_node node_end]. cbv zeta. lia.
  - pose proof (zlen_nonneg (render_gap g1)). pose proof (zlen_nonneg (render_gap g2)).
    pose proof (zlen_nonneg (render_gap g3)). pose proof (zlen_nonneg (render_sel sel)).
    pose proof (zlen_nonneg (render_items body)).
    unfold ilen in *. cbn [render_item] in *. fold (render_items body) in *.
    rewrite !zlen_app, zlen_cons, !zlen_app, zlen_cons in *. change (zlen []) with 0 in *.
    rewrite lay_item_rule. cbv zeta. cbn [wf_node node_end].
    split; [|lia]. split; [lia|]. split; [lia|]. split; [lia|]. split; [|lia].
    apply lay_items_seq; [exact IH|lia].
Qed.

Theorem tree_wf sh : wf_forest (Z.of_nat (length (render sh))) (tree sh).
Proof.
  unfold wf_forest, tree, render. apply lay_items_seq.
  - apply Forall_forall. intros x _. apply lay_item_wf.
  - fold (zlen (render_items (sh_items sh) ++ render_gap (sh_tail sh))). rewrite zlen_app.
    pose proof (zlen_nonneg (render_gap (sh_tail sh))). lia.
Qed.

(* ------------------------------------------------------------------ composition with Level A *)
From Emmet Require Import proofs.CssTreeProofs.

Theorem match_text sh pos : wf_sheet sh = true ->
  css_match (render sh) pos = innermost_forest (tree sh) pos.
Proof.
  intros H. unfold css_match. rewrite (scan_render sh H). unfold events.
  eapply match_tree. apply tree_wf.
Qed.

Theorem outward_text sh pos : wf_sheet sh = true ->
  balanced_outward (render sh) pos = Ok (pushed (chain_forest (render sh) (tree sh) pos)).
Proof.
  intros H. unfold balanced_outward. rewrite (scan_render sh H). unfold events.
  apply outward_tree. apply tree_wf.
Qed.

Theorem inward_text sh pos : wf_sheet sh = true ->
  balanced_inward (render sh) pos = Ok (inward_forest (render sh) (tree sh) pos).
Proof.
  intros H. unfold balanced_inward. rewrite (scan_render sh H). unfold events.
  apply inward_tree. apply tree_wf.
Qed.

(* ------------------------------------------------------------------ the plain characters *)
Lemma plain_iff c : plain c = true <->
  ~ In c [9; 10; 13; 32; 160; 34; 39; 123; 125; 59; 58; 40; 41; 47]%N.
Proof.
  split.
  - intros H Hin. apply plain_inv in H. destruct H as (Hs & Hq & H1 & H2 & H3 & H4 & H5 & H6 & H7).
    cbn [In] in Hin.
    repeat (destruct Hin as [Hin|Hin]; [subst c; discriminate|]). exact Hin.
  - intros H. unfold plain, is_space, is_white_space, is_quote.
    repeat match goal with
           | |- context [(c =? ?k)%N] =>
               destruct (c =? k)%N eqn:E; [exfalso; apply H; apply N.eqb_eq in E; subst c; cbn; tauto|]; clear E
           end.
    reflexivity.
Qed.
