(* C10 Level A: on the events of any well-formed tree of rules and declarations,
   match / balanced_outward / balanced_inward (the folds of CssMatch.v) return what
   the tree says (CssTree.v).  Induction over the tree with the stack invariant. *)
From Coq Require Import ZArith List Bool Lia ZifyBool.
From Emmet Require Import lib.Base model.CssScan model.CssMatch model.CssTree
     proofs.CssScanProofs proofs.CssMatchProofs.
Import ListNotations.
Local Open Scope Z_scope.

(* ------------------------------------------------------------------ induction over trees *)
Section NodeInd.
  Variable P : node -> Prop.
  Hypothesis HD : forall ns ne colon vs ve semi, P (Decl ns ne colon vs ve semi).
  Hypothesis HR : forall ss se brace ch close, Forall P ch -> P (Rule ss se brace ch close).
  Fixpoint node_ind' (n : node) : P n :=
    match n with
    | Decl ns ne colon vs ve semi => HD ns ne colon vs ve semi
    | Rule ss se brace ch close =>
        HR ss se brace ch close
           ((fix go (l : list node) : Forall P l :=
               match l with
               | [] => Forall_nil P
               | x :: r => Forall_cons x (node_ind' x) (go r)
               end) ch)
    end.
End NodeInd.

(* ------------------------------------------------------------------ geometry of well-formed trees *)
Lemma wf_node_bounds : forall n lo hi,
  wf_node lo hi n -> lo <= node_start n /\ node_start n < node_end n /\ node_end n <= hi.
Proof.
  induction n as [ns ne colon vs ve semi|ss se brace ch close IH] using node_ind'; intros lo hi H.
  - cbn in *. lia.
  - cbn [wf_node] in H. destruct H as (H1 & H2 & H3 & H4 & H5). cbn [node_start node_end].
    assert (brace + 1 <= close).
    { revert H4. generalize (brace + 1). induction IH as [|c r Hc _ IHr]; intros l0 H4; cbn [seq_ok] in H4.
      - exact H4.
      - destruct H4 as [Ha Hb]. apply Hc in Ha. apply IHr in Hb. lia. }
    lia.
Qed.

Lemma seq_ok_bounds l : forall lo hi, seq_ok wf_node lo hi l ->
  lo <= hi /\ Forall (fun c => lo <= node_start c /\ node_start c < node_end c /\ node_end c <= hi) l.
Proof.
  induction l as [|n r IH]; intros lo hi H; cbn [seq_ok] in H.
  - split; [exact H|constructor].
  - destruct H as [H1 H2]. apply wf_node_bounds in H1. apply IH in H2. destruct H2 as [H2 H3].
    split; [lia|]. constructor; [lia|].
    eapply Forall_impl; [|exact H3]. cbn. intros; lia.
Qed.


(* events of a well-formed tree are ordered (so everything proved for ordered event
   lists in CssMatchProofs applies).  Continuation style: [rest] is what follows. *)
Definition events_ok_node_stmt (n : node) : Prop :=
  forall lo hi N rest, 0 <= lo -> hi <= N -> wf_node lo hi n ->
    events_ok (node_end n) N rest -> events_ok lo N (events n ++ rest).

Lemma events_ok_seq l : Forall events_ok_node_stmt l ->
  forall lo hi N rest, 0 <= lo -> hi <= N -> seq_ok wf_node lo hi l ->
    events_ok hi N rest -> events_ok lo N (flat_map events l ++ rest).
Proof.
  induction l as [|c r IHl]; intros Hf lo hi N rest Hlo HN Hs Hrest; cbn [seq_ok flat_map app] in *.
  - eapply events_ok_weaken; [|exact Hrest]. exact Hs.
  - destruct Hs as [Hs1 Hs2]. inversion Hf as [|? ? Hc Hf']; subst.
    rewrite <- app_assoc. pose proof (wf_node_bounds _ _ _ Hs1) as Hb.
    eapply Hc; [exact Hlo|exact HN|exact Hs1|].
    eapply IHl; [exact Hf'|lia|exact HN|exact Hs2|exact Hrest].
Qed.

Lemma events_ok_node : forall n, events_ok_node_stmt n.
Proof.
  induction n as [ns ne colon vs ve semi|ss se brace ch close IH] using node_ind';
    intros lo hi N rest Hlo HN H Hrest.
  - cbn in H. cbn [events app events_ok node_end] in *.
    split; [unfold ev_ok; cbn; lia|].
    unfold ev_next at 1; cbn [ety edelim]. replace (colon =? -1) with false by lia.
    split; [unfold ev_ok; cbn; lia|].
    unfold ev_next; cbn. replace (semi =? -1) with false by lia.
    eapply events_ok_weaken; [|exact Hrest]. lia.
  - cbn [wf_node] in H. destruct H as (H1 & H2 & H3 & H4 & H5).
    pose proof (proj1 (seq_ok_bounds _ _ _ H4)) as Hbc.
    cbn [events app events_ok node_end] in *. split; [unfold ev_ok; cbn; lia|].
    unfold ev_next at 1; cbn [ety edelim]. rewrite <- app_assoc.
    apply (events_ok_seq ch IH (brace + 1) close N _ ltac:(lia) ltac:(lia) H4).
    cbn [app events_ok]. split; [unfold ev_ok; cbn; lia|].
    unfold ev_next; cbn. exact Hrest.
Qed.

Lemma events_ok_forest n f : wf_forest n f -> events_ok 0 n (events_forest f).
Proof.
  intros H. unfold events_forest. rewrite <- (app_nil_r (flat_map events f)).
  assert (Hf : Forall events_ok_node_stmt f) by (clear H; induction f; constructor; [apply events_ok_node|assumption]).
  apply (events_ok_seq f Hf 0 n n [] ltac:(lia) ltac:(lia) H). exact I.
Qed.

(* children of a rule that does not strictly contain pos do not contain it either *)
Lemma not_contains_children l : forall lo hi pos,
  seq_ok wf_node lo hi l -> ~ (lo <= pos /\ pos <= hi) ->
  Forall (fun c => contains c pos = false) l.
Proof.
  intros lo hi pos H Hn. apply seq_ok_bounds in H. destruct H as [_ H].
  eapply Forall_impl; [|exact H]. cbn. intros c Hc. unfold contains. lia.
Qed.

Lemma first_some_none {A B} (f : A -> option B) l : Forall (fun x => f x = None) l -> first_some f l = None.
Proof. induction 1 as [|x r Hx _ IH]; cbn; [reflexivity|]. rewrite Hx. exact IH. Qed.

(* ------------------------------------------------------------------ match *)
Definition match_node_stmt (pos : Z) (n : node) : Prop :=
  forall lo hi stack rest, 0 <= lo -> wf_node lo hi n ->
    match_go pos stack None (events n ++ rest) =
    match innermost n pos with Some m => Some m | None => match_go pos stack None rest end.

Lemma innermost_not_contains n pos : contains n pos = false -> innermost n pos = None.
Proof. intros H. destruct n; cbn [innermost]; rewrite H; reflexivity. Qed.

Lemma match_seq pos l : Forall (match_node_stmt pos) l ->
  forall lo hi stack rest, 0 <= lo -> seq_ok wf_node lo hi l ->
    match_go pos stack None (flat_map events l ++ rest) =
    match first_some (fun c => innermost c pos) l with
    | Some m => Some m
    | None => match_go pos stack None rest
    end.
Proof.
  induction l as [|c r IHl]; intros Hf lo hi stack rest Hlo Hs; cbn [seq_ok flat_map app first_some] in *;
    [reflexivity|].
  destruct Hs as [Hs1 Hs2]. inversion Hf as [|? ? Hc Hf']; subst.
  rewrite <- app_assoc. rewrite (Hc lo hi stack _ Hlo Hs1).
  destruct (innermost c pos); [reflexivity|].
  pose proof (wf_node_bounds _ _ _ Hs1).
  eapply IHl; [exact Hf'| |exact Hs2]. lia.
Qed.

Lemma match_node pos : forall n, match_node_stmt pos n.
Proof.
  induction n as [ns ne colon vs ve semi|ss se brace ch close IH] using node_ind';
    intros lo hi stack rest Hlo H.
  - cbn in H. cbn [events app match_go ety estart eend edelim innermost].
    unfold contains, decl_end, r_start; cbn [node_start node_end fst snd].
    replace (semi =? -1) with false by lia.
    destruct ((ns <? pos) && (pos <? semi + 1)); reflexivity.
  - cbn [wf_node] in H. destruct H as (H1 & H2 & H3 & H4 & H5).
    cbn [events app match_go ety estart eend edelim innermost]. rewrite <- app_assoc.
    rewrite (match_seq pos ch IH (brace + 1) close _ _ ltac:(lia) H4).
    unfold contains; cbn [node_start node_end].
    destruct ((ss <? pos) && (pos <? close + 1)) eqn:Ec.
    + destruct (first_some (fun c => innermost c pos) ch); [reflexivity|].
      cbn [app match_go ety estart eend edelim]. unfold r_start, r_delim; cbn [fst snd].
      rewrite Ec. reflexivity.
    + rewrite first_some_none.
      * cbn [app match_go ety estart eend edelim]. unfold r_start; cbn [fst snd]. rewrite Ec. reflexivity.
      * eapply Forall_impl; [|apply (not_contains_children ch _ _ pos H4); lia].
        cbn. intros c Hc. apply innermost_not_contains. exact Hc.
Qed.

(* C10 Level A, match *)
Theorem match_tree n f pos :
  wf_forest n f -> match_events (events_forest f) pos = innermost_forest f pos.
Proof.
  intros H. unfold match_events, events_forest, innermost_forest.
  rewrite <- (app_nil_r (flat_map events f)).
  erewrite match_seq; [|clear H; induction f; constructor; [apply match_node|assumption]| |exact H]; [|lia].
  destruct (first_some _ f); reflexivity.
Qed.

(* ------------------------------------------------------------------ balanced_outward *)
(* the same fold without the early exit; the exit is shown harmless below *)
Fixpoint outward_nx (s : str) (pos : Z) (stack : list rng3) (prop : option rng3) (acc : list range)
         (evs : list event) : res (list range) :=
  match evs with
  | [] => Ok (rev acc)
  | e :: r =>
      match ety e with
      | Selector => outward_nx s pos ((estart e, eend e, edelim e) :: stack) None acc r
      | BlockEnd =>
          match stack with
          | [] => outward_nx s pos [] None acc r
          | p :: st =>
              if (r_start p <? pos) && (pos <? eend e) then
                let* inner := inner_range s (r_delim p + 1) (estart e) in
                outward_nx s pos st None (push (push_opt acc inner) (r_start p, eend e)) r
              else outward_nx s pos st None acc r
          end
      | PropertyName => outward_nx s pos stack (Some (estart e, eend e, edelim e)) acc r
      | PropertyValue =>
          let prop_end := decl_end (edelim e) (eend e) in
          let acc' :=
            match prop with
            | Some p =>
                if (r_start p <? pos) && (pos <? prop_end)
                then push (push acc (estart e, eend e)) (r_start p, prop_end)
                else acc
            | None => acc
            end in
          outward_nx s pos stack None acc' r
      end
  end.

(* once pos is at or before the frontier and nothing open starts before pos, nothing
   more is pushed *)
Lemma outward_nx_no_push : forall evs s lo n pos stack prop acc,
  events_ok lo n evs -> pos <= lo ->
  Forall (fun p => pos <= r_start p) stack ->
  match prop with Some p => pos <= r_start p | None => True end ->
  outward_nx s pos stack prop acc evs = Ok (rev acc).
Proof.
  induction evs as [|e r IH]; intros s lo n pos stack prop acc Hev Hpos Hst Hp; cbn [outward_nx];
    [reflexivity|].
  destruct Hev as [He Hr].
  pose proof (ev_next_ge _ _ _ He) as Hge.
  pose proof He as He'. unfold ev_ok in He'. destruct He' as (E1 & E2 & E3 & E4).
  destruct (ety e) eqn:Et.
  - eapply IH; [exact Hr|lia| |exact I]. constructor; [unfold r_start; cbn; lia|exact Hst].
  - eapply IH; [exact Hr|lia|exact Hst|]. unfold r_start; cbn. lia.
  - replace (match prop with
             | Some p => if (r_start p <? pos) && (pos <? decl_end (edelim e) (eend e))
                         then push (push acc (estart e, eend e)) (r_start p, decl_end (edelim e) (eend e))
                         else acc
             | None => acc end) with acc.
    + eapply IH; [exact Hr|lia|exact Hst|exact I].
    + destruct prop as [p|]; [|reflexivity].
      replace ((r_start p <? pos) && (pos <? decl_end (edelim e) (eend e))) with false by lia. reflexivity.
  - destruct stack as [|p st].
    + eapply IH; [exact Hr|lia|constructor|exact I].
    + inversion Hst as [|? ? Hp0 Hst']; subst.
      replace ((r_start p <? pos) && (pos <? eend e)) with false by lia.
      eapply IH; [exact Hr|lia|exact Hst'|exact I].
Qed.

(* the early exit of balanced_outward changes nothing on ordered events *)
Lemma outward_go_eq_nx : forall evs s lo n pos stack prop acc,
  events_ok lo n evs -> (acc = [] \/ pos <= lo) ->
  outward_go s pos stack prop acc evs = outward_nx s pos stack prop acc evs.
Proof.
  induction evs as [|e r IH]; intros s lo n pos stack prop acc Hev Hacc; cbn [outward_go outward_nx];
    [reflexivity|].
  destruct Hev as [He Hr].
  pose proof (ev_next_ge _ _ _ He) as Hge.
  pose proof He as He'. unfold ev_ok in He'. destruct He' as (E1 & E2 & E3 & E4).
  destruct (ety e) eqn:Et.
  - eapply IH; [exact Hr|]. destruct Hacc; [left; assumption|right; lia].
  - eapply IH; [exact Hr|]. destruct Hacc; [left; assumption|right; lia].
  - destruct (decl_end_bounds _ _ _ He (or_introl Et)) as (D1 & D2 & D3).
    eapply IH; [exact Hr|].
    destruct prop as [p|]; [|destruct Hacc; [left; assumption|right; lia]].
    destruct ((r_start p <? pos) && (pos <? decl_end (edelim e) (eend e))) eqn:Eh;
      [|destruct Hacc; [left; assumption|right; lia]].
    right. unfold ev_next, decl_end in *. rewrite Et in *. destruct (edelim e =? -1); lia.
  - (* BlockEnd *)
    assert (Hexit : forall st acc', (acc' = [] \/ pos <= ev_next e) ->
              match st, acc' with
              | [], _ :: _ => Ok (rev acc')
              | _, _ => outward_go s pos st None acc' r
              end = outward_nx s pos st None acc' r).
    { intros st acc' Ha.
      assert (Hgo : outward_go s pos st None acc' r = outward_nx s pos st None acc' r)
        by (eapply IH; [exact Hr|exact Ha]).
      destruct st; [|exact Hgo]. destruct acc' as [|a0 acc0]; [exact Hgo|].
      destruct Ha as [Ha|Ha]; [discriminate|].
      symmetry. eapply outward_nx_no_push; [exact Hr|exact Ha|constructor|exact I]. }
    assert (Hnext : ev_next e = eend e) by (unfold ev_next; rewrite Et; reflexivity).
    destruct stack as [|p st].
    + cbn [bind]. apply (Hexit [] acc). destruct Hacc; [left; assumption|right; lia].
    + destruct ((r_start p <? pos) && (pos <? eend e)) eqn:Eh.
      * destruct (inner_range s (r_delim p + 1) (estart e)) as [o| | |]; cbn [bind]; try reflexivity.
        apply (Hexit st (push (push_opt acc o) (r_start p, eend e))). right. lia.
      * cbn [bind]. apply (Hexit st acc). destruct Hacc; [left; assumption|right; lia].
Qed.

Lemma pushes_app acc l1 l2 : pushes acc (l1 ++ l2) = pushes (pushes acc l1) l2.
Proof. unfold pushes. apply fold_left_app. Qed.

Lemma chain_not_contains s n pos : contains n pos = false -> chain s n pos = [].
Proof. intros H. destruct n; cbn [chain]; rewrite H; reflexivity. Qed.

Lemma flat_map_nil {A B} (f : A -> list B) l : Forall (fun x => f x = []) l -> flat_map f l = [].
Proof. induction 1 as [|x r Hx _ IH]; cbn; [reflexivity|]. rewrite Hx, IH. reflexivity. Qed.

Definition outward_node_stmt (s : str) (pos : Z) (n : node) : Prop :=
  forall lo hi stack acc rest, 0 <= lo -> hi <= Z.of_nat (length s) -> wf_node lo hi n ->
    outward_nx s pos stack None acc (events n ++ rest) =
    outward_nx s pos stack None (pushes acc (chain s n pos)) rest.

Lemma outward_seq s pos l : Forall (outward_node_stmt s pos) l ->
  forall lo hi stack acc rest, 0 <= lo -> hi <= Z.of_nat (length s) -> seq_ok wf_node lo hi l ->
    outward_nx s pos stack None acc (flat_map events l ++ rest) =
    outward_nx s pos stack None (pushes acc (flat_map (fun c => chain s c pos) l)) rest.
Proof.
  induction l as [|c r IHl]; intros Hf lo hi stack acc rest Hlo Hhi Hs; cbn [seq_ok flat_map app] in *;
    [reflexivity|].
  destruct Hs as [Hs1 Hs2]. inversion Hf as [|? ? Hc Hf']; subst.
  rewrite <- app_assoc. rewrite (Hc lo hi stack acc _ Hlo Hhi Hs1).
  pose proof (wf_node_bounds _ _ _ Hs1).
  rewrite pushes_app. eapply IHl; [exact Hf'| |exact Hhi|exact Hs2]. lia.
Qed.

Lemma outward_node s pos : forall n, outward_node_stmt s pos n.
Proof.
  induction n as [ns ne colon vs ve semi|ss se brace ch close IH] using node_ind';
    intros lo hi stack acc rest Hlo Hhi H.
  - cbn in H. cbn [events app outward_nx ety estart eend edelim chain].
    unfold contains, decl_end, r_start; cbn [node_start node_end fst snd].
    replace (semi =? -1) with false by lia.
    destruct ((ns <? pos) && (pos <? semi + 1)); reflexivity.
  - cbn [wf_node] in H. destruct H as (H1 & H2 & H3 & H4 & H5).
    pose proof (proj1 (seq_ok_bounds _ _ _ H4)) as Hbc.
    cbn [events app outward_nx ety estart eend edelim chain]. rewrite <- app_assoc.
    rewrite (outward_seq s pos ch IH (brace + 1) close _ _ _ ltac:(lia) ltac:(lia) H4).
    cbn [app outward_nx ety estart eend edelim]. unfold r_start, r_delim; cbn [fst snd].
    unfold contains; cbn [node_start node_end].
    destruct ((ss <? pos) && (pos <? close + 1)) eqn:Ec.
    + destruct (inner_range_ok s (brace + 1) close) as (o & Ho & _); [lia|lia|].
      rewrite Ho. cbn [bind]. rewrite pushes_app. unfold content. rewrite Ho. reflexivity.
    + rewrite flat_map_nil; [reflexivity|].
      eapply Forall_impl; [|apply (not_contains_children ch _ _ pos H4); lia].
      cbn. intros c Hc. apply chain_not_contains. exact Hc.
Qed.

(* C10 Level A, balanced_outward *)
Theorem outward_tree s f pos :
  wf_forest (Z.of_nat (length s)) f ->
  outward_events s (events_forest f) pos = Ok (pushed (chain_forest s f pos)).
Proof.
  intros H. unfold outward_events.
  rewrite (outward_go_eq_nx _ s 0 (Z.of_nat (length s)) pos [] None []);
    [|apply events_ok_forest; exact H|left; reflexivity].
  unfold events_forest, chain_forest, pushed.
  rewrite <- (app_nil_r (flat_map events f)).
  assert (Hf : Forall (outward_node_stmt s pos) f) by (clear H; induction f; constructor; [apply outward_node|assumption]).
  rewrite (outward_seq s pos f Hf 0 (Z.of_nat (length s)) [] [] [] ltac:(lia) ltac:(lia) H). reflexivity.
Qed.

(* ------------------------------------------------------------------ balanced_inward *)
(* what the fold stores for a closed node: its range, delimiter and first child *)
Fixpoint ir_of (n : node) : irange :=
  match n with
  | Decl ns ne colon vs ve semi => IR ns (semi + 1) colon None
  | Rule ss se brace ch close =>
      IR ss (close + 1) brace (match ch with [] => None | c :: _ => Some (ir_of c) end)
  end.
Definition set_child (stack : list irange) (c : irange) : list irange :=
  match stack with
  | IR a b d None :: st => IR a b d (Some c) :: st
  | _ => stack
  end.
Definition set_first (stack : list irange) (l : list node) : list irange :=
  match l with [] => stack | c :: _ => set_child stack (ir_of c) end.
(* the first child recorded on top of the stack started before the frontier *)
Definition top_ok (lo : Z) (stack : list irange) : Prop :=
  match stack with
  | IR _ _ _ (Some c) :: _ => ir_start c < lo
  | _ => True
  end.

Lemma ir_of_start n : ir_start (ir_of n) = node_start n.
Proof. destruct n; reflexivity. Qed.

Lemma set_child_idem stack x y : set_child (set_child stack x) y = set_child stack x.
Proof. destruct stack as [|[a b d [c|]] st]; reflexivity. Qed.

Lemma top_ok_set_child lo lo' stack n :
  top_ok lo stack -> lo <= lo' -> node_start n < lo' -> top_ok lo' (set_child stack (ir_of n)).
Proof.
  intros Ht Hl Hn. destruct stack as [|[a b d [c|]] st]; cbn in *; try exact I; try lia.
  rewrite ir_of_start. exact Hn.
Qed.

Lemma chain_descend s : forall n lo hi acc,
  0 <= lo -> hi <= Z.of_nat (length s) -> wf_node lo hi n ->
  inward_chain s (ir_of n) acc = Ok (pushes acc (descend s n)).
Proof.
  induction n as [ns ne colon vs ve semi|ss se brace ch close IH] using node_ind';
    intros lo hi acc Hlo Hhi H.
  - cbn in H. cbn [ir_of inward_chain descend].
    replace (semi + 1 - 1) with semi by lia.
    destruct (inner_range_ok s (colon + 1) semi) as (o & Ho & _); [lia|lia|].
    unfold content. rewrite Ho. cbn [bind]. reflexivity.
  - cbn [wf_node] in H. destruct H as (H1 & H2 & H3 & H4 & H5).
    pose proof (proj1 (seq_ok_bounds _ _ _ H4)) as Hbc.
    cbn [ir_of inward_chain descend].
    replace (close + 1 - 1) with close by lia.
    destruct (inner_range_ok s (brace + 1) close) as (o & Ho & _); [lia|lia|].
    unfold content. rewrite Ho. cbn [bind].
    destruct ch as [|c r]; [reflexivity|].
    inversion IH as [|? ? Hc _]; subst. cbn [seq_ok] in H4. destruct H4 as [H4 _].
    rewrite (Hc (brace + 1) close _ ltac:(lia) ltac:(lia) H4). reflexivity.
Qed.

Definition inward_node_stmt (s : str) (pos : Z) (n : node) : Prop :=
  forall lo hi stack rest, 0 <= lo -> hi <= Z.of_nat (length s) -> wf_node lo hi n -> top_ok lo stack ->
    inward_go s pos stack None (events n ++ rest) =
    match inward_spec s n pos with
    | Some l => Ok (pushed l)
    | None => inward_go s pos (set_child stack (ir_of n)) None rest
    end.

Lemma inward_seq s pos l : Forall (inward_node_stmt s pos) l ->
  forall lo hi stack rest, 0 <= lo -> hi <= Z.of_nat (length s) -> seq_ok wf_node lo hi l -> top_ok lo stack ->
    inward_go s pos stack None (flat_map events l ++ rest) =
    match first_some (fun c => inward_spec s c pos) l with
    | Some l' => Ok (pushed l')
    | None => inward_go s pos (set_first stack l) None rest
    end.
Proof.
  induction l as [|c r IHl]; intros Hf lo hi stack rest Hlo Hhi Hs Ht;
    cbn [seq_ok flat_map app first_some set_first] in *; [reflexivity|].
  destruct Hs as [Hs1 Hs2]. inversion Hf as [|? ? Hc Hf']; subst.
  rewrite <- app_assoc. rewrite (Hc lo hi stack _ Hlo Hhi Hs1 Ht).
  destruct (inward_spec s c pos); [reflexivity|].
  pose proof (wf_node_bounds _ _ _ Hs1) as Hb.
  rewrite (IHl Hf' (node_end c) hi _ rest ltac:(lia) Hhi Hs2).
  - destruct (first_some (fun c0 => inward_spec s c0 pos) r); [reflexivity|].
    destruct r as [|c2 r2]; cbn [set_first]; [reflexivity|]. rewrite set_child_idem. reflexivity.
  - apply (top_ok_set_child lo); [exact Ht|lia|lia].
Qed.

Lemma inward_node s pos : forall n, inward_node_stmt s pos n.
Proof.
  induction n as [ns ne colon vs ve semi|ss se brace ch close IH] using node_ind';
    intros lo hi stack rest Hlo Hhi H Ht.
  - cbn in H. cbn [events app inward_go ety estart eend edelim inward_spec].
    unfold decl_end, r_start; cbn [fst snd].
    replace (semi =? -1) with false by lia.
    destruct ((ns <=? pos) && (pos <=? ve)); [reflexivity|].
    cbn [ir_of].
    destruct stack as [|[pa pb pd [[ca cb cd cc]|]] st]; cbn [push_child set_child].
    + reflexivity.
    + cbn in Ht. replace (ca =? ns) with false by lia. reflexivity.
    + rewrite Z.eqb_refl. reflexivity.
  - cbn [wf_node] in H. destruct H as (H1 & H2 & H3 & H4 & H5).
    pose proof (proj1 (seq_ok_bounds _ _ _ H4)) as Hbc.
    cbn [events app inward_go ety estart eend edelim inward_spec]. rewrite <- app_assoc.
    rewrite (inward_seq s pos ch IH (brace + 1) close (IR ss se brace None :: stack) _ ltac:(lia) ltac:(lia) H4 I).
    destruct (first_some (fun c => inward_spec s c pos) ch); [reflexivity|].
    assert (Hsf : set_first (IR ss se brace None :: stack) ch =
                  IR ss se brace (match ch with [] => None | c :: _ => Some (ir_of c) end) :: stack).
    { destruct ch; reflexivity. }
    rewrite Hsf. cbn [app inward_go ety estart eend edelim].
    destruct ((ss <=? pos) && (pos <=? close + 1)).
    + destruct (inner_range_ok s (brace + 1) close) as (o & Ho & _); [lia|lia|].
      rewrite Ho. cbn [bind]. cbn [descend]. unfold pushed, pushes at 1. cbn [fold_left push_opt].
      unfold content. rewrite Ho.
      destruct ch as [|c r]; cbn [inward_chain_opt bind]; [reflexivity|].
      cbn [seq_ok] in H4. destruct H4 as [H4 _].
      rewrite (chain_descend s c (brace + 1) close _ ltac:(lia) ltac:(lia) H4). cbn [bind].
      reflexivity.
    + cbn [ir_of]. destruct stack as [|[pa pb pd [pc|]] st]; reflexivity.
Qed.

(* C10 Level A, balanced_inward *)
Theorem inward_tree s f pos :
  wf_forest (Z.of_nat (length s)) f ->
  inward_events s (events_forest f) pos = Ok (inward_forest s f pos).
Proof.
  intros H. unfold inward_events, events_forest, inward_forest.
  rewrite <- (app_nil_r (flat_map events f)).
  assert (Hf : Forall (inward_node_stmt s pos) f) by (clear H; induction f; constructor; [apply inward_node|assumption]).
  rewrite (inward_seq s pos f Hf 0 (Z.of_nat (length s)) [] [] ltac:(lia) ltac:(lia) H I).
  destruct (first_some _ f); reflexivity.
Qed.
