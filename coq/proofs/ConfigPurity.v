(* C20, purity clause: "merging never modifies the built-in tables or the caller's
   dictionaries", on a model of merged_data that makes object identity and aliasing
   explicit.

   A heap is a list of dict objects addressed by their index; a dict maps str keys to
   values that are either opaque data or a REFERENCE to another dict object.  The
   built-in tables (DEFAULT_CONFIG, SYNTAX_CONFIG), the caller's global_config and
   user_config are four root references into the heap; their layer configs and section
   dicts are further objects, in any aliasing pattern whatsoever (two layers may share a
   section object, the caller's config may alias a built-in table, ...).

   [merged_data_heap] follows merged_data statement by statement over the GENERATED
   statement list: it allocates `empty = {}` and `result = {}`, fetches the layer
   configs, and performs one `result.update(section)` per statement (the IfKeyIn guard
   skips the update when the section is absent, the GetOrEmpty form updates from
   `empty`).  Every ill-typed access (dangling reference, a section that is not a dict)
   is an explicit failure (None), never totalised.

   Theorems: whatever the heap and the roots (no well-formedness assumed)
     - every object that existed before the call has the same contents afterwards,
       `empty` is still empty, the result is a NEW object           [merge_preserves_heap]
     - when the heap holds the layers an abstract environment [e] describes, the call
       succeeds and the new object holds exactly [merged_data e ...] [merge_heap_refines] *)
From Coq Require Import Lia.
From Emmet Require Import lib.Base lib.ConfigLib gen.GenLayerOrder model.Config proofs.ConfigProofs.

Definition ref := nat.

Section Heap.
  Context {V : Type}.

  Inductive val : Type :=
  | VData (v : V)
  | VRef (r : ref).

  Definition obj := dict val.
  Definition heap := list obj.

  Definition next_ref (h : heap) : ref := length h.
  Definition heap_get (h : heap) (a : ref) : option obj := nth_error h a.
  Definition alloc (h : heap) (o : obj) : heap * ref := (h ++ [o], length h).
  Fixpoint heap_set (h : heap) (a : ref) (o : obj) : heap :=
    match h, a with
    | [], _ => []
    | _ :: h', O => o :: h'
    | x :: h', S a' => x :: heap_set h' a' o
    end.

  Record layer_refs : Type := {
    r_default : ref;          (* DEFAULT_CONFIG *)
    r_syntax_config : ref;    (* SYNTAX_CONFIG  *)
    r_global : ref;           (* global_config  *)
    r_user : ref              (* user_config    *)
  }.

  (* d.get(k) where a dict is expected as value *)
  Inductive field : Type :=
  | Bad              (* dangling reference, or the value is not a dict: TypeError / AttributeError *)
  | Absent
  | Found (r : ref).

  Definition deref_field (h : heap) (a : ref) (k : str) : field :=
    match heap_get h a with
    | None => Bad
    | Some d => match dget k d with
                | None => Absent
                | Some (VRef c) => Found c
                | Some (VData _) => Bad
                end
    end.

  (* the layer config object a source denotes; T.get(name, empty) gives `empty` when absent *)
  Definition fetch_layer (h : heap) (roots : layer_refs) (e_ref : ref) (ty syn : str) (s : source) : option ref :=
    match s with
    | SrcDefault => Some (r_default roots)
    | SrcUser => Some (r_user roots)
    | SrcSyntaxConfig sl =>
        match deref_field h (r_syntax_config roots) (sel_name sl ty syn) with
        | Found c => Some c | Absent => Some e_ref | Bad => None
        end
    | SrcGlobal sl =>
        match deref_field h (r_global roots) (sel_name sl ty syn) with
        | Found c => Some c | Absent => Some e_ref | Bad => None
        end
    end.

  (* result.update(src): the ONLY write of merged_data *)
  Definition update_obj (h : heap) (r src : ref) : option heap :=
    match heap_get h r, heap_get h src with
    | Some dr, Some ds => Some (heap_set h r (dupdate dr ds))
    | _, _ => None
    end.

  Definition stmt_step (roots : layer_refs) (e_ref r : ref) (ty syn sec : str)
             (h : heap) (st : source * guard) : option heap :=
    match fetch_layer h roots e_ref ty syn (fst st) with
    | None => None
    | Some c =>
        match deref_field h c sec with
        | Bad => None
        | Found d => update_obj h r d
        | Absent => match snd st with
                    | GetOrEmpty => update_obj h r e_ref     (* result.update(X.get(key, empty)) *)
                    | IfKeyIn => Some h                      (* if key in X: ... *)
                    end
        end
    end.

  Fixpoint run_stmts (roots : layer_refs) (e_ref r : ref) (ty syn sec : str)
           (stmts : list (source * guard)) (h : heap) : option heap :=
    match stmts with
    | [] => Some h
    | st :: rest => match stmt_step roots e_ref r ty syn sec h st with
                    | Some h' => run_stmts roots e_ref r ty syn sec rest h'
                    | None => None
                    end
    end.

  Definition merged_over_heap (stmts : list (source * guard)) (h : heap) (roots : layer_refs)
             (ty syn sec : str) : option (heap * ref) :=
    let (h1, e_ref) := alloc h [] in       (* empty = {}  *)
    let (h2, r) := alloc h1 [] in          (* result = {} *)
    match run_stmts roots e_ref r ty syn sec stmts h2 with
    | Some h' => Some (h', r)
    | None => None
    end.

  Definition merged_data_heap := merged_over_heap layer_stmts.

  (* ---------------------------------------------------------------- heap facts *)
  Lemma heap_set_length h a o : length (heap_set h a o) = length h.
  Proof. revert a. induction h as [|x h IH]; intros [|a]; simpl; try reflexivity. rewrite IH. reflexivity. Qed.

  Lemma heap_get_set_other h a b o : a <> b -> heap_get (heap_set h b o) a = heap_get h a.
  Proof.
    unfold heap_get. revert a b. induction h as [|x h IH]; intros [|a] [|b] Hne; simpl; try reflexivity.
    - contradiction.
    - apply IH. intros ->. apply Hne. reflexivity.
  Qed.

  Lemma heap_get_set_same h a o : a < length h -> heap_get (heap_set h a o) a = Some o.
  Proof.
    unfold heap_get. revert a. induction h as [|x h IH]; intros [|a] Hlt; simpl in *; try reflexivity.
    - inversion Hlt.
    - inversion Hlt.
    - apply IH. apply PeanoNat.Nat.succ_lt_mono. exact Hlt.
  Qed.

  Lemma heap_get_alloc_old h o a : a < length h -> heap_get (fst (alloc h o)) a = heap_get h a.
  Proof. intros H. unfold heap_get, alloc. simpl. apply nth_error_app1. exact H. Qed.

  Lemma heap_get_alloc_new h o : heap_get (fst (alloc h o)) (length h) = Some o.
  Proof. unfold heap_get, alloc. simpl. rewrite nth_error_app2; [|apply le_n]. rewrite PeanoNat.Nat.sub_diag. reflexivity. Qed.

  Lemma heap_get_lt h a o : heap_get h a = Some o -> a < length h.
  Proof. unfold heap_get. intros H. apply nth_error_Some. rewrite H. discriminate. Qed.

  Lemma app1_length (h : heap) (o : obj) : length (h ++ [o]) = S (length h).
  Proof. rewrite app_length. simpl. apply PeanoNat.Nat.add_1_r. Qed.

  (* two heaps that differ at most at [r] *)
  Definition agree_except (r : ref) (h h' : heap) : Prop :=
    length h' = length h /\ forall a, a <> r -> heap_get h' a = heap_get h a.

  Lemma agree_refl r h : agree_except r h h.
  Proof. split; reflexivity. Qed.

  Lemma agree_trans r h1 h2 h3 : agree_except r h1 h2 -> agree_except r h2 h3 -> agree_except r h1 h3.
  Proof.
    intros [L1 A1] [L2 A2]. split; [congruence|]. intros a Ha. rewrite (A2 a Ha). apply A1. exact Ha.
  Qed.

  Lemma update_agree h r src h' : update_obj h r src = Some h' -> agree_except r h h'.
  Proof.
    unfold update_obj. destruct (heap_get h r) as [dr|]; [|discriminate].
    destruct (heap_get h src) as [ds|]; [|discriminate]. intros H. inversion H; subst. split.
    - apply heap_set_length.
    - intros a Ha. apply heap_get_set_other. exact Ha.
  Qed.

  Lemma step_agree roots e_ref r ty syn sec h st h' :
    stmt_step roots e_ref r ty syn sec h st = Some h' -> agree_except r h h'.
  Proof.
    unfold stmt_step. destruct (fetch_layer h roots e_ref ty syn (fst st)) as [c|]; [|discriminate].
    destruct (deref_field h c sec) as [| |d]; [discriminate| |apply update_agree].
    destruct (snd st); [apply update_agree|]. intros H. inversion H; subst. apply agree_refl.
  Qed.

  Lemma run_agree roots e_ref r ty syn sec stmts : forall h h',
    run_stmts roots e_ref r ty syn sec stmts h = Some h' -> agree_except r h h'.
  Proof.
    induction stmts as [|st rest IH]; intros h h' H; simpl in H.
    - inversion H; subst. apply agree_refl.
    - destruct (stmt_step roots e_ref r ty syn sec h st) as [h1|] eqn:E; [|discriminate].
      apply (agree_trans r h h1 h'); [apply (step_agree _ _ _ _ _ _ _ _ _ E)|apply IH; exact H].
  Qed.

  (* PURITY.  No assumption on the heap, the roots or the aliasing among them. *)
  Theorem merge_over_preserves_heap stmts h roots ty syn sec h' r :
    merged_over_heap stmts h roots ty syn sec = Some (h', r) ->
    (forall a, a < next_ref h -> heap_get h' a = heap_get h a) /\      (* every old object unchanged *)
    heap_get h' (next_ref h) = Some [] /\                              (* `empty` is still empty    *)
    r = S (next_ref h) /\ heap_get h r = None /\                       (* the result is a new object *)
    next_ref h' = S (S (next_ref h)).                                  (* nothing else was allocated *)
  Proof.
    unfold merged_over_heap, alloc, next_ref. cbv beta iota.
    destruct (run_stmts _ _ _ _ _ _ _ _) as [hf|] eqn:E; [|intros H; discriminate H].
    intros H. inversion H; subst hf r. clear H.
    apply run_agree in E. destruct E as [L A].
    pose proof (app1_length h []) as Hl.
    repeat split.
    - intros a Ha. rewrite A; [|rewrite Hl; lia].
      unfold heap_get. rewrite nth_error_app1; [|rewrite Hl; lia].
      apply nth_error_app1. exact Ha.
    - rewrite A; [|rewrite Hl; lia].
      unfold heap_get. rewrite nth_error_app1; [|rewrite Hl; lia].
      rewrite nth_error_app2; [|lia]. rewrite PeanoNat.Nat.sub_diag. reflexivity.
    - exact Hl.
    - rewrite Hl. unfold heap_get. apply nth_error_None. lia.
    - rewrite L. rewrite !app1_length. reflexivity.
  Qed.

  Theorem merge_preserves_heap h roots ty syn sec h' r :
    merged_data_heap h roots ty syn sec = Some (h', r) ->
    (forall a, a < next_ref h -> heap_get h' a = heap_get h a) /\
    heap_get h' (next_ref h) = Some [] /\
    r = S (next_ref h) /\ heap_get h r = None /\
    next_ref h' = S (S (next_ref h)).
  Proof. apply merge_over_preserves_heap. Qed.

  (* ---------------------------------------------------------------- refinement *)
  (* The dict a source's section denotes in heap h (None: ill-typed heap), [] when the
     layer config or its section is absent. *)
  Definition heap_layer (h : heap) (roots : layer_refs) (ty syn : str) (s : source) : option (option ref) :=
    match s with
    | SrcDefault => Some (Some (r_default roots))
    | SrcUser => Some (Some (r_user roots))
    | SrcSyntaxConfig sl =>
        match deref_field h (r_syntax_config roots) (sel_name sl ty syn) with
        | Found c => Some (Some c) | Absent => Some None | Bad => None
        end
    | SrcGlobal sl =>
        match deref_field h (r_global roots) (sel_name sl ty syn) with
        | Found c => Some (Some c) | Absent => Some None | Bad => None
        end
    end.

  Definition heap_section (h : heap) (roots : layer_refs) (ty syn sec : str) (s : source) : option obj :=
    match heap_layer h roots ty syn s with
    | None => None
    | Some None => Some []
    | Some (Some c) =>
        match deref_field h c sec with
        | Bad => None
        | Absent => Some []
        | Found d => heap_get h d
        end
    end.

  (* the heap holds, for this call, the layers the abstract environment describes *)
  Definition reads_env (h : heap) (roots : layer_refs) (ty syn sec : str) (e : env val) : Prop :=
    forall s, heap_section h roots ty syn sec s = Some (section_of (source_cfg e ty syn s) sec).

  (* reading through references that are valid in h gives the same answer in any heap
     that extends h and differs from it only at fresh addresses *)
  Definition extends (h h' : heap) : Prop :=
    length h <= length h' /\ forall a, a < length h -> heap_get h' a = heap_get h a.

  Lemma deref_extends h h' a k :
    extends h h' -> deref_field h a k <> Bad -> deref_field h' a k = deref_field h a k.
  Proof.
    intros [_ A] H. unfold deref_field in *. destruct (heap_get h a) as [d|] eqn:E; [|contradiction].
    rewrite (A a (heap_get_lt _ _ _ E)), E. reflexivity.
  Qed.

  Lemma stmt_refines roots ty syn sec h0 e (st : source * guard) h res :
    reads_env h0 roots ty syn sec e ->
    extends h0 h ->
    heap_get h (length h0) = Some [] ->
    S (length h0) < length h ->
    heap_get h (S (length h0)) = Some res ->
    exists h', stmt_step roots (length h0) (S (length h0)) ty syn sec h st = Some h' /\
               extends h0 h' /\ heap_get h' (length h0) = Some [] /\ length h' = length h /\
               heap_get h' (S (length h0)) = Some (dupdate res (section_of (source_cfg e ty syn (fst st)) sec)).
  Proof.
    intros Hr Hext He Hlen Hres. specialize (Hr (fst st)). unfold heap_section, heap_layer in Hr.
    assert (Hupd : forall d ds, heap_get h d = Some ds ->
              exists h', update_obj h (S (length h0)) d = Some h' /\
                         extends h0 h' /\ heap_get h' (length h0) = Some [] /\ length h' = length h /\
                         heap_get h' (S (length h0)) = Some (dupdate res ds)).
    { intros d ds Hd. unfold update_obj. rewrite Hres, Hd. eexists. split; [reflexivity|].
      destruct Hext as [L A]. repeat split.
      - rewrite heap_set_length. exact L.
      - intros a Ha. rewrite heap_get_set_other; [apply A; exact Ha|].
        intros ->. apply (PeanoNat.Nat.nlt_succ_diag_l _ Ha).
      - rewrite heap_get_set_other; [exact He|]. apply PeanoNat.Nat.neq_succ_diag_r.
      - apply heap_set_length.
      - apply heap_get_set_same. exact Hlen. }
    assert (Hskip : section_of (source_cfg e ty syn (fst st)) sec = [] ->
              exists h', (match snd st with GetOrEmpty => update_obj h (S (length h0)) (length h0) | IfKeyIn => Some h end) = Some h' /\
                         extends h0 h' /\ heap_get h' (length h0) = Some [] /\ length h' = length h /\
                         heap_get h' (S (length h0)) = Some (dupdate res (section_of (source_cfg e ty syn (fst st)) sec))).
    { intros ->. destruct (snd st).
      - apply (Hupd _ _ He).
      - exists h. rewrite dupdate_nil. repeat split; try assumption; apply Hext. }
    (* what the layer is *)
    assert (Hsec : forall c, fetch_layer h roots (length h0) ty syn (fst st) = Some c ->
              match deref_field h0 c sec with
              | Bad => None | Absent => Some [] | Found d => heap_get h0 d
              end = Some (section_of (source_cfg e ty syn (fst st)) sec) ->
              exists h', stmt_step roots (length h0) (S (length h0)) ty syn sec h st = Some h' /\
                         extends h0 h' /\ heap_get h' (length h0) = Some [] /\ length h' = length h /\
                         heap_get h' (S (length h0)) = Some (dupdate res (section_of (source_cfg e ty syn (fst st)) sec))).
    { intros c Hc Hs. unfold stmt_step. rewrite Hc.
      destruct (deref_field h0 c sec) as [| |d] eqn:Ed; [discriminate| |].
      - rewrite (deref_extends h0 h c sec Hext); [|rewrite Ed; discriminate]. rewrite Ed.
        apply Hskip. congruence.
      - rewrite (deref_extends h0 h c sec Hext); [|rewrite Ed; discriminate]. rewrite Ed.
        apply Hupd. destruct Hext as [_ A]. rewrite (A d (heap_get_lt _ _ _ Hs)). exact Hs. }
    (* absent layer config: `empty` is used, which has no section *)
    assert (Hempty : fetch_layer h roots (length h0) ty syn (fst st) = Some (length h0) ->
              Some [] = Some (section_of (source_cfg e ty syn (fst st)) sec) ->
              exists h', stmt_step roots (length h0) (S (length h0)) ty syn sec h st = Some h' /\
                         extends h0 h' /\ heap_get h' (length h0) = Some [] /\ length h' = length h /\
                         heap_get h' (S (length h0)) = Some (dupdate res (section_of (source_cfg e ty syn (fst st)) sec))).
    { intros Hc Hs. unfold stmt_step. rewrite Hc. unfold deref_field. rewrite He. cbn [dget assoc_str].
      apply Hskip. congruence. }
    destruct (fst st) as [|sl|sl|] eqn:Es.
    - apply (Hsec (r_default roots)); [reflexivity|exact Hr].
    - destruct (deref_field h0 (r_syntax_config roots) (sel_name sl ty syn)) as [| |c] eqn:Ed; [discriminate| |].
      + apply Hempty; [|exact Hr]. simpl. rewrite (deref_extends h0 h _ _ Hext); [|rewrite Ed; discriminate].
        rewrite Ed. reflexivity.
      + apply (Hsec c); [|exact Hr]. simpl. rewrite (deref_extends h0 h _ _ Hext); [|rewrite Ed; discriminate].
        rewrite Ed. reflexivity.
    - destruct (deref_field h0 (r_global roots) (sel_name sl ty syn)) as [| |c] eqn:Ed; [discriminate| |].
      + apply Hempty; [|exact Hr]. simpl. rewrite (deref_extends h0 h _ _ Hext); [|rewrite Ed; discriminate].
        rewrite Ed. reflexivity.
      + apply (Hsec c); [|exact Hr]. simpl. rewrite (deref_extends h0 h _ _ Hext); [|rewrite Ed; discriminate].
        rewrite Ed. reflexivity.
    - apply (Hsec (r_user roots)); [reflexivity|exact Hr].
  Qed.

  Lemma run_refines roots ty syn sec h0 e stmts : forall h res,
    reads_env h0 roots ty syn sec e ->
    extends h0 h ->
    heap_get h (length h0) = Some [] ->
    S (length h0) < length h ->
    heap_get h (S (length h0)) = Some res ->
    exists h', run_stmts roots (length h0) (S (length h0)) ty syn sec stmts h = Some h' /\
               heap_get h' (S (length h0)) =
               Some (fold_left (fun result st => dupdate result (section_of (source_cfg e ty syn (fst st)) sec)) stmts res).
  Proof.
    induction stmts as [|st rest IH]; intros h res Hr Hext He Hlen Hres.
    - exists h. split; [reflexivity|exact Hres].
    - destruct (stmt_refines roots ty syn sec h0 e st h res Hr Hext He Hlen Hres) as (h1 & Hs & Hext1 & He1 & Hl1 & Hres1).
      destruct (IH h1 _ Hr Hext1 He1 ltac:(rewrite Hl1; exact Hlen) Hres1) as (h' & Hrun & Hfin).
      exists h'. split; [|exact Hfin]. simpl. rewrite Hs. exact Hrun.
  Qed.

  Theorem merge_over_heap_refines stmts h roots ty syn sec e :
    reads_env h roots ty syn sec e ->
    exists h' r, merged_over_heap stmts h roots ty syn sec = Some (h', r) /\
                 heap_get h' r = Some (merged_over stmts e ty syn sec).
  Proof.
    intros Hr. unfold merged_over_heap, alloc. cbv beta iota.
    pose proof (app1_length h []) as Hl.
    rewrite Hl.
    destruct (run_refines roots ty syn sec h e stmts ((h ++ [[]]) ++ [[]]) [] Hr) as (h' & Hrun & Hfin).
    - split.
      + rewrite !app1_length. lia.
      + intros a Ha. unfold heap_get. rewrite nth_error_app1; [|rewrite ?app1_length; lia].
        apply nth_error_app1. exact Ha.
    - unfold heap_get. rewrite nth_error_app1; [|rewrite ?app1_length; lia].
      rewrite nth_error_app2; [|lia]. rewrite PeanoNat.Nat.sub_diag. reflexivity.
    - rewrite !app1_length. lia.
    - unfold heap_get. rewrite nth_error_app2; [|rewrite ?app1_length; lia]. rewrite ?app1_length, PeanoNat.Nat.sub_diag. reflexivity.
    - exists h', (S (length h)). split; [|exact Hfin].
      match goal with |- match ?x with _ => _ end = _ => change x with (run_stmts roots (length h) (S (length h)) ty syn sec stmts ((h ++ [[]]) ++ [[]])) end.
      rewrite Hrun. reflexivity.
  Qed.

  Theorem merge_heap_refines h roots ty syn sec e :
    reads_env h roots ty syn sec e ->
    exists h' r, merged_data_heap h roots ty syn sec = Some (h', r) /\
                 heap_get h' r = Some (merged_data e ty syn sec).
  Proof. apply merge_over_heap_refines. Qed.

  (* ---------------------------------------------------------------- Config.__init__ *)
  (* the three merged_data calls of Config.__init__, one after the other on the same heap
     (type and syntax are plain reads of user_config and passed in) *)
  Fixpoint init_heap (roots : layer_refs) (ty syn : str) (secs : list str) (h : heap)
    : option (heap * list (str * ref)) :=
    match secs with
    | [] => Some (h, [])
    | sec :: rest =>
        match merged_data_heap h roots ty syn sec with
        | None => None
        | Some (h1, r) =>
            match init_heap roots ty syn rest h1 with
            | None => None
            | Some (h2, rs) => Some (h2, (sec, r) :: rs)
            end
        end
    end.
  Definition config_init_heap (h : heap) (roots : layer_refs) (ty syn : str) :=
    init_heap roots ty syn init_sections h.

  Lemma init_preserves roots ty syn secs : forall h h' rs,
    init_heap roots ty syn secs h = Some (h', rs) ->
    next_ref h <= next_ref h' /\
    (forall a, a < next_ref h -> heap_get h' a = heap_get h a) /\
    Forall (fun sr => next_ref h <= snd sr /\ snd sr < next_ref h') rs /\
    NoDup (map snd rs) /\
    Forall (fun sr => exists hi hi', merged_data_heap hi roots ty syn (fst sr) = Some (hi', snd sr) /\
                                     heap_get h' (snd sr) = heap_get hi' (snd sr)) rs.
  Proof.
    induction secs as [|sec rest IH]; intros h h' rs H; simpl in H.
    - inversion H; subst. repeat split; constructor.
    - destruct (merged_data_heap h roots ty syn sec) as [[h1 r]|] eqn:E1; [|discriminate].
      destruct (init_heap roots ty syn rest h1) as [[h2 rs2]|] eqn:E2; [|discriminate].
      inversion H; subst h' rs. clear H.
      destruct (merge_preserves_heap _ _ _ _ _ _ _ E1) as (P1 & _ & Pr & _ & Pn).
      destruct (IH _ _ _ E2) as (Q0 & Q1 & Q2 & Q3 & Q4).
      assert (Hr1 : r < next_ref h1) by (rewrite Pn, Pr; lia).
      unfold next_ref, ref in *.
      repeat split.
      + lia.
      + intros a Ha. rewrite Q1; [apply P1; exact Ha|lia].
      + constructor; [simpl; lia|]. eapply Forall_impl; [|exact Q2]. simpl. intros sr [A B]. lia.
      + simpl. constructor; [|exact Q3]. intros Hin. apply in_map_iff in Hin. destruct Hin as (sr & Hsr & Hin).
        rewrite Forall_forall in Q2. specialize (Q2 sr Hin). lia.
      + constructor; [|exact Q4]. simpl. exists h, h1. split; [exact E1|]. apply Q1. exact Hr1.
  Qed.

  (* PURITY of Config.__init__: the three merges leave every pre-existing object as it was,
     give three distinct new objects, and a later merge never touches an earlier result *)
  Theorem config_init_preserves_heap h roots ty syn h' rs :
    config_init_heap h roots ty syn = Some (h', rs) ->
    (forall a, a < next_ref h -> heap_get h' a = heap_get h a) /\
    map fst rs = init_sections /\
    Forall (fun sr => next_ref h <= snd sr /\ heap_get h (snd sr) = None) rs /\
    NoDup (map snd rs) /\
    Forall (fun sr => exists hi hi', merged_data_heap hi roots ty syn (fst sr) = Some (hi', snd sr) /\
                                     heap_get h' (snd sr) = heap_get hi' (snd sr)) rs.
  Proof.
    intros H. unfold config_init_heap in H.
    destruct (init_preserves _ _ _ _ _ _ _ H) as (_ & Q1 & Q2 & Q3 & Q4).
    repeat split; try assumption.
    - clear Q1 Q2 Q3 Q4. revert h h' rs H. induction init_sections as [|sec rest IH]; intros h h' rs H; simpl in H.
      + inversion H. reflexivity.
      + destruct (merged_data_heap h roots ty syn sec) as [[h1 r]|]; [|discriminate].
        destruct (init_heap roots ty syn rest h1) as [[h2 rs2]|] eqn:E2; [|discriminate].
        inversion H; subst. simpl. f_equal. apply (IH _ _ _ E2).
    - eapply Forall_impl; [|exact Q2]. simpl. intros sr [A B]. split; [exact A|].
      unfold heap_get. apply nth_error_None. exact A.
  Qed.
End Heap.

Arguments val V : clear implicits.
Arguments obj V : clear implicits.
Arguments heap V : clear implicits.
