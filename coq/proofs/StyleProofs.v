(* C05: colour printing and parsing, unit decision rule, !important and line shape
   of the formatter.  (The tokenizer's dash rule lives in StyleDashProofs.v.) *)
From Coq Require Import ZifyBool String.
From Emmet Require Import lib.Base lib.StyleLib model.CssTokenizer model.CssParser model.Score model.Color
     model.CssSnippets model.CssResolve model.CssFormat.
Local Open Scope N_scope.

(* ------------------------------------------------------------------ SPEC: the value a printed hex colour denotes *)
Definition hexpair (h l : char) : option N :=
  match hex_digit_value h, hex_digit_value l with
  | Some a, Some b => Some (16 * a + b)
  | _, _ => None
  end.

(* CSS: #abc = #aabbcc; #aabbcc = (aa, bb, cc) *)
Definition css_hex_decode (s : str) : option (N * N * N) :=
  match s with
  | [h; a; b; c] =>
      if h =? c_hash then
        match hexpair a a, hexpair b b, hexpair c c with
        | Some r, Some g, Some b' => Some (r, g, b')
        | _, _, _ => None
        end
      else None
  | [h; a1; a2; b1; b2; c1; c2] =>
      if h =? c_hash then
        match hexpair a1 a2, hexpair b1 b2, hexpair c1 c2 with
        | Some r, Some g, Some b' => Some (r, g, b')
        | _, _, _ => None
        end
      else None
  | _ => None
  end.

(* ------------------------------------------------------------------ per-channel sweep (256 values, complete) *)
Definition chans : list N := map N.of_nat (seq 0 256).

Lemma chans_in n : n < 256 -> In n chans.
Proof.
  intros H. unfold chans. apply in_map_iff. exists (N.to_nat n). split; [lia|]. apply in_seq. lia.
Qed.

Definition chan_long_ok (n : N) : bool :=
  match to_hex n with
  | [h; l] => match hexpair h l with Some v => v =? n | None => false end
  | _ => false
  end.
Definition chan_short_ok (n : N) : bool :=
  negb (is_short_hex n) ||
  match to_short_hex n with
  | [d] => match hexpair d d with Some v => v =? n | None => false end
  | _ => false
  end.

Lemma chan_sweep : forallb (fun n => chan_long_ok n && chan_short_ok n) chans = true.
Proof. vm_compute. reflexivity. Qed.

Lemma to_hex_shape n : n < 256 -> exists h l, to_hex n = [h; l] /\ hexpair h l = Some n.
Proof.
  intros H. pose proof chan_sweep as S. rewrite forallb_forall in S.
  specialize (S n (chans_in n H)). apply andb_true_iff in S. destruct S as [S _].
  unfold chan_long_ok in S.
  destruct (to_hex n) as [|h [|l [|x t]]]; try discriminate.
  exists h, l. split; [reflexivity|].
  destruct (hexpair h l) as [v|]; [|discriminate]. apply N.eqb_eq in S. subst. reflexivity.
Qed.

Lemma to_short_hex_shape n :
  n < 256 -> is_short_hex n = true -> exists d, to_short_hex n = [d] /\ hexpair d d = Some n.
Proof.
  intros H Hs. pose proof chan_sweep as S. rewrite forallb_forall in S.
  specialize (S n (chans_in n H)). apply andb_true_iff in S. destruct S as [_ S].
  unfold chan_short_ok in S. rewrite Hs in S. cbn [negb orb] in S.
  destruct (to_short_hex n) as [|d [|x t]]; try discriminate.
  exists d. split; [reflexivity|].
  destruct (hexpair d d) as [v|]; [|discriminate]. apply N.eqb_eq in S. subst. reflexivity.
Qed.

Lemma hash_eqb : (c_hash =? c_hash) = true.
Proof. reflexivity. Qed.

(* hex_roundtrip: decoding what as_hex prints gives back the channels *)
Lemma hex_roundtrip r g b short :
  r < 256 -> g < 256 -> b < 256 -> css_hex_decode (as_hex r g b short) = Some (r, g, b).
Proof.
  intros Hr Hg Hb. unfold as_hex.
  destruct (short && is_short_hex r && is_short_hex g && is_short_hex b) eqn:E.
  - apply andb_true_iff in E. destruct E as [E Eb]. apply andb_true_iff in E. destruct E as [E Eg].
    apply andb_true_iff in E. destruct E as [_ Er].
    destruct (to_short_hex_shape r Hr Er) as [dr [Sr Pr]].
    destruct (to_short_hex_shape g Hg Eg) as [dg [Sg Pg]].
    destruct (to_short_hex_shape b Hb Eb) as [db [Sb Pb]].
    rewrite Sr, Sg, Sb. cbn [app css_hex_decode]. rewrite hash_eqb, Pr, Pg, Pb. reflexivity.
  - destruct (to_hex_shape r Hr) as [h1 [l1 [Sr Pr]]].
    destruct (to_hex_shape g Hg) as [h2 [l2 [Sg Pg]]].
    destruct (to_hex_shape b Hb) as [h3 [l3 [Sb Pb]]].
    rewrite Sr, Sg, Sb. cbn [app css_hex_decode]. rewrite hash_eqb, Pr, Pg, Pb. reflexivity.
Qed.

(* short_hex_iff: the 3-digit form is produced iff shortHex and every channel is a multiple of 17;
   otherwise the 6-digit form *)
Lemma short_hex_iff r g b short :
  r < 256 -> g < 256 -> b < 256 ->
  (length (as_hex r g b short) = 4%nat <->
   short = true /\ r mod 17 = 0 /\ g mod 17 = 0 /\ b mod 17 = 0) /\
  (length (as_hex r g b short) = 4%nat \/ length (as_hex r g b short) = 7%nat).
Proof.
  intros Hr Hg Hb. unfold as_hex.
  destruct (short && is_short_hex r && is_short_hex g && is_short_hex b) eqn:E.
  - pose proof E as E0.
    apply andb_true_iff in E. destruct E as [E Eb]. apply andb_true_iff in E. destruct E as [E Eg].
    apply andb_true_iff in E. destruct E as [Es Er].
    destruct (to_short_hex_shape r Hr Er) as [dr [Sr _]].
    destruct (to_short_hex_shape g Hg Eg) as [dg [Sg _]].
    destruct (to_short_hex_shape b Hb Eb) as [db [Sb _]].
    rewrite Sr, Sg, Sb. cbn [app length]. split; [|left; reflexivity].
    split; [|reflexivity]. intros _. unfold is_short_hex in *.
    apply N.eqb_eq in Er, Eg, Eb. auto.
  - destruct (to_hex_shape r Hr) as [h1 [l1 [Sr _]]].
    destruct (to_hex_shape g Hg) as [h2 [l2 [Sg _]]].
    destruct (to_hex_shape b Hb) as [h3 [l3 [Sb _]]].
    rewrite Sr, Sg, Sb. cbn [app length]. split; [|right; reflexivity].
    split; [discriminate|]. intros [Hs [M1 [M2 M3]]]. exfalso.
    unfold is_short_hex in E. subst short. rewrite M1, M2, M3 in E. discriminate.
Qed.

(* ------------------------------------------------------------------ parse_color: the documented forms *)
Definition alpha_of (alpha : str) : option dec :=
  match alpha with [] => Some dec_one | _ => dec_of_raw alpha end.

Lemma hexv_not_t x v : hex_digit_value x = Some v -> str_eqb [x] [c_t] = false.
Proof.
  intros H. cbn [str_eqb]. destruct (x =? c_t) eqn:E; [|reflexivity].
  apply N.eqb_eq in E. subst x. vm_compute in H. discriminate.
Qed.

Lemma hex_value_pair x y vx vy :
  hex_digit_value x = Some vx -> hex_digit_value y = Some vy -> hex_value [x; y] = Some (16 * vx + vy).
Proof.
  intros Hx Hy. unfold hex_value. cbn [hex_value_acc]. rewrite Hx, Hy. f_equal. lia.
Qed.

Section Forms.
  Variables (alpha : str) (a : dec).
  Hypothesis Ha : alpha_of alpha = Some a.

  Lemma alpha_branch : match alpha with [] => Some dec_one | _ => dec_of_raw alpha end = Some a.
  Proof. exact Ha. Qed.

  (* #x -> xx xx xx *)
  Lemma parse_color_1 x vx :
    hex_digit_value x = Some vx ->
    parse_color [x] alpha = Some (17 * vx, 17 * vx, 17 * vx, a).
  Proof.
    intros Hx. unfold parse_color. rewrite alpha_branch. rewrite (hexv_not_t x vx Hx).
    unfold rep2. rewrite (hex_value_pair x x vx vx Hx Hx).
    replace (16 * vx + vx) with (17 * vx) by lia. reflexivity.
  Qed.

  (* #xy -> xy xy xy *)
  Lemma parse_color_2 x y vx vy :
    hex_digit_value x = Some vx -> hex_digit_value y = Some vy ->
    parse_color [x; y] alpha = Some (16 * vx + vy, 16 * vx + vy, 16 * vx + vy, a).
  Proof.
    intros Hx Hy. unfold parse_color. rewrite alpha_branch.
    replace (str_eqb [x; y] [c_t]) with false by (cbn [str_eqb]; destruct (x =? c_t); reflexivity).
    rewrite (hex_value_pair x y vx vy Hx Hy). reflexivity.
  Qed.

  (* #xyz -> xx yy zz *)
  Lemma parse_color_3 x y z vx vy vz :
    hex_digit_value x = Some vx -> hex_digit_value y = Some vy -> hex_digit_value z = Some vz ->
    parse_color [x; y; z] alpha = Some (17 * vx, 17 * vy, 17 * vz, a).
  Proof.
    intros Hx Hy Hz. unfold parse_color. rewrite alpha_branch.
    replace (str_eqb [x; y; z] [c_t]) with false by (cbn [str_eqb]; destruct (x =? c_t); reflexivity).
    unfold rep2. rewrite (hex_value_pair x x vx vx Hx Hx), (hex_value_pair y y vy vy Hy Hy),
      (hex_value_pair z z vz vz Hz Hz).
    replace (16 * vx + vx) with (17 * vx) by lia.
    replace (16 * vy + vy) with (17 * vy) by lia.
    replace (16 * vz + vz) with (17 * vz) by lia. reflexivity.
  Qed.

  (* #rrggbb -> rr gg bb *)
  Lemma parse_color_6 r1 r2 g1 g2 b1 b2 v1 v2 v3 v4 v5 v6 :
    hex_digit_value r1 = Some v1 -> hex_digit_value r2 = Some v2 ->
    hex_digit_value g1 = Some v3 -> hex_digit_value g2 = Some v4 ->
    hex_digit_value b1 = Some v5 -> hex_digit_value b2 = Some v6 ->
    parse_color [r1; r2; g1; g2; b1; b2] alpha = Some (16 * v1 + v2, 16 * v3 + v4, 16 * v5 + v6, a).
  Proof.
    intros H1 H2 H3 H4 H5 H6. unfold parse_color. rewrite alpha_branch.
    replace (str_eqb [r1; r2; g1; g2; b1; b2] [c_t]) with false
      by (cbn [str_eqb]; destruct (r1 =? c_t); reflexivity).
    change (rjust0 6 [r1; r2; g1; g2; b1; b2]) with [r1; r2; g1; g2; b1; b2].
    change (slice [r1; r2; g1; g2; b1; b2] 0 2) with [r1; r2].
    change (slice [r1; r2; g1; g2; b1; b2] 2 4) with [g1; g2].
    change (slice [r1; r2; g1; g2; b1; b2] 4 6) with [b1; b2].
    rewrite (hex_value_pair _ _ _ _ H1 H2), (hex_value_pair _ _ _ _ H3 H4), (hex_value_pair _ _ _ _ H5 H6).
    reflexivity.
  Qed.
End Forms.

(* ------------------------------------------------------------------ colour printing: which form *)
Lemma pow10_pos k : 0 < pow10 k.
Proof. unfold pow10. apply N.neq_0_lt_0. apply N.pow_nonzero. discriminate. Qed.

Lemma one_not_zero a : dec_is_one a = true -> dec_is_zero a = false.
Proof.
  unfold dec_is_one, dec_is_zero. intros H. apply andb_true_iff in H. destruct H as [_ H].
  apply N.eqb_eq in H. pose proof (pow10_pos (dexp a)). apply N.eqb_neq. lia.
Qed.

(* alpha = 1: the hex form (never rgba, never 'transparent') *)
Lemma color_opaque r g b a short : dec_is_one a = true -> color r g b a short = as_hex r g b short.
Proof.
  intros H. unfold color. rewrite (one_not_zero a H), H.
  rewrite andb_false_r. reflexivity.
Qed.

(* alpha <> 1 (and not the all-zero colour): rgba(r, g, b, a) with a printed by frac *)
Lemma alpha_rgba r g b a short :
  dec_is_one a = false ->
  (r =? 0) && (g =? 0) && (b =? 0) && dec_is_zero a = false ->
  color r g b a short =
  lit "rgba(" ++ str_of_N r ++ lit ", " ++ str_of_N g ++ lit ", " ++ str_of_N b ++ lit ", " ++ frac a 8 ++ lit ")".
Proof.
  intros H1 H0. unfold color, as_rgb. rewrite H0, H1. cbn [negb app join].
  change (lit "rgba(") with (lit "rgba" ++ [c_lparen]).
  change (lit ")") with [c_rparen].
  repeat rewrite <- app_assoc. reflexivity.
Qed.

(* the fully transparent black *)
Lemma color_transparent short a : dec_is_zero a = true -> color 0 0 0 a short = lit "transparent".
Proof. intros H. unfold color. rewrite H. reflexivity. Qed.

(* ------------------------------------------------------------------ unit_rule *)
(* SPEC: the unit a number gets *)
Definition unit_spec (cfg : sconfig) (name : option str) (value : dec) (raw u : str) : str :=
  match u with
  | _ :: _ =>                                  (* explicit unit: through the alias table *)
      match assoc_str u (c_aliases cfg) with Some full => full | None => u end
  | [] =>
      if dec_is_zero value then []             (* 0 stays bare *)
      else if match name with Some n => mem_str n (c_unitless cfg) | None => false end then []   (* unitless property *)
      else if str_contains_char c_dot raw then c_float_unit cfg     (* written with a '.' : float unit *)
      else c_int_unit cfg
  end.

Lemma unit_rule cfg name value raw u st en :
  resolve_numeric_token cfg name (VTok (CNumber value raw u) st en) =
  VTok (CNumber value raw (unit_spec cfg name value raw u)) st en.
Proof.
  unfold resolve_numeric_token, unit_spec. destruct u as [|c u]; [|reflexivity].
  destruct (dec_is_zero value); cbn [negb andb]; [reflexivity|].
  destruct (match name with Some n => mem_str n (c_unitless cfg) | None => false end); reflexivity.
Qed.

Definition is_number_tok (t : cval) : bool :=
  match t with VTok (CNumber _ _ _) _ _ => true | _ => false end.

Lemma unit_rule_other cfg name t : is_number_tok t = false -> resolve_numeric_token cfg name t = t.
Proof. destruct t as [k st en|n args]; [destruct k|]; cbn; intros H; try reflexivity; discriminate. Qed.

(* the whole node: every token of every value goes through the rule, nothing else changes *)
Lemma resolve_numeric_value_spec cfg node :
  resolve_numeric_value cfg node =
  mkProp (pname node) (map (map (resolve_numeric_token cfg (pname node))) (pvalue node))
         (pimportant node) (psnippet node).
Proof. reflexivity. Qed.

(* ------------------------------------------------------------------ line_shape / important_rule (formatter) *)
Definition no_field (t : cval) : Prop := match t with VTok (CField _ _) _ _ => False | _ => True end.

Lemma output_value_from_spaces cfg : forall vs pe,
  Forall no_field vs ->
  output_value_from cfg vs false pe = concat (map (fun t => c_space :: output_token cfg t) vs).
Proof.
  induction vs as [|t r IH]; intros pe H; [reflexivity|].
  inversion H as [|? ? Ht Hr]; subst. cbn [output_value_from map concat].
  rewrite IH by assumption.
  destruct t as [k st en|n args]; [destruct k|]; cbn [app] in *; try reflexivity. contradiction.
Qed.

Lemma join_cons_concat (sep : str) : forall l x,
  join sep (x :: l) = x ++ concat (map (fun y => sep ++ y) l).
Proof.
  induction l as [|y l IH]; intros x.
  - cbn. rewrite app_nil_r. reflexivity.
  - change (join sep (x :: y :: l)) with (x ++ sep ++ join sep (y :: l)).
    cbn [map concat]. rewrite IH. rewrite <- app_assoc. reflexivity.
Qed.

(* a value without tabstops prints its tokens joined by single spaces *)
Lemma output_value_spaces cfg vs :
  Forall no_field vs -> output_value cfg vs = join [c_space] (map (output_token cfg) vs).
Proof.
  intros H. unfold output_value. destruct vs as [|t r]; [reflexivity|].
  inversion H as [|? ? Ht Hr]; subst. cbn [output_value_from app map].
  rewrite output_value_from_spaces by assumption.
  rewrite join_cons_concat, map_map. reflexivity.
Qed.

Lemma join_values_spec cfg : forall l,
  join_values cfg l false = concat (map (fun v => lit ", " ++ output_value cfg v) l).
Proof.
  induction l as [|v r IH]; [reflexivity|]. cbn [join_values map concat]. rewrite IH.
  rewrite <- app_assoc. reflexivity.
Qed.

Lemma join_values_join cfg l :
  join_values cfg l true = join (lit ", ") (map (output_value cfg) l).
Proof.
  destruct l as [|v r]; [reflexivity|]. cbn [join_values app map]. rewrite join_values_spec.
  rewrite join_cons_concat, map_map. reflexivity.
Qed.

(* line_shape + important_rule: a named property prints
     name between values [ " !important" ] after                                  *)
Lemma line_shape cfg node name :
  pname node = Some name -> c_json cfg = false -> pvalue node <> [] ->
  css_property cfg node =
  push_string cfg (name ++ c_between cfg) ++
  join (lit ", ") (map (output_value cfg) (pvalue node)) ++
  (if pimportant node then lit " !important" else []) ++ c_after cfg.
Proof.
  intros Hn Hj Hv. unfold css_property, css_property_value, output_important. rewrite Hn, Hj.
  destruct (pvalue node) as [|v r] eqn:E; [contradiction|].
  rewrite join_values_join. cbn [app]. rewrite app_nil_r.
  destruct (pimportant node); reflexivity.
Qed.

(* without a value: a tabstop *)
Lemma line_shape_empty cfg node name :
  pname node = Some name -> c_json cfg = false -> pvalue node = [] ->
  css_property cfg node =
  push_string cfg (name ++ c_between cfg) ++ push_field cfg (Some 0) [] ++
  (if pimportant node then lit " !important" else []) ++ c_after cfg.
Proof.
  intros Hn Hj Hv. unfold css_property, output_important. rewrite Hn, Hj, Hv.
  destruct (pimportant node); reflexivity.
Qed.

(* one property per line *)
Lemma stringify_from_lines cfg : forall l,
  c_format cfg = true ->
  stringify_from cfg l false = concat (map (fun p => nl_text cfg ++ css_property cfg p) l).
Proof.
  intros l Hf. induction l as [|p r IH]; [reflexivity|].
  cbn [stringify_from map concat]. rewrite Hf, IH. cbn [negb andb]. rewrite <- app_assoc. reflexivity.
Qed.

Lemma stringify_lines cfg l :
  c_format cfg = true ->
  stringify_from cfg l true = join (nl_text cfg) (map (css_property cfg) l).
Proof.
  intros Hf. destruct l as [|p r]; [reflexivity|].
  cbn [stringify_from map]. rewrite Hf. cbn [negb andb app]. rewrite stringify_from_lines by assumption.
  rewrite join_cons_concat, map_map. reflexivity.
Qed.

(* ------------------------------------------------------------------ important_rule (parser) *)
Definition bang_tok (t : ctoken) : Prop := k_is_important (ck t) = true.

(* a `!` met by the property loop sets the flag and is otherwise skipped *)
Lemma important_sets fuel vm t ts imp vals :
  bang_tok t ->
  p_prop_loop (S fuel) vm (t :: ts) imp vals = p_prop_loop fuel vm ts true vals.
Proof. intros H. cbn [p_prop_loop]. unfold bang_tok in H. rewrite H. reflexivity. Qed.

(* the flag is never reset *)
Lemma important_sticky : forall fuel vm ts vals imp' vals' rest,
  p_prop_loop fuel vm ts true vals = Ok (imp', vals', rest) -> imp' = true.
Proof.
  induction fuel as [|f IH]; intros vm ts vals imp' vals' rest H; cbn [p_prop_loop] in H; [discriminate|].
  destruct ts as [|t ts']; [inversion H; reflexivity|].
  destruct (k_is_important (ck t)); [eapply IH; exact H|].
  destruct (p_value _ vm (t :: ts') []) as [[v rest0]| | |]; cbn [bind] in H; try discriminate.
  destruct v as [|x v'].
  - destruct rest0 as [|t2 rest']; [inversion H; reflexivity|].
    destruct (k_is_fragment_delimiter (ck t2)); [eapply IH; exact H|inversion H; reflexivity].
  - eapply IH; exact H.
Qed.

(* ------------------------------------------------------------------ alpha printed as the canonical decimal *)
(* SPEC: the canonical decimal of n/100 (n < 100): no trailing zeros, no trailing dot *)
Definition hundredths_text (n : N) : str :=
  if n =? 0 then [c_0]
  else if n mod 10 =? 0 then [c_0; c_dot; c_0 + n / 10]
  else [c_0; c_dot; c_0 + n / 10; c_0 + n mod 10].

Definition hundredths : list N := map N.of_nat (seq 0 100).
Lemma hundredths_in n : n < 100 -> In n hundredths.
Proof. intros H. unfold hundredths. apply in_map_iff. exists (N.to_nat n). split; [lia|]. apply in_seq. lia. Qed.

(* complete sweep: every alpha of one or two digits (.d = d0 hundredths, .dd) *)
Lemma frac_hundredths_sweep :
  forallb (fun n => str_eqb (frac (mkDec false n 2) 8) (hundredths_text n) &&
                    (negb (n mod 10 =? 0) || str_eqb (frac (mkDec false (n / 10) 1) 8) (hundredths_text n)))
          hundredths = true.
Proof. vm_compute. reflexivity. Qed.

Lemma str_eqb_true_eq : forall a b, str_eqb a b = true -> a = b.
Proof.
  induction a as [|x a IH]; destruct b as [|y b]; cbn [str_eqb]; intros H; try discriminate; [reflexivity|].
  apply andb_true_iff in H. destruct H as [H1 H2]. apply N.eqb_eq in H1. subst. f_equal. apply IH. exact H2.
Qed.

Lemma frac_hundredths n : n < 100 -> frac (mkDec false n 2) 8 = hundredths_text n.
Proof.
  intros H. pose proof frac_hundredths_sweep as S. rewrite forallb_forall in S.
  specialize (S n (hundredths_in n H)). apply andb_true_iff in S. destruct S as [S _].
  apply str_eqb_true_eq. exact S.
Qed.

Lemma frac_tenths d : d < 10 -> frac (mkDec false d 1) 8 = hundredths_text (10 * d).
Proof.
  intros H. pose proof frac_hundredths_sweep as S. rewrite forallb_forall in S.
  assert (H10 : 10 * d < 100) by lia.
  specialize (S (10 * d) (hundredths_in _ H10)). apply andb_true_iff in S. destruct S as [_ S].
  replace ((10 * d) mod 10) with 0 in S by (rewrite N.mul_comm, N.mod_mul; lia).
  replace ((10 * d) / 10) with d in S by (rewrite N.mul_comm, N.div_mul; lia).
  cbn [N.eqb negb orb] in S. apply str_eqb_true_eq. exact S.
Qed.
