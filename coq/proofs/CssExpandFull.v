(* C13 end to end for stylesheet abbreviations, full statement: line and column as read off the returned
   string, for EVERY abbreviation -- the hypothesis about function names of CssExpandPositions is discharged by
   proofs/CssNamesTokenizer.v, CssNamesParser.v, CssNamesResolve.v. *)
From Coq Require Import ZArith List Bool Lia ZifyBool String.
From Emmet Require Import lib.Base lib.StyleLib model.CssTokenizer model.CssParser model.Score model.Color
     model.CssSnippets model.CssResolve model.CssFormat model.MarkupConvert model.OutStream
     model.CssFormatStream model.CssExpandStream proofs.OutStreamProofs proofs.CssFormatStream
     proofs.CssFormatStreamEq proofs.CssExpandPositions proofs.CssNamesResolve.
Import ListNotations.

Theorem expand_css_reach cfg abbr o :
  lf_count (c_after cfg) = 0 -> expand_css_stream cfg abbr = Ok o -> reach (cf_fmt (fmt_of cfg)) o.
Proof.
  intros Ha Ho. destruct (expand_css_stream_inv cfg abbr o Ho) as [sn [nodes [Hc [Hp ->]]]].
  apply css_stream_reach. eapply parse_with_raw_ok; eassumption.
Qed.

Theorem expand_css_positions_full cfg abbr o a e b :
  fmt_lf (cf_fmt (fmt_of cfg)) -> lf_count (c_after cfg) = 0 ->
  expand_css_stream cfg abbr = Ok o -> chron o = a ++ e :: b ->
  expand_css cfg abbr = Ok (text_of a ++ ev_text e ++ text_of b) /\
  ev_off e = length (text_of a) /\
  ev_line e = line_of (text_of a) /\
  ev_col e = column_of (text_of a).
Proof.
  intros Hf Ha Ho Hs. destruct (expand_css_stream_inv cfg abbr o Ho) as [sn [nodes [Hc [Hp ->]]]].
  pose proof (parse_with_raw_ok cfg sn abbr nodes Hc Hp Ha) as Hok.
  destruct (expand_css_positions_lemma cfg abbr sn nodes a e b Hc Hp Hf Hok Hs) as [_ H]. exact H.
Qed.
