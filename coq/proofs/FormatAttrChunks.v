(* C01 (implicit names) / C03: the open tags of the HTML formatter's output WITH their attribute
   text, at chunk level.

   Reading the chunks (one per push into the output stream) in order:
     a chunk `<name` (not `</`, not `<!`) opens a tag; every chunk pushed after it is attribute
     text of that tag, up to the first chunk that ends with `>`, which closes the open tag
     -> XTag name attribute-text;   a chunk `</name>` outside an open tag -> XClose name.
   Theorem [format_xtags]: for every forest of elements without text (any nesting, any
   attributes whose written form is free of line breaks and of '>'), under every clean
   configuration, the chunks read to the open/close sequence of the forest, every open tag
   carrying exactly the text AttrProofs.attr_out_spec prescribes for its attributes. *)
From Coq Require Import List NArith ZArith Bool Lia.
From Emmet Require Import lib.Base model.MarkupTokenizer model.MarkupParser model.MarkupConvert
     model.MarkupResolve model.OutStream model.FormatHtml proofs.IndentStream proofs.HtmlEvents proofs.AttrProofs.
Import ListNotations.

(* ================================================================ SPEC: reading the chunks *)
Inductive xev := XTag (name attrs : str) | XClose (name : str).

Definition ends_gt (s : str) : bool := match rev s with ch :: _ => (ch =? c_gt)%N | [] => false end.

(* events read so far, and the open tag being read (name, attribute text so far) *)
Definition xstate := (list xev * option (str * str))%type.

Definition xstep (x : xstate) (s : str) : xstate :=
  match snd x with
  | None =>
      match text_tag s with
      | [TOpen n] => (fst x, Some (n, []))
      | [TClose n] => (fst x ++ [XClose n], None)
      | _ => x
      end
  | Some (n, a) => if ends_gt s then (fst x ++ [XTag n a], None) else (fst x, Some (n, a ++ s))
  end.

(* events are stored most recent first; a field push is not a text chunk *)
Fixpoint xrev (evs : list oevent) : xstate :=
  match evs with
  | [] => ([], None)
  | EvText _ s _ _ _ :: older => xstep (xrev older) s
  | EvField _ _ _ _ _ :: older => xrev older
  end.
Definition xo (o : ostream) : xstate := xrev (os_events o).
Definition xread (st : fstate) : xstate := xo (fs_out st).

(* the open tags with their attribute text, in order *)
Definition open_tags (l : list xev) : list (str * str) :=
  flat_map (fun e => match e with XTag n a => [(n, a)] | XClose _ => [] end) l.

(* what the forest stands for *)
Definition attrs_text (c : oconfig) (at_ : option (list aattr)) : str :=
  match at_ with
  | Some l => concat (map (fun a => form_text (attr_out_spec c a)) (filter should_output_attribute l))
  | None => []
  end.
Fixpoint xtree (c : oconfig) (n : anode) : list xev :=
  match n with
  | ANode nm _ _ at_ ch _ =>
      let name := tag_name c (match nm with Some x => x | None => [] end) in
      XTag name (attrs_text c at_) :: flat_map (xtree c) ch ++ [XClose name]
  end.

(* ---------------------------------------------------------------- domain *)
Definition nogt (s : str) : bool := forallb (fun ch => negb (ch =? c_gt)%N) s.
Definition nl_freeb (s : str) : bool := forallb (fun ch => negb (is_linebreak ch)) s.
Definition sok (s : str) : bool := nl_freeb s && nogt s.
Definition form_okb (f : attr_form) : bool :=
  match f with
  | AF_none => true
  | AF_bare n => sok n
  | AF_empty n lq rq => sok n && sok lq && sok rq
  | AF_value n lq v rq =>
      sok n && sok lq && forallb (fun t => match t with VStr s => sok s | VField _ _ => false end) v && sok rq
  end.
Definition attr_okb (c : oconfig) (a : aattr) : bool := form_okb (attr_out_spec c a).

(* an element without text: a name fit for a tag, no value, not self-closing, attributes with a plain form *)
Fixpoint fnode (c : oconfig) (n : anode) : bool :=
  match n with
  | ANode nm v _ at_ ch sc =>
      match nm, v, sc with
      | Some ((_ :: _) as x), None, false =>
          nocrlf x && name_start x &&
          forallb (attr_okb c) (match at_ with Some l => l | None => [] end) && forallb (fnode c) ch
      | _, _, _ => false
      end
  end.

(* ================================================================ basic facts *)
Lemma nogt_ends s : nogt s = true -> ends_gt s = false.
Proof.
  intros H. unfold ends_gt. destruct (rev s) as [|ch r] eqn:E; [reflexivity|].
  unfold nogt in H. rewrite forallb_forall in H. apply negb_true_iff. apply H. apply (proj2 (in_rev s ch)). rewrite E. left. reflexivity.
Qed.
Lemma nogt_app a b : nogt (a ++ b) = nogt a && nogt b.
Proof. unfold nogt. apply forallb_app. Qed.
Lemma sok_parts s : sok s = true -> nl_free s /\ nogt s = true.
Proof. unfold sok, nl_free, nl_freeb. intros H. apply andb_true_iff in H. exact H. Qed.

Lemma xstep_quiet x s : snd x = None -> nlt s = true -> xstep x s = x.
Proof. intros Hx Hs. unfold xstep. rewrite Hx, (nlt_text_tag s Hs). reflexivity. Qed.

Lemma xstep_inside T n a s : ends_gt s = false -> xstep (T, Some (n, a)) s = (T, Some (n, a ++ s)).
Proof. intros H. unfold xstep. cbn [snd fst]. rewrite H. reflexivity. Qed.

Lemma xo_push_gen b o s : xo (os_push_gen b o s) = xstep (xo o) s.
Proof. reflexivity. Qed.
Lemma xo_push o s : xo (os_push o s) = xstep (xo o) s.
Proof. reflexivity. Qed.
Lemma xo_push_field o i ph : xo (os_push_field o i ph) = xo o.
Proof. reflexivity. Qed.
Lemma xo_add_level o d : xo (os_add_level o d) = xo o.
Proof. reflexivity. Qed.

Section Read.
  Variable c : oconfig.
  Let f := oc_fmt c.
  Hypothesis Hc : cfg_clean c = true.

  Definition outside (o : ostream) : Prop := snd (xo o) = None.

  Lemma xo_push_quiet o s : outside o -> nlt s = true -> xo (os_push o s) = xo o.
  Proof. intros Ho Hs. rewrite xo_push. apply xstep_quiet; assumption. Qed.

  Lemma xo_push_indent o n : outside o -> xo (os_push_indent f o n) = xo o.
  Proof.
    intros Ho. destruct (Hc_parts c Hc) as [_ [Hi _]]. unfold os_push_indent. apply xo_push_quiet; [exact Ho|].
    apply nlt_repeat, Hi.
  Qed.

  Lemma xo_push_newline o i : outside o -> xo (os_push_newline f o i) = xo o.
  Proof.
    intros Ho. destruct (Hc_parts c Hc) as [Hn _]. unfold os_push_newline.
    set (o2 := mkOs _ _ _ _ _).
    assert (E : xo o2 = xo o).
    { unfold o2, xo. cbn [os_events os_push_gen xrev]. fold (nlb f). apply xstep_quiet; [exact Ho|exact Hn]. }
    assert (Ho2 : outside o2) by (unfold outside; rewrite E; exact Ho).
    destruct i as [[n|]|]; [rewrite xo_push_indent by exact Ho2|rewrite xo_push_indent by exact Ho2|]; exact E.
  Qed.

  Lemma xo_push_lines : forall ls o, outside o -> Forall (fun l => nlt l = true) ls ->
    xo (fold_left (fun o' l => os_push (os_push_newline f o' (Some None)) l) ls o) = xo o.
  Proof.
    induction ls as [|l ls IH]; intros o Ho H; [reflexivity|]. inversion H; subst. cbn [fold_left].
    assert (E : xo (os_push (os_push_newline f o (Some None)) l) = xo o).
    { rewrite xo_push_quiet; [apply xo_push_newline, Ho| |assumption]. unfold outside. rewrite xo_push_newline by exact Ho. exact Ho. }
    rewrite IH; [exact E| |assumption]. unfold outside. rewrite E. exact Ho.
  Qed.

  Lemma xo_push_string o s : outside o -> nolt s = true -> xo (os_push_string f o s) = xo o.
  Proof.
    intros Ho H. unfold os_push_string. pose proof (split_crlf_nolt s H) as Hl.
    destruct (split_crlf s) as [|l0 ls]; [reflexivity|]. inversion Hl; subst.
    assert (E : xo (os_push o l0) = xo o) by (apply xo_push_quiet; [exact Ho|apply nolt_nlt; assumption]).
    rewrite xo_push_lines; [exact E| |].
    - unfold outside. rewrite E. exact Ho.
    - eapply Forall_impl; [|eassumption]. intros a Ha. apply nolt_nlt, Ha.
  Qed.

  (* a line-break-free string is pushed as one chunk (none when empty) *)
  Lemma push_string_one o s : nl_free s -> os_push_string f o s = match s with [] => o | _ => os_push o s end.
  Proof.
    intros H. unfold os_push_string, split_crlf. rewrite split_crlf_aux_nl_free by exact H. cbn [rev app].
    destruct s; reflexivity.
  Qed.

  (* ---------------------------------------------------------------- states *)
  Definition X (x : xstate) (st : fstate) : Prop := xread st = x.

  Lemma X_map_level x st d : X x st -> X x (map_out (fun o => os_add_level o d) st).
  Proof. exact (fun H => H). Qed.
  Lemma X_newline T st i : X (T, None) st -> X (T, None) (map_out (fun o => os_push_newline f o i) st).
  Proof.
    unfold X, xread, map_out. cbn [fs_out]. intros H. rewrite xo_push_newline; [exact H|]. unfold outside. rewrite H. reflexivity.
  Qed.
  Lemma X_level_newline T st d :
    X (T, None) st -> X (T, None) (map_out (fun o => let o' := os_add_level o d in os_push_newline_int f o' (os_level o')) st).
  Proof.
    unfold X, xread, map_out. cbn [fs_out]. intros H. cbv zeta. unfold os_push_newline_int.
    rewrite xo_push_newline; [rewrite xo_add_level; exact H|]. unfold outside. rewrite xo_add_level, H. reflexivity.
  Qed.
  Lemma X_newline_int T st (g : ostream -> Z) :
    X (T, None) st -> X (T, None) (map_out (fun o => os_push_newline_int f o (g o)) st).
  Proof.
    unfold X, xread, map_out. cbn [fs_out]. intros H. unfold os_push_newline_int.
    rewrite xo_push_newline; [exact H|]. unfold outside. rewrite H. reflexivity.
  Qed.
  Lemma X_push_str_quiet T s st : nolt s = true -> X (T, None) st -> X (T, None) (push_str c s st).
  Proof.
    unfold X, xread, push_str. cbn [fs_out]. intros Hs H. rewrite xo_push_string; [exact H| |exact Hs].
    unfold outside. rewrite H. reflexivity.
  Qed.
  Lemma X_push_caret T st : X (T, None) st -> X (T, None) (push_tokens c caret st).
  Proof. unfold X, xread, push_tokens, caret. cbn [fold_left fs_out]. intros H. rewrite xo_push_field. exact H. Qed.

  (* the two tag pushes *)
  Lemma X_open T name st : nocrlf name = true -> name_start name = true -> name <> [] ->
    X (T, None) st -> X (T, Some (name, [])) (push_str c (c_lt :: name) st).
  Proof.
    intros Hb Hs Hne H. unfold X, xread, push_str, os_push_string in *. cbn [fs_out].
    assert (E : split_crlf (c_lt :: name) = [c_lt :: name]).
    { rewrite split_crlf_nocrlf; [reflexivity|]. cbn [nocrlf forallb]. fold (nocrlf name). rewrite Hb. reflexivity. }
    rewrite E. cbn [fold_left]. rewrite xo_push, H. unfold xstep. cbn [snd fst].
    destruct name as [|ch name]; [contradiction|].
    cbn [name_start] in Hs. apply andb_true_iff in Hs. destruct Hs as [H1 H2].
    apply negb_true_iff in H1. apply negb_true_iff in H2.
    unfold text_tag. rewrite N.eqb_refl, H1, H2. reflexivity.
  Qed.

  Lemma X_close T name st : nocrlf name = true ->
    X (T, None) st -> X (T ++ [XClose name], None) (push_str c ([c_lt; c_slash] ++ name ++ [c_gt]) st).
  Proof.
    intros Hb H. unfold X, xread, push_str, os_push_string in *. cbn [fs_out].
    assert (E : split_crlf ([c_lt; c_slash] ++ name ++ [c_gt]) = [[c_lt; c_slash] ++ name ++ [c_gt]]).
    { rewrite split_crlf_nocrlf; [reflexivity|]. rewrite !nocrlf_app, Hb. reflexivity. }
    rewrite E. cbn [fold_left]. rewrite xo_push, H. unfold xstep. cbn [snd fst].
    cbn [app text_tag]. rewrite !N.eqb_refl. rewrite removelast_last. reflexivity.
  Qed.

  (* inside an open tag *)
  Lemma X_inside_str T n a s st : nl_free s -> nogt s = true ->
    X (T, Some (n, a)) st -> X (T, Some (n, a ++ s)) (push_str c s st).
  Proof.
    intros Hn Hg H. unfold X, xread, push_str in *. cbn [fs_out]. rewrite push_string_one by exact Hn.
    destruct s as [|ch s]; [rewrite app_nil_r; exact H|].
    rewrite xo_push, H. apply xstep_inside, nogt_ends, Hg.
  Qed.

  Lemma X_gt T n a st : X (T, Some (n, a)) st -> X (T ++ [XTag n a], None) (push_str c [c_gt] st).
  Proof.
    intros H. unfold X, xread, push_str in *. cbn [fs_out]. rewrite push_string_one by reflexivity.
    rewrite xo_push, H. reflexivity.
  Qed.

  Definition vstr_ok (t : vtok) : bool := match t with VStr s => sok s | VField _ _ => false end.

  Lemma X_inside_tokens T n a v st : forallb vstr_ok v = true ->
    X (T, Some (n, a)) st -> X (T, Some (n, a ++ concat (map tok_text v))) (push_tokens c v st).
  Proof.
    intros Hv H. unfold X, xread, push_tokens in *.
    assert (G : forall v o lg a, forallb vstr_ok v = true -> xo o = (T, Some (n, a)) ->
              xo (fst (fold_left (fun '(o, lg) t =>
                   match t with
                   | VStr s => (os_push_string (oc_fmt c) o s, lg)
                   | VField i nm => (os_push_field o (fs_field st + i)%N nm,
                                     match lg with Some l => Some (N.max l i) | None => Some i end)
                   end) v (o, lg))) = (T, Some (n, a ++ concat (map tok_text v)))).
    { clear H Hv a v. induction v as [|t ts IH]; intros o lg a Hv Ho; [cbn; rewrite app_nil_r; exact Ho|].
      cbn [forallb] in Hv. apply andb_true_iff in Hv. destruct Hv as [H1 H2].
      destruct t as [s|i nm]; [|discriminate]. cbn [vstr_ok] in H1. destruct (sok_parts s H1) as [Hn Hg].
      cbn [fold_left map concat tok_text]. rewrite app_assoc. apply IH; [exact H2|].
      fold f. rewrite push_string_one by exact Hn. destruct s as [|ch s]; [rewrite app_nil_r; exact Ho|].
      rewrite xo_push, Ho. apply xstep_inside, nogt_ends, Hg. }
    specialize (G v (fs_out st) None a Hv H).
    destruct (fold_left _ v (fs_out st, None)) as [out largest]. cbn [fst fs_out] in *. exact G.
  Qed.

  Lemma sok_cons ch s : is_linebreak ch = false -> (ch =? c_gt)%N = false -> sok s = true ->
    nl_free (ch :: s) /\ nogt (ch :: s) = true.
  Proof.
    intros H1 H2 H. destruct (sok_parts s H) as [Hn Hg]. split.
    - apply nl_free_cons; assumption.
    - cbn [nogt forallb]. rewrite H2. exact Hg.
  Qed.

  Lemma X_write_form T n a fm st : form_okb fm = true ->
    X (T, Some (n, a)) st -> X (T, Some (n, a ++ form_text fm)) (write_form c fm st).
  Proof.
    intros Hf H. destruct fm as [|nm|nm lq rq|nm lq v rq]; cbn [write_form form_text form_okb] in *.
    - rewrite app_nil_r. exact H.
    - destruct (sok_cons c_space nm eq_refl eq_refl Hf) as [A B]. apply X_inside_str; assumption.
    - apply andb_true_iff in Hf. destruct Hf as [Hf H3]. apply andb_true_iff in Hf. destruct Hf as [H1 H2].
      destruct (sok_cons c_space nm eq_refl eq_refl H1) as [A B].
      destruct (sok_parts lq H2) as [L1 L2]. destruct (sok_parts rq H3) as [R1 R2].
      assert (E : a ++ c_space :: nm ++ c_eq :: lq ++ rq = (a ++ c_space :: nm) ++ c_eq :: lq ++ rq)
        by (rewrite <- app_assoc; reflexivity).
      rewrite E. apply X_inside_str.
      + apply nl_free_cons; [reflexivity|apply nl_free_app; assumption].
      + cbn [nogt forallb]. fold (nogt (lq ++ rq)). rewrite nogt_app, L2, R2. reflexivity.
      + apply X_inside_str; assumption.
    - apply andb_true_iff in Hf. destruct Hf as [Hf H4]. apply andb_true_iff in Hf. destruct Hf as [Hf H3].
      apply andb_true_iff in Hf. destruct Hf as [H1 H2].
      destruct (sok_cons c_space nm eq_refl eq_refl H1) as [A B].
      destruct (sok_cons c_eq lq eq_refl eq_refl H2) as [L1 L2]. destruct (sok_parts rq H4) as [R1 R2].
      assert (E : a ++ c_space :: nm ++ c_eq :: lq ++ concat (map tok_text v) ++ rq =
                  (((a ++ c_space :: nm) ++ c_eq :: lq) ++ concat (map tok_text v)) ++ rq).
      { rewrite <- !app_assoc. reflexivity. }
      rewrite E. apply X_inside_str; [exact R1|exact R2|].
      apply X_inside_tokens; [exact H3|]. apply X_inside_str; [exact L1|exact L2|]. apply X_inside_str; assumption.
  Qed.

  Lemma X_attrs T n node st :
    forallb (attr_okb c) (match an_attrs node with Some l => l | None => [] end) = true ->
    X (T, Some (n, [])) st -> X (T, Some (n, attrs_text c (an_attrs node))) (h_attrs c node st).
  Proof.
    intros Ha H. unfold h_attrs, attrs_text.
    assert (G : forall l a st, forallb (attr_okb c) l = true -> X (T, Some (n, a)) st ->
              X (T, Some (n, a ++ concat (map (fun a => form_text (attr_out_spec c a)) (filter should_output_attribute l))))
                (fold_left (fun s a => if should_output_attribute a then push_attribute c a s else s) l st)).
    { clear Ha H. induction l as [|x l IH]; intros a st' Hl H; [cbn; rewrite app_nil_r; exact H|].
      cbn [forallb] in Hl. apply andb_true_iff in Hl. destruct Hl as [H1 H2]. cbn [fold_left filter].
      destruct (should_output_attribute x).
      - cbn [map concat]. rewrite app_assoc. apply IH; [exact H2|]. rewrite attr_out_table. apply X_write_form; assumption.
      - apply IH; assumption. }
    destruct (an_attrs node) as [[|a0 l]|]; [exact H| |exact H].
    apply (G (a0 :: l) [] st Ha H).
  Qed.

  Lemma comment_node_off text n st : comment_node c text n st = st.
  Proof.
    destruct (Hc_parts c Hc) as [_ [_ [Hce _]]]. unfold comment_node. destruct text; [reflexivity|].
    unfold should_comment. rewrite Hce. reflexivity.
  Qed.

  (* ---------------------------------------------------------------- elements *)
  Definition elem_x (n : anode) : Prop :=
    forall parent index items st T, X (T, None) st -> X (T ++ xtree c n, None) (html_element c parent n index items st).

  Lemma X_h_inner T b d st : X (T, None) st -> X (T, None) (h_inner c b d st).
  Proof. intros H. unfold h_inner. destruct b; [apply X_level_newline|]; exact H. Qed.

  Lemma h_next_x node : forall l i st T, Forall elem_x l -> X (T, None) st ->
    X (T ++ flat_map (xtree c) l, None) (h_next c node i l st).
  Proof.
    induction l as [|ch r IH]; intros i st T HF H.
    - cbn [flat_map h_next]. rewrite app_nil_r. exact H.
    - inversion HF; subst. cbn [h_next]. fold (h_next c node).
      cbn [flat_map]. rewrite app_assoc. apply IH; [assumption|]. apply H2, H.
  Qed.

  Lemma fnode_eq n :
    fnode c n = true ->
    exists x0 x, an_name n = Some (x0 :: x) /\ an_value n = None /\ an_self n = false /\
      nocrlf (x0 :: x) = true /\ name_start (x0 :: x) = true /\
      forallb (attr_okb c) (match an_attrs n with Some l => l | None => [] end) = true /\
      forallb (fnode c) (an_children n) = true.
  Proof.
    destruct n as [nm v rp at_ ch sc]. cbn [fnode an_name an_value an_self an_attrs an_children].
    destruct nm as [[|x0 x]|]; try discriminate. destruct v; [discriminate|]. destruct sc; [discriminate|].
    intros H. apply andb_true_iff in H. destruct H as [H H4]. apply andb_true_iff in H. destruct H as [H H3].
    apply andb_true_iff in H. destruct H as [H1 H2]. exists x0, x. repeat split; assumption.
  Qed.

  Lemma xtree_eq n :
    xtree c n = XTag (tag_name c (match an_name n with Some x => x | None => [] end)) (attrs_text c (an_attrs n))
                  :: flat_map (xtree c) (an_children n) ++ [XClose (tag_name c (match an_name n with Some x => x | None => [] end))].
  Proof. destruct n; reflexivity. Qed.

  Lemma html_element_x : forall n, fnode c n = true -> elem_x n.
  Proof.
    induction n as [nm v rp at_ ch sc IHch] using anode_ind2. intros Hf.
    set (n := ANode nm v rp at_ ch sc) in *.
    destruct (fnode_eq n Hf) as [x0 [x [En [Ev [Es [Hnocrlf [Hstart [Hattrs Hkids]]]]]]]].
    assert (HF : Forall elem_x (an_children n)).
    { change (an_children n) with ch in *. rewrite forallb_forall in Hkids. rewrite Forall_forall in *.
      intros k Hk. apply IHch; [exact Hk|apply Hkids, Hk]. }
    intros parent index items st T H. rewrite html_element_eq. cbv zeta.
    apply X_map_level.
    match goal with |- X _ (if ?b then _ else ?y) => assert (Hb : X (T ++ xtree c n, None) y) end.
    2: { match goal with |- X _ (if ?b then _ else _) => destruct b end; [apply X_newline_int|]; exact Hb. }
    match goal with |- X _ (h_body c n ?y) => assert (H0 : X (T, None) y) end.
    { destruct (should_format c parent n index items); [apply X_newline|]; apply X_map_level, H. }
    match goal with |- X _ (h_body c n ?y) => set (st0 := y) in * end. clearbody st0.
    unfold h_body. rewrite xtree_eq, En. cbv zeta.
    set (name := tag_name c (x0 :: x)).
    assert (Nb : nocrlf name = true) by (unfold name; rewrite nocrlf_tag_name; exact Hnocrlf).
    assert (Ns : name_start name = true) by (unfold name; rewrite name_start_tag_name; exact Hstart).
    assert (Nn : name <> []) by (apply tag_name_nonempty; discriminate).
    rewrite !comment_node_off.
    assert (H1 : X (T, Some (name, attrs_text c (an_attrs n))) (h_attrs c n (push_str c (c_lt :: name) st0))).
    { apply X_attrs; [exact Hattrs|]. apply X_open; assumption. }
    match type of H1 with X _ ?y => set (st1 := y) in * end. clearbody st1.
    assert (Esc : self_closed n = false) by (unfold self_closed; rewrite Es; reflexivity).
    rewrite Esc.
    assert (H2 : X (T ++ [XTag name (attrs_text c (an_attrs n))], None) (push_str c [c_gt] st1)) by (apply X_gt, H1).
    assert (Esn : h_snippet c n (push_str c [c_gt] st1) = None) by (unfold h_snippet; rewrite Ev; reflexivity).
    rewrite Esn.
    change (XTag name (attrs_text c (an_attrs n)) :: flat_map (xtree c) (an_children n) ++ [XClose name])
      with ([XTag name (attrs_text c (an_attrs n))] ++ flat_map (xtree c) (an_children n) ++ [XClose name]).
    rewrite !app_assoc. apply X_close; [exact Nb|].
    unfold h_plain. rewrite Ev. cbv zeta. cbn [truthy_l negb andb].
    pose proof (h_next_x n (an_children n) 0 (push_str c [c_gt] st1) _ HF H2) as H3.
    destruct (an_children n) as [|k0 ks] eqn:Ek; [|exact H3].
    apply X_h_inner. apply X_push_caret. apply X_h_inner, H3.
  Qed.

  Lemma h_top_x items : forall l i st T, forallb (fnode c) l = true -> X (T, None) st ->
    X (T ++ flat_map (xtree c) l, None) (h_top c items i l st).
  Proof.
    induction l as [|ch r IH]; intros i st T Hcl H.
    - cbn [flat_map h_top]. rewrite app_nil_r. exact H.
    - cbn [forallb] in Hcl. apply andb_true_iff in Hcl. destruct Hcl as [H1 H2]. cbn [h_top]. fold (h_top c items).
      cbn [flat_map]. rewrite app_assoc. apply IH; [assumption|].
      apply html_element_x; assumption.
  Qed.

  Theorem format_xtags forest : forallb (fnode c) forest = true ->
    xread (html_format c forest) = (flat_map (xtree c) forest, None).
  Proof.
    intros H. change (html_format c forest) with (h_top c forest O forest (mkFs os_empty 1)).
    exact (h_top_x forest forest O (mkFs os_empty 1) [] H eq_refl).
  Qed.
End Read.

(* ================================================================ the open tags of a forest *)
(* preorder (tag name, attribute text) list *)
Fixpoint ptags (c : oconfig) (n : anode) : list (str * str) :=
  match n with
  | ANode nm _ _ at_ ch _ =>
      (tag_name c (match nm with Some x => x | None => [] end), attrs_text c at_) :: flat_map (ptags c) ch
  end.

Lemma open_tags_app a b : open_tags (a ++ b) = open_tags a ++ open_tags b.
Proof. unfold open_tags. apply flat_map_app. Qed.

Lemma open_tags_tree c : forall n, open_tags (xtree c n) = ptags c n.
Proof.
  induction n as [nm v rp at_ ch sc IH] using anode_ind2. cbn [xtree ptags]. cbv zeta.
  change (open_tags (?e :: ?l)) with (open_tags ([e] ++ l)).
  cbn [open_tags flat_map app]. f_equal. fold (open_tags (flat_map (xtree c) ch ++ [XClose (tag_name c (match nm with Some x => x | None => [] end))])).
  rewrite open_tags_app. cbn [open_tags flat_map app]. rewrite app_nil_r.
  induction ch as [|k ks IHk]; [reflexivity|]. inversion IH as [|? ? Hk Hks]; subst.
  cbn [flat_map]. rewrite open_tags_app, Hk, (IHk Hks). reflexivity.
Qed.

Theorem format_open_tags c forest :
  cfg_clean c = true -> forallb (fnode c) forest = true ->
  open_tags (fst (xread (html_format c forest))) = flat_map (ptags c) forest.
Proof.
  intros Hc H. rewrite (format_xtags c Hc forest H). cbn [fst].
  induction forest as [|n l IH]; [reflexivity|]. cbn [forallb] in H. apply andb_true_iff in H. destruct H as [_ H2].
  cbn [flat_map]. rewrite open_tags_app, open_tags_tree, (IH H2). reflexivity.
Qed.
