(* C03: attribute_set of the parser reads back a written attribute list (token level). *)
From Coq Require Import List NArith ZArith Bool Lia.
From Emmet Require Import lib.Base model.MarkupTokenizer model.MarkupParser.
Import ListNotations.

(* tokens a name or an unquoted value is made of *)
Definition plain (t : token) : bool :=
  match tk t with
  | TLiteral _ | TRepeaterNumber _ _ _ _ | TRepeaterPlaceholder | TField _ _ => true
  | _ => false
  end.

(* what may follow an attribute inside [...]: white space or the closing bracket *)
Definition is_close_attr (t : token) : bool := is_bracket t (Some BAttr) (Some false).
Definition ends_attr (rest : list token) : Prop :=
  match rest with
  | t :: _ => is_white_space_tok t = true \/ is_close_attr t = true
  | [] => True
  end.

Definition is_eq_tok (t : token) : bool := is_operator t (Some OpEqual).

(* a written attribute, as tokens *)
Inductive wattr :=
| WName (name : list token)                                             (* name          *)
| WEmpty (name : list token) (eq : token)                               (* name=         *)
| WUnq (name : list token) (eq : token) (v : list token)                (* name=value    *)
| WQuoted (name : list token) (eq q1 : token) (body : list token) (q2 : token)   (* name="..." / name='...' *)
| WExpr (name : list token) (eq o : token) (body : list token) (c : token)       (* name={...}    *)
| WBare (q1 : token) (body : list token) (q2 : token).                  (* "..." without a name *)

Definition wtokens (w : wattr) : list token :=
  match w with
  | WName n => n
  | WEmpty n e => n ++ [e]
  | WUnq n e v => n ++ e :: v
  | WQuoted n e q1 b q2 => n ++ e :: q1 :: b ++ [q2]
  | WExpr n e o b c => n ++ e :: o :: b ++ [c]
  | WBare q1 b q2 => q1 :: b ++ [q2]
  end.

(* the TokenAttribute the parser must produce *)
Definition wparsed (w : wattr) : tattr :=
  match w with
  | WName n => mkTAttr (Some n) None false false
  | WEmpty n _ => mkTAttr (Some n) None false false
  | WUnq n _ v => mkTAttr (Some n) (Some v) false false
  | WQuoted n _ q1 b q2 => mkTAttr (Some n) (Some (q1 :: b ++ [q2])) false false
  | WExpr n _ o b c => mkTAttr (Some n) (Some (o :: b ++ [c])) false false
  | WBare q1 b q2 => mkTAttr None (Some (q1 :: b ++ [q2])) false false
  end.

Definition name_ok (n : list token) : Prop := n <> [] /\ forallb plain n = true.
Definition quote_pair (q1 : token) (b : list token) (q2 : token) : Prop :=
  exists single, tk q1 = TQuote single /\ tk q2 = TQuote single /\
                 forallb (fun t => negb (is_quote_tok t (Some single))) b = true.

Definition wf (w : wattr) : Prop :=
  match w with
  | WName n => name_ok n
  | WEmpty n e => name_ok n /\ is_eq_tok e = true
  | WUnq n e v => name_ok n /\ is_eq_tok e = true /\ name_ok v
  | WQuoted n e q1 b q2 => name_ok n /\ is_eq_tok e = true /\ quote_pair q1 b q2
  | WExpr n e o b c =>
      name_ok n /\ is_eq_tok e = true /\ is_bracket o (Some BExpr) (Some true) = true /\
      is_bracket c (Some BExpr) (Some false) = true /\
      forallb (fun t => negb (is_bracket t (Some BExpr) None)) b = true
  | WBare q1 b q2 => quote_pair q1 b q2
  end.

(* ------------------------------------------------------------------ literal() *)
Lemma plain_not_stop : forall t, plain t = true ->
  is_quote_tok t None = false /\ is_operator t None = false /\ is_white_space_tok t = false /\
  is_repeater_tok t = false /\ (forall o b, tk t <> TBracket o b).
Proof.
  intros t H. unfold plain in H. unfold is_quote_tok, is_operator, is_white_space_tok, is_repeater_tok.
  destruct (tk t); try discriminate; repeat split; intros; discriminate.
Qed.

Lemma ends_attr_stops : forall rest, ends_attr rest -> literal_n true 0 0 0 rest = 0.
Proof.
  intros [|t r] H; [reflexivity|]. simpl in H. simpl.
  destruct H as [H|H].
  - rewrite H. rewrite !orb_true_r. simpl. destruct (is_quote_tok t None || is_operator t None); reflexivity.
  - unfold is_close_attr, is_bracket in H. unfold is_quote_tok, is_operator, is_white_space_tok, is_repeater_tok.
    destruct (tk t) as [| | |op bc| | | | |]; try discriminate. simpl.
    destruct bc; simpl in H; try discriminate. destruct op; simpl in H; try discriminate. reflexivity.
Qed.

Definition stops (rest : list token) : Prop := literal_n true 0 0 0 rest = 0.

Lemma literal_plain : forall ps rest, forallb plain ps = true -> stops rest ->
  literal_n true 0 0 0 (ps ++ rest) = length ps.
Proof.
  induction ps as [|t ps IH]; intros rest H S; [exact S|].
  simpl in H. apply andb_true_iff in H. destruct H as [Ht Hps].
  destruct (plain_not_stop t Ht) as [Q [O [W [R B]]]].
  simpl. rewrite Q, O, W, R. simpl.
  destruct (tk t) eqn:E; try (f_equal; apply IH; assumption).
  exfalso. exact (B _ _ eq_refl).
Qed.

Lemma eq_stops : forall e rest, is_eq_tok e = true -> stops (e :: rest).
Proof.
  intros e rest H. unfold stops. simpl. unfold is_eq_tok, is_operator in H. unfold is_operator.
  destruct (tk e); try discriminate. rewrite orb_true_r. reflexivity.
Qed.

(* inside {...} everything is consumed up to the matching close *)
Lemma literal_in_expr : forall b c rest,
  forallb (fun t => negb (is_bracket t (Some BExpr) None)) b = true ->
  is_bracket c (Some BExpr) (Some false) = true -> stops rest ->
  literal_n true 0 1 0 (b ++ c :: rest) = S (length b).
Proof.
  induction b as [|t b IH]; intros c rest H Hc S.
  - simpl. unfold is_bracket in Hc. destruct (tk c) as [| | |op bc| | | | |]; try discriminate.
    destruct bc; try discriminate. destruct op; try discriminate. simpl. f_equal. exact S.
  - simpl in H. apply andb_true_iff in H. destruct H as [Ht Hb].
    simpl. unfold is_bracket in Ht.
    destruct (tk t) as [| | |op bc| | | | |] eqn:E; try (f_equal; apply IH; assumption).
    destruct bc; try (f_equal; apply IH; assumption). simpl in Ht. discriminate.
Qed.

Lemma literal_expr : forall o b c rest,
  is_bracket o (Some BExpr) (Some true) = true ->
  forallb (fun t => negb (is_bracket t (Some BExpr) None)) b = true ->
  is_bracket c (Some BExpr) (Some false) = true -> stops rest ->
  literal_n true 0 0 0 (o :: b ++ c :: rest) = S (S (length b)).
Proof.
  intros o b c rest Ho Hb Hc S. simpl.
  unfold is_bracket in Ho. unfold is_quote_tok, is_operator, is_white_space_tok, is_repeater_tok.
  destruct (tk o) as [| | |op bc| | | | |]; try discriminate.
  destruct bc; try discriminate. destruct op; try discriminate. simpl.
  f_equal. apply literal_in_expr; assumption.
Qed.

(* ------------------------------------------------------------------ quoted() *)
Lemma find_quote_body : forall single b q2 rest,
  forallb (fun t => negb (is_quote_tok t (Some single))) b = true -> tk q2 = TQuote single ->
  find_quote single (b ++ q2 :: rest) = Some (length b).
Proof.
  induction b as [|t b IH]; intros q2 rest H Hq.
  - simpl. unfold is_quote_tok. rewrite Hq. rewrite eqb_reflx. reflexivity.
  - simpl in H. apply andb_true_iff in H. destruct H as [Ht Hb]. apply negb_true_iff in Ht.
    simpl. rewrite Ht. rewrite IH by assumption. reflexivity.
Qed.

Lemma quoted_pair : forall q1 b q2 rest, quote_pair q1 b q2 ->
  quoted (q1 :: b ++ q2 :: rest) = QOk (2 + length b).
Proof.
  intros q1 b q2 rest [single [H1 [H2 Hb]]]. unfold quoted. rewrite H1.
  rewrite find_quote_body by assumption. reflexivity.
Qed.

Lemma quoted_none_plain : forall t rest, plain t = true -> quoted (t :: rest) = QNone.
Proof. intros t rest H. unfold quoted. unfold plain in H. destruct (tk t); try discriminate; reflexivity. Qed.

Lemma quoted_none_ends : forall rest, ends_attr rest -> quoted rest = QNone.
Proof.
  intros [|t r] H; [reflexivity|]. simpl in H. unfold quoted.
  destruct H as [H|H].
  - unfold is_white_space_tok in H. destruct (tk t); try discriminate; reflexivity.
  - unfold is_close_attr, is_bracket in H. destruct (tk t); try discriminate; reflexivity.
Qed.

Lemma quoted_none_expr : forall o rest, is_bracket o (Some BExpr) (Some true) = true -> quoted (o :: rest) = QNone.
Proof. intros o rest H. unfold quoted. unfold is_bracket in H. destruct (tk o); try discriminate; reflexivity. Qed.

(* ------------------------------------------------------------------ attribute() *)
Lemma firstn_app_exact {A} : forall (a b : list A), firstn (length a) (a ++ b) = a.
Proof. intros. rewrite firstn_app, Nat.sub_diag, firstn_all. simpl. apply app_nil_r. Qed.
Lemma skipn_app_exact {A} : forall (a b : list A), skipn (length a) (a ++ b) = b.
Proof. intros. rewrite skipn_app, Nat.sub_diag, skipn_all. reflexivity. Qed.

Lemma hd_is_eq : forall e rest, is_eq_tok e = true -> hd_is (fun t => is_operator t (Some OpEqual)) (e :: rest) = true.
Proof. intros. exact H. Qed.

Lemma hd_is_eq_ends : forall rest, ends_attr rest -> hd_is (fun t => is_operator t (Some OpEqual)) rest = false.
Proof.
  intros [|t r] H; [reflexivity|]. simpl in *. unfold is_operator.
  destruct H as [H|H].
  - unfold is_white_space_tok in H. destruct (tk t); try discriminate; reflexivity.
  - unfold is_close_attr, is_bracket in H. destruct (tk t); try discriminate; reflexivity.
Qed.

Lemma name_head : forall n, name_ok n -> exists t r, n = t :: r /\ plain t = true.
Proof.
  intros [|t r] [H1 H2]; [contradiction|]. simpl in H2. apply andb_true_iff in H2. destruct H2. eauto.
Qed.

Lemma attribute_unfold_name : forall n rest, name_ok n -> stops rest ->
  attribute (n ++ rest) =
  if hd_is (fun t => is_operator t (Some OpEqual)) rest then
    let r1 := tl rest in
    match quoted r1 with
    | QErr p => AErr (Some p)
    | QOk m => AOk (mkTAttr (Some n) (Some (firstn m r1)) false false) (length n + 1 + m)
    | QNone => match literal true r1 with
               | O => AOk (mkTAttr (Some n) None false false) (length n + 1)
               | (S _) as m => AOk (mkTAttr (Some n) (Some (firstn m r1)) false false) (length n + 1 + m)
               end
    end
  else AOk (mkTAttr (Some n) None false false) (length n).
Proof.
  intros n rest [Hn Hp] S. destruct n as [|t r]; [contradiction|].
  assert (Pt : plain t = true) by (simpl in Hp; apply andb_true_iff in Hp; tauto).
  unfold attribute. change ((t :: r) ++ rest) with (t :: (r ++ rest)) at 1.
  rewrite quoted_none_plain by exact Pt.
  unfold literal at 1. rewrite (literal_plain (t :: r) rest Hp S).
  change (length (t :: r)) with (Datatypes.S (length r)).
  cbv iota beta.
  change (Datatypes.S (length r)) with (length (t :: r)).
  rewrite firstn_app_exact, skipn_app_exact. reflexivity.
Qed.

Lemma quoted_pair' : forall q1 b q2 rest, quote_pair q1 b q2 ->
  quoted ((q1 :: b ++ [q2]) ++ rest) = QOk (length (q1 :: b ++ [q2])).
Proof.
  intros. replace ((q1 :: b ++ [q2]) ++ rest) with (q1 :: b ++ q2 :: rest) by (simpl; rewrite <- app_assoc; reflexivity).
  rewrite quoted_pair by assumption. f_equal. simpl. rewrite app_length. simpl. lia.
Qed.

Lemma literal_expr' : forall o b c rest,
  is_bracket o (Some BExpr) (Some true) = true ->
  forallb (fun t => negb (is_bracket t (Some BExpr) None)) b = true ->
  is_bracket c (Some BExpr) (Some false) = true -> stops rest ->
  literal true ((o :: b ++ [c]) ++ rest) = length (o :: b ++ [c]).
Proof.
  intros. replace ((o :: b ++ [c]) ++ rest) with (o :: b ++ c :: rest) by (simpl; rewrite <- app_assoc; reflexivity).
  unfold literal. rewrite literal_expr by assumption. simpl. rewrite app_length. simpl. lia.
Qed.

Theorem attribute_reads : forall w rest, wf w -> ends_attr rest ->
  attribute (wtokens w ++ rest) = AOk (wparsed w) (length (wtokens w)).
Proof.
  intros w rest W E. pose proof (ends_attr_stops rest E) as SR.
  destruct w as [n|n e|n e v|n e q1 b q2|n e o b c|q1 b q2]; simpl in W; simpl wtokens; simpl wparsed.
  - (* name *)
    rewrite attribute_unfold_name by assumption. rewrite hd_is_eq_ends by exact E. reflexivity.
  - (* name= *)
    destruct W as [W We].
    replace ((n ++ [e]) ++ rest) with (n ++ e :: rest) by (rewrite <- app_assoc; reflexivity).
    rewrite attribute_unfold_name by (try assumption; apply eq_stops; exact We).
    rewrite hd_is_eq by exact We. cbv zeta. cbn [tl].
    rewrite quoted_none_ends by exact E. unfold literal. rewrite SR.
    rewrite app_length. reflexivity.
  - (* name=value *)
    destruct W as [W [We Wv]].
    replace ((n ++ e :: v) ++ rest) with (n ++ e :: (v ++ rest)) by (rewrite <- app_assoc; reflexivity).
    rewrite attribute_unfold_name by (try assumption; apply eq_stops; exact We).
    rewrite hd_is_eq by exact We. cbv zeta. cbn [tl].
    destruct Wv as [Wvn Wvp]. destruct v as [|tv rv]; [contradiction|].
    assert (Ptv : plain tv = true) by (simpl in Wvp; apply andb_true_iff in Wvp; tauto).
    change ((tv :: rv) ++ rest) with (tv :: (rv ++ rest)) at 1.
    rewrite quoted_none_plain by exact Ptv.
    unfold literal. rewrite (literal_plain (tv :: rv) rest Wvp SR).
    change (length (tv :: rv)) with (S (length rv)) at 1. cbv iota beta.
    change (S (length rv)) with (length (tv :: rv)).
    rewrite firstn_app_exact. f_equal. rewrite app_length. simpl. lia.
  - (* name="..." *)
    destruct W as [W [We Wq]].
    replace ((n ++ e :: q1 :: b ++ [q2]) ++ rest) with (n ++ e :: ((q1 :: b ++ [q2]) ++ rest))
      by (rewrite <- app_assoc; reflexivity).
    rewrite attribute_unfold_name by (try assumption; apply eq_stops; exact We).
    rewrite hd_is_eq by exact We. cbv zeta. cbn [tl].
    rewrite quoted_pair' by exact Wq.
    rewrite firstn_app_exact. f_equal. rewrite !app_length. simpl. rewrite app_length. simpl. lia.
  - (* name={...} *)
    destruct W as [W [We [Wo [Wc Wb]]]].
    replace ((n ++ e :: o :: b ++ [c]) ++ rest) with (n ++ e :: ((o :: b ++ [c]) ++ rest))
      by (rewrite <- app_assoc; reflexivity).
    rewrite attribute_unfold_name by (try assumption; apply eq_stops; exact We).
    rewrite hd_is_eq by exact We. cbv zeta. cbn [tl].
    replace (quoted ((o :: b ++ [c]) ++ rest)) with QNone
      by (symmetry; change ((o :: b ++ [c]) ++ rest) with (o :: ((b ++ [c]) ++ rest)); apply quoted_none_expr; exact Wo).
    rewrite literal_expr' by assumption.
    destruct (length (o :: b ++ [c])) eqn:L; [discriminate|]. rewrite <- L.
    rewrite firstn_app_exact. f_equal. rewrite !app_length. simpl. rewrite app_length. simpl. lia.
  - (* "..." *)
    unfold attribute. rewrite quoted_pair' by exact W. rewrite firstn_app_exact. reflexivity.
Qed.

(* ------------------------------------------------------------------ attribute_set() *)
Definition lift (n : nat) (r : pres (list tattr * nat)) : pres (list tattr * nat) :=
  match r with POk (l, c) => POk (l, n + c) | PErr p => PErr p end.

Lemma attr_set_loop_skip : forall pre acc rest,
  attr_set_loop (length pre) acc (pre ++ rest) = lift (length pre) (attr_set_loop 0 acc rest).
Proof.
  induction pre as [|t p IH]; intros acc rest.
  - simpl. destruct (attr_set_loop 0 acc rest) as [[l c]|]; reflexivity.
  - simpl. rewrite IH. destruct (attr_set_loop 0 acc rest) as [[l c]|]; reflexivity.
Qed.

Lemma wtokens_nonempty : forall w, wf w -> exists t r, wtokens w = t :: r.
Proof.
  intros w W. destruct w as [n|n e|n e v|n e q1 b q2|n e o b c|q1 b q2]; simpl in *;
    try (destruct W as [[Hn _] _] || destruct W as [Hn _]; destruct n as [|t r]; [contradiction|]; simpl; eauto).
  eauto.
Qed.

(* one attribute is read and the loop continues behind it *)
Lemma attr_set_loop_attr : forall w rest acc, wf w -> ends_attr rest ->
  attr_set_loop 0 acc (wtokens w ++ rest) =
  lift (length (wtokens w)) (attr_set_loop 0 (acc ++ [wparsed w]) rest).
Proof.
  intros w rest acc W E. pose proof (attribute_reads w rest W E) as A.
  destruct (wtokens_nonempty w W) as [t [r Et]]. rewrite Et in *.
  change ((t :: r) ++ rest) with (t :: (r ++ rest)) in *.
  cbn [attr_set_loop]. rewrite A. cbn [length pred].
  rewrite attr_set_loop_skip.
  destruct (attr_set_loop 0 (acc ++ [wparsed w]) rest) as [[l c]|]; reflexivity.
Qed.

Lemma attribute_ws : forall t rest, is_white_space_tok t = true -> attribute (t :: rest) = ANone.
Proof.
  intros t rest H. unfold attribute, quoted, literal. simpl.
  unfold is_white_space_tok in H. unfold is_quote_tok, is_operator, is_white_space_tok, is_repeater_tok.
  destruct (tk t); try discriminate. reflexivity.
Qed.

Lemma attribute_close : forall t rest, is_close_attr t = true -> attribute (t :: rest) = ANone.
Proof.
  intros t rest H. unfold attribute, quoted, literal. simpl.
  unfold is_close_attr, is_bracket in H. unfold is_quote_tok, is_operator, is_white_space_tok, is_repeater_tok.
  destruct (tk t) as [| | |op bc| | | | |]; try discriminate.
  destruct bc; try discriminate. destruct op; try discriminate. reflexivity.
Qed.

Lemma ws_not_close : forall t, is_white_space_tok t = true -> is_bracket t (Some BAttr) (Some false) = false.
Proof. intros t H. unfold is_white_space_tok in H. unfold is_bracket. destruct (tk t); try discriminate; reflexivity. Qed.

Lemma attr_set_loop_ws : forall ws acc rest, forallb is_white_space_tok ws = true ->
  attr_set_loop 0 acc (ws ++ rest) = lift (length ws) (attr_set_loop 0 acc rest).
Proof.
  induction ws as [|t ws IH]; intros acc rest H.
  - simpl. destruct (attr_set_loop 0 acc rest) as [[l c]|]; reflexivity.
  - simpl in H. apply andb_true_iff in H. destruct H as [Ht Hws].
    change ((t :: ws) ++ rest) with (t :: (ws ++ rest)). cbn [attr_set_loop].
    rewrite attribute_ws by exact Ht. rewrite ws_not_close by exact Ht. rewrite Ht.
    rewrite IH by exact Hws. destruct (attr_set_loop 0 acc rest) as [[l c]|]; reflexivity.
Qed.

(* a written list: every attribute followed by its white space; only the last may have none *)
Fixpoint render (l : list (wattr * list token)) : list token :=
  match l with
  | [] => []
  | (w, ws) :: r => wtokens w ++ ws ++ render r
  end.
Fixpoint list_ok (l : list (wattr * list token)) : Prop :=
  match l with
  | [] => True
  | (w, ws) :: r => wf w /\ forallb is_white_space_tok ws = true /\ (r <> [] -> ws <> []) /\ list_ok r
  end.

Lemma ends_attr_ws : forall ws rest, forallb is_white_space_tok ws = true -> ws <> [] -> ends_attr (ws ++ rest).
Proof. intros [|t ws] rest H N; [contradiction|]. simpl in *. apply andb_true_iff in H. left. tauto. Qed.

Lemma attr_set_loop_list : forall l acc close after,
  list_ok l -> is_close_attr close = true ->
  attr_set_loop 0 acc (render l ++ close :: after) =
  POk (acc ++ map (fun p => wparsed (fst p)) l, length (render l) + 1).
Proof.
  induction l as [|[w ws] r IH]; intros acc close after OK C.
  - simpl. rewrite attribute_close by exact C. unfold is_close_attr in C. rewrite C. rewrite app_nil_r. reflexivity.
  - simpl in OK. destruct OK as [W [Hws [Hne OKr]]].
    cbn [render]. rewrite <- !app_assoc.
    rewrite attr_set_loop_attr; [|exact W|].
    + rewrite attr_set_loop_ws by exact Hws.
      rewrite IH by assumption. cbn [lift map fst].
      rewrite <- app_assoc. simpl. f_equal. f_equal. rewrite !app_length. lia.
    + destruct ws as [|t ws'].
      * simpl. destruct r as [|x r']; [simpl; right; exact C|]. exfalso. apply Hne; [discriminate|reflexivity].
      * apply ends_attr_ws; [exact Hws|discriminate].
Qed.

(* attribute_set(scanner): `[`, optional white space, the written attributes, `]` are read back as
   exactly those attributes, in order, and every token up to and including `]` is consumed *)
Theorem attribute_set_reads : forall open lead l close after,
  is_bracket open (Some BAttr) (Some true) = true ->
  forallb is_white_space_tok lead = true ->
  list_ok l -> is_close_attr close = true ->
  attribute_set (open :: lead ++ render l ++ close :: after) =
  ASOk (map (fun p => wparsed (fst p)) l) (length (open :: lead ++ render l) + 1).
Proof.
  intros open lead l close after O L OK C. unfold attribute_set. rewrite O.
  rewrite attr_set_loop_ws by exact L.
  rewrite attr_set_loop_list by assumption. cbn [lift]. simpl. f_equal.
  rewrite !app_length. lia.
Qed.
