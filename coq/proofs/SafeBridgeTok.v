(* C07, the link between tokenizer and converter (tokenizer side): every token list the
   tokenizer returns is accepted by the mode automaton of SafeBridge.v from MPlain.
   Invariant: the tokenizer's context (quote, expression counter) determines the mode:
     MPlain      quote = None
     MQuote sg   quote = Some q, q the quote character of kind sg, expression counter 0
     MExpr       quote = None, expression counter >= 1
   A Repeater token needs quote = None and counter 0 (is_allowed_repeater), i.e. MPlain. *)
From Coq Require Import List Bool Lia Arith ZArith ZifyBool.
From Emmet Require Import lib.Base model.MarkupTokenizer model.MarkupParser model.MarkupConvert
     proofs.SafeConvert proofs.SafeBridge.
Import ListNotations.
Local Open Scope N_scope.

Definition rel (ctx : tctx) (m : mode) : Prop :=
  match m with
  | MPlain => cquote ctx = None
  | MQuote sg => exists q, cquote ctx = Some q /\ (q =? c_squote) = sg /\ is_quote q = true /\ cexpr ctx = 0%Z
  | MExpr => cquote ctx = None /\ (1 <= cexpr ctx)%Z
  end.

Definition kallowed (m : mode) (k : tkind) : bool := allowed m (mkTok k 0 0).
Definition kstep (m : mode) (k : tkind) : mode := step m (mkTok k 0 0).

Lemma allowed_k : forall m k a b, allowed m (mkTok k a b) = kallowed m k.
Proof. intros. destruct m; reflexivity. Qed.
Lemma step_k : forall m k a b, step m (mkTok k a b) = kstep m k.
Proof. intros. destruct m; reflexivity. Qed.

(* ---- the operator table has no unknown operator name, and quotes / braces / `$` are not operators *)
Definition known (o : optype) : bool := match o with OpUnknown => false | _ => true end.
Lemma operator_table_known : forallb (fun kv => known (optype_of_name (snd kv))) markup_operator_types = true.
Proof. vm_compute. reflexivity. Qed.

Lemma assoc_N_in : forall A k (l : list (N * A)) v, assoc_N k l = Some v -> In (k, v) l.
Proof.
  intros A k. induction l as [|[k' v'] l IH]; intros v H; simpl in H. discriminate.
  destruct (k =? k') eqn:E.
  - apply N.eqb_eq in E. subst. inversion H; subst. left. reflexivity.
  - right. apply IH. exact H.
Qed.

Lemma operator_type_known : forall c op, operator_type c = Some op -> known op = true.
Proof.
  intros c op H. unfold operator_type in H.
  destruct (assoc_N c markup_operator_types) as [name|] eqn:A; [|discriminate].
  inversion H; subst. apply assoc_N_in in A.
  pose proof operator_table_known as T. rewrite forallb_forall in T. apply (T _ A).
Qed.

Lemma quote_not_operator : forall q, is_quote q = true -> operator_type q = None.
Proof.
  intros q H. unfold is_quote in H. apply orb_true_iff in H.
  destruct H as [H|H]; apply N.eqb_eq in H; subst; vm_compute; reflexivity.
Qed.
Lemma rbrace_facts : operator_type c_rbrace = None /\ is_quote c_rbrace = false /\ bracket_type c_rbrace = Some BExpr
                     /\ is_open_bracket c_rbrace = false.
Proof. vm_compute. repeat split; reflexivity. Qed.
Lemma quote_not_bracket : forall q, is_quote q = true -> bracket_type q = None.
Proof.
  intros q H. unfold is_quote in H. apply orb_true_iff in H.
  destruct H as [H|H]; apply N.eqb_eq in H; subst; vm_compute; reflexivity.
Qed.

(* ---- the first five alternatives: kinds, and the context conditions of `repeater` *)
Ltac break_match_hyp H :=
  repeat match type of H with
         | context [match ?x with _ => _ end] => destruct x
         | context [if ?x then _ else _] => destruct x
         end.

Lemma field_kind : forall ctx s k n, field ctx s = CTok k n -> litlike k = true.
Proof.
  intros ctx s k n H. unfold field in H.
  destruct (truthy (cexpr ctx) || truthy (cattr ctx)); [|discriminate].
  destruct s as [|c1 [|c2 r]]; try discriminate.
  destruct ((c1 =? c_dollar) && (c2 =? c_lbrace)); [|discriminate].
  assert (G : forall (body : option (option N * str * nat) + nat),
             match body with
             | inr off => CErr off
             | inl None => CNone
             | inl (Some (idx, name, used)) =>
                 if peek_is c_rbrace (skipn used r)
                 then CTok (TField name idx) (2 + used + 1)
                 else CErr (2 + used)
             end = CTok k n -> litlike k = true).
  { intros [[[[idx name] used]|]|off] HH; try discriminate.
    destruct (peek_is c_rbrace (skipn used r)); [|discriminate]. inversion HH; subst. reflexivity. }
  exact (G _ H).
Qed.

Lemma repeater_placeholder_kind : forall s k n, repeater_placeholder s = CTok k n -> k = TRepeaterPlaceholder.
Proof.
  intros [|c1 [|c2 r]] k n H; simpl in H; try discriminate.
  destruct ((c1 =? c_dollar) && (c2 =? c_hash)); [|discriminate]. inversion H; reflexivity.
Qed.

Lemma repeater_number_kind : forall s k n, repeater_number s = CTok k n -> litlike k = true.
Proof.
  intros s k n H. unfold repeater_number in H.
  destruct (span (N.eqb c_dollar) s); [discriminate|].
  destruct (peek_is c_at _); inversion H; reflexivity.
Qed.

Lemma repeater_number_dollar : forall r, repeater_number (c_dollar :: r) <> CNone.
Proof.
  intros r H. unfold repeater_number in H. cbn [span] in H. rewrite N.eqb_refl in H.
  destruct (peek_is c_at _); discriminate.
Qed.

Lemma repeater_kind : forall ctx s k n, repeater ctx s = CTok k n ->
  (exists a b c, k = TRepeater a b c) /\ cquote ctx = None /\ cexpr ctx = 0%Z.
Proof.
  intros ctx [|c r] k n H; simpl in H. discriminate.
  destruct (is_allowed_repeater c ctx) eqn:A; [|discriminate].
  destruct (cquote ctx) eqn:Q; [discriminate|]. cbn [andb] in H.
  unfold is_allowed_repeater in A. apply andb_true_iff in A. destruct A as [_ A].
  assert (cexpr ctx = 0%Z). { unfold truthy in A. lia. }
  split; [|split; auto].
  destruct (span is_number r); inversion H; eauto.
Qed.

Lemma white_space_kind : forall s k n, white_space s = CTok k n -> litlike k = true.
Proof. intros s k n H. unfold white_space in H. destruct (span is_space s); inversion H; reflexivity. Qed.

(* ---- lit: the expression counter *)
Lemma lit_expr_zero : forall s q a prev esc v n e,
  lit q a 0%Z 0%Z prev esc s = (v, n, e) -> e = 0%Z.
Proof.
  induction s as [|c r IH]; intros q a prev esc v n e H; cbn [lit] in H.
  - inversion H; reflexivity.
  - destruct esc.
    + destruct (lit q a 0%Z 0%Z (Some c) false r) as [[v1 n1] e1] eqn:L. inversion H; subst. eapply IH; eauto.
    + destruct (c =? c_bslash).
      * destruct (lit q a 0%Z 0%Z (Some c) true r) as [[v1 n1] e1] eqn:L. inversion H; subst. eapply IH; eauto.
      * change (truthy 0) with false in H. cbv iota in H.
        repeat match type of H with
        | (if ?b then _ else _) = _ => destruct b
        | (match ?x with Some _ => _ | None => _ end) = _ => destruct x
        | context [match lit ?a1 ?a2 ?a3 ?a4 ?a5 ?a6 ?a7 with pair _ _ => _ end] =>
            let L := fresh "L" in destruct (lit a1 a2 a3 a4 a5 a6 a7) as [[? ?] ?] eqn:L; apply IH in L; subst
        end; inversion H; subst; auto.
Qed.

Lemma lit_expr_ge : forall s q a es ex prev esc v n e,
  (es <= ex)%Z -> lit q a es ex prev esc s = (v, n, e) -> (es <= e)%Z.
Proof.
  induction s as [|c r IH]; intros q a es ex prev esc v n e Hle H; cbn [lit] in H.
  - inversion H; subst; exact Hle.
  - destruct esc.
    + destruct (lit q a es ex (Some c) false r) as [[v1 n1] e1] eqn:L. inversion H; subst. eapply IH; eauto.
    + destruct (c =? c_bslash).
      * destruct (lit q a es ex (Some c) true r) as [[v1 n1] e1] eqn:L. inversion H; subst. eapply IH; eauto.
      * repeat match type of H with
        | (if (es <? ex)%Z then _ else _) = _ => destruct (es <? ex)%Z eqn:Lt
        | (if ?b then _ else _) = _ => destruct b
        | (match ?x with Some _ => _ | None => _ end) = _ => destruct x
        | context [match lit ?a1 ?a2 ?a3 ?a4 ?a5 ?a6 ?a7 with pair _ _ => _ end] =>
            let L := fresh "L" in destruct (lit a1 a2 a3 a4 a5 a6 a7) as [[? ?] ?] eqn:L; apply IH in L; [|lia]
        end; inversion H; subst; auto; lia.
Qed.

(* ---- lit consumed nothing: what the first character can be *)
Lemma take_nonzero : forall q a es ex c r (v : str) (e : Z),
  (let '(v0, n0, e0) := lit q a es ex (Some c) false r in (c :: v0, S n0, e0)) <> (v, O, e).
Proof. intros. destruct (lit q a es ex (Some c) false r) as [[v0 n0] e0]. intros H. inversion H. Qed.

(* quote mode *)
Lemma lit_zero_quote : forall q a prev c r v e,
  lit (Some q) a 0%Z 0%Z prev false (c :: r) = (v, O, e) -> c = q \/ c = c_dollar.
Proof.
  intros q a prev c r v e H. cbn [lit] in H.
  destruct (c =? c_bslash).
  { destruct (lit (Some q) a 0%Z 0%Z (Some c) true r) as [[v1 n1] e1]. inversion H. }
  cbn [andb] in H. rewrite andb_false_r in H. cbn [andb] in H.
  destruct (c =? q) eqn:E1. { left. apply N.eqb_eq. exact E1. }
  destruct (c =? c_dollar) eqn:E2. { right. apply N.eqb_eq. exact E2. }
  cbn [orb] in H.
  destruct (is_allowed_operator c (mkCtx 0 a 0 (Some q))) eqn:E3.
  { unfold is_allowed_operator in E3. destruct (operator_type c); discriminate. }
  change (truthy 0) with false in H. cbv iota in H.
  exfalso. eapply take_nonzero. exact H.
Qed.

(* expression mode *)
Lemma lit_zero_expr : forall a es ex prev c r v e, (es <> 0)%Z -> (ex <> 0)%Z ->
  lit None a es ex prev false (c :: r) = (v, O, e) -> c = c_rbrace \/ c = c_dollar.
Proof.
  intros a es ex prev c r v e Hes Hex H. cbn [lit] in H.
  destruct (c =? c_bslash).
  { destruct (lit None a es ex (Some c) true r) as [[v1 n1] e1]. inversion H. }
  assert (T : truthy ex = true) by (unfold truthy; lia).
  assert (Ts : truthy es = true) by (unfold truthy; lia). rewrite T, ?Ts in H.
  cbn [negb andb] in H. rewrite andb_false_r in H. cbn [andb orb] in H.
  destruct (c =? c_dollar) eqn:E2. { right. apply N.eqb_eq. exact E2. }
  cbn [orb] in H.
  destruct (is_allowed_operator c (mkCtx 0 a ex None)) eqn:E3.
  { unfold is_allowed_operator in E3. destruct (operator_type c); [|discriminate].
    cbn [cquote cexpr] in E3. rewrite T in E3. discriminate. }
  destruct (c =? c_lbrace). { exfalso. eapply take_nonzero. exact H. }
  rewrite ?Ts in H.
  destruct (c =? c_rbrace) eqn:E4. { left. apply N.eqb_eq. exact E4. }
  exfalso. eapply take_nonzero. exact H.
Qed.

(* plain mode: a quote character or an opening brace is only left to the bracket/quote consumers when
   the expression counter is 0 *)
Lemma lit_zero_plain : forall a ex prev c r v e,
  lit None a (Z.min ex 1) ex prev false (c :: r) = (v, O, e) ->
  (is_quote c = true \/ c = c_lbrace) -> ex = 0%Z.
Proof.
  intros a ex prev c r v e H Hc.
  destruct (Z.eq_dec ex 0) as [|Hex]; [assumption|exfalso].
  assert (Hes : (Z.min ex 1 <> 0)%Z) by lia.
  destruct (lit_zero_expr a (Z.min ex 1) ex prev c r v e Hes Hex H) as [->| ->].
  - destruct Hc as [Hc|Hc]; [vm_compute in Hc; discriminate|]. vm_compute in Hc. discriminate.
  - destruct Hc as [Hc|Hc]; [vm_compute in Hc; discriminate|]. vm_compute in Hc. discriminate.
Qed.

(* ---- one round of the loop *)
Lemma kallowed_litlike : forall m k, litlike k = true -> kallowed m k = true /\ kstep m k = m.
Proof.
  intros m k H. destruct k; try discriminate; destruct m; split; reflexivity.
Qed.

Lemma consume_rel : forall ctx prev s m k n ctx',
  rel ctx m -> consume ctx prev s = (CTok k n, ctx') ->
  kallowed m k = true /\ rel ctx' (kstep m k).
Proof.
  intros ctx prev s m k n ctx' R E. unfold consume in E.
  destruct (field ctx s) as [|k0 n0|o0] eqn:F; cbn [orelse] in E.
  2: { inversion E; subst. destruct (kallowed_litlike m k (field_kind _ _ _ _ F)) as [A S]. rewrite S. auto. }
  2: { discriminate. }
  destruct (repeater_placeholder s) as [|k0 n0|o0] eqn:RP; cbn [orelse] in E.
  2: { inversion E; subst. rewrite (repeater_placeholder_kind _ _ _ RP).
       destruct (kallowed_litlike m TRepeaterPlaceholder eq_refl) as [A S]. rewrite S. auto. }
  2: { discriminate. }
  destruct (repeater_number s) as [|k0 n0|o0] eqn:RN; cbn [orelse] in E.
  2: { inversion E; subst. destruct (kallowed_litlike m k (repeater_number_kind _ _ _ RN)) as [A S]. rewrite S. auto. }
  2: { discriminate. }
  destruct (repeater ctx s) as [|k0 n0|o0] eqn:RR; cbn [orelse] in E.
  2: { inversion E; subst. destruct (repeater_kind _ _ _ _ RR) as [[a [b [c ->]]] [Q X]].
       destruct m; unfold rel in R.
       - split; [reflexivity|exact R].
       - destruct R as [q [R1 _]]. congruence.
       - destruct R as [_ R2]. lia. }
  2: { discriminate. }
  destruct (white_space s) as [|k0 n0|o0] eqn:WS.
  2: { inversion E; subst. destruct (kallowed_litlike m k (white_space_kind _ _ _ WS)) as [A S]. rewrite S. auto. }
  2: { discriminate. }
  (* literal / operator / quote / bracket *)
  destruct (lit (cquote ctx) (cattr ctx) (Z.min (cexpr ctx) 1) (cexpr ctx) prev false s) as [[v n1] e] eqn:L.
  destruct n1 as [|n1].
  - (* nothing consumed by lit *)
    destruct s as [|c r]. { simpl in E. discriminate. }
    assert (Hdollar : c <> c_dollar).
    { intros ->. exact (repeater_number_dollar r RN). }
    destruct m; unfold rel in R.
    + (* plain *)
      rewrite R in L.
      unfold operator in E. destruct (operator_type c) as [op|] eqn:OT; cbn [orelse] in E.
      { inversion E; subst. split.
        - pose proof (operator_type_known _ _ OT) as Kn. unfold kallowed, allowed. simpl. destruct op; auto; discriminate.
        - simpl. exact R. }
      unfold quote in E. destruct (is_quote c) eqn:IQ; cbn [orelse] in E.
      { inversion E; subst. split; [reflexivity|].
        unfold kstep, step. simpl. rewrite R. exists c. repeat split; auto.
        cbn [cexpr]. eapply lit_zero_plain; [exact L|left; exact IQ]. }
      unfold bracket in E. destruct (bracket_type c) as [b|] eqn:BT; [|discriminate].
      inversion E; subst. split; [reflexivity|].
      unfold kstep, step. cbn [tk].
      destruct (is_open_bracket c) eqn:OB; destruct b; simpl; try exact R.
      split; [exact R|].
      assert (c = c_lbrace).
      { unfold bracket_type in BT. unfold is_open_bracket in OB.
        destruct (c =? c_lparen) eqn:E1; destruct (c =? c_rparen) eqn:E2; simpl in BT; try discriminate.
        destruct (c =? c_lbrack) eqn:E3; destruct (c =? c_rbrack) eqn:E4; simpl in BT; try discriminate.
        destruct (c =? c_lbrace) eqn:E5; [apply N.eqb_eq; exact E5|]. simpl in OB. discriminate. }
      rewrite (lit_zero_plain _ _ _ _ _ _ _ L (or_intror H)). lia.
    + (* inside quotes *)
      destruct R as [q [R1 [R2 [R3 R4]]]]. rewrite R1, R4 in L.
      destruct (lit_zero_quote _ _ _ _ _ _ _ L) as [->|]; [|contradiction].
      unfold operator in E. rewrite (quote_not_operator q R3) in E. cbn [orelse] in E.
      unfold quote in E. rewrite R3 in E. cbn [orelse] in E.
      inversion E; subst. split.
      * unfold kallowed, allowed. simpl. destruct (q =? c_squote); reflexivity.
      * unfold kstep, step. simpl. rewrite R1, N.eqb_refl. reflexivity.
    + (* inside text braces *)
      destruct R as [R1 R2]. rewrite R1 in L.
      assert (Hne : (cexpr ctx <> 0)%Z) by lia.
      assert (Hns : (Z.min (cexpr ctx) 1 <> 0)%Z) by lia.
      destruct (lit_zero_expr _ _ _ _ _ _ _ _ Hns Hne L) as [->|]; [|contradiction].
      destruct rbrace_facts as [F1 [F2 [F3 F4]]].
      unfold operator in E. rewrite F1 in E. cbn [orelse] in E.
      unfold quote in E. rewrite F2 in E. cbn [orelse] in E.
      unfold bracket in E. rewrite F3, F4 in E.
      inversion E; subst. split; [reflexivity|]. simpl. exact R1.
  - (* a literal *)
    inversion E; subst. split; [destruct m; reflexivity|].
    replace (kstep m (TLiteral v)) with m by (destruct m; reflexivity).
    destruct m; unfold rel in *; cbn [cquote cexpr].
    + exact R.
    + destruct R as [q [R1 [R2 [R3 R4]]]]. exists q. repeat split; auto.
      rewrite R4 in L. change (Z.min 0 1) with 0%Z in L. eapply lit_expr_zero; eauto.
    + destruct R as [R1 R2]. split; [exact R1|].
      pose proof (lit_expr_ge _ _ _ _ _ _ _ _ _ _ (Z.le_min_l _ _) L). lia.
Qed.

(* ---- the whole loop *)
Lemma toks_W : forall s skip ctx prev pos l m,
  rel ctx m -> toks skip ctx prev pos s = TOk l -> W m l = true.
Proof.
  induction s as [|c r IH]; intros skip ctx prev pos l m R E; cbn [toks] in E.
  - inversion E; reflexivity.
  - destruct skip as [|k].
    + destruct (consume ctx prev (c :: r)) as [[|kd n|off] ctx'] eqn:C; try discriminate.
      destruct (toks (Nat.pred n) ctx' (Some c) (S pos) r) as [l'|] eqn:T; [|discriminate].
      inversion E; subst.
      destruct (consume_rel _ _ _ _ _ _ _ R C) as [A S].
      cbn [W]. rewrite allowed_k, A, step_k. cbn [andb].
      eapply IH; [exact S|exact T].
    + eapply IH; eauto.
Qed.

Theorem tokenize_W : forall s l, tokenize s = TOk l -> W MPlain l = true.
Proof. intros s l H. unfold tokenize in H. eapply toks_W; [|exact H]. reflexivity. Qed.
