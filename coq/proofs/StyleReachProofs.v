(* C06, for ALL snippet tables (user tables included): a property snippet whose key is a name
   (letters) distinct from the other keys up to letter case is reached by typing its key:
   expand key = the snippet's own line.  Composes the scanner lemma for a bare name, the parser,
   exact_key_wins and the resolver / formatter. *)
From Coq Require Import ZifyBool String PrimFloat.
From Emmet Require Import lib.Base lib.StyleLib model.CssTokenizer model.CssParser model.Score model.Color
     model.CssSnippets model.CssResolve model.CssFormat
     proofs.CssTokenizerProofs proofs.StyleMatchProofs proofs.StyleValueProofs proofs.StyleTokProofs
     proofs.StyleSweep.
Local Open Scope nat_scope.

(* a name: non-empty, letters only (StyleSweep has a boolean [key_ok] of its own) *)
Definition name_ok (key : str) : Prop := StyleTokProofs.key_ok key.

(* a bare name tokenizes into one literal and parses into one property without value *)
Lemma tokenize_name key : name_ok key -> ctokenize false key = CTOk [mkCTok (CLiteral key) 0 (length key)].
Proof.
  intros Hk. unfold ctokenize.
  assert (Hc : cconsume (Nat.eqb 0 0 && negb false) (Nat.eqb 0 0) key = CTok (CLiteral key) (length key)).
  { pose proof (cconsume_key true key [] Hk eq_refl) as H. rewrite app_nil_r in H. exact H. }
  rewrite (ctoks_round key false 0 [] 0 key _ _ Hc I). cbn [should_consume_dash_after].
  rewrite skipn_all. reflexivity.
Qed.

Lemma parse_name key : name_ok key -> css_parse false key = Ok [mkProp (Some key) [] false false].
Proof.
  intros Hk. unfold css_parse. rewrite (tokenize_name key Hk). reflexivity.
Qed.

Theorem key_reaches_property_snippet cfg sn key prop value kws deps :
  name_ok key -> str_eqb key gradient_name = false ->
  c_context cfg = None -> c_json cfg = false ->
  In (SnProp key prop value kws deps) sn ->
  (forall x, In x sn -> lower (sn_key x) = lower key -> x = SnProp key prop value kws deps) ->
  expand_with cfg sn key = Ok (own_line cfg (SnProp key prop value kws deps)).
Proof.
  intros Hk Hg Hc Hj Hin Huniq.
  unfold expand_with, parse_with, is_value_scope. rewrite Hc, (parse_name key Hk). cbn [bind map_res].
  unfold get_snippets_for_scope. rewrite Hc.
  assert (Hm : find_best_match sn_key key sn (c_min_score cfg) true = Some (SnProp key prop value kws deps)).
  { apply exact_key_wins_unique; [exact Hin|reflexivity|exact Huniq]. }
  unfold resolve_node.
  assert (Hgr : resolve_gradient cfg (mkProp (Some key) [] false false) = None).
  { unfold resolve_gradient, in_section_scope. rewrite Hc. cbn [pvalue pname]. rewrite Hg. reflexivity. }
  rewrite Hgr. unfold is_value_scope. rewrite Hc. cbn [pname pvalue pimportant]. cbv zeta. rewrite Hm. cbn [bind].
  unfold resolve_as_property. rewrite get_unmatched_part_same. cbn [pvalue pimportant].
  assert (Hv : match value with
               | [] => mkProp (Some prop) [] false true
               | default_value :: others =>
                   match others with
                   | [] => mkProp (Some prop) default_value false true
                   | _ :: _ => if existsb has_field default_value
                               then mkProp (Some prop) default_value false true
                               else mkProp (Some prop) (map (wrap_with_field cfg) default_value) false true
                   end
               end = mkProp (Some prop) (own_value cfg value) false true).
  { unfold own_value. destruct value as [|d [|o others]]; try reflexivity. destruct (existsb has_field d); reflexivity. }
  rewrite Hv. cbn [pname bind]. f_equal. unfold stringify.
  set (node := resolve_numeric_value cfg (mkProp (Some prop) (own_value cfg value) false true)).
  assert (Hs : psnippet node = true) by reflexivity.
  replace (if c_skip_unmatched cfg then filter (fun n => psnippet n || pimportant n) [node] else [node]) with [node]
    by (destruct (c_skip_unmatched cfg); [cbn [filter]; rewrite Hs; reflexivity|reflexivity]).
  cbn [stringify_from]. rewrite andb_false_r. cbn [app]. rewrite app_nil_r. reflexivity.
Qed.

(* ------------------------------------------------------------------ from the RAW table (config.snippets) *)
From Coq Require Import Permutation.

Lemma insert_by_perm {A} (key : A -> str) x : forall l, Permutation (insert_by key x l) (x :: l).
Proof.
  induction l as [|y l IH]; cbn [insert_by]; [apply Permutation_refl|].
  destruct (str_ltb (key y) (key x)); [|apply Permutation_refl].
  eapply Permutation_trans; [apply perm_skip; exact IH|apply perm_swap].
Qed.

Lemma sort_by_perm {A} (key : A -> str) : forall l, Permutation (sort_by key l) l.
Proof.
  unfold sort_by. induction l as [|x l IH]; cbn [fold_right]; [apply Permutation_refl|].
  eapply Permutation_trans; [apply insert_by_perm|apply perm_skip; exact IH].
Qed.

(* what nest does to one snippet: only the dependencies change *)
Definition same_but_deps (a b : snippet) : Prop :=
  match a, b with
  | SnRaw k v, SnRaw k' v' => k = k' /\ v = v'
  | SnProp k p val kw _, SnProp k' p' val' kw' _ => k = k' /\ p = p' /\ val = val' /\ kw = kw'
  | _, _ => False
  end.

Lemma nest_keys created : map sn_key (nest created) = map sn_key (sort_by sn_key created).
Proof.
  unfold nest. rewrite map_map. apply map_ext. intros s. destruct s; reflexivity.
Qed.

Lemma nest_in created s : In s created -> exists s', In s' (nest created) /\ same_but_deps s s'.
Proof.
  intros Hin. unfold nest.
  assert (Hs : In s (sort_by sn_key created)).
  { eapply Permutation_in; [apply Permutation_sym, sort_by_perm|exact Hin]. }
  set (f := fun s0 : snippet => match s0 with
                                | SnProp key prop value kw _ =>
                                    SnProp key prop value kw
                                      (map (fun pc => keywords_of_key (sort_by sn_key created) (snd pc))
                                           (filter (fun pc => str_eqb (fst pc) key)
                                                   (nest_pairs (sort_by sn_key created) [])))
                                | SnRaw _ _ => s0
                                end).
  exists (f s). split; [apply in_map; exact Hs|].
  destruct s; cbn; repeat split; reflexivity.
Qed.

Lemma create_snippet_key k v s : create_snippet k v = Ok s -> sn_key s = k.
Proof.
  unfold create_snippet. destruct (re_property_match v) as [[prop g2]|].
  - destruct (match g2 with Some g => map_res parse_value (split_on c_pipe g []) | None => Ok [] end);
      cbn [bind]; intros H; inversion H; reflexivity.
  - intros H. inversion H. reflexivity.
Qed.

Lemma map_res_in {A B} (f : A -> res B) : forall l ys x,
  map_res f l = Ok ys -> In x l -> exists y, In y ys /\ f x = Ok y.
Proof.
  induction l as [|a l IH]; intros ys x H Hin; [contradiction|].
  cbn [map_res] in H. destruct (f a) as [y| | |] eqn:Ea; cbn [bind] in H; try discriminate.
  destruct (map_res f l) as [ys'| | |] eqn:El; cbn [bind] in H; try discriminate.
  inversion H; subst. destruct Hin as [->|Hin].
  - exists y. split; [left; reflexivity|exact Ea].
  - destruct (IH ys' x eq_refl Hin) as [y' [Hy Hf]]. exists y'. split; [right; exact Hy|exact Hf].
Qed.

Lemma map_res_keys (raw : list (str * str)) : forall created,
  map_res (fun kv => create_snippet (fst kv) (snd kv)) raw = Ok created -> map sn_key created = map fst raw.
Proof.
  induction raw as [|[k v] raw IH]; intros created H; cbn [map_res] in H.
  - inversion H. reflexivity.
  - cbn [fst snd] in H. destruct (create_snippet k v) as [s| | |] eqn:Es; cbn [bind] in H; try discriminate.
    destruct (map_res _ raw) as [cs| | |] eqn:El; cbn [bind] in H; try discriminate.
    inversion H; subst. cbn [map fst]. rewrite (create_snippet_key k v s Es). f_equal. apply IH. reflexivity.
Qed.

Lemma NoDup_map_inj {A B} (f : A -> B) : forall l x y, NoDup (map f l) -> In x l -> In y l -> f x = f y -> x = y.
Proof.
  induction l as [|a l IH]; intros x y Hnd Hx Hy E; [contradiction|].
  cbn [map] in Hnd. inversion Hnd as [|? ? Hnotin Hnd']; subst.
  destruct Hx as [->|Hx], Hy as [->|Hy]; try reflexivity.
  - exfalso. apply Hnotin. rewrite E. apply in_map. exact Hy.
  - exfalso. apply Hnotin. rewrite <- E. apply in_map. exact Hx.
  - apply IH; assumption.
Qed.

(* a user's (or any) property snippet of the raw table, under a name distinct from the other keys up to letter
   case, is reached by typing its key *)
Theorem raw_key_reaches_property_snippet cfg raw sn key v prop parsed kws :
  convert_snippets raw = Ok sn ->
  NoDup (map (fun kv => lower (fst kv)) raw) ->
  In (key, v) raw ->
  create_snippet key v = Ok (SnProp key prop parsed kws []) ->
  name_ok key -> str_eqb key gradient_name = false ->
  c_context cfg = None -> c_json cfg = false ->
  exists deps, In (SnProp key prop parsed kws deps) sn /\
               expand_with cfg sn key = Ok (own_line cfg (SnProp key prop parsed kws deps)).
Proof.
  intros Hconv Hnd Hin Hcs Hk Hg Hc Hj.
  unfold convert_snippets in Hconv.
  destruct (map_res (fun kv => create_snippet (fst kv) (snd kv)) raw) as [created| | |] eqn:Ec; cbn [bind] in Hconv;
    try discriminate.
  inversion Hconv; subst sn.
  destruct (map_res_in _ raw created (key, v) Ec Hin) as [s0 [Hs0 Hf]]. cbn [fst snd] in Hf.
  rewrite Hcs in Hf. inversion Hf; subst s0.
  destruct (nest_in created _ Hs0) as [s' [Hs' Hsame]].
  destruct s' as [|k' p' val' kw' deps]; [contradiction|]. destruct Hsame as [-> [-> [-> ->]]].
  exists deps. split; [exact Hs'|].
  apply key_reaches_property_snippet; try assumption.
  intros x Hx Hlow.
  assert (Hnd' : NoDup (map (fun s => lower (sn_key s)) (nest created))).
  { rewrite <- (map_map sn_key lower). rewrite nest_keys.
    eapply Permutation_NoDup; [apply Permutation_sym, Permutation_map, Permutation_map, sort_by_perm|].
    rewrite (map_res_keys raw created Ec). rewrite map_map. exact Hnd. }
  apply (NoDup_map_inj (fun s => lower (sn_key s)) (nest created)); try assumption.
Qed.
