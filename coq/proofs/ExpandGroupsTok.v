(* C01, string level, statements with groups: syntax, rendering, and the tokenizer + layout half.
   A unit is a letter name with an optional `*digits`, or a parenthesised statement with an
   optional `*digits`; a statement is units separated by `>`, `+` and runs of `^`.
   For every such text the tokenizer yields exactly the token list [lay_stmt] computes, and that
   token list is a statement of the parser theorem with groups (ParserGroups.gflat). *)
From Emmet Require Import lib.Base model.MarkupTokenizer model.MarkupParser.
From Emmet Require Import proofs.ParserSpine proofs.ParserGroups proofs.TokenizeRender proofs.ExpandRepeat.
Local Open Scope nat_scope.

(* ================================================================ syntax *)
Inductive sunit :=
| UE (n : str) (r : option str)                        (* name, optional repeat digits *)
| UG (body : list (sunit * sop)) (r : option str).     (* ( body ), optional repeat digits *)
Definition sstmt := list (sunit * sop).

Section SunitInd.
  Variable P : sunit -> Prop.
  Hypothesis HE : forall n r, P (UE n r).
  Hypothesis HG : forall body r, Forall (fun x => P (fst x)) body -> P (UG body r).
  Fixpoint sunit_ind' (u : sunit) : P u :=
    match u with
    | UE n r => HE n r
    | UG body r =>
        HG body r ((fix go (xs : sstmt) : Forall (fun x => P (fst x)) xs :=
                      match xs with
                      | [] => Forall_nil _
                      | x :: xs' => Forall_cons x (sunit_ind' (fst x)) (go xs')
                      end) body)
    end.
End SunitInd.

Definition render_stmt_with (F : sunit -> str) :=
  fix go (xs : sstmt) : str :=
    match xs with
    | [] => []
    | (u, o) :: xs' =>
        match xs' with
        | [] => F u
        | _ :: _ => F u ++ op_text o ++ go xs'
        end
    end.
Fixpoint render_unit (u : sunit) : str :=
  match u with
  | UE n r => n ++ rep_text r
  | UG body r => c_lparen :: render_stmt_with render_unit body ++ c_rparen :: rep_text r
  end.
Definition render3 (xs : sstmt) : str := render_stmt_with render_unit xs.
Definition ulen (u : sunit) : nat := length (render_unit u).
Definition slen (xs : sstmt) : nat := length (render3 xs).

(* ================================================================ names *)
(* a written name: a letter, then letters, ASCII digits, `-`, `_`, `:` *)
Local Open Scope N_scope.
Definition namec (c : char) : bool :=
  is_alpha c || in_range c_0 c_9 c || (c =? c_dash) || (c =? c_under) || (c =? c_colon).
Local Close Scope N_scope.
Definition wname_ok (n : str) : Prop :=
  match n with [] => False | c :: r => is_alpha c = true /\ Forall (fun c => namec c = true) r end.
Definition wide_name (n : str) : bool :=
  match n with [] => false | c :: r => is_alpha c && forallb namec r end.

Lemma wide_name_ok n : wide_name n = true -> wname_ok n.
Proof.
  destruct n as [|c r]; [discriminate|]. cbn [wide_name wname_ok]. intros H. apply andb_prop in H. destruct H as [H1 H2].
  split; [exact H1|]. apply Forall_forall. apply forallb_forall. exact H2.
Qed.

Local Open Scope N_scope.
Lemma namec_range c : namec c = true ->
  (65 <= c <= 90) \/ (97 <= c <= 122) \/ (48 <= c <= 57) \/ c = 45 \/ c = 95 \/ c = 58.
Proof.
  unfold namec. intros H.
  apply orb_true_iff in H. destruct H as [H|H5]; [|apply N.eqb_eq in H5; unfold c_colon in H5; lia].
  apply orb_true_iff in H. destruct H as [H|H4]; [|apply N.eqb_eq in H4; unfold c_under in H4; lia].
  apply orb_true_iff in H. destruct H as [H|H3]; [|apply N.eqb_eq in H3; unfold c_dash in H3; lia].
  apply orb_true_iff in H. destruct H as [H1|H2].
  - apply alpha_range in H1. lia.
  - unfold in_range, c_0, c_9 in H2. apply andb_true_iff in H2. destruct H2 as [Ha Hb].
    apply N.leb_le in Ha. apply N.leb_le in Hb. lia.
Qed.

Lemma alpha_namec c : is_alpha c = true -> namec c = true.
Proof. intros H. unfold namec. rewrite H. reflexivity. Qed.

Lemma namec_not c k : namec c = true ->
  (k < 45 \/ 45 < k < 48 \/ 58 < k < 65 \/ 90 < k < 95 \/ 95 < k < 97 \/ 122 < k) -> (c =? k) = false.
Proof. intros H Hk. apply namec_range in H. apply N.eqb_neq. lia. Qed.

Lemma namec_operator c : namec c = true -> operator_type c = None.
Proof.
  intros H. apply namec_range in H. unfold operator_type, markup_operator_types. cbn [assoc_N].
  repeat match goal with
         | |- context [c =? ?k] => destruct (c =? k) eqn:E; [apply N.eqb_eq in E; lia|]; clear E
         end.
  reflexivity.
Qed.

Lemma ascii_digit_number c : 48 <= c <= 57 -> is_number c = true.
Proof.
  intros H. unfold is_number. apply existsb_exists. exists 48. split.
  - unfold decimal_zeros. left. reflexivity.
  - apply andb_true_iff. split; [apply N.leb_le|apply N.ltb_lt]; lia.
Qed.

Lemma namec_element_name c : namec c = true -> is_element_name c = true.
Proof.
  intros H. pose proof (namec_range c H) as R. unfold is_element_name, is_alpha_numeric_word, is_alpha_word.
  destruct R as [R|[R|[R|[R|[R|R]]]]].
  - assert (Ha : is_alpha c = true).
    { unfold is_alpha, in_range, c_a, c_z, c_A, c_Z. apply orb_true_iff. right. apply andb_true_iff. split; apply N.leb_le; lia. }
    rewrite Ha. rewrite !orb_true_r. reflexivity.
  - assert (Ha : is_alpha c = true).
    { unfold is_alpha, in_range, c_a, c_z, c_A, c_Z. apply orb_true_iff. left. apply andb_true_iff. split; apply N.leb_le; lia. }
    rewrite Ha. rewrite !orb_true_r. reflexivity.
  - rewrite (ascii_digit_number c R). reflexivity.
  - subst c. rewrite !orb_true_r. reflexivity.
  - subst c. reflexivity.
  - subst c. rewrite !orb_true_r. reflexivity.
Qed.

Lemma namec_not_space c : namec c = true -> is_space c = false.
Proof.
  intros H. unfold is_space, is_white_space, c_space, c_tab, c_nbsp, c_nl, c_cr.
  rewrite !(namec_not c) by (assumption || lia). reflexivity.
Qed.
Lemma namec_not_quote c : namec c = true -> is_quote c = false.
Proof. intros H. unfold is_quote, c_dquote, c_squote. rewrite !(namec_not c) by (assumption || lia). reflexivity. Qed.
Lemma namec_not_bracket c : namec c = true -> bracket_type c = None.
Proof.
  intros H. unfold bracket_type, c_lparen, c_rparen, c_lbrack, c_rbrack, c_lbrace, c_rbrace.
  rewrite !(namec_not c) by (assumption || lia). reflexivity.
Qed.
Local Close Scope N_scope.

(* well-formedness: wide names, digit runs, and `>` never directly after a group *)
Definition is_ug (u : sunit) : bool := match u with UG _ _ => true | UE _ _ => false end.
Definition rep_okP (r : option str) : Prop := match r with Some ds => digits_ok ds | None => True end.
Definition swf_with (F : sunit -> Prop) :=
  fix go (xs : sstmt) : Prop :=
    match xs with
    | [] => True
    | (u, o) :: xs' => F u /\ (is_ug u = true -> o <> SChild) /\ go xs'
    end.
Fixpoint swf_unit (u : sunit) : Prop :=
  match u with
  | UE n r => wname_ok n /\ rep_okP r
  | UG body r => swf_with swf_unit body /\ rep_okP r
  end.
Definition swf (xs : sstmt) : Prop := swf_with swf_unit xs.

(* ================================================================ tokenizer lemmas at any group depth *)
Definition ctx_g (g : Z) : tctx := mkCtx g 0 0 None.

(* what may follow a name *)
Definition stop3 (rest : str) : Prop :=
  match rest with [] => True | c :: _ => TokenizeRender.op_char c \/ c = c_star \/ c = c_rparen end.
(* what may follow a unit (and a digit run) *)
Definition stop4 (rest : str) : Prop :=
  match rest with [] => True | c :: _ => TokenizeRender.op_char c \/ c = c_rparen end.
(* what may follow a statement *)
Definition stopS (rest : str) : Prop :=
  match rest with [] => True | c :: _ => c = c_rparen end.

Lemma stop4_stop3 rest : stop4 rest -> stop3 rest.
Proof. destruct rest; cbn; [auto|]. intros [H|H]; auto. Qed.
Lemma stopS_stop4 rest : stopS rest -> stop4 rest.
Proof. destruct rest; cbn; auto. Qed.

Lemma lit_name3 : forall name rest prev,
  Forall (fun c => namec c = true) name -> stop3 rest ->
  lit None 0 0 0 prev false (name ++ rest) = (name, length name, 0%Z).
Proof.
  induction name as [|c name IH]; intros rest prev Hn Hs.
  - cbn [app length]. destruct rest as [|c r]; [reflexivity|].
    cbn [stop3] in Hs. destruct Hs as [[-> | [-> | ->]] | [-> | ->]]; reflexivity.
  - inversion Hn as [|x l Hc Hn']; subst. cbn [app length lit].
    rewrite (namec_not c c_bslash Hc) by (unfold c_bslash; lia).
    rewrite (namec_not c c_slash Hc) by (unfold c_slash; lia).
    rewrite (namec_not c c_dollar Hc) by (unfold c_dollar; lia).
    cbn [andb orb]. unfold is_allowed_operator at 1. rewrite (namec_operator c Hc).
    cbn [truthy Z.eqb negb]. rewrite (namec_element_name c Hc). cbn [negb andb].
    unfold is_allowed_space, is_allowed_repeater. rewrite (namec_not_space c Hc).
    rewrite (namec_not c c_star Hc) by (unfold c_star; lia).
    rewrite (namec_not_quote c Hc), (namec_not_bracket c Hc). cbn [andb orb].
    rewrite (IH rest (Some c) Hn' Hs). reflexivity.
Qed.

Lemma consume_name3 g name rest prev :
  wname_ok name -> stop3 rest ->
  consume (ctx_g g) prev (name ++ rest) = (CTok (TLiteral name) (length name), ctx_g g).
Proof.
  intros Hw Hs. destruct name as [|c name]; [contradiction|]. cbn [wname_ok] in Hw. destruct Hw as [Hc Hn'].
  assert (Hn : Forall (fun c => namec c = true) (c :: name)) by (constructor; [apply alpha_namec, Hc|exact Hn']).
  unfold consume, ctx_g. cbn [cexpr cattr cquote cgroup].
  assert (Hf : field (mkCtx g 0 0 None) ((c :: name) ++ rest) = CNone) by reflexivity.
  rewrite Hf. cbn [orelse].
  assert (Hrp : repeater_placeholder ((c :: name) ++ rest) = CNone).
  { unfold repeater_placeholder. cbn [app]. destruct (name ++ rest); [reflexivity|].
    rewrite (alpha_not c c_dollar Hc) by (unfold c_dollar; lia). reflexivity. }
  rewrite Hrp. cbn [orelse].
  assert (Hrn : repeater_number ((c :: name) ++ rest) = CNone).
  { unfold repeater_number. cbn [app span]. rewrite N.eqb_sym.
    rewrite (alpha_not c c_dollar Hc) by (unfold c_dollar; lia). reflexivity. }
  rewrite Hrn. cbn [orelse].
  assert (Hr : repeater (mkCtx g 0 0 None) ((c :: name) ++ rest) = CNone).
  { unfold repeater, is_allowed_repeater. cbn [app].
    rewrite (alpha_not c c_star Hc) by (unfold c_star; lia). reflexivity. }
  rewrite Hr. cbn [orelse].
  assert (Hw : white_space ((c :: name) ++ rest) = CNone).
  { unfold white_space. cbn [app span]. rewrite (alpha_not_space c Hc). reflexivity. }
  rewrite Hw.
  change (Z.min 0 1) with 0%Z.
  rewrite (lit_name3 (c :: name) rest prev Hn Hs). cbn [length]. reflexivity.
Qed.

Lemma consume_op3 g c rest prev :
  TokenizeRender.op_char c ->
  consume (ctx_g g) prev (c :: rest) =
    (CTok (TOperator (if (c =? c_gt)%N then OpChild else if (c =? c_plus)%N then OpSibling else OpClimb)) 1, ctx_g g).
Proof.
  intros Hc. unfold consume, ctx_g. cbn [cexpr cattr cquote cgroup].
  assert (Hf : field (mkCtx g 0 0 None) (c :: rest) = CNone) by reflexivity. rewrite Hf. cbn [orelse].
  assert (Hrp : repeater_placeholder (c :: rest) = CNone).
  { unfold repeater_placeholder. destruct rest; [reflexivity|]. destruct Hc as [-> | [-> | ->]]; reflexivity. }
  rewrite Hrp. cbn [orelse].
  assert (Hrn : repeater_number (c :: rest) = CNone) by (destruct Hc as [-> | [-> | ->]]; reflexivity).
  rewrite Hrn. cbn [orelse].
  assert (Hr : repeater (mkCtx g 0 0 None) (c :: rest) = CNone) by (destruct Hc as [-> | [-> | ->]]; reflexivity).
  rewrite Hr. cbn [orelse].
  assert (Hw : white_space (c :: rest) = CNone) by (destruct Hc as [-> | [-> | ->]]; reflexivity).
  rewrite Hw.
  assert (Hl : lit None 0 0 0 prev false (c :: rest) = ([], 0, 0%Z)) by (destruct Hc as [-> | [-> | ->]]; reflexivity).
  change (Z.min 0 1) with 0%Z. rewrite Hl. destruct Hc as [-> | [-> | ->]]; reflexivity.
Qed.

Lemma span_number_app3 ds rest :
  Forall (fun c => is_number c = true) ds -> stop4 rest ->
  span is_number (ds ++ rest) = length ds.
Proof.
  intros H Hs. induction H as [|c ds Hc _ IH]; cbn [app span length].
  - destruct rest as [|c r]; [reflexivity|]. cbn [stop4] in Hs. cbn [span].
    destruct Hs as [[-> | [-> | ->]] | ->]; reflexivity.
  - rewrite Hc, IH. reflexivity.
Qed.

Lemma consume_rep3 g ds rest prev :
  digits_ok ds -> stop4 rest ->
  consume (ctx_g g) prev (c_star :: ds ++ rest) = (CTok (TRepeater (count_of ds) 0 false) (S (length ds)), ctx_g g).
Proof.
  intros [Hne Hd] Hs. destruct ds as [|d ds]; [contradiction|].
  unfold consume, ctx_g. cbn [cexpr cattr cquote cgroup].
  assert (Hf : field (mkCtx g 0 0 None) (c_star :: (d :: ds) ++ rest) = CNone) by reflexivity.
  rewrite Hf. cbn [orelse].
  assert (Hrp : repeater_placeholder (c_star :: (d :: ds) ++ rest) = CNone) by reflexivity.
  rewrite Hrp. cbn [orelse].
  assert (Hrn : repeater_number (c_star :: (d :: ds) ++ rest) = CNone) by reflexivity.
  rewrite Hrn. cbn [orelse].
  assert (Hr : repeater (mkCtx g 0 0 None) (c_star :: (d :: ds) ++ rest) =
               CTok (TRepeater (count_of (d :: ds)) 0 false) (S (length (d :: ds)))).
  { unfold repeater. change (is_allowed_repeater c_star (mkCtx g 0 0 None)) with true. cbn [andb cquote].
    rewrite (span_number_app3 (d :: ds) rest Hd Hs). cbn [length].
    change (d :: ds ++ rest) with ((d :: ds) ++ rest).
    replace (firstn (S (length ds)) ((d :: ds) ++ rest)) with (d :: ds); [reflexivity|].
    change (S (length ds)) with (length (d :: ds)). rewrite firstn_app, Nat.sub_diag, firstn_all. cbn [firstn]. rewrite app_nil_r. reflexivity. }
  rewrite Hr. reflexivity.
Qed.

Lemma consume_lparen g rest prev :
  consume (ctx_g g) prev (c_lparen :: rest) = (CTok (TBracket true BGroup) 1, ctx_g (g + 1)).
Proof. destruct rest; reflexivity. Qed.

Lemma consume_rparen g rest prev :
  consume (ctx_g g) prev (c_rparen :: rest) = (CTok (TBracket false BGroup) 1, ctx_g (g + -1)).
Proof. destruct rest; reflexivity. Qed.

(* ---------------------------------------------------------------- operator runs *)
Lemma climb_toks_run3 g : forall k rest prev pos,
  toks 0 (ctx_g g) prev pos (repeat c_caret k ++ rest) =
    match toks 0 (ctx_g g) (match k with 0 => prev | S _ => Some c_caret end) (pos + k) rest with
    | TOk l => TOk (climb_toks k pos ++ l)
    | TErr p => TErr p
    end.
Proof.
  induction k as [|k IH]; intros rest prev pos.
  - cbn [repeat app climb_toks]. rewrite Nat.add_0_r. destruct (toks 0 (ctx_g g) prev pos rest); reflexivity.
  - cbn [repeat]. change ((c_caret :: repeat c_caret k) ++ rest) with ([c_caret] ++ (repeat c_caret k ++ rest)).
    rewrite (toks_step [c_caret] _ (ctx_g g) prev pos (TOperator OpClimb) (ctx_g g)); [|discriminate|].
    + cbn [length lastc rev app]. rewrite IH.
      replace (pos + 1 + k) with (pos + S k) by lia.
      assert (E : match k with 0 => Some c_caret | S _ => Some c_caret end = Some c_caret) by (destruct k; reflexivity).
      rewrite E. cbn [climb_toks].
      destruct (toks 0 (ctx_g g) (Some c_caret) (pos + S k) rest); reflexivity.
    + cbn [app length]. rewrite consume_op3 by (unfold TokenizeRender.op_char; auto). reflexivity.
Qed.

Lemma op_toks_run3 g o rest prev pos :
  exists prev',
  toks 0 (ctx_g g) prev pos (op_text o ++ rest) =
    match toks 0 (ctx_g g) prev' (pos + length (op_text o)) rest with
    | TOk l => TOk (op_toks o pos ++ l)
    | TErr p => TErr p
    end.
Proof.
  destruct o as [| |k].
  - exists (Some c_gt). cbn [op_text]. rewrite (toks_step [c_gt] rest (ctx_g g) prev pos (TOperator OpChild) (ctx_g g)); [|discriminate|].
    + reflexivity.
    + cbn [app length]. rewrite consume_op3 by (unfold TokenizeRender.op_char; auto). reflexivity.
  - exists (Some c_plus). cbn [op_text]. rewrite (toks_step [c_plus] rest (ctx_g g) prev pos (TOperator OpSibling) (ctx_g g)); [|discriminate|].
    + reflexivity.
    + cbn [app length]. rewrite consume_op3 by (unfold TokenizeRender.op_char; auto). reflexivity.
  - exists (Some c_caret). cbn [op_text op_toks]. rewrite climb_toks_run3.
    rewrite repeat_length. reflexivity.
Qed.

(* ---------------------------------------------------------------- one element *)
Definition item_ok3 (it : ritem) : Prop :=
  wname_ok (fst it) /\ match snd it with Some ds => digits_ok ds | None => True end.
Lemma wname_nonempty n : wname_ok n -> n <> [].
Proof. destruct n; [contradiction|discriminate]. Qed.

Lemma item_run3 g it rest prev pos :
  item_ok3 it -> stop4 rest ->
  exists prev',
  toks 0 (ctx_g g) prev pos (fst it ++ rep_text (snd it) ++ rest) =
    match toks 0 (ctx_g g) prev' (pos + item_len it) rest with
    | TOk l => TOk (item_toks it pos ++ l)
    | TErr p => TErr p
    end.
Proof.
  destruct it as [n [ds|]]; unfold item_ok3, item_len, item_toks; cbn [fst snd rep_text rep_toks_at]; intros [Hn Hd] Hs.
  - exists (lastc (c_star :: ds)).
    rewrite (toks_step n _ (ctx_g g) prev pos (TLiteral n) (ctx_g g)); [|apply wname_nonempty, Hn|].
    + rewrite (toks_step (c_star :: ds) rest (ctx_g g) (lastc n) (pos + length n) (TRepeater (count_of ds) 0 false) (ctx_g g));
        [|discriminate|cbn [app length]; apply consume_rep3; assumption].
      cbn [length]. rewrite Nat.add_assoc.
      destruct (toks 0 (ctx_g g) (lastc (c_star :: ds)) (pos + length n + S (length ds)) rest); reflexivity.
    + apply consume_name3; [exact Hn|]. cbn [app stop3]. right. left. reflexivity.
  - exists (lastc n). cbn [app length]. rewrite Nat.add_0_r.
    rewrite (toks_step n rest (ctx_g g) prev pos (TLiteral n) (ctx_g g)); [|apply wname_nonempty, Hn|apply consume_name3; [exact Hn|apply stop4_stop3, Hs]].
    destruct (toks 0 (ctx_g g) (lastc n) (pos + length n) rest); reflexivity.
Qed.

(* ================================================================ layout: parser-level statement and tokens *)
Definition lparen_tok (pos : nat) : token := mkTok (TBracket true BGroup) pos (pos + 1).
Definition rparen_tok (pos : nat) : token := mkTok (TBracket false BGroup) pos (pos + 1).

Definition lay_stmt_with (F : nat -> sunit -> gunit * list token) :=
  fix go (pos : nat) (xs : sstmt) : gstmt * list token :=
    match xs with
    | [] => ([], [])
    | (u, o) :: xs' =>
        match xs' with
        | [] => ([(fst (F pos u), SSibling)], snd (F pos u))
        | _ :: _ =>
            ((fst (F pos u), o) :: fst (go (pos + ulen u + length (op_text o)) xs'),
             snd (F pos u) ++ op_toks o (pos + ulen u) ++ snd (go (pos + ulen u + length (op_text o)) xs'))
        end
    end.

Fixpoint lay_unit (pos : nat) (u : sunit) : gunit * list token :=
  match u with
  | UE n r => (GE (item_leaf (n, r) pos), item_toks (n, r) pos)
  | UG body r =>
      let inner := lay_stmt_with lay_unit (pos + 1) body in
      (GG (fst inner) (rep_of_digits r),
       lparen_tok pos :: snd inner ++
       rparen_tok (pos + 1 + slen body) :: rep_toks_at r (pos + 1 + slen body + 1))
  end.
Definition lay_stmt (pos : nat) (xs : sstmt) : gstmt * list token := lay_stmt_with lay_unit pos xs.

Lemma render3_cons u o y xs :
  render3 ((u, o) :: y :: xs) = render_unit u ++ op_text o ++ render3 (y :: xs).
Proof. reflexivity. Qed.
Lemma lay_stmt_cons pos u o y xs :
  lay_stmt pos ((u, o) :: y :: xs) =
  ((fst (lay_unit pos u), o) :: fst (lay_stmt (pos + ulen u + length (op_text o)) (y :: xs)),
   snd (lay_unit pos u) ++ op_toks o (pos + ulen u) ++ snd (lay_stmt (pos + ulen u + length (op_text o)) (y :: xs))).
Proof. reflexivity. Qed.

(* ================================================================ the tokenizer on a rendered statement *)
Definition unit_run (u : sunit) : Prop :=
  forall g rest prev pos, stop4 rest ->
  exists prev',
    toks 0 (ctx_g g) prev pos (render_unit u ++ rest) =
    match toks 0 (ctx_g g) prev' (pos + ulen u) rest with
    | TOk l => TOk (snd (lay_unit pos u) ++ l)
    | TErr p => TErr p
    end.

Definition stmt_run (xs : sstmt) : Prop :=
  forall g rest prev pos, stopS rest ->
  exists prev',
    toks 0 (ctx_g g) prev pos (render3 xs ++ rest) =
    match toks 0 (ctx_g g) prev' (pos + slen xs) rest with
    | TOk l => TOk (snd (lay_stmt pos xs) ++ l)
    | TErr p => TErr p
    end.

Lemma stmt_run_of_units : forall xs, Forall (fun x => unit_run (fst x)) xs -> stmt_run xs.
Proof.
  induction xs as [|[u o] xs' IH]; intros HF g rest prev pos Hs.
  - exists prev. unfold slen. cbn [render3 render_stmt_with app length lay_stmt lay_stmt_with snd]. rewrite Nat.add_0_r.
    destruct (toks 0 (ctx_g g) prev pos rest); reflexivity.
  - inversion HF as [|x l Hu Hr]; subst. cbn [fst] in Hu.
    destruct xs' as [|y xs''].
    + unfold slen. cbn [render3 render_stmt_with lay_stmt lay_stmt_with snd].
      apply (Hu g rest prev pos (stopS_stop4 _ Hs)).
    + rewrite render3_cons, lay_stmt_cons. cbn [snd]. rewrite <- !app_assoc.
      destruct (Hu g (op_text o ++ render3 (y :: xs'') ++ rest) prev pos) as [prev1 E1].
      { destruct o; cbn; unfold TokenizeRender.op_char; auto. }
      rewrite E1.
      destruct (op_toks_run3 g o (render3 (y :: xs'') ++ rest) prev1 (pos + ulen u)) as [prev2 E2]. rewrite E2.
      destruct (IH Hr g rest prev2 (pos + ulen u + length (op_text o)) Hs) as [prev3 E3]. rewrite E3.
      exists prev3. unfold slen. rewrite render3_cons, !app_length. fold (ulen u). fold (slen (y :: xs'')).
      rewrite !Nat.add_assoc.
      destruct (toks 0 (ctx_g g) prev3 (pos + ulen u + length (op_text o) + slen (y :: xs'')) rest); [|reflexivity].
      rewrite <- !app_assoc. reflexivity.
Qed.

Lemma swf_units body : swf_with swf_unit body -> Forall (fun x => swf_unit (fst x)) body.
Proof.
  induction body as [|[u o] xs IH]; intros H; [constructor|]. cbn [swf_with] in H. destruct H as [Hu [_ Hx]].
  constructor; [exact Hu|apply IH, Hx].
Qed.

Theorem unit_run_all : forall u, swf_unit u -> unit_run u.
Proof.
  induction u as [n r|body r IH] using sunit_ind'; intros Hwf g rest prev pos Hs.
  - cbn [swf_unit] in Hwf. cbn [render_unit lay_unit snd]. rewrite <- app_assoc.
    destruct (item_run3 g (n, r) rest prev pos) as [prev' E]; [exact Hwf|exact Hs|].
    cbn [fst snd] in E. exists prev'. rewrite E. unfold ulen, item_len. cbn [render_unit fst snd]. rewrite app_length. reflexivity.
  - cbn [swf_unit] in Hwf. destruct Hwf as [Hbody Hrep].
    assert (Hrun : stmt_run body).
    { apply stmt_run_of_units. pose proof (swf_units body Hbody) as Hall.
      rewrite Forall_forall in *. intros x Hx. apply (IH x Hx), (Hall x Hx). }
    cbn [render_unit lay_unit snd]. fold (render3 body). fold (lay_stmt (pos + 1) body).
    change ((c_lparen :: render3 body ++ c_rparen :: rep_text r) ++ rest)
      with ([c_lparen] ++ (render3 body ++ c_rparen :: rep_text r) ++ rest).
    rewrite (toks_step [c_lparen] _ (ctx_g g) prev pos (TBracket true BGroup) (ctx_g (g + 1)));
      [|discriminate|cbn [app length]; apply consume_lparen].
    cbn [length]. rewrite <- app_assoc.
    destruct (Hrun (g + 1)%Z ((c_rparen :: rep_text r) ++ rest) (lastc [c_lparen]) (pos + 1)) as [prev1 E1]; [reflexivity|].
    rewrite E1.
    change ((c_rparen :: rep_text r) ++ rest) with ([c_rparen] ++ rep_text r ++ rest).
    rewrite (toks_step [c_rparen] _ (ctx_g (g + 1)) prev1 (pos + 1 + slen body) (TBracket false BGroup) (ctx_g (g + 1 + -1)));
      [|discriminate|cbn [app length]; apply consume_rparen].
    replace (g + 1 + -1)%Z with g by lia. cbn [length].
    assert (Hlen : ulen (UG body r) = 1 + slen body + 1 + length (rep_text r)).
    { unfold ulen, slen. cbn [render_unit length]. fold (render3 body). rewrite app_length. cbn [length]. lia. }
    destruct r as [ds|]; cbn [rep_text rep_toks_at app] in *.
    + change (c_star :: ds ++ rest) with ((c_star :: ds) ++ rest).
      rewrite (toks_step (c_star :: ds) rest (ctx_g g) (lastc [c_rparen]) (pos + 1 + slen body + 1) (TRepeater (count_of ds) 0 false) (ctx_g g));
        [|discriminate|cbn [app length]; apply consume_rep3; assumption].
      exists (lastc (c_star :: ds)). rewrite Hlen. cbn [length].
      replace (pos + (1 + slen body + 1 + S (length ds))) with (pos + 1 + slen body + 1 + S (length ds)) by lia.
      destruct (toks 0 (ctx_g g) (lastc (c_star :: ds)) (pos + 1 + slen body + 1 + S (length ds)) rest); [|reflexivity].
      unfold lparen_tok, rparen_tok. cbn [app]. rewrite <- app_assoc. reflexivity.
    + exists (lastc [c_rparen]). rewrite Hlen. cbn [length].
      replace (pos + (1 + slen body + 1 + 0)) with (pos + 1 + slen body + 1) by lia.
      destruct (toks 0 (ctx_g g) (lastc [c_rparen]) (pos + 1 + slen body + 1) rest); [|reflexivity].
      unfold lparen_tok, rparen_tok. cbn [app]. rewrite <- app_assoc. reflexivity.
Qed.

Theorem toks_render3 xs :
  swf xs -> tokenize (render3 xs) = TOk (snd (lay_stmt 0 xs)).
Proof.
  intros Hwf.
  assert (Hrun : stmt_run xs).
  { apply stmt_run_of_units. pose proof (swf_units xs Hwf) as Hall.
    rewrite Forall_forall in *. intros x Hx. apply unit_run_all, (Hall x Hx). }
  destruct (Hrun 0%Z [] None 0 I) as [prev' E]. rewrite !app_nil_r in E. unfold tokenize.
  change ctx0 with (ctx_g 0). rewrite E. cbn [toks]. rewrite app_nil_r. reflexivity.
Qed.

(* ================================================================ the tokens form a statement with groups *)
Lemma rep_toks_at_rep r pos : rep_toks (rep_of_digits r) (rep_toks_at r pos).
Proof. destruct r as [ds|]; cbn [rep_of_digits rep_toks_at]; [apply rt_some; reflexivity|apply rt_none]. Qed.

Lemma lay_gflat_of_units jsx : forall xs,
  Forall (fun x => forall pos, unit_toks jsx (fst (lay_unit pos (fst x))) (snd (lay_unit pos (fst x)))) xs ->
  swf_with swf_unit xs ->
  forall pos, gflat jsx (fst (lay_stmt pos xs)) (snd (lay_stmt pos xs)).
Proof.
  induction xs as [|[u o] xs' IH]; intros HF Hwf pos; [apply gf_nil|].
  inversion HF as [|x l Hu Hr]; subst. cbn [fst] in Hu.
  cbn [swf_with] in Hwf. destruct Hwf as [_ [Hgo Hwx]].
  destruct xs' as [|y xs''].
  - cbn [lay_stmt lay_stmt_with fst snd]. apply gf_last. apply Hu.
  - rewrite lay_stmt_cons. cbn [fst snd]. apply gf_cons; [apply Hu|apply op_toks_tokens| |apply IH; assumption].
    intros Hg. apply Hgo. destruct u; [discriminate|reflexivity].
Qed.

Theorem lay_unit_toks jsx : forall u, swf_unit u -> forall pos, unit_toks jsx (fst (lay_unit pos u)) (snd (lay_unit pos u)).
Proof.
  induction u as [n r|body r IH] using sunit_ind'; intros Hwf pos.
  - cbn [lay_unit fst snd]. apply ut_elem. apply item_block.
  - cbn [swf_unit] in Hwf. destruct Hwf as [Hbody _].
    cbn [lay_unit fst snd]. fold (lay_stmt (pos + 1) body).
    apply ut_group; [reflexivity|reflexivity| |apply rep_toks_at_rep].
    apply lay_gflat_of_units; [|exact Hbody].
    pose proof (swf_units body Hbody) as Hall. rewrite Forall_forall in *. intros x Hx pos'. apply (IH x Hx), (Hall x Hx).
Qed.

Theorem lay_stmt_gflat jsx xs : swf xs -> forall pos, gflat jsx (fst (lay_stmt pos xs)) (snd (lay_stmt pos xs)).
Proof.
  intros Hwf. apply lay_gflat_of_units; [|exact Hwf].
  pose proof (swf_units xs Hwf) as Hall. rewrite Forall_forall in *. intros x Hx pos. apply lay_unit_toks, (Hall x Hx).
Qed.
