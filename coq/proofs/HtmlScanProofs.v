(* C16 (HTML half), scanner part: bounds of every consumer of HtmlScan, the
   well-formedness of scanner events, of attribute tokens, and the absence of
   internal errors. *)
From Coq Require Import List NArith ZArith Bool Lia ZifyBool.
From Emmet Require Import lib.Base lib.HtmlLib gen.GenHtml model.HtmlScan model.HtmlMatch.
Import ListNotations.
Local Open Scope nat_scope.

(* ------------------------------------------------------------------ consumers stay inside the input *)
Lemma span_le p s : span p s <= length s.
Proof. induction s as [|c r IH]; simpl; [lia|]. destruct (p c); simpl; lia. Qed.

Lemma span_all p s k : k < span p s -> exists c, nth_error s k = Some c /\ p c = true.
Proof.
  revert k. induction s as [|c r IH]; intros k H; simpl in H; [lia|].
  destruct (p c) eqn:E; [|lia]. destruct k; [exists c; auto|]. simpl. apply IH. lia.
Qed.

Lemma quoted_body_bound : forall s q esc off n,
  quoted_body q esc s off = Some n -> off < n <= off + length s.
Proof.
  induction s as [|c r IH]; intros q esc off n H; cbn [quoted_body] in H; [discriminate|].
  cbn [length].
  destruct esc.
  - apply IH in H. lia.
  - destruct (c =? q)%N.
    + inversion H; subst. lia.
    + destruct (c =? html_escape_char)%N; apply IH in H; lia.
Qed.

Lemma eat_quoted_bound s n : eat_quoted s = Some n -> 2 <= n <= length s.
Proof.
  unfold eat_quoted. destruct s as [|c r]; [discriminate|].
  destruct (is_quote c); [|discriminate]. intros H. apply quoted_body_bound in H. cbn [length]. lia.
Qed.

Lemma eat_quoted_first s n : eat_quoted s = Some n -> exists c r, s = c :: r /\ is_quote c = true.
Proof.
  unfold eat_quoted. destruct s as [|c r]; [discriminate|].
  destruct (is_quote c) eqn:E; [|discriminate]. intros _. eauto.
Qed.

Lemma pair_body_bound : forall s o c skip d off n,
  pair_body o c skip d s off = Some n -> off < n <= off + length s.
Proof.
  induction s as [|x r IH]; intros o c skip d off n H; cbn [pair_body] in H; [discriminate|].
  cbn [length].
  destruct skip as [|k].
  - destruct (eat_quoted (x :: r)) as [m|].
    + apply IH in H. lia.
    + destruct (x =? o)%N.
      * apply IH in H. lia.
      * destruct (x =? c)%N.
        -- destruct d as [|d'].
           ++ inversion H; subst. lia.
           ++ apply IH in H. lia.
        -- destruct (x =? html_escape_char)%N; apply IH in H; lia.
  - apply IH in H. lia.
Qed.

Lemma eat_pair_bound o c s n : eat_pair o c s = Some n -> 2 <= n <= length s.
Proof.
  unfold eat_pair. destruct s as [|x r]; [discriminate|].
  destruct (x =? o)%N; [|discriminate]. intros H. apply pair_body_bound in H. cbn [length]. lia.
Qed.

Lemma eat_pair_first o c s n : eat_pair o c s = Some n -> exists r, s = o :: r.
Proof.
  unfold eat_pair. destruct s as [|x r]; [discriminate|].
  destruct (x =? o)%N eqn:E; [|discriminate]. apply N.eqb_eq in E. subst. eauto.
Qed.

Lemma ident_bound s n : ident s = Some n -> 1 <= n <= length s.
Proof.
  unfold ident. destruct s as [|c r]; [discriminate|].
  destruct (name_start_char c); [|discriminate]. intros H. inversion H; subst.
  pose proof (span_le name_char r). cbn [length]. lia.
Qed.

Lemma orelse_some a b n : orelse a b = Some n -> a = Some n \/ (a = None /\ b tt = Some n).
Proof. destruct a; simpl; intros H; [left; exact H|right; auto]. Qed.

Lemma consume_paired_bound s n : consume_paired s = Some n -> 2 <= n <= length s.
Proof.
  unfold consume_paired. intros H.
  repeat (apply orelse_some in H; destruct H as [H|[_ H]]; [eapply eat_pair_bound; exact H|]).
  eapply eat_pair_bound; exact H.
Qed.

Lemma consume_paired_first s n : consume_paired s = Some n ->
  exists c r, s = c :: r /\ is_quote c = false.
Proof.
  unfold consume_paired. intros H.
  repeat (apply orelse_some in H; destruct H as [H|[_ H]];
          [apply eat_pair_first in H; destruct H as [r ->]; eexists _, _; split; [reflexivity|reflexivity]|]).
  apply eat_pair_first in H; destruct H as [r ->]; eexists _, _; split; reflexivity.
Qed.

Lemma attribute_name_bound s n : attribute_name s = Some n -> 1 <= n <= length s.
Proof.
  unfold attribute_name. destruct s as [|c r]; [discriminate|].
  destruct ((c =? c_star)%N || (c =? c_hash)%N).
  - intros H. inversion H; subst. cbn [length].
    destruct (ident r) as [m|] eqn:E; [apply ident_bound in E|]; lia.
  - intros H. apply orelse_some in H. destruct H as [H|[_ H]].
    + apply consume_paired_bound in H. lia.
    + apply ident_bound in H. lia.
Qed.

Lemma unquoted_bound s n : unquoted s = Some n -> 1 <= n <= length s.
Proof.
  unfold unquoted. pose proof (span_le is_unquoted s).
  destruct (span is_unquoted s); [discriminate|]. intros E. inversion E; subst. lia.
Qed.

Lemma attribute_value_bound s n : attribute_value s = Some n -> 1 <= n <= length s.
Proof.
  unfold attribute_value. intros H.
  apply orelse_some in H. destruct H as [H|[_ H]]; [apply eat_quoted_bound in H; lia|].
  apply orelse_some in H. destruct H as [H|[_ H]]; [apply consume_paired_bound in H; lia|].
  apply unquoted_bound in H. lia.
Qed.

(* a consumed value is never empty after one leading quote is removed *)
Definition value_shape (v : str) : Prop :=
  match v with
  | [] => False
  | c :: r => is_quote c = true -> r <> []
  end.

Lemma attribute_value_shape s n : attribute_value s = Some n -> value_shape (firstn n s).
Proof.
  unfold attribute_value. intros H.
  apply orelse_some in H. destruct H as [H|[_ H]].
  { pose proof (eat_quoted_bound _ _ H) as B. destruct s as [|c [|c2 r]]; cbn [length] in B; try lia.
    destruct n as [|[|n]]; try lia. simpl. intros _. discriminate. }
  apply orelse_some in H. destruct H as [H|[_ H]].
  { pose proof (consume_paired_bound _ _ H) as B.
    apply consume_paired_first in H. destruct H as (c & r & -> & Hq).
    destruct n; [lia|]. simpl. intros E. congruence. }
  unfold unquoted in H. destruct s as [|c r]; [discriminate|]. simpl in H.
  destruct (is_unquoted c) eqn:E; [|discriminate].
  destruct n; [discriminate|]. simpl. intros Hq. unfold is_unquoted in E. rewrite Hq in E. discriminate.
Qed.

Lemma peek_is_nth c s k : peek_is c (skipn k s) = true -> nth_error s k = Some c.
Proof.
  destruct (skipn k s) as [|x r] eqn:E; simpl; [discriminate|].
  intros H. apply N.eqb_eq in H. subst. eapply hd_skipn_nth_error; eassumption.
Qed.

Lemma peek_is_len c s : peek_is c s = true -> 1 <= length s.
Proof. destruct s; simpl; [discriminate|lia]. Qed.

Lemma tl_length {A} (l : list A) : length (tl l) = length l - 1.
Proof. destruct l; simpl; lia. Qed.

Lemma tl_skipn {A} (l : list A) : tl l = skipn 1 l.
Proof. destruct l; reflexivity. Qed.

Record araw_ok (s : str) (a : araw) : Prop := {
  ao_name : 1 <= ar_name a;
  ao_used : ar_used a <= length s;
  ao_val : match ar_value a with
           | Some v => 1 <= v /\ ar_used a = ar_name a + 1 + v /\
                       nth_error s (ar_name a) = Some c_eq /\
                       value_shape (firstn v (skipn (ar_name a + 1) s))
           | None => ar_name a <= ar_used a <= ar_name a + 1
           end }.

Lemma attribute_at_ok s a : attribute_at s = Some a -> araw_ok s a.
Proof.
  unfold attribute_at. destruct (attribute_name s) as [n|] eqn:En; [|discriminate].
  apply attribute_name_bound in En.
  destruct (peek_is c_eq (skipn n s)) eqn:Ep.
  - pose proof (peek_is_len _ _ Ep) as L. rewrite skipn_length in L.
    pose proof (peek_is_nth _ _ _ Ep) as Heq.
    rewrite tl_skipn, skipn_skipn.
    destruct (attribute_value (skipn (n + 1) s)) as [v|] eqn:Ev; intros H; inversion H; subst; clear H.
    + pose proof (attribute_value_bound _ _ Ev) as B. rewrite skipn_length in B.
      apply attribute_value_shape in Ev.
      constructor; cbn; try lia. repeat split; try lia; assumption.
    + constructor; cbn; lia.
  - intros H; inversion H; subst; clear H. constructor; cbn; lia.
Qed.

(* ------------------------------------------------------------------ attribute tokens *)
(* [attrs_ok s pos lo l]: the tokens of [l] lie in [s] (whose head has absolute
   offset [pos]) at relative offsets >= [lo], in order, without overlap, and their
   strings are the corresponding slices *)
Fixpoint attrs_ok (s : str) (pos : N) (lo : nat) (l : list attr) : Prop :=
  match l with
  | [] => True
  | a :: rest =>
      exists i n, lo <= i /\ 1 <= n /\ i + n <= length s /\
        a_ns a = (pos + N.of_nat i)%N /\ a_ne a = (pos + N.of_nat (i + n))%N /\
        a_name a = firstn n (skipn i s) /\
        match a_value a with
        | None => attrs_ok s pos (i + n) rest
        | Some (v, vs, ve) =>
            exists vl, 1 <= vl /\ i + n + 1 + vl <= length s /\
              nth_error s (i + n) = Some c_eq /\
              v = firstn vl (skipn (i + n + 1) s) /\
              vs = (pos + N.of_nat (i + n + 1))%N /\ ve = (pos + N.of_nat (i + n + 1 + vl))%N /\
              value_shape v /\
              attrs_ok s pos (i + n + 1 + vl) rest
        end
  end.

Lemma attrs_ok_weaken s pos : forall l lo lo', lo' <= lo -> attrs_ok s pos lo l -> attrs_ok s pos lo' l.
Proof.
  destruct l as [|a rest]; intros lo lo' Hle H; [exact I|].
  cbn [attrs_ok] in *. destruct H as (i & n & H1 & H). exists i, n. split; [lia|exact H].
Qed.

Lemma attrs_ok_lift c r pos : forall l lo,
  attrs_ok r (pos + 1)%N lo l -> attrs_ok (c :: r) pos (S lo) l.
Proof.
  induction l as [|a rest IH]; intros lo H; [exact I|].
  cbn [attrs_ok] in *. destruct H as (i & n & H1 & H2 & H3 & H4 & H5 & H6 & H7).
  exists (S i), n. cbn [length skipn]. repeat split; try lia; try assumption.
  destruct (a_value a) as [[[v vs] ve]|].
  - destruct H7 as (vl & V1 & V2 & V3 & V4 & V5 & V6 & V7 & V8).
    exists vl. repeat split; try lia; try assumption.
    replace (S i + n + 1 + vl) with (S (i + n + 1 + vl)) by lia. apply IH. exact V8.
  - replace (S i + n) with (S (i + n)) by lia. apply IH. exact H7.
Qed.

Lemma attrs_go_ok : forall s skip pos, attrs_ok s pos skip (attrs_go skip pos s).
Proof.
  induction s as [|c r IH]; intros skip pos; [exact I|].
  cbn [attrs_go]. destruct skip as [|k].
  - set (sp := span is_space (c :: r)).
    pose proof (span_le is_space (c :: r)) as Hsp. fold sp in Hsp.
    destruct (attribute_at (skipn sp (c :: r))) as [a|] eqn:Ea.
    + apply attribute_at_ok in Ea. destruct Ea as [A1 A2 A3]. rewrite skipn_length in A2.
      cbn [attrs_ok a_ns a_ne a_name a_value].
      exists sp, (ar_name a).
      assert (Hrest : forall lo', lo' <= sp + ar_used a ->
                attrs_ok (c :: r) pos lo' (attrs_go (pred (sp + ar_used a)) (pos + 1)%N r)).
      { intros lo' Hlo. eapply attrs_ok_weaken; [|apply attrs_ok_lift; apply IH]. lia. }
      destruct (ar_value a) as [vl|].
      * destruct A3 as (V1 & V2 & V3 & V4).
        rewrite skipn_skipn in V4 |- *. rewrite nth_error_skipn in V3.
        replace (sp + (ar_name a + 1)) with (sp + ar_name a + 1) in * by lia.
        repeat split; try lia.
        exists vl. repeat split; try lia; try assumption. apply Hrest. lia.
      * repeat split; try lia. apply Hrest. lia.
    + eapply attrs_ok_weaken; [|apply attrs_ok_lift; apply IH]. lia.
  - apply attrs_ok_lift. apply IH.
Qed.

(* user-facing form: ranges as slices of the string given to attributes() *)
Definition attr_end (a : attr) : N :=
  match a_value a with Some (_, _, ve) => ve | None => a_ne a end.

Definition attr_wf (src : str) (lo hi : N) (a : attr) : Prop :=
  (lo <= a_ns a)%N /\ (a_ns a < a_ne a)%N /\ a_name a = sliceN src (a_ns a) (a_ne a) /\
  match a_value a with
  | None => (a_ne a <= hi)%N
  | Some (v, vs, ve) =>
      vs = (a_ne a + 1)%N /\ (vs < ve)%N /\ (ve <= hi)%N /\ v = sliceN src vs ve /\ value_shape v
  end.

(* every token is well formed, lies in [lo, hi], and the tokens are in order and disjoint *)
Fixpoint attrs_sorted (src : str) (lo hi : N) (l : list attr) : Prop :=
  match l with
  | [] => True
  | a :: rest => attr_wf src lo hi a /\ attrs_sorted src (attr_end a) hi rest
  end.

Lemma sliceN_of_nat (src : str) a b :
  sliceN src (N.of_nat a) (N.of_nat b) = firstn (b - a) (skipn a src).
Proof.
  unfold sliceN. rewrite Nat2N.id.
  replace (N.to_nat (N.of_nat b - N.of_nat a)) with (b - a) by lia. reflexivity.
Qed.

Lemma frag_slice (src : str) start m i n :
  i + n <= length (firstn m (skipn start src)) ->
  firstn n (skipn i (firstn m (skipn start src))) = firstn n (skipn (start + i) src).
Proof.
  intros H. rewrite firstn_length in H.
  replace m with (i + (m - i)) at 1 by lia.
  rewrite <- firstn_skipn_comm. rewrite firstn_firstn.
  replace (Nat.min n (m - i)) with n by lia.
  rewrite skipn_skipn. reflexivity.
Qed.

Lemma frag_nth (src : str) start m i x :
  nth_error (firstn m (skipn start src)) i = Some x -> nth_error src (start + i) = Some x.
Proof.
  intros H. pose proof (nth_error_lt _ _ _ H) as L. rewrite firstn_length in L.
  rewrite firstn_nth_error in H by lia. rewrite nth_error_skipn in H. exact H.
Qed.

Lemma attrs_ok_sorted (src : str) start m : forall l lo,
  attrs_ok (firstn m (skipn start src)) (N.of_nat start) lo l ->
  attrs_sorted src (N.of_nat (start + lo)) (N.of_nat (start + length (firstn m (skipn start src)))) l.
Proof.
  induction l as [|a rest IH]; intros lo H; [exact I|].
  cbn [attrs_ok attrs_sorted] in *.
  destruct H as (i & n & H1 & H2 & H3 & H4 & H5 & H6 & H7).
  rewrite <- Nat2N.inj_add in H4, H5.
  unfold attr_wf, attr_end. rewrite H4, H5, H6.
  assert (Hname : firstn n (skipn i (firstn m (skipn start src))) =
                  sliceN src (N.of_nat (start + i)) (N.of_nat (start + (i + n)))).
  { rewrite sliceN_of_nat. rewrite frag_slice by lia.
    match goal with |- firstn ?a ?x = firstn ?b ?y => replace b with a by lia; reflexivity end. }
  destruct (a_value a) as [[[v vs] ve]|].
  - destruct H7 as (vl & V1 & V2 & V3 & V4 & V5 & V6 & V7 & V8).
    rewrite <- Nat2N.inj_add in V5, V6. subst vs ve.
    split.
    + split; [lia|]. split; [lia|]. split; [exact Hname|].
      split; [lia|]. split; [lia|]. split; [lia|]. split; [|exact V7].
      rewrite sliceN_of_nat. rewrite V4. rewrite frag_slice by lia.
      match goal with |- firstn ?a ?x = firstn ?b ?y => replace b with a by lia; reflexivity end.
    + apply IH in V8. exact V8.
  - split.
    + split; [lia|]. split; [lia|]. split; [exact Hname|lia].
    + apply IH in H7. exact H7.
Qed.

Lemma attrs_sorted_mono (src : str) : forall l lo hi hi' lo', (lo' <= lo)%N -> (hi <= hi')%N ->
  attrs_sorted src lo hi l -> attrs_sorted src lo' hi' l.
Proof.
  induction l as [|a rest IH]; intros lo hi hi' lo' Hlo Hhi H; [exact I|].
  cbn [attrs_sorted] in *. destruct H as [Hw Hr]. split.
  - unfold attr_wf in *. destruct Hw as (W1 & W2 & W3 & W4). repeat split; try lia; try assumption.
    destruct (a_value a) as [[[v vs] ve]|]; [|lia].
    destruct W4 as (X1 & X2 & X3 & X4 & X5). repeat split; try lia; assumption.
  - eapply IH; [| |exact Hr]; lia.
Qed.

(* where attributes() starts scanning: after `<name` when a tag name is given *)
Definition attr_scan_start (name : option str) : nat :=
  match name with
  | Some nm => match nm with [] => 0 | _ :: _ => S (length nm) end
  | None => 0
  end.

Theorem attributes_sorted_from (src : str) (name : option str) :
  attrs_sorted src (N.of_nat (attr_scan_start name)) (N.of_nat (length src)) (attributes src name).
Proof.
  unfold attributes.
  set (len := length src).
  assert (G : forall start stop,
             attrs_sorted src (N.of_nat start) (N.of_nat len)
               (attrs_go 0 (N.of_nat start) (firstn (stop - start) (skipn start src)))).
  { intros start stop.
    pose proof (attrs_ok_sorted src start (stop - start) _ 0 (attrs_go_ok _ 0 (N.of_nat start))) as H.
    assert (Hlen : start + length (firstn (stop - start) (skipn start src)) <= len \/
                   firstn (stop - start) (skipn start src) = []).
    { rewrite firstn_length, skipn_length. fold len.
      destruct (le_lt_dec start len); [left; lia|right].
      rewrite skipn_all2 by (fold len; lia). apply firstn_nil. }
    destruct Hlen as [Hlen|Hnil].
    - eapply attrs_sorted_mono; [| |exact H]; lia.
    - rewrite Hnil. exact I. }
  destruct name as [[|c nm]|]; cbn [attr_scan_start]; apply G.
Qed.

Theorem attributes_sorted (src : str) (name : option str) :
  attrs_sorted src 0 (N.of_nat (length src)) (attributes src name).
Proof. eapply attrs_sorted_mono; [| |apply attributes_sorted_from]; lia. Qed.

(* ------------------------------------------------------------------ no internal error in is_special *)
Lemma get_unquoted_value_ok v : value_shape v -> exists u, get_unquoted_value v = Ok u.
Proof.
  unfold get_unquoted_value, value_shape. destruct v as [|c r]; [tauto|]. intros H.
  set (v1 := if is_quote c then r else c :: r).
  assert (Hne : v1 <> []).
  { unfold v1. destruct (is_quote c); [apply H; reflexivity|discriminate]. }
  destruct (rev v1) as [|l t] eqn:E.
  - exfalso. apply Hne. apply (f_equal (@rev char)) in E. rewrite rev_involutive in E. exact E.
  - change (exists u, match rev v1 with
                      | [] => Internal IK_Index
                      | l0 :: _ => Ok (if is_quote l0 then removelast v1 else v1)
                      end = Ok u).
    rewrite E. eauto.
Qed.

Lemma get_attribute_value_ok s pos name : forall l lo,
  attrs_ok s pos lo l -> exists r, get_attribute_value l name = Ok r.
Proof.
  induction l as [|a rest IH]; intros lo H; cbn [get_attribute_value]; [eauto|].
  cbn [attrs_ok] in H. destruct H as (i & n & _ & _ & _ & _ & _ & _ & H7).
  destruct (str_eqb (a_name a) name).
  - destruct (a_value a) as [[[v vs] ve]|]; [|eauto].
    destruct H7 as (vl & _ & _ & _ & _ & _ & _ & V7 & _).
    destruct v as [|c r]; [eauto|].
    destruct (get_unquoted_value_ok _ V7) as [u ->]. simpl. eauto.
  - destruct (a_value a) as [[[v vs] ve]|].
    + destruct H7 as (vl & _ & _ & _ & _ & _ & _ & _ & V8). eapply IH; exact V8.
    + eapply IH; exact H7.
Qed.

Lemma is_special_ok special name frag : exists b, is_special special name frag = Ok b.
Proof.
  unfold is_special. destruct (assoc_str name special) as [[tv|]|]; eauto.
  unfold attributes.
  destruct (get_attribute_value_ok _ _ type_name _ 0 (attrs_go_ok (firstn (length frag - 0) (skipn 0 frag)) 0 (N.of_nat 0)))
    as [r ->].
  simpl. eauto.
Qed.

(* ------------------------------------------------------------------ events of one round *)
Definition rev_wf (s : str) (e : rev_) : Prop :=
  r_start e < r_end e /\ r_end e <= length s /\
  nth_error s (r_start e) = Some c_lt /\ nth_error s (r_end e - 1) = Some c_gt /\
  r_name e <> [] /\
  match r_type e with
  | EClose =>
      nth_error s (S (r_start e)) = Some c_slash /\
      firstn (length (r_name e)) (skipn (r_start e + 2) s) = r_name e /\
      r_start e + 2 + length (r_name e) < r_end e
  | _ =>
      firstn (length (r_name e)) (skipn (r_start e + 1) s) = r_name e /\
      r_start e + 1 + length (r_name e) < r_end e
  end.

Fixpoint rordered (lo : nat) (evs : list rev_) (hi : nat) : Prop :=
  match evs with
  | [] => lo <= hi
  | e :: r => lo <= r_start e /\ rordered (r_end e) r hi
  end.

Definition step_ok (s : str) (r : step_res) : Prop :=
  match r with
  | Step n evs => 1 <= n /\ Forall (rev_wf s) evs /\ rordered 0 evs n
  | StepErr _ _ => False
  end.

Lemma find_closing_ok pat : forall s off cs,
  find_closing pat s off = Some cs -> off <= cs /\ starts_with pat (skipn (cs - off) s) = true.
Proof.
  induction s as [|c r IH]; intros off cs H; cbn [find_closing] in H; [discriminate|].
  destruct (starts_with pat (c :: r)) eqn:E.
  - inversion H; subst. rewrite Nat.sub_diag. split; [lia|exact E].
  - apply IH in H. destruct H as [H1 H2]. split; [lia|].
    replace (cs - off) with (S (cs - S off)) by lia. exact H2.
Qed.

Lemma head_event_wf s o1 nl o3 ty :
  peek_is c_lt s = true ->
  ident (skipn o1 s) = Some nl ->
  o1 + nl <= o3 ->
  peek_is c_gt (skipn o3 s) = true ->
  match ty with
  | EClose => o1 = 2 /\ nth_error s 1 = Some c_slash
  | _ => o1 = 1
  end ->
  rev_wf s (mkRev (firstn nl (skipn o1 s)) ty 0 (S o3)).
Proof.
  intros Hlt Hid Hle Hgt Hty.
  pose proof (ident_bound _ _ Hid) as Hb. rewrite skipn_length in Hb.
  pose proof (peek_is_nth _ _ _ Hgt) as Hg. pose proof (nth_error_lt _ _ _ Hg) as Hl.
  assert (Hn : length (firstn nl (skipn o1 s)) = nl).
  { apply firstn_length_exact. rewrite skipn_length. lia. }
  unfold rev_wf. cbn [r_start r_end r_name r_type]. rewrite Hn.
  split; [lia|]. split; [lia|]. split.
  { destruct s; simpl in Hlt; [discriminate|]. apply N.eqb_eq in Hlt. subst. reflexivity. }
  split; [replace (S o3 - 1) with o3 by lia; exact Hg|]. split.
  { intros E. rewrite E in Hn. simpl in Hn. lia. }
  destruct ty.
  - subst o1. split; [reflexivity|lia].
  - destruct Hty as [-> Hs]. split; [exact Hs|]. split; [reflexivity|lia].
  - subst o1. split; [reflexivity|lia].
Qed.

Lemma tag_step_ok special s : peek_is c_lt s = true -> step_ok s (tag_step special s).
Proof.
  intros Hlt. unfold tag_step.
  set (close := peek_is c_slash (skipn 1 s)).
  set (o1 := if close then 2 else 1).
  assert (Ho1 : 1 <= o1) by (unfold o1; destruct close; lia).
  destruct (ident (skipn o1 s)) as [nl|] eqn:Hid.
  2:{ cbn. repeat split; [lia|constructor|lia]. }
  (* the tag type and the offset of the would-be `>` *)
  match goal with
  | |- step_ok s (let '(ty, o3) := ?X in _) =>
      assert (HX : exists ty o3, X = (ty, o3) /\ o1 + nl <= o3 /\
                   match ty with
                   | EClose => o1 = 2 /\ nth_error s 1 = Some c_slash
                   | _ => o1 = 1
                   end)
  end.
  { destruct close eqn:Ec.
    - exists EClose, (o1 + nl). split; [reflexivity|]. split; [lia|]. split; [reflexivity|].
      unfold close in Ec. apply peek_is_nth in Ec. exact Ec.
    - match goal with
      | |- context [peek_is c_slash (skipn ?osp s)] => destruct (peek_is c_slash (skipn osp s)); eexists _, _;
             (split; [reflexivity|]); (split; [lia|reflexivity])
      end. }
  destruct HX as (ty & o3 & -> & Hle & Hty).
  destruct (peek_is c_gt (skipn o3 s)) eqn:Hgt.
  2:{ cbn. repeat split; [lia|constructor|lia]. }
  pose proof (head_event_wf s o1 nl o3 ty Hlt Hid Hle Hgt Hty) as Hev.
  assert (Hplain : step_ok s (Step (S o3) [mkRev (firstn nl (skipn o1 s)) ty 0 (S o3)])).
  { cbn. repeat split; try lia. constructor; [exact Hev|constructor]. }
  destruct ty; try exact Hplain.
  destruct special as [|sp0 special']; [exact Hplain|].
  set (special := sp0 :: special').
  destruct (is_special_ok special (firstn nl (skipn o1 s))
              (firstn (S o3 - 1 - (nl + 1)) (skipn (nl + 1) s))) as [b ->].
  destruct b; [|exact Hplain].
  set (name := firstn nl (skipn o1 s)) in *.
  set (pat := c_lt :: c_slash :: name ++ [c_gt]).
  assert (Hpl : length pat = length name + 3).
  { unfold pat. cbn [length]. rewrite app_length. simpl. lia. }
  assert (Hp0 : nth_error pat 0 = Some c_lt) by reflexivity.
  assert (Hp1 : nth_error pat 1 = Some c_slash) by reflexivity.
  assert (Hp2 : nth_error pat (length name + 2) = Some c_gt).
  { unfold pat. replace (length name + 2) with (S (S (length name))) by lia.
    cbn [nth_error]. rewrite nth_error_app2 by lia. rewrite Nat.sub_diag. reflexivity. }
  assert (Hp3 : firstn (length name) (skipn 2 pat) = name).
  { unfold pat. cbn [skipn]. rewrite firstn_app, Nat.sub_diag, firstn_all. cbn [firstn]. apply app_nil_r. }
  clearbody pat.
  destruct (find_closing pat (skipn (S o3) s) (S o3)) as [cs|] eqn:Hf.
  - apply find_closing_ok in Hf. destruct Hf as [Hcs Hsw].
    rewrite skipn_skipn in Hsw. replace (S o3 + (cs - S o3)) with cs in Hsw by lia.
    pose proof (starts_with_length _ _ Hsw) as Hlen. rewrite skipn_length in Hlen.
    pose proof (starts_with_firstn _ _ Hsw) as Hfn.
    assert (Hnth : forall k x, nth_error pat k = Some x -> nth_error s (cs + k) = Some x).
    { intros k x Hk. pose proof (nth_error_lt _ _ _ Hk) as Lk.
      rewrite <- Hfn in Hk. rewrite firstn_nth_error in Hk by exact Lk.
      rewrite nth_error_skipn in Hk. exact Hk. }
    cbn [step_ok]. split; [lia|]. split.
    + constructor; [exact Hev|]. constructor; [|constructor].
      unfold rev_wf. cbn [r_start r_end r_name r_type].
      destruct Hev as (_ & _ & _ & _ & Hne & _). cbn [r_name] in Hne.
      split; [lia|]. split; [lia|]. split.
      { rewrite <- (Nat.add_0_r cs). apply Hnth. exact Hp0. }
      split.
      { replace (cs + length pat - 1) with (cs + (length name + 2)) by lia. apply Hnth. exact Hp2. }
      split; [exact Hne|]. split.
      { replace (S cs) with (cs + 1) by lia. apply Hnth. exact Hp1. }
      split; [|lia].
      rewrite <- Hp3 at 2. rewrite <- Hfn.
      replace (length pat) with (2 + (length name + 1)) by lia.
      rewrite <- firstn_skipn_comm. rewrite firstn_firstn.
      replace (Nat.min (length name) (length name + 1)) with (length name) by lia.
      rewrite skipn_skipn. reflexivity.
    + cbn [rordered r_start r_end]. repeat split; lia.
  - pose proof Hev as (_ & H2 & _). cbn [r_end] in H2.
    cbn [step_ok]. split; [lia|]. split; [constructor; [exact Hev|constructor]|].
    cbn [rordered r_start r_end]. split; lia.
Qed.

Lemma section_body_ge suffix : forall s off, off <= section_body suffix s off.
Proof.
  induction s as [|c r IH]; intros off; cbn [section_body]; [lia|].
  destruct (starts_with suffix (c :: r)); [lia|]. specialize (IH (S off)). lia.
Qed.

Lemma pi_body_ge : forall s skip off, off <= pi_body skip s off.
Proof.
  induction s as [|c r IH]; intros skip off; cbn [pi_body]; [lia|].
  destruct skip as [|k]; [|specialize (IH k (S off)); lia].
  destruct (starts_with pi_end (c :: r)); [lia|].
  destruct (eat_quoted (c :: r)) as [n|]; [specialize (IH (pred n) (S off))|specialize (IH 0 (S off))]; lia.
Qed.

Lemma consume_section_pos prefix suffix s n :
  1 <= length prefix -> consume_section prefix suffix s = Some n -> 1 <= n.
Proof.
  unfold consume_section. intros Hp. destruct (starts_with prefix s); [|discriminate].
  intros H; inversion H; subst.
  pose proof (section_body_ge suffix (skipn (length prefix) s) (length prefix)). lia.
Qed.

Lemma step_is_ok special s : s <> [] -> step_ok s (step special s).
Proof.
  intros Hs. unfold step.
  destruct (orelse (cdata s) (fun _ => orelse (comment s) (fun _ => processing_instruction s))) as [n|] eqn:E.
  - cbn [step_ok rordered]. split; [|split; [constructor|lia]].
    apply orelse_some in E. destruct E as [E|[_ E]].
    { unfold cdata in E. eapply consume_section_pos; [|exact E]. vm_compute. lia. }
    apply orelse_some in E. destruct E as [E|[_ E]].
    { unfold comment in E. eapply consume_section_pos; [|exact E]. vm_compute. lia. }
    unfold processing_instruction in E. destruct (starts_with pi_start s); [|discriminate].
    assert (En : n = pi_body 0 (skipn (length pi_start) s) (length pi_start)) by congruence.
    pose proof (pi_body_ge (skipn (length pi_start) s) 0 (length pi_start)) as G.
    assert (1 <= length pi_start) by (vm_compute; lia). lia.
  - destruct (peek_is c_lt s) eqn:Hlt.
    + apply tag_step_ok. exact Hlt.
    + cbn [step_ok rordered]. split; [lia|]. split; [constructor|lia].
Qed.

(* ------------------------------------------------------------------ the whole scan *)
(* [events_ok s pos lo evs]: the events lie in [s] (head at absolute offset [pos])
   at relative offsets >= [lo], in order, without overlap *)
Fixpoint events_ok (s : str) (pos : N) (lo : nat) (evs : list event) : Prop :=
  match evs with
  | [] => True
  | e :: rest => exists re, e = abs_ev pos re /\ lo <= r_start re /\ rev_wf s re /\
                            events_ok s pos (r_end re) rest
  end.

Lemma events_ok_weaken s pos : forall l lo lo', lo' <= lo -> events_ok s pos lo l -> events_ok s pos lo' l.
Proof.
  destruct l as [|e rest]; intros lo lo' Hle H; [exact I|].
  cbn [events_ok] in *. destruct H as (re & H1 & H2 & H3). exists re. split; [exact H1|]. split; [lia|exact H3].
Qed.

Lemma rev_wf_lift c r e :
  rev_wf r e -> rev_wf (c :: r) (mkRev (r_name e) (r_type e) (S (r_start e)) (S (r_end e))).
Proof.
  unfold rev_wf. cbn [r_name r_type r_start r_end length].
  intros (H1 & H2 & H3 & H4 & H5 & H6).
  split; [lia|]. split; [lia|]. split; [exact H3|]. split.
  { replace (S (r_end e) - 1) with (S (r_end e - 1)) by lia. exact H4. }
  split; [exact H5|].
  destruct (r_type e); cbn [nth_error skipn Nat.add]; repeat split; try lia; try tauto;
    destruct H6 as (? & ?); try tauto.
Qed.

Lemma events_ok_lift c r pos : forall l lo,
  events_ok r (pos + 1)%N lo l -> events_ok (c :: r) pos (S lo) l.
Proof.
  induction l as [|e rest IH]; intros lo H; [exact I|].
  cbn [events_ok] in *. destruct H as (re & H1 & H2 & H3 & H4).
  exists (mkRev (r_name re) (r_type re) (S (r_start re)) (S (r_end re))).
  split.
  { subst e. unfold abs_ev. cbn [r_name r_type r_start r_end]. f_equal; lia. }
  split; [cbn; lia|]. split; [apply rev_wf_lift; exact H3|].
  cbn [r_end]. apply IH. exact H4.
Qed.

Lemma events_ok_app s pos l : forall evs lo hi,
  Forall (rev_wf s) evs -> rordered lo evs hi -> events_ok s pos hi l ->
  events_ok s pos lo (map (abs_ev pos) evs ++ l).
Proof.
  induction evs as [|e evs IH]; intros lo hi HF Ho Hl; cbn [map app rordered] in *.
  - eapply events_ok_weaken; [|exact Hl]. exact Ho.
  - inversion HF; subst. destruct Ho as [Ho1 Ho2].
    cbn [events_ok]. exists e. split; [reflexivity|]. split; [exact Ho1|]. split; [assumption|].
    eapply IH; eassumption.
Qed.

Lemma scan_go_ok special : forall s skip pos,
  events_ok s pos skip (fst (scan_go special skip pos s)) /\ snd (scan_go special skip pos s) = None.
Proof.
  induction s as [|c r IH]; intros skip pos; cbn [scan_go]; [split; [exact I|reflexivity]|].
  destruct skip as [|k].
  - pose proof (step_is_ok special (c :: r)) as Hst.
    destruct (step special (c :: r)) as [n evs|evs k].
    + destruct Hst as (Hn & HF & Ho); [discriminate|].
      specialize (IH (pred n) (pos + 1)%N).
      destruct (scan_go special (pred n) (pos + 1)%N r) as [l err]. cbn [fst snd] in *.
      destruct IH as [IH1 IH2]. split; [|exact IH2].
      eapply events_ok_app; [exact HF|exact Ho|].
      replace n with (S (pred n)) at 1 by lia. apply events_ok_lift. exact IH1.
    + exfalso. apply Hst. discriminate.
  - specialize (IH k (pos + 1)%N). destruct IH as [IH1 IH2]. split; [|exact IH2].
    apply events_ok_lift. exact IH1.
Qed.

(* ------------------------------------------------------------------ user-facing statement *)
(* the tag range runs from `<` to `>` inside the source and carries the reported
   name right after `<` (open, self-closing) or `</` (closing) *)
Definition event_wf (s : str) (e : event) : Prop :=
  (ev_start e < ev_end e)%N /\ (ev_end e <= N.of_nat (length s))%N /\
  nth_error s (N.to_nat (ev_start e)) = Some c_lt /\
  nth_error s (N.to_nat (ev_end e) - 1) = Some c_gt /\
  ev_name e <> [] /\
  match ev_type e with
  | EClose =>
      nth_error s (N.to_nat (ev_start e) + 1) = Some c_slash /\
      sliceN s (ev_start e + 2) (ev_start e + 2 + N.of_nat (length (ev_name e))) = ev_name e /\
      (ev_start e + 2 + N.of_nat (length (ev_name e)) < ev_end e)%N
  | _ =>
      sliceN s (ev_start e + 1) (ev_start e + 1 + N.of_nat (length (ev_name e))) = ev_name e /\
      (ev_start e + 1 + N.of_nat (length (ev_name e)) < ev_end e)%N
  end.

(* increasing, non-overlapping *)
Fixpoint events_ordered (lo : N) (evs : list event) : Prop :=
  match evs with
  | [] => True
  | e :: rest => (lo <= ev_start e)%N /\ (ev_start e < ev_end e)%N /\ events_ordered (ev_end e) rest
  end.

Lemma sliceN_nat (s : str) (a b : N) k n :
  N.to_nat a = k -> N.to_nat (b - a) = n -> sliceN s a b = firstn n (skipn k s).
Proof. intros <- <-. reflexivity. Qed.

Lemma rev_event_wf s re : rev_wf s re -> event_wf s (abs_ev 0 re).
Proof.
  unfold rev_wf, event_wf, abs_ev. cbn [ev_start ev_end ev_name ev_type].
  intros (H1 & H2 & H3 & H4 & H5 & H6).
  rewrite !N.add_0_l, !Nat2N.id.
  split; [lia|]. split; [lia|]. split; [exact H3|]. split; [exact H4|]. split; [exact H5|].
  destruct (r_type re).
  - destruct H6 as [H6 H7]. split; [|lia].
    rewrite (sliceN_nat s _ _ (r_start re + 1) (length (r_name re))) by lia. exact H6.
  - destruct H6 as (H6 & H7 & H8). split; [rewrite Nat.add_1_r; exact H6|]. split; [|lia].
    rewrite (sliceN_nat s _ _ (r_start re + 2) (length (r_name re))) by lia. exact H7.
  - destruct H6 as [H6 H7]. split; [|lia].
    rewrite (sliceN_nat s _ _ (r_start re + 1) (length (r_name re))) by lia. exact H6.
Qed.

Lemma events_ok_final s : forall evs lo,
  events_ok s 0 lo evs -> Forall (event_wf s) evs /\ events_ordered (N.of_nat lo) evs.
Proof.
  induction evs as [|e rest IH]; intros lo H; [split; [constructor|exact I]|].
  cbn [events_ok] in H. destruct H as (re & -> & H2 & H3 & H4).
  apply IH in H4. destruct H4 as [H4 H5].
  split; [constructor; [apply rev_event_wf; exact H3|exact H4]|].
  cbn [events_ordered]. unfold abs_ev at 1 2 3. cbn [ev_start ev_end].
  destruct H3 as (L & _). split; [lia|]. split; [lia|].
  unfold abs_ev. cbn [ev_end]. rewrite N.add_0_l. exact H5.
Qed.

Theorem scan_events_wf special s :
  Forall (event_wf s) (fst (scan special s)) /\ events_ordered 0 (fst (scan special s)).
Proof.
  unfold scan. destruct (scan_go_ok special s 0 0%N) as [H _].
  apply events_ok_final in H. exact H.
Qed.

Theorem scan_no_internal_error special s : snd (scan special s) = None.
Proof. unfold scan. destruct (scan_go_ok special s 0 0%N) as [_ H]. exact H. Qed.
