(* C17 (CSS half) on TEXT: get_css_section run on the text of any sheet of the C10 level-B grammar
   (model/CssSheet.v) returns the innermost rule OF THE SHEET containing the position, and -- on
   request -- the direct declarations of that rule's body with the offsets of the body's own layout.

   SPEC (no scanner, no stack):
     section_item pos p it     the rule written by [it] (first character at offset p) or one of its
                               descendants that contains pos, children before parents, bounds
                               included: (start, end, body start, body end) and the rule's body as
                               written (its items and the gap in front of `}`)
     props_spec frag from (lay_items 0 body) None
                               (model/CssTreeActions.v) the direct declarations of the body, laid out
                               from the grammar: name, value, value tokens = split_value of the value
                               text, before = end of the previous sibling / body start, after = just
                               behind the `;`  *)
From Coq Require Import ZArith List Bool Lia ZifyBool.
From Emmet Require Import lib.Base model.CssScan model.CssMatch model.CssParse model.CssActions
     model.CssTree model.CssTreeActions model.CssSheet
     proofs.CssScanProofs proofs.CssMatchProofs proofs.CssTreeProofs proofs.CssActionsProofs proofs.CssRender.
Import ListNotations.
Local Open Scope Z_scope.

(* ================================================================== SPEC *)
Definition rule_hit := ((Z * Z * Z * Z) * (list item * gap))%type.

Section Section_at.
Variable pos : Z.
Fixpoint section_item (p : Z) (it : item) {struct it} : option rule_hit :=
  match it with
  | SDecl _ _ _ _ _ _ => None
  | SRule g1 sel g2 body g3 =>
      let ss := p + zlen (render_gap g1) in
      let brace := ss + zlen (render_sel sel) + zlen (render_gap g2) in
      let close := brace + 1 + zlen (render_items body) + zlen (render_gap g3) in
      match (fix go (p : Z) (l : list item) {struct l} : option rule_hit :=
               match l with
               | [] => None
               | x :: r => match section_item p x with Some h => Some h | None => go (p + ilen x) r end
               end) (brace + 1) body with
      | Some h => Some h
      | None =>
          if (ss <=? pos) && (pos <=? close + 1)
          then Some ((ss, close + 1, brace + 1, close), (body, g3)) else None
      end
  end.
Fixpoint section_items (p : Z) (l : list item) : option rule_hit :=
  match l with
  | [] => None
  | x :: r => match section_item p x with Some h => Some h | None => section_items (p + ilen x) r end
  end.
End Section_at.

(* what get_css_section must answer on the text of the sheet *)
Definition section_of_hit (properties : bool) (h : rule_hit) : css_section :=
  let '((a, b, ba, bb), (body, g3)) := h in
  mkCS a b ba bb
       (if properties
        then Some (props_spec (render_items body ++ render_gap g3) ba (lay_items 0 body) None)
        else None).

(* ================================================================== proofs *)
Lemma section_item_rule p g1 sel g2 body g3 pos :
  section_item pos p (SRule g1 sel g2 body g3) =
  let ss := p + zlen (render_gap g1) in
  let brace := ss + zlen (render_sel sel) + zlen (render_gap g2) in
  let close := brace + 1 + zlen (render_items body) + zlen (render_gap g3) in
  match section_items pos (brace + 1) body with
  | Some h => Some h
  | None =>
      if (ss <=? pos) && (pos <=? close + 1)
      then Some ((ss, close + 1, brace + 1, close), (body, g3)) else None
  end.
Proof. reflexivity. Qed.

(* (A) the ranges are those of the layout tree *)
Definition sec_stmt (pos : Z) (it : item) : Prop :=
  forall p, option_map fst (section_item pos p it) = section_node (lay_item p it) pos.

Lemma sec_items pos body : Forall (sec_stmt pos) body ->
  forall p, option_map fst (section_items pos p body) = first_some (fun n => section_node n pos) (lay_items p body).
Proof.
  induction 1 as [|x r Hx Hr IH]; intros p; [reflexivity|].
  cbn [section_items lay_items first_some]. rewrite <- (Hx p).
  destruct (section_item pos p x) as [h|]; [reflexivity|]. cbn [option_map]. apply IH.
Qed.

Lemma sec_item pos : forall it, sec_stmt pos it.
Proof.
  induction it as [g1 name g2 g3 value g4|g1 sel g2 body g3 IH] using item_ind'; intros p.
  - reflexivity.
  - rewrite section_item_rule, lay_item_rule. cbv zeta. cbn [section_node].
    rewrite <- (sec_items pos body IH).
    destruct (section_items pos (p + zlen (render_gap g1) + zlen (render_sel sel) + zlen (render_gap g2) + 1) body) as [h|];
      [reflexivity|]. cbn [option_map].
    destruct ((p + zlen (render_gap g1) <=? pos) &&
              (pos <=? p + zlen (render_gap g1) + zlen (render_sel sel) + zlen (render_gap g2) + 1 +
                       zlen (render_items body) + zlen (render_gap g3) + 1)); reflexivity.
Qed.

(* (B) the body range slices the text to the body as written *)
Lemma py_slice_mid (A M B : str) a b :
  a = zlen A -> b = a + zlen M -> py_slice (A ++ M ++ B) a b = M.
Proof.
  intros -> ->. unfold py_slice, py_slice_bound. pose proof (zlen_nonneg A). pose proof (zlen_nonneg M).
  pose proof (zlen_nonneg B).
  assert (E : Z.of_nat (length (A ++ M ++ B)) = zlen A + zlen M + zlen B)
    by (change (Z.of_nat (length (A ++ M ++ B))) with (zlen (A ++ M ++ B)); rewrite !zlen_app; lia).
  rewrite E.
  assert (E1 : (zlen A <? 0) = false) by lia. assert (E2 : (zlen A + zlen M <? 0) = false) by lia.
  rewrite E1, E2.
  replace (Z.to_nat (Z.min (zlen A + zlen M) (zlen A + zlen M + zlen B) - Z.min (zlen A) (zlen A + zlen M + zlen B)))
    with (length M) by (unfold zlen in *; lia).
  replace (Z.to_nat (Z.min (zlen A) (zlen A + zlen M + zlen B))) with (length A) by (unfold zlen in *; lia).
  rewrite skipn_app, skipn_all, Nat.sub_diag. cbn [app skipn].
  rewrite firstn_app, firstn_all, Nat.sub_diag. cbn [firstn]. apply app_nil_r.
Qed.

Definition hit_ok (text : str) (h : rule_hit) : Prop :=
  let '((a, b, ba, bb), (body, g3)) := h in
  py_slice text ba bb = render_items body ++ render_gap g3 /\
  forallb wf_item body = true /\ gap_ok g3 = true.

Definition body_stmt (pos : Z) (it : item) : Prop :=
  forall p h pre post, wf_item it = true -> section_item pos p it = Some h -> p = zlen pre ->
    hit_ok (pre ++ render_item it ++ post) h.

Lemma body_items pos l : Forall (body_stmt pos) l ->
  forall p h pre post, forallb wf_item l = true -> section_items pos p l = Some h -> p = zlen pre ->
    hit_ok (pre ++ render_items l ++ post) h.
Proof.
  induction 1 as [|x r Hx Hr IH]; intros p h pre post Hwf Hs Hp; [discriminate|].
  cbn [forallb] in Hwf. apply andb_true_iff in Hwf. destruct Hwf as [W1 W2].
  cbn [section_items] in Hs. unfold render_items. cbn [flat_map]. fold (render_items r). rewrite <- app_assoc.
  destruct (section_item pos p x) as [h'|] eqn:E.
  - inversion Hs; subst h'. eapply Hx; eassumption.
  - rewrite (app_assoc pre). eapply IH; [exact W2|exact Hs|]. rewrite zlen_app. unfold ilen. lia.
Qed.

Lemma body_item pos : forall it, body_stmt pos it.
Proof.
  induction it as [g1 name g2 g3 value g4|g1 sel g2 body g3 IH] using item_ind'; intros p h pre post Hwf Hs Hp.
  - discriminate.
  - rewrite section_item_rule in Hs. cbv zeta in Hs.
    cbn [wf_item] in Hwf.
    repeat match type of Hwf with (_ && _) = true => apply andb_true_iff in Hwf; destruct Hwf as [Hwf ?] end.
    rename Hwf into Hg1, H2 into Hsel, H1 into Hg2, H0 into Hb, H into Hg3.
    cbn [render_item]. fold (render_items body).
    set (head := render_gap g1 ++ render_sel sel ++ render_gap g2 ++ [c_lbrace]).
    assert (Etext : pre ++ (render_gap g1 ++ render_sel sel ++ render_gap g2 ++ c_lbrace ::
                             render_items body ++ render_gap g3 ++ [c_rbrace]) ++ post =
                    (pre ++ head) ++ render_items body ++ (render_gap g3 ++ c_rbrace :: post)).
    { unfold head. repeat (rewrite <- app_assoc || rewrite <- app_comm_cons). reflexivity. }
    assert (Ehead : zlen (pre ++ head) = p + zlen (render_gap g1) + zlen (render_sel sel) + zlen (render_gap g2) + 1).
    { unfold head. rewrite !zlen_app, zlen_cons, zlen_nil. lia. }
    destruct (section_items pos (p + zlen (render_gap g1) + zlen (render_sel sel) + zlen (render_gap g2) + 1) body)
      as [h'|] eqn:E.
    + inversion Hs; subst h'. rewrite Etext. eapply (body_items pos body IH); [exact Hb|exact E|].
      rewrite Ehead. reflexivity.
    + destruct ((p + zlen (render_gap g1) <=? pos) &&
                (pos <=? p + zlen (render_gap g1) + zlen (render_sel sel) + zlen (render_gap g2) + 1 +
                         zlen (render_items body) + zlen (render_gap g3) + 1)); [|discriminate].
      inversion Hs; subst h. unfold hit_ok. split; [|split; assumption].
      replace ((pre ++ head) ++ render_items body ++ render_gap g3 ++ c_rbrace :: post)
        with ((pre ++ head) ++ (render_items body ++ render_gap g3) ++ (c_rbrace :: post)) in Etext
        by (rewrite <- !app_assoc; reflexivity).
      rewrite Etext. apply py_slice_mid; [rewrite Ehead; reflexivity|].
      rewrite zlen_app. lia.
Qed.

(* ================================================================== the theorem *)
Theorem css_section_text (sh : sheet) (pos : Z) (properties : bool) :
  wf_sheet sh = true ->
  get_css_section (render sh) pos properties =
  option_map (section_of_hit properties) (section_items pos 0 (sh_items sh)).
Proof.
  intros Hwf. unfold get_css_section, section_events.
  rewrite (scan_render sh Hwf). unfold events.
  rewrite (section_tree _ _ pos (tree_wf sh)). unfold section_forest, tree.
  assert (Hall : Forall (sec_stmt pos) (sh_items sh)) by (apply Forall_forall; intros x _; apply sec_item).
  rewrite <- (sec_items pos _ Hall 0).
  destruct (section_items pos 0 (sh_items sh)) as [h|] eqn:E; [|reflexivity].
  cbn [option_map].
  unfold wf_sheet in Hwf. apply andb_true_iff in Hwf. destruct Hwf as [Hi Hg].
  assert (Hall' : Forall (body_stmt pos) (sh_items sh)) by (apply Forall_forall; intros x _; apply body_item).
  pose proof (body_items pos _ Hall' 0 h [] (render_gap (sh_tail sh)) Hi E eq_refl) as Hh.
  cbn [app] in Hh. fold (render sh) in Hh.
  destruct h as [[[[a b] ba] bb] [body g3]]. cbn [fst]. unfold section_of_hit.
  destruct properties; [|reflexivity].
  f_equal. f_equal. f_equal.
  destruct Hh as (Hslice & Hb & Hg3).
  unfold parse_properties. rewrite Hslice.
  change (render_items body ++ render_gap g3) with (render (mkSheet body g3)).
  assert (Hwf' : wf_sheet (mkSheet body g3) = true) by (unfold wf_sheet; cbn [sh_items sh_tail]; rewrite Hb, Hg3; reflexivity).
  rewrite (scan_render _ Hwf'). unfold events, tree. cbn [sh_items].
  pose proof (tree_wf (mkSheet body g3)) as Hseq. unfold wf_forest, tree in Hseq. cbn [sh_items] in Hseq.
  pose proof (props_tree (render (mkSheet body g3)) ba _ (lay_items 0 body) None Hseq) as Hp.
  unfold body_events in Hp. rewrite app_nil_r in Hp. exact Hp.
Qed.

(* the ranges of the rule found are those of the layout tree of the sheet (Level A spec) *)
Theorem section_items_tree (sh : sheet) (pos : Z) :
  option_map fst (section_items pos 0 (sh_items sh)) = section_forest (tree sh) pos.
Proof.
  unfold section_forest, tree. apply sec_items. apply Forall_forall. intros x _. apply sec_item.
Qed.

(* select_item_css on the text of the sheet: the next / previous selector or declaration of the
   sheet's layout tree with its full, value and value-token ranges (Level A spec next_forest / prev_forest) *)
Theorem select_item_css_text (sh : sheet) (pos : Z) (is_prev : bool) :
  wf_sheet sh = true ->
  select_item_css (render sh) pos is_prev =
  if is_prev then prev_forest (render sh) (tree sh) pos else next_forest (render sh) (tree sh) pos.
Proof.
  intros Hwf. unfold select_item_css, select_previous_item, select_next_item.
  rewrite (scan_render sh Hwf). unfold events. destruct is_prev.
  - apply (prev_tree _ _ _ _ (tree_wf sh)).
  - apply (next_tree _ _ _ _ (tree_wf sh)).
Qed.

(* ================================================================== the declarations as written *)
(* the name and value ranges of the direct declarations of a laid-out body / the texts written there *)
Fixpoint decl_ranges (l : list node) : list (range * range) :=
  match l with
  | [] => []
  | Decl ns ne _ vs ve _ :: r => ((ns, ne), (vs, ve)) :: decl_ranges r
  | Rule _ _ _ _ _ :: r => decl_ranges r
  end.
Fixpoint decl_texts (l : list item) : list (str * str) :=
  match l with
  | [] => []
  | SDecl _ name _ _ value _ :: r => (render_lexs name, render_lexs value) :: decl_texts r
  | SRule _ _ _ _ _ :: r => decl_texts r
  end.
Definition slice2 (text : str) (rr : range * range) : str * str :=
  (py_slice text (fst (fst rr)) (snd (fst rr)), py_slice text (fst (snd rr)) (snd (snd rr))).
Definition shift2 (d : Z) (rr : range * range) : range * range :=
  ((d + fst (fst rr), d + snd (fst rr)), (d + fst (snd rr), d + snd (snd rr))).

(* the properties of props_spec carry exactly those ranges, shifted to the body start *)
Lemma props_items_ranges frag from : forall l before,
  map (fun cp => (cp_name cp, cp_value cp)) (fst (props_items frag from before l)) = map (shift2 from) (decl_ranges l).
Proof.
  induction l as [|n r IH]; intros before; [reflexivity|].
  destruct n as [ns ne colon vs ve semi|ss se brace ch close]; cbn [props_items decl_ranges].
  - specialize (IH (from + semi + 1)). destruct (props_items frag from (from + semi + 1) r) as [ps b].
    cbn [fst map] in *. rewrite IH. reflexivity.
  - apply IH.
Qed.

Theorem props_spec_ranges frag from l :
  map (fun cp => (cp_name cp, cp_value cp)) (props_spec frag from l None) = map (shift2 from) (decl_ranges l).
Proof.
  unfold props_spec. pose proof (props_items_ranges frag from l from) as H.
  destruct (props_items frag from from l) as [ps b]. cbn [fst] in H. rewrite app_nil_r. exact H.
Qed.

(* in the text of an item list laid out at the offset of its first character, the ranges of the direct
   declarations slice to the names and values as written *)
Theorem decl_ranges_text : forall l (pre post : str),
  map (slice2 (pre ++ render_items l ++ post)) (decl_ranges (lay_items (zlen pre) l)) = decl_texts l.
Proof.
  induction l as [|x r IH]; intros pre post; [reflexivity|].
  cbn [lay_items]. unfold render_items. cbn [flat_map]. fold (render_items r).
  assert (Etail : map (slice2 (pre ++ (render_item x ++ render_items r) ++ post))
                      (decl_ranges (lay_items (zlen pre + ilen x) r)) = decl_texts r).
  { rewrite <- app_assoc. rewrite (app_assoc pre).
    replace (zlen pre + ilen x) with (zlen (pre ++ render_item x)) by (rewrite zlen_app; reflexivity).
    apply IH. }
  destruct x as [g1 name g2 g3 value g4|g1 sel g2 body g3].
  - cbn [lay_item]. cbv zeta. cbn [decl_ranges decl_texts map]. rewrite Etail. f_equal.
    unfold slice2. cbn [fst snd render_item].
    f_equal.
    + replace (pre ++ ((render_gap g1 ++ render_lexs name ++ render_gap g2 ++ c_colon ::
                         render_gap g3 ++ render_lexs value ++ render_gap g4 ++ [c_semi]) ++ render_items r) ++ post)
        with ((pre ++ render_gap g1) ++ render_lexs name ++
              (render_gap g2 ++ c_colon :: render_gap g3 ++ render_lexs value ++ render_gap g4 ++ [c_semi]) ++ render_items r ++ post)
        by (repeat (rewrite <- app_assoc || rewrite <- app_comm_cons); reflexivity).
      apply py_slice_mid; rewrite ?zlen_app; lia.
    + replace (pre ++ ((render_gap g1 ++ render_lexs name ++ render_gap g2 ++ c_colon ::
                         render_gap g3 ++ render_lexs value ++ render_gap g4 ++ [c_semi]) ++ render_items r) ++ post)
        with ((pre ++ render_gap g1 ++ render_lexs name ++ render_gap g2 ++ c_colon :: render_gap g3) ++ render_lexs value ++
              (render_gap g4 ++ [c_semi]) ++ render_items r ++ post)
        by (repeat (rewrite <- app_assoc || rewrite <- app_comm_cons); reflexivity).
      apply py_slice_mid; rewrite ?zlen_app, ?zlen_cons, ?zlen_app; lia.
  - rewrite lay_item_rule. cbv zeta. cbn [decl_ranges decl_texts]. exact Etail.
Qed.

Theorem css_properties_text (sh : sheet) (pos : Z) :
  wf_sheet sh = true ->
  get_css_section (render sh) pos true =
  match section_items pos 0 (sh_items sh) with
  | None => None
  | Some ((a, b, ba, bb), (body, g3)) =>
      Some (mkCS a b ba bb (Some (props_spec (render_items body ++ render_gap g3) ba (lay_items 0 body) None)))
  end.
Proof.
  intros H. rewrite (css_section_text sh pos true H).
  destruct (section_items pos 0 (sh_items sh)) as [[[[[a b] ba] bb] [body g3]]|]; reflexivity.
Qed.
