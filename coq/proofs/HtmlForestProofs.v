(* C09, Level A: over the events of ANY element forest (no bound on size or depth)
   match / balanced_outward / balanced_inward compute exactly the enclosing
   elements, innermost first, resp. the element at the position followed by its
   chain of first children. *)
From Coq Require Import List NArith ZArith Bool Lia ZifyBool.
From Emmet Require Import lib.Base lib.HtmlLib gen.GenHtml model.HtmlScan model.HtmlMatch
  proofs.HtmlScanProofs proofs.HtmlFoldProofs.
Import ListNotations.
Local Open Scope N_scope.

(* ================================================================== SPEC *)
(* an element with the ranges of its tags; [Single _ true] is written `<x/>`,
   [Single _ false] is a void element written `<x>` *)
Inductive node :=
| Pair (name : str) (os oe cs ce : N) (kids : list node)
| Single (name : str) (selfclosed : bool) (s e : N).

Definition node_start (n : node) : N := match n with Pair _ os _ _ _ _ => os | Single _ _ s _ => s end.
Definition node_end (n : node) : N := match n with Pair _ _ _ _ ce _ => ce | Single _ _ _ e => e end.

(* what the scanner reports for the element, in document order *)
Fixpoint events_node (n : node) : list event :=
  match n with
  | Single name sc s e => [mkEv name (if sc then ESelfClose else EOpen) s e]
  | Pair name os oe cs ce kids =>
      mkEv name EOpen os oe :: flat_map events_node kids ++ [mkEv name EClose cs ce]
  end.
Definition events_forest (f : list node) : list event := flat_map events_node f.

(* closing order: children before their parent *)
Fixpoint postorder_node (n : node) : list node :=
  match n with
  | Single _ _ _ _ => [n]
  | Pair _ _ _ _ _ kids => flat_map postorder_node kids ++ [n]
  end.
Definition postorder (f : list node) : list node := flat_map postorder_node f.

(* the BalancedTag of an element *)
Definition entry (n : node) : balanced :=
  match n with
  | Pair name os oe cs ce _ => mkBal name (os, oe) (Some (cs, ce))
  | Single name _ s e => mkBal name (s, e) None
  end.

(* the element's range strictly contains the position *)
Definition encloses (pos : Z) (n : node) : bool := strictly_in (node_start n) pos (node_end n).

(* every enclosing element; closing order lists inner elements before outer ones *)
Definition enclosing (f : list node) (pos : Z) : list balanced :=
  map entry (filter (encloses pos) (postorder f)).
Definition innermost (f : list node) (pos : Z) : option balanced := hd_error (enclosing f pos).

(* "the element at the position" as the code defines it: bounds inclusive for
   pairs, strict for single tags; the first such element in closing order *)
Definition at_pos (pos : Z) (n : node) : bool :=
  match n with
  | Pair _ os _ _ ce _ => weakly_in os pos ce
  | Single _ _ s e => strictly_in s pos e
  end.
Fixpoint first_child_chain (n : node) : list balanced :=
  match n with
  | Pair _ _ _ _ _ (k :: _) => entry k :: first_child_chain k
  | _ => []
  end.
Definition inward_spec (f : list node) (pos : Z) : list balanced :=
  match find (at_pos pos) (postorder f) with
  | Some n => entry n :: first_child_chain n
  | None => []
  end.

(* void names only as single tags (HTML mode); a single tag written `<x>` is void *)
Fixpoint names_ok (o : opts) (n : node) : bool :=
  match n with
  | Single name sc _ _ => sc || is_self_close o name
  | Pair name _ _ _ _ kids => negb (is_self_close o name) && forallb (names_ok o) kids
  end.

(* ranges well nested and ordered inside [lo, hi] *)
Fixpoint node_wf (lo hi : N) (n : node) : bool :=
  match n with
  | Single _ _ s e => (lo <=? s) && (s <? e) && (e <=? hi)
  | Pair _ os oe cs ce kids =>
      (lo <=? os) && (os <? oe) && (oe <=? cs) && (cs <? ce) && (ce <=? hi) &&
      (fix go (lo : N) (l : list node) : bool :=
         match l with
         | [] => true
         | k :: r => node_wf lo cs k && go (node_end k) r
         end) oe kids
  end.
Fixpoint forest_wf (lo hi : N) (f : list node) : bool :=
  match f with
  | [] => true
  | k :: r => node_wf lo hi k && forest_wf (node_end k) hi r
  end.

(* ================================================================== induction principle *)
Section NodeInd.
  Variable P : node -> Prop.
  Variable Q : list node -> Prop.
  Hypothesis HS : forall name sc s e, P (Single name sc s e).
  Hypothesis HP : forall name os oe cs ce kids, Q kids -> P (Pair name os oe cs ce kids).
  Hypothesis HQ0 : Q [].
  Hypothesis HQ1 : forall n l, P n -> Q l -> Q (n :: l).
  Fixpoint node_ind2 (n : node) : P n :=
    match n with
    | Single name sc s e => HS name sc s e
    | Pair name os oe cs ce kids =>
        HP name os oe cs ce kids
           ((fix go (l : list node) : Q l :=
               match l with
               | [] => HQ0
               | x :: r => HQ1 x r (node_ind2 x) (go r)
               end) kids)
    end.
  Definition forest_ind2 : forall l, Q l :=
    fix go (l : list node) : Q l :=
      match l with
      | [] => HQ0
      | x :: r => HQ1 x r (node_ind2 x) (go r)
      end.
End NodeInd.

(* ================================================================== balanced_outward *)
Section Outward.
  Variable o : opts.
  Variable pos : Z.

  Definition out_node_stmt (n : node) : Prop :=
    forall stack rest, names_ok o n = true ->
      outward_go o pos stack (events_node n ++ rest) =
      map entry (filter (encloses pos) (postorder_node n)) ++ outward_go o pos stack rest.
  Definition out_forest_stmt (f : list node) : Prop :=
    forall stack rest, forallb (names_ok o) f = true ->
      outward_go o pos stack (events_forest f ++ rest) =
      map entry (filter (encloses pos) (postorder f)) ++ outward_go o pos stack rest.

  Lemma outward_node_forest : (forall n, out_node_stmt n) /\ (forall f, out_forest_stmt f).
  Proof.
    assert (HS : forall name sc s e, out_node_stmt (Single name sc s e)).
    { intros name sc s e stack rest Hn. cbn [names_ok] in Hn.
      cbn [events_node app postorder_node filter outward_go ev_type ev_name ev_start ev_end].
      unfold encloses. cbn [node_start node_end].
      destruct sc; cbn [orb] in *.
      - destruct (strictly_in s pos e); reflexivity.
      - rewrite Hn. destruct (strictly_in s pos e); reflexivity. }
    assert (HP : forall name os oe cs ce kids, out_forest_stmt kids -> out_node_stmt (Pair name os oe cs ce kids)).
    { intros name os oe cs ce kids IH stack rest Hn. cbn [names_ok] in Hn.
      apply andb_true_iff in Hn. destruct Hn as [Hv Hk]. apply negb_true_iff in Hv.
      cbn [events_node postorder_node]. fold (events_forest kids). fold (postorder kids).
      rewrite <- app_comm_cons. cbn [outward_go ev_type ev_name ev_start ev_end]. rewrite Hv. cbn [orb].
      rewrite <- app_assoc. rewrite (IH _ _ Hk).
      cbn [app outward_go ev_type ev_name ev_start ev_end t_name t_start t_end].
      rewrite str_eqb_refl.
      rewrite filter_app, map_app, <- app_assoc. f_equal.
      cbn [filter]. unfold encloses. cbn [node_start node_end].
      destruct (strictly_in os pos ce); reflexivity. }
    assert (HQ0 : out_forest_stmt []).
    { intros stack rest _. reflexivity. }
    assert (HQ1 : forall n l, out_node_stmt n -> out_forest_stmt l -> out_forest_stmt (n :: l)).
    { intros n l Hn Hl stack rest Hk. cbn [forallb] in Hk. apply andb_true_iff in Hk. destruct Hk as [K1 K2].
      unfold events_forest, postorder. cbn [flat_map]. fold (events_forest l). fold (postorder l).
      rewrite <- app_assoc. rewrite (Hn _ _ K1). rewrite (Hl _ _ K2).
      rewrite filter_app, map_app, <- app_assoc. reflexivity. }
    split.
    - exact (node_ind2 _ _ HS HP HQ0 HQ1).
    - exact (forest_ind2 _ _ HS HP HQ0 HQ1).
  Qed.
End Outward.

Theorem outward_forest o pos f :
  forallb (names_ok o) f = true ->
  outward_go o pos [] (events_forest f) = enclosing f pos.
Proof.
  intros H. destruct (outward_node_forest o pos) as [_ G].
  specialize (G f [] [] H). rewrite !app_nil_r in G. exact G.
Qed.

Theorem match_forest o pos f :
  forallb (names_ok o) f = true ->
  match_go o pos [] (events_forest f) = innermost f pos.
Proof.
  intros H. rewrite match_go_hd_outward. rewrite outward_forest by exact H. reflexivity.
Qed.

(* ================================================================== balanced_inward *)
(* the InwardTag built for a completed element *)
Fixpoint itag_of (n : node) : itag :=
  match n with
  | Single name _ s e => ITag name s e None None
  | Pair name os oe cs ce kids =>
      ITag name os oe (Some (cs, ce)) (match kids with k :: _ => Some (itag_of k) | [] => None end)
  end.

Lemma chain_of_itag : forall n, chain_of (itag_of n) = entry n :: first_child_chain n.
Proof.
  fix IH 1. intros [name os oe cs ce kids|name sc s e]; cbn [itag_of chain_of entry first_child_chain].
  - destruct kids as [|k kids']; [reflexivity|]. rewrite IH. reflexivity.
  - reflexivity.
Qed.

Definition hit_result (pos : Z) (l : list node) : option (list balanced) :=
  match find (at_pos pos) l with
  | Some n => Some (entry n :: first_child_chain n)
  | None => None
  end.

Lemma hit_result_app pos l1 l2 :
  hit_result pos (l1 ++ l2) = match hit_result pos l1 with Some r => Some r | None => hit_result pos l2 end.
Proof.
  unfold hit_result. induction l1 as [|x l1 IH]; cbn [app find]; [reflexivity|].
  destruct (at_pos pos x); [reflexivity|exact IH].
Qed.

(* attaching a run of completed siblings: only the first one can become first child *)
Definition attach_all (stack : list itag) (f : list node) : list itag :=
  fold_left (fun st k => attach_first_child st (itag_of k)) f stack.

Section Inward.
  Variable o : opts.
  Variable pos : Z.

  Definition in_node_stmt (n : node) : Prop :=
    forall stack rest, names_ok o n = true ->
      inward_go o pos stack (events_node n ++ rest) =
      match hit_result pos (postorder_node n) with
      | Some r => Some r
      | None => inward_go o pos (attach_first_child stack (itag_of n)) rest
      end.
  Definition in_forest_stmt (f : list node) : Prop :=
    forall stack rest, forallb (names_ok o) f = true ->
      inward_go o pos stack (events_forest f ++ rest) =
      match hit_result pos (postorder f) with
      | Some r => Some r
      | None => inward_go o pos (attach_all stack f) rest
      end.

  (* after the children of an open tag were attached, the tag carries its first kid *)
  Lemma attach_all_top name os oe : forall kids stack,
    attach_all (ITag name os oe None None :: stack) kids =
    ITag name os oe None (match kids with k :: _ => Some (itag_of k) | [] => None end) :: stack.
  Proof.
    intros [|k kids] stack; [reflexivity|].
    unfold attach_all. cbn [fold_left attach_first_child it_child set_child].
    generalize (itag_of k). intros c. induction kids as [|k' kids IH]; [reflexivity|].
    cbn [fold_left attach_first_child it_child]. exact IH.
  Qed.

  Lemma inward_node_forest : (forall n, in_node_stmt n) /\ (forall f, in_forest_stmt f).
  Proof.
    assert (HS : forall name sc s e, in_node_stmt (Single name sc s e)).
    { intros name sc s e stack rest Hn. cbn [names_ok] in Hn.
      cbn [events_node app postorder_node inward_go ev_type ev_name ev_start ev_end itag_of].
      unfold hit_result. cbn [find at_pos entry first_child_chain].
      destruct sc; cbn [orb] in *.
      - destruct (strictly_in s pos e); reflexivity.
      - rewrite Hn. destruct (strictly_in s pos e); reflexivity. }
    assert (HP : forall name os oe cs ce kids, in_forest_stmt kids -> in_node_stmt (Pair name os oe cs ce kids)).
    { intros name os oe cs ce kids IH stack rest Hn. cbn [names_ok] in Hn.
      apply andb_true_iff in Hn. destruct Hn as [Hv Hk]. apply negb_true_iff in Hv.
      cbn [events_node postorder_node]. fold (events_forest kids). fold (postorder kids).
      rewrite <- app_comm_cons. cbn [inward_go ev_type ev_name ev_start ev_end]. rewrite Hv. cbn [orb].
      rewrite <- app_assoc. rewrite (IH _ _ Hk). rewrite hit_result_app.
      destruct (hit_result pos (postorder kids)) as [r|]; [reflexivity|].
      rewrite attach_all_top.
      cbn [app inward_go ev_type ev_name ev_start ev_end it_name it_ostart it_oend].
      rewrite str_eqb_refl.
      unfold hit_result at 1. cbn [find at_pos].
      destruct (weakly_in os pos ce).
      - cbn [entry first_child_chain]. unfold child_chain. cbn [it_child].
        destruct kids as [|k kids']; [reflexivity|]. rewrite chain_of_itag. reflexivity.
      - cbn [set_close itag_of]. reflexivity. }
    assert (HQ0 : in_forest_stmt []).
    { intros stack rest _. reflexivity. }
    assert (HQ1 : forall n l, in_node_stmt n -> in_forest_stmt l -> in_forest_stmt (n :: l)).
    { intros n l Hn Hl stack rest Hk. cbn [forallb] in Hk. apply andb_true_iff in Hk. destruct Hk as [K1 K2].
      unfold events_forest, postorder. cbn [flat_map]. fold (events_forest l). fold (postorder l).
      rewrite <- app_assoc. rewrite (Hn _ _ K1). rewrite hit_result_app.
      destruct (hit_result pos (postorder_node n)) as [r|]; [reflexivity|].
      rewrite (Hl _ _ K2). reflexivity. }
    split.
    - exact (node_ind2 _ _ HS HP HQ0 HQ1).
    - exact (forest_ind2 _ _ HS HP HQ0 HQ1).
  Qed.
End Inward.

Theorem inward_forest o pos f :
  forallb (names_ok o) f = true ->
  opt_default [] (inward_go o pos [] (events_forest f)) = inward_spec f pos.
Proof.
  intros H. destruct (inward_node_forest o pos) as [_ G].
  specialize (G f [] [] H). rewrite !app_nil_r in G. rewrite G.
  unfold inward_spec, hit_result. destruct (find (at_pos pos) (postorder f)); reflexivity.
Qed.

(* ================================================================== well-nested forests give ordered events *)
Lemma events_ordered_app : forall l1 l2 lo mid,
  events_ordered lo l1 -> (forall e, In e l1 -> ev_end e <= mid) -> lo <= mid ->
  events_ordered mid l2 -> events_ordered lo (l1 ++ l2).
Proof.
  induction l1 as [|e l1 IH]; intros l2 lo mid H1 Hb Hlo H2; cbn [app].
  - destruct l2 as [|e2 l2]; [exact I|]. cbn [events_ordered] in *. destruct H2 as (A & B & C). repeat split; try assumption. lia.
  - cbn [events_ordered] in *. destruct H1 as (A & B & C). split; [exact A|]. split; [exact B|].
    eapply IH; [exact C| |apply Hb; left; reflexivity|exact H2].
    intros x Hx. apply Hb. right. exact Hx.
Qed.

Definition ord_node_stmt (n : node) : Prop :=
  forall lo hi, node_wf lo hi n = true ->
    events_ordered lo (events_node n) /\ (forall e, In e (events_node n) -> ev_end e <= node_end n) /\
    lo <= node_end n /\ node_end n <= hi.

Lemma node_wf_ordered : forall n, ord_node_stmt n.
Proof.
  apply (node_ind2 ord_node_stmt
           (fun kids => forall lo hi,
              (fix go (lo : N) (l : list node) : bool :=
                 match l with [] => true | k :: r => node_wf lo hi k && go (node_end k) r end) lo kids = true ->
              lo <= hi ->
              exists mid, lo <= mid /\ mid <= hi /\
                events_ordered lo (flat_map events_node kids) /\
                (forall e, In e (flat_map events_node kids) -> ev_end e <= mid))).
  - intros name sc s e lo hi H. cbn [node_wf] in H. cbn [events_node node_end events_ordered ev_start ev_end].
    repeat split; try lia. intros x [<-|[]]. cbn. lia.
  - intros name os oe cs ce kids IH lo hi H. cbn [node_wf] in H.
    repeat (apply andb_true_iff in H; destruct H as [H ?]).
    destruct (IH oe cs) as (mid & M1 & M2 & M3 & M4); [assumption|lia|].
    cbn [events_node node_end]. split; [|split; [|lia]].
    + cbn [events_ordered ev_start ev_end]. split; [lia|]. split; [lia|].
      eapply events_ordered_app; [exact M3|exact M4|exact M1|].
      cbn [events_ordered ev_start ev_end]. repeat split; lia.
    + intros x [<-|Hx]; [cbn; lia|]. apply in_app_or in Hx. destruct Hx as [Hx|[<-|[]]]; [|cbn; lia].
      specialize (M4 x Hx). lia.
  - intros lo hi _ Hle. exists lo. cbn. repeat split; try lia; try (intros e []).
  - intros n l Hn Hl lo hi H Hle. apply andb_true_iff in H. destruct H as [H1 H2].
    destruct (Hn lo hi H1) as (N1 & N2 & N3 & N4).
    destruct (Hl (node_end n) hi H2 N4) as (mid & M1 & M2 & M3 & M4).
    exists mid. split; [lia|]. split; [exact M2|]. cbn [flat_map]. split.
    + eapply events_ordered_app; [exact N1|exact N2|exact N3|exact M3].
    + intros e He. apply in_app_or in He. destruct He as [He|He]; [specialize (N2 e He); lia|apply M4; exact He].
Qed.

Theorem forest_wf_ordered : forall f lo hi,
  forest_wf lo hi f = true -> events_ordered lo (events_forest f).
Proof.
  induction f as [|n f IH]; intros lo hi H; [exact I|].
  cbn [forest_wf] in H. apply andb_true_iff in H. destruct H as [H1 H2].
  destruct (node_wf_ordered n lo hi H1) as (N1 & N2 & N3 & N4).
  unfold events_forest. cbn [flat_map].
  eapply events_ordered_app; [exact N1|exact N2|exact N3|]. eapply IH. exact H2.
Qed.

Lemma events_ordered_weaken evs lo lo' : lo' <= lo -> events_ordered lo evs -> events_ordered lo' evs.
Proof. destruct evs as [|e r]; [auto|]. cbn [events_ordered]. intros H (A & B & C). repeat split; try assumption. lia. Qed.

(* in a well-nested forest the enclosing elements form a strictly nested chain that
   contains the position: the head is the innermost one *)
Theorem enclosing_is_chain o pos f hi :
  forallb (names_ok o) f = true -> forest_wf 0 hi f = true ->
  Forall (contains_pos pos) (enclosing f pos) /\ strictly_nested (enclosing f pos).
Proof.
  intros Hn Hw. rewrite <- (outward_forest o pos f Hn).
  apply outward_go_nested. eapply forest_wf_ordered. exact Hw.
Qed.

(* ================================================================== the public functions *)
(* Glue between Level A and Level B: for a source whose scan yields the events of
   the forest, the public functions return the specification. *)
Section Public.
  Variable o : opts.
  Variable src : str.
  Variable f : list node.
  Hypothesis Hscan : fst (scan (o_special o) src) = events_forest f.
  Hypothesis Hnames : forallb (names_ok o) f = true.

  Theorem html_match_forest pos :
    html_match o src pos =
    Ok (match innermost f pos with
        | Some b => Some (mkMatched (b_name b)
                            (get_attributes src (fst (b_open b)) (snd (b_open b)) (b_name b))
                            (b_open b) (b_close b))
        | None => None
        end).
  Proof.
    unfold html_match, html_match_of, after_scan. rewrite scan_no_internal_error, Hscan.
    rewrite (match_forest o pos f Hnames). destruct (innermost f pos); reflexivity.
  Qed.

  Theorem balanced_outward_forest pos : balanced_outward o src pos = Ok (enclosing f pos).
  Proof.
    unfold balanced_outward, balanced_outward_of. rewrite scan_no_internal_error, Hscan.
    rewrite (outward_forest o pos f Hnames). reflexivity.
  Qed.

  Theorem balanced_inward_forest pos : balanced_inward o src pos = Ok (inward_spec f pos).
  Proof.
    unfold balanced_inward, balanced_inward_of, after_scan. rewrite scan_no_internal_error, Hscan.
    rewrite <- (inward_forest o pos f Hnames).
    destruct (inward_go o pos [] (events_forest f)); reflexivity.
  Qed.
End Public.
