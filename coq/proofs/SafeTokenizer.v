(* C07, tokenizer stage.  The tokenizer result type `tres` is TOk | TErr pos: there is no internal
   error by construction (every character access is a pattern match on the remaining input), the
   main loop is structural recursion (no fuel).  What is proved (reusing the C18 development):
   the scanner error position lies inside the input, and every token handed to the parser starts
   strictly inside the input -- which is what bounds the parser's error positions. *)
From Coq Require Import List Bool Lia Arith.
From Emmet Require Import lib.Base model.MarkupTokenizer proofs.MarkupTokenizerProofs.
Import ListNotations.
Local Open Scope nat_scope.

Theorem tokenize_safe : forall s,
  match tokenize s with
  | TOk l => tiles l 0 (length s)
  | TErr p => p <= length s
  end.
Proof.
  intros s. destruct (tokenize s) eqn:E.
  - apply tokenize_tiles. exact E.
  - apply tokenize_error_inside. exact E.
Qed.

Lemma tiles_start_inside : forall l a b t, tiles l a b -> In t l -> a <= tstart t /\ tstart t < b.
Proof.
  induction l as [|x r IH]; intros a b t HT HI. destruct HI.
  simpl in HT. destruct HT as [H1 [H2 H3]].
  pose proof (tiles_le _ _ _ H3) as Hle.
  destruct HI as [->|HI].
  - lia.
  - destruct (IH _ _ _ H3 HI). lia.
Qed.

Theorem token_starts_inside : forall s l t, tokenize s = TOk l -> In t l -> tstart t < length s.
Proof.
  intros s l t H HI. apply tokenize_tiles in H. destruct (tiles_start_inside _ _ _ _ H HI). assumption.
Qed.
