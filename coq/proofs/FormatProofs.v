(* C12 / C13: properties of the whole markup formatter, composed from the stream invariants
   (OutStreamProofs), reachability (FormatReach) and block lemmas (FormatSteps). *)
From Coq Require Import ZArith List Bool Lia ZifyBool.
From Emmet Require Import lib.Base model.MarkupTokenizer model.MarkupParser model.MarkupConvert
     model.OutStream model.FormatHtml model.FormatIndent proofs.OutStreamProofs proofs.FormatSteps
     proofs.FormatReach.

(* ================================================================ C13: positions *)
(* Every callback invocation of a run of the markup formatter (any syntax, any tree, any
   option record whose newline ends in its only line feed and whose indent strings have none):
   the returned text sits at the reported offset of the final result; line and column are the
   line and column of that offset in the final result. *)
Theorem callback_positions_exact_lemma syntax c children a e b :
  fmt_lf (oc_fmt c) ->
  chron (fs_out (stringify_markup syntax c children)) = a ++ e :: b ->
  os_value (fs_out (stringify_markup syntax c children)) = text_of a ++ ev_text e ++ text_of b /\
  ev_off e = length (text_of a) /\
  ev_line e = line_of (text_of a) /\
  ev_col e = column_of (text_of a).
Proof. intros Hf Hs. eapply positions_exact_lf; [exact Hf|apply R_stringify_markup|exact Hs]. Qed.

(* Any option strings at all: the offset is exact; line and column count the line ends the
   stream itself writes (its newline pushes, line feeds inside field texts). *)
Theorem callback_positions_any_newline_lemma syntax c children a e b :
  chron (fs_out (stringify_markup syntax c children)) = a ++ e :: b ->
  os_value (fs_out (stringify_markup syntax c children)) = text_of a ++ ev_text e ++ text_of b /\
  ev_off e = length (text_of a) /\
  ev_line e = count_nl (rev a) /\
  ev_col e = length (text_of a) - line_start (oc_fmt c) (rev a).
Proof.
  intros Hs. destruct (positions_exact (oc_fmt c) _ a e b (R_stringify_markup syntax c children) Hs)
    as [H1 [H2 [H3 H4]]]. repeat split; assumption.
Qed.

(* ================================================================ C12: indentation level *)
Definition lvl (st : fstate) : Z := os_level (fs_out st).

Lemma lvl_push_gen b o s : os_level (os_push_gen b o s) = os_level o.
Proof. reflexivity. Qed.
Lemma lvl_push_indent f o n : os_level (os_push_indent f o n) = os_level o.
Proof. reflexivity. Qed.
Lemma lvl_push_newline f o ind : os_level (os_push_newline f o ind) = os_level o.
Proof. unfold os_push_newline. destruct ind as [[n|]|]; reflexivity. Qed.
Lemma lvl_push_string f o s : os_level (os_push_string f o s) = os_level o.
Proof.
  unfold os_push_string. destruct (split_crlf s) as [|l0 ls]; [reflexivity|].
  assert (G : forall ls o', os_level (fold_left (fun o'' l => os_push (os_push_newline f o'' (Some None)) l) ls o') = os_level o').
  { induction ls0 as [|l ls0 IH]; intros o'; cbn [fold_left]; [reflexivity|]. rewrite IH. unfold os_push.
    rewrite lvl_push_gen. apply lvl_push_newline. }
  rewrite G. reflexivity.
Qed.

Lemma lvl_push_str c s st : lvl (push_str c s st) = lvl st.
Proof. unfold lvl, push_str. cbn [fs_out]. apply lvl_push_string. Qed.

Lemma lvl_push_tokens c toks st : lvl (push_tokens c toks st) = lvl st.
Proof.
  unfold lvl, push_tokens.
  assert (G : forall toks o lg,
            os_level (fst (fold_left (fun '(o, lg) t =>
                 match t with
                 | VStr s => (os_push_string (oc_fmt c) o s, lg)
                 | VField i nm => (os_push_field o (fs_field st + i)%N nm,
                                   match lg with Some l => Some (N.max l i) | None => Some i end)
                 end) toks (o, lg))) = os_level o).
  { induction toks0 as [|t ts IH]; intros o lg; cbn [fold_left fst]; [reflexivity|].
    destruct t as [s|i nm]; rewrite IH; [apply lvl_push_string|reflexivity]. }
  specialize (G toks (fs_out st) None).
  destruct (fold_left _ toks (fs_out st, None)) as [out largest]. cbn [fst] in G. cbn [fs_out]. exact G.
Qed.

Lemma lvl_fold_left {A} (f : fstate -> A -> fstate) (l : list A) :
  (forall st a, lvl (f st a) = lvl st) -> forall st, lvl (fold_left f l st) = lvl st.
Proof. intros Hf. induction l as [|a l IH]; intros st; cbn [fold_left]; [reflexivity|]. rewrite IH. apply Hf. Qed.

Lemma lvl_push_attribute c a st : lvl (push_attribute c a st) = lvl st.
Proof.
  unfold push_attribute.
  repeat match goal with
         | |- lvl (match ?x with _ => _ end) = _ => destruct x
         | |- lvl (if ?x then _ else _) = _ => destruct x
         end; repeat first [rewrite lvl_push_str | rewrite lvl_push_tokens]; reflexivity.
Qed.

Lemma lvl_comment_node c text n st : lvl (comment_node c text n st) = lvl st.
Proof.
  unfold comment_node. destruct text; [reflexivity|]. destruct (should_comment c n); [|reflexivity].
  unfold comment_output. apply lvl_fold_left. intros st' t. destruct t as [s|b a nm]; [apply lvl_push_str|].
  destruct (assoc_str nm _); [|reflexivity]. rewrite lvl_push_str, lvl_push_tokens, lvl_push_str. reflexivity.
Qed.

Lemma lvl_level_newline c d st : lvl (level_newline c d st) = (lvl st + d)%Z.
Proof. unfold lvl, level_newline, map_out, os_push_newline_int. cbn [fs_out]. rewrite lvl_push_newline. reflexivity. Qed.

Lemma lvl_map_level d st : lvl (map_out (fun o => os_add_level o d) st) = (lvl st + d)%Z.
Proof. reflexivity. Qed.

Lemma lvl_map_newline c ind st : lvl (map_out (fun o => os_push_newline (oc_fmt c) o ind) st) = lvl st.
Proof. unfold lvl, map_out. cbn [fs_out]. apply lvl_push_newline. Qed.

Lemma lvl_el_attrs c node st : lvl (el_attrs c node st) = lvl st.
Proof.
  unfold el_attrs. destruct (an_attrs node) as [[|a l]|]; try reflexivity.
  apply lvl_fold_left. intros st' x. destruct (should_output_attribute x); [apply lvl_push_attribute|reflexivity].
Qed.

Lemma lvl_el_open c nm node st : lvl (el_open c nm node st) = lvl st.
Proof. unfold el_open. rewrite lvl_el_attrs, lvl_push_str, lvl_comment_node. reflexivity. Qed.

Definition keeps_lvl (next : fstate -> fstate) : Prop := forall st, lvl (next st) = lvl st.

Lemma lvl_el_snippet c node next st st' :
  keeps_lvl next -> el_snippet c node next st = Some st' -> lvl st' = lvl st.
Proof.
  intros Hn. unfold el_snippet.
  destruct (an_value node) as [[|v0 value]|]; try discriminate.
  destruct (an_children node) as [|c0 ch]; try discriminate.
  destruct (find_field_ix (v0 :: value)) as [ix|]; try discriminate.
  set (st1 := push_tokens c (firstn ix (v0 :: value)) st).
  assert (H2 : lvl (next st1) = lvl st) by (rewrite Hn; apply lvl_push_tokens).
  destruct (nth_error (v0 :: value) (S ix)) as [[s|i nm]|].
  - destruct (negb (Nat.eqb (os_line (fs_out (next st1))) (os_line (fs_out st1)))); intros E; injection E as <-;
      repeat first [rewrite lvl_push_tokens | rewrite lvl_push_str]; exact H2.
  - intros E; injection E as <-. rewrite lvl_push_tokens. exact H2.
  - intros E; injection E as <-. rewrite lvl_push_tokens. exact H2.
Qed.

Lemma lvl_el_value c node st : lvl (el_value c node st) = lvl st.
Proof.
  unfold el_value. destruct (an_value node) as [[|v0 value]|]; try reflexivity.
  destruct (existsb has_newline (v0 :: value) || starts_with_block_tag c (v0 :: value)).
  - destruct (an_children node);
      [rewrite lvl_level_newline|rewrite lvl_map_level]; rewrite lvl_push_tokens, lvl_level_newline; lia.
  - apply lvl_push_tokens.
Qed.

Lemma lvl_el_leaf c nm node st : lvl (el_leaf c nm node st) = lvl st.
Proof.
  unfold el_leaf.
  destruct (negb (truthy_l (an_value node)) && match an_children node with [] => true | _ => false end); [|reflexivity].
  destruct (oc_format_leaf c || mem_str nm (oc_format_force c)).
  - rewrite lvl_level_newline, lvl_push_tokens, lvl_level_newline. lia.
  - apply lvl_push_tokens.
Qed.

Lemma lvl_el_body c node next st : keeps_lvl next -> lvl (el_body c node next st) = lvl st.
Proof.
  intros Hn. unfold el_body.
  assert (Hun : lvl (el_unnamed c node next st) = lvl st).
  { unfold el_unnamed. destruct (el_snippet c node next st) as [st'|] eqn:E.
    - eapply lvl_el_snippet; eassumption.
    - rewrite Hn. destruct (an_value node) as [[|v0 value]|]; try reflexivity. apply lvl_push_tokens. }
  destruct (an_name node) as [[|x nm]|]; try exact Hun.
  unfold el_named.
  destruct (an_self node && match an_children node with [] => true | _ => false end && negb (truthy_l (an_value node))).
  - rewrite lvl_push_str. apply lvl_el_open.
  - unfold el_close. rewrite lvl_comment_node, lvl_push_str. unfold el_content.
    destruct (el_snippet c node next _) as [st'|] eqn:E.
    + erewrite lvl_el_snippet by eassumption. rewrite lvl_push_str. apply lvl_el_open.
    + rewrite lvl_el_leaf, Hn, lvl_el_value, lvl_push_str. apply lvl_el_open.
Qed.

Lemma lvl_el_tail c fmt parent index items st : lvl (el_tail c fmt parent index items st) = lvl st.
Proof.
  unfold el_tail. destruct (tail_newline c fmt parent index items); [|reflexivity].
  unfold lvl, map_out, os_push_newline_int. cbn [fs_out]. apply lvl_push_newline.
Qed.

Lemma lvl_html_step c parent node index items next st :
  keeps_lvl next -> lvl (html_element_step c parent node index items next st) = lvl st.
Proof.
  intros Hn. unfold html_element_step. rewrite lvl_map_level, lvl_el_tail, lvl_el_body by exact Hn.
  destruct (should_format c parent node index items); [rewrite lvl_map_newline|]; rewrite lvl_map_level; lia.
Qed.

Lemma lvl_html_walk c parent items : forall l i st,
  Forall (fun n => forall parent index items st, lvl (html_element c parent n index items st) = lvl st) l ->
  lvl (html_walk c parent items i l st) = lvl st.
Proof.
  induction l as [|x l IH]; intros i st HF; cbn [html_walk]; [reflexivity|].
  inversion HF as [|y z Hx HF']; subst. rewrite IH by exact HF'. apply Hx.
Qed.

(* element() leaves the indentation level as it found it: for ALL trees, positions and options *)
Theorem level_restored_lemma c : forall node parent index items st,
  os_level (fs_out (html_element c parent node index items st)) = os_level (fs_out st).
Proof.
  induction node as [nm v rp at_ ch sc IHch] using anode_ind'. intros parent index items st.
  rewrite html_element_unfold. apply lvl_html_step.
  intros st'. rewrite html_children_walk. apply lvl_html_walk. exact IHch.
Qed.
