(* C17 (CSS half), Level A: on the events of any well-formed tree, get_css_section and
   select_item_css return what the tree says (CssTreeActions.v); parse_properties returns
   the direct declarations of a body with exact name / value / before / after offsets. *)
From Coq Require Import ZArith List Bool Lia ZifyBool.
From Emmet Require Import lib.Base model.CssScan model.CssMatch model.CssParse model.CssActions
     model.CssTree model.CssTreeActions proofs.CssScanProofs proofs.CssMatchProofs proofs.CssTreeProofs.
Import ListNotations.
Local Open Scope Z_scope.

(* ------------------------------------------------------------------ get_css_section *)
(* nothing that starts after pos contains pos *)
Lemma section_node_after : forall n lo hi pos, wf_node lo hi n -> pos < lo -> section_node n pos = None.
Proof.
  induction n as [ns ne colon vs ve semi|ss se brace ch close IH] using node_ind'; intros lo hi pos H Hp;
    [reflexivity|].
  cbn [wf_node] in H. destruct H as (H1 & H2 & H3 & H4 & H5). cbn [section_node].
  rewrite first_some_none.
  - replace ((ss <=? pos) && (pos <=? close + 1)) with false by lia. reflexivity.
  - assert (Hlo : pos < brace + 1) by lia. revert H4 Hlo. generalize (brace + 1).
    induction IH as [|c r Hc _ IHr]; intros l0 H4 Hlo; constructor; cbn [seq_ok] in H4; destruct H4 as [Ha Hb].
    + eapply Hc; eauto.
    + pose proof (wf_node_bounds _ _ _ Ha). eapply IHr; [exact Hb|lia].
Qed.

Lemma section_seq_after l : forall lo hi pos, seq_ok wf_node lo hi l -> pos < lo ->
  first_some (fun c => section_node c pos) l = None.
Proof.
  induction l as [|c r IHl]; intros lo hi pos H Hp; cbn [first_some seq_ok] in *; [reflexivity|].
  destruct H as [Ha Hb]. rewrite (section_node_after c lo hi pos Ha Hp).
  pose proof (wf_node_bounds _ _ _ Ha). eapply IHl; [exact Hb|lia].
Qed.

(* inside an open rule (stack not empty) *)
Definition section_node_stmt (pos : Z) (n : node) : Prop :=
  forall lo hi p st rest, wf_node lo hi n ->
    section_go pos (p :: st) (events n ++ rest) =
    match section_node n pos with Some r => Some r | None => section_go pos (p :: st) rest end.

Lemma section_seq pos l : Forall (section_node_stmt pos) l ->
  forall lo hi p st rest, seq_ok wf_node lo hi l ->
    section_go pos (p :: st) (flat_map events l ++ rest) =
    match first_some (fun c => section_node c pos) l with
    | Some r => Some r
    | None => section_go pos (p :: st) rest
    end.
Proof.
  induction l as [|c r IHl]; intros Hf lo hi p st rest Hs; cbn [seq_ok flat_map app first_some] in *;
    [reflexivity|].
  destruct Hs as [Hs1 Hs2]. inversion Hf as [|? ? Hc Hf']; subst.
  rewrite <- app_assoc. rewrite (Hc lo hi p st _ Hs1).
  destruct (section_node c pos); [reflexivity|]. eapply IHl; [exact Hf'|exact Hs2].
Qed.

Lemma section_node_ok pos : forall n, section_node_stmt pos n.
Proof.
  induction n as [ns ne colon vs ve semi|ss se brace ch close IH] using node_ind';
    intros lo hi p st rest H.
  - cbn [events app section_go ety section_node]. rewrite !andb_false_r. reflexivity.
  - cbn [wf_node] in H. destruct H as (H1 & H2 & H3 & H4 & H5).
    cbn [events app section_go ety estart eend edelim section_node]. rewrite andb_false_r.
    rewrite <- app_assoc. rewrite (section_seq pos ch IH (brace + 1) close _ _ _ H4).
    destruct (first_some (fun c => section_node c pos) ch); [reflexivity|].
    cbn [app section_go ety estart eend edelim]. rewrite andb_false_r.
    unfold r_start, r_delim; cbn [fst snd].
    destruct ((ss <=? pos) && (pos <=? close + 1)); reflexivity.
Qed.

(* top level (empty stack): the scan stops at the first event that starts after pos *)
Lemma section_top pos : forall l lo hi, seq_ok wf_node lo hi l ->
  section_go pos [] (flat_map events l) = first_some (fun c => section_node c pos) l.
Proof.
  induction l as [|c r IHl]; intros lo hi Hs; cbn [seq_ok flat_map first_some] in *; [reflexivity|].
  destruct Hs as [Hs1 Hs2].
  destruct c as [ns ne colon vs ve semi|ss se brace ch close].
  - cbn in Hs1. cbn [events app section_go ety estart section_node node_end] in *.
    destruct (pos <? ns) eqn:E1; cbn [andb].
    + symmetry. eapply section_seq_after; [exact Hs2|lia].
    + destruct (pos <? vs) eqn:E2; cbn [andb].
      * symmetry. eapply section_seq_after; [exact Hs2|lia].
      * eapply IHl. exact Hs2.
  - cbn [wf_node] in Hs1. destruct Hs1 as (H1 & H2 & H3 & H4 & H5).
    pose proof (proj1 (seq_ok_bounds _ _ _ H4)) as Hbc.
    cbn [events app section_go ety estart eend edelim section_node node_end] in *.
    destruct (pos <? ss) eqn:E1; cbn [andb].
    + rewrite (section_seq_after ch (brace + 1) close pos H4 ltac:(lia)).
      replace ((ss <=? pos) && (pos <=? close + 1)) with false by lia.
      symmetry. eapply section_seq_after; [exact Hs2|lia].
    + rewrite <- app_assoc.
      assert (Hf : Forall (section_node_stmt pos) ch) by (clear; induction ch; constructor; [apply section_node_ok|assumption]).
      rewrite (section_seq pos ch Hf (brace + 1) close _ _ _ H4).
      destruct (first_some (fun c => section_node c pos) ch); [reflexivity|].
      cbn [app section_go ety estart eend edelim]. rewrite andb_false_r.
      unfold r_start, r_delim; cbn [fst snd].
      destruct ((ss <=? pos) && (pos <=? close + 1)); [reflexivity|].
      eapply IHl. exact Hs2.
Qed.

Theorem section_tree n f pos :
  wf_forest n f -> section_go pos [] (events_forest f) = section_forest f pos.
Proof. intros H. eapply section_top. exact H. Qed.

(* ------------------------------------------------------------------ select next *)
Definition next_node_stmt (code : str) (pos : Z) (n : node) : Prop :=
  forall lo hi rest, 0 <= lo -> wf_node lo hi n ->
    next_go code pos None (events n ++ rest) =
    match next_node code n pos with Some i => Some i | None => next_go code pos None rest end.

Lemma next_seq code pos l : Forall (next_node_stmt code pos) l ->
  forall lo hi rest, 0 <= lo -> seq_ok wf_node lo hi l ->
    next_go code pos None (flat_map events l ++ rest) =
    match first_some (fun c => next_node code c pos) l with
    | Some i => Some i
    | None => next_go code pos None rest
    end.
Proof.
  induction l as [|c r IHl]; intros Hf lo hi rest Hlo Hs; cbn [seq_ok flat_map app first_some] in *;
    [reflexivity|].
  destruct Hs as [Hs1 Hs2]. inversion Hf as [|? ? Hc Hf']; subst.
  rewrite <- app_assoc. rewrite (Hc lo hi _ Hlo Hs1).
  destruct (next_node code c pos); [reflexivity|].
  pose proof (wf_node_bounds _ _ _ Hs1).
  eapply IHl; [exact Hf'| |exact Hs2]. lia.
Qed.

Lemma next_node_ok code pos : forall n, next_node_stmt code pos n.
Proof.
  induction n as [ns ne colon vs ve semi|ss se brace ch close IH] using node_ind';
    intros lo hi rest Hlo H.
  - cbn in H. cbn [events app next_go ety estart eend edelim next_node].
    unfold decl_item, decl_end, r_start; cbn [fst snd].
    replace (semi =? -1) with false by lia.
    destruct (ns <? pos) eqn:E1.
    + replace (pos <=? ns) with false by lia.
      destruct (vs <? pos) eqn:E2.
      * replace (pos <=? vs) with false by lia. reflexivity.
      * replace (pos <=? vs) with true by lia. reflexivity.
    + replace (pos <=? ns) with true by lia.
      replace (vs <? pos) with false by lia. reflexivity.
  - cbn [wf_node] in H. destruct H as (H1 & H2 & H3 & H4 & H5).
    pose proof (proj1 (seq_ok_bounds _ _ _ H4)) as Hbc.
    cbn [events app next_go ety estart eend edelim next_node].
    destruct (ss <? pos) eqn:E1.
    + replace (pos <=? ss) with false by lia.
      rewrite <- app_assoc. rewrite (next_seq code pos ch IH (brace + 1) close _ ltac:(lia) H4).
      destruct (first_some (fun c => next_node code c pos) ch); [reflexivity|].
      cbn [app next_go ety estart eend edelim].
      destruct (close <? pos); reflexivity.
    + replace (pos <=? ss) with true by lia. reflexivity.
Qed.

Theorem next_tree code n f pos :
  wf_forest n f -> select_next_events code (events_forest f) pos = next_forest code f pos.
Proof.
  intros H. unfold select_next_events, events_forest, next_forest.
  rewrite <- (app_nil_r (flat_map events f)).
  assert (Hf : Forall (next_node_stmt code pos) f) by (clear; induction f; constructor; [apply next_node_ok|assumption]).
  rewrite (next_seq code pos f Hf 0 n [] ltac:(lia) H).
  destruct (first_some _ f); reflexivity.
Qed.

(* ------------------------------------------------------------------ select previous *)
(* the fold with the information whether it stopped *)
Fixpoint prev_run (pos : Z) (st : pvstate) (evs : list event) : pvstate * bool :=
  match evs with
  | [] => (st, false)
  | e :: r =>
      let is_value := match ety e with PropertyValue => true | _ => false end in
      if (pos <=? estart e) && negb is_value then (st, true)
      else
        match ety e with
        | Selector => prev_run pos (mkPV (Some false) (estart e) (eend e) (-1) (-1) (-1)) r
        | PropertyName => prev_run pos (mkPV (Some true) (estart e) (eend e) (-1) (-1) (-1)) r
        | PropertyValue =>
            prev_run pos (mkPV (pv_type st) (pv_start st) (pv_end st) (estart e) (eend e) (edelim e)) r
        | BlockEnd => prev_run pos st r
        end
  end.

Lemma prev_go_run pos : forall evs st, prev_go pos st evs = fst (prev_run pos st evs).
Proof.
  induction evs as [|e r IH]; intros st; cbn [prev_go prev_run]; [reflexivity|].
  destruct ((pos <=? estart e) && negb match ety e with PropertyValue => true | _ => false end); [reflexivity|].
  destruct (ety e); apply IH.
Qed.

Lemma prev_run_app pos : forall a b st,
  prev_run pos st (a ++ b) =
  let '(st', stopped) := prev_run pos st a in if stopped then (st', true) else prev_run pos st' b.
Proof.
  induction a as [|e r IH]; intros b st; cbn [app prev_run]; [reflexivity|].
  destruct ((pos <=? estart e) && negb match ety e with PropertyValue => true | _ => false end); [reflexivity|].
  destruct (ety e); apply IH.
Qed.

(* what select_previous_item builds from the final state *)
Definition item_of (code : str) (st : pvstate) : option select_item :=
  match pv_type st with
  | Some false => Some (mkSI (pv_start st) (pv_end st) [(pv_start st, pv_end st)])
  | Some true =>
      if negb (pv_vstart st =? -1) then
        let e := decl_end (pv_vdelim st) (pv_vend st) in
        Some (mkSI (pv_start st) e
                   (rev (value_ranges code (push [] (pv_start st, e)) (pv_vstart st) (pv_vend st))))
      else Some (mkSI (pv_start st) (pv_end st) (rev (push [] (pv_start st, pv_end st))))
  | None => None
  end.

Lemma prev_node_late code : forall n pos cur, pos <= node_start n -> prev_node code n pos cur = cur.
Proof.
  intros n pos cur H. destruct n; cbn [prev_node node_start] in *.
  - replace (ns <? pos) with false by lia. reflexivity.
  - replace (ss <? pos) with false by lia. reflexivity.
Qed.

Lemma prev_seq_late code l : forall lo hi pos cur, seq_ok wf_node lo hi l -> pos <= lo ->
  fold_left (fun c k => prev_node code k pos c) l cur = cur.
Proof.
  induction l as [|c r IHl]; intros lo hi pos cur Hs Hp; cbn [fold_left seq_ok] in *; [reflexivity|].
  destruct Hs as [Ha Hb]. pose proof (wf_node_bounds _ _ _ Ha).
  rewrite prev_node_late by lia. eapply IHl; [exact Hb|lia].
Qed.

Definition prev_node_stmt (code : str) (pos : Z) (n : node) : Prop :=
  forall lo hi st, 0 <= lo -> wf_node lo hi n ->
    item_of code (fst (prev_run pos st (events n))) = prev_node code n pos (item_of code st) /\
    (snd (prev_run pos st (events n)) = true -> pos <= node_end n).

Lemma prev_seq code pos l : Forall (prev_node_stmt code pos) l ->
  forall lo hi st, 0 <= lo -> seq_ok wf_node lo hi l ->
    item_of code (fst (prev_run pos st (flat_map events l))) =
      fold_left (fun c k => prev_node code k pos c) l (item_of code st) /\
    (snd (prev_run pos st (flat_map events l)) = true -> pos <= hi).
Proof.
  induction l as [|c r IHl]; intros Hf lo hi st Hlo Hs; cbn [seq_ok flat_map fold_left] in *.
  - cbn. split; [reflexivity|discriminate].
  - destruct Hs as [Hs1 Hs2]. inversion Hf as [|? ? Hc Hf']; subst.
    pose proof (wf_node_bounds _ _ _ Hs1) as Hb.
    destruct (Hc lo hi st Hlo Hs1) as [Hi Hstop].
    rewrite prev_run_app. destruct (prev_run pos st (events c)) as [st1 b1]. cbn [fst snd] in *.
    destruct b1.
    + cbn [fst snd]. specialize (Hstop eq_refl). split.
      * rewrite Hi. symmetry. eapply prev_seq_late; [exact Hs2|exact Hstop].
      * intros _. apply seq_ok_bounds in Hs2. lia.
    + destruct (IHl Hf' (node_end c) hi st1 ltac:(lia) Hs2) as [Hi2 Hstop2].
      split; [rewrite Hi2, Hi; reflexivity|exact Hstop2].
Qed.

Lemma prev_node_ok code pos : forall n, prev_node_stmt code pos n.
Proof.
  induction n as [ns ne colon vs ve semi|ss se brace ch close IH] using node_ind';
    intros lo hi st Hlo H.
  - cbn in H. cbn [events prev_run ety estart eend edelim prev_node node_end negb andb].
    rewrite andb_true_r, andb_false_r.
    destruct (pos <=? ns) eqn:E1.
    + replace (ns <? pos) with false by lia. cbn [fst snd]. split; [reflexivity|lia].
    + replace (ns <? pos) with true by lia. cbn [fst snd]. split; [|discriminate].
      unfold item_of, decl_item; cbn [pv_type pv_start pv_end pv_vstart pv_vend pv_vdelim].
      replace (vs =? -1) with false by lia. unfold decl_end. replace (semi =? -1) with false by lia.
      reflexivity.
  - cbn [wf_node] in H. destruct H as (H1 & H2 & H3 & H4 & H5).
    pose proof (proj1 (seq_ok_bounds _ _ _ H4)) as Hbc.
    cbn [events prev_run ety estart eend edelim prev_node node_end negb]. rewrite andb_true_r.
    destruct (pos <=? ss) eqn:E1.
    + replace (ss <? pos) with false by lia. cbn [fst snd]. split; [reflexivity|lia].
    + replace (ss <? pos) with true by lia.
      rewrite prev_run_app.
      destruct (prev_seq code pos ch IH (brace + 1) close
                  (mkPV (Some false) ss se (-1) (-1) (-1)) ltac:(lia) H4) as [Hi Hstop].
      destruct (prev_run pos (mkPV (Some false) ss se (-1) (-1) (-1)) (flat_map events ch)) as [st1 b1].
      cbn [fst snd] in *.
      assert (Hsel : item_of code (mkPV (Some false) ss se (-1) (-1) (-1)) = Some (selector_item ss se))
        by reflexivity.
      rewrite Hsel in Hi.
      destruct b1.
      * cbn [fst snd]. split; [exact Hi|]. intros _. specialize (Hstop eq_refl). lia.
      * cbn [prev_run ety estart negb]. rewrite andb_true_r.
        destruct (pos <=? close) eqn:E2; cbn [fst snd]; (split; [exact Hi|]); [lia|discriminate].
Qed.

Theorem prev_tree code n f pos :
  wf_forest n f -> select_previous_events code (events_forest f) pos = prev_forest code f pos.
Proof.
  intros H. unfold select_previous_events, events_forest, prev_forest.
  change (item_of code (prev_go pos (mkPV None (-1) (-1) (-1) (-1) (-1)) (flat_map events f)) =
          fold_left (fun c k => prev_node code k pos c) f None).
  rewrite prev_go_run.
  assert (Hf : Forall (prev_node_stmt code pos) f) by (clear; induction f; constructor; [apply prev_node_ok|assumption]).
  destruct (prev_seq code pos f Hf 0 n (mkPV None (-1) (-1) (-1) (-1) (-1)) ltac:(lia) H) as [Hi _].
  exact Hi.
Qed.

(* ------------------------------------------------------------------ parse_properties *)
(* inside a nested rule (nested > 0) nothing is collected; only `before` moves *)
Definition props_nested_stmt (n : node) : Prop :=
  forall frag from pend k b acc rest, 0 < k ->
    props_go frag from (mkPP pend k b) acc (events n ++ rest) =
    props_go frag from (mkPP pend k (match n with
                                     | Decl _ _ _ _ _ _ => b
                                     | Rule _ _ _ _ close => from + (close + 1)
                                     end)) acc rest.

Lemma props_nested_seq l : Forall props_nested_stmt l ->
  forall frag from pend k b acc rest, 0 < k ->
    exists b', props_go frag from (mkPP pend k b) acc (flat_map events l ++ rest) =
               props_go frag from (mkPP pend k b') acc rest.
Proof.
  induction l as [|c r IHl]; intros Hf frag from pend k b acc rest Hk; cbn [flat_map app].
  - exists b. reflexivity.
  - inversion Hf as [|? ? Hc Hf']; subst. rewrite <- app_assoc. rewrite (Hc frag from pend k b acc _ Hk).
    apply IHl; assumption.
Qed.

Lemma props_nested : forall n, props_nested_stmt n.
Proof.
  induction n as [ns ne colon vs ve semi|ss se brace ch close IH] using node_ind';
    intros frag from pend k b acc rest Hk.
  - cbn [events app props_go ety pp_nested]. unfold truthyZ. replace (k =? 0) with false by lia.
    cbn [negb]. reflexivity.
  - cbn [events app props_go ety pp_nested pp_pending pp_before]. rewrite <- app_assoc.
    destruct (props_nested_seq ch IH frag from pend (k + 1) b acc
                ([mkEv BlockEnd close (close + 1) close] ++ rest) ltac:(lia)) as [b' Hb].
    rewrite Hb. cbn [app props_go ety eend pp_nested pp_pending pp_before].
    replace (k + 1 - 1) with k by lia. reflexivity.
Qed.

Lemma props_top frag from : forall l lo hi before acc rest, 0 <= lo -> seq_ok wf_node lo hi l ->
  props_go frag from (mkPP None 0 before) acc (flat_map events l ++ rest) =
  props_go frag from (mkPP None 0 (snd (props_items frag from before l)))
           (rev (fst (props_items frag from before l)) ++ acc) rest.
Proof.
  induction l as [|c r IHl]; intros lo hi before acc rest Hlo Hs; cbn [seq_ok flat_map app props_items] in *;
    [reflexivity|].
  destruct Hs as [Hs1 Hs2]. pose proof (wf_node_bounds _ _ _ Hs1) as Hb. rewrite <- app_assoc.
  destruct c as [ns ne colon vs ve semi|ss se brace ch close].
  - cbn in Hs1. cbn [events app props_go ety estart eend edelim pp_nested pp_pending pp_before].
    cbn [truthyZ Z.eqb negb]. cbn [node_end] in *.
    rewrite (IHl (semi + 1) hi _ _ rest ltac:(lia) Hs2).
    destruct (props_items frag from (from + semi + 1) r) as [ps b] eqn:Ep. cbn [fst snd rev].
    rewrite <- app_assoc. cbn [app].
    unfold mk_property, property_of, r_start, r_end, decl_end; cbn [fst snd].
    replace (semi =? -1) with false by lia.
    replace (from + (semi + 1)) with (from + semi + 1) by lia. reflexivity.
  - cbn [events app props_go ety estart eend edelim pp_nested pp_pending pp_before]. rewrite <- app_assoc.
    assert (Hf : Forall props_nested_stmt ch) by (clear; induction ch; constructor; [apply props_nested|assumption]).
    destruct (props_nested_seq ch Hf frag from None (0 + 1) before acc
                ([mkEv BlockEnd close (close + 1) close] ++ (flat_map events r ++ rest)) ltac:(lia)) as [b' Hb'].
    rewrite Hb'. cbn [app props_go ety eend pp_nested pp_pending pp_before].
    replace (0 + 1 - 1) with 0 by lia. cbn [node_end] in *.
    rewrite (IHl (close + 1) hi _ _ rest ltac:(lia) Hs2).
    replace (from + (close + 1)) with (from + close + 1) by lia. reflexivity.
Qed.

(* the direct declarations of a body, with exact offsets *)
Theorem props_tree frag from m l last :
  seq_ok wf_node 0 m l ->
  props_go frag from (mkPP None 0 from) [] (body_events l last) = props_spec frag from l last.
Proof.
  intros H. unfold body_events, events_forest, props_spec.
  rewrite (props_top frag from l 0 m from [] _ ltac:(lia) H).
  destruct (props_items frag from from l) as [ps b]. cbn [fst snd]. rewrite app_nil_r.
  destruct last as [[[[[ns ne] colon] vs] ve]|].
  - cbn [props_go props_flush ety estart eend edelim pp_nested pp_pending pp_before truthyZ Z.eqb negb].
    cbn [rev]. rewrite rev_involutive.
    unfold mk_property, property_of, r_start, r_end, decl_end; cbn [fst snd Z.eqb]. reflexivity.
  - cbn [props_go props_flush pp_pending]. rewrite rev_involutive, app_nil_r. reflexivity.
Qed.

(* ------------------------------------------------------------------ the end of the body *)
Lemma skipn_nth_error {A} (s : list A) : forall k,
  skipn k s = match nth_error s k with Some x => x :: skipn (S k) s | None => [] end.
Proof.
  induction s as [|x r IH]; intros [|k]; cbn [skipn nth_error]; try reflexivity. apply IH.
Qed.

(* fragment[d:d+1] == ':' for d >= 0 says that the character at d is a colon *)
Lemma slice1_colon (s : str) (d : Z) : 0 <= d ->
  str_eqb (py_slice s d (d + 1)) [c_colon] =
  match nth_error s (Z.to_nat d) with Some c => (c =? c_colon)%N | None => false end.
Proof.
  intros Hd. unfold py_slice, py_slice_bound.
  replace (d <? 0) with false by lia. replace (d + 1 <? 0) with false by lia.
  set (n := Z.of_nat (length s)).
  destruct (Z_lt_le_dec d n) as [Hlt|Hge].
  - replace (Z.min d n) with d by lia. replace (Z.min (d + 1) n) with (d + 1) by lia.
    replace (Z.to_nat (d + 1 - d)) with 1%nat by lia.
    rewrite skipn_nth_error.
    destruct (nth_error s (Z.to_nat d)) as [c|] eqn:E.
    + cbn [firstn str_eqb]. rewrite andb_true_r. reflexivity.
    + apply nth_error_None in E. subst n. lia.
  - replace (Z.min d n) with n by lia. replace (Z.min (d + 1) n) with n by lia.
    replace (Z.to_nat (n - n)) with 0%nat by lia. cbn [firstn str_eqb].
    destruct (nth_error s (Z.to_nat d)) as [c|] eqn:E; [|reflexivity].
    assert (nth_error s (Z.to_nat d) <> None) as Hn by congruence.
    apply nth_error_Some in Hn. subst n. lia.
Qed.

Lemma colon_at_test frag colon : colon_at frag colon ->
  negb (colon =? -1) && str_eqb (py_slice frag colon (colon + 1)) [c_colon] = true.
Proof.
  intros [H0 Hn]. rewrite (slice1_colon frag colon H0), Hn.
  replace (colon =? -1) with false by lia. reflexivity.
Qed.

Lemma no_colon_at_test frag d : no_colon_at frag d ->
  negb (d =? -1) && str_eqb (py_slice frag d (d + 1)) [c_colon] = false.
Proof.
  intros [->|[H0 Hn]]; [reflexivity|].
  rewrite (slice1_colon frag d H0). replace (d =? -1) with false by lia. cbn [negb andb].
  destruct (nth_error frag (Z.to_nat d)) as [c|]; [|reflexivity].
  destruct (N.eqb_spec c c_colon) as [->|]; [congruence|reflexivity].
Qed.

(* the direct declarations of a body whatever way it ends: all declarations terminated,
   last one `name : value` up to the end of the body, last one `name :` up to the end of the body *)
Theorem props_tree_tail frag from m l t :
  seq_ok wf_node 0 m l -> tail_ok frag t ->
  props_go frag from (mkPP None 0 from) [] (body_events_tail l t) = props_spec_tail frag from l t.
Proof.
  intros H Ht. unfold body_events_tail, events_forest, props_spec_tail.
  rewrite (props_top frag from l 0 m from [] _ ltac:(lia) H).
  destruct (props_items frag from from l) as [ps b]. cbn [fst snd]. rewrite app_nil_r.
  destruct t as [|ns ne colon vs ve|ns ne colon]; cbn [tail_events].
  - cbn [props_go props_flush pp_pending]. rewrite rev_involutive, app_nil_r. reflexivity.
  - cbn [props_go props_flush ety estart eend edelim pp_nested pp_pending pp_before truthyZ Z.eqb negb].
    cbn [rev]. rewrite rev_involutive.
    unfold mk_property, property_of, r_start, r_end, decl_end; cbn [fst snd Z.eqb]. reflexivity.
  - cbn [tail_ok] in Ht.
    cbn [props_go props_flush ety estart eend edelim pp_nested pp_pending pp_before truthyZ Z.eqb negb andb].
    unfold r_delim; cbn [fst snd].
    rewrite (colon_at_test frag colon Ht).
    cbn [rev]. rewrite rev_involutive.
    unfold mk_property, property_of, zlen_frag, r_start, r_end, decl_end; cbn [fst snd Z.eqb]. reflexivity.
Qed.

(* the two ways of the statement are the instances TailNone / TailValue *)
Lemma body_events_as_tail l last :
  body_events l last =
  body_events_tail l match last with Some (ns, ne, colon, vs, ve) => TailValue ns ne colon vs ve | None => TailNone end.
Proof. destruct last as [[[[[ns ne] colon] vs] ve]|]; reflexivity. Qed.

(* a trailing name that has no colon is not reported *)
Theorem props_tree_bare_name frag from m l ns ne d :
  seq_ok wf_node 0 m l -> no_colon_at frag d ->
  props_go frag from (mkPP None 0 from) [] (events_forest l ++ [mkEv PropertyName ns ne d]) =
  props_spec_tail frag from l TailNone.
Proof.
  intros H Hd. unfold events_forest, props_spec_tail.
  rewrite (props_top frag from l 0 m from [] _ ltac:(lia) H).
  destruct (props_items frag from from l) as [ps b]. cbn [fst snd]. rewrite app_nil_r.
  cbn [props_go props_flush ety estart eend edelim pp_nested pp_pending pp_before truthyZ Z.eqb negb andb].
  unfold r_delim; cbn [fst snd].
  rewrite (no_colon_at_test frag d Hd). rewrite rev_involutive, app_nil_r. reflexivity.
Qed.
