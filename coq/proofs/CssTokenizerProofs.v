(* C18 (CSS half): the token spans of CssTokenizer.ctokenize tile the input, in
   property and in value mode; the only failure is the scanner error, whose
   position lies inside the input; int()/float() never raise (no CTInternal). *)
From Coq Require Import ZifyBool.
From Emmet Require Import lib.Base lib.StyleLib model.CssTokenizer.
Local Open Scope nat_scope.

Fixpoint ctiles (l : list ctoken) (a b : nat) : Prop :=
  match l with
  | [] => a = b
  | t :: r => cstart t = a /\ a < cend t /\ ctiles r (cend t) b
  end.

(* the same on the accumulator of the loop (newest token first) *)
Fixpoint rtiles (acc : list ctoken) (a b : nat) : Prop :=
  match acc with
  | [] => a = b
  | t :: r => cend t = b /\ cstart t < cend t /\ rtiles r a (cstart t)
  end.

Lemma ctiles_app : forall l1 l2 a m b, ctiles l1 a m -> ctiles l2 m b -> ctiles (l1 ++ l2) a b.
Proof.
  induction l1 as [|t l1 IH]; intros l2 a m b H1 H2; cbn [ctiles app] in *.
  - subst. exact H2.
  - destruct H1 as [Ha [Hlt H1]]. split; [exact Ha|]. split; [exact Hlt|]. eapply IH; eassumption.
Qed.

Lemma rtiles_rev : forall acc a b, rtiles acc a b -> ctiles (rev acc) a b.
Proof.
  induction acc as [|t acc IH]; intros a b H; cbn [rtiles rev] in *.
  - exact H.
  - destruct H as [He [Hlt H]]. eapply ctiles_app; [apply IH; exact H|].
    cbn [ctiles]. split; [reflexivity|]. split; [exact Hlt|]. exact He.
Qed.

(* ------------------------------------------------------------------ generic list facts *)
Lemma cspan_le p s : cspan p s <= length s.
Proof. induction s as [|c r IH]; simpl; [lia|]. destruct (p c); simpl; lia. Qed.

Lemma cspan_forall p s : Forall (fun c => p c = true) (firstn (cspan p s) s).
Proof.
  induction s as [|c r IH]; simpl; [constructor|].
  destruct (p c) eqn:E; simpl; [constructor; assumption|constructor].
Qed.

Lemma cpeek_is_len c s : cpeek_is c s = true -> 1 <= length s.
Proof. destruct s; simpl; [discriminate|lia]. Qed.

Lemma cpeek_is_skipn c n s : cpeek_is c (skipn n s) = true -> n + 1 <= length s.
Proof. intros H. apply cpeek_is_len in H. rewrite skipn_length in H. lia. Qed.

Lemma tl_length' {A} (l : list A) : length (tl l) = length l - 1.
Proof. destruct l; simpl; lia. Qed.

Lemma tl_skipn_length' {A} n (l : list A) : length (tl (skipn n l)) = length l - n - 1.
Proof. rewrite tl_length', skipn_length. lia. Qed.

Lemma firstn_add {A} : forall n k (l : list A), firstn (n + k) l = firstn n l ++ firstn k (skipn n l).
Proof.
  induction n as [|n IH]; intros k l; [reflexivity|].
  destruct l; simpl; [destruct k; reflexivity|]. rewrite IH. reflexivity.
Qed.

Lemma Forall_firstn {A} (P : A -> Prop) n l : Forall P l -> Forall P (firstn n l).
Proof.
  revert l. induction n as [|n IH]; intros l H; [constructor|].
  destruct l; simpl; [constructor|]. inversion H; subst. constructor; auto.
Qed.
Lemma Forall_skipn {A} (P : A -> Prop) n l : Forall P l -> Forall P (skipn n l).
Proof.
  revert l. induction n as [|n IH]; intros l H; [exact H|].
  destruct l; simpl; [constructor|]. inversion H; subst. auto.
Qed.

(* ------------------------------------------------------------------ placeholder *)
Lemma cplaceholder_bound : forall s st off n st',
  cplaceholder s st off = (n, st') ->
  Forall (fun o => o <= off + length s) st ->
  off <= n <= off + length s /\ Forall (fun o => o <= off + length s) st'.
Proof.
  induction s as [|c r IH]; intros st off n st' H HF; cbn [cplaceholder] in H.
  - inversion H; subst. simpl in *. split; [lia|]. exact HF.
  - cbn [length].
    assert (HF' : Forall (fun o => o <= S off + length r) st).
    { eapply Forall_impl; [|exact HF]. cbn [length]. intros; lia. }
    destruct (c =? c_lbrace)%N.
    + apply IH in H.
      * destruct H as [H1 H2]. split; [lia|]. eapply Forall_impl; [|exact H2]. intros; simpl in *; lia.
      * constructor; [lia|exact HF'].
    + destruct (c =? c_rbrace)%N.
      * destruct st as [|o st].
        -- inversion H; subst. split; [lia|constructor].
        -- apply IH in H.
           ++ destruct H as [H1 H2]. split; [lia|]. eapply Forall_impl; [|exact H2]. intros; simpl in *; lia.
           ++ inversion HF'; assumption.
      * apply IH in H; [|exact HF'].
        destruct H as [H1 H2]. split; [lia|]. eapply Forall_impl; [|exact H2]. intros; simpl in *; lia.
Qed.

Lemma cplaceholder_nil s n st' :
  cplaceholder s [] 0 = (n, st') -> n <= length s /\ Forall (fun o => o <= length s) st'.
Proof.
  intros H. apply cplaceholder_bound in H; [|constructor]. simpl in H. destruct H; split; [lia|assumption].
Qed.

(* ------------------------------------------------------------------ digits: int() / float() never raise *)
Lemma existsb_find {A} (f : A -> bool) l : existsb f l = true -> exists z, find f l = Some z.
Proof.
  induction l as [|x l IH]; simpl; [discriminate|].
  destruct (f x); [eexists; reflexivity|]. exact IH.
Qed.

Lemma is_number_digit c : is_number c = true -> exists d, digit_value c = Some d.
Proof.
  unfold is_number, digit_value. intros H. apply existsb_find in H. destruct H as [z Hz].
  rewrite Hz. eexists; reflexivity.
Qed.

Lemma digit_not_number c : is_number c = false -> digit_value c = None.
Proof.
  unfold is_number, digit_value. intros H.
  destruct (find _ decimal_zeros) eqn:E; [|reflexivity].
  apply find_some in E. destruct E as [Hin Hf].
  assert (existsb (fun z => ((z <=? c) && (c <? z + 10))%N) decimal_zeros = true).
  { apply existsb_exists. eexists; split; eassumption. }
  congruence.
Qed.

Definition all_digits (s : str) : Prop := Forall (fun c => is_number c = true) s.

Lemma digits_value_ok : forall s acc, all_digits s -> exists m, digits_value acc s = Some m.
Proof.
  induction s as [|c r IH]; intros acc H; cbn [digits_value]; [eexists; reflexivity|].
  inversion H; subst. destruct (is_number_digit c) as [d Hd]; [assumption|]. rewrite Hd. apply IH. assumption.
Qed.

Lemma int_of_digits_acc_ok : forall s acc, all_digits s -> exists m, int_of_digits_acc acc s = Some m.
Proof.
  induction s as [|c r IH]; intros acc H; cbn [int_of_digits_acc]; [eexists; reflexivity|].
  inversion H; subst. destruct (is_number_digit c) as [d Hd]; [assumption|]. rewrite Hd. apply IH. assumption.
Qed.

Lemma int_of_str_ok s : all_digits s -> s <> [] -> exists m, int_of_str s = Some m.
Proof.
  intros H Hn. unfold int_of_str. destruct s; [congruence|]. apply int_of_digits_acc_ok. exact H.
Qed.

Lemma dot_not_number : is_number c_dot = false.
Proof. vm_compute. reflexivity. Qed.
Lemma dash_not_number : is_number c_dash = false.
Proof. vm_compute. reflexivity. Qed.

Lemma split_at_dot_digits s : all_digits s -> split_at_dot s = (s, None).
Proof.
  induction s as [|c r IH]; intros H; cbn [split_at_dot]; [reflexivity|].
  inversion H; subst.
  destruct (c =? c_dot)%N eqn:E.
  - apply N.eqb_eq in E. subst c. rewrite dot_not_number in *. discriminate.
  - rewrite IH by assumption. reflexivity.
Qed.

Lemma split_at_dot_app s f : all_digits s -> split_at_dot (s ++ c_dot :: f) = (s, Some f).
Proof.
  induction s as [|c r IH]; intros H; cbn [split_at_dot app].
  - rewrite N.eqb_refl. reflexivity.
  - inversion H; subst.
    destruct (c =? c_dot)%N eqn:E.
    + apply N.eqb_eq in E. subst c. rewrite dot_not_number in *. discriminate.
    + rewrite IH by assumption. reflexivity.
Qed.

(* shape  ip ( . fp )?  with digits only and at least one digit *)
Lemma dec_of_body_ok neg ip (fpo : option str) :
  all_digits ip ->
  match fpo with Some fp => all_digits fp | None => True end ->
  (ip <> [] \/ exists fp, fpo = Some fp /\ fp <> []) ->
  exists d, dec_of_body neg (ip ++ match fpo with Some fp => c_dot :: fp | None => [] end) = Some d.
Proof.
  intros Hip Hfp Hne. unfold dec_of_body.
  destruct fpo as [fp|].
  - rewrite split_at_dot_app by assumption. cbn [fst snd].
    destruct (digits_value_ok (ip ++ fp) 0%N) as [m Hm].
    { apply Forall_app; split; assumption. }
    rewrite Hm.
    destruct ip as [|i ip']; [|eexists; reflexivity].
    destruct fp as [|f fp']; [|eexists; reflexivity].
    destruct Hne as [Hne|[fp [Heq Hne]]]; [congruence|]. inversion Heq; subst. congruence.
  - rewrite app_nil_r. rewrite split_at_dot_digits by assumption. cbn [fst snd]. rewrite app_nil_r.
    destruct (digits_value_ok ip 0%N) as [m Hm]; [assumption|]. rewrite Hm.
    destruct ip as [|i ip']; [|eexists; reflexivity].
    destruct Hne as [Hne|[fp [Heq Hne]]]; [congruence|discriminate].
Qed.

(* ------------------------------------------------------------------ consumers *)
Definition ccres_ok (r : ccres) (len : nat) : Prop :=
  match r with
  | CNone => True
  | CTok _ n => 1 <= n <= len
  | CErr off => off <= len
  | CInt _ => False
  end.

Lemma cfield_ok s : ccres_ok (cfield s) (length s).
Proof.
  unfold cfield.
  destruct s as [|c1 [|c2 r]]; try exact I.
  destruct ((c1 =? c_dollar)%N && (c2 =? c_lbrace)%N); [|exact I].
  pose proof (cspan_le is_number r) as Hsp.
  pose proof (cspan_forall is_number r) as Hall.
  cbn [length].
  generalize dependent (cspan is_number r). intros nd Hsp Hall.
  destruct nd as [|nd'].
  - destruct (cpeek_p is_alpha r).
    + destruct (cplaceholder r [] 0) as [n st] eqn:Hp.
      apply cplaceholder_nil in Hp. destruct Hp as [Hn Hst].
      destruct st as [|o st].
      * destruct (cpeek_is c_rbrace (skipn n r)) eqn:Hk; cbn [ccres_ok].
        -- apply cpeek_is_skipn in Hk. lia.
        -- lia.
      * cbn [ccres_ok]. inversion Hst; subst. lia.
    + destruct (cpeek_is c_rbrace (skipn 0 r)) eqn:Hk; cbn [ccres_ok].
      * apply cpeek_is_skipn in Hk. lia.
      * lia.
  - remember (S nd') as nd eqn:End.
    destruct (int_of_str_ok (firstn nd r)) as [idx Hidx]; [exact Hall| |].
    { intros E. apply (f_equal (@length _)) in E. rewrite firstn_length in E. cbn [length] in E. lia. }
    rewrite Hidx.
    destruct (cpeek_is c_colon (skipn nd r)) eqn:Hc.
    + apply cpeek_is_skipn in Hc.
      destruct (cplaceholder (tl (skipn nd r)) [] 0) as [n st] eqn:Hp.
      apply cplaceholder_nil in Hp. destruct Hp as [Hn Hst].
      rewrite tl_skipn_length' in Hn, Hst.
      destruct st as [|o st].
      * destruct (cpeek_is c_rbrace (skipn (nd + 1 + n) r)) eqn:Hk; cbn [ccres_ok].
        -- apply cpeek_is_skipn in Hk. lia.
        -- lia.
      * cbn [ccres_ok]. inversion Hst; subst. lia.
    + destruct (cpeek_is c_rbrace (skipn nd r)) eqn:Hk; cbn [ccres_ok].
      * apply cpeek_is_skipn in Hk. lia.
      * lia.
Qed.

Lemma ccustom_property_ok s : ccres_ok (ccustom_property s) (length s).
Proof.
  unfold ccustom_property. destruct s as [|c1 [|c2 r]]; try exact I.
  destruct ((c1 =? c_dash)%N && (c2 =? c_dash)%N); [|exact I].
  pose proof (cspan_le is_keyword r). cbn [ccres_ok length]. lia.
Qed.

Lemma number_body_spec s1 :
  number_body s1 <= length s1 /\
  (number_body s1 <> 0 ->
   exists ip fpo,
     firstn (number_body s1) s1 = ip ++ match fpo with Some fp => c_dot :: fp | None => [] end /\
     all_digits ip /\ match fpo with Some fp => all_digits fp | None => True end /\
     (ip <> [] \/ exists fp, fpo = Some fp /\ fp <> [])).
Proof.
  unfold number_body.
  pose proof (cspan_le is_number s1) as Hnd.
  pose proof (cspan_forall is_number s1) as Hall.
  set (nd := cspan is_number s1) in *.
  set (s2 := skipn nd s1).
  assert (Hs2 : length s2 = length s1 - nd) by apply skipn_length.
  destruct (cpeek_is c_dot s2) eqn:Hd.
  - destruct s2 as [|c rest] eqn:Es2; [discriminate|]. cbn [cpeek_is] in Hd. apply N.eqb_eq in Hd. subst c.
    cbn [tl].
    pose proof (cspan_le is_number rest) as Hnf.
    pose proof (cspan_forall is_number rest) as Hallf.
    set (nf := cspan is_number rest) in *.
    cbn [length] in Hs2.
    assert (Hne_len : forall (l : str) k, length (firstn k l) = 0 -> k <= length l -> k = 0).
    { intros l k E Hk. rewrite firstn_length in E. lia. }
    assert (Hsplit : firstn (nd + (1 + nf)) s1 = firstn nd s1 ++ c_dot :: firstn nf rest).
    { rewrite firstn_add. fold s2. rewrite Es2. reflexivity. }
    destruct nd as [|nd'] eqn:End; [destruct nf as [|nf'] eqn:Enf|]; cbv iota beta.
    + split; [lia|]. intros H; congruence.
    + split; [lia|]. intros _. exists (firstn 0 s1), (Some (firstn (S nf') rest)).
      split; [exact Hsplit|]. split; [exact Hall|]. split; [exact Hallf|].
      right. eexists; split; [reflexivity|]. intros E. apply (f_equal (@length _)) in E.
      rewrite firstn_length in E. cbn [length] in E. lia.
    + split; [lia|]. intros _. exists (firstn (S nd') s1), (Some (firstn nf rest)).
      split; [exact Hsplit|]. split; [exact Hall|]. split; [exact Hallf|].
      left. intros E. apply (f_equal (@length _)) in E. rewrite firstn_length in E. cbn [length] in E. lia.
  - split; [lia|]. intros Hne. exists (firstn nd s1), None.
    split; [rewrite app_nil_r; reflexivity|]. split; [exact Hall|]. split; [exact I|].
    left. intros E. apply (f_equal (@length _)) in E. rewrite firstn_length in E. cbn [length] in E. lia.
Qed.

Lemma consume_number_spec s :
  consume_number s <= length s /\
  (consume_number s <> 0 -> exists d, dec_of_raw (firstn (consume_number s) s) = Some d).
Proof.
  unfold consume_number.
  destruct (cpeek_is c_dash s) eqn:Hneg.
  - destruct s as [|c s1]; [discriminate|]. cbn [cpeek_is] in Hneg. cbn [tl].
    destruct (number_body_spec s1) as [Hle Hsh].
    destruct (number_body s1) as [|u] eqn:Eu; [split; [lia|congruence]|].
    split; [cbn [length]; lia|]. intros _.
    destruct Hsh as [ip [fpo [Hf [H1 [H2 H3]]]]]; [congruence|].
    change (firstn (1 + S u) (c :: s1)) with (c :: firstn (S u) s1). unfold dec_of_raw. rewrite Hneg. rewrite Hf.
    apply dec_of_body_ok; assumption.
  - destruct (number_body_spec s) as [Hle Hsh].
    destruct (number_body s) as [|u] eqn:Eu; [split; [lia|congruence]|].
    split; [cbn [Nat.add]; lia|]. intros _.
    destruct Hsh as [ip [fpo [Hf [H1 [H2 H3]]]]]; [congruence|].
    change (0 + S u) with (S u). rewrite Hf.
    destruct s as [|c s']; [simpl in Hle; lia|]. cbn [cpeek_is] in Hneg.
    cbn [firstn] in Hf.
    assert (Hd : forall X, c :: firstn u s' = X -> dec_of_raw X = dec_of_body false X).
    { intros X HX. subst X. unfold dec_of_raw. rewrite Hneg. reflexivity. }
    rewrite (Hd _ Hf). apply dec_of_body_ok; assumption.
Qed.

Lemma cnumber_value_ok s : ccres_ok (cnumber_value s) (length s).
Proof.
  unfold cnumber_value.
  destruct (consume_number_spec s) as [Hle Hraw].
  destruct (consume_number s) as [|n'] eqn:En; [exact I|].
  destruct Hraw as [d Hd]; [congruence|]. rewrite Hd.
  set (rest := skipn (S n') s).
  assert (Hr : length rest = length s - S n') by apply skipn_length.
  destruct (cpeek_is c_percent rest) eqn:Hp.
  - apply cpeek_is_len in Hp. cbn [ccres_ok]. lia.
  - pose proof (cspan_le is_alpha_word rest). cbn [ccres_ok]. lia.
Qed.

(* ---- colors *)
Definition hexc (c : char) : Prop := is_hex c = true.

Lemma hex_digit_ok c : hexc c -> exists d, hex_digit_value c = Some d.
Proof.
  unfold hexc, is_hex, hex_digit_value. intros H.
  destruct (is_number c) eqn:En.
  - destruct (is_number_digit c En) as [d Hd]. rewrite Hd. eexists; reflexivity.
  - rewrite (digit_not_number c En).
    destruct (in_range c_a c_f c); [eexists; reflexivity|].
    destruct (in_range c_A c_F c); [eexists; reflexivity|]. discriminate.
Qed.

Lemma hex_value_acc_ok : forall s acc, Forall hexc s -> exists v, hex_value_acc acc s = Some v.
Proof.
  induction s as [|c r IH]; intros acc H; cbn [hex_value_acc]; [eexists; reflexivity|].
  inversion H; subst. destruct (hex_digit_ok c) as [d Hd]; [assumption|]. rewrite Hd. apply IH. assumption.
Qed.

Lemma hex_value_ok s : Forall hexc s -> s <> [] -> exists v, hex_value s = Some v.
Proof. intros H Hn. unfold hex_value. destruct s; [congruence|]. apply hex_value_acc_ok. exact H. Qed.

Lemma zero_hexc : hexc c_0.
Proof. vm_compute. reflexivity. Qed.

Lemma three_hex (r g b : str) (a : dec) :
  Forall hexc r -> r <> [] -> Forall hexc g -> g <> [] -> Forall hexc b -> b <> [] ->
  exists x, match hex_value r, hex_value g, hex_value b with
            | Some rv, Some gv, Some bv => Some (rv, gv, bv, a)
            | _, _, _ => None
            end = Some x.
Proof.
  intros Hr Hrn Hg Hgn Hb Hbn.
  destruct (hex_value_ok r Hr Hrn) as [rv ->].
  destruct (hex_value_ok g Hg Hgn) as [gv ->].
  destruct (hex_value_ok b Hb Hbn) as [bv ->].
  eexists; reflexivity.
Qed.

Lemma slice_hex v a b : Forall hexc v -> Forall hexc (slice v a b).
Proof. intros H. unfold slice. apply Forall_firstn, Forall_skipn, H. Qed.

Lemma slice_nonempty (v : str) a b : a < b -> b <= length v -> slice v a b <> [].
Proof.
  intros H1 H2 E. apply (f_equal (@length _)) in E. unfold slice in E.
  rewrite firstn_length, skipn_length in E. cbn [length] in E. lia.
Qed.

Lemma rjust0_hex w v : Forall hexc v -> Forall hexc (rjust0 w v).
Proof.
  intros H. unfold rjust0. apply Forall_app. split; [|exact H].
  apply Forall_forall. intros x Hx. apply repeat_spec in Hx. subst x. exact zero_hexc.
Qed.
Lemma rjust0_length w (v : str) : w <= length (rjust0 w v).
Proof. unfold rjust0. rewrite app_length, repeat_length. lia. Qed.

Lemma parse_color_ok color alpha :
  Forall hexc color ->
  (alpha = [] \/ exists d, dec_of_raw alpha = Some d) ->
  exists x, parse_color color alpha = Some x.
Proof.
  intros Hc Ha. unfold parse_color.
  assert (Hao : exists a0, match alpha with [] => Some dec_one | _ => dec_of_raw alpha end = Some a0).
  { destruct Ha as [->|[d Hd]]; [eexists; reflexivity|].
    destruct alpha; [eexists; reflexivity|]. rewrite Hd. eexists; reflexivity. }
  destruct Hao as [a0 ->].
  assert (Hz : Forall hexc [c_0]) by (constructor; [exact zero_hexc|constructor]).
  assert (Hzn : [c_0] <> []) by discriminate.
  destruct (str_eqb color [c_t]).
  - apply three_hex; assumption.
  - destruct color as [|x [|y [|z [|w rest]]]].
    + apply three_hex; assumption.
    + inversion Hc; subst.
      assert (Forall hexc (rep2 x)) by (unfold rep2; repeat constructor; assumption).
      apply three_hex; try assumption; discriminate.
    + apply three_hex; try assumption; discriminate.
    + inversion Hc as [|? ? Hx Hc1]; subst. inversion Hc1 as [|? ? Hy Hc2]; subst. inversion Hc2 as [|? ? Hzz Hc3]; subst.
      apply three_hex; try discriminate; unfold rep2; repeat constructor; assumption.
    + set (value := x :: y :: z :: w :: rest) in *.
      pose proof (rjust0_length 6 value) as Hl.
      pose proof (rjust0_hex 6 value Hc) as Hh.
      apply three_hex; try (apply slice_hex; exact Hh); apply slice_nonempty; lia.
Qed.

Lemma dot_not_dash : (c_dot =? c_dash)%N = false.
Proof. reflexivity. Qed.

Lemma color_alpha_spec s :
  snd (color_alpha s) <= length s /\
  (fst (color_alpha s) = [] \/ exists d, dec_of_raw (fst (color_alpha s)) = Some d).
Proof.
  unfold color_alpha.
  destruct (cpeek_is c_dot s) eqn:Hd; [|cbn [fst snd]; split; [lia|left; reflexivity]].
  destruct s as [|c r]; [discriminate|]. cbn [cpeek_is] in Hd. apply N.eqb_eq in Hd. subst c. cbn [tl].
  pose proof (cspan_le is_number r) as Hle.
  pose proof (cspan_forall is_number r) as Hall.
  destruct (cspan is_number r) as [|nd] eqn:En; cbn [fst snd length].
  - split; [lia|]. right. vm_compute. eexists; reflexivity.
  - split; [lia|]. right.
    change (firstn (S (S nd)) (c_dot :: r)) with (c_dot :: firstn (S nd) r).
    unfold dec_of_raw. rewrite dot_not_dash.
    apply (dec_of_body_ok false [] (Some (firstn (S nd) r))); [constructor|exact Hall|].
    right. eexists; split; [reflexivity|]. intros E. apply (f_equal (@length _)) in E.
    rewrite firstn_length in E. cbn [length] in E. lia.
Qed.

Lemma ccolor_value_ok s : ccres_ok (ccolor_value s) (length s).
Proof.
  unfold ccolor_value. destruct s as [|c r]; [exact I|].
  destruct (c =? c_hash)%N; [|exact I].
  pose proof (cspan_le is_hex r) as Hnh.
  pose proof (cspan_forall is_hex r) as Hhex.
  assert (Hfin : forall color alpha used,
             Forall hexc color -> (alpha = [] \/ exists d, dec_of_raw alpha = Some d) -> used <= length r ->
             ccres_ok
               (match color, alpha, match skipn used r with [] => true | _ => false end with
                | [], [], false => CTok (CLiteral [c_hash]) 1
                | _, _, _ => match parse_color color alpha with
                             | Some (rv, gv, bv, a) => CTok (CColor rv gv bv a (firstn used r)) (S used)
                             | None => CInt IK_Value
                             end
                end) (length (c :: r))).
  { intros color alpha used Hc Ha Hu.
    destruct (parse_color_ok color alpha Hc Ha) as [[[[rv gv] bv] a] Hp]. rewrite Hp.
    destruct color; destruct alpha; destruct (skipn used r); cbn [ccres_ok length]; lia. }
  destruct (cspan is_hex r) as [|nh'] eqn:Enh.
  - destruct (cpeek_is c_t r) eqn:Ht.
    + destruct (color_alpha_spec (tl r)) as [Hna Hal].
      destruct (color_alpha (tl r)) as [al na]. cbn [fst snd] in *.
      rewrite tl_length' in Hna. apply cpeek_is_len in Ht.
      apply (Hfin [c_0] (match al with [] => [c_0] | _ => al end) (S na)); [constructor; [exact zero_hexc|constructor]| |lia].
      destruct al; [right; vm_compute; eexists; reflexivity|exact Hal].
    + destruct (color_alpha_spec r) as [Hna Hal].
      destruct (color_alpha r) as [al na]. cbn [fst snd] in *.
      apply (Hfin [] al na); [constructor|exact Hal|lia].
  - destruct (color_alpha_spec (skipn (S nh') r)) as [Hna Hal].
    destruct (color_alpha (skipn (S nh') r)) as [al na]. cbn [fst snd] in *.
    rewrite skipn_length in Hna.
    apply (Hfin (firstn (S nh') r) al (S nh' + na)); [exact Hhex|exact Hal|lia].
Qed.

(* ---- strings, brackets, operators, white space, literals *)
Lemma find_quote_bound : forall q s n, find_quote q s = Some n -> n + 1 <= length s.
Proof.
  induction s as [|c r IH]; intros n H; cbn [find_quote] in H; [discriminate|].
  destruct (c =? q)%N; [inversion H; subst; simpl; lia|].
  destruct (find_quote q r) eqn:E; [|discriminate]. inversion H; subst. specialize (IH _ eq_refl). simpl. lia.
Qed.

Lemma cstring_value_ok s : ccres_ok (cstring_value s) (length s).
Proof.
  unfold cstring_value. destruct s as [|c r]; [exact I|].
  destruct (is_quote c); [|exact I].
  destruct (find_quote c r) eqn:E; cbn [ccres_ok length]; [apply find_quote_bound in E|]; lia.
Qed.

Lemma cbracket_ok s : ccres_ok (cbracket s) (length s).
Proof. unfold cbracket. destruct s; [exact I|]. destruct (is_cbracket c); simpl; [lia|exact I]. Qed.

Lemma coperator_ok s : ccres_ok (coperator s) (length s).
Proof. unfold coperator. destruct s; [exact I|]. destruct (assoc_N c css_operator_map); simpl; [lia|exact I]. Qed.

Lemma cwhite_space_ok s : ccres_ok (cwhite_space s) (length s).
Proof.
  unfold cwhite_space. pose proof (cspan_le is_space s). destruct (cspan is_space s); simpl; [exact I|lia].
Qed.

Lemma cliteral_ok short at_start s : ccres_ok (cliteral short at_start s) (length s).
Proof.
  unfold cliteral. destruct s as [|c r]; [exact I|].
  destruct (is_ident_prefix c).
  - pose proof (cspan_le (if at_start then is_cliteral else is_keyword) r). cbn [ccres_ok length]. lia.
  - destruct (is_alpha_word c).
    + pose proof (cspan_le (if short then is_cliteral else is_keyword) r). cbn [ccres_ok length]. lia.
    + destruct (cpeek_is c_dot (c :: r)).
      * pose proof (cspan_le is_cliteral r). cbn [ccres_ok length Nat.add]. lia.
      * pose proof (cspan_le is_cliteral (c :: r)) as H. cbn [Nat.add].
        destruct (cspan is_cliteral (c :: r)); [exact I|]. cbn [ccres_ok]. cbn [length] in *. lia.
Qed.

Lemma corelse_ok a b len : ccres_ok a len -> ccres_ok (b tt) len -> ccres_ok (corelse a b) len.
Proof. destruct a; simpl; auto. Qed.

Lemma cconsume_ok short at_start s : ccres_ok (cconsume short at_start s) (length s).
Proof.
  unfold cconsume.
  repeat apply corelse_ok;
    auto using ccustom_property_ok, cfield_ok, cnumber_value_ok, ccolor_value_ok, cstring_value_ok,
               cbracket_ok, coperator_ok, cwhite_space_ok, cliteral_ok.
Qed.

(* ------------------------------------------------------------------ merge_tokens keeps the tiling *)
Lemma merge_pop_spec : forall acc st en b,
  rtiles acc 0 b ->
  forall rest st' en', merge_pop acc st en = (rest, st', en') ->
  (rest = acc /\ st' = st /\ en' = en) \/
  (rtiles rest 0 st' /\ st' < b /\ en' = match en with O => b | _ => en end).
Proof.
  induction acc as [|t r IH]; intros st en b Ht rest st' en' H; cbn [merge_pop] in H.
  - inversion H; subst. left. auto.
  - destruct (is_lit_or_num (ck t)).
    + cbn [rtiles] in Ht. destruct Ht as [He [Hlt Hr]].
      specialize (IH _ _ _ Hr _ _ _ H). right.
      destruct IH as [[-> [-> ->]]|[H1 [H2 H3]]].
      * split; [exact Hr|]. split; [lia|]. destruct en; [exact He|reflexivity].
      * split; [exact H1|]. split; [lia|]. subst en'.
        destruct en; [|reflexivity]. destruct (cend t) eqn:E; [lia|]. lia.
    + inversion H; subst. left. auto.
Qed.

Lemma merge_tokens_tiles src acc b : rtiles acc 0 b -> rtiles (merge_tokens src acc) 0 b.
Proof.
  intros Ht. unfold merge_tokens.
  destruct (merge_pop acc 0 0) as [[rest st] en] eqn:E.
  destruct (merge_pop_spec _ _ _ _ Ht _ _ _ E) as [[-> [-> ->]]|[H1 [H2 H3]]].
  - cbn [Nat.eqb]. exact Ht.
  - subst en. destruct (Nat.eqb st b) eqn:Eb; [apply Nat.eqb_eq in Eb; lia|].
    cbn [rtiles cstart cend]. auto.
Qed.

(* ------------------------------------------------------------------ main loop *)
Lemma coperator_tok s k n : coperator s = CTok k n -> 1 <= length s.
Proof. destruct s; simpl; [discriminate|lia]. Qed.

Lemma ctoks_tiles : forall s src v skip br acc pos l,
  skip <= length s ->
  rtiles acc 0 (pos + skip) ->
  ctoks src v skip br acc pos s = CTOk l ->
  ctiles l 0 (pos + length s).
Proof.
  induction s as [|c r IH]; intros src v skip br acc pos l Hs Hacc H.
  - cbn [ctoks] in H. inversion H; subst. cbn [length] in *.
    replace (pos + 0) with (pos + skip) by lia. apply rtiles_rev. exact Hacc.
  - cbn [ctoks] in H. cbn [length] in *. destruct skip as [|k].
    + pose proof (cconsume_ok (Nat.eqb br 0 && negb v) (Nat.eqb pos 0) (c :: r)) as Hc.
      destruct (cconsume (Nat.eqb br 0 && negb v) (Nat.eqb pos 0) (c :: r)) as [|kd n|off|ik]; try discriminate.
      cbn [ccres_ok length] in Hc.
      replace (pos + S (length r)) with (S pos + length r) by lia.
      rewrite Nat.add_0_r in Hacc.
      assert (Hplain : forall b' acc', rtiles acc' 0 pos ->
                 ctoks src v (pred n) b' (mkCTok kd pos (pos + n) :: acc') (S pos) r = CTOk l ->
                 ctiles l 0 (S pos + length r)).
      { intros b' acc' Ha' H'. eapply IH; [| |exact H']; [lia|].
        cbn [rtiles cstart cend]. split; [lia|]. split; [lia|exact Ha']. }
      assert (Hdash : (match (if should_consume_dash_after kd then coperator (skipn n (c :: r)) else CNone) with
                       | CTok k2 _ => ctoks src v n br (mkCTok k2 (pos + n) (pos + n + 1) :: mkCTok kd pos (pos + n) :: acc) (S pos) r
                       | _ => ctoks src v (pred n) br (mkCTok kd pos (pos + n) :: acc) (S pos) r
                       end = CTOk l) -> ctiles l 0 (S pos + length r)).
      { intros H'.
        destruct (if should_consume_dash_after kd then coperator (skipn n (c :: r)) else CNone) as [|k2 n2|off|ik] eqn:Eop;
          try (apply (Hplain br acc Hacc H')).
        destruct (should_consume_dash_after kd); [|discriminate].
        apply coperator_tok in Eop. rewrite skipn_length in Eop. cbn [length] in Eop.
        eapply IH; [| |exact H']; [lia|].
        cbn [rtiles cstart cend]. split; [lia|]. split; [lia|]. split; [reflexivity|]. split; [lia|exact Hacc]. }
      destruct kd as [v0|v0|v0 raw u|cr cg cb ca raw|v0 sg|nm ix|op|op|]; try (apply Hdash; exact H).
      destruct op; destruct br as [|br']; try discriminate; cbn [Nat.eqb andb] in H;
        (eapply Hplain; [|exact H]); try exact Hacc.
      apply merge_tokens_tiles. exact Hacc.
    + eapply IH in H; [| |]; [|lia|].
      * replace (pos + S (length r)) with (S pos + length r) by lia. exact H.
      * replace (S pos + k) with (pos + S k) by lia. exact Hacc.
Qed.

Lemma ctoks_err : forall s src v skip br acc pos p,
  ctoks src v skip br acc pos s = CTErr p -> pos <= p <= pos + length s.
Proof.
  induction s as [|c r IH]; intros src v skip br acc pos p H; [discriminate|].
  cbn [ctoks] in H. cbn [length]. destruct skip as [|k].
  - pose proof (cconsume_ok (Nat.eqb br 0 && negb v) (Nat.eqb pos 0) (c :: r)) as Hc.
    destruct (cconsume (Nat.eqb br 0 && negb v) (Nat.eqb pos 0) (c :: r)) as [|kd n|off|ik]; try discriminate.
    + inversion H; subst. lia.
    + assert (Hrec : forall sk b' acc', ctoks src v sk b' acc' (S pos) r = CTErr p -> pos <= p <= pos + S (length r)).
      { intros sk b' acc' H'. apply IH in H'. lia. }
      destruct kd as [v0|v0|v0 raw u|cr cg cb ca raw|v0 sg|nm ix|op|op|];
        try (match type of H with
             | context [if ?b then coperator ?x else CNone] =>
                 destruct (if b then coperator x else CNone); eapply Hrec; exact H
             end).
      destruct op; destruct br as [|br']; try (eapply Hrec; exact H).
      inversion H; subst. lia.
    + inversion H; subst. cbn [ccres_ok length] in Hc. lia.
  - apply IH in H. lia.
Qed.

Lemma ctoks_no_internal : forall s src v skip br acc pos k,
  ctoks src v skip br acc pos s <> CTInternal k.
Proof.
  induction s as [|c r IH]; intros src v skip br acc pos k H; [discriminate|].
  cbn [ctoks] in H. destruct skip as [|sk].
  - pose proof (cconsume_ok (Nat.eqb br 0 && negb v) (Nat.eqb pos 0) (c :: r)) as Hc.
    destruct (cconsume (Nat.eqb br 0 && negb v) (Nat.eqb pos 0) (c :: r)) as [|kd n|off|ik]; try discriminate.
    + destruct kd as [v0|v0|v0 raw u|cr cg cb ca raw|v0 sg|nm ix|op|op|];
        try (match type of H with
             | context [if ?b then coperator ?x else CNone] =>
                 destruct (if b then coperator x else CNone); eapply IH; exact H
             end).
      destruct op; destruct br as [|br']; try discriminate; eapply IH; exact H.
    + exact Hc.
  - eapply IH; exact H.
Qed.

Theorem ctokenize_tiles v s l : ctokenize v s = CTOk l -> ctiles l 0 (length s).
Proof. intros H. apply (ctoks_tiles s s v 0 0 [] 0 l) in H; [exact H|lia|reflexivity]. Qed.

Theorem ctokenize_error_inside v s p : ctokenize v s = CTErr p -> p <= length s.
Proof. intros H. apply ctoks_err in H. simpl in H. lia. Qed.

Theorem ctokenize_no_internal v s k : ctokenize v s <> CTInternal k.
Proof. apply ctoks_no_internal. Qed.

(* every character belongs to exactly one token: the source slices of the tokens
   concatenate to the source *)
Lemma cskipn_add {A} : forall n k (l : list A), skipn n (skipn k l) = skipn (n + k) l.
Proof.
  intros n k; revert n. induction k as [|k IH]; intros n l; [rewrite Nat.add_0_r; reflexivity|].
  destruct l; [rewrite !skipn_nil; reflexivity|]. rewrite Nat.add_succ_r. simpl. apply IH.
Qed.

Lemma cslice_app {A} (s : list A) a m b : a <= m -> m <= b -> slice s a m ++ slice s m b = slice s a b.
Proof.
  intros H1 H2. unfold slice.
  replace (b - a) with ((m - a) + (b - m)) by lia. rewrite firstn_add.
  rewrite cskipn_add. replace (m - a + a) with m by lia. reflexivity.
Qed.

Lemma ctiles_le : forall l a b, ctiles l a b -> a <= b.
Proof.
  induction l as [|u l IH]; intros a b H; cbn [ctiles] in H; [lia|].
  destruct H as [? [? H]]. apply IH in H. lia.
Qed.

Lemma ctiles_concat : forall l (s : str) a b,
  ctiles l a b -> concat (map (fun t => slice s (cstart t) (cend t)) l) = slice s a b.
Proof.
  induction l as [|t l IH]; intros s a b H; cbn [ctiles] in H.
  - subst. unfold slice. rewrite Nat.sub_diag. reflexivity.
  - destruct H as [Ha [Hlt Ht]]. cbn [map concat]. rewrite (IH s (cend t) b Ht). subst a.
    apply cslice_app; [lia|]. eapply ctiles_le; eassumption.
Qed.

Theorem ctokenize_lossless v s l :
  ctokenize v s = CTOk l -> concat (map (fun t => slice s (cstart t) (cend t)) l) = s.
Proof.
  intros H. apply ctokenize_tiles in H. rewrite (ctiles_concat l s 0 (length s) H).
  unfold slice. simpl. rewrite Nat.sub_0_r. apply firstn_all.
Qed.
