(* C04 / C02 -- an `{expression}` attribute value WITH numbering inside any brace depth: `name[n={a{$}b}]`.
   The payload grammar, its tokens and its value are those of proofs/TextNested.v; the tokenizer segments
   ([seg]) and the attribute parser lemmas are those of proofs/AttrText.v, AttrParseProofs.v, AttrTextParse.v. *)
From Coq Require Import ZArith List Bool Lia ZifyBool.
From Emmet Require Import lib.Base model.MarkupTokenizer model.MarkupParser model.MarkupConvert model.MarkupResolve
     proofs.ParserSpine proofs.TextSpec proofs.TextProofs proofs.TextParse proofs.TextLiteral proofs.NumberingProofs
     proofs.AttrParseProofs proofs.AttrText proofs.AttrTextParse proofs.AttrTextConvert proofs.TextNested.
Local Open Scope nat_scope.

(* ================================================================ the tokenizer *)
(* the payload between the braces of an expression value: the same tokens as in element text *)
Lemma seg_nested g P :
  payload_ok P = true ->
  seg (CE g) (payload_text P) (fun pos => payload_tokens pos P) (CE g) (starts_with_c c_rbrace).
Proof. intros Hb prev pos rest [r ->]. apply (toks_payload P g 1 prev pos r Hb). Qed.

Definition attr_nested_text (name n : str) (P : payload) : str :=
  name ++ c_lbrack :: n ++ c_eq :: c_lbrace :: payload_text P ++ [c_rbrace; c_rbrack].

Definition attr_nested_run (pos : nat) (n : str) (P : payload) : list token :=
  let p := pos + length n in
  word_tok pos n :: tk1 (TOperator OpEqual) p :: tk1 (TBracket true BExpr) (p + 1)
  :: payload_tokens (p + 2) P ++ [tk1 (TBracket false BExpr) (p + 2 + length (payload_text P))].

Definition attr_nested_tokens (name n : str) (P : payload) : list token :=
  let ln := length name in
  word_tok 0 name :: tk1 (TBracket true BAttr) ln
  :: attr_nested_run (ln + 1) n P
  ++ [tk1 (TBracket false BAttr) (ln + 1 + length n + 2 + length (payload_text P) + 1)].

Lemma wstop_lbrack rest : wstop (c_lbrack :: rest).
Proof. cbn [wstop]. split; [vm_compute; reflexivity|]. split; [discriminate|]. intros E. discriminate E. Qed.

Lemma toks_attr_nested_elem name n P rest :
  word_ok name -> n <> [] -> forallb asafe n = true -> payload_ok P = true ->
  toks 0 ctx0 None 0 (attr_nested_text name n P ++ rest) =
    tcons (attr_nested_tokens name n P)
          (toks 0 ctx0 (Some c_rbrack) (length (attr_nested_text name n P)) rest).
Proof.
  intros Hname Hne Hsafe Hb. unfold attr_nested_text.
  pose proof (seg_app _ _ _ _ _ _ _ _ _ (seg_rbrace 0) (seg_rbrack 0) (fun rest _ => I)) as S7.
  pose proof (seg_app _ _ _ _ _ _ _ _ _ (seg_nested 0 P Hb) S7
                (fun rest _ => ex_intro _ ([c_rbrack] ++ rest) eq_refl)) as S6.
  pose proof (seg_app _ _ _ _ _ _ _ _ _ (seg_lbrace 0) S6 (fun rest _ => I)) as S5.
  pose proof (seg_app _ _ _ _ _ _ _ _ _ (seg_eq 0) S5 (fun rest _ => I)) as S4.
  pose proof (seg_app _ _ _ _ _ _ _ _ _ (seg_aword 0 n Hne Hsafe) S4 (fun rest _ => eq_refl)) as S3.
  pose proof (seg_app _ _ _ _ _ _ _ _ _ (seg_lbrack 0) S3 (fun rest _ => I)) as S2.
  pose proof (seg_app _ _ _ _ _ _ _ _ _ (seg_word0 0 name Hname) S2 (fun rest _ => wstop_lbrack _)) as S1.
  pose proof (S1 None 0 rest I) as E.
  change (C0 0) with ctx0 in E.
  match type of E with toks 0 ctx0 None 0 (?a ++ rest) = _ =>
    replace (name ++ c_lbrack :: n ++ c_eq :: c_lbrace :: payload_text P ++ [c_rbrace; c_rbrack]) with a
  end.
  2:{ cbn [app]. reflexivity. }
  rewrite E. clear E S1 S2 S3 S4 S5 S6 S7.
  match goal with
  | |- tcons ?a (toks 0 ctx0 ?p1 ?q1 rest) = tcons ?b (toks 0 ctx0 ?p2 ?q2 rest) =>
      replace p1 with p2; [replace a with b; [replace q1 with q2 by reflexivity; reflexivity|]|]
  end.
  - unfold attr_nested_tokens, attr_nested_run. cbn [app Nat.add length]. rewrite <- app_assoc. cbn [app].
    unfold tk1, word_tok. repeat (f_equal; try lia).
  - rewrite !last_prev_app. reflexivity.
Qed.

Theorem tokenize_attr_nested name n P :
  word_ok name -> n <> [] -> forallb asafe n = true -> payload_ok P = true ->
  tokenize (attr_nested_text name n P) = TOk (attr_nested_tokens name n P).
Proof.
  intros Hname Hne Hsafe Hb. unfold tokenize.
  pose proof (toks_attr_nested_elem name n P [] Hname Hne Hsafe Hb) as E. rewrite app_nil_r in E.
  rewrite E. cbn [toks tcons]. rewrite app_nil_r. reflexivity.
Qed.

(* ================================================================ the parser *)
Definition attr_nested_tattr (pos : nat) (n : str) (P : payload) : tattr :=
  let p := pos + length n in
  mkTAttr (Some [word_tok pos n])
          (Some (tk1 (TBracket true BExpr) (p + 1)
                 :: payload_tokens (p + 2) P ++ [tk1 (TBracket false BExpr) (p + 2 + length (payload_text P))]))
          false false.

Lemma forallb_of_Forall {A} (p : A -> bool) (Q : A -> Prop) l :
  (forall x, Q x -> p x = true) -> Forall Q l -> forallb p l = true.
Proof. intros H HF. induction HF as [|x l Hx _ IH]; [reflexivity|]. cbn [forallb]. rewrite (H x Hx), IH. reflexivity. Qed.

Lemma attr_nested_reads pos n P : reads (attr_nested_run pos n P) (attr_nested_tattr pos n P).
Proof.
  unfold attr_nested_run, attr_nested_tattr. set (p := pos + length n).
  assert (Hn : AttrParseProofs.name_ok [word_tok pos n]) by (split; [discriminate|reflexivity]).
  assert (W : wf (WExpr [word_tok pos n] (tk1 (TOperator OpEqual) p) (tk1 (TBracket true BExpr) (p + 1))
                        (payload_tokens (p + 2) P) (tk1 (TBracket false BExpr) (p + 2 + length (payload_text P))))).
  { cbn [wf]. split; [exact Hn|]. split; [reflexivity|]. split; [reflexivity|]. split; [reflexivity|].
    apply (forallb_of_Forall _ not_expr_bracket); [|apply payload_tokens_plain].
    intros t Ht. unfold not_expr_bracket in Ht. unfold is_bracket.
    destruct (tk t) as [| | |op c| | | | |]; try reflexivity. destruct c; try reflexivity. contradiction. }
  exact (reads_wattr _ W).
Qed.

(* `name[n={inner}]`: one element block with the one attribute *)
Theorem block_attr_nested jsx (name n : str) P :
  let ln := length name in
  block_ok jsx (attr_nested_tokens name n P)
           (mkLeaf (Some [word_tok 0 name]) (Some [attr_nested_tattr (ln + 1) n P]) None None false).
Proof.
  intros ln. unfold attr_nested_tokens. fold ln.
  set (nt := word_tok 0 name).
  set (ob := tk1 (TBracket true BAttr) ln).
  set (ts := attr_nested_run (ln + 1) n P).
  set (cb := tk1 (TBracket false BAttr) _).
  set (a := attr_nested_tattr (ln + 1) n P).
  split; [discriminate|]. split; [reflexivity|].
  intros rest Hb.
  assert (Eshape : (nt :: ob :: ts ++ [cb]) ++ rest = nt :: ob :: ts ++ cb :: rest).
  { cbn [app]. rewrite <- app_assoc. reflexivity. }
  rewrite Eshape.
  assert (Hname : element_name jsx (nt :: ob :: ts ++ cb :: rest) = 1).
  { unfold element_name. cbn [hd_is tl].
    assert (Hchain : jsx_chain (ob :: ts ++ cb :: rest) = 0) by reflexivity.
    destruct (jsx && is_capitalized_literal nt).
    - rewrite Hchain. cbn [skipn span_tok Nat.add]. reflexivity.
    - cbn [skipn span_tok Nat.add]. reflexivity. }
  unfold element. rewrite Hname. cbn [firstn elem_loop].
  set (s0 := mkEst (Some [nt]) None None None false).
  assert (Hset : attribute_set (ob :: ts ++ cb :: rest) = ASOk [a] (length (ob :: ts) + 1)).
  { pose proof (attribute_set_runs ob [] [(ts, a, [])] cb rest eq_refl eq_refl) as H.
    cbn [render_runs app map fst snd] in H. rewrite app_nil_r in H. apply H.
    - cbn [runs_ok]. split; [apply attr_nested_reads|]. split; [reflexivity|]. split; [intros E; exfalso; apply E; reflexivity|exact I].
    - reflexivity. }
  assert (Hbody : elem_body jsx s0 (ob :: ts ++ cb :: rest) = ECont (est_add_attrs s0 [a]) (length (ob :: ts) + 1)).
  { apply elem_body_default; [reflexivity|]. cbv zeta.
    rewrite text_zero by reflexivity.
    rewrite (short_attribute_other jsx OpId) by reflexivity.
    rewrite (short_attribute_other jsx OpClass) by reflexivity.
    rewrite Hset. reflexivity. }
  rewrite Hbody. cbn [length]. replace (S (length ts) + 1) with (S (S (length ts))) by lia. cbn [pred].
  replace (S (length ts)) with (length (ts ++ [cb])) by (rewrite app_length; cbn [length]; lia).
  replace (ts ++ cb :: rest) with ((ts ++ [cb]) ++ rest) by (rewrite <- app_assoc; reflexivity).
  rewrite elem_loop_skip. rewrite elem_loop_boundary by exact Hb.
  cbn [shiftE est_add_attrs s0 est_empty e_name e_attrs e_value e_repeat e_self leaf_node lf_name lf_attrs lf_value lf_repeat lf_self app].
  f_equal. f_equal. f_equal. rewrite Nat.add_0_r. reflexivity.
Qed.

(* ================================================================ convert *)
Definition attr_nested_value (reps : list rep) (P : payload) : list vtok := join_pieces (payload_pieces reps P).

Lemma name_flags_plain n : plain_attr_name n -> name_flags (Some n) = (Some n, false, false).
Proof.
  intros [Hne [Hsafe [Hdot Hexcl]]].
  pose (a := mkSAttr false n false SNone).
  assert (Han : aname_text a = n) by (unfold aname_text, a; cbn; apply app_nil_r).
  assert (Hok : sattr_ok a).
  { unfold sattr_ok. rewrite Han. cbn [sa_name sa_boolean sa_implied sa_value a sval_ok]. repeat split; auto. }
  pose proof (name_flags_attr a Hok) as H. rewrite Han in H. exact H.
Qed.

Lemma convert_attr_nested env pos n P st :
  plain_attr_name n -> ce_text env = WNone -> payload_ok P = true ->
  exists st', same_counters st st' /\
  convert_attribute env (attr_nested_tattr pos n P) st =
    Ok (mkAAttr (Some n) (Some (attr_nested_value (cs_repeaters st) P)) VExpr false false false, st').
Proof.
  intros Hn Htext Hok. unfold attr_nested_tattr. set (p := pos + length n).
  destruct (TextNested.stringify_payload env (p + 2) P st Htext Hok) as [st' [Hs' E']].
  exists st'. split; [exact Hs'|].
  rewrite convert_attribute_unfold. cbn [ta_name ta_value ta_expression ta_multiple nonempty].
  rewrite (stringify_name_lit env (word_tok pos n) n st eq_refl). cbn [bind].
  rewrite (name_flags_plain n Hn).
  cbn [tk tk1]. rewrite last_opt_snoc.
  change (is_bracket (tk1 (TBracket false BExpr) (p + 2 + length (payload_text P))) (Some BExpr) (Some false)) with true.
  cbv iota.
  rewrite drop_last_snoc. rewrite E'. reflexivity.
Qed.

(* ================================================================ attr_expr_nested: tokenize + parse + convert *)
Theorem attr_expr_nested jsx env mr (name n : str) (P : payload) :
  word_ok name -> plain_attr_name n -> payload_ok P = true -> ce_text env = WNone ->
  parse_abbr jsx env mr (attr_nested_text name n P) =
    Ok [ANode (Some name) None None
              (Some [mkAAttr (Some n) (Some (attr_nested_value [] P)) VExpr false false false]) [] false].
Proof.
  intros Hname Hn Hb Htext. unfold parse_abbr.
  destruct Hn as [Hne [Hsafe [Hdot Hexcl]]].
  rewrite (tokenize_attr_nested name n P Hname Hne Hsafe Hb).
  rewrite (parse_single jsx _ _ (block_attr_nested jsx name n P)).
  unfold convert, leaf_node. cbn [lf_name lf_attrs lf_value lf_repeat lf_self].
  cbn [conv_list].
  set (st0 := mkCst false match mr with Some m => Z.of_N m | None => 1000000%Z end [] false).
  destruct (convert_attr_nested env (length name + 1) n P st0 (conj Hne (conj Hsafe (conj Hdot Hexcl))) Htext Hb)
    as [st' [_ E]].
  destruct Hname as [Hnn _]. destruct name as [|c0 name']; [congruence|].
  cbn [conv_stmt nonempty]. cbn [stringify_name bind]. unfold stringify at 1. cbn [tk word_tok]. cbn [bind].
  cbn [convert_attributes]. rewrite E. cbn [bind app cs_repeaters st0]. rewrite Htext. rewrite app_nil_r. reflexivity.
Qed.

(* ================================================================ `name[n={P}]*N` *)
From Emmet Require Import proofs.ConvertProofs.

Theorem tokenize_attr_nested_rep name n P ds :
  word_ok name -> n <> [] -> forallb asafe n = true -> payload_ok P = true -> all_digits ds -> ds <> [] ->
  let L := length (attr_nested_text name n P) in
  tokenize (attr_nested_text name n P ++ c_star :: ds) =
    TOk (attr_nested_tokens name n P ++ [mkTok (TRepeater (rep_count ds) 0 false) L (L + S (length ds))]).
Proof.
  intros Hname Hne Hsafe Hb Hd Hdne L. unfold tokenize.
  rewrite (toks_attr_nested_elem name n P (c_star :: ds) Hname Hne Hsafe Hb).
  rewrite (toks_repeater ds _ _ Hd Hdne). reflexivity.
Qed.

Theorem block_attr_nested_rep jsx (name n : str) P (tr : token) (rp : rep) :
  rep_of tr = Some rp ->
  let ln := length name in
  block_ok jsx (attr_nested_tokens name n P ++ [tr])
           (mkLeaf (Some [word_tok 0 name]) (Some [attr_nested_tattr (ln + 1) n P]) None (Some rp) false).
Proof.
  intros Hr ln. unfold attr_nested_tokens. fold ln.
  set (nt := word_tok 0 name).
  set (ob := tk1 (TBracket true BAttr) ln).
  set (ts := attr_nested_run (ln + 1) n P).
  set (cb := tk1 (TBracket false BAttr) _).
  set (a := attr_nested_tattr (ln + 1) n P).
  split; [discriminate|]. split; [reflexivity|].
  intros rest Hb.
  assert (Eshape : ((nt :: ob :: ts ++ [cb]) ++ [tr]) ++ rest = nt :: ob :: ts ++ cb :: tr :: rest).
  { cbn [app]. rewrite <- !app_assoc. reflexivity. }
  rewrite Eshape.
  assert (Hname : element_name jsx (nt :: ob :: ts ++ cb :: tr :: rest) = 1).
  { unfold element_name. cbn [hd_is tl].
    assert (Hchain : jsx_chain (ob :: ts ++ cb :: tr :: rest) = 0) by reflexivity.
    destruct (jsx && is_capitalized_literal nt).
    - rewrite Hchain. cbn [skipn span_tok Nat.add]. reflexivity.
    - cbn [skipn span_tok Nat.add]. reflexivity. }
  unfold element. rewrite Hname. cbn [firstn elem_loop].
  set (s0 := mkEst (Some [nt]) None None None false).
  assert (Hset : attribute_set (ob :: ts ++ cb :: tr :: rest) = ASOk [a] (length (ob :: ts) + 1)).
  { pose proof (attribute_set_runs ob [] [(ts, a, [])] cb (tr :: rest) eq_refl eq_refl) as H.
    cbn [render_runs app map fst snd] in H. rewrite app_nil_r in H. apply H.
    - cbn [runs_ok]. split; [apply attr_nested_reads|]. split; [reflexivity|]. split; [intros E; exfalso; apply E; reflexivity|exact I].
    - reflexivity. }
  assert (Hbody : elem_body jsx s0 (ob :: ts ++ cb :: tr :: rest) = ECont (est_add_attrs s0 [a]) (length (ob :: ts) + 1)).
  { apply elem_body_default; [reflexivity|]. cbv zeta.
    rewrite text_zero by reflexivity.
    rewrite (short_attribute_other jsx OpId) by reflexivity.
    rewrite (short_attribute_other jsx OpClass) by reflexivity.
    rewrite Hset. reflexivity. }
  rewrite Hbody. cbn [length]. replace (S (length ts) + 1) with (S (S (length ts))) by lia. cbn [pred].
  replace (S (length ts)) with (length (ts ++ [cb])) by (rewrite app_length; cbn [length]; lia).
  replace (ts ++ cb :: tr :: rest) with ((ts ++ [cb]) ++ tr :: rest) by (rewrite <- app_assoc; reflexivity).
  rewrite elem_loop_skip. cbn [elem_loop].
  assert (Hbody2 : elem_body jsx (est_add_attrs s0 [a]) (tr :: rest)
                   = ECont (mkEst (Some [nt]) (Some [a]) None (Some rp) false) 1).
  { unfold elem_body. cbn [est_add_attrs s0 e_repeat est_empty e_name e_value e_attrs negb e_self]. rewrite Hr. reflexivity. }
  rewrite Hbody2. cbn [pred]. rewrite elem_loop_boundary by exact Hb.
  cbn [shiftE est_empty e_name e_attrs e_value e_repeat e_self leaf_node lf_name lf_attrs lf_value lf_repeat lf_self app].
  f_equal. f_equal. f_equal. rewrite !app_length. cbn [length]. rewrite !app_length. cbn [length]. lia.
Qed.

(* the copy loop of ONE repeated unit whose single round yields one node and leaves counters / budget alone *)
Lemma iter_one_node env node (mk : list rep -> option rep -> anode) n reps :
  (forall cur st, exists st', same_counters st st' /\ once_gen env node cur st = Ok ([mk (cs_repeaters st) cur], st')) ->
  forall k i acc st,
    (exists v, cs_repeaters st = mkRep n v false :: reps) ->
    (Z.of_nat k <= cs_guard st)%Z -> (i + N.of_nat k = n)%N ->
    exists st',
      iter_gen env node n false k i acc st =
        Ok (acc ++ map (fun j => mk (mkRep n j false :: reps) (Some (mkRep n j false))) (nseq k i), st').
Proof.
  intros Honce.
  induction k as [|k IH]; intros i acc st [v Hreps] Hg Hi.
  - exists st. cbn [iter_gen nseq map]. rewrite app_nil_r. reflexivity.
  - cbn [iter_gen].
    assert (Hlt : (i <? n)%N = true) by (apply N.ltb_lt; lia).
    rewrite Hlt.
    assert (Hr1 : cs_repeaters (set_top_value i st) = mkRep n i false :: reps).
    { unfold set_top_value. rewrite Hreps. reflexivity. }
    assert (Hg1 : cs_guard (set_top_value i st) = cs_guard st).
    { unfold set_top_value. rewrite Hreps. reflexivity. }
    destruct (Honce (Some (mkRep n i false)) (set_top_value i st)) as [st2 [[Hr2 Hg2] E]].
    rewrite E. cbn [bind andb]. rewrite Hr1.
    destruct (cs_guard (dec_guard st2) <=? 0)%Z eqn:Ez.
    + assert (k = O).
      { unfold dec_guard in Ez. cbn [cs_guard] in Ez. rewrite Hg2, Hg1 in Ez. lia. }
      subst k. eexists. cbn [nseq map]. reflexivity.
    + destruct (IH (i + 1)%N (acc ++ [mk (mkRep n i false :: reps) (Some (mkRep n i false))]) (dec_guard st2)) as [st' E'].
      * exists i. unfold dec_guard. cbn [cs_repeaters]. rewrite Hr2, Hr1. reflexivity.
      * unfold dec_guard. cbn [cs_guard]. rewrite Hg2, Hg1. lia.
      * lia.
      * exists st'. rewrite E'. cbn [nseq map]. rewrite <- app_assoc. reflexivity.
Qed.

Lemma once_attr_nested env (name n : str) P pos nt rp cur st :
  name <> [] -> tk nt = TLiteral name -> plain_attr_name n -> ce_text env = WNone -> payload_ok P = true ->
  exists st', same_counters st st' /\
  once_gen env (TElem (Some [nt]) (Some [attr_nested_tattr pos n P]) None rp false []) cur st =
    Ok ([ANode (Some name) None cur
               (Some [mkAAttr (Some n) (Some (attr_nested_value (cs_repeaters st) P)) VExpr false false false]) [] false], st').
Proof.
  intros Hne Hnt Hn Htext Hok.
  destruct (convert_attr_nested env pos n P st Hn Htext Hok) as [st' [Hs' E]].
  exists st'. split; [exact Hs'|].
  destruct name as [|c0 name']; [congruence|].
  cbn [once_gen nonempty]. cbn [stringify_name bind]. unfold stringify at 1. rewrite Hnt. cbn [bind list_conv].
  cbn [convert_attributes]. rewrite E. cbn [bind app]. rewrite app_nil_r. reflexivity.
Qed.

(* attr_expr_nested_repeated.  `name[n={P}]*N`: exactly N nodes, copy i (0-based) carrying the attribute whose value is
   the payload under the repeater stack [(N, i)] -- every counter inside the expression, at whatever brace depth,
   prints the value of copy i+1 *)
Theorem attr_expr_nested_repeated jsx env mr (name n : str) (P : payload) ds :
  word_ok name -> plain_attr_name n -> payload_ok P = true -> all_digits ds -> ds <> [] -> ce_text env = WNone ->
  let N0 := count_of ds in
  (Z.of_N N0 <= budget_of mr)%Z ->
  parse_abbr jsx env mr (attr_nested_text name n P ++ c_star :: ds) =
    Ok (map (fun i => ANode (Some name) None (Some (mkRep N0 i false))
                            (Some [mkAAttr (Some n) (Some (attr_nested_value [mkRep N0 i false] P)) VExpr false false false])
                            [] false)
            (nseq (N.to_nat N0) 0%N)).
Proof.
  intros Hname Hn Hb Hd Hdne Htext N0 Hbud. unfold parse_abbr.
  pose proof Hn as [Hne [Hsafe [Hdot Hexcl]]].
  rewrite (tokenize_attr_nested_rep name n P ds Hname Hne Hsafe Hb Hd Hdne). cbv zeta.
  set (tr := mkTok (TRepeater (rep_count ds) 0 false) _ _).
  rewrite (parse_single jsx _ _ (block_attr_nested_rep jsx name n P tr (mkRep (rep_count ds) 0 false) eq_refl)).
  unfold leaf_node. cbn [lf_name lf_attrs lf_value lf_repeat lf_self].
  unfold convert. cbn [conv_list]. rewrite conv_stmt_unfold. unfold conv_stmt_body. cbn [node_rep].
  unfold eff_count. cbn [rimplicit rcount rvalue].
  change (if (rep_count ds =? 0)%N then 1%N else rep_count ds) with N0.
  set (st0 := push_rep (mkRep N0 0 false) _).
  assert (Hn1 : (1 <= N0)%N) by apply written_count_pos.
  assert (Hrounds : N.to_nat (N.min N0 (Z.to_N (Z.max (cs_guard st0) 1))) = N.to_nat N0).
  { f_equal. unfold st0, push_rep. cbn [cs_guard]. unfold budget_of in Hbud. lia. }
  rewrite Hrounds.
  destruct Hname as [Hnn _].
  destruct (iter_one_node env _
              (fun reps cur => ANode (Some name) None cur
                 (Some [mkAAttr (Some n) (Some (attr_nested_value reps P)) VExpr false false false]) [] false)
              N0 []
              (fun cur st => once_attr_nested env name n P (length name + 1) (word_tok 0 name)
                               (Some (mkRep (rep_count ds) 0 false)) cur st Hnn eq_refl Hn Htext Hb)
              (N.to_nat N0) 0%N [] st0) as [st' E].
  - exists 0%N. reflexivity.
  - unfold st0, push_rep. cbn [cs_guard]. unfold budget_of in Hbud. lia.
  - lia.
  - rewrite E. cbn [bind app]. rewrite app_nil_r. rewrite Htext. reflexivity.
Qed.
