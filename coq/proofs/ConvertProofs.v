(* C02, copy half: the converter's copy loop against a pure unrolling spec with a budget.
   conv_stmt (model of convert_statement / convert_element / convert_group) is shown equal to
   [unroll_b]: N consecutive copies, copy i converted under the repeater stack (N, i) :: enclosing,
   the budget threaded in document order. *)
From Emmet Require Import lib.Base model.MarkupTokenizer model.MarkupParser model.MarkupConvert.
From Emmet Require Import proofs.NumberingProofs.
Local Open Scope Z_scope.

(* ---------------------------------------------------------------- the model, unfolded once *)
(* sequential conversion of a list of statements with a state-passing converter *)
Definition list_conv (F : tnode -> cst -> res (list anode * cst)) :=
  fix go (l : list tnode) (st : cst) : res (list anode * cst) :=
    match l with
    | [] => Ok ([], st)
    | c :: l' =>
        let* (a, s1) := F c st in
        let* (b, s2) := go l' s1 in
        Ok (a ++ b, s2)
    end.

Definition node_rep (node : tnode) : option rep :=
  match node with TElem _ _ _ r _ _ => r | TGroup _ r => r end.

Definition text_only_of (nm : option str) (ats : option (list aattr)) (val : option (list vtok)) : bool :=
  match nm, ats, val with
  | None, None, Some ((_ :: _) as v) => negb (existsb is_vfield v)
  | Some [], None, Some ((_ :: _) as v) => negb (existsb is_vfield v)
  | _, _, _ => false
  end.

(* convert_group / convert_element of [node] with node.repeat temporarily = cur_rep *)
Definition once_gen (env : cenv) (node : tnode) (cur_rep : option rep) (st : cst) : res (list anode * cst) :=
  match node with
  | TGroup els _ =>
      let* (items, st1) := list_conv (conv_stmt env) els st in
      Ok (match cur_rep with Some r => attach_repeater items r | None => items end, st1)
  | TElem name attrs value _ self_close els =>
      let* (nm, st1) :=
         match nonempty name with
         | Some toks => let* (s, s') := stringify_name env toks st in Ok (Some s, s')
         | None => Ok (None, st)
         end in
      let* (val, st2) :=
         match nonempty value with
         | Some toks => let* (v, s') := stringify_value env toks st1 in Ok (Some v, s')
         | None => Ok (None, st1)
         end in
      let* (kids, st3) := list_conv (conv_stmt env) els st2 in
      let* (ats, st4) :=
         match nonempty attrs with
         | Some l => let* (l', s') := convert_attributes env l st3 in Ok (Some l', s')
         | None => Ok (None, st3)
         end in
      if text_only_of nm ats val
      then Ok (ANode nm val cur_rep ats [] self_close :: kids, st4)
      else Ok ([ANode nm val cur_rep ats kids self_close], st4)
  end.

Definition eff_count (env : cenv) (r0 : rep) : N :=
  match rimplicit r0, ce_text env with
  | true, WList _ => N.of_nat (length (clean_text (ce_text env)))
  | _, _ => if (rcount r0 =? 0)%N then 1%N else rcount r0
  end.

(* the `while i < repeat.count` loop; [k] bounds the number of rounds *)
Definition iter_gen (env : cenv) (node : tnode) (count : N) (implicit : bool) :=
  fix iter (k : nat) (i : N) (acc : list anode) (st : cst) : res (list anode * cst) :=
    match k with
    | O => Ok (acc, st)
    | S k' =>
        if (i <? count)%N then
          let st1 := set_top_value i st in
          let* (items, st2) := once_gen env node (Some (mkRep count i implicit)) st1 in
          let* (items', st3) :=
             if implicit && negb (cs_inserted st2) then
               match last_opt items with
               | Some _ =>
                   let* (txt, s') := get_text_at env (Some i) st2 in
                   Ok (on_last_deepest (fun n => insert_text n txt) items, s')
               | None => Ok (items, st2)
               end
             else Ok (items, st2) in
          let st4 := dec_guard st3 in
          if (cs_guard st4 <=? 0)%Z then Ok (acc ++ items', st4)
          else iter k' (i + 1)%N (acc ++ items') st4
        else Ok (acc, st)
    end.

Definition conv_stmt_body (env : cenv) (node : tnode) (st : cst) : res (list anode * cst) :=
  match node_rep node with
  | None => once_gen env node None st
  | Some r0 =>
      let count := eff_count env r0 in
      let rp := mkRep count (rvalue r0) (rimplicit r0) in
      let st0 := push_rep rp st in
      let rounds := N.to_nat (N.min count (Z.to_N (Z.max (cs_guard st0) 1))) in
      let* (result, st_end) := iter_gen env node count (rimplicit r0) rounds 0%N [] st0 in
      let st' := pop_rep st_end in
      Ok (result, if rimplicit r0 then set_inserted st' else st')
  end.

Lemma conv_stmt_unfold env node st : conv_stmt env node st = conv_stmt_body env node st.
Proof. destruct node; reflexivity. Qed.

Lemma conv_list_list_conv env : forall l st, conv_list env l st = list_conv (conv_stmt env) l st.
Proof.
  induction l as [|c l IH]; intros st; [reflexivity|].
  cbn [conv_list list_conv]. destruct (conv_stmt env c st) as [[a s1]| | |]; cbn [bind]; try reflexivity.
  rewrite IH. reflexivity.
Qed.

(* ---------------------------------------------------------------- tokens whose text does not touch the state *)
(* everything the tokenizer can put into a name / value / attribute except `$#` (repeater
   placeholder: reads the wrapped text) ; Repeater tokens and unknown operators never occur there *)
Definition clean_tok (t : token) : bool :=
  match tk t with
  | TRepeaterPlaceholder => false
  | TRepeater _ _ _ => false
  | TOperator OpUnknown => false
  | _ => true
  end.
Definition clean_toks (l : list token) : bool := forallb clean_tok l.
Definition clean_otoks (o : option (list token)) : bool :=
  match o with Some l => clean_toks l | None => true end.
Definition clean_attr (a : tattr) : bool := clean_otoks (ta_name a) && clean_otoks (ta_value a).
Definition clean_oattrs (o : option (list tattr)) : bool :=
  match o with Some l => forallb clean_attr l | None => true end.
(* `*N` as written; the implicit `*` (repeat over wrapped text lines) is outside C02 *)
Definition clean_rep (o : option rep) : bool :=
  match o with Some r => negb (rimplicit r) | None => true end.

Fixpoint clean_node (n : tnode) : bool :=
  match n with
  | TElem name attrs value rp _ els =>
      clean_otoks name && clean_oattrs attrs && clean_otoks value && clean_rep rp && forallb clean_node els
  | TGroup els rp => clean_rep rp && forallb clean_node els
  end.

(* canonical state carrying only a repeater stack *)
Definition st_of (reps : list rep) : cst := mkCst false 0 reps false.

(* the text of a token / name / value / attribute under a repeater stack: what the converter
   computes; C02 only says WHICH stack is in force, numbering_value says what `$` prints under it *)
Definition tok_str (env : cenv) (reps : list rep) (t : token) : str :=
  match stringify env t (st_of reps) with Ok (s, _) => s | _ => [] end.
Definition name_str (env : cenv) (reps : list rep) (toks : list token) : str :=
  match stringify_name env toks (st_of reps) with Ok (s, _) => s | _ => [] end.
Definition value_acc (env : cenv) (reps : list rep) (toks : list token) (acc : option str) : list vtok :=
  match stringify_value_acc env toks acc (st_of reps) with Ok (v, _) => v | _ => [] end.
Definition value_toks (env : cenv) (reps : list rep) (toks : list token) : list vtok := value_acc env reps toks None.
Definition dummy_attr : aattr := mkAAttr None None VRaw false false false.
Definition attr_of (env : cenv) (reps : list rep) (a : tattr) : aattr :=
  match convert_attribute env a (st_of reps) with Ok (x, _) => x | _ => dummy_attr end.

Lemma stringify_clean env t st :
  clean_tok t = true -> stringify env t st = Ok (tok_str env (cs_repeaters st) t, st).
Proof.
  unfold clean_tok, tok_str, stringify. intros H.
  destruct (tk t) as [v|v|s|op b|o|c v i|size rev base par| |name idx]; try discriminate; try reflexivity.
  - destruct o; try discriminate; reflexivity.
  - destruct idx as [i|]; [destruct name; reflexivity|destruct name; reflexivity].
Qed.

Lemma stringify_name_clean env : forall toks st,
  clean_toks toks = true -> stringify_name env toks st = Ok (name_str env (cs_repeaters st) toks, st).
Proof.
  induction toks as [|t r IH]; intros st H; [reflexivity|].
  cbn [clean_toks forallb] in H. apply andb_prop in H. destruct H as [Ht Hr].
  unfold name_str. cbn [stringify_name].
  rewrite !(stringify_clean env t) by exact Ht.
  rewrite !IH by exact Hr. cbn [st_of cs_repeaters]. reflexivity.
Qed.

Lemma stringify_value_acc_clean env : forall toks acc st,
  clean_toks toks = true ->
  stringify_value_acc env toks acc st = Ok (value_acc env (cs_repeaters st) toks acc, st).
Proof.
  induction toks as [|t r IH]; intros acc st H; [reflexivity|].
  cbn [clean_toks forallb] in H. apply andb_prop in H. destruct H as [Ht Hr].
  unfold value_acc. cbn [stringify_value_acc].
  assert (Hs : forall s, stringify env t s = Ok (tok_str env (cs_repeaters s) t, s))
    by (intros s; apply stringify_clean; exact Ht).
  destruct (tk t) as [v|v|s|op b|o|c v i|size rev base par| |name idx] eqn:Ek;
    try (rewrite !Hs; rewrite !IH by exact Hr; cbn [st_of cs_repeaters]; reflexivity).
  destruct idx as [i|].
  - rewrite !IH by exact Hr. cbn [st_of cs_repeaters]. reflexivity.
  - rewrite !Hs; rewrite !IH by exact Hr; cbn [st_of cs_repeaters]; reflexivity.
Qed.

Lemma stringify_value_clean env toks st :
  clean_toks toks = true -> stringify_value env toks st = Ok (value_toks env (cs_repeaters st) toks, st).
Proof. apply stringify_value_acc_clean. Qed.

Lemma nonempty_some {A} (o : option (list A)) l : nonempty o = Some l -> o = Some l.
Proof. destruct o as [[|x r]|]; cbn [nonempty]; congruence. Qed.

Lemma clean_toks_firstn n l : clean_toks l = true -> clean_toks (firstn n l) = true.
Proof.
  revert n. induction l as [|t r IH]; intros [|n] H; try reflexivity.
  cbn [clean_toks forallb firstn] in *. apply andb_prop in H. destruct H as [Ht Hr].
  rewrite Ht. cbn [andb]. apply IH. exact Hr.
Qed.
Lemma clean_toks_drop_last l : clean_toks l = true -> clean_toks (drop_last l) = true.
Proof. apply clean_toks_firstn. Qed.

Lemma convert_attribute_clean env a st :
  clean_attr a = true -> convert_attribute env a st = Ok (attr_of env (cs_repeaters st) a, st).
Proof.
  unfold clean_attr. intros H. apply andb_prop in H. destruct H as [Hn Hv].
  unfold attr_of, convert_attribute.
  assert (Hname : forall s,
    match nonempty (ta_name a) with
    | Some toks => match stringify_name env toks s with
                   | Ok (x, st') => Ok (Some x, st')
                   | ParseErr k p => ParseErr k p | Internal k => Internal k | OutOfFuel => OutOfFuel
                   end
    | None => Ok (None, s)
    end = Ok (match nonempty (ta_name a) with Some toks => Some (name_str env (cs_repeaters s) toks) | None => None end, s)).
  { intros s. destruct (nonempty (ta_name a)) as [toks|] eqn:E; [|reflexivity].
    apply nonempty_some in E. rewrite E in Hn. cbn [clean_otoks] in Hn.
    rewrite stringify_name_clean by exact Hn. reflexivity. }
  rewrite !Hname. cbn [bind st_of cs_repeaters].
  set (name0 := match nonempty (ta_name a) with Some toks => Some (name_str env (cs_repeaters st) toks) | None => None end).
  destruct (match name0 with
            | Some (_ :: _ as n) => _
            | _ => _ end) as [[name boolean] implied].
  destruct (nonempty (ta_value a)) as [toks|] eqn:Ev; [|reflexivity].
  apply nonempty_some in Ev. rewrite Ev in Hv. cbn [clean_otoks] in Hv.
  match goal with |- context [let '(toks', vtype) := ?X in _] => destruct X as [toks' vtype] eqn:Et end.
  assert (Hc : clean_toks toks' = true).
  { destruct toks as [|t0 rest]; [inversion Et; subst; reflexivity|].
    assert (Hrest : clean_toks rest = true).
    { cbn [clean_toks forallb] in Hv. apply andb_prop in Hv. apply Hv. }
    destruct (tk t0) as [v|v|s|op b|o|c v i|size rev base par| |nm idx];
      try (inversion Et; subst; exact Hv).
    - inversion Et; subst. destruct (last_opt rest) as [l|]; [|exact Hrest].
      destruct (is_quote_tok l None); [apply clean_toks_drop_last|]; exact Hrest.
    - destruct op; [|inversion Et; subst; exact Hv].
      destruct b; try (inversion Et; subst; exact Hv).
      inversion Et; subst. destruct (last_opt rest) as [l|]; [|exact Hrest].
      destruct (is_bracket l (Some BExpr) (Some false)); [apply clean_toks_drop_last|]; exact Hrest. }
  rewrite !stringify_value_clean by exact Hc. cbn [bind st_of cs_repeaters]. reflexivity.
Qed.

Lemma convert_attributes_clean env : forall l st,
  forallb clean_attr l = true -> convert_attributes env l st = Ok (map (attr_of env (cs_repeaters st)) l, st).
Proof.
  induction l as [|a r IH]; intros st H; [reflexivity|].
  cbn [forallb] in H. apply andb_prop in H. destruct H as [Ha Hr].
  cbn [convert_attributes map]. rewrite convert_attribute_clean by exact Ha. cbn [bind].
  rewrite IH by exact Hr. reflexivity.
Qed.

(* ================================================================ SPEC *)
(* The unrolled forest, computed without any converter state.  [reps] = the enclosing repeated
   units, innermost first, each as (count, 0-based copy index); [b] = remaining budget
   (maxRepeat minus copies completed so far, in document order). *)

(* one element: its own payload under [reps], children already unrolled *)
Definition leaf_items (env : cenv) (reps : list rep) (name : option (list token)) (attrs : option (list tattr))
           (value : option (list token)) (self_close : bool) (cur : option rep) (kids : list anode) : list anode :=
  let nm := option_map (name_str env reps) (nonempty name) in
  let val := option_map (value_toks env reps) (nonempty value) in
  let ats := option_map (map (attr_of env reps)) (nonempty attrs) in
  if text_only_of nm ats val
  then ANode nm val cur ats [] self_close :: kids          (* text-only node: children become siblings *)
  else [ANode nm val cur ats kids self_close].

(* siblings, left to right, threading the budget *)
Definition list_b (F : tnode -> Z -> list anode * Z) :=
  fix go (l : list tnode) (b : Z) : list anode * Z :=
    match l with
    | [] => ([], b)
    | c :: l' => let '(x, b1) := F c b in let '(y, b2) := go l' b1 in (x ++ y, b2)
    end.

(* copies i, i+1, ... of at most [k]: every completed copy costs one unit of budget; when the
   budget is used up (<= 0) after a copy, the repeater stops *)
Fixpoint copies_b (f : N -> Z -> list anode * Z) (k : nat) (i : N) (b : Z) : list anode * Z :=
  match k with
  | O => ([], b)
  | S k' =>
      let '(x, b1) := f i b in
      let b2 := b1 - 1 in
      if b2 <=? 0 then (x, b2)
      else let '(y, b3) := copies_b f k' (i + 1)%N b2 in (x ++ y, b3)
  end.

(* `*0` is read as one copy *)
Definition written_count (r : rep) : N := if (rcount r =? 0)%N then 1%N else rcount r.

Fixpoint unroll_b (env : cenv) (reps : list rep) (node : tnode) (b : Z) {struct node} : list anode * Z :=
  let once (cur : option rep) (reps' : list rep) (b : Z) : list anode * Z :=
    match node with
    | TGroup els _ =>
        let '(items, b1) := list_b (unroll_b env reps') els b in
        (match cur with Some r => attach_repeater items r | None => items end, b1)
    | TElem name attrs value _ self_close els =>
        let '(kids, b1) := list_b (unroll_b env reps') els b in
        (leaf_items env reps' name attrs value self_close cur kids, b1)
    end in
  match node_rep node with
  | None => once None reps b
  | Some r0 =>
      let n := written_count r0 in
      copies_b (fun i b => once (Some (mkRep n i false)) (mkRep n i false :: reps) b) (N.to_nat n) 0%N b
  end.

(* the same, named, for reasoning *)
Definition once_b (env : cenv) (node : tnode) (cur : option rep) (reps' : list rep) (b : Z) : list anode * Z :=
  match node with
  | TGroup els _ =>
      let '(items, b1) := list_b (unroll_b env reps') els b in
      (match cur with Some r => attach_repeater items r | None => items end, b1)
  | TElem name attrs value _ self_close els =>
      let '(kids, b1) := list_b (unroll_b env reps') els b in
      (leaf_items env reps' name attrs value self_close cur kids, b1)
  end.

Lemma unroll_b_unfold env reps node b :
  unroll_b env reps node b =
  match node_rep node with
  | None => once_b env node None reps b
  | Some r0 =>
      let n := written_count r0 in
      copies_b (fun i b => once_b env node (Some (mkRep n i false)) (mkRep n i false :: reps) b) (N.to_nat n) 0%N b
  end.
Proof. destruct node; reflexivity. Qed.

(* ---------------------------------------------------------------- induction over token trees *)
Section TnodeInd.
  Variable P : tnode -> Prop.
  Hypothesis HE : forall a b c r s els, Forall P els -> P (TElem a b c r s els).
  Hypothesis HG : forall els r, Forall P els -> P (TGroup els r).
  Fixpoint tnode_ind' (n : tnode) : P n :=
    match n with
    | TElem a b c r s els =>
        HE a b c r s els ((fix go (l : list tnode) : Forall P l :=
                             match l with [] => Forall_nil P | x :: l' => Forall_cons x (tnode_ind' x) (go l') end) els)
    | TGroup els r =>
        HG els r ((fix go (l : list tnode) : Forall P l :=
                     match l with [] => Forall_nil P | x :: l' => Forall_cons x (tnode_ind' x) (go l') end) els)
    end.
End TnodeInd.

Definition elements_of' (n : tnode) : list tnode :=
  match n with TElem _ _ _ _ _ els => els | TGroup els _ => els end.

(* ---------------------------------------------------------------- the budget never grows *)
Lemma copies_b_le f : (forall i b, snd (f i b) <= b) -> forall k i b, snd (copies_b f k i b) <= b.
Proof.
  intros Hf. induction k as [|k IH]; intros i b; cbn [copies_b]; [cbn; lia|].
  specialize (Hf i b). destruct (f i b) as [x b1]. cbn [snd] in Hf.
  destruct (b1 - 1 <=? 0) eqn:E; [cbn [snd]; lia|].
  specialize (IH (i + 1)%N (b1 - 1)). destruct (copies_b f k (i + 1)%N (b1 - 1)) as [y b3].
  cbn [snd] in *. lia.
Qed.

Lemma list_b_le F : forall els, Forall (fun c => forall b, snd (F c b) <= b) els ->
  forall b, snd (list_b F els b) <= b.
Proof.
  induction els as [|c l IH]; intros H b; cbn [list_b]; [cbn; lia|].
  inversion H as [|x y Hc Hl]; subst. specialize (Hc b). destruct (F c b) as [x b1]. cbn [snd] in Hc.
  specialize (IH Hl b1). destruct (list_b F l b1) as [y b2]. cbn [snd] in *. lia.
Qed.

Lemma once_b_le env node :
  Forall (fun c => forall reps b, snd (unroll_b env reps c b) <= b) (elements_of' node) ->
  forall cur reps b, snd (once_b env node cur reps b) <= b.
Proof.
  intros H cur reps b.
  assert (Hl : snd (list_b (unroll_b env reps) (elements_of' node) b) <= b).
  { apply list_b_le. eapply Forall_impl; [|exact H]. cbn beta. intros c Hc b'. apply Hc. }
  destruct node as [a at_ v r s els|els r]; cbn [once_b elements_of'] in *;
    destruct (list_b (unroll_b env reps) els b) as [x b1]; cbn [snd] in *; exact Hl.
Qed.

Lemma unroll_b_le env : forall node reps b, snd (unroll_b env reps node b) <= b.
Proof.
  induction node as [a at_ v r s els IH|els r IH] using tnode_ind'; intros reps b; rewrite unroll_b_unfold; cbn [node_rep].
  - destruct r as [r0|].
    + cbv zeta. apply copies_b_le. intros i b'. apply once_b_le. exact IH.
    + apply once_b_le. exact IH.
  - destruct r as [r0|].
    + cbv zeta. apply copies_b_le. intros i b'. apply once_b_le. exact IH.
    + apply once_b_le. exact IH.
Qed.

(* ---------------------------------------------------------------- model = spec *)
Definition set_guard (st : cst) (g : Z) : cst := mkCst (cs_inserted st) g (cs_repeaters st) (cs_text_inserted st).

Lemma set_guard_id st : set_guard st (cs_guard st) = st.
Proof. destruct st; reflexivity. Qed.
Lemma set_guard_twice st g1 g2 : set_guard (set_guard st g1) g2 = set_guard st g2.
Proof. reflexivity. Qed.

(* what the theorem says about one node *)
Definition conv_ok (env : cenv) (node : tnode) : Prop :=
  forall st,
    conv_stmt env node st =
    Ok (fst (unroll_b env (cs_repeaters st) node (cs_guard st)),
        set_guard st (snd (unroll_b env (cs_repeaters st) node (cs_guard st)))).

Lemma list_conv_spec env : forall els, Forall (conv_ok env) els ->
  forall st,
    list_conv (conv_stmt env) els st =
    Ok (fst (list_b (unroll_b env (cs_repeaters st)) els (cs_guard st)),
        set_guard st (snd (list_b (unroll_b env (cs_repeaters st)) els (cs_guard st)))).
Proof.
  induction els as [|c l IH]; intros H st.
  - cbn [list_conv list_b fst snd]. rewrite set_guard_id. reflexivity.
  - inversion H as [|x y Hc Hl]; subst. cbn [list_conv list_b].
    rewrite (Hc st). cbn [bind].
    destruct (unroll_b env (cs_repeaters st) c (cs_guard st)) as [x b1]. cbn [fst snd].
    rewrite (IH Hl (set_guard st b1)). cbn [bind]. cbn [set_guard cs_repeaters cs_guard].
    destruct (list_b (unroll_b env (cs_repeaters st)) l b1) as [y b2]. cbn [fst snd]. reflexivity.
Qed.

Lemma Forall_forallb_and {A} (p : A -> bool) (P : A -> Prop) l :
  Forall (fun x => p x = true -> P x) l -> forallb p l = true -> Forall P l.
Proof.
  induction l as [|x l IH]; intros H Hb; [constructor|].
  inversion H; subst. cbn [forallb] in Hb. apply andb_prop in Hb. destruct Hb. constructor; auto.
Qed.

Lemma once_gen_spec env node cur st :
  clean_node node = true ->
  Forall (conv_ok env) (elements_of' node) ->
  once_gen env node cur st =
  Ok (fst (once_b env node cur (cs_repeaters st) (cs_guard st)),
      set_guard st (snd (once_b env node cur (cs_repeaters st) (cs_guard st)))).
Proof.
  intros Hc Hk.
  destruct node as [name attrs value r sc els|els r]; cbn [once_gen once_b elements_of'] in *.
  - cbn [clean_node] in Hc. repeat (apply andb_prop in Hc; destruct Hc as [Hc ?]).
    (* name *)
    assert (Hnm : match nonempty name with
                  | Some toks => let* (s, s') := stringify_name env toks st in Ok (Some s, s')
                  | None => Ok (None, st)
                  end = Ok (option_map (name_str env (cs_repeaters st)) (nonempty name), st)).
    { destruct (nonempty name) as [toks|] eqn:E; [|reflexivity]. apply nonempty_some in E. subst name.
      rewrite stringify_name_clean by assumption. reflexivity. }
    rewrite Hnm. cbn [bind].
    assert (Hval : match nonempty value with
                   | Some toks => let* (v, s') := stringify_value env toks st in Ok (Some v, s')
                   | None => Ok (None, st)
                   end = Ok (option_map (value_toks env (cs_repeaters st)) (nonempty value), st)).
    { destruct (nonempty value) as [toks|] eqn:E; [|reflexivity]. apply nonempty_some in E. subst value.
      rewrite stringify_value_clean by assumption. reflexivity. }
    rewrite Hval. cbn [bind].
    rewrite (list_conv_spec env els Hk st). cbn [bind].
    destruct (list_b (unroll_b env (cs_repeaters st)) els (cs_guard st)) as [kids b1]. cbn [fst snd].
    assert (Hat : match nonempty attrs with
                  | Some l => let* (l', s') := convert_attributes env l (set_guard st b1) in Ok (Some l', s')
                  | None => Ok (None, set_guard st b1)
                  end = Ok (option_map (map (attr_of env (cs_repeaters st))) (nonempty attrs), set_guard st b1)).
    { destruct (nonempty attrs) as [l|] eqn:E; [|reflexivity]. apply nonempty_some in E. subst attrs.
      rewrite convert_attributes_clean by assumption. reflexivity. }
    rewrite Hat. cbn [bind]. unfold leaf_items.
    destruct (text_only_of _ _ _); reflexivity.
  - cbn [clean_node] in Hc. apply andb_prop in Hc. destruct Hc as [_ Hc].
    rewrite (list_conv_spec env els Hk st). cbn [bind].
    destruct (list_b (unroll_b env (cs_repeaters st)) els (cs_guard st)) as [items b1]. reflexivity.
Qed.

(* the copy loop: [k] rounds of fuel suffice as soon as k >= min(count - i, max(guard, 1)) *)
Lemma iter_spec env node count reps
      (Honce : forall cur st, once_gen env node cur st =
                 Ok (fst (once_b env node cur (cs_repeaters st) (cs_guard st)),
                     set_guard st (snd (once_b env node cur (cs_repeaters st) (cs_guard st)))))
      (Hle : forall cur reps b, snd (once_b env node cur reps b) <= b) :
  let f := fun i b => once_b env node (Some (mkRep count i false)) (mkRep count i false :: reps) b in
  forall k i acc ins g v tins,
    (Z.of_N count - Z.of_N i <= Z.of_nat k \/ Z.max g 1 <= Z.of_nat k) ->
    (i <= count)%N ->
    exists v',
      iter_gen env node count false k i acc (mkCst ins g (mkRep count v false :: reps) tins) =
      Ok (acc ++ fst (copies_b f (N.to_nat (count - i)) i g),
          mkCst ins (snd (copies_b f (N.to_nat (count - i)) i g)) (mkRep count v' false :: reps) tins).
Proof.
  intros f. induction k as [|k IH]; intros i acc ins g v tins Hk Hi.
  - assert (i = count) by lia. subst i. rewrite N.sub_diag. cbn [N.to_nat copies_b fst snd iter_gen].
    exists v. rewrite app_nil_r. reflexivity.
  - cbn [iter_gen]. destruct (i <? count)%N eqn:Elt.
    + apply N.ltb_lt in Elt.
      replace (N.to_nat (count - i)) with (S (N.to_nat (count - (i + 1)))) by lia.
      cbn [copies_b]. cbn [set_top_value cs_repeaters cs_inserted cs_guard cs_text_inserted rcount rimplicit].
      rewrite Honce. cbn [bind cs_repeaters cs_guard andb].
      fold (f i g). pose proof (Hle (Some (mkRep count i false)) (mkRep count i false :: reps) g) as Hl.
      fold (f i g) in Hl.
      destruct (f i g) as [x b1]. cbn [fst snd] in *.
      unfold dec_guard, set_guard. cbn [cs_guard cs_inserted cs_repeaters cs_text_inserted].
      destruct (b1 - 1 <=? 0) eqn:E.
      * exists i. reflexivity.
      * apply Z.leb_gt in E.
        destruct (IH (i + 1)%N (acc ++ x) ins (b1 - 1) i tins) as [v' Hv]; [lia|lia|].
        exists v'. rewrite Hv.
        destruct (copies_b f (N.to_nat (count - (i + 1))) (i + 1)%N (b1 - 1)) as [y b3]. cbn [fst snd].
        rewrite app_assoc. reflexivity.
    + apply N.ltb_ge in Elt. assert (i = count) by lia. subst i. rewrite N.sub_diag.
      cbn [N.to_nat copies_b fst snd]. exists v. rewrite app_nil_r. reflexivity.
Qed.

Lemma conv_node_spec env node :
  clean_node node = true -> clean_rep (node_rep node) = true ->
  Forall (conv_ok env) (elements_of' node) -> conv_ok env node.
Proof.
  intros Hc Hr Hk st. rewrite conv_stmt_unfold, unroll_b_unfold. unfold conv_stmt_body.
  destruct (node_rep node) as [r0|] eqn:Er.
  - cbn [clean_rep] in Hr. apply negb_true_iff in Hr.
    assert (Hcount : eff_count env r0 = written_count r0).
    { unfold eff_count, written_count. rewrite Hr. reflexivity. }
    cbv zeta. rewrite Hcount, Hr. destruct st as [ins g reps tins].
    unfold push_rep. cbn [cs_inserted cs_guard cs_repeaters cs_text_inserted].
    assert (Honce : forall cur s, once_gen env node cur s =
                 Ok (fst (once_b env node cur (cs_repeaters s) (cs_guard s)),
                     set_guard s (snd (once_b env node cur (cs_repeaters s) (cs_guard s)))))
      by (intros cur s; apply once_gen_spec; assumption).
    assert (Hle : forall cur reps b, snd (once_b env node cur reps b) <= b).
    { apply once_b_le. apply Forall_forall. intros c _ reps' b'. apply unroll_b_le. }
    pose proof (iter_spec env node (written_count r0) reps Honce Hle) as Hit. cbv zeta in Hit.
    destruct (Hit (N.to_nat (N.min (written_count r0) (Z.to_N (Z.max g 1)))) 0%N [] ins g (rvalue r0) tins)
      as [v' Hv]; [lia|lia|].
    rewrite N.sub_0_r in Hv. rewrite Hv.
    cbn [bind]. unfold pop_rep, set_guard. cbn [cs_inserted cs_guard cs_repeaters cs_text_inserted tl app]. reflexivity.
  - apply once_gen_spec; assumption.
Qed.

(* MAIN: on trees without `$#` and without implicit `*`, convert_statement is the unrolling spec,
   for every state -- any repeater stack, any budget (positive, exhausted or negative) *)
Theorem conv_stmt_spec env : forall node, clean_node node = true -> conv_ok env node.
Proof.
  induction node as [name attrs value r sc els IH|els r IH] using tnode_ind'; intros Hc.
  - apply conv_node_spec; [exact Hc| |].
    + cbn [clean_node] in Hc. apply andb_prop in Hc. destruct Hc as [Hc _]. apply andb_prop in Hc. apply Hc.
    + apply (Forall_forallb_and clean_node); [exact IH|].
      cbn [clean_node] in Hc. apply andb_prop in Hc. apply Hc.
  - apply conv_node_spec; [exact Hc| |].
    + cbn [clean_node] in Hc. apply andb_prop in Hc. apply Hc.
    + apply (Forall_forallb_and clean_node); [exact IH|].
      cbn [clean_node] in Hc. apply andb_prop in Hc. apply Hc.
Qed.

(* ================================================================ consequences, on the spec *)
(* ---- the unlimited unrolling: N consecutive copies, copy i under the stack (N, i) :: enclosing *)
Fixpoint nseq (k : nat) (i : N) : list N :=
  match k with O => [] | S k' => i :: nseq k' (i + 1)%N end.

Fixpoint unroll (env : cenv) (reps : list rep) (node : tnode) {struct node} : list anode :=
  let once (cur : option rep) (reps' : list rep) : list anode :=
    match node with
    | TGroup els _ =>
        let items := flat_map (unroll env reps') els in
        match cur with Some r => attach_repeater items r | None => items end
    | TElem name attrs value _ self_close els =>
        leaf_items env reps' name attrs value self_close cur (flat_map (unroll env reps') els)
    end in
  match node_rep node with
  | None => once None reps
  | Some r0 =>
      let n := written_count r0 in
      flat_map (fun i => once (Some (mkRep n i false)) (mkRep n i false :: reps)) (nseq (N.to_nat n) 0%N)
  end.

Definition once_u (env : cenv) (node : tnode) (cur : option rep) (reps' : list rep) : list anode :=
  match node with
  | TGroup els _ =>
      let items := flat_map (unroll env reps') els in
      match cur with Some r => attach_repeater items r | None => items end
  | TElem name attrs value _ self_close els =>
      leaf_items env reps' name attrs value self_close cur (flat_map (unroll env reps') els)
  end.

Lemma unroll_unfold env reps node :
  unroll env reps node =
  match node_rep node with
  | None => once_u env node None reps
  | Some r0 =>
      let n := written_count r0 in
      flat_map (fun i => once_u env node (Some (mkRep n i false)) (mkRep n i false :: reps)) (nseq (N.to_nat n) 0%N)
  end.
Proof. destruct node; reflexivity. Qed.

(* number of copies all repeaters of a statement complete when nothing stops them *)
Definition zsum (l : list Z) : Z := fold_right Z.add 0 l.
Fixpoint total (node : tnode) : Z :=
  let inner := match node with TElem _ _ _ _ _ els | TGroup els _ => zsum (map total els) end in
  match node_rep node with
  | None => inner
  | Some r0 => Z.of_N (written_count r0) * (1 + inner)
  end.
Definition inner_total (node : tnode) : Z := zsum (map total (elements_of' node)).

Lemma total_unfold node :
  total node = match node_rep node with
               | None => inner_total node
               | Some r0 => Z.of_N (written_count r0) * (1 + inner_total node)
               end.
Proof. destruct node; reflexivity. Qed.

Lemma written_count_pos r : (1 <= written_count r)%N.
Proof. unfold written_count. destruct (rcount r =? 0)%N eqn:E; [lia|]. apply N.eqb_neq in E. lia. Qed.

Lemma zsum_nonneg l : Forall (fun z => 0 <= z) l -> 0 <= zsum l.
Proof. induction 1; cbn [zsum fold_right]; [lia|]. fold (zsum l). lia. Qed.

Lemma total_nonneg : forall node, 0 <= total node.
Proof.
  induction node as [a at_ v r s els IH|els r IH] using tnode_ind'; rewrite total_unfold; unfold inner_total; cbn [node_rep elements_of'].
  - assert (0 <= zsum (map total els)) by (apply zsum_nonneg; apply Forall_map; exact IH).
    destruct r as [r0|]; [|assumption]. pose proof (written_count_pos r0). nia.
  - assert (0 <= zsum (map total els)) by (apply zsum_nonneg; apply Forall_map; exact IH).
    destruct r as [r0|]; [|assumption]. pose proof (written_count_pos r0). nia.
Qed.

(* ---- guard_enough *)
Lemma copies_b_enough f fu inner :
  (forall i b, inner <= b -> f i b = (fu i, b - inner)) -> 0 <= inner ->
  forall k i b, Z.of_nat k * (1 + inner) <= b ->
    copies_b f k i b = (flat_map fu (nseq k i), b - Z.of_nat k * (1 + inner)).
Proof.
  intros Hf Hin. induction k as [|k IH]; intros i b Hb.
  - cbn [copies_b nseq flat_map]. f_equal. lia.
  - rewrite Nat2Z.inj_succ, Z.mul_succ_l in *. cbn [copies_b nseq flat_map].
    assert (0 <= Z.of_nat k * (1 + inner)) by nia.
    rewrite Hf by lia.
    destruct (b - inner - 1 <=? 0) eqn:E.
    + apply Z.leb_le in E. destruct k as [|k'].
      * cbn [nseq flat_map]. rewrite app_nil_r. f_equal. lia.
      * exfalso. rewrite Nat2Z.inj_succ, Z.mul_succ_l in *. nia.
    + rewrite IH by lia. f_equal. lia.
Qed.

Lemma list_b_enough env reps : forall els,
  Forall (fun c => forall reps b, total c <= b -> unroll_b env reps c b = (unroll env reps c, b - total c)) els ->
  forall b, zsum (map total els) <= b ->
    list_b (unroll_b env reps) els b = (flat_map (unroll env reps) els, b - zsum (map total els)).
Proof.
  induction els as [|c l IH]; intros H b Hb.
  - cbn [list_b flat_map map zsum fold_right]. f_equal. lia.
  - inversion H as [|x y Hc Hl]; subst. cbn [map zsum fold_right] in *. fold (zsum (map total l)) in *.
    pose proof (total_nonneg c).
    assert (0 <= zsum (map total l)) by (apply zsum_nonneg; apply Forall_map; apply Forall_forall; intros; apply total_nonneg).
    cbn [list_b flat_map]. rewrite Hc by lia. rewrite IH by (assumption || lia). f_equal. lia.
Qed.

Lemma once_b_enough env node :
  Forall (fun c => forall reps b, total c <= b -> unroll_b env reps c b = (unroll env reps c, b - total c)) (elements_of' node) ->
  forall cur reps b, inner_total node <= b ->
    once_b env node cur reps b = (once_u env node cur reps, b - inner_total node).
Proof.
  intros H cur reps b Hb. unfold inner_total in *.
  destruct node as [a at_ v r s els|els r]; cbn [once_b once_u elements_of'] in *;
    rewrite (list_b_enough env reps els H b Hb); reflexivity.
Qed.

Lemma node_enough env node :
  Forall (fun c => forall reps b, total c <= b -> unroll_b env reps c b = (unroll env reps c, b - total c)) (elements_of' node) ->
  forall reps b, total node <= b -> unroll_b env reps node b = (unroll env reps node, b - total node).
Proof.
  intros IH reps b Hb. rewrite unroll_b_unfold, unroll_unfold. rewrite total_unfold in *.
  destruct (node_rep node) as [r0|].
  - cbv zeta.
    rewrite (copies_b_enough _ (fun i => once_u env node (Some (mkRep (written_count r0) i false))
                                              (mkRep (written_count r0) i false :: reps)) (inner_total node)).
    + rewrite N_nat_Z. reflexivity.
    + intros i b' Hb'. apply once_b_enough; [exact IH|exact Hb'].
    + unfold inner_total. apply zsum_nonneg. apply Forall_map. apply Forall_forall. intros; apply total_nonneg.
    + rewrite N_nat_Z. exact Hb.
  - apply once_b_enough; [exact IH|exact Hb].
Qed.

(* budget >= total copies: the result is the unlimited unrolling and the budget drops by exactly
   the number of copies completed *)
Theorem unroll_b_enough env : forall node reps b,
  total node <= b -> unroll_b env reps node b = (unroll env reps node, b - total node).
Proof.
  induction node as [a at_ v r s els IH|els r IH] using tnode_ind'; apply node_enough; exact IH.
Qed.

(* ---- guard_exhausted: with no budget left every repeater yields exactly its first copy *)
Fixpoint unroll_one (env : cenv) (reps : list rep) (node : tnode) {struct node} : list anode :=
  let once (cur : option rep) (reps' : list rep) : list anode :=
    match node with
    | TGroup els _ =>
        let items := flat_map (unroll_one env reps') els in
        match cur with Some r => attach_repeater items r | None => items end
    | TElem name attrs value _ self_close els =>
        leaf_items env reps' name attrs value self_close cur (flat_map (unroll_one env reps') els)
    end in
  match node_rep node with
  | None => once None reps
  | Some r0 => let n := written_count r0 in once (Some (mkRep n 0 false)) (mkRep n 0 false :: reps)
  end.

Definition once_one (env : cenv) (node : tnode) (cur : option rep) (reps' : list rep) : list anode :=
  match node with
  | TGroup els _ =>
      let items := flat_map (unroll_one env reps') els in
      match cur with Some r => attach_repeater items r | None => items end
  | TElem name attrs value _ self_close els =>
      leaf_items env reps' name attrs value self_close cur (flat_map (unroll_one env reps') els)
  end.

Lemma unroll_one_unfold env reps node :
  unroll_one env reps node =
  match node_rep node with
  | None => once_one env node None reps
  | Some r0 => let n := written_count r0 in once_one env node (Some (mkRep n 0 false)) (mkRep n 0 false :: reps)
  end.
Proof. destruct node; reflexivity. Qed.

(* number of repeated units of a statement (each then completes exactly one copy) *)
Fixpoint repeaters (node : tnode) : Z :=
  let inner := match node with TElem _ _ _ _ _ els | TGroup els _ => zsum (map repeaters els) end in
  match node_rep node with None => inner | Some _ => 1 + inner end.
Definition inner_repeaters (node : tnode) : Z := zsum (map repeaters (elements_of' node)).
Lemma repeaters_unfold node :
  repeaters node = match node_rep node with None => inner_repeaters node | Some _ => 1 + inner_repeaters node end.
Proof. destruct node; reflexivity. Qed.

Lemma repeaters_nonneg : forall node, 0 <= repeaters node.
Proof.
  induction node as [a at_ v r s els IH|els r IH] using tnode_ind'; rewrite repeaters_unfold; unfold inner_repeaters; cbn [node_rep elements_of'];
    (assert (0 <= zsum (map repeaters els)) by (apply zsum_nonneg; apply Forall_map; exact IH));
    destruct r; lia.
Qed.

Lemma list_b_exhausted env reps : forall els,
  Forall (fun c => forall reps b, b <= 0 -> unroll_b env reps c b = (unroll_one env reps c, b - repeaters c)) els ->
  forall b, b <= 0 ->
    list_b (unroll_b env reps) els b = (flat_map (unroll_one env reps) els, b - zsum (map repeaters els)).
Proof.
  induction els as [|c l IH]; intros H b Hb.
  - cbn [list_b flat_map map zsum fold_right]. f_equal. lia.
  - inversion H as [|x y Hc Hl]; subst. cbn [map zsum fold_right]. fold (zsum (map repeaters l)).
    pose proof (repeaters_nonneg c).
    cbn [list_b flat_map]. rewrite Hc by lia. rewrite IH by (assumption || lia). f_equal. lia.
Qed.

Lemma node_exhausted env node :
  Forall (fun c => forall reps b, b <= 0 -> unroll_b env reps c b = (unroll_one env reps c, b - repeaters c)) (elements_of' node) ->
  forall reps b, b <= 0 -> unroll_b env reps node b = (unroll_one env reps node, b - repeaters node).
Proof.
  intros IH reps b Hb. rewrite unroll_b_unfold, unroll_one_unfold, repeaters_unfold.
  assert (Honce : forall cur reps' b', b' <= 0 ->
            once_b env node cur reps' b' = (once_one env node cur reps', b' - inner_repeaters node)).
  { intros cur reps' b' Hb'. unfold inner_repeaters.
    destruct node as [a at_ v r s els|els r]; cbn [once_b once_one elements_of'] in *;
      rewrite (list_b_exhausted env reps' els IH b' Hb'); reflexivity. }
  destruct (node_rep node) as [r0|]; [|apply Honce; exact Hb].
  cbv zeta. pose proof (written_count_pos r0) as Hpos.
  destruct (N.to_nat (written_count r0)) as [|k] eqn:Ek; [lia|].
  cbn [copies_b]. rewrite Honce by exact Hb.
  assert (0 <= inner_repeaters node).
  { unfold inner_repeaters. apply zsum_nonneg. apply Forall_map. apply Forall_forall. intros; apply repeaters_nonneg. }
  destruct (b - inner_repeaters node - 1 <=? 0) eqn:E; [f_equal; lia|]. apply Z.leb_gt in E. lia.
Qed.

Theorem unroll_b_exhausted env : forall node reps b,
  b <= 0 -> unroll_b env reps node b = (unroll_one env reps node, b - repeaters node).
Proof.
  induction node as [a at_ v r s els IH|els r IH] using tnode_ind'; apply node_exhausted; exact IH.
Qed.

(* ---- the budget drops by at most the unlimited number of copies, and never grows *)
Lemma copies_b_ge f inner :
  (forall i b, b - inner <= snd (f i b)) -> 0 <= inner ->
  forall k i b, b - Z.of_nat k * (1 + inner) <= snd (copies_b f k i b).
Proof.
  intros Hf Hin. induction k as [|k IH]; intros i b; [cbn; lia|].
  rewrite Nat2Z.inj_succ, Z.mul_succ_l. cbn [copies_b].
  specialize (Hf i b). destruct (f i b) as [x b1]. cbn [snd] in Hf.
  assert (0 <= Z.of_nat k * (1 + inner)) by nia.
  destruct (b1 - 1 <=? 0); [cbn [snd]; lia|].
  specialize (IH (i + 1)%N (b1 - 1)). destruct (copies_b f k (i + 1)%N (b1 - 1)) as [y b3]. cbn [snd] in *. lia.
Qed.

Lemma list_b_ge env reps : forall els,
  Forall (fun c => forall reps b, b - total c <= snd (unroll_b env reps c b)) els ->
  forall b, b - zsum (map total els) <= snd (list_b (unroll_b env reps) els b).
Proof.
  induction els as [|c l IH]; intros H b; [cbn; lia|].
  inversion H as [|x y Hc Hl]; subst. cbn [map zsum fold_right list_b]. fold (zsum (map total l)).
  specialize (Hc reps b). destruct (unroll_b env reps c b) as [x b1]. cbn [snd] in Hc.
  specialize (IH Hl b1). destruct (list_b (unroll_b env reps) l b1) as [y b2]. cbn [snd] in *. lia.
Qed.

Theorem unroll_b_ge env : forall node reps b, b - total node <= snd (unroll_b env reps node b).
Proof.
  induction node as [a at_ v r s els IH|els r IH] using tnode_ind'; intros reps b;
    rewrite unroll_b_unfold, total_unfold; unfold inner_total; cbn [node_rep elements_of'].
  - assert (Ho : forall cur reps' b', b' - zsum (map total els) <= snd (once_b env (TElem a at_ v r s els) cur reps' b')).
    { intros cur reps' b'. cbn [once_b]. pose proof (list_b_ge env reps' els IH b') as Hl.
      destruct (list_b (unroll_b env reps') els b') as [x b1]. exact Hl. }
    destruct r as [r0|]; [|apply Ho]. cbv zeta.
    rewrite <- (N_nat_Z (written_count r0)). apply (copies_b_ge _ (zsum (map total els))).
    + intros i b'. apply Ho.
    + apply zsum_nonneg. apply Forall_map. apply Forall_forall. intros; apply total_nonneg.
  - assert (Ho : forall cur reps' b', b' - zsum (map total els) <= snd (once_b env (TGroup els r) cur reps' b')).
    { intros cur reps' b'. cbn [once_b]. pose proof (list_b_ge env reps' els IH b') as Hl.
      destruct (list_b (unroll_b env reps') els b') as [x b1]. exact Hl. }
    destruct r as [r0|]; [|apply Ho]. cbv zeta.
    rewrite <- (N_nat_Z (written_count r0)). apply (copies_b_ge _ (zsum (map total els))).
    + intros i b'. apply Ho.
    + apply zsum_nonneg. apply Forall_map. apply Forall_forall. intros; apply total_nonneg.
Qed.

(* ================================================================ the statements of C02, on the model *)
Definition strip_rep (node : tnode) : tnode :=
  match node with
  | TElem a b c _ s els => TElem a b c None s els
  | TGroup els _ => TGroup els None
  end.

Definition set_rep (r : rep) (n : anode) : anode :=
  match n with ANode nm v _ at_ ch sc => ANode nm v (Some r) at_ ch sc end.
(* the converter records on each copy which repetition it is (AbbreviationNode.repeat) *)
Definition tag_copy (node : tnode) (r : rep) (items : list anode) : list anode :=
  match node with
  | TGroup _ _ => attach_repeater items r
  | TElem _ _ _ _ _ _ => match items with x :: rest => set_rep r x :: rest | [] => [] end
  end.

(* copy number i+1 of n of [node] = the unit itself, written without its `*n`, converted under the
   repeater stack (n, i) :: enclosing *)
Lemma copy_is_unit env node n i reps :
  once_u env node (Some (mkRep n i false)) (mkRep n i false :: reps) =
  tag_copy node (mkRep n i false) (unroll env (mkRep n i false :: reps) (strip_rep node)).
Proof.
  rewrite unroll_unfold.
  destruct node as [a at_ v r s els|els r]; cbn [strip_rep node_rep once_u tag_copy]; [|reflexivity].
  unfold leaf_items. destruct (text_only_of _ _ _); reflexivity.
Qed.

(* convert_count: X*N with enough budget gives exactly N consecutive copies, copy i (0-based here)
   converted with counter (N, i); the budget drops by the number of copies completed.
   N = written count, `*0` counting as 1. *)
Theorem convert_count env node r0 st :
  clean_node node = true -> node_rep node = Some r0 ->
  total node <= cs_guard st ->
  let n := written_count r0 in
  conv_stmt env node st =
  Ok (flat_map (fun i => tag_copy node (mkRep n i false)
                           (unroll env (mkRep n i false :: cs_repeaters st) (strip_rep node)))
               (nseq (N.to_nat n) 0%N),
      set_guard st (cs_guard st - total node)).
Proof.
  intros Hc Hr Hb n. rewrite (conv_stmt_spec env node Hc st).
  rewrite unroll_b_enough by exact Hb. cbn [fst snd]. rewrite unroll_unfold, Hr. cbv zeta.
  f_equal. f_equal. apply flat_map_ext. intros i. apply copy_is_unit.
Qed.

Lemma nseq_length k i : length (nseq k i) = k.
Proof. revert i. induction k as [|k IH]; intros i; cbn [nseq length]; [reflexivity|]. rewrite IH. reflexivity. Qed.
Lemma nseq_nth k : forall i j, (j < k)%nat -> nth_error (nseq k i) j = Some (i + N.of_nat j)%N.
Proof.
  induction k as [|k IH]; intros i j Hj; [lia|]. destruct j as [|j]; cbn [nseq nth_error].
  - f_equal. lia.
  - rewrite IH by lia. f_equal. lia.
Qed.

(* a unit without repeater is converted once, under the stack of its surroundings: the counter in
   force is that of the nearest enclosing repeated unit *)
Theorem convert_unrepeated env node st :
  clean_node node = true -> node_rep node = None -> total node <= cs_guard st ->
  conv_stmt env node st = Ok (once_u env node None (cs_repeaters st), set_guard st (cs_guard st - total node)).
Proof.
  intros Hc Hr Hb. rewrite (conv_stmt_spec env node Hc st).
  rewrite unroll_b_enough by exact Hb. cbn [fst snd]. rewrite unroll_unfold, Hr. reflexivity.
Qed.

(* guard_enough / guard_step *)
Theorem guard_enough env node st :
  clean_node node = true -> total node <= cs_guard st ->
  conv_stmt env node st = Ok (unroll env (cs_repeaters st) node, set_guard st (cs_guard st - total node)).
Proof.
  intros Hc Hb. rewrite (conv_stmt_spec env node Hc st). rewrite unroll_b_enough by exact Hb. reflexivity.
Qed.

Theorem guard_bounds env node st items st' :
  clean_node node = true -> conv_stmt env node st = Ok (items, st') ->
  cs_guard st - total node <= cs_guard st' <= cs_guard st /\
  cs_repeaters st' = cs_repeaters st.
Proof.
  intros Hc H. rewrite (conv_stmt_spec env node Hc st) in H. inversion H; subst.
  cbn [set_guard cs_guard cs_repeaters]. split; [split|reflexivity]; [apply unroll_b_ge|apply unroll_b_le].
Qed.

(* guard_exhausted: budget used up: every repeater, running or met later, yields just one copy *)
Theorem guard_exhausted env node st :
  clean_node node = true -> cs_guard st <= 0 ->
  conv_stmt env node st = Ok (unroll_one env (cs_repeaters st) node, set_guard st (cs_guard st - repeaters node)).
Proof.
  intros Hc Hb. rewrite (conv_stmt_spec env node Hc st). rewrite unroll_b_exhausted by exact Hb. reflexivity.
Qed.

(* ---- the whole converter *)
Definition budget_of (max_repeat : option N) : Z :=
  match max_repeat with Some m => Z.of_N m | None => 1000000 end.
Definition total_list (l : list tnode) : Z := zsum (map total l).

Theorem convert_limit_full env max_repeat root :
  ce_text env = WNone -> forallb clean_node root = true ->
  convert env max_repeat root = Ok (fst (list_b (unroll_b env []) root (budget_of max_repeat))).
Proof.
  intros Ht Hc. unfold convert. rewrite conv_list_list_conv.
  rewrite list_conv_spec.
  - cbn [bind cs_repeaters cs_guard]. rewrite Ht. reflexivity.
  - apply (Forall_forallb_and clean_node); [|exact Hc]. apply Forall_forall. intros c _ H. apply conv_stmt_spec. exact H.
Qed.

Theorem convert_enough env max_repeat root :
  ce_text env = WNone -> forallb clean_node root = true ->
  total_list root <= budget_of max_repeat ->
  convert env max_repeat root = Ok (flat_map (unroll env []) root).
Proof.
  intros Ht Hc Hb. rewrite convert_limit_full by assumption.
  rewrite list_b_enough; [reflexivity| |exact Hb].
  apply Forall_forall. intros c _ reps b. apply unroll_b_enough.
Qed.

(* ---- which counter a `$` run sees *)
Lemma tok_str_numbering env reps t size reverse base :
  tk t = TRepeaterNumber size reverse base 0 ->
  tok_str env reps t = pad (N.to_nat size) (str_of_Z (counter_in_force reverse base reps)).
Proof.
  intros Ht. unfold tok_str. rewrite (numbering_value env t size reverse base (st_of reps) Ht). reflexivity.
Qed.

(* inside copy i+1 of n the run prints start+i, or start+n-(i+1) when reversed *)
Corollary numbering_in_copy env reps t size reverse base n i :
  tk t = TRepeaterNumber size reverse base 0 ->
  tok_str env (mkRep n i false :: reps) t =
  pad (N.to_nat size) (str_of_Z (counter_value reverse base (i + 1) n)).
Proof. intros Ht. rewrite (tok_str_numbering _ _ _ _ _ _ Ht). reflexivity. Qed.

Corollary numbering_outside env t size reverse base :
  tk t = TRepeaterNumber size reverse base 0 ->
  tok_str env [] t = pad (N.to_nat size) [c_0 + 1]%N.
Proof. intros Ht. rewrite (tok_str_numbering _ _ _ _ _ _ Ht). reflexivity. Qed.

(* names, values and attributes are the concatenation of their tokens' texts *)
Lemma name_str_cons env reps t r :
  clean_toks (t :: r) = true -> name_str env reps (t :: r) = tok_str env reps t ++ name_str env reps r.
Proof.
  intros H. cbn [clean_toks forallb] in H. apply andb_prop in H. destruct H as [Ht Hr].
  unfold name_str at 1. cbn [stringify_name].
  rewrite (stringify_clean env t (st_of reps) Ht). rewrite (stringify_name_clean env r (st_of reps) Hr).
  reflexivity.
Qed.

(* ---------------------------------------------------------------- a family, end to end on the spec:
   `x$...$@..*n` -- an element whose name is a literal followed by one numbering token -- unrolls to
   n elements named x<counter of copy 1>, ..., x<counter of copy n>, for every n >= 1 *)
Lemma tok_str_literal env reps t v : tk t = TLiteral v -> tok_str env reps t = v.
Proof. intros Ht. unfold tok_str, stringify. rewrite Ht. reflexivity. Qed.

Lemma map_flat_map_single {A B C} (f : A -> list B) (g : B -> C) (h : A -> C) l :
  (forall x, map g (f x) = [h x]) -> map g (flat_map f l) = map h l.
Proof.
  intros H. induction l as [|x l IH]; [reflexivity|]. cbn [flat_map map]. rewrite map_app, H, IH. reflexivity.
Qed.

Theorem numbered_element_names env lit num v size reverse base n :
  tk lit = TLiteral v -> tk num = TRepeaterNumber size reverse base 0 -> (1 <= n)%N ->
  map an_name (unroll env [] (TElem (Some [lit; num]) None None (Some (mkRep n 0 false)) false [])) =
  map (fun i => Some (v ++ pad (N.to_nat size) (str_of_Z (counter_value reverse base (i + 1) n))))
      (nseq (N.to_nat n) 0%N).
Proof.
  intros Hl Hn Hpos. rewrite unroll_unfold. cbn [node_rep]. cbv zeta.
  assert (Hw : written_count (mkRep n 0 false) = n).
  { unfold written_count. cbn [rcount]. destruct (n =? 0)%N eqn:E; [apply N.eqb_eq in E; lia|reflexivity]. }
  rewrite Hw. apply map_flat_map_single. intros i.
  cbn [once_u flat_map]. unfold leaf_items. cbn [nonempty option_map text_only_of].
  assert (Hc : clean_toks [lit; num] = true).
  { unfold clean_toks, clean_tok. cbn [forallb]. rewrite Hl, Hn. reflexivity. }
  rewrite (name_str_cons env _ lit [num] Hc).
  assert (Hc2 : clean_toks [num] = true).
  { unfold clean_toks, clean_tok. cbn [forallb]. rewrite Hn. reflexivity. }
  rewrite (name_str_cons env _ num [] Hc2).
  rewrite (tok_str_literal env _ lit v Hl), (numbering_in_copy env [] num size reverse base n i Hn).
  assert (Hnil : forall reps, name_str env reps [] = []) by reflexivity.
  rewrite Hnil, app_nil_r.
  destruct (v ++ pad (N.to_nat size) (str_of_Z (counter_value reverse base (i + 1) n))); reflexivity.
Qed.

(* ---------------------------------------------------------------- names, text and attribute values
   are the concatenation of their tokens' texts (so every `$` run in them is replaced by the counter
   of numbering_in_copy) *)
Lemma name_str_flat env reps : forall toks,
  clean_toks toks = true -> name_str env reps toks = flat_map (tok_str env reps) toks.
Proof.
  induction toks as [|t r IH]; intros H; [reflexivity|].
  rewrite name_str_cons by exact H. cbn [flat_map]. f_equal. apply IH.
  cbn [clean_toks forallb] in H. apply andb_prop in H. apply H.
Qed.

(* a token that stays a token in a value: `${1}` / `${1:placeholder}` *)
Definition is_tabstop (t : token) : bool :=
  match tk t with TField _ (Some _) => true | _ => false end.

Lemma value_acc_glue env reps : forall toks a,
  clean_toks toks = true -> forallb (fun t => negb (is_tabstop t)) toks = true ->
  value_acc env reps toks (Some a) = [VStr (a ++ flat_map (tok_str env reps) toks)].
Proof.
  induction toks as [|t r IH]; intros a Hc Hf.
  - cbn [flat_map]. rewrite app_nil_r. reflexivity.
  - cbn [clean_toks forallb] in Hc, Hf. apply andb_prop in Hc. destruct Hc as [Ht Hr].
    apply andb_prop in Hf. destruct Hf as [Hft Hfr]. apply negb_true_iff in Hft.
    unfold value_acc. cbn [stringify_value_acc].
    rewrite (stringify_clean env t (st_of reps) Ht). cbn [st_of cs_repeaters].
    assert (Hgo : stringify_value_acc env r (Some (a ++ tok_str env reps t)) (st_of reps) =
                  Ok (value_acc env reps r (Some (a ++ tok_str env reps t)), st_of reps)).
    { rewrite (stringify_value_acc_clean env r _ (st_of reps) Hr). reflexivity. }
    unfold is_tabstop in Hft.
    destruct (tk t) as [v|v|s|op b|o|c v i|size rev base par| |name idx] eqn:Ek;
      try (rewrite Hgo; rewrite IH by assumption; cbn [flat_map]; rewrite app_assoc; reflexivity).
    destruct idx as [i|]; [discriminate|].
    rewrite Hgo; rewrite IH by assumption; cbn [flat_map]; rewrite app_assoc; reflexivity.
Qed.

Theorem value_toks_flat env reps t r :
  clean_toks (t :: r) = true -> forallb (fun t => negb (is_tabstop t)) (t :: r) = true ->
  value_toks env reps (t :: r) = [VStr (flat_map (tok_str env reps) (t :: r))].
Proof.
  intros Hc Hf. cbn [clean_toks forallb] in Hc, Hf. apply andb_prop in Hc. destruct Hc as [Ht Hr].
  apply andb_prop in Hf. destruct Hf as [Hft Hfr]. apply negb_true_iff in Hft.
  unfold value_toks, value_acc. cbn [stringify_value_acc].
  rewrite (stringify_clean env t (st_of reps) Ht). cbn [st_of cs_repeaters].
  assert (Hgo : forall a, stringify_value_acc env r a (st_of reps) = Ok (value_acc env reps r a, st_of reps)).
  { intros a. rewrite (stringify_value_acc_clean env r _ (st_of reps) Hr). reflexivity. }
  unfold is_tabstop in Hft.
  destruct (tk t) as [v|v|s|op b|o|c v i|size rev base par| |name idx] eqn:Ek;
    try (rewrite Hgo; rewrite value_acc_glue by assumption; reflexivity).
  destruct idx as [i|]; [discriminate|].
  rewrite Hgo; rewrite value_acc_glue by assumption; reflexivity.
Qed.

(* an attribute written `name=value` without quotes or braces: name and value are the glued texts *)
Theorem attr_of_plain env reps nt nr vt vr expr mult :
  clean_toks (nt :: nr) = true -> clean_toks (vt :: vr) = true ->
  forallb (fun t => negb (is_tabstop t)) (vt :: vr) = true ->
  is_quote_tok vt None = false -> is_bracket vt (Some BExpr) (Some true) = false ->
  aa_value (attr_of env reps (mkTAttr (Some (nt :: nr)) (Some (vt :: vr)) expr mult)) =
  Some [VStr (flat_map (tok_str env reps) (vt :: vr))].
Proof.
  intros Hn Hv Hf Hq Hb. unfold attr_of, convert_attribute. cbn [ta_name ta_value nonempty ta_expression ta_multiple].
  rewrite (stringify_name_clean env (nt :: nr) (st_of reps) Hn). cbn [bind st_of cs_repeaters].
  match goal with |- context [match ?X with pair _ _ => _ end] => destruct X as [[name boolean] implied] end.
  assert (Hsel : (match tk vt with
                  | TQuote single =>
                      (match last_opt vr with
                       | Some l => if is_quote_tok l None then drop_last vr else vr
                       | None => vr
                       end, if single then VSingle else VDouble)
                  | TBracket true BExpr =>
                      (match last_opt vr with
                       | Some l => if is_bracket l (Some BExpr) (Some false) then drop_last vr else vr
                       | None => vr
                       end, VExpr)
                  | _ => (vt :: vr, if expr then VExpr else VRaw)
                  end) = (vt :: vr, if expr then VExpr else VRaw)).
  { unfold is_quote_tok, is_bracket in Hq, Hb.
    destruct (tk vt) as [v|v|s|op b|o|c v i|size rev base par| |name' idx]; try reflexivity; try discriminate.
    destruct op; [|reflexivity]. destruct b; try reflexivity. discriminate. }
  rewrite Hsel.
  rewrite (stringify_value_clean env (vt :: vr) _ Hv). cbn [bind aa_value st_of cs_repeaters].
  rewrite (value_toks_flat env reps vt vr Hv Hf). reflexivity.
Qed.

(* ---------------------------------------------------------------- the limit on a single repeater:
   X*N with no repeater inside X and a budget M >= 1 yields exactly min(N, M) copies *)
Lemma copies_b_min f fu :
  (forall i b, 0 <= b -> f i b = (fu i, b)) ->
  forall k i b, 1 <= b ->
    copies_b f k i b =
    (flat_map fu (nseq (Z.to_nat (Z.min (Z.of_nat k) b)) i), b - Z.min (Z.of_nat k) b).
Proof.
  intros Hf. induction k as [|k IH]; intros i b Hb.
  - cbn [copies_b]. replace (Z.min (Z.of_nat 0) b) with 0 by lia. cbn [Z.to_nat nseq flat_map]. f_equal. lia.
  - cbn [copies_b]. rewrite Hf by lia.
    destruct (b - 1 <=? 0) eqn:E.
    + apply Z.leb_le in E. assert (b = 1) by lia. subst b.
      replace (Z.min (Z.of_nat (S k)) 1) with 1 by lia. change (Z.to_nat 1) with 1%nat. cbn [nseq flat_map].
      rewrite app_nil_r. reflexivity.
    + apply Z.leb_gt in E. rewrite IH by lia.
      replace (Z.to_nat (Z.min (Z.of_nat (S k)) b)) with (S (Z.to_nat (Z.min (Z.of_nat k) (b - 1)))) by lia.
      cbn [nseq flat_map]. f_equal. lia.
Qed.

Theorem single_repeater_limit env node r0 reps b :
  node_rep node = Some r0 -> inner_total node = 0 -> 1 <= b ->
  let n := written_count r0 in
  let m := Z.min (Z.of_N n) b in
  unroll_b env reps node b =
  (flat_map (fun i => tag_copy node (mkRep n i false) (unroll env (mkRep n i false :: reps) (strip_rep node)))
            (nseq (Z.to_nat m) 0%N),
   b - m).
Proof.
  intros Hr Hin Hb n m. rewrite unroll_b_unfold, Hr. cbv zeta. fold n.
  rewrite (copies_b_min _ (fun i => once_u env node (Some (mkRep n i false)) (mkRep n i false :: reps))).
  - rewrite N_nat_Z. fold m. f_equal. apply flat_map_ext. intros i. apply copy_is_unit.
  - intros i b' Hb'. rewrite once_b_enough.
    + rewrite Hin. f_equal. lia.
    + apply Forall_forall. intros c _ reps' b''. apply unroll_b_enough.
    + rewrite Hin. exact Hb'.
  - exact Hb.
Qed.
