(* C03: attribute merging (emmet/markup/attributes.py) refines a short specification;
   attribute output (format/html.py push_attribute) follows a decision table. *)
From Coq Require Import List NArith ZArith Bool Lia.
From Emmet Require Import lib.Base model.MarkupTokenizer model.MarkupParser model.MarkupConvert
     model.MarkupResolve model.OutStream model.FormatHtml.
Import ListNotations.

(* ------------------------------------------------------------------ strings *)
Lemma a_str_eqb_eq : forall a b, str_eqb a b = true <-> a = b.
Proof.
  induction a as [|x a IH]; destruct b as [|y b]; simpl; split; intro H; try reflexivity; try discriminate.
  - apply andb_true_iff in H. destruct H as [H1 H2]. apply N.eqb_eq in H1. apply IH in H2. subst. reflexivity.
  - inversion H; subst. rewrite N.eqb_refl. simpl. apply IH. reflexivity.
Qed.
Lemma a_str_eqb_refl : forall a, str_eqb a a = true.
Proof. intro a. apply a_str_eqb_eq. reflexivity. Qed.
Lemma a_str_eqb_sym : forall a b, str_eqb a b = str_eqb b a.
Proof.
  intros a b. destruct (str_eqb a b) eqn:E1, (str_eqb b a) eqn:E2; try reflexivity.
  - apply a_str_eqb_eq in E1. subst. rewrite a_str_eqb_refl in E2. discriminate.
  - apply a_str_eqb_eq in E2. subst. rewrite a_str_eqb_refl in E1. discriminate.
Qed.
Lemma mem_str_In : forall x l, mem_str x l = true <-> In x l.
Proof.
  intros x l. unfold mem_str. rewrite existsb_exists. split.
  - intros [y [Hy E]]. apply a_str_eqb_eq in E. subst. exact Hy.
  - intro H. exists x. split; [exact H|apply a_str_eqb_refl].
Qed.
Lemma mem_str_not_In : forall x l, mem_str x l = false <-> ~ In x l.
Proof.
  intros x l. split.
  - intros H HI. apply mem_str_In in HI. congruence.
  - intro H. destruct (mem_str x l) eqn:E; [|reflexivity]. apply mem_str_In in E. contradiction.
Qed.

Lemma NoDup_app_remove_l {A} : forall (l1 l2 : list A), NoDup (l1 ++ l2) -> NoDup l2.
Proof. induction l1; simpl; intros l2 H; [exact H|]. inversion H; subst. apply IHl1. assumption. Qed.
Lemma NoDup_app_intro_single {A} : forall (l : list A) x, NoDup l -> ~ In x l -> NoDup (l ++ [x]).
Proof.
  induction l as [|y l IH]; simpl; intros x ND NI.
  - constructor; [intros []|constructor].
  - inversion ND; subst. constructor.
    + intro H. apply in_app_or in H. destruct H as [H|[H|[]]]; [contradiction|]. subst. apply NI. left. reflexivity.
    + apply IH; [assumption|]. intro H. apply NI. right. exact H.
Qed.

(* ------------------------------------------------------------------ SPEC *)
(* the name an attribute is merged under: a non-empty name *)
Definition named (a : aattr) : option str :=
  match aa_name a with Some ((_ :: _) as n) => Some n | _ => None end.

(* the later mentions of name [n], in written order *)
Definition mentions (n : str) (l : list aattr) : list aattr :=
  filter (fun b => opt_str_eqb (aa_name b) n) l.

Definition is_expr (a : aattr) : bool := vtype_eqb (aa_vtype a) VExpr.

(* class values: joined by one space in written order (a missing value contributes nothing,
   an empty accumulated value takes no separator) *)
Definition join_class (v : option (list vtok)) (g : list aattr) : option (list vtok) :=
  fold_left (fun acc b => merge_value acc (aa_value b) [c_space]) g v.

(* one name, first mention [a], later mentions [g]:
   class     -> values joined, everything else from the first mention;
   otherwise -> value of the last mention (of the first under reverseAttributes), expression if any
                mention is an expression else the type of the last mention, boolean / implied if any
                mention is, `multiple` of the first mention *)
Definition merge_group (rev_attrs : bool) (n : str) (a : aattr) (g : list aattr) : aattr :=
  if str_eqb n s_class then
    mkAAttr (aa_name a) (join_class (aa_value a) g) (aa_vtype a) (aa_boolean a) (aa_implied a) (aa_multiple a)
  else
    let l := last g a in
    mkAAttr (aa_name l)
            (aa_value (if rev_attrs then a else l))
            (if existsb is_expr (a :: g) then VExpr else aa_vtype l)
            (existsb aa_boolean (a :: g))
            (existsb aa_implied (a :: g))
            (aa_multiple a).

(* stable de-duplication by name: every name once, at the position of its first mention *)
Fixpoint merge_spec (rev_attrs : bool) (seen : list str) (l : list aattr) : list aattr :=
  match l with
  | [] => []
  | a :: r =>
      match named a with
      | None => a :: merge_spec rev_attrs seen r
      | Some n =>
          if mem_str n seen then merge_spec rev_attrs seen r
          else merge_group rev_attrs n a (mentions n r) :: merge_spec rev_attrs (n :: seen) r
      end
  end.

(* ------------------------------------------------------------------ refinement proof *)
Definition absorb (rev_attrs : bool) (g : list aattr) (x : aattr) : aattr :=
  match named x with
  | Some n => merge_group rev_attrs n x (mentions n g)
  | None => x
  end.

Definition anames (l : list aattr) : list str :=
  flat_map (fun x => match named x with Some n => [n] | None => [] end) l.

Lemma named_some : forall a n, named a = Some n -> aa_name a = Some n /\ n <> [].
Proof.
  intros a n H. unfold named in H. destruct (aa_name a) as [[|c s]|]; try discriminate.
  inversion H; subst. split; [reflexivity|discriminate].
Qed.

Lemma named_match : forall a,
  match aa_name a with Some ((_ :: _) as nm) => named a = Some nm | _ => named a = None end.
Proof. intro a. unfold named. destruct (aa_name a) as [[|c s]|]; reflexivity. Qed.

Lemma opt_eqb_named : forall a n, n <> [] -> opt_str_eqb (aa_name a) n = true <-> named a = Some n.
Proof.
  intros a n Hn. unfold opt_str_eqb, named. destruct (aa_name a) as [[|c s]|]; split; intro H; try discriminate.
  - destruct n; [contradiction|discriminate].
  - apply a_str_eqb_eq in H. subst. reflexivity.
  - inversion H; subst. apply a_str_eqb_refl.
Qed.

Lemma merge_group_nil : forall rv n a, merge_group rv n a [] = a.
Proof.
  intros rv n a. unfold merge_group, join_class, is_expr. simpl.
  destruct a as [nm v vt b i m]. simpl.
  destruct (str_eqb n s_class); [reflexivity|].
  destruct rv, vt, b, i; reflexivity.
Qed.

Lemma absorb_nil : forall rv x, absorb rv [] x = x.
Proof. intros. unfold absorb. destruct (named x); [apply merge_group_nil|reflexivity]. Qed.

Lemma map_absorb_nil : forall rv l, map (absorb rv []) l = l.
Proof. intros. induction l; simpl; [reflexivity|]. rewrite absorb_nil, IHl. reflexivity. Qed.

(* a mention under another name (or without a name) does not touch [x] *)
Lemma absorb_skip : forall rv a g x,
  (forall n, named x = Some n -> named a <> Some n) -> absorb rv (a :: g) x = absorb rv g x.
Proof.
  intros rv a g x H. unfold absorb. destruct (named x) as [n|] eqn:E; [|reflexivity].
  unfold mentions. simpl.
  destruct (opt_str_eqb (aa_name a) n) eqn:E2; [|reflexivity].
  apply named_some in E. destruct E as [_ Hn].
  apply opt_eqb_named in E2; [|exact Hn]. exfalso. exact (H n eq_refl E2).
Qed.

Lemma map_absorb_skip : forall rv a g l,
  (forall n, In n (anames l) -> named a <> Some n) -> map (absorb rv (a :: g)) l = map (absorb rv g) l.
Proof.
  intros rv a g l. induction l as [|x l IH]; intro H; simpl; [reflexivity|].
  rewrite absorb_skip, IH; [reflexivity| |].
  - intros n Hn. apply H. unfold anames in *. simpl. apply in_or_app. right. exact Hn.
  - intros n Hn. apply H. unfold anames. simpl. rewrite Hn. left. reflexivity.
Qed.

(* one merge step of the loop = taking one more mention into the group *)
Definition step (rv : bool) (n : str) (a prev : aattr) : aattr :=
  if str_eqb n s_class
  then mkAAttr (aa_name prev) (merge_value (aa_value prev) (aa_value a) [c_space])
               (aa_vtype prev) (aa_boolean prev) (aa_implied prev) (aa_multiple prev)
  else merge_declarations rv prev a.

Lemma last_cons_default {A} : forall (g : list A) a x, last (a :: g) x = last g a.
Proof.
  induction g as [|b g IH]; intros; [reflexivity|].
  change (last (a :: b :: g) x) with (last (b :: g) x). rewrite IH.
  destruct g; [reflexivity|]. simpl. clear. revert a0. induction g; intros; simpl; [reflexivity|]. apply IHg.
Qed.

Lemma last_nonempty_default {A} : forall (g : list A) b x y, last (b :: g) x = last (b :: g) y.
Proof. intros. rewrite !last_cons_default. reflexivity. Qed.

Lemma vtype_eqb_expr : forall v, vtype_eqb v VExpr = true -> v = VExpr.
Proof. destruct v; simpl; intro H; try discriminate; reflexivity. Qed.

Lemma merge_group_step : forall rv n x a g,
  merge_group rv n x (a :: g) = merge_group rv n (step rv n a x) g.
Proof.
  intros rv n x a g. unfold merge_group, step.
  destruct (str_eqb n s_class) eqn:Ec.
  - unfold join_class. simpl. reflexivity.
  - rewrite last_cons_default.
    unfold merge_declarations.
    destruct g as [|b g].
    + simpl. unfold is_expr. simpl.
      destruct (vtype_eqb (aa_vtype x) VExpr) eqn:Ex; simpl.
      * destruct rv; rewrite ?orb_false_r; reflexivity.
      * rewrite !orb_false_r. destruct (vtype_eqb (aa_vtype a) VExpr) eqn:Ea.
        -- apply vtype_eqb_expr in Ea. rewrite Ea. destruct rv; reflexivity.
        -- destruct rv; reflexivity.
    + assert (Hl : forall d, last (b :: g) d = last (b :: g) a) by (intro d; apply last_nonempty_default).
      rewrite (Hl (mkAAttr _ _ _ _ _ _)).
      set (l := last (b :: g) a).
      cbn [existsb aa_boolean aa_implied aa_value aa_multiple aa_name aa_vtype is_expr].
      unfold is_expr. cbn [aa_vtype].
      assert (Hv : vtype_eqb (if vtype_eqb (aa_vtype x) VExpr then VExpr else aa_vtype a) VExpr
                   = vtype_eqb (aa_vtype x) VExpr || vtype_eqb (aa_vtype a) VExpr).
      { destruct (vtype_eqb (aa_vtype x) VExpr); reflexivity. }
      rewrite Hv. rewrite !orb_assoc.
      destruct rv; reflexivity.
Qed.

Lemma step_name : forall rv n a prev,
  aa_name a = Some n -> aa_name prev = Some n -> aa_name (step rv n a prev) = Some n.
Proof. intros. unfold step. destruct (str_eqb n s_class); simpl; assumption. Qed.

Lemma step_named : forall rv n a prev,
  named a = Some n -> named prev = Some n -> named (step rv n a prev) = Some n.
Proof.
  intros rv n a prev Ha Hp. pose proof (named_some _ _ Ha) as [Ha1 Hn]. pose proof (named_some _ _ Hp) as [Hp1 _].
  unfold named. rewrite (step_name rv n a prev Ha1 Hp1). destruct n; [contradiction|reflexivity].
Qed.

(* update_named on a list whose names are duplicate-free *)
Lemma update_named_absorb : forall rv n a g acc,
  named a = Some n -> NoDup (anames acc) ->
  map (absorb rv g) (update_named n (step rv n a) acc) = map (absorb rv (a :: g)) acc.
Proof.
  intros rv n a g acc Ha. pose proof (named_some _ _ Ha) as [Ha1 Hn].
  induction acc as [|x acc IH]; intro ND; simpl; [reflexivity|].
  destruct (opt_str_eqb (aa_name x) n) eqn:E.
  - apply opt_eqb_named in E; [|exact Hn].
    simpl. f_equal.
    + unfold absorb. rewrite (step_named rv n a x Ha E), E.
      unfold mentions at 2. simpl.
      assert (E2 : opt_str_eqb (aa_name a) n = true) by (apply opt_eqb_named; assumption).
      rewrite E2. fold (mentions n g). symmetry. apply merge_group_step.
    + symmetry. apply map_absorb_skip. intros m Hm Hc. rewrite Ha in Hc. inversion Hc; subst m.
      unfold anames in ND. simpl in ND. rewrite E in ND. simpl in ND. inversion ND; subst. contradiction.
  - simpl. f_equal.
    + symmetry. apply absorb_skip. intros m Hm Hc. rewrite Ha in Hc. inversion Hc; subst m.
      apply opt_eqb_named in Hm; [|exact Hn]. congruence.
    + apply IH. unfold anames in *. simpl in ND. apply NoDup_app_remove_l in ND. exact ND.
Qed.

Lemma update_named_names : forall rv n a acc,
  named a = Some n -> anames (update_named n (step rv n a) acc) = anames acc.
Proof.
  intros rv n a acc Ha. pose proof (named_some _ _ Ha) as [_ Hn].
  induction acc as [|x acc IH]; simpl; [reflexivity|].
  destruct (opt_str_eqb (aa_name x) n) eqn:E.
  - apply opt_eqb_named in E; [|exact Hn]. unfold anames. simpl.
    rewrite (step_named rv n a x Ha E), E. reflexivity.
  - unfold anames in *. simpl. rewrite IH. reflexivity.
Qed.

Lemma anames_app : forall l1 l2, anames (l1 ++ l2) = anames l1 ++ anames l2.
Proof. intros. unfold anames. apply flat_map_app. Qed.

Lemma loop_step_eq : forall rv name a,
  (fun prev : aattr =>
     if str_eqb name s_class
     then mkAAttr (aa_name prev) (merge_value (aa_value prev) (aa_value a) [c_space])
                  (aa_vtype prev) (aa_boolean prev) (aa_implied prev) (aa_multiple prev)
     else merge_declarations rv prev a) = step rv name a.
Proof. reflexivity. Qed.

Lemma merge_loop_spec : forall rv todo acc seen,
  NoDup (anames acc) -> incl (anames acc) seen ->
  merge_attrs_loop rv todo acc seen = map (absorb rv todo) acc ++ merge_spec rv seen todo.
Proof.
  intros rv todo. induction todo as [|a r IH]; intros acc seen ND INC.
  - simpl. rewrite map_absorb_nil, app_nil_r. reflexivity.
  - cbn [merge_attrs_loop merge_spec].
    pose proof (named_match a) as NM.
    destruct (aa_name a) as [[|c s]|] eqn:En.
    + (* empty name *)
      rewrite NM. rewrite IH.
      * rewrite map_app. simpl. rewrite <- app_assoc. simpl.
        rewrite map_absorb_skip by (intros n _; rewrite NM; discriminate).
        unfold absorb at 2. rewrite NM. reflexivity.
      * rewrite anames_app. unfold anames at 2. simpl. rewrite NM. simpl. rewrite app_nil_r. exact ND.
      * rewrite anames_app. unfold anames at 2. simpl. rewrite NM. simpl. rewrite app_nil_r. exact INC.
    + (* a name *)
      rewrite NM.
      destruct (mem_str (c :: s) seen) eqn:Em.
      * rewrite loop_step_eq. rewrite IH.
        -- rewrite update_named_absorb by assumption. reflexivity.
        -- rewrite update_named_names by assumption. exact ND.
        -- rewrite update_named_names by assumption. exact INC.
      * apply mem_str_not_In in Em.
        rewrite IH.
        -- rewrite map_app. simpl. rewrite <- app_assoc. simpl.
           rewrite map_absorb_skip.
           ++ unfold absorb at 2. rewrite NM. reflexivity.
           ++ intros n Hn Hc. rewrite NM in Hc. inversion Hc; subst n. apply Em. apply INC. exact Hn.
        -- rewrite anames_app. unfold anames at 2. simpl. rewrite NM. simpl.
           apply NoDup_app_intro_single; [exact ND|]. intro Hc. apply Em. apply INC. exact Hc.
        -- rewrite anames_app. unfold anames at 2. simpl. rewrite NM. simpl.
           intros y Hy. apply in_app_or in Hy. destruct Hy as [Hy|[Hy|[]]].
           ++ right. apply INC. exact Hy.
           ++ left. exact Hy.
    + (* no name *)
      rewrite NM. rewrite IH.
      * rewrite map_app. simpl. rewrite <- app_assoc. simpl.
        rewrite map_absorb_skip by (intros n _; rewrite NM; discriminate).
        unfold absorb at 2. rewrite NM. reflexivity.
      * rewrite anames_app. unfold anames at 2. simpl. rewrite NM. simpl. rewrite app_nil_r. exact ND.
      * rewrite anames_app. unfold anames at 2. simpl. rewrite NM. simpl. rewrite app_nil_r. exact INC.
Qed.

(* merge_attributes(node, config) = the specification, for every attribute list *)
Theorem merge_refines_spec : forall (rev_attrs : bool) (attrs : list aattr),
  merge_attrs_loop rev_attrs attrs [] [] = merge_spec rev_attrs [] attrs.
Proof.
  intros. rewrite merge_loop_spec; [reflexivity|constructor|intros x []].
Qed.

Theorem merge_attributes_spec : forall (rev_attrs : bool) (attrs : option (list aattr)),
  merge_attributes rev_attrs attrs =
  match attrs with
  | Some ((_ :: _) as l) => Some (merge_spec rev_attrs [] l)
  | other => other
  end.
Proof.
  intros rv [[|a l]|]; unfold merge_attributes; simpl; try reflexivity.
  f_equal. apply (merge_refines_spec rv (a :: l)).
Qed.

(* ================================================================== attribute output *)
(* what push_attribute writes for one attribute *)
Inductive attr_form :=
| AF_none                                                   (* nothing *)
| AF_bare (name : str)                                      (* ` name` *)
| AF_empty (name lq rq : str)                               (* ` name` then `=` lq rq in one push *)
| AF_value (name lq : str) (v : list vtok) (rq : str).      (* ` name`, `=` lq, the value tokens, rq *)

Definition write_form (c : oconfig) (f : attr_form) (st : fstate) : fstate :=
  match f with
  | AF_none => st
  | AF_bare n => push_str c (c_space :: n) st
  | AF_empty n lq rq => push_str c (c_eq :: lq ++ rq) (push_str c (c_space :: n) st)
  | AF_value n lq v rq => push_str c rq (push_tokens c v (push_str c (c_eq :: lq) (push_str c (c_space :: n) st)))
  end.

(* name written for an attribute called [nm0]: markup.attributes (the `name*` entry first when the
   shorthand was doubled), then output.attributeCase *)
Definition out_name (c : oconfig) (nm0 : str) (multiple : bool) : str :=
  attr_name c (match oc_markup_attributes c with
               | Some ((_ :: _) as tbl) =>
                   match get_multi_value nm0 tbl multiple with
                   | Some ((_ :: _) as m) => m
                   | _ => nm0
                   end
               | _ => nm0
               end).

(* the configured quote, braces for expressions *)
Definition quote_of (c : oconfig) (a : aattr) : str * str :=
  match aa_vtype a with
  | VExpr => ([c_lbrace], [c_rbrace])
  | _ => let q := if str_eqb (oc_attr_quotes c) s_single then c_squote else c_dquote in ([q], [q])
  end.

(* markup.valuePrefix: a single string value becomes prefix.value / prefix['value'], in braces under jsx *)
Definition prefixed (c : oconfig) (a : aattr) (nm0 : str) : option (list vtok * (str * str)) :=
  match oc_value_prefix c with
  | Some ((_ :: _) as tbl) =>
      match get_multi_value nm0 tbl (aa_multiple a), aa_value a with
      | Some ((_ :: _) as pf), Some [VStr val] =>
          Some ([VStr (if is_prop_key val then pf ++ [c_dot] ++ val
                       else pf ++ [c_lbrack; c_squote] ++ val ++ [c_squote; c_rbrack])],
                if oc_jsx c then ([c_lbrace], [c_rbrace]) else quote_of c a)
      | _, _ => None
      end
  | _ => None
  end.

(* THE DECISION TABLE *)
Definition attr_out_spec (c : oconfig) (a : aattr) : attr_form :=
  match aa_name a with
  | Some ((_ :: _) as nm0) =>
      let name := out_name c nm0 (aa_multiple a) in
      let '(value, (lq, rq)) := match prefixed c a nm0 with
                                | Some r => r
                                | None => (match aa_value a with Some v => v | None => [] end, quote_of c a)
                                end in
      match value with
      | _ :: _ => AF_value name lq value rq                      (* a value: verbatim between the quotes *)
      | [] =>
          if is_boolean_attribute c a then
            if oc_compact_boolean c
            then (if str_eqb (oc_self_closing_style c) s_html then AF_bare name else AF_empty name lq rq)
            else AF_value name lq [VStr name] rq                  (* name="name" *)
          else AF_value name lq caret rq                          (* empty value: a tabstop *)
      end
  | _ => AF_none                                                  (* no name: nothing *)
  end.

Theorem attr_out_table : forall (c : oconfig) (a : aattr) (st : fstate),
  push_attribute c a st = write_form c (attr_out_spec c a) st.
Proof.
  intros c a st. unfold push_attribute, attr_out_spec.
  destruct (aa_name a) as [[|ch nm]|]; try reflexivity.
  fold (out_name c (ch :: nm) (aa_multiple a)).
  set (name := out_name c (ch :: nm) (aa_multiple a)).
  unfold prefixed.
  assert (Q : forall b, attr_quote c a b = if b then fst (quote_of c a) else snd (quote_of c a)).
  { intro b. unfold attr_quote, quote_of. destruct (aa_vtype a), b; reflexivity. }
  rewrite !Q. simpl (if true then _ else _). simpl (if false then _ else _).
  destruct (quote_of c a) as [lq rq] eqn:EQ. simpl fst. simpl snd.
  destruct (oc_value_prefix c) as [[|pe ptbl]|].
  - (* empty prefix table *)
    destruct (aa_value a) as [[|v0 vs]|]; simpl;
      destruct (is_boolean_attribute c a); simpl;
      try destruct (oc_compact_boolean c); simpl;
      try destruct (str_eqb (oc_self_closing_style c) s_html); reflexivity.
  - destruct (get_multi_value (ch :: nm) (pe :: ptbl) (aa_multiple a)) as [[|pc pf]|];
      destruct (aa_value a) as [[|[val|fi fn] [|v1 vs]]|]; simpl;
      try destruct (oc_jsx c); simpl;
      destruct (is_boolean_attribute c a); simpl;
      try destruct (oc_compact_boolean c); simpl;
      try destruct (str_eqb (oc_self_closing_style c) s_html); reflexivity.
  - (* no prefix table *)
    destruct (aa_value a) as [[|v0 vs]|]; simpl;
      destruct (is_boolean_attribute c a); simpl;
      try destruct (oc_compact_boolean c); simpl;
      try destruct (str_eqb (oc_self_closing_style c) s_html); reflexivity.
Qed.

(* implied attributes (`!name`) without value are dropped, everything else is written *)
Theorem implied_dropped : forall a,
  should_output_attribute a = false <->
  aa_implied a = true /\ aa_vtype a = VRaw /\ (aa_value a = None \/ aa_value a = Some []).
Proof.
  intro a. unfold should_output_attribute, vtype_is_raw, truthy_l.
  destruct (aa_implied a), (aa_vtype a), (aa_value a) as [[|x l]|]; simpl; split; intro H;
    try discriminate; try reflexivity; try (destruct H as [H1 [H2 [H3|H3]]]; discriminate);
    try (split; [reflexivity|split; [reflexivity|auto]]).
Qed.

(* ------------------------------------------------------------------ the characters written *)
Definition nl_free (s : str) : Prop := forallb (fun ch => negb (is_linebreak ch)) s = true.

Lemma nl_free_not_crlf ch : is_linebreak ch = false -> ((ch =? c_cr) || (ch =? c_nl))%N = false.
Proof.
  intros H. destruct (ch =? c_cr)%N eqn:E1.
  - apply N.eqb_eq in E1. subst. vm_compute in H. discriminate.
  - destruct (ch =? c_nl)%N eqn:E2; [|reflexivity].
    apply N.eqb_eq in E2. subst. vm_compute in H. discriminate.
Qed.

Lemma split_crlf_aux_nl_free : forall s cur, nl_free s ->
  split_crlf_aux s cur = match rev cur ++ s with [] => [] | l => [l] end.
Proof.
  induction s as [|ch s IH]; intros cur H.
  - simpl. rewrite app_nil_r. destruct cur; simpl; [reflexivity|]. destruct (rev cur ++ [c]) eqn:E; [|reflexivity].
    apply app_eq_nil in E. destruct E; discriminate.
  - unfold nl_free in H. simpl in H. apply andb_true_iff in H. destruct H as [H1 H2].
    apply negb_true_iff in H1. cbn [split_crlf_aux]. rewrite (nl_free_not_crlf ch H1). rewrite IH by exact H2. simpl.
    rewrite <- app_assoc. reflexivity.
Qed.

Lemma os_value_push : forall o s, os_value (os_push o s) = os_value o ++ s.
Proof.
  intros. unfold os_value, os_push, os_push_gen. simpl. rewrite map_app, concat_app. simpl.
  rewrite app_nil_r. reflexivity.
Qed.

Lemma os_value_push_string : forall f o s, nl_free s -> os_value (os_push_string f o s) = os_value o ++ s.
Proof.
  intros f o s H. unfold os_push_string, split_crlf. rewrite split_crlf_aux_nl_free by exact H. simpl.
  destruct s; simpl; [rewrite app_nil_r; reflexivity|apply os_value_push].
Qed.

Lemma os_value_push_field : forall o i ph, os_value (os_push_field o i ph) = os_value o ++ ph.
Proof.
  intros. unfold os_value, os_push_field. simpl. rewrite map_app, concat_app. simpl.
  rewrite app_nil_r. reflexivity.
Qed.

(* text of a value: strings verbatim, a field shows its placeholder (default output.field) *)
Definition tok_text (v : vtok) : str := match v with VStr s => s | VField _ nm => nm end.
Definition toks_nl_free (l : list vtok) : Prop :=
  Forall (fun v => match v with VStr s => nl_free s | VField _ _ => True end) l.

Lemma push_tokens_value : forall c l st, toks_nl_free l ->
  os_value (fs_out (push_tokens c l st)) = os_value (fs_out st) ++ concat (map tok_text l).
Proof.
  intros c l st H. unfold push_tokens.
  set (step := fun '(o, lg) t => match t with
                 | VStr s => (os_push_string (oc_fmt c) o s, lg)
                 | VField i nm => (os_push_field o (fs_field st + i)%N nm,
                                   match lg with Some l0 => Some (N.max l0 i) | None => Some i end)
                 end).
  assert (G : forall l o lg, toks_nl_free l ->
              os_value (fst (fold_left step l (o, lg))) = os_value o ++ concat (map tok_text l)).
  { clear H l. induction l as [|t l IH]; intros o lg H; simpl; [rewrite app_nil_r; reflexivity|].
    inversion H; subst. destruct t as [s|i nm]; simpl.
    - rewrite IH by assumption. rewrite os_value_push_string by assumption. rewrite app_assoc. reflexivity.
    - rewrite IH by assumption. rewrite os_value_push_field. rewrite app_assoc. reflexivity. }
  specialize (G l (fs_out st) None H).
  destruct (fold_left step l (fs_out st, None)) as [out largest]. simpl in G. simpl. exact G.
Qed.

Lemma push_str_value : forall c s st, nl_free s ->
  os_value (fs_out (push_str c s st)) = os_value (fs_out st) ++ s.
Proof. intros. unfold push_str. simpl. apply os_value_push_string. assumption. Qed.

(* the characters one form adds to the output *)
Definition form_text (f : attr_form) : str :=
  match f with
  | AF_none => []
  | AF_bare n => c_space :: n
  | AF_empty n lq rq => c_space :: n ++ c_eq :: lq ++ rq
  | AF_value n lq v rq => c_space :: n ++ c_eq :: lq ++ concat (map tok_text v) ++ rq
  end.
Definition form_nl_free (f : attr_form) : Prop :=
  match f with
  | AF_none => True
  | AF_bare n => nl_free n
  | AF_empty n lq rq => nl_free n /\ nl_free lq /\ nl_free rq
  | AF_value n lq v rq => nl_free n /\ nl_free lq /\ toks_nl_free v /\ nl_free rq
  end.

Lemma nl_free_cons : forall ch s, is_linebreak ch = false -> nl_free s -> nl_free (ch :: s).
Proof. intros ch s H1 H2. unfold nl_free in *. simpl. rewrite H1, H2. reflexivity. Qed.
Lemma nl_free_app : forall a b, nl_free a -> nl_free b -> nl_free (a ++ b).
Proof. intros a b H1 H2. unfold nl_free in *. rewrite forallb_app, H1, H2. reflexivity. Qed.

(* values appear verbatim between the quotes: the output grows by exactly  name="value"  *)
Theorem attr_out_text : forall (c : oconfig) (a : aattr) (st : fstate),
  form_nl_free (attr_out_spec c a) ->
  os_value (fs_out (push_attribute c a st)) = os_value (fs_out st) ++ form_text (attr_out_spec c a).
Proof.
  intros c a st H. rewrite attr_out_table. destruct (attr_out_spec c a) as [|n|n lq rq|n lq v rq]; cbn [write_form form_text form_nl_free] in *.
  - rewrite app_nil_r. reflexivity.
  - apply push_str_value. apply nl_free_cons; [reflexivity|exact H].
  - destruct H as [H1 [H2 H3]].
    rewrite push_str_value by (apply nl_free_cons; [reflexivity|apply nl_free_app; assumption]).
    rewrite push_str_value by (apply nl_free_cons; [reflexivity|assumption]).
    rewrite <- app_assoc. reflexivity.
  - destruct H as [H1 [H2 [H3 H4]]].
    rewrite push_str_value by assumption.
    rewrite push_tokens_value by assumption.
    rewrite push_str_value by (apply nl_free_cons; [reflexivity|assumption]).
    rewrite push_str_value by (apply nl_free_cons; [reflexivity|assumption]).
    rewrite <- ?app_assoc. simpl. rewrite <- ?app_assoc. reflexivity.
Qed.

(* ================================================================== readable consequences of the spec *)
(* class mentions with plain non-empty words: the merged value is the words joined by single spaces,
   in written order *)
Definition word_attr (w : str) : aattr := mkAAttr (Some s_class) (Some [VStr w]) VRaw false false false.

Lemma join_class_words : forall ws w0,
  w0 <> [] ->
  join_class (Some [VStr w0]) (map word_attr ws) = Some [VStr (join [c_space] (w0 :: ws))].
Proof.
  induction ws as [|w ws IH]; intros w0 H0; [reflexivity|].
  unfold join_class in *. cbn [map fold_left].
  assert (E : merge_value (Some [VStr w0]) (aa_value (word_attr w)) [c_space] = Some [VStr (w0 ++ [c_space] ++ w)]).
  { rewrite app_assoc. destruct w0; [contradiction|]. reflexivity. }
  rewrite E. rewrite IH.
  - f_equal. f_equal. f_equal. cbn [join]. destruct ws; rewrite <- ?app_assoc; reflexivity.
  - destruct w0; [contradiction|discriminate].
Qed.

(* every name occurs once in the merged list, at the position of its first mention *)
Fixpoint first_names (seen : list str) (l : list aattr) : list str :=
  match l with
  | [] => []
  | a :: r =>
      match named a with
      | Some n => if mem_str n seen then first_names seen r else n :: first_names (n :: seen) r
      | None => first_names seen r
      end
  end.

Lemma named_merge_group : forall rv n a g,
  named a = Some n -> Forall (fun b => named b = Some n) g -> named (merge_group rv n a g) = Some n.
Proof.
  intros rv n a g Ha Hg. unfold merge_group. destruct (str_eqb n s_class).
  - unfold named in *. simpl. exact Ha.
  - assert (L : named (last g a) = Some n).
    { clear -Ha Hg. revert a Ha. induction g as [|b g IH]; intros a Ha; [exact Ha|].
      inversion Hg; subst. rewrite last_cons_default. apply IH; assumption. }
    unfold named in *. simpl. exact L.
Qed.

Lemma mentions_named : forall n l, n <> [] -> Forall (fun b => named b = Some n) (mentions n l).
Proof.
  intros n l Hn. unfold mentions. apply Forall_forall. intros b Hb. apply filter_In in Hb.
  destruct Hb as [_ Hb]. apply opt_eqb_named; assumption.
Qed.

Theorem merge_spec_names : forall rv l seen,
  anames (merge_spec rv seen l) = first_names seen l.
Proof.
  intros rv. induction l as [|a r IH]; intro seen; [reflexivity|].
  cbn [merge_spec first_names]. destruct (named a) as [n|] eqn:E.
  - destruct (mem_str n seen); [apply IH|].
    unfold anames. cbn [flat_map]. fold (anames (merge_spec rv (n :: seen) r)).
    pose proof (named_some _ _ E) as [_ Hn].
    rewrite (named_merge_group rv n a (mentions n r) E (mentions_named n r Hn)).
    simpl. rewrite IH. reflexivity.
  - unfold anames. cbn [flat_map]. rewrite E. simpl. apply IH.
Qed.

Lemma first_names_fresh : forall l seen x, In x (first_names seen l) -> ~ In x seen.
Proof.
  induction l as [|a r IH]; intros seen x H; [contradiction|]. cbn [first_names] in H.
  destruct (named a) as [n|]; [|apply IH; exact H].
  destruct (mem_str n seen) eqn:M; [apply IH; exact H|].
  destruct H as [H|H].
  - subst. apply mem_str_not_In. exact M.
  - apply IH in H. intro Hx. apply H. right. exact Hx.
Qed.

Theorem merge_spec_nodup : forall rv l, NoDup (anames (merge_spec rv [] l)).
Proof.
  intros rv l. rewrite merge_spec_names. generalize (@nil str) as seen.
  induction l as [|a r IH]; intro seen; [constructor|]. cbn [first_names].
  destruct (named a) as [n|]; [|apply IH].
  destruct (mem_str n seen); [apply IH|].
  constructor; [|apply IH]. intro H. apply first_names_fresh in H. apply H. left. reflexivity.
Qed.

Theorem merge_first_position : forall (rev_attrs : bool) (attrs : list aattr),
  anames (merge_spec rev_attrs [] attrs) = first_names [] attrs /\ NoDup (anames (merge_spec rev_attrs [] attrs)).
Proof. intros. split; [apply merge_spec_names|apply merge_spec_nodup]. Qed.
