(* The text of the stylesheet stream IS the string model of the formatter:
     os_value (css_stream (fmt_of cfg) abbr) = CssFormat.stringify cfg abbr
   for every configuration and every property list; hence expand_css_stream and
   CssFormat.expand_css agree, and the C05 / C06 / C07 theorems about expand_css speak about the
   text of the stream whose callback positions C13 proves exact. *)
From Coq Require Import ZArith List Bool Lia ZifyBool String.
From Emmet Require Import lib.Base lib.StyleLib model.CssTokenizer model.CssParser model.Score model.Color
     model.CssSnippets model.CssResolve model.CssFormat model.MarkupConvert model.OutStream
     model.CssFormatStream model.CssExpandStream proofs.OutStreamProofs proofs.FormatProofs proofs.CssFormatStream.
Import ListNotations.

(* ---------------------------------------------------------------- value of the stream operations *)
Lemma value_cons e evs lv off ln col :
  os_value (mkOs (e :: evs) lv off ln col) = concat (map ev_text (rev evs)) ++ ev_text e.
Proof. unfold os_value. cbn [os_events rev]. rewrite map_app, concat_app. cbn. rewrite app_nil_r. reflexivity. Qed.

Lemma value_push_gen b o s : os_value (os_push_gen b o s) = os_value o ++ s.
Proof. unfold os_push_gen. rewrite value_cons. reflexivity. Qed.
Lemma value_push_field o i ph : os_value (os_push_field o i ph) = os_value o ++ ph.
Proof. unfold os_push_field. rewrite value_cons. reflexivity. Qed.

Lemma value_push_newline0 f o :
  os_level o = 0%Z -> os_value (os_push_newline f o (Some None)) = os_value o ++ of_newline f ++ of_base_indent f.
Proof.
  intros L. unfold os_push_newline, os_push_indent, os_push.
  set (o2 := mkOs _ _ _ _ _).
  assert (L2 : os_level o2 = 0%Z) by exact L.
  assert (V2 : os_value o2 = os_value o ++ of_newline f ++ of_base_indent f).
  { unfold o2, os_value. cbn [os_events]. fold (os_value (os_push_gen true o (of_newline f ++ of_base_indent f))).
    apply value_push_gen. }
  rewrite value_push_gen, L2, V2. cbn. apply app_nil_r.
Qed.

(* the two copies of the line splitter are the same function *)
Lemma css_split_crlf_eq s : css_split_crlf s = split_crlf s.
Proof. reflexivity. Qed.

(* a stream step that appends the text [s] (at indentation level 0, which the stylesheet formatter never leaves) *)
Definition Emit (g : ostream -> ostream) (s : str) : Prop :=
  forall o, os_level o = 0%Z -> os_level (g o) = 0%Z /\ os_value (g o) = os_value o ++ s.

Lemma Emit_id : Emit (fun o => o) [].
Proof. intros o L. split; [exact L|symmetry; apply app_nil_r]. Qed.
Lemma Emit_seq g h s t : Emit g s -> Emit h t -> Emit (fun o => h (g o)) (s ++ t).
Proof.
  intros Hg Hh o L. destruct (Hg o L) as [L1 V1]. destruct (Hh (g o) L1) as [L2 V2].
  split; [exact L2|]. rewrite V2, V1, app_assoc. reflexivity.
Qed.
Lemma Emit_ext g g' s s' : (forall o, g o = g' o) -> s = s' -> Emit g s -> Emit g' s'.
Proof. intros E -> H o L. rewrite <- E. apply H, L. Qed.
Lemma Emit_push s : Emit (fun o => os_push o s) s.
Proof. intros o L. split; [exact L|apply value_push_gen]. Qed.
Lemma Emit_field c i ph : Emit (fun o => cs_push_field c o i ph) (cf_field c i ph).
Proof. intros o L. split; [exact L|apply value_push_field]. Qed.
Lemma Emit_newline cfg : Emit (fun o => os_push_newline (cf_fmt (fmt_of cfg)) o (Some None)) (nl_text cfg).
Proof.
  intros o L. split; [rewrite lvl_push_newline; exact L|].
  rewrite value_push_newline0 by exact L. reflexivity.
Qed.

Lemma Emit_push_string cfg s : Emit (fun o => cs_push_string (fmt_of cfg) o s) (push_string cfg s).
Proof.
  intros o L. unfold cs_push_string, push_string. rewrite css_split_crlf_eq. unfold os_push_string.
  destruct (split_crlf s) as [|l0 ls]; [split; [exact L|symmetry; apply app_nil_r]|].
  set (f := cf_fmt (fmt_of cfg)).
  assert (G : forall ls o' l', os_level o' = 0%Z ->
            let r := fold_left (fun o'' l => os_push (os_push_newline f o'' (Some None)) l) ls (os_push o' l') in
            os_level r = 0%Z /\ os_value r = os_value o' ++ join (nl_text cfg) (l' :: ls)).
  { induction ls0 as [|l ls0 IH]; intros o' l' L'; cbv zeta; cbn [fold_left].
    - split; [exact L'|]. unfold os_push. rewrite value_push_gen. reflexivity.
    - set (o1 := os_push o' l').
      assert (L1 : os_level o1 = 0%Z) by exact L'.
      assert (Ln : os_level (os_push_newline f o1 (Some None)) = 0%Z) by (rewrite lvl_push_newline; exact L1).
      destruct (IH (os_push_newline f o1 (Some None)) l Ln) as [La Va]. cbv zeta in La, Va.
      split; [exact La|]. rewrite Va. unfold f at 1. rewrite value_push_newline0 by exact L1.
      unfold o1, os_push. rewrite value_push_gen.
      change (of_newline (cf_fmt (fmt_of cfg)) ++ of_base_indent (cf_fmt (fmt_of cfg))) with (nl_text cfg).
      cbn [join]. destruct ls0; rewrite <- !app_assoc; reflexivity. }
  apply (G ls o l0 L).
Qed.

(* ---------------------------------------------------------------- the FunctionCall branch of the string model *)
Fixpoint output_args (cfg : sconfig) (l : list (list cval)) (first : bool) : str :=
  match l with
  | [] => []
  | a :: r => (if first then [] else lit ", ") ++ output_value cfg a ++ output_args cfg r false
  end.

Definition sloc_out_value (cfg : sconfig) :=
  fix out_value (vs : list cval) (first : bool) (prev_end : option (option nat)) : str :=
    match vs with
    | [] => []
    | t :: r =>
        let sep :=
          if first then []
          else match t with
               | VTok (CField _ _) st _ => if CssFormat.same_pos st prev_end then [] else [c_space]
               | _ => [c_space]
               end in
        sep ++ output_token cfg t ++
        out_value r false (match t with VTok _ _ en => Some en | VFunc _ _ => None end)
    end.
Definition sloc_out_args (cfg : sconfig) :=
  fix out_args (l : list (list cval)) (first : bool) : str :=
    match l with
    | [] => []
    | a :: r => (if first then [] else lit ", ") ++ sloc_out_value cfg a true None ++ out_args r false
    end.

Lemma sloc_out_value_eq cfg vs first pe : sloc_out_value cfg vs first pe = output_value_from cfg vs first pe.
Proof.
  revert first pe. induction vs as [|t ts IH]; intros first pe; cbn [sloc_out_value output_value_from]; [reflexivity|].
  rewrite IH. reflexivity.
Qed.
Lemma sloc_out_args_eq cfg l first : sloc_out_args cfg l first = output_args cfg l first.
Proof.
  revert first. induction l as [|a r IH]; intros first; cbn [sloc_out_args output_args]; [reflexivity|].
  rewrite sloc_out_value_eq, IH. reflexivity.
Qed.
Lemma output_token_func cfg name args :
  output_token cfg (VFunc name args) = name ++ [c_lparen] ++ output_args cfg args true ++ [c_rparen].
Proof. rewrite <- sloc_out_args_eq. reflexivity. Qed.

(* ---------------------------------------------------------------- the formatter, function by function *)
Lemma sep_eq (first : bool) (t : cval) (pe : option (option nat)) :
  (if first then @nil char else match t with
                         | VTok (CField _ _) st _ => if CssFormat.same_pos st pe then [] else [c_space]
                         | _ => [c_space]
                         end)
  = if negb first && needs_space t pe then [c_space] else @nil char.
Proof.
  destruct first; [reflexivity|]. cbn [negb andb]. unfold needs_space.
  destruct t as [[]|]; try reflexivity.
  change (CssFormat.same_pos st pe) with (same_pos st pe). destruct (same_pos st pe); reflexivity.
Qed.

Lemma Emit_space_if (b : bool) : Emit (fun o => if b then os_push o [c_space] else o) (if b then [c_space] else []).
Proof. destruct b; [apply Emit_push|apply Emit_id]. Qed.
Lemma Emit_comma_if (b : bool) : Emit (fun o => if b then o else os_push o (lit ", ")) (if b then [] else lit ", ").
Proof. destruct b; [apply Emit_id|apply Emit_push]. Qed.

Definition tok_same (cfg : sconfig) (t : cval) : Prop := Emit (s_output_token (fmt_of cfg) t) (output_token cfg t).

Lemma Emit_value_from_gen cfg vs :
  Forall (tok_same cfg) vs ->
  forall first pe, Emit (s_output_value_from (fmt_of cfg) vs first pe) (output_value_from cfg vs first pe).
Proof.
  induction 1 as [|t ts Ht _ IH]; intros first pe; cbn [s_output_value_from output_value_from]; [apply Emit_id|].
  rewrite sep_eq.
  eapply Emit_ext; [| |apply (Emit_seq _ _ _ _ (Emit_seq _ _ _ _ (Emit_space_if (negb first && needs_space t pe)) Ht)
                                 (IH false (end_of t)))].
  - intros o. reflexivity.
  - rewrite <- app_assoc. destruct t; reflexivity.
Qed.

Lemma Emit_args_gen cfg args :
  Forall (Forall (tok_same cfg)) args ->
  forall first, Emit (s_output_args (fmt_of cfg) args first) (output_args cfg args first).
Proof.
  induction 1 as [|a r Ha _ IH]; intros first; cbn [s_output_args output_args]; [apply Emit_id|].
  eapply Emit_ext; [| |apply (Emit_seq _ _ _ _ (Emit_seq _ _ _ _ (Emit_comma_if first)
                                   (Emit_value_from_gen cfg a Ha true None)) (IH false))].
  - intros o. reflexivity.
  - rewrite <- app_assoc. reflexivity.
Qed.

Lemma Emit_token cfg t : tok_same cfg t.
Proof.
  induction t as [k st en|name args IH] using cval_ind2; unfold tok_same.
  - destruct k; cbn [s_output_token output_token]; try apply Emit_id; try apply Emit_push_string.
    + apply Emit_push.
    + destruct (c_field cfg) eqn:E.
      * eapply Emit_ext; [| |apply (Emit_field (fmt_of cfg) index name)]; [reflexivity|].
        unfold fmt_of, CssFormat.push_field. cbn [cf_field]. rewrite E. reflexivity.
      * eapply Emit_ext; [| |apply (Emit_field (fmt_of cfg) index name)]; [reflexivity|].
        unfold fmt_of, CssFormat.push_field. cbn [cf_field]. rewrite E. reflexivity.
  - eapply Emit_ext; [| |apply (Emit_seq _ _ _ _ (Emit_seq _ _ _ _ (Emit_push (name ++ [c_lparen]))
                                   (Emit_args_gen cfg args IH true)) (Emit_push [c_rparen]))].
    + intros o. rewrite s_output_token_func. reflexivity.
    + rewrite output_token_func, <- !app_assoc. reflexivity.
Qed.

Lemma Emit_output_value cfg v : Emit (s_output_value (fmt_of cfg) v) (output_value cfg v).
Proof. apply Emit_value_from_gen, Forall_all, Emit_token. Qed.

Lemma Emit_join_values cfg l : forall first, Emit (s_join_values (fmt_of cfg) l first) (join_values cfg l first).
Proof.
  induction l as [|v r IH]; intros first; cbn [s_join_values join_values]; [apply Emit_id|].
  eapply Emit_ext; [| |apply (Emit_seq _ _ _ _ (Emit_seq _ _ _ _ (Emit_comma_if first) (Emit_output_value cfg v)) (IH false))].
  - intros o. reflexivity.
  - rewrite <- app_assoc. reflexivity.
Qed.

Lemma Emit_css_property_value cfg node :
  Emit (s_css_property_value (fmt_of cfg) node) (css_property_value cfg node).
Proof.
  unfold s_css_property_value, css_property_value.
  change (cf_json (fmt_of cfg)) with (c_json cfg).
  change (CssFormatStream.get_single_numeric node) with (CssFormat.get_single_numeric node).
  change (CssFormatStream.get_quote (fmt_of cfg)) with (CssFormat.get_quote cfg).
  assert (Q : forall q, (q = if c_json cfg then CssFormat.get_quote cfg else []) ->
              Emit (fun o => let o1 := if c_json cfg then os_push o (CssFormat.get_quote cfg) else o in
                             let o2 := s_join_values (fmt_of cfg) (pvalue node) true o1 in
                             if c_json cfg then os_push o2 (CssFormat.get_quote cfg) else o2)
                   (q ++ join_values cfg (pvalue node) true ++ q)).
  { intros q ->. cbv zeta. destruct (c_json cfg).
    - eapply Emit_ext; [| |apply (Emit_seq _ _ _ _ (Emit_seq _ _ _ _ (Emit_push (CssFormat.get_quote cfg))
                                     (Emit_join_values cfg (pvalue node) true)) (Emit_push (CssFormat.get_quote cfg)))].
      + intros o. reflexivity.
      + rewrite <- app_assoc. reflexivity.
    - eapply Emit_ext; [| |apply (Emit_join_values cfg (pvalue node) true)]; [reflexivity|].
      cbn [app]. symmetry. apply app_nil_r. }
  cbv zeta in Q |- *.
  destruct (if c_json cfg then CssFormat.get_single_numeric node else None) as [[value u]|] eqn:E.
  - destruct (match u with [] => true | _ => str_eqb u (lit "px") end).
    + apply Emit_push.
    + destruct (c_json cfg); [|discriminate]. apply (Q _ eq_refl).
  - apply (Q _ eq_refl).
Qed.

Lemma Emit_output_important node sep : Emit (s_output_important node sep) (output_important node sep).
Proof.
  unfold s_output_important, output_important. destruct (pimportant node); [|apply Emit_id].
  destruct sep.
  - eapply Emit_ext; [| |apply (Emit_seq _ _ _ _ (Emit_push [c_space]) (Emit_push (lit "!important")))]; reflexivity.
  - apply Emit_push.
Qed.

Lemma Emit_fold_tokens cfg vs :
  Emit (fun o => fold_left (fun o v => s_output_token (fmt_of cfg) v o) vs o) (concat (map (output_token cfg) vs)).
Proof.
  induction vs as [|t ts IH]; cbn [fold_left map concat]; [apply Emit_id|].
  eapply Emit_ext; [| |apply (Emit_seq _ _ _ _ (Emit_token cfg t) IH)]; reflexivity.
Qed.

Lemma Emit_css_property cfg node : Emit (s_css_property (fmt_of cfg) node) (css_property cfg node).
Proof.
  unfold s_css_property, css_property. destruct (pname node) as [name0|].
  - change (cf_json (fmt_of cfg)) with (c_json cfg). change (cf_between (fmt_of cfg)) with (c_between cfg).
    change (cf_after (fmt_of cfg)) with (c_after cfg).
    change (CssFormatStream.to_camel_case name0) with (CssFormat.to_camel_case name0).
    set (name := if c_json cfg then CssFormat.to_camel_case name0 else name0).
    assert (Hv : Emit (fun o => match pvalue node with
                                | [] => cs_push_field (fmt_of cfg) o (Some 0%N) []
                                | _ => s_css_property_value (fmt_of cfg) node o
                                end)
                      (match pvalue node with [] => CssFormat.push_field cfg (Some 0%N) [] | _ => css_property_value cfg node end)).
    { destruct (pvalue node) eqn:E.
      - eapply Emit_ext; [| |apply (Emit_field (fmt_of cfg) (Some 0%N) [])]; [reflexivity|].
        unfold fmt_of, CssFormat.push_field. cbn [cf_field]. destruct (c_field cfg); reflexivity.
      - apply Emit_css_property_value. }
    destruct (c_json cfg).
    + eapply Emit_ext; [| |apply (Emit_seq _ _ _ _ (Emit_seq _ _ _ _ (Emit_push_string cfg (name ++ c_between cfg)) Hv)
                                     (Emit_push [c_comma]))].
      * intros o. reflexivity.
      * rewrite <- app_assoc. reflexivity.
    + eapply Emit_ext; [| |apply (Emit_seq _ _ _ _ (Emit_seq _ _ _ _ (Emit_seq _ _ _ _ (Emit_push_string cfg (name ++ c_between cfg)) Hv)
                                     (Emit_output_important node true)) (Emit_push (c_after cfg)))].
      * intros o. reflexivity.
      * rewrite <- !app_assoc. reflexivity.
  - assert (G : forall vs, Emit (fun o => fold_left (fun o css_val => fold_left (fun o v => s_output_token (fmt_of cfg) v o) css_val o) vs o)
                                (concat (map (fun css_val => concat (map (output_token cfg) css_val)) vs))).
    { induction vs as [|v r IH]; cbn [fold_left map concat]; [apply Emit_id|].
      eapply Emit_ext; [| |apply (Emit_seq _ _ _ _ (Emit_fold_tokens cfg v) IH)]; reflexivity. }
    eapply Emit_ext; [| |apply (Emit_seq _ _ _ _ (G (pvalue node)) (Emit_output_important node (match pvalue node with [] => false | _ => true end)))]; reflexivity.
Qed.

Lemma Emit_stringify_from cfg l : forall first,
  Emit (s_stringify_from (fmt_of cfg) l first) (stringify_from cfg l first).
Proof.
  induction l as [|p r IH]; intros first; cbn [s_stringify_from stringify_from]; [apply Emit_id|].
  change (cf_format (fmt_of cfg)) with (c_format cfg).
  assert (Hn : Emit (fun o => if c_format cfg && negb first then os_push_newline (cf_fmt (fmt_of cfg)) o (Some None) else o)
                    (if c_format cfg && negb first then nl_text cfg else [])).
  { destruct (c_format cfg && negb first); [apply Emit_newline|apply Emit_id]. }
  eapply Emit_ext; [| |apply (Emit_seq _ _ _ _ (Emit_seq _ _ _ _ Hn (Emit_css_property cfg p)) (IH false))].
  - intros o. reflexivity.
  - rewrite <- app_assoc. reflexivity.
Qed.

(* the text of the stream is the string model *)
Theorem css_stream_value cfg abbr : os_value (css_stream (fmt_of cfg) abbr) = CssFormat.stringify cfg abbr.
Proof.
  unfold css_stream, CssFormat.stringify, kept. change (cf_skip_unmatched (fmt_of cfg)) with (c_skip_unmatched cfg).
  destruct (Emit_stringify_from cfg (if c_skip_unmatched cfg then filter (fun n => psnippet n || pimportant n) abbr else abbr)
                                true os_empty eq_refl) as [_ V].
  rewrite V. reflexivity.
Qed.

(* emmet.expand for a stylesheet: the stream pipeline and the string pipeline succeed and fail together,
   and the string is the text of the stream *)
Theorem expand_css_stream_value cfg abbr :
  expand_css cfg abbr = match expand_css_stream cfg abbr with
                        | Ok o => Ok (os_value o)
                        | ParseErr k p => ParseErr k p
                        | Internal k => Internal k
                        | OutOfFuel => OutOfFuel
                        end.
Proof.
  unfold expand_css, expand_css_stream, expand_with, expand_stream_with.
  destruct (convert_snippets (c_snippets cfg)) as [sn| | |]; cbn [bind]; try reflexivity.
  destruct (parse_with cfg sn abbr) as [nodes| | |]; cbn [bind]; try reflexivity.
  rewrite css_stream_value. reflexivity.
Qed.
