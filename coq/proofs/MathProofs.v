From Emmet Require Import lib.Base model.Math.
Lemma placeholder_true : True. Proof. exact I. Qed.
