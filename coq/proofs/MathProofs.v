(* C19: the math-expression model refines the arithmetic spec (MathSpec.v).

   Part 1  trees, their token code at nesting depth d, postfix code; the operator-ordering
           lemma (order_tokens on the code of a tree yields its postfix code)
   Part 2  the stack evaluator on postfix code computes the tree's value (generic numbers)
   Part 3  regrouping a documented tree into the tree the priorities denote keeps tokens and value
   Part 4  the parser state machine over tokens
   Part 5  characters to tokens
   Part 6  composition: evaluate_correct
   Part 7  converse: what the parser accepts is well-formed; errors are only the documented ones *)
From Coq Require Import ZArith List Bool Lia ZifyBool QArith Qcanon Qround.
From Emmet Require Import lib.Base model.Math proofs.MathSpec.
Local Open Scope nat_scope.

(* ================================================================== Part 1 *)
(* priority offsets of op2(): + - 0, * 1, / \ 2; of op1('-'): 2 *)
Definition baseN (o : op2) : nat := match o with Add | Sub => 0 | Mul => 1 | Div | IDiv => 2 end.
Definition prioZ (d : nat) (k : nat) : Z := (10 * Z.of_nat d + Z.of_nat k)%Z.
Definition rop2 (o : op2) (d : nat) : rtok := ROp2 (op_char o) (prioZ d (baseN o)).
Definition rneg (d : nat) : rtok := ROp1 c_dash (prioZ d 2).

Lemma mk_op2_rop2 o d : mk_op2 (op_char o) (10 * Z.of_nat d)%Z = rop2 o d.
Proof. destruct o; unfold mk_op2, rop2, prioZ; cbn; f_equal; lia. Qed.
Lemma mk_op1_rneg d : mk_op1 c_dash (10 * Z.of_nat d)%Z = rneg d.
Proof. reflexivity. Qed.

(* the tokens parse() collects for a tree standing at nesting depth d *)
Fixpoint flat (d : nat) (e : expr) : list rtok :=
  match e with
  | Num v => [RNum v]
  | Pos e => flat d e
  | Neg e => rneg d :: flat d e
  | Bin o l r => flat d l ++ rop2 o d :: flat d r
  | Paren e => flat (S d) e
  end.

Fixpoint postfix (d : nat) (e : expr) : list rtok :=
  match e with
  | Num v => [RNum v]
  | Pos e => postfix d e
  | Neg e => postfix d e ++ [rneg d]
  | Bin o l r => postfix d l ++ postfix d r ++ [rop2 o d]
  | Paren e => postfix (S d) e
  end.

(* the grammar the priorities denote: level 0 additive, 1 '*', 2 '/' and '\', 3 prefix/primary *)
Fixpoint wfL (L : nat) (e : expr) : Prop :=
  match e with
  | Num _ => True
  | Pos e => wfL 3 e
  | Neg e => wfL 3 e
  | Paren e => wfL 0 e
  | Bin o l r => L <= baseN o /\ wfL (baseN o) l /\ wfL (S (baseN o)) r
  end.

Lemma wfL_weaken e : forall L L', L' <= L -> wfL L e -> wfL L' e.
Proof. destruct e; cbn; intros; try assumption. destruct H0 as (A & B & C). repeat split; try assumption; lia. Qed.

(* P = what has reached the output when the tree has been read, K = operators still stacked *)
Fixpoint PK (d : nat) (e : expr) : list rtok * list rtok :=
  match e with
  | Num v => ([RNum v], [])
  | Pos e => PK d e
  | Neg e => let (p, k) := PK d e in (p, k ++ [rneg d])
  | Bin o l r =>
      let (pl, kl) := PK d l in let (pr, kr) := PK d r in
      (pl ++ kl ++ pr, kr ++ [rop2 o d])
  | Paren e => PK (S d) e
  end.

Lemma PK_postfix e : forall d, fst (PK d e) ++ snd (PK d e) = postfix d e.
Proof.
  induction e as [v|e IH|e IH|o l IHl r IHr|e IH]; intros d; cbn [PK postfix].
  - reflexivity.
  - apply IH.
  - specialize (IH d). destruct (PK d e) as [p k]. cbn in *. rewrite app_assoc, IH. reflexivity.
  - specialize (IHl d). specialize (IHr d). destruct (PK d l) as [pl kl], (PK d r) as [pr kr]. cbn in *.
    rewrite <- IHl, <- IHr. repeat rewrite <- app_assoc. reflexivity.
  - apply IH.
Qed.

Definition weight (t : rtok) : nat := if is_rnum t then 0 else if is_rop1 t then 1 else 2.
Fixpoint weights (ts : list rtok) : nat :=
  match ts with [] => 0 | t :: r => weight t + weights r end.
Lemma weights_app a b : weights (a ++ b) = weights a + weights b.
Proof. induction a as [|x a IH]; cbn [app weights]; [reflexivity|]. rewrite IH. lia. Qed.

Lemma order_loop_app a : forall b out stk n,
  order_loop (a ++ b) out stk n =
  let '(out', stk', n') := order_loop a out stk n in order_loop b out' stk' n'.
Proof.
  induction a as [|t a IH]; intros b out stk n; cbn [app order_loop]; [reflexivity|].
  destruct (is_rnum t); [apply IH|].
  destruct (if is_rop1 t then (out, stk) else pop_while (prio_of t) out stk) as [o' s'].
  apply IH.
Qed.

Lemma pop_while_split p A : forall out B,
  Forall (fun t => (p <= prio_of t)%Z) A -> Forall (fun t => (prio_of t < p)%Z) B ->
  pop_while p out (A ++ B) = (out ++ A, B).
Proof.
  induction A as [|a A IH]; intros out B HA HB; cbn [app pop_while].
  - rewrite app_nil_r. destruct B as [|b B]; [reflexivity|].
    cbn [pop_while]. inversion HB; subst. destruct (Z.leb_spec p (prio_of b)); [lia|reflexivity].
  - inversion HA; subst. destruct (Z.leb_spec p (prio_of a)); [|lia].
    rewrite IH by assumption. rewrite <- app_assoc. reflexivity.
Qed.

Lemma baseN_le2 o : baseN o <= 2. Proof. destruct o; cbn; lia. Qed.

(* the operator-ordering lemma *)
Lemma order_main e : forall d L out stk n,
  L <= 3 -> wfL L e -> Forall (fun t => (prio_of t < prioZ d L)%Z) stk ->
  order_loop (flat d e) out stk n = (out ++ fst (PK d e), snd (PK d e) ++ stk, n + weights (flat d e))
  /\ Forall (fun t => (prioZ d (Nat.min L 2) <= prio_of t)%Z) (snd (PK d e)).
Proof.
  induction e as [v|e IH|e IH|o l IHl r IHr|e IH]; intros d L out stk n HL3 Hwf Hstk; cbn [flat PK wfL] in *.
  - cbn [order_loop is_rnum weights weight fst snd app]. split; [f_equal; lia|constructor].
  - (* Pos *)
    destruct (IH d 3 out stk n (le_n 3) Hwf) as [Hr Hk].
    { eapply Forall_impl; [|exact Hstk]. unfold prioZ. intros a Ha; cbn beta in *; lia. }
    split; [exact Hr|]. eapply Forall_impl; [|exact Hk]. unfold prioZ. intros a Ha; cbn beta in *; lia.
  - (* Neg *)
    cbn [order_loop is_rnum is_rop1 rneg].
    destruct (IH d 3 out (rneg d :: stk) (n + 1) (le_n 3) Hwf) as [Hr Hk].
    { constructor; [cbn [prio_of rneg]; unfold prioZ; lia|].
      eapply Forall_impl; [|exact Hstk]. unfold prioZ. intros a Ha; cbn beta in *; lia. }
    unfold rneg in *. rewrite Hr. destruct (PK d e) as [p k]. cbn [fst snd] in *. split.
    + rewrite <- app_assoc. cbn [weights weight is_rnum is_rop1]. f_equal. lia.
    + apply Forall_app; split.
      * eapply Forall_impl; [|exact Hk]. unfold prioZ. intros a Ha; cbn beta in *; lia.
      * constructor; [cbn [prio_of]; unfold prioZ; lia|constructor].
  - (* Bin *)
    destruct Hwf as (HL & Hl & Hr).
    pose proof (baseN_le2 o) as Hb.
    rewrite order_loop_app.
    destruct (IHl d (baseN o) out stk n ltac:(lia) Hl) as [Rl Kl].
    { eapply Forall_impl; [|exact Hstk]. unfold prioZ. intros a Ha; cbn beta in *; lia. }
    rewrite Rl. cbn [order_loop is_rnum is_rop1 rop2 prio_of].
    destruct (PK d l) as [pl kl]. cbn [fst snd] in *.
    rewrite pop_while_split.
    2:{ eapply Forall_impl; [|exact Kl]. unfold prioZ. intros a Ha; cbn beta in *; lia. }
    2:{ eapply Forall_impl; [|exact Hstk]. unfold prioZ. intros a Ha; cbn beta in *; lia. }
    destruct (IHr d (S (baseN o)) ((out ++ pl) ++ kl) (rop2 o d :: stk) (n + weights (flat d l) + 2) ltac:(lia) Hr) as [Rr Kr].
    { constructor; [cbn [prio_of rop2]; unfold prioZ; lia|].
      eapply Forall_impl; [|exact Hstk]. unfold prioZ. intros a Ha; cbn beta in *; lia. }
    unfold rop2 in *. rewrite Rr. destruct (PK d r) as [pr kr]. cbn [fst snd] in *. split.
    + repeat rewrite <- app_assoc. rewrite weights_app. cbn [weights weight is_rnum is_rop1].
      f_equal. lia.
    + apply Forall_app; split.
      * eapply Forall_impl; [|exact Kr]. unfold prioZ. intros a Ha; cbn beta in *; lia.
      * constructor; [cbn [prio_of]; unfold prioZ; lia|constructor].
  - (* Paren *)
    destruct (IH (S d) 0 out stk n ltac:(lia) Hwf) as [R K].
    { eapply Forall_impl; [|exact Hstk]. unfold prioZ. intros a Ha; cbn beta in *; lia. }
    split; [exact R|]. eapply Forall_impl; [|exact K]. unfold prioZ. intros a Ha; cbn beta in *; lia.
Qed.

(* numbers, unary and binary operators of a token list *)
Definition count (p : rtok -> bool) (ts : list rtok) : nat := length (filter p ts).
Definition is_rop2 (t : rtok) : bool := match t with ROp2 _ _ => true | _ => false end.
Definition is_rnull (t : rtok) : bool := match t with RNull => true | _ => false end.

Lemma count_app p a b : count p (a ++ b) = count p a + count p b.
Proof. unfold count. rewrite filter_app, app_length. reflexivity. Qed.

Lemma flat_counts e : forall d,
  count is_rnum (flat d e) = S (count is_rop2 (flat d e)) /\ count is_rnull (flat d e) = 0.
Proof.
  induction e as [v|e IH|e IH|o l IHl r IHr|e IH]; intros d; cbn [flat].
  - split; reflexivity.
  - apply IH.
  - destruct (IH d) as [A B]. unfold count in *. cbn. split; assumption.
  - destruct (IHl d) as [A B], (IHr d) as [C D]. rewrite !count_app.
    unfold count in *. cbn [filter is_rnum is_rop2 is_rnull rop2 length]. split; lia.
  - apply IH.
Qed.

Lemma weights_eq ts :
  weights ts = count is_rop1 ts + 2 * count is_rop2 ts + 2 * count is_rnull ts.
Proof.
  induction ts as [|t ts IH]; [reflexivity|].
  unfold count in *. cbn [weights filter]. rewrite IH.
  destruct t; cbn; lia.
Qed.

Lemma length_counts ts :
  length ts = count is_rnum ts + count is_rop1 ts + count is_rop2 ts + count is_rnull ts.
Proof.
  induction ts as [|t ts IH]; [reflexivity|].
  unfold count in *. cbn [length filter]. rewrite IH. destruct t; cbn; lia.
Qed.

Lemma order_loop_length ts : forall out stk n out' stk' n',
  order_loop ts out stk n = (out', stk', n') ->
  length out' + length stk' = length out + length stk + length ts /\ n' = n + weights ts.
Proof.
  induction ts as [|t ts IH]; intros out stk n out' stk' n' H; cbn [order_loop] in H.
  - inversion H; subst. cbn. lia.
  - cbn [weights length]. unfold weight.
    destruct (is_rnum t).
    + apply IH in H. rewrite app_length in H. cbn in H. lia.
    + destruct (is_rop1 t).
      * apply IH in H. cbn in H. lia.
      * destruct (pop_while (prio_of t) out stk) as [o1 s1] eqn:Ep.
        apply IH in H. cbn [length] in H.
        assert (length o1 + length s1 = length out + length stk).
        { clear -Ep. revert out o1 s1 Ep. induction stk as [|x stk IHs]; intros out o1 s1 Ep; cbn [pop_while] in Ep.
          - inversion Ep; subst. reflexivity.
          - destruct (prio_of t <=? prio_of x)%Z.
            + apply IHs in Ep. rewrite app_length in Ep. cbn in *. lia.
            + inversion Ep; subst. reflexivity. }
        lia.
Qed.

(* order_tokens succeeds exactly when #numbers = #binary + #null + 1 *)
Lemma order_tokens_parity ts :
  order_tokens ts <> None <-> count is_rnum ts = count is_rop2 ts + count is_rnull ts + 1.
Proof.
  unfold order_tokens.
  destruct (order_loop ts [] [] 0) as [[out stk] n] eqn:E.
  apply order_loop_length in E. destruct E as [E1 E2]. cbn in E1, E2.
  pose proof (weights_eq ts). pose proof (length_counts ts).
  destruct (Nat.eqb_spec (n + 1) (length out + length stk)); split; intros; try congruence; try lia.
Qed.

Theorem order_is_postfix e : wfL 0 e -> order_tokens (flat 0 e) = Some (postfix 0 e).
Proof.
  intros H. unfold order_tokens.
  destruct (order_main e 0 0 [] [] 0 ltac:(lia) H) as [R _]; [constructor|].
  rewrite R. cbn [app]. rewrite app_nil_r.
  pose proof (PK_postfix e 0) as HP.
  assert (Hlen : length (fst (PK 0 e)) + length (snd (PK 0 e)) = length (flat 0 e)).
  { pose proof (order_loop_length _ _ _ _ _ _ _ R) as [L _]. rewrite app_nil_r in L. cbn in L. lia. }
  destruct (flat_counts e 0) as [C1 C2].
  pose proof (weights_eq (flat 0 e)). pose proof (length_counts (flat 0 e)).
  destruct (Nat.eqb_spec (0 + weights (flat 0 e) + 1) (length (fst (PK 0 e)) + length (snd (PK 0 e)))).
  - rewrite HP. reflexivity.
  - exfalso. lia.
Qed.

(* ================================================================== Part 2 *)
Section Rpn.
  Variable NS : NumStruct.

  Definition opG (o : op2) : num NS -> num NS -> option (num NS) :=
    match o with
    | Add => fun a b => Some (nadd NS a b)
    | Sub => fun a b => Some (nsub NS a b)
    | Mul => fun a b => Some (nmul NS a b)
    | Div => ndiv NS
    | IDiv => nidiv NS
    end.

  Fixpoint evalG (e : expr) : option (num NS) :=
    match e with
    | Num d => Some (of_dec NS d)
    | Pos e => evalG e
    | Paren e => evalG e
    | Neg e => match evalG e with Some a => Some (nneg NS a) | None => None end
    | Bin o l r =>
        match evalG l, evalG r with
        | Some a, Some b => opG o a b
        | _, _ => None
        end
    end.

  Lemma ops2_op_char o : ops2 NS (op_char o) = Some (opG o).
  Proof. destruct o; reflexivity. Qed.

  (* the stack machine on the postfix code of a tree computes the tree's value *)
  Theorem rpn_eval e : forall d rest stack,
    eval_loop NS (postfix d e ++ rest) stack =
    match evalG e with
    | Some v => eval_loop NS rest (v :: stack)
    | None => zero_div
    end.
  Proof.
    induction e as [v|e IH|e IH|o l IHl r IHr|e IH]; intros d rest stack; cbn [postfix evalG].
    - reflexivity.
    - apply IH.
    - rewrite <- app_assoc, IH. destruct (evalG e); reflexivity.
    - rewrite <- !app_assoc, IHl. destruct (evalG l) as [a|]; [|reflexivity].
      rewrite IHr. destruct (evalG r) as [b|]; [|reflexivity].
      cbn [app eval_loop rop2]. rewrite ops2_op_char. destruct (opG o a b); reflexivity.
    - apply IH.
  Qed.
End Rpn.

(* ================================================================== Part 3 *)
(* documented grammar as a predicate on trees: level 0 additive, 1 multiplicative, 2 prefix/primary *)
Definition lvl (o : op2) : nat := if is_add o then 0 else 1.

Fixpoint wfD (L : nat) (e : expr) : Prop :=
  match e with
  | Num _ => True
  | Pos e => wfD 2 e
  | Neg e => wfD 2 e
  | Paren e => wfD 0 e
  | Bin o l r => L <= lvl o /\ wfD (lvl o) l /\ wfD (S (lvl o)) r
  end.

Fixpoint toks (e : expr) : list tok :=
  match e with
  | Num d => [TNum d]
  | Pos e => TOp Add :: toks e
  | Neg e => TOp Sub :: toks e
  | Bin o l r => toks l ++ TOp o :: toks r
  | Paren e => TLP :: toks e ++ [TRP]
  end.

Lemma wfD_weaken e : forall L L', L' <= L -> wfD L e -> wfD L' e.
Proof. destruct e; cbn; intros; try assumption. destruct H0 as (A & B & C). repeat split; try assumption; lia. Qed.

Lemma Parses_wfD L ts e : Parses L ts e -> L <= 2 /\ wfD L e /\ toks e = ts.
Proof.
  induction 1 as [d|ts e H IH|ts e H IH|ts e H IH|o tl tr l r Ho Hl IHl Hr IHr|ts e H IH
                 |o tl tr l r Ho Hl IHl Hr IHr|ts e H IH]; cbn [wfD toks].
  - repeat split; lia.
  - destruct IH as (_ & A & B). subst. repeat split; [lia|exact A].
  - destruct IH as (_ & A & B). subst. repeat split; [lia|exact A].
  - destruct IH as (_ & A & B). subst. repeat split; [lia|exact A].
  - destruct IHl as (_ & A & B), IHr as (_ & C & D). subst.
    assert (lvl o = 1) as -> by (unfold lvl; destruct o; cbn in *; congruence).
    repeat split; try assumption; lia.
  - destruct IH as (_ & A & B). subst. repeat split; [lia|]. eapply wfD_weaken; [|exact A]. lia.
  - destruct IHl as (_ & A & B), IHr as (_ & C & D). subst.
    assert (lvl o = 0) as -> by (unfold lvl; destruct o; cbn in *; congruence).
    repeat split; try assumption; lia.
  - destruct IH as (_ & A & B). subst. repeat split; [lia|]. eapply wfD_weaken; [|exact A]. lia.
Qed.

Lemma Parses_down L ts e : Parses 2 ts e -> L <= 2 -> Parses L ts e.
Proof.
  intros H HL. destruct L as [|[|[|L]]]; try lia.
  - apply P_up0, P_up1, H.
  - apply P_up1, H.
  - exact H.
Qed.

Lemma wfD_Parses e : forall L, L <= 2 -> wfD L e -> Parses L (toks e) e.
Proof.
  induction e as [v|e IH|e IH|o l IHl r IHr|e IH]; intros L HL Hwf; cbn [wfD toks] in *.
  - apply Parses_down; [constructor|exact HL].
  - apply Parses_down; [|exact HL]. constructor. apply IH; [lia|exact Hwf].
  - apply Parses_down; [|exact HL]. constructor. apply IH; [lia|exact Hwf].
  - destruct Hwf as (A & B & C). unfold lvl in *. destruct (is_add o) eqn:Eo.
    + assert (L = 0) by lia. subst L. apply P_add; [exact Eo|apply IHl; [lia|exact B]|apply IHr; [lia|exact C]].
    + assert (Parses 1 (toks l ++ TOp o :: toks r) (Bin o l r)).
      { apply P_mul; [unfold is_mul; rewrite Eo; reflexivity|apply IHl; [lia|exact B]|apply IHr; [lia|exact C]]. }
      destruct L as [|[|L]]; [apply P_up0; assumption|assumption|lia].
  - apply Parses_down; [|exact HL]. constructor. apply IH; [lia|exact Hwf].
Qed.

(* the tree the priorities denote: a '/' or '\' directly after a product binds to the
   product's last factor only:  (x * y) / z  becomes  x * (y / z) *)
Fixpoint regroup (e : expr) : expr :=
  match e with
  | Num d => Num d
  | Pos e => Pos (regroup e)
  | Neg e => Neg (regroup e)
  | Paren e => Paren (regroup e)
  | Bin o l r =>
      match o with
      | Div | IDiv =>
          match regroup l with
          | Bin Mul x y => Bin Mul x (Bin o y (regroup r))
          | l' => Bin o l' (regroup r)
          end
      | _ => Bin o (regroup l) (regroup r)
      end
  end.

Lemma flat_regroup e : forall d, flat d (regroup e) = flat d e.
Proof.
  induction e as [v|e IH|e IH|o l IHl r IHr|e IH]; intros d; cbn [regroup flat].
  - reflexivity.
  - apply IH.
  - rewrite IH. reflexivity.
  - assert (G : flat d (Bin o (regroup l) (regroup r)) = flat d l ++ rop2 o d :: flat d r).
    { cbn [flat]. rewrite IHl, IHr. reflexivity. }
    destruct o; try exact G.
    + specialize (IHl d). destruct (regroup l) as [v|x|x|o' x y|x]; try exact G.
      destruct o'; try exact G.
      cbn [flat] in *. rewrite IHr, <- IHl, <- app_assoc. reflexivity.
    + specialize (IHl d). destruct (regroup l) as [v|x|x|o' x y|x]; try exact G.
      destruct o'; try exact G.
      cbn [flat] in *. rewrite IHr, <- IHl, <- app_assoc. reflexivity.
  - apply IH.
Qed.

Definition mlev (L : nat) : nat := match L with 0 => 0 | 1 => 1 | _ => 3 end.

Lemma wfL_not_mul l : wfL 1 l -> (forall x y, l <> Bin Mul x y) -> wfL 2 l.
Proof.
  destruct l as [v|x|x|o x y|x]; cbn; intros H N; try assumption.
  destruct H as (A & B & C). destruct o; cbn in *; try lia.
  - exfalso. eapply N. reflexivity.
  - repeat split; try assumption; lia.
  - repeat split; try assumption; lia.
Qed.

Lemma wf_regroup e : forall L, wfD L e -> wfL (mlev L) (regroup e).
Proof.
  induction e as [v|e IH|e IH|o l IHl r IHr|e IH]; intros L Hwf; cbn [regroup wfD wfL] in *.
  - exact I.
  - apply (IH 2 Hwf).
  - apply (IH 2 Hwf).
  - destruct Hwf as (A & B & C).
    assert (HmL : mlev L <= lvl o) by (destruct L as [|[|L]]; cbn; unfold lvl in *; destruct (is_add o); lia).
    destruct o; cbn [lvl is_add] in *.
    + cbn [wfL baseN]. repeat split; [lia|apply (IHl 0 B)|apply (IHr 1 C)].
    + cbn [wfL baseN]. repeat split; [lia|apply (IHl 0 B)|apply (IHr 1 C)].
    + cbn [wfL baseN]. repeat split; [lia|apply (IHl 1 B)|]. eapply wfL_weaken; [|apply (IHr 2 C)]. cbn; lia.
    + pose proof (IHl 1 B) as Hl. pose proof (IHr 2 C) as Hr. cbn [mlev] in Hl, Hr.
      assert (G : (forall x y, regroup l <> Bin Mul x y) -> wfL (mlev L) (Bin Div (regroup l) (regroup r))).
      { intros N. cbn [wfL baseN]. repeat split; [lia|apply wfL_not_mul; assumption|exact Hr]. }
      destruct (regroup l) as [v|x|x|o' x y|x]; try (apply G; congruence).
      destruct o'; try (apply G; congruence).
      cbn [wfL baseN] in *. destruct Hl as (H1 & H2 & H3). repeat split; try assumption; lia.
    + pose proof (IHl 1 B) as Hl. pose proof (IHr 2 C) as Hr. cbn [mlev] in Hl, Hr.
      assert (G : (forall x y, regroup l <> Bin Mul x y) -> wfL (mlev L) (Bin IDiv (regroup l) (regroup r))).
      { intros N. cbn [wfL baseN]. repeat split; [lia|apply wfL_not_mul; assumption|exact Hr]. }
      destruct (regroup l) as [v|x|x|o' x y|x]; try (apply G; congruence).
      destruct o'; try (apply G; congruence).
      cbn [wfL baseN] in *. destruct Hl as (H1 & H2 & H3). repeat split; try assumption; lia.
  - apply (IH 0 Hwf).
Qed.

(* value *)
Lemma Qc_is_zero_spec b : Qc_is_zero b = true <-> b = 0%Qc.
Proof.
  unfold Qc_is_zero. rewrite Qeq_bool_iff. split.
  - intros H. apply Qc_is_canon. exact H.
  - intros ->. reflexivity.
Qed.

Lemma apply_op_opG o a b : apply_op o a b = opG QcNum o a b.
Proof.
  destruct o; cbn; try reflexivity.
  - unfold Qc_div. destruct (Qc_eq_dec b 0) as [E|E].
    + apply Qc_is_zero_spec in E. rewrite E. reflexivity.
    + destruct (Qc_is_zero b) eqn:Z; [apply Qc_is_zero_spec in Z; contradiction|reflexivity].
  - unfold Qc_idiv. destruct (Qc_eq_dec b 0) as [E|E].
    + apply Qc_is_zero_spec in E. rewrite E. reflexivity.
    + destruct (Qc_is_zero b) eqn:Z; [apply Qc_is_zero_spec in Z; contradiction|reflexivity].
Qed.

Lemma eval_evalG e : eval e = evalG QcNum e.
Proof.
  induction e as [v|e IH|e IH|o l IHl r IHr|e IH]; cbn [eval evalG].
  - reflexivity.
  - exact IH.
  - rewrite IH. reflexivity.
  - rewrite IHl, IHr. destruct (evalG QcNum l), (evalG QcNum r); try reflexivity. apply apply_op_opG.
  - exact IH.
Qed.

(* a covered chain whose last operator is '\' does not start with a product after regrouping *)
Lemma regroup_idiv_chain l :
  covered l -> (forall o a b, l = Bin o a b -> is_mul o = true -> o = IDiv) ->
  forall x y, regroup l <> Bin Mul x y.
Proof.
  induction l as [v|e IH|e IH|o a IHa b IHb|e IH]; intros Hc Htop x y; cbn [regroup]; try congruence.
  destruct Hc as (Ca & Cb & Cc).
  destruct o; try congruence.
  - specialize (Htop Mul a b eq_refl eq_refl). discriminate.
  - specialize (Htop Div a b eq_refl eq_refl). discriminate.
  - assert (N : forall x y, regroup a <> Bin Mul x y).
    { apply IHa; [exact Ca|]. intros o' a' b' -> Hm. specialize (Cc eq_refl Hm).
      destruct o'; cbn in *; congruence. }
    destruct (regroup a) as [v|e|e|o' a' b'|e]; try congruence.
    destruct o'; try congruence; exfalso; eapply N; reflexivity.
Qed.

Lemma rotate_div (ox oy oz : option Qc) :
  match ox, (match oy, oz with Some b, Some c => apply_op Div b c | _, _ => None end) with
  | Some a, Some q => apply_op Mul a q
  | _, _ => None
  end =
  match (match ox, oy with Some a, Some b => apply_op Mul a b | _, _ => None end), oz with
  | Some p, Some c => apply_op Div p c
  | _, _ => None
  end.
Proof.
  destruct ox as [a|], oy as [b|], oz as [c|]; cbn; try reflexivity.
  destruct (Qc_eq_dec c 0); [reflexivity|]. f_equal. unfold Qcdiv. ring.
Qed.

Theorem regroup_value e : covered e -> eval (regroup e) = eval e.
Proof.
  induction e as [v|e IH|e IH|o l IHl r IHr|e IH]; intros Hc; cbn [regroup eval covered] in *.
  - reflexivity.
  - apply IH, Hc.
  - rewrite (IH Hc). reflexivity.
  - destruct Hc as (Cl & Cr & Cc). specialize (IHl Cl). specialize (IHr Cr).
    assert (G : eval (Bin o (regroup l) (regroup r)) = match eval l, eval r with Some a, Some b => apply_op o a b | _, _ => None end).
    { cbn [eval]. rewrite IHl, IHr. reflexivity. }
    destruct o; try exact G.
    + (* Div *)
      destruct (regroup l) as [v|x|x|o' x y|x] eqn:El; try exact G.
      destruct o'; try exact G.
      cbn [eval] in *. rewrite IHr, <- IHl. apply rotate_div.
    + (* IDiv: no rotation on covered chains *)
      assert (N : forall x y, regroup l <> Bin Mul x y).
      { apply regroup_idiv_chain; [exact Cl|]. intros o' a b -> Hm. specialize (Cc eq_refl Hm).
        destruct o'; cbn in *; congruence. }
      destruct (regroup l) as [v|x|x|o' x y|x] eqn:El; try exact G.
      destruct o'; try exact G. exfalso. eapply N. reflexivity.
  - apply IH, Hc.
Qed.

(* ================================================================== Part 4 *)
(* the branch bodies of parse() on spec tokens *)
Definition tstep (st : pstate) (t : tok) : res pstate :=
  match t with
  | TNum d =>
      if negb (has (expected st) PS_Primary) then math_err
      else Ok (mkP (priority st) EXP_after_operand (ptokens st ++ [RNum d]))
  | TOp o => pstep st (POp (op_char o))
  | TLP => pstep st PLParen
  | TRP => pstep st PRParen
  end.

Fixpoint trun (st : pstate) (ts : list tok) : res pstate :=
  match ts with
  | [] => Ok st
  | t :: ts' => let* st' := tstep st t in trun st' ts'
  end.

Lemma trun_app a : forall st b, trun st (a ++ b) = let* st' := trun st a in trun st' b.
Proof.
  induction a as [|t a IH]; intros st b; cbn [app trun bind]; [reflexivity|].
  destruct (tstep st t); cbn [bind]; try reflexivity. apply IH.
Qed.

Definition operand_state (ex : N) : Prop := ex = EXP_operand \/ ex = EXP_after_lparen.

Lemma trun_toks e : forall d ex acc,
  operand_state ex ->
  trun (mkP (10 * Z.of_nat d)%Z ex acc) (toks e) =
  Ok (mkP (10 * Z.of_nat d)%Z EXP_after_operand (acc ++ flat d e)).
Proof.
  induction e as [v|e IH|e IH|o l IHl r IHr|e IH]; intros d ex acc Hex; cbn [toks flat].
  - cbn [trun tstep expected priority ptokens bind]. destruct Hex as [-> | ->]; reflexivity.
  - cbn [trun tstep bind]. unfold pstep. cbn [expected priority ptokens op_char].
    replace (is_sign c_plus && has ex PS_Sign) with true by (destruct Hex as [-> | ->]; reflexivity).
    cbn [is_negative_sign]. replace (c_plus =? c_dash)%N with false by reflexivity.
    cbn [bind]. apply IH. left; reflexivity.
  - cbn [trun tstep bind]. unfold pstep. cbn [expected priority ptokens op_char].
    replace (is_sign c_dash && has ex PS_Sign) with true by (destruct Hex as [-> | ->]; reflexivity).
    replace (is_negative_sign c_dash) with true by reflexivity.
    cbn [bind]. rewrite mk_op1_rneg. rewrite IH by (left; reflexivity).
    rewrite <- app_assoc. reflexivity.
  - rewrite trun_app. rewrite IHl by exact Hex. cbn [bind trun tstep]. unfold pstep.
    cbn [expected priority ptokens].
    replace (is_sign (op_char o) && has EXP_after_operand PS_Sign) with false
      by (destruct o; reflexivity).
    replace (negb (has EXP_after_operand PS_Operator)) with false by reflexivity.
    cbn [bind]. rewrite mk_op2_rop2. rewrite IHr by (left; reflexivity).
    rewrite <- !app_assoc. reflexivity.
  - cbn [trun tstep bind]. unfold pstep at 1. cbn [expected priority ptokens].
    replace (negb (has ex PS_LParen)) with false by (destruct Hex as [-> | ->]; reflexivity).
    cbn [bind]. replace (10 * Z.of_nat d + 10)%Z with (10 * Z.of_nat (S d))%Z by lia.
    rewrite trun_app. rewrite IH by (right; reflexivity). cbn [bind trun tstep]. unfold pstep.
    cbn [expected priority ptokens].
    replace (10 * Z.of_nat (S d) - 10)%Z with (10 * Z.of_nat d)%Z by lia.
    destruct (Z.ltb_spec (10 * Z.of_nat d) 0); [lia|].
    replace (has EXP_after_operand PS_Nullary) with false by reflexivity.
    replace (negb (has EXP_after_operand PS_RParen)) with false by reflexivity.
    reflexivity.
Qed.

(* ================================================================== Part 5 *)
(* ---- character facts (over the generated isdecimal table) *)
Lemma existsb_find {A} (f : A -> bool) l : existsb f l = true -> exists z, find f l = Some z.
Proof.
  induction l as [|x l IH]; cbn; [discriminate|]. destruct (f x); [eexists; reflexivity|exact IH].
Qed.

Lemma is_number_digit c : is_number c = true -> digit_value c = Some (digit_of c).
Proof.
  unfold is_number, digit_of, digit_value. intros H. apply existsb_find in H. destruct H as [z Hz].
  rewrite Hz. reflexivity.
Qed.

Ltac char_case H c :=
  let E := fresh "E" in
  match type of H with
  | (c =? ?k)%N = true => apply N.eqb_eq in H; subst c
  end.

Lemma ws_cases c : is_white_space c = true -> c = c_space \/ c = c_tab \/ c = c_nbsp.
Proof.
  unfold is_white_space. intros H. apply orb_true_iff in H. destruct H as [H|H].
  - apply orb_true_iff in H. destruct H as [H|H]; apply N.eqb_eq in H; auto.
  - apply N.eqb_eq in H; auto.
Qed.

Lemma number_not_ws c : is_number c = true -> is_white_space c = false.
Proof.
  intros H. destruct (is_white_space c) eqn:E; [|reflexivity].
  apply ws_cases in E. destruct E as [-> | [-> | ->]]; vm_compute in H; discriminate.
Qed.

Lemma number_not_dot c : is_number c = true -> (c =? c_dot)%N = false.
Proof.
  intros H. destruct (c =? c_dot)%N eqn:E; [|reflexivity]. apply N.eqb_eq in E. subst c.
  vm_compute in H. discriminate.
Qed.

Lemma operator_cases c : is_operator c = true ->
  c = c_plus \/ c = c_dash \/ c = c_star \/ c = c_slash \/ c = c_bslash.
Proof.
  unfold is_operator. intros H.
  repeat (apply orb_true_iff in H; destruct H as [H|H]); apply N.eqb_eq in H; auto 6.
Qed.

Lemma number_not_operator c : is_number c = true -> is_operator c = false.
Proof.
  intros H. destruct (is_operator c) eqn:E; [|reflexivity].
  apply operator_cases in E. destruct E as [-> | [-> | [-> | [-> | ->]]]]; vm_compute in H; discriminate.
Qed.

(* ---- spans *)
Lemma spanw_le1 p s : spanw p s <= length s.
Proof. induction s as [|c s IH]; cbn; [lia|]. destruct (p c); cbn; lia. Qed.

Lemma spanw_app_all p l : forall s,
  Forall (fun c => p c = true) l -> spanw p (l ++ s) = length l + spanw p s.
Proof.
  induction l as [|c l IH]; intros s H; cbn [app spanw length]; [reflexivity|].
  inversion H; subst. rewrite H2. rewrite IH by assumption. reflexivity.
Qed.

Definition head_not (p : char -> bool) (s : str) : Prop :=
  match s with c :: _ => p c = false | [] => True end.

Lemma spanw_head_not p s : head_not p s -> spanw p s = 0.
Proof. destruct s as [|c s]; cbn; [reflexivity|]. intros ->. reflexivity. Qed.

Lemma spanw_exact p l s : Forall (fun c => p c = true) l -> head_not p s -> spanw p (l ++ s) = length l.
Proof. intros H1 H2. rewrite spanw_app_all by assumption. rewrite spanw_head_not by assumption. lia. Qed.

Lemma spanw_spec p s : Forall (fun c => p c = true) (firstn (spanw p s) s) /\ head_not p (skipn (spanw p s) s).
Proof.
  induction s as [|c s IH]; cbn [spanw]; [split; [constructor|exact I]|].
  destruct (p c) eqn:E; cbn [firstn skipn head_not].
  - destruct IH as [A B]. split; [constructor; assumption|exact B].
  - split; [constructor|exact E].
Qed.

Lemma skipn_app_exact {A} (l s : list A) : skipn (length l) (l ++ s) = s.
Proof. induction l; cbn; auto. Qed.
Lemma firstn_app_exact {A} (l s : list A) : firstn (length l) (l ++ s) = l.
Proof. induction l; cbn; [reflexivity|]. f_equal. assumption. Qed.

(* ---- number literals *)
Definition dstep (a : N) (c : char) : N := (a * 10 + digit_of c)%N.

Lemma float_acc_digits ds : forall s m dot k nd,
  Forall (fun c => is_number c = true) ds ->
  float_acc (ds ++ s) m dot k nd =
  float_acc s (fold_left dstep ds m) dot (if dot then k + length ds else k) (nd + length ds).
Proof.
  induction ds as [|c ds IH]; intros s m dot k nd H; cbn [app fold_left length].
  - destruct dot; f_equal; lia.
  - inversion H; subst. cbn [float_acc]. rewrite (number_not_dot _ H2), (is_number_digit _ H2).
    rewrite IH by assumption. unfold dstep at 2. destruct dot; f_equal; lia.
Qed.

Lemma all_digits_len ds : all_digits ds -> length ds <> 0.
Proof. intros [H _]. destruct ds; cbn; congruence. Qed.

Lemma numlit_float lit d : NumLit lit d -> float_of_str lit = Some d.
Proof.
  unfold float_of_str. destruct 1 as [ds H|ds fs H1 H2|fs H].
  - rewrite <- (app_nil_r ds) at 1. rewrite float_acc_digits by apply H. cbn [float_acc].
    pose proof (all_digits_len _ H). destruct (Nat.eqb_spec (0 + length ds) 0); [lia|]. reflexivity.
  - rewrite float_acc_digits by apply H1. cbn [float_acc]. rewrite N.eqb_refl.
    rewrite <- (app_nil_r fs) at 1. rewrite float_acc_digits by apply H2. cbn [float_acc].
    pose proof (all_digits_len _ H2). destruct (Nat.eqb_spec (0 + length ds + length fs) 0); [lia|].
    unfold digits_value. rewrite fold_left_app. reflexivity.
  - cbn [float_acc]. rewrite N.eqb_refl.
    rewrite <- (app_nil_r fs) at 1. rewrite float_acc_digits by apply H. cbn [float_acc].
    pose proof (all_digits_len _ H). destruct (Nat.eqb_spec (0 + length fs) 0); [lia|]. reflexivity.
Qed.

Definition num_sep (rest : str) : Prop :=
  match rest with c :: _ => is_number c = false /\ c <> c_dot | [] => True end.

Lemma num_sep_head rest : num_sep rest -> head_not is_number rest /\ starts_with_c c_dot rest = false.
Proof.
  destruct rest as [|c r]; cbn; [auto|]. intros [A B]. split; [exact A|].
  destruct (c =? c_dot)%N eqn:E; [apply N.eqb_eq in E; contradiction|reflexivity].
Qed.

Lemma digits_head ds s : all_digits ds -> starts_with_c c_dot (ds ++ s) = false.
Proof.
  intros [Hne H]. destruct ds as [|c ds]; [congruence|]. inversion H; subst. cbn. apply number_not_dot. assumption.
Qed.

Lemma consume_number_lit lit d rest :
  NumLit lit d -> num_sep rest -> consume_number (lit ++ rest) = Some (length lit).
Proof.
  intros HL Hsep. apply num_sep_head in Hsep. destruct Hsep as [Hh Hd].
  unfold consume_number. destruct HL as [ds H|ds fs H1 H2|fs H].
  - rewrite (digits_head _ _ H). cbn [andb skipn].
    rewrite spanw_exact by (try apply H; assumption).
    pose proof (all_digits_len _ H). destruct (Nat.eqb_spec (length ds) 0); [lia|]. cbn [negb].
    rewrite skipn_app_exact. rewrite Hd. reflexivity.
  - rewrite <- app_assoc. rewrite (digits_head _ _ H1). cbn [andb skipn].
    assert (Hs : spanw is_number (ds ++ (c_dot :: fs) ++ rest) = length ds).
    { apply spanw_exact; [apply H1|]. reflexivity. }
    rewrite Hs. pose proof (all_digits_len _ H1). destruct (Nat.eqb_spec (length ds) 0); [lia|]. cbn [negb].
    rewrite skipn_app_exact. cbn [app starts_with_c skipn]. rewrite N.eqb_refl.
    rewrite spanw_exact by (try apply H2; assumption).
    pose proof (all_digits_len _ H2). destruct (Nat.eqb_spec (length fs) 0); [lia|]. cbn [negb].
    f_equal. rewrite app_length. cbn [length]. lia.
  - cbn [app starts_with_c]. rewrite N.eqb_refl. cbn [skipn andb].
    rewrite spanw_exact by (try apply H; assumption).
    pose proof (all_digits_len _ H). destruct (Nat.eqb_spec (length fs) 0); [lia|]. cbn [negb length].
    reflexivity.
Qed.

Lemma consume_number_none c s :
  (c =? c_dot)%N = false -> is_number c = false -> consume_number (c :: s) = None.
Proof.
  intros H1 H2. unfold consume_number. cbn [starts_with_c]. rewrite H1. cbn [andb skipn spanw]. rewrite H2.
  reflexivity.
Qed.

(* ---- one round of the loop *)
Lemma scan_spell t lit rest :
  Spell t lit -> Sep t rest ->
  exists p, scan (lit ++ rest) = Some (p, length lit) /\ forall st, pstep st p = tstep st t.
Proof.
  intros HS Hsep. destruct HS as [lit d HL|o| |].
  - exists (PNum lit). split.
    + unfold scan. rewrite (consume_number_lit _ _ _ HL) by (destruct rest; exact Hsep).
      rewrite firstn_app_exact. reflexivity.
    + intros st. cbn [pstep tstep]. rewrite (numlit_float _ _ HL). reflexivity.
  - exists (POp (op_char o)). split; [|reflexivity].
    unfold scan. cbn [app]. rewrite consume_number_none by (destruct o; reflexivity).
    destruct o; reflexivity.
  - exists PLParen. split; [|reflexivity].
    unfold scan. cbn [app]. rewrite consume_number_none by reflexivity. reflexivity.
  - exists PRParen. split; [|reflexivity].
    unfold scan. cbn [app]. rewrite consume_number_none by reflexivity. reflexivity.
Qed.

Lemma spell_head_not_ws t lit : Spell t lit -> lit <> [] /\ head_not is_white_space lit.
Proof.
  destruct 1 as [lit d HL|o| |].
  - destruct HL as [ds [Hne H]|ds fs [Hne H] _|fs _].
    + destruct ds as [|c ds]; [congruence|]. inversion H; subst. split; [discriminate|]. apply number_not_ws. assumption.
    + destruct ds as [|c ds]; [congruence|]. inversion H; subst. split; [discriminate|]. apply number_not_ws. assumption.
    + split; [discriminate|reflexivity].
  - split; [discriminate|]. destruct o; reflexivity.
  - split; [discriminate|reflexivity].
  - split; [discriminate|reflexivity].
Qed.

Lemma parse_loop_skip l : forall s st, parse_loop (length l) (l ++ s) st = parse_loop 0 s st.
Proof. induction l as [|x l IH]; intros s st; cbn [length app]; [reflexivity|]. cbn [parse_loop]. apply IH. Qed.

Lemma consume_number_bounds s n : consume_number s = Some n -> 1 <= n <= length s.
Proof.
  unfold consume_number. destruct s as [|c s]; [cbn; discriminate|].
  cbn [starts_with_c]. destruct (c =? c_dot)%N eqn:Ed.
  - cbn [skipn andb].
    pose proof (spanw_le1 is_number s) as L1.
    destruct (Nat.eqb_spec (spanw is_number s) 0) as [E0|E0]; cbn [negb].
    + discriminate.
    + intros H. inversion H; subst. cbn [length]. lia.
  - cbn [skipn andb].
    pose proof (spanw_le1 is_number (c :: s)) as L1.
    destruct (Nat.eqb_spec (spanw is_number (c :: s)) 0) as [E0|E0]; cbn [negb]; [discriminate|].
    set (d2 := spanw is_number (c :: s)) in *.
    assert (L2 : length (skipn d2 (c :: s)) = length (c :: s) - d2) by apply skipn_length.
    clearbody d2. cbn [length] in *.
    destruct (skipn d2 (c :: s)) as [|c3 s3]; cbn [starts_with_c].
    + intros H. inversion H; subst. lia.
    + destruct (c3 =? c_dot)%N.
      * pose proof (spanw_le1 is_number s3) as L3. cbn [length] in L2.
        destruct (Nat.eqb_spec (spanw is_number s3) 0) as [E3|E3]; cbn [negb]; [discriminate|].
        intros H. inversion H; subst. lia.
      * intros H. inversion H; subst. lia.
Qed.

Lemma scan_bounds s t n : scan s = Some (t, n) -> 1 <= n <= length s.
Proof.
  unfold scan. destruct (consume_number s) as [k|] eqn:E.
  - intros H. inversion H; subst. apply consume_number_bounds. exact E.
  - destruct s as [|c s]; [discriminate|].
    destruct (is_operator c); [intros H; inversion H; subst; cbn; lia|].
    destruct (c =? c_lparen)%N; [intros H; inversion H; subst; cbn; lia|].
    destruct (c =? c_rparen)%N; [intros H; inversion H; subst; cbn; lia|discriminate].
Qed.

Lemma parse_loop_step s st :
  s <> [] ->
  parse_loop 0 s st =
  match scan (skipn (spanw is_white_space s) s) with
  | None => math_err
  | Some (t, n) => let* st' := pstep st t in parse_loop 0 (skipn (spanw is_white_space s + n) s) st'
  end.
Proof.
  destruct s as [|c s']; [congruence|]. intros _. cbn [parse_loop].
  set (nws := spanw is_white_space (c :: s')).
  destruct (scan (skipn nws (c :: s'))) as [[t n]|] eqn:Es; [|reflexivity].
  destruct (pstep st t) as [st'| | |]; cbn [bind]; try reflexivity.
  apply scan_bounds in Es. rewrite skipn_length in Es. cbn [length] in Es.
  set (m := nws + n - 1).
  assert (Hm : m <= length s') by (unfold m; lia).
  replace (nws + n) with (S m) by (unfold m; lia). cbn [skipn].
  rewrite <- (firstn_skipn m s') at 1.
  rewrite <- (firstn_length_le s' Hm) at 1.
  apply parse_loop_skip.
Qed.

(* a string that spells a token list is read by the loop as that token list *)
Lemma lex_run s ts : Lex s ts -> forall st, parse_loop 0 s st = trun st ts.
Proof.
  induction 1 as [|ws lit t rest ts Hws HS Hsep HL IH]; intros st; [reflexivity|].
  destruct (spell_head_not_ws _ _ HS) as [Hne Hh].
  destruct (scan_spell _ _ rest HS Hsep) as (p & Hscan & Hp).
  rewrite parse_loop_step.
  2:{ destruct ws; cbn; [|discriminate]. destruct lit; cbn; [congruence|discriminate]. }
  assert (Hn : spanw is_white_space (ws ++ lit ++ rest) = length ws).
  { apply spanw_exact; [exact Hws|]. destruct lit; [congruence|exact Hh]. }
  rewrite Hn. rewrite skipn_app_exact. rewrite Hscan. rewrite Hp. cbn [trun].
  destruct (tstep st t) as [st'| | |]; cbn [bind]; try reflexivity.
  rewrite <- IH. f_equal.
  rewrite app_assoc. rewrite <- app_length. apply skipn_app_exact.
Qed.

(* ================================================================== Part 6 *)
Lemma postfix_nonempty e : forall d, postfix d e <> [].
Proof.
  induction e as [v|e IH|e IH|o l IHl r IHr|e IH]; intros d; cbn [postfix]; try apply IH.
  - discriminate.
  - intros H. apply app_eq_nil in H. destruct H; discriminate.
  - intros H. apply app_eq_nil in H. destruct H as [_ H]. apply app_eq_nil in H. destruct H; discriminate.
Qed.

(* parse() of a well-formed string is the postfix code of the tree its priorities denote *)
Theorem parse_is_postfix s ts e :
  Lex s ts -> Parses 0 ts e -> parse s = Ok (postfix 0 (regroup e)).
Proof.
  intros HL HP. apply Parses_wfD in HP. destruct HP as (_ & Hwf & Ht). subst ts.
  unfold parse. rewrite (lex_run _ _ HL). unfold init_state.
  change 0%Z with (10 * Z.of_nat 0)%Z at 1.
  rewrite trun_toks by (left; reflexivity). cbn [bind priority ptokens app].
  change (10 * Z.of_nat 0)%Z with 0%Z. cbn [Z.ltb Z.compare andb].
  rewrite <- flat_regroup. rewrite order_is_postfix; [reflexivity|].
  apply (wf_regroup e 0 Hwf).
Qed.

Definition outcome (o : option Qc) : res (option Qc) :=
  match o with Some v => Ok (Some v) | None => zero_div end.

Lemma evaluate_tree s e' :
  parse s = Ok (postfix 0 e') -> evaluate QcNum s = outcome (eval e').
Proof.
  intros HP. unfold evaluate. rewrite HP. cbn [bind].
  pose proof (postfix_nonempty e' 0) as Hne.
  destruct (postfix 0 e') as [|t l] eqn:E; [congruence|]. rewrite <- E.
  rewrite <- (app_nil_r (postfix 0 e')). rewrite rpn_eval. rewrite <- eval_evalG.
  destruct (eval e'); reflexivity.
Qed.

(* evaluate() of a well-formed, covered expression is its arithmetic value (exact rationals;
   the float rounding of the implementation is outside the theorem) *)
Theorem evaluate_correct s e :
  WellFormed s e -> covered e -> evaluate QcNum s = outcome (eval e).
Proof.
  intros (ts & HL & HP) Hc.
  rewrite (evaluate_tree s (regroup e)); [|eapply parse_is_postfix; eassumption].
  rewrite regroup_value by exact Hc. reflexivity.
Qed.

(* ================================================================== Part 7 *)
(* ---- 7a: what the loop reads is a token list the string spells *)
Lemma firstn_app_len {A} (l s : list A) k : firstn (length l + k) (l ++ s) = l ++ firstn k s.
Proof. induction l; cbn; [reflexivity|]. f_equal. assumption. Qed.
Lemma skipn_app_len {A} (l s : list A) k : skipn (length l + k) (l ++ s) = skipn k s.
Proof. induction l; cbn; auto. Qed.
Lemma skipn_skipn_add {A} a : forall b (l : list A), skipn a (skipn b l) = skipn (b + a) l.
Proof.
  intros b. induction b as [|b IH]; intros l; cbn [skipn Nat.add]; [reflexivity|].
  destruct l as [|x l]; [destruct a; reflexivity|]. apply IH.
Qed.

Lemma spanw_firstn_digits s :
  spanw is_number s <> 0 -> all_digits (firstn (spanw is_number s) s).
Proof.
  intros H. split; [|apply spanw_spec].
  destruct s as [|c s]; [cbn in H; congruence|]. cbn [spanw] in *.
  destruct (is_number c); [cbn; discriminate|congruence].
Qed.

Lemma consume_number_sound s n :
  consume_number s = Some n ->
  exists d, NumLit (firstn n s) d /\ head_not is_number (skipn n s).
Proof.
  unfold consume_number. destruct s as [|c s]; [cbn; discriminate|].
  cbn [starts_with_c]. destruct (c =? c_dot)%N eqn:Ed.
  - apply N.eqb_eq in Ed. subst c. cbn [skipn andb].
    destruct (Nat.eqb_spec (spanw is_number s) 0) as [E0|E0]; cbn [negb]; [discriminate|].
    intros H. inversion H; subst. cbn [Nat.add firstn skipn].
    eexists. split; [apply NL_short, spanw_firstn_digits, E0|apply spanw_spec].
  - cbn [skipn andb].
    destruct (Nat.eqb_spec (spanw is_number (c :: s)) 0) as [E0|E0]; cbn [negb]; [discriminate|].
    set (s0 := c :: s) in *. set (d2 := spanw is_number s0) in *.
    pose proof (spanw_firstn_digits s0 E0) as Hds. fold d2 in Hds.
    pose proof (spanw_spec is_number s0) as [_ Hh]. fold d2 in Hh.
    pose proof (firstn_skipn d2 s0) as Hsplit.
    assert (Hlen : length (firstn d2 s0) = d2).
    { apply firstn_length_le. apply spanw_le1. }
    destruct (skipn d2 s0) as [|c3 s3] eqn:E3; cbn [starts_with_c].
    + intros H. inversion H; subst n. cbn [Nat.add]. rewrite E3.
      eexists. split; [apply NL_int; exact Hds|exact I].
    + destruct (c3 =? c_dot)%N eqn:Ed3.
      * apply N.eqb_eq in Ed3. subst c3. cbn [skipn].
        destruct (Nat.eqb_spec (spanw is_number s3) 0) as [E4|E4]; cbn [negb]; [discriminate|].
        intros H. inversion H; subst n.
        set (d3 := spanw is_number s3) in *.
        rewrite <- Hsplit.
        replace (d2 + 1 + d3) with (length (firstn d2 s0) + S d3) by lia.
        rewrite firstn_app_len, skipn_app_len. cbn [firstn skipn].
        eexists. split.
        -- apply NL_frac; [exact Hds|]. apply spanw_firstn_digits. exact E4.
        -- apply spanw_spec.
      * intros H. inversion H; subst n. cbn [Nat.add]. rewrite E3.
        eexists. split; [apply NL_int; exact Hds|exact Hh].
Qed.

(* errors of one round are the parse error only *)
Lemma scan_pstep s p n st :
  scan s = Some (p, n) -> (exists st', pstep st p = Ok st') \/ pstep st p = math_err.
Proof.
  unfold scan. destruct (consume_number s) as [k|] eqn:E.
  - intros H. inversion H; subst. apply consume_number_sound in E. destruct E as (d & HL & _).
    cbn [pstep]. rewrite (numlit_float _ _ HL). destruct (negb (has (expected st) PS_Primary)); eauto.
  - destruct s as [|c s]; [discriminate|].
    destruct (is_operator c).
    { intros H. inversion H; subst. cbn [pstep].
      destruct (is_sign c && has (expected st) PS_Sign); eauto.
      destruct (negb (has (expected st) PS_Operator)); eauto. }
    destruct (c =? c_lparen)%N.
    { intros H. inversion H; subst. cbn [pstep]. destruct (negb (has (expected st) PS_LParen)); eauto. }
    destruct (c =? c_rparen)%N; [|discriminate].
    intros H. inversion H; subst. cbn [pstep].
    destruct (priority st - 10 <? 0)%Z; eauto.
    destruct (has (expected st) PS_Nullary); eauto.
    destruct (negb (has (expected st) PS_RParen)); eauto.
Qed.

Lemma parse_loop_res : forall n s st, length s <= n ->
  (exists st', parse_loop 0 s st = Ok st') \/ parse_loop 0 s st = math_err.
Proof.
  induction n as [|n IH]; intros s st Hlen.
  - destruct s; [left; eexists; reflexivity|cbn in Hlen; lia].
  - destruct s as [|c s']; [left; eexists; reflexivity|].
    rewrite parse_loop_step by discriminate.
    set (s := c :: s') in *. set (nws := spanw is_white_space s).
    destruct (scan (skipn nws s)) as [[p k]|] eqn:Es; [|right; reflexivity].
    destruct (scan_pstep _ _ _ st Es) as [[st1 H1]|H1]; rewrite H1; cbn [bind]; [|right; reflexivity].
    apply IH. apply scan_bounds in Es. rewrite skipn_length in *. unfold s in *. cbn [length] in *. lia.
Qed.

(* after a number, a '.' cannot follow *)
Lemma dot_after_operand rest st :
  expected st = EXP_after_operand -> starts_with_c c_dot rest = true ->
  forall st', parse_loop 0 rest st <> Ok st'.
Proof.
  intros Hex Hd st'. destruct rest as [|c r]; [discriminate|]. cbn in Hd. apply N.eqb_eq in Hd. subst c.
  rewrite parse_loop_step by discriminate.
  cbn [spanw]. replace (is_white_space c_dot) with false by reflexivity. cbn [skipn].
  unfold scan. destruct (consume_number (c_dot :: r)) as [k|].
  - cbn [pstep]. rewrite Hex. replace (negb (has EXP_after_operand PS_Primary)) with true by reflexivity.
    cbn. discriminate.
  - replace (is_operator c_dot) with false by reflexivity.
    replace (c_dot =? c_lparen)%N with false by reflexivity.
    replace (c_dot =? c_rparen)%N with false by reflexivity. discriminate.
Qed.

Lemma lex_of_run : forall n s st st', length s <= n ->
  parse_loop 0 s st = Ok st' -> exists ts, Lex s ts /\ trun st ts = Ok st'.
Proof.
  induction n as [|n IH]; intros s st st' Hlen H.
  - destruct s; [|cbn in Hlen; lia]. cbn in H. inversion H; subst. exists []. split; [constructor|reflexivity].
  - destruct s as [|c s']; [cbn in H; inversion H; subst; exists []; split; [constructor|reflexivity]|].
    rewrite parse_loop_step in H by discriminate.
    set (s := c :: s') in *. set (nws := spanw is_white_space s) in *.
    destruct (scan (skipn nws s)) as [[p k]|] eqn:Es; [|discriminate].
    destruct (pstep st p) as [st1| | |] eqn:Ep; cbn [bind] in H; try discriminate.
    pose proof (scan_bounds _ _ _ Es) as Hb. rewrite skipn_length in Hb.
    set (rest := skipn (nws + k) s) in *.
    assert (Hrl : length rest <= n).
    { unfold rest. rewrite skipn_length. unfold s in *. cbn [length] in *. lia. }
    destruct (IH rest st1 st' Hrl H) as (ts & HLex & Hrun).
    pose proof (spanw_spec is_white_space s) as [Hws _]. fold nws in Hws.
    assert (Hs : s = firstn nws s ++ firstn k (skipn nws s) ++ rest).
    { unfold rest. rewrite <- (firstn_skipn nws s) at 1. f_equal.
      rewrite <- (firstn_skipn k (skipn nws s)) at 1. f_equal.
      rewrite skipn_skipn_add. reflexivity. }
    assert (Hrest : rest = skipn k (skipn nws s)).
    { unfold rest. rewrite skipn_skipn_add. reflexivity. }
    (* the token *)
    assert (HT : exists t, Spell t (firstn k (skipn nws s)) /\ Sep t rest /\ tstep st t = Ok st1).
    { unfold scan in Es. destruct (consume_number (skipn nws s)) as [k'|] eqn:Ec.
      - inversion Es; subst p k'. clear Es.
        destruct (consume_number_sound _ _ Ec) as (d & HL & Hh).
        exists (TNum d). split; [constructor; exact HL|].
        cbn [pstep] in Ep. rewrite (numlit_float _ _ HL) in Ep.
        destruct (negb (has (expected st) PS_Primary)) eqn:Eh; [discriminate|].
        split.
        + rewrite <- Hrest in Hh. cbn [Sep]. destruct rest as [|c0 r0] eqn:Er; [exact I|].
          split; [exact Hh|]. intros ->.
          inversion Ep; subst st1.
          revert H. apply dot_after_operand; reflexivity.
        + cbn [tstep]. rewrite Eh. exact Ep.
      - destruct (skipn nws s) as [|c0 s0] eqn:E0; [discriminate|].
        destruct (is_operator c0) eqn:Eo.
        { inversion Es; subst p k. cbn [firstn].
          apply operator_cases in Eo.
          assert (exists o, c0 = op_char o) as [o ->].
          { destruct Eo as [-> | [-> | [-> | [-> | ->]]]];
              [exists Add|exists Sub|exists Mul|exists Div|exists IDiv]; reflexivity. }
          exists (TOp o). split; [constructor|]. split; [exact I|exact Ep]. }
        destruct (c0 =? c_lparen)%N eqn:El.
        { inversion Es; subst p k. cbn [firstn]. apply N.eqb_eq in El. subst c0.
          exists TLP. split; [constructor|]. split; [exact I|exact Ep]. }
        destruct (c0 =? c_rparen)%N eqn:Er; [|discriminate].
        inversion Es; subst p k. cbn [firstn]. apply N.eqb_eq in Er. subst c0.
        exists TRP. split; [constructor|]. split; [exact I|exact Ep]. }
    destruct HT as (t & HSp & HSep & Hst).
    exists (t :: ts). split.
    + rewrite Hs. constructor; assumption.
    + cbn [trun]. rewrite Hst. cbn [bind]. exact Hrun.
Qed.

(* ---- 7b: the token lists the state machine accepts are derivable in the grammar *)
Ltac split_ifs :=
  repeat match goal with
         | |- context [if ?b then _ else _] => destruct b eqn:?
         end.

Lemma tstep_operand st t st1 :
  operand_state (expected st) -> tstep st t = Ok st1 ->
  match t with
  | TNum d => st1 = mkP (priority st) EXP_after_operand (ptokens st ++ [RNum d])
  | TOp o => is_add o = true /\
             st1 = mkP (priority st) EXP_operand
                       (match o with Sub => ptokens st ++ [mk_op1 c_dash (priority st)] | _ => ptokens st end)
  | TLP => st1 = mkP (priority st + 10)%Z EXP_after_lparen (ptokens st)
  | TRP => expected st = EXP_after_lparen /\ (0 <= priority st - 10)%Z /\
           st1 = mkP (priority st - 10)%Z EXP_after_operand (ptokens st ++ [RNull])
  end.
Proof.
  intros Hex H. destruct t as [d|o| |]; cbn [tstep pstep] in H.
  - destruct Hex as [E|E]; rewrite E in H; cbn in H; inversion H; reflexivity.
  - destruct Hex as [E|E]; rewrite E in H; destruct o; cbn in H; inversion H; (split; reflexivity) || discriminate.
  - destruct Hex as [E|E]; rewrite E in H; cbn in H; inversion H; reflexivity.
  - destruct (Z.ltb_spec (priority st - 10) 0); [discriminate|].
    destruct Hex as [E|E]; rewrite E in H; cbn in H; [discriminate|]. inversion H.
    split; [exact E|]. split; [lia|reflexivity].
Qed.

Lemma tstep_post st t st1 :
  expected st = EXP_after_operand -> tstep st t = Ok st1 ->
  match t with
  | TNum _ => False
  | TOp o => st1 = mkP (priority st) EXP_operand (ptokens st ++ [mk_op2 (op_char o) (priority st)])
  | TLP => False
  | TRP => (0 <= priority st - 10)%Z /\ st1 = mkP (priority st - 10)%Z EXP_after_operand (ptokens st)
  end.
Proof.
  intros E H. destruct t as [d|o| |]; cbn [tstep pstep] in H; rewrite E in H.
  - cbn in H. discriminate.
  - destruct o; cbn in H; inversion H; reflexivity.
  - cbn in H. discriminate.
  - destruct (Z.ltb_spec (priority st - 10) 0); [discriminate|]. cbn in H. inversion H. split; [lia|reflexivity].
Qed.

Definition cnt (p : rtok -> bool) (st : pstate) : nat := count p (ptokens st).

(* operands read so far against binary operators read so far *)
Definition Inv (st : pstate) : Prop :=
  (operand_state (expected st) /\ cnt is_rnum st + cnt is_rnull st = cnt is_rop2 st) \/
  (expected st = EXP_after_operand /\ cnt is_rnum st + cnt is_rnull st = cnt is_rop2 st + 1).

Lemma count_single p x : count p [x] = if p x then 1 else 0.
Proof. unfold count. cbn. destruct (p x); reflexivity. Qed.

Lemma inv_step st t st1 : Inv st -> tstep st t = Ok st1 -> Inv st1.
Proof.
  unfold Inv, cnt. intros [[Hex Hc]|[Hex Hc]] H.
  - apply tstep_operand in H; [|exact Hex]. destruct t as [d|o| |].
    + subst st1. right. cbn [expected ptokens]. rewrite !count_app, !count_single. cbn. split; [reflexivity|lia].
    + destruct H as [Ha ->]. left. cbn [expected ptokens]. split; [left; reflexivity|].
      destruct o; try discriminate; [exact Hc|].
      rewrite !count_app, !count_single. cbn. lia.
    + subst st1. left. cbn [expected ptokens]. split; [right; reflexivity|exact Hc].
    + destruct H as (_ & _ & ->). right. cbn [expected ptokens]. rewrite !count_app, !count_single. cbn. split; [reflexivity|lia].
  - apply tstep_post in H; [|exact Hex]. destruct t as [d|o| |]; try contradiction.
    + subst st1. left. cbn [expected ptokens]. split; [left; reflexivity|].
      rewrite !count_app, !count_single. cbn. lia.
    + destruct H as [_ ->]. right. cbn [expected ptokens]. split; [reflexivity|exact Hc].
Qed.

Lemma inv_run ts : forall st st', Inv st -> trun st ts = Ok st' -> Inv st'.
Proof.
  induction ts as [|t ts IH]; intros st st' HI H; cbn [trun] in H.
  - inversion H; subst. exact HI.
  - destruct (tstep st t) as [st1| | |] eqn:E; cbn [bind] in H; try discriminate.
    eapply IH; [|exact H]. eapply inv_step; eassumption.
Qed.

Lemma inv_init : Inv init_state.
Proof. left. split; [left; reflexivity|reflexivity]. Qed.

Lemma null_step st t st1 : Inv st -> tstep st t = Ok st1 -> cnt is_rnull st <= cnt is_rnull st1.
Proof.
  unfold cnt. intros [[Hex Hc]|[Hex Hc]] H.
  - apply tstep_operand in H; [|exact Hex]. destruct t as [d|o| |].
    + subst st1. cbn [ptokens]. rewrite count_app. lia.
    + destruct H as [_ ->]. cbn [ptokens]. destruct o; try lia. rewrite count_app. lia.
    + subst st1. cbn [ptokens]. lia.
    + destruct H as (_ & _ & ->). cbn [ptokens]. rewrite count_app. lia.
  - apply tstep_post in H; [|exact Hex]. destruct t as [d|o| |]; try contradiction.
    + subst st1. cbn [ptokens]. rewrite count_app. lia.
    + destruct H as [_ ->]. cbn [ptokens]. lia.
Qed.

Lemma null_run ts : forall st st', Inv st -> trun st ts = Ok st' -> cnt is_rnull st <= cnt is_rnull st'.
Proof.
  induction ts as [|t ts IH]; intros st st' HI H; cbn [trun] in H.
  - inversion H; subst. lia.
  - destruct (tstep st t) as [st1| | |] eqn:E; cbn [bind] in H; try discriminate.
    pose proof (null_step _ _ _ HI E). pose proof (inv_step _ _ _ HI E) as HI1.
    specialize (IH _ _ HI1 H). lia.
Qed.

Lemma depth_step st t st1 :
  Inv st -> (exists d, priority st = 10 * Z.of_nat d)%Z -> tstep st t = Ok st1 ->
  (exists d, priority st1 = 10 * Z.of_nat d)%Z.
Proof.
  intros [[Hex Hc]|[Hex Hc]] [d Hd] H.
  - apply tstep_operand in H; [|exact Hex]. destruct t as [v|o| |].
    + subst st1. exists d. exact Hd.
    + destruct H as [_ ->]. exists d. exact Hd.
    + subst st1. exists (S d). cbn [priority]. lia.
    + destruct H as (_ & Hge & ->). cbn [priority]. exists (d - 1). lia.
  - apply tstep_post in H; [|exact Hex]. destruct t as [v|o| |]; try contradiction.
    + subst st1. exists d. exact Hd.
    + destruct H as [Hge ->]. cbn [priority]. exists (d - 1). lia.
Qed.

Lemma depth_run ts : forall st st',
  Inv st -> (exists d, priority st = 10 * Z.of_nat d)%Z -> trun st ts = Ok st' ->
  (exists d, priority st' = 10 * Z.of_nat d)%Z.
Proof.
  induction ts as [|t ts IH]; intros st st' HI Hd H; cbn [trun] in H.
  - inversion H; subst. exact Hd.
  - destruct (tstep st t) as [st1| | |] eqn:E; cbn [bind] in H; try discriminate.
    eapply IH; [| |exact H]; [eapply inv_step|eapply depth_step]; eassumption.
Qed.

(* what may follow a complete operand at nesting depth d: operator/operand pairs, and d closing
   parentheses each followed by more pairs *)
Inductive Rest : nat -> list tok -> Prop :=
| Rest_nil : Rest 0 []
| Rest_close d rest : Rest d rest -> Rest (S d) (TRP :: rest)
| Rest_item d o e rest : wfD 2 e -> Rest d rest -> Rest d (TOp o :: toks e ++ rest).

Definition spell_items (items : list (op2 * expr)) : list tok :=
  flat_map (fun it => TOp (fst it) :: toks (snd it)) items.

Lemma rest_chain d rest : Rest d rest ->
  exists items, Forall (fun it => wfD 2 (snd it)) items /\
    match d with
    | 0 => rest = spell_items items
    | S d' => exists rest2, rest = spell_items items ++ TRP :: rest2 /\ Rest d' rest2
    end.
Proof.
  induction 1 as [|d rest H IH|d o e rest He H IH].
  - exists []. split; [constructor|reflexivity].
  - exists []. split; [constructor|]. exists rest. split; [reflexivity|exact H].
  - destruct IH as (items & HF & Hm). exists ((o, e) :: items). split; [constructor; assumption|].
    destruct d as [|d'].
    + subst rest. unfold spell_items. cbn [flat_map fst snd app]. reflexivity.
    + destruct Hm as (rest2 & -> & HR). exists rest2. split; [|exact HR].
      unfold spell_items. cbn [flat_map fst snd app]. rewrite <- ?app_assoc. reflexivity.
Qed.

(* appending "o s" to a documented tree, with precedence *)
Definition insert (t : expr) (o : op2) (s : expr) : expr :=
  if is_add o then Bin o t s
  else match t with
       | Bin o' l r => if is_add o' then Bin o' l (Bin o r s) else Bin o t s
       | _ => Bin o t s
       end.

Lemma wfD_top1 t : wfD 0 t -> (forall o l r, t = Bin o l r -> is_add o = false) -> wfD 1 t.
Proof.
  destruct t as [v|x|x|o l r|x]; cbn; intros H N; try assumption.
  destruct H as (A & B & C). specialize (N o l r eq_refl). unfold lvl in *. rewrite N in *.
  repeat split; try assumption; lia.
Qed.

Lemma insert_ok t o s :
  wfD 0 t -> wfD 2 s -> wfD 0 (insert t o s) /\ toks (insert t o s) = toks t ++ TOp o :: toks s.
Proof.
  intros Ht Hs. unfold insert. destruct (is_add o) eqn:Eo.
  - cbn [wfD toks]. unfold lvl. rewrite Eo. repeat split; try assumption; [lia|].
    eapply wfD_weaken; [|exact Hs]. lia.
  - assert (G : wfD 1 t -> wfD 0 (Bin o t s) /\ toks (Bin o t s) = toks t ++ TOp o :: toks s).
    { intros H1. cbn [wfD toks]. unfold lvl. rewrite Eo. repeat split; try assumption; lia. }
    destruct t as [v|x|x|o' l r|x]; try (apply G; apply wfD_top1; [exact Ht|intros; discriminate]).
    destruct (is_add o') eqn:Eo'.
    + cbn [wfD toks] in *. unfold lvl in *. rewrite Eo' in *. rewrite Eo. destruct Ht as (A & B & C).
      repeat split; try assumption; try lia. rewrite <- app_assoc. reflexivity.
    + apply G. apply wfD_top1; [exact Ht|]. intros o2 l2 r2 E. inversion E; subst. exact Eo'.
Qed.

Definition build (t : expr) (items : list (op2 * expr)) : expr :=
  fold_left (fun t it => insert t (fst it) (snd it)) items t.

Lemma build_ok items : forall t,
  wfD 0 t -> Forall (fun it => wfD 2 (snd it)) items ->
  wfD 0 (build t items) /\ toks (build t items) = toks t ++ spell_items items.
Proof.
  induction items as [|[o s] items IH]; intros t Ht HF; unfold build, spell_items; cbn [fold_left flat_map].
  - rewrite app_nil_r. split; [exact Ht|reflexivity].
  - inversion HF; subst. cbn [fst snd] in *.
    destruct (insert_ok t o s Ht H1) as [A B].
    destruct (IH _ A H2) as [C D]. split; [exact C|].
    unfold build, spell_items in D. rewrite D, B. rewrite <- app_assoc. reflexivity.
Qed.

Definition nullfree (st : pstate) : Prop := cnt is_rnull st = 0.

Lemma exp_operand_not_post ex : operand_state ex -> ex <> EXP_after_operand.
Proof. intros [-> | ->]; discriminate. Qed.

Lemma accept_struct ts :
  (forall st st' d, Inv st -> priority st = (10 * Z.of_nat d)%Z -> expected st = EXP_after_operand ->
     trun st ts = Ok st' -> priority st' = 0%Z -> expected st' = EXP_after_operand -> nullfree st' ->
     Rest d ts) /\
  (forall st st' d, Inv st -> priority st = (10 * Z.of_nat d)%Z -> operand_state (expected st) ->
     trun st ts = Ok st' -> priority st' = 0%Z -> expected st' = EXP_after_operand -> nullfree st' ->
     exists e rest, ts = toks e ++ rest /\ wfD 2 e /\ Rest d rest).
Proof.
  induction ts as [|t ts [IHA IHB]]; split; intros st st' d HI Hd Hex H Hp' Hex' Hnf; cbn [trun] in H.
  - inversion H; subst st'. assert (d = 0) by lia. subst d. constructor.
  - inversion H; subst st'. exfalso. eapply exp_operand_not_post; eassumption.
  - destruct (tstep st t) as [st1| | |] eqn:E; cbn [bind] in H; try discriminate.
    pose proof (inv_step _ _ _ HI E) as HI1.
    apply tstep_post in E; [|exact Hex]. destruct t as [v|o| |]; try contradiction.
    + subst st1.
      destruct (IHB _ _ d HI1 Hd (or_introl eq_refl) H Hp' Hex' Hnf) as (e & rest & -> & He & HR).
      constructor; assumption.
    + destruct E as [Hge ->]. destruct d as [|d']; [lia|].
      constructor. eapply (IHA _ _ d' HI1); try eassumption; try reflexivity. cbn [priority]. lia.
  - destruct (tstep st t) as [st1| | |] eqn:E; cbn [bind] in H; try discriminate.
    pose proof (inv_step _ _ _ HI E) as HI1.
    pose proof (null_run _ _ _ HI1 H) as Hnull.
    apply tstep_operand in E; [|exact Hex]. destruct t as [v|o| |].
    + subst st1. exists (Num v), ts. split; [reflexivity|]. split; [exact I|].
      eapply (IHA _ _ d HI1); try eassumption; reflexivity.
    + destruct E as [Ho ->].
      destruct (IHB _ _ d HI1 Hd (or_introl eq_refl) H Hp' Hex' Hnf) as (e & rest & -> & He & HR).
      destruct o; try discriminate.
      * exists (Pos e), rest. split; [reflexivity|]. split; assumption.
      * exists (Neg e), rest. split; [reflexivity|]. split; assumption.
    + subst st1.
      destruct (IHB _ _ (S d) HI1 ltac:(cbn [priority]; lia) (or_intror eq_refl) H Hp' Hex' Hnf)
        as (e1 & rest1 & -> & He1 & HR1).
      destruct (rest_chain _ _ HR1) as (items & HF & rest2 & -> & HR2).
      destruct (build_ok items e1 ltac:(eapply wfD_weaken; [|exact He1]; lia) HF) as [HW HT].
      exists (Paren (build e1 items)), rest2. split; [|split; [exact HW|exact HR2]].
      cbn [toks app]. rewrite HT. rewrite <- !app_assoc. reflexivity.
    + destruct E as (_ & _ & ->). exfalso. unfold nullfree, cnt in *. cbn [ptokens] in Hnull.
      rewrite count_app, count_single in Hnull. cbn in Hnull. lia.
Qed.

(* ---- 7c: what parse() accepts is a well-formed expression *)
Theorem parse_sound s r : parse s = Ok r -> exists e, WellFormed s e.
Proof.
  unfold parse. intros H.
  destruct (parse_loop 0 s init_state) as [st'| | |] eqn:EL; cbn [bind] in H; try discriminate.
  destruct ((0 <? priority st')%Z && (10 <=? priority st')%Z) eqn:Ep; [discriminate|].
  destruct (order_tokens (ptokens st')) as [r'|] eqn:Eo; [|discriminate].
  destruct (lex_of_run _ s _ _ (le_n _) EL) as (ts & HLex & Hrun).
  pose proof (inv_run _ _ _ inv_init Hrun) as HI'.
  assert (Hpar : order_tokens (ptokens st') <> None) by congruence.
  apply order_tokens_parity in Hpar.
  assert (Hpost : expected st' = EXP_after_operand /\ nullfree st').
  { unfold nullfree, Inv, cnt in *. destruct HI' as [[_ Hc]|[Hx Hc]]; [exfalso; lia|]. split; [exact Hx|lia]. }
  destruct Hpost as [Hx' Hnf].
  destruct (depth_run _ _ _ inv_init (ex_intro _ 0 eq_refl) Hrun) as [d' Hd'].
  assert (Hp0 : priority st' = 0%Z).
  { destruct (Z.ltb_spec 0 (priority st')), (Z.leb_spec 10 (priority st')); cbn in Ep; try discriminate; lia. }
  destruct (accept_struct ts) as [_ HB].
  destruct (HB init_state st' 0 inv_init eq_refl (or_introl eq_refl) Hrun Hp0 Hx' Hnf)
    as (e & rest & -> & He & HR).
  destruct (rest_chain _ _ HR) as (items & HF & ->).
  destruct (build_ok items e ltac:(eapply wfD_weaken; [|exact He]; lia) HF) as [HW HT].
  exists (build e items), (toks e ++ spell_items items). split; [exact HLex|].
  rewrite <- HT. apply wfD_Parses; [lia|exact HW].
Qed.

Lemma parse_res s :
  (exists r, parse s = Ok r) \/ parse s = math_err.
Proof.
  unfold parse. destruct (parse_loop_res _ s init_state (le_n _)) as [[st' H]|H]; rewrite H; cbn [bind].
  - destruct ((0 <? priority st')%Z && (10 <=? priority st')%Z); [right; reflexivity|].
    destruct (order_tokens (ptokens st')); [left; eexists; reflexivity|right; reflexivity].
  - right. reflexivity.
Qed.

(* evaluate() returns a value, raises the parse error, or raises ZeroDivisionError: nothing else,
   for every string; and it raises the parse error on every string that is not well-formed *)
Theorem evaluate_outcomes s :
  (exists e, WellFormed s e /\ evaluate QcNum s = outcome (eval (regroup e))) \/
  ((forall e, ~ WellFormed s e) /\ evaluate QcNum s = math_err).
Proof.
  destruct (parse_res s) as [[r H]|H].
  - left. destruct (parse_sound _ _ H) as (e & ts & HL & HP). exists e. split; [exists ts; split; assumption|].
    apply evaluate_tree. eapply parse_is_postfix; eassumption.
  - right. split.
    + intros e (ts & HL & HP). rewrite (parse_is_postfix _ _ _ HL HP) in H. discriminate.
    + unfold evaluate. rewrite H. reflexivity.
Qed.

Theorem parse_errors_only s :
  (exists v, evaluate QcNum s = Ok (Some v)) \/ evaluate QcNum s = math_err \/ evaluate QcNum s = zero_div.
Proof.
  destruct (evaluate_outcomes s) as [(e & _ & H)|[_ H]]; rewrite H.
  - destruct (eval (regroup e)) as [v|]; cbn [outcome]; [left; eexists; reflexivity|right; right; reflexivity].
  - right; left; reflexivity.
Qed.

Theorem malformed_raises s : (forall e, ~ WellFormed s e) -> evaluate QcNum s = math_err.
Proof.
  intros N. destruct (evaluate_outcomes s) as [(e & HW & _)|[_ H]]; [exfalso; eapply N; exact HW|exact H].
Qed.
