(* format_events (C01 "every element exactly once, in document order, with its own name"; C15 "same tree as
   HTML"): the chunks pushed by the HTML formatter, filtered to tag chunks, are the open/close event sequence of
   the tree -- for ALL trees and ALL option records (format on/off, indent, newline, inline rules, leaf
   formatting, self-closing style, case, quotes, attribute tables).

   A chunk is one push into the output stream (one output.text callback invocation).  Tag chunks:
     `<name`   (first character '<', second neither '/' nor '!')   -> TOpen name
     `</name>`                                                     -> TClose name
   Hypotheses: no name, attribute or text of the tree contains '<'; names contain no line break (CR, LF); the
   newline+baseIndent and indent strings do not start with '<'; the attribute tables contain no '<'; comments
   are disabled (they are additive: C12). *)
From Coq Require Import List NArith ZArith Bool Lia.
From Emmet Require Import lib.Base model.MarkupTokenizer model.MarkupParser model.MarkupConvert
     model.OutStream model.FormatHtml proofs.IndentStream.
Import ListNotations.

(* ================================================================ SPEC *)
Inductive tagev := TOpen (name : str) | TClose (name : str).

(* the tag a chunk of text stands for *)
Definition text_tag (s : str) : list tagev :=
  match s with
  | lt :: ch :: rest =>
      if (lt =? c_lt)%N then
        if (ch =? c_slash)%N then [TClose (removelast rest)]
        else if (ch =? c_excl)%N then []
        else [TOpen (ch :: rest)]
      else []
  | _ => []
  end.
Definition event_tag (e : oevent) : list tagev :=
  match e with EvText _ s _ _ _ => text_tag s | EvField _ _ _ _ _ => [] end.
(* events are stored most recent first *)
Fixpoint tags_rev (evs : list oevent) : list tagev :=
  match evs with [] => [] | e :: older => tags_rev older ++ event_tag e end.
Definition tags (st : fstate) : list tagev := tags_rev (os_events (fs_out st)).

(* open/close events of a tree, in document order; [void] marks an element written self-closed (no close
   event); a text node contributes the events of its children *)
Inductive sev := SOpen (name : str) (void : bool) | SClose (name : str).
Definition erase (e : sev) : tagev := match e with SOpen n _ => TOpen n | SClose n => TClose n end.

Definition self_closed (n : anode) : bool :=
  an_self n && match an_children n with [] => true | _ => false end && negb (truthy_l (an_value n)).

Fixpoint tree_events (c : oconfig) (n : anode) : list sev :=
  match n with
  | ANode nm v _ _ ch sc =>
      match nm with
      | Some ((_ :: _) as name) =>
          if self_closed n then [SOpen (tag_name c name) true]
          else SOpen (tag_name c name) false :: flat_map (tree_events c) ch ++ [SClose (tag_name c name)]
      | _ => flat_map (tree_events c) ch
      end
  end.

(* ---------------------------------------------------------------- domain *)
Definition nolt (s : str) : bool := forallb (fun ch => negb (ch =? c_lt)%N) s.
Definition nlt (s : str) : bool := match s with ch :: _ => negb (ch =? c_lt)%N | [] => true end.
Definition tok_nolt (t : vtok) : bool := match t with VStr s => nolt s | VField _ _ => true end.
Definition toks_nolt (v : list vtok) : bool := forallb tok_nolt v.
Definition oval_nolt (v : option (list vtok)) : bool := match v with Some x => toks_nolt x | None => true end.

(* first character of an element name: neither '/' nor '!' *)
Definition name_start (s : str) : bool :=
  match s with ch :: _ => negb (ch =? c_slash)%N && negb (ch =? c_excl)%N | [] => true end.

Definition attr_clean (a : aattr) : bool :=
  nolt (match aa_name a with Some x => x | None => [] end) && oval_nolt (aa_value a).

Fixpoint node_clean (n : anode) : bool :=
  match n with
  | ANode nm v _ at_ ch _ =>
      nolt (match nm with Some x => x | None => [] end)
      && nocrlf (match nm with Some x => x | None => [] end)
      && name_start (match nm with Some x => x | None => [] end)
      && oval_nolt v
      && forallb attr_clean (match at_ with Some l => l | None => [] end)
      && forallb node_clean ch
  end.

Definition tbl_clean (t : option (list (str * str))) : bool :=
  match t with Some l => forallb (fun kv => nolt (snd kv)) l | None => true end.

Definition cfg_clean (c : oconfig) : bool :=
  nlt (nlb (oc_fmt c)) && nlt (of_indent (oc_fmt c)) && negb (oc_comment_enabled c)
  && tbl_clean (oc_markup_attributes c) && tbl_clean (oc_value_prefix c).

(* ================================================================ basic facts *)
Lemma nolt_app a b : nolt (a ++ b) = nolt a && nolt b.
Proof. unfold nolt. apply forallb_app. Qed.
Lemma nolt_nlt s : nolt s = true -> nlt s = true.
Proof. destruct s as [|ch s]; [reflexivity|]. cbn [nolt forallb nlt]. intros H. apply andb_true_iff in H. apply H. Qed.
Lemma nlt_text_tag s : nlt s = true -> text_tag s = [].
Proof.
  destruct s as [|lt [|ch rest]]; try reflexivity. cbn [nlt text_tag]. intros H.
  apply negb_true_iff in H. rewrite H. reflexivity.
Qed.
Lemma nlt_repeat s n : nlt s = true -> nlt (repeat_str s n) = true.
Proof.
  intros H. induction n as [|n IH]; [reflexivity|]. cbn [repeat_str].
  destruct s as [|ch s]; [exact IH|exact H].
Qed.

Lemma nolt_lower s : nolt (lower s) = nolt s.
Proof.
  unfold nolt, lower. induction s as [|ch s IH]; [reflexivity|]. cbn [map forallb]. rewrite IH. f_equal. f_equal.
  unfold lower_c. destruct (in_range c_A c_Z ch) eqn:E; [|reflexivity].
  unfold in_range, c_A, c_Z in E. apply andb_true_iff in E. destruct E as [E1 E2].
  apply N.leb_le in E1. apply N.leb_le in E2. unfold c_lt.
  destruct (N.eqb_spec (ch + 32) 60); destruct (N.eqb_spec ch 60); try reflexivity; lia.
Qed.
Lemma nolt_upper s : nolt (upper s) = nolt s.
Proof.
  unfold nolt, upper. induction s as [|ch s IH]; [reflexivity|]. cbn [map forallb]. rewrite IH. f_equal. f_equal.
  unfold upper_c. destruct (in_range c_a c_z ch) eqn:E; [|reflexivity].
  unfold in_range, c_a, c_z in E. apply andb_true_iff in E. destruct E as [E1 E2].
  apply N.leb_le in E1. apply N.leb_le in E2. unfold c_lt.
  destruct (N.eqb_spec (ch - 32) 60); destruct (N.eqb_spec ch 60); try reflexivity; lia.
Qed.
Lemma nolt_str_case s k : nolt (str_case s k) = nolt s.
Proof.
  unfold str_case. destruct k as [|k0 k]; [reflexivity|].
  destruct (str_eqb (k0 :: k) s_upper); [apply nolt_upper|apply nolt_lower].
Qed.
Lemma letter_not_crlf' x : (65 <= x <= 122)%N -> is_crlf x = false.
Proof.
  intros Hx. unfold is_crlf, c_cr, c_nl.
  destruct (N.eqb_spec x 13); destruct (N.eqb_spec x 10); try reflexivity; lia.
Qed.
Lemma nocrlf_lower s : nocrlf (lower s) = nocrlf s.
Proof.
  unfold nocrlf, lower. induction s as [|ch s IH]; [reflexivity|]. cbn [map forallb]. rewrite IH. f_equal. f_equal.
  unfold lower_c. destruct (in_range c_A c_Z ch) eqn:E; [|reflexivity].
  unfold in_range, c_A, c_Z in E. apply andb_true_iff in E. destruct E as [E1 E2].
  apply N.leb_le in E1. apply N.leb_le in E2.
  rewrite (letter_not_crlf' ch) by lia. apply letter_not_crlf'. lia.
Qed.
Lemma nocrlf_upper s : nocrlf (upper s) = nocrlf s.
Proof.
  unfold nocrlf, upper. induction s as [|ch s IH]; [reflexivity|]. cbn [map forallb]. rewrite IH. f_equal. f_equal.
  unfold upper_c. destruct (in_range c_a c_z ch) eqn:E; [|reflexivity].
  unfold in_range, c_a, c_z in E. apply andb_true_iff in E. destruct E as [E1 E2].
  apply N.leb_le in E1. apply N.leb_le in E2.
  rewrite (letter_not_crlf' ch) by lia. apply letter_not_crlf'. lia.
Qed.
Lemma nocrlf_tag_name c s : nocrlf (tag_name c s) = nocrlf s.
Proof.
  unfold tag_name, str_case. destruct (oc_tag_case c) as [|k0 k]; [reflexivity|].
  destruct (str_eqb (k0 :: k) s_upper); [apply nocrlf_upper|apply nocrlf_lower].
Qed.
Lemma name_start_tag_name c s : name_start (tag_name c s) = name_start s.
Proof.
  unfold tag_name, str_case. destruct (oc_tag_case c) as [|k0 k]; [reflexivity|].
  destruct s as [|ch s]; [destruct (str_eqb _ _); reflexivity|].
  destruct (str_eqb (k0 :: k) s_upper); unfold upper, lower; cbn [map name_start]; unfold c_slash, c_excl.
  - unfold upper_c. destruct (in_range c_a c_z ch) eqn:E; [|reflexivity].
    unfold in_range, c_a, c_z in E. apply andb_true_iff in E. destruct E as [E1 E2].
    apply N.leb_le in E1. apply N.leb_le in E2.
    destruct (N.eqb_spec (ch - 32) 47); destruct (N.eqb_spec ch 47); destruct (N.eqb_spec (ch - 32) 33);
      destruct (N.eqb_spec ch 33); try reflexivity; lia.
  - unfold lower_c. destruct (in_range c_A c_Z ch) eqn:E; [|reflexivity].
    unfold in_range, c_A, c_Z in E. apply andb_true_iff in E. destruct E as [E1 E2].
    apply N.leb_le in E1. apply N.leb_le in E2.
    destruct (N.eqb_spec (ch + 32) 47); destruct (N.eqb_spec ch 47); destruct (N.eqb_spec (ch + 32) 33);
      destruct (N.eqb_spec ch 33); try reflexivity; lia.
Qed.
Lemma nolt_tag_name c s : nolt (tag_name c s) = nolt s.
Proof. apply nolt_str_case. Qed.
Lemma tag_name_nonempty c s : s <> [] -> tag_name c s <> [].
Proof.
  unfold tag_name, str_case, upper, lower. intros H. destruct s; [contradiction|].
  destruct (oc_tag_case c); [discriminate|]. destruct (str_eqb _ _); discriminate.
Qed.

(* lines of a string without '<' contain no '<' *)
Lemma nolt_rev s : nolt s = true -> nolt (rev s) = true.
Proof. intros H. unfold nolt in *. rewrite forallb_forall in *. intros x Hx. apply H, in_rev, Hx. Qed.

Lemma split_crlf_aux_nolt : forall n s cur, length s <= n -> nolt cur = true -> nolt s = true ->
  Forall (fun l => nolt l = true) (split_crlf_aux s cur).
Proof.
  induction n as [|n IH]; intros s cur Hl Hc Hs; destruct s as [|ch s]; cbn [length] in Hl; try lia.
  - cbn [split_crlf_aux]. destruct cur; [constructor|]. constructor; [apply nolt_rev, Hc|constructor].
  - cbn [split_crlf_aux]. destruct cur; [constructor|]. constructor; [apply nolt_rev, Hc|constructor].
  - cbn [nolt forallb] in Hs. fold (nolt s) in Hs. apply andb_true_iff in Hs. destruct Hs as [Hch Hs].
    cbn [split_crlf_aux]. fold (is_crlf ch). destruct (is_crlf ch).
    + destruct s as [|c2 s'].
      * constructor; [apply nolt_rev, Hc|constructor].
      * cbn [length] in Hl.
        destruct ((ch =? c_cr)%N && (c2 =? c_nl)%N).
        -- constructor; [apply nolt_rev, Hc|apply IH; [lia|reflexivity|]].
           cbn [nolt forallb] in Hs. apply andb_true_iff in Hs. apply Hs.
        -- constructor; [apply nolt_rev, Hc|apply IH; [cbn [length]; lia|reflexivity|exact Hs]].
    + apply IH; [lia| |exact Hs]. cbn [nolt forallb]. rewrite Hch. exact Hc.
Qed.
Lemma split_crlf_nolt s : nolt s = true -> Forall (fun l => nolt l = true) (split_crlf s).
Proof. intros H. unfold split_crlf. apply (split_crlf_aux_nolt (length s)); [lia|reflexivity|exact H]. Qed.

(* ================================================================ quiet operations: the tag list stays as it is *)
Section Quiet.
  Variable c : oconfig.
  Let f := oc_fmt c.
  Hypothesis Hc : cfg_clean c = true.

  Lemma Hc_parts : nlt (nlb f) = true /\ nlt (of_indent f) = true /\ oc_comment_enabled c = false
                   /\ tbl_clean (oc_markup_attributes c) = true /\ tbl_clean (oc_value_prefix c) = true.
  Proof.
    pose proof Hc as H. unfold cfg_clean in H.
    apply andb_true_iff in H. destruct H as [H H5]. apply andb_true_iff in H. destruct H as [H H4].
    apply andb_true_iff in H. destruct H as [H H3]. apply andb_true_iff in H. destruct H as [H1 H2].
    apply negb_true_iff in H3. repeat split; assumption.
  Qed.

  Definition otags (o : ostream) : list tagev := tags_rev (os_events o).

  Lemma otags_push_gen b o s : otags (os_push_gen b o s) = otags o ++ text_tag s.
  Proof. reflexivity. Qed.
  Lemma otags_push o s : otags (os_push o s) = otags o ++ text_tag s.
  Proof. reflexivity. Qed.
  Lemma otags_push_quiet o s : nlt s = true -> otags (os_push o s) = otags o.
  Proof. intros H. rewrite otags_push, (nlt_text_tag s H), app_nil_r. reflexivity. Qed.
  Lemma otags_push_field o i ph : otags (os_push_field o i ph) = otags o.
  Proof. unfold otags, os_push_field. cbn [os_events tags_rev event_tag]. apply app_nil_r. Qed.
  Lemma otags_set_level o l : otags (os_set_level o l) = otags o.
  Proof. reflexivity. Qed.
  Lemma otags_add_level o d : otags (os_add_level o d) = otags o.
  Proof. reflexivity. Qed.
  Lemma otags_push_indent o n : otags (os_push_indent f o n) = otags o.
  Proof. destruct Hc_parts as [_ [Hi _]]. unfold os_push_indent. apply otags_push_quiet, nlt_repeat, Hi. Qed.
  Lemma otags_push_newline o i : otags (os_push_newline f o i) = otags o.
  Proof.
    destruct Hc_parts as [Hn _]. unfold os_push_newline.
    set (o2 := mkOs _ _ _ _ _).
    assert (E : otags o2 = otags o).
    { unfold o2, otags. cbn [os_events os_push_gen tags_rev event_tag]. fold (nlb f).
      rewrite (nlt_text_tag _ Hn). apply app_nil_r. }
    destruct i as [[n|]|]; [rewrite otags_push_indent|rewrite otags_push_indent|]; exact E.
  Qed.
  Lemma otags_push_newline_int o n : otags (os_push_newline_int f o n) = otags o.
  Proof. apply otags_push_newline. Qed.

  Lemma otags_push_lines : forall ls o, Forall (fun l => nlt l = true) ls ->
    otags (fold_left (fun o' l => os_push (os_push_newline f o' (Some None)) l) ls o) = otags o.
  Proof.
    induction ls as [|l ls IH]; intros o H; [reflexivity|]. inversion H; subst. cbn [fold_left].
    rewrite IH by assumption. rewrite otags_push_quiet by assumption. apply otags_push_newline.
  Qed.

  Lemma otags_push_string o s : nolt s = true -> otags (os_push_string f o s) = otags o.
  Proof.
    intros H. unfold os_push_string. pose proof (split_crlf_nolt s H) as Hl.
    destruct (split_crlf s) as [|l0 ls]; [reflexivity|]. inversion Hl; subst.
    rewrite otags_push_lines.
    - apply otags_push_quiet, nolt_nlt. assumption.
    - eapply Forall_impl; [|eassumption]. intros a Ha. apply nolt_nlt, Ha.
  Qed.

  (* unary form: the tag list of a state is T *)
  Definition Q (T : list tagev) (st : fstate) : Prop := tags st = T.

  Lemma Q_map_level T st d : Q T st -> Q T (map_out (fun o => os_add_level o d) st).
  Proof. exact (fun H => H). Qed.
  Lemma Q_newline T st i : Q T st -> Q T (map_out (fun o => os_push_newline f o i) st).
  Proof. unfold Q, tags, map_out. cbn [fs_out]. intros H. fold (otags (os_push_newline f (fs_out st) i)). rewrite otags_push_newline. exact H. Qed.
  Lemma Q_level_newline T st d :
    Q T st -> Q T (map_out (fun o => let o' := os_add_level o d in os_push_newline_int f o' (os_level o')) st).
  Proof.
    unfold Q, tags, map_out. cbn [fs_out]. intros H. cbv zeta.
    fold (otags (os_push_newline_int f (os_add_level (fs_out st) d) (os_level (os_add_level (fs_out st) d)))).
    rewrite otags_push_newline_int. exact H.
  Qed.
  Lemma Q_newline_int T st (g : ostream -> Z) :
    Q T st -> Q T (map_out (fun o => os_push_newline_int f o (g o)) st).
  Proof.
    unfold Q, tags, map_out. cbn [fs_out]. intros H.
    fold (otags (os_push_newline_int f (fs_out st) (g (fs_out st)))). rewrite otags_push_newline_int. exact H.
  Qed.
  Lemma Q_push_str T s st : nolt s = true -> Q T st -> Q T (push_str c s st).
  Proof.
    unfold Q, tags, push_str. cbn [fs_out]. intros Hs H.
    fold (otags (os_push_string (oc_fmt c) (fs_out st) s)). rewrite (otags_push_string _ _ Hs). exact H.
  Qed.

  Lemma Q_push_tokens T toks st : toks_nolt toks = true -> Q T st -> Q T (push_tokens c toks st).
  Proof.
    unfold Q, tags, push_tokens. intros Ht H.
    assert (G : forall toks o lg, toks_nolt toks = true ->
              otags (fst (fold_left (fun '(o, lg) t =>
                   match t with
                   | VStr s => (os_push_string (oc_fmt c) o s, lg)
                   | VField i nm => (os_push_field o (fs_field st + i)%N nm,
                                     match lg with Some l => Some (N.max l i) | None => Some i end)
                   end) toks (o, lg))) = otags o).
    { clear H Ht. intros toks0. induction toks0 as [|t ts IH]; intros o lg Ht; [reflexivity|].
      cbn [toks_nolt forallb] in Ht. fold (toks_nolt ts) in Ht. apply andb_true_iff in Ht. destruct Ht as [H1 H2].
      cbn [fold_left]. destruct t as [s|i nm]; rewrite IH by exact H2.
      - apply otags_push_string, H1.
      - apply otags_push_field. }
    specialize (G toks (fs_out st) None Ht).
    destruct (fold_left _ toks (fs_out st, None)) as [out largest]. cbn [fst fs_out] in *.
    unfold otags in G. rewrite G. exact H.
  Qed.

  (* the two tag pushes *)
  Lemma Q_open T name st : nocrlf name = true -> name_start name = true -> name <> [] ->
    Q T st -> Q (T ++ [TOpen name]) (push_str c (c_lt :: name) st).
  Proof.
    intros Hb Hs Hne H. unfold Q, tags, push_str, os_push_string in *. cbn [fs_out].
    assert (E : split_crlf (c_lt :: name) = [c_lt :: name]).
    { rewrite split_crlf_nocrlf; [reflexivity|]. cbn [nocrlf forallb]. fold (nocrlf name). rewrite Hb. reflexivity. }
    rewrite E. cbn [fold_left]. fold (otags (os_push (fs_out st) (c_lt :: name))). rewrite otags_push.
    unfold otags. rewrite H. f_equal. destruct name as [|ch name]; [contradiction|].
    cbn [name_start] in Hs. apply andb_true_iff in Hs. destruct Hs as [H1 H2].
    apply negb_true_iff in H1. apply negb_true_iff in H2.
    unfold text_tag. rewrite N.eqb_refl, H1, H2. reflexivity.
  Qed.

  Lemma Q_close T name st : nocrlf name = true ->
    Q T st -> Q (T ++ [TClose name]) (push_str c ([c_lt; c_slash] ++ name ++ [c_gt]) st).
  Proof.
    intros Hb H. unfold Q, tags, push_str, os_push_string in *. cbn [fs_out].
    assert (E : split_crlf ([c_lt; c_slash] ++ name ++ [c_gt]) = [[c_lt; c_slash] ++ name ++ [c_gt]]).
    { rewrite split_crlf_nocrlf; [reflexivity|]. rewrite !nocrlf_app, Hb. reflexivity. }
    rewrite E. cbn [fold_left]. fold (otags (os_push (fs_out st) ([c_lt; c_slash] ++ name ++ [c_gt]))).
    rewrite otags_push. unfold otags. rewrite H. f_equal.
    cbn [app text_tag]. rewrite !N.eqb_refl. rewrite removelast_last. reflexivity.
  Qed.
  (* ---------------------------------------------------------------- attributes *)
  Lemma assoc_str_clean {k} {l : list (str * str)} {v} :
    forallb (fun kv => nolt (snd kv)) l = true -> assoc_str k l = Some v -> nolt v = true.
  Proof.
    induction l as [|[k' v'] l IH]; intros H E; [discriminate|].
    cbn [forallb snd] in H. apply andb_true_iff in H. destruct H as [H1 H2].
    cbn [assoc_str] in E. destruct (str_eqb k k'); [injection E as <-; exact H1|apply IH; assumption].
  Qed.
  Lemma gmv_clean {key data m v} :
    forallb (fun kv => nolt (snd kv)) data = true -> get_multi_value key data m = Some v -> nolt v = true.
  Proof.
    intros H E. unfold get_multi_value in E.
    destruct (if m then assoc_str (key ++ [c_star]) data else None) as [[|x0 x]|] eqn:Es.
    - exact (assoc_str_clean H E).
    - injection E as <-. destruct m; [exact (assoc_str_clean H Es)|discriminate].
    - exact (assoc_str_clean H E).
  Qed.

  Lemma nolt_attr_quote a b : nolt (attr_quote c a b) = true.
  Proof.
    unfold attr_quote. destruct (aa_vtype a); destruct b; try destruct (str_eqb _ _); vm_compute; reflexivity.
  Qed.

  Definition attr_tail (name lq rq : str) (value2 : option (list vtok)) (st : fstate) : fstate :=
    let st1 := push_str c (c_space :: name) st in
    match value2 with
    | Some ((_ :: _) as v) =>
        let st2 := push_str c (c_eq :: lq) st1 in
        let st3 := push_tokens c v st2 in
        push_str c rq st3
    | _ =>
        if negb (str_eqb (oc_self_closing_style c) s_html)
        then push_str c (c_eq :: lq ++ rq) st1
        else st1
    end.

  Lemma Q_attr_tail T name lq rq value2 st :
    nolt name = true -> nolt lq = true -> nolt rq = true -> oval_nolt value2 = true ->
    Q T st -> Q T (attr_tail name lq rq value2 st).
  Proof.
    intros Hn Hl Hr Hv H. unfold attr_tail. cbv zeta.
    assert (H1 : Q T (push_str c (c_space :: name) st)).
    { apply Q_push_str; [|exact H]. cbn [nolt forallb]. fold (nolt name). rewrite Hn. reflexivity. }
    destruct value2 as [[|t v]|].
    - destruct (negb (str_eqb (oc_self_closing_style c) s_html)); [|exact H1].
      apply Q_push_str; [|exact H1]. cbn [nolt forallb]. fold (nolt (lq ++ rq)). rewrite nolt_app, Hl, Hr. reflexivity.
    - apply Q_push_str; [exact Hr|]. apply Q_push_tokens; [exact Hv|].
      apply Q_push_str; [|exact H1]. cbn [nolt forallb]. fold (nolt lq). rewrite Hl. reflexivity.
    - destruct (negb (str_eqb (oc_self_closing_style c) s_html)); [|exact H1].
      apply Q_push_str; [|exact H1]. cbn [nolt forallb]. fold (nolt (lq ++ rq)). rewrite nolt_app, Hl, Hr. reflexivity.
  Qed.

  Definition attr_name1 (a : aattr) (nm0 : str) : str :=
    match oc_markup_attributes c with
    | Some ((_ :: _) as tbl) =>
        match get_multi_value nm0 tbl (aa_multiple a) with
        | Some ((_ :: _) as m) => m
        | _ => nm0
        end
    | _ => nm0
    end.
  Definition attr_prefix (a : aattr) (nm0 : str) : option str :=
    match oc_value_prefix c with
    | Some ((_ :: _) as tbl) => get_multi_value nm0 tbl (aa_multiple a)
    | _ => None
    end.
  Definition attr_triple (a : aattr) (prefix : option str) : option (list vtok) * str * str :=
    match prefix, aa_value a with
    | Some ((_ :: _) as pf), Some [VStr val] =>
        let v := if is_prop_key val then pf ++ [c_dot] ++ val
                 else pf ++ [c_lbrack; c_squote] ++ val ++ [c_squote; c_rbrack] in
        (Some [VStr v],
         if oc_jsx c then [c_lbrace] else attr_quote c a true,
         if oc_jsx c then [c_rbrace] else attr_quote c a false)
    | _, _ => (aa_value a, attr_quote c a true, attr_quote c a false)
    end.
  Definition attr_value2 (a : aattr) (name : str) (value1 : option (list vtok)) : option (list vtok) :=
    if is_boolean_attribute c a && negb (truthy_l value1) then
      if negb (oc_compact_boolean c) then Some [VStr name] else value1
    else if negb (truthy_l value1) then Some caret
    else value1.

  Lemma push_attribute_eq a st :
    push_attribute c a st =
    match aa_name a with
    | Some ((_ :: _) as nm0) =>
        let name := attr_name c (attr_name1 a nm0) in
        let '(value1, lq, rq) := attr_triple a (attr_prefix a nm0) in
        attr_tail name lq rq (attr_value2 a name value1) st
    | _ => st
    end.
  Proof. reflexivity. Qed.

  Lemma Q_push_attribute T a st : attr_clean a = true -> Q T st -> Q T (push_attribute c a st).
  Proof.
    intros Ha H. rewrite push_attribute_eq.
    destruct Hc_parts as [_ [_ [_ [Hma Hvp]]]].
    unfold attr_clean in Ha. apply andb_true_iff in Ha. destruct Ha as [Hn Hv].
    destruct (aa_name a) as [[|n0 nm]|]; try exact H. cbv zeta.
    set (nm0 := n0 :: nm) in *.
    assert (Hname : nolt (attr_name c (attr_name1 a nm0)) = true).
    { unfold attr_name. rewrite nolt_str_case. unfold attr_name1.
      destruct (oc_markup_attributes c) as [[|kv tbl]|]; try exact Hn.
      destruct (get_multi_value nm0 (kv :: tbl) (aa_multiple a)) as [[|m0 m]|] eqn:E; try exact Hn.
      exact (gmv_clean Hma E). }
    assert (Hpre : match attr_prefix a nm0 with Some p => nolt p = true | None => True end).
    { unfold attr_prefix. destruct (oc_value_prefix c) as [[|kv tbl]|]; try exact I.
      destruct (get_multi_value nm0 (kv :: tbl) (aa_multiple a)) eqn:E; [|exact I]. exact (gmv_clean Hvp E). }
    destruct (attr_triple a (attr_prefix a nm0)) as [[value1 lq] rq] eqn:Et.
    assert (Hq : oval_nolt value1 = true /\ nolt lq = true /\ nolt rq = true).
    { unfold attr_triple in Et. destruct (attr_prefix a nm0) as [[|p0 pf]|].
      - injection Et as <- <- <-. repeat split; [exact Hv|apply nolt_attr_quote|apply nolt_attr_quote].
      - assert (Dflt : (aa_value a, attr_quote c a true, attr_quote c a false) = (value1, lq, rq) ->
                       oval_nolt value1 = true /\ nolt lq = true /\ nolt rq = true).
        { intros E. injection E as <- <- <-. repeat split; [exact Hv|apply nolt_attr_quote|apply nolt_attr_quote]. }
        destruct (aa_value a) as [[|[val|i fn] [|t2 rest]]|]; try (apply Dflt; exact Et).
        injection Et as <- <- <-. cbn [oval_nolt toks_nolt forallb tok_nolt] in Hv. rewrite andb_true_r in Hv.
        repeat split.
        + cbn [oval_nolt toks_nolt forallb tok_nolt]. rewrite andb_true_r.
          destruct (is_prop_key val).
          * change (p0 :: pf ++ c_dot :: val) with ((p0 :: pf) ++ [c_dot] ++ val).
            rewrite !nolt_app, Hpre, Hv. reflexivity.
          * change (p0 :: pf ++ c_lbrack :: c_squote :: val ++ [c_squote; c_rbrack])
              with ((p0 :: pf) ++ [c_lbrack; c_squote] ++ val ++ [c_squote; c_rbrack]).
            rewrite !nolt_app, Hpre, Hv. reflexivity.
        + destruct (oc_jsx c); [reflexivity|apply nolt_attr_quote].
        + destruct (oc_jsx c); [reflexivity|apply nolt_attr_quote].
      - injection Et as <- <- <-. repeat split; [exact Hv|apply nolt_attr_quote|apply nolt_attr_quote]. }
    destruct Hq as [Hv1 [Hlq Hrq]].
    apply Q_attr_tail; try assumption.
    unfold attr_value2.
    destruct (is_boolean_attribute c a && negb (truthy_l value1)).
    - destruct (negb (oc_compact_boolean c)); [|exact Hv1].
      cbn [oval_nolt toks_nolt forallb tok_nolt]. rewrite Hname. reflexivity.
    - destruct (negb (truthy_l value1)); [reflexivity|exact Hv1].
  Qed.

  Lemma Q_comment_node T text n st : Q T st -> Q T (comment_node c text n st).
  Proof.
    destruct Hc_parts as [_ [_ [Hce _]]].
    intros H. unfold comment_node. destruct text; [exact H|].
    unfold should_comment. rewrite Hce. exact H.
  Qed.

  (* ---------------------------------------------------------------- html_element, step by step *)
  Definition h_next (node : anode) : nat -> list anode -> fstate -> fstate :=
    fix go (i : nat) (l : list anode) (st : fstate) : fstate :=
      match l with
      | [] => st
      | ch :: r => go (S i) r (html_element c (Some node) ch i (an_children node) st)
      end.

  Definition h_snippet (node : anode) (st : fstate) : option fstate :=
    match an_value node, an_children node with
    | Some ((_ :: _) as value), _ :: _ =>
        match find_field_ix value with
        | Some ix =>
            let st1 := push_tokens c (firstn ix value) st in
            let line := os_line (fs_out st1) in
            let st2 := h_next node O (an_children node) st1 in
            let '(st3, pos) :=
              match nth_error value (S ix) with
              | Some (VStr s) =>
                  if negb (Nat.eqb (os_line (fs_out st2)) line)
                  then (push_str c (lstrip s) st2, S (S ix))
                  else (st2, S ix)
              | _ => (st2, S ix)
              end in
            Some (push_tokens c (skipn pos value) st3)
        | None => None
        end
    | _, _ => None
    end.

  Definition h_inner (inner : bool) (d : Z) (st : fstate) : fstate :=
    if inner
    then map_out (fun o => let o' := os_add_level o d in os_push_newline_int (oc_fmt c) o' (os_level o')) st
    else st.

  (* after the value: the line break before the closing tag only for a childless element *)
  Definition h_inner_close (inner : bool) (ch : list anode) (st : fstate) : fstate :=
    if inner
    then match ch with
         | [] => map_out (fun o => let o' := os_add_level o (-1) in os_push_newline_int (oc_fmt c) o' (os_level o')) st
         | _ => map_out (fun o => os_add_level o (-1)) st
         end
    else st.

  Definition h_plain (nm : str) (node : anode) (st : fstate) : fstate :=
    let st :=
      match an_value node with
      | Some ((_ :: _) as value) =>
          let inner := existsb has_newline value || starts_with_block_tag c value in
          let st := h_inner inner 1 st in
          let st := push_tokens c value st in
          h_inner_close inner (an_children node) st
      | _ => st
      end in
    let st := h_next node O (an_children node) st in
    if negb (truthy_l (an_value node)) && match an_children node with [] => true | _ => false end then
      let inner := oc_format_leaf c || mem_str nm (oc_format_force c) in
      let st := h_inner inner 1 st in
      let st := push_tokens c caret st in
      h_inner inner (-1) st
    else st.

  Definition h_attrs (node : anode) (st : fstate) : fstate :=
    match an_attrs node with
    | Some ((_ :: _) as l) =>
        fold_left (fun s a => if should_output_attribute a then push_attribute c a s else s) l st
    | _ => st
    end.

  Definition h_body (node : anode) (st : fstate) : fstate :=
    match an_name node with
    | Some ((_ :: _) as nm) =>
        let name := tag_name c nm in
        let st := comment_node c (oc_comment_before c) node st in
        let st := push_str c (c_lt :: name) st in
        let st := h_attrs node st in
        if self_closed node
        then push_str c (self_close c ++ [c_gt]) st
        else
          let st := push_str c [c_gt] st in
          let st := match h_snippet node st with Some st' => st' | None => h_plain nm node st end in
          let st := push_str c ([c_lt; c_slash] ++ name ++ [c_gt]) st in
          comment_node c (oc_comment_after c) node st
    | _ =>
        match h_snippet node st with
        | Some st' => st'
        | None => h_next node O (an_children node)
                    (match an_value node with
                     | Some ((_ :: _) as value) => push_tokens c value st
                     | _ => st
                     end)
        end
    end.

  Lemma html_element_eq parent node index items st :
    html_element c parent node index items st =
    let fmt := should_format c parent node index items in
    let level := get_indent c parent in
    let st := map_out (fun o => os_add_level o level) st in
    let st := if fmt then map_out (fun o => os_push_newline (oc_fmt c) o (Some None)) st else st in
    let st := h_body node st in
    let st :=
      if fmt && Nat.eqb index (length items - 1) && match parent with Some _ => true | None => false end
         && negb (Nat.eqb (length items) 0)
      then map_out (fun o => os_push_newline_int (oc_fmt c) o
                               (os_level o - (if is_snippet_opt parent then 0 else 1))%Z) st
      else st in
    map_out (fun o => os_add_level o (- level)%Z) st.
  Proof. destruct node; reflexivity. Qed.

  Lemma node_clean_eq n :
    node_clean n = nolt (match an_name n with Some x => x | None => [] end)
                   && nocrlf (match an_name n with Some x => x | None => [] end)
                   && name_start (match an_name n with Some x => x | None => [] end)
                   && oval_nolt (an_value n)
                   && forallb attr_clean (match an_attrs n with Some l => l | None => [] end)
                   && forallb node_clean (an_children n).
  Proof. destruct n; reflexivity. Qed.

  Lemma tree_events_eq n :
    tree_events c n =
    match an_name n with
    | Some ((_ :: _) as name) =>
        if self_closed n then [SOpen (tag_name c name) true]
        else SOpen (tag_name c name) false :: flat_map (tree_events c) (an_children n) ++ [SClose (tag_name c name)]
    | _ => flat_map (tree_events c) (an_children n)
    end.
  Proof. destruct n; reflexivity. Qed.

  Definition kids_tags (l : list anode) : list tagev := map erase (flat_map (tree_events c) l).

  Definition elem_ev (n : anode) : Prop :=
    forall parent index items st T, Q T st -> Q (T ++ map erase (tree_events c n)) (html_element c parent n index items st).

  Lemma Q_h_inner T b d st : Q T st -> Q T (h_inner b d st).
  Proof. intros H. unfold h_inner. destruct b; [apply Q_level_newline|]; exact H. Qed.

  Lemma Q_h_inner_close T b ch st : Q T st -> Q T (h_inner_close b ch st).
  Proof.
    intros H. unfold h_inner_close. destruct b; [|exact H].
    destruct ch; [apply Q_level_newline|apply Q_map_level]; exact H.
  Qed.

  Lemma h_next_spec node : forall l i st T, Forall elem_ev l -> Q T st -> Q (T ++ kids_tags l) (h_next node i l st).
  Proof.
    induction l as [|ch r IH]; intros i st T HF H.
    - unfold kids_tags. cbn [flat_map map h_next]. rewrite app_nil_r. exact H.
    - inversion HF; subst. cbn [h_next]. fold (h_next node).
      unfold kids_tags. cbn [flat_map]. rewrite map_app, app_assoc. apply IH; [assumption|]. apply H2, H.
  Qed.

  Lemma toks_nolt_firstn n v : toks_nolt v = true -> toks_nolt (firstn n v) = true.
  Proof.
    unfold toks_nolt. rewrite !forallb_forall. intros H x Hx. apply H. rewrite <- (firstn_skipn n v).
    apply in_or_app. left. exact Hx.
  Qed.
  Lemma toks_nolt_skipn n v : toks_nolt v = true -> toks_nolt (skipn n v) = true.
  Proof.
    unfold toks_nolt. rewrite !forallb_forall. intros H x Hx. apply H. rewrite <- (firstn_skipn n v).
    apply in_or_app. right. exact Hx.
  Qed.
  Lemma nolt_lstrip s : nolt s = true -> nolt (lstrip s) = true.
  Proof.
    unfold lstrip. induction s as [|ch s IH]; intros H; [reflexivity|]. cbn [lstrip_by].
    destruct (is_py_space ch); [|exact H]. apply IH. cbn [nolt forallb] in H. apply andb_true_iff in H. apply H.
  Qed.

  Ltac some_inj E :=
    match type of E with
    | Some ?x = Some ?y => let E' := fresh in assert (E' : x = y) by congruence; rewrite <- E'; clear E E'
    end.

  Lemma h_snippet_spec node st st' T :
    Forall elem_ev (an_children node) -> oval_nolt (an_value node) = true ->
    h_snippet node st = Some st' -> Q T st -> Q (T ++ kids_tags (an_children node)) st'.
  Proof.
    intros HF Hv E H. unfold h_snippet in E.
    destruct (an_value node) as [[|t0 v]|]; try discriminate.
    cbn [oval_nolt] in Hv. remember (t0 :: v) as value eqn:Eval. clear Eval.
    destruct (an_children node) as [|k0 ks] eqn:Ek; try discriminate. rewrite <- Ek in *.
    destruct (find_field_ix value) as [ix|]; try discriminate. cbv zeta in E.
    set (st1 := push_tokens c (firstn ix value) st) in *.
    assert (H1 : Q T st1) by (apply Q_push_tokens; [apply toks_nolt_firstn, Hv|exact H]).
    set (st2 := h_next node 0 (an_children node) st1) in *.
    assert (H2 : Q (T ++ kids_tags (an_children node)) st2) by (apply h_next_spec; assumption).
    destruct (nth_error value (S ix)) as [[s|i nm]|] eqn:En.
    - assert (Hs : nolt s = true).
      { apply nth_error_In in En. unfold toks_nolt in Hv. rewrite forallb_forall in Hv. apply (Hv _ En). }
      destruct (negb (Nat.eqb (os_line (fs_out st2)) (os_line (fs_out st1)))); some_inj E.
      + apply Q_push_tokens; [apply toks_nolt_skipn, Hv|]. apply Q_push_str; [apply nolt_lstrip, Hs|exact H2].
      + apply Q_push_tokens; [apply toks_nolt_skipn, Hv|exact H2].
    - some_inj E. apply Q_push_tokens; [apply toks_nolt_skipn, Hv|exact H2].
    - some_inj E. apply Q_push_tokens; [apply toks_nolt_skipn, Hv|exact H2].
  Qed.

  Lemma h_plain_spec nm node st T :
    Forall elem_ev (an_children node) -> oval_nolt (an_value node) = true ->
    Q T st -> Q (T ++ kids_tags (an_children node)) (h_plain nm node st).
  Proof.
    intros HF Hv H. unfold h_plain. cbv zeta.
    match goal with |- context [h_next node 0 (an_children node) ?x] => set (st1 := x) end.
    assert (H1 : Q T st1).
    { unfold st1. destruct (an_value node) as [[|t0 v]|]; try exact H.
      apply Q_h_inner_close. apply Q_push_tokens; [exact Hv|]. apply Q_h_inner, H. }
    pose proof (h_next_spec node (an_children node) 0 st1 T HF H1) as H2.
    destruct (negb (truthy_l (an_value node)) && match an_children node with [] => true | _ => false end); [|exact H2].
    apply Q_h_inner. apply Q_push_tokens; [reflexivity|]. apply Q_h_inner, H2.
  Qed.

  Lemma h_attrs_spec node st T :
    forallb attr_clean (match an_attrs node with Some l => l | None => [] end) = true ->
    Q T st -> Q T (h_attrs node st).
  Proof.
    intros Ha H. unfold h_attrs. destruct (an_attrs node) as [[|a0 l]|]; try exact H.
    revert st H. set (l0 := a0 :: l) in *. clearbody l0. induction l0 as [|a r IH]; intros st H; [exact H|].
    cbn [forallb] in Ha. apply andb_true_iff in Ha. destruct Ha as [Ha1 Ha2]. cbn [fold_left].
    apply IH; [exact Ha2|]. destruct (should_output_attribute a); [apply Q_push_attribute; assumption|exact H].
  Qed.

  Fixpoint anode_ind2 (P : anode -> Prop)
    (H : forall nm v rp at_ ch sc, Forall P ch -> P (ANode nm v rp at_ ch sc)) (n : anode) : P n :=
    match n with
    | ANode nm v rp at_ ch sc =>
        H nm v rp at_ ch sc
          ((fix go (l : list anode) : Forall P l :=
              match l with
              | [] => Forall_nil P
              | x :: r => Forall_cons x (anode_ind2 P H x) (go r)
              end) ch)
    end.

  Lemma html_element_events : forall n, node_clean n = true -> elem_ev n.
  Proof.
    induction n as [nm v rp at_ ch sc IHch] using anode_ind2. intros Hcl.
    set (n := ANode nm v rp at_ ch sc) in *.
    rewrite node_clean_eq in Hcl.
    apply andb_true_iff in Hcl. destruct Hcl as [Hcl Hkids].
    apply andb_true_iff in Hcl. destruct Hcl as [Hcl Hattrs].
    apply andb_true_iff in Hcl. destruct Hcl as [Hcl Hval].
    apply andb_true_iff in Hcl. destruct Hcl as [Hcl Hstart].
    apply andb_true_iff in Hcl. destruct Hcl as [Hnolt Hnocrlf].
    assert (HF : Forall elem_ev (an_children n)).
    { change (an_children n) with ch in *. rewrite forallb_forall in Hkids. rewrite Forall_forall in *.
      intros x Hx. apply IHch; [exact Hx|apply Hkids, Hx]. }
    intros parent index items st T H. rewrite html_element_eq. cbv zeta.
    apply Q_map_level.
    match goal with |- Q _ (if ?b then _ else ?x) => assert (Hb : Q (T ++ map erase (tree_events c n)) x) end.
    2: { match goal with |- Q _ (if ?b then _ else _) => destruct b end; [apply Q_newline_int|]; exact Hb. }
    match goal with |- Q _ (h_body n ?x) => assert (H0 : Q T x) end.
    { destruct (should_format c parent n index items); [apply Q_newline|]; apply Q_map_level, H. }
    match goal with |- Q _ (h_body n ?x) => set (st0 := x) in * end. clearbody st0.
    unfold h_body. rewrite tree_events_eq.
    destruct (an_name n) as [[|n0 nm']|] eqn:En.
    - (* empty name: a text node *)
      destruct (h_snippet n st0) as [st'|] eqn:Es.
      + exact (h_snippet_spec n st0 st' T HF Hval Es H0).
      + apply h_next_spec; [exact HF|].
        destruct (an_value n) as [[|t0 v0]|] eqn:Ev; try exact H0.
        apply Q_push_tokens; [exact Hval|exact H0].
    - (* an element *)
      set (name := tag_name c (n0 :: nm')).
      assert (Nb : nocrlf name = true) by (unfold name; rewrite nocrlf_tag_name; exact Hnocrlf).
      assert (Ns : name_start name = true) by (unfold name; rewrite name_start_tag_name; exact Hstart).
      assert (Nn : name <> []) by (apply tag_name_nonempty; discriminate).
      cbv zeta. fold name.
      assert (H1 : Q (T ++ [TOpen name]) (h_attrs n (push_str c (c_lt :: name) (comment_node c (oc_comment_before c) n st0)))).
      { apply h_attrs_spec; [exact Hattrs|]. apply Q_open; try assumption. apply Q_comment_node, H0. }
      match type of H1 with Q _ ?x => set (st1 := x) in * end. clearbody st1.
      destruct (self_closed n).
      + cbn [map erase]. apply Q_push_str; [|exact H1].
        unfold self_close. destruct (str_eqb _ s_xhtml); [reflexivity|]. destruct (str_eqb _ s_xml); reflexivity.
      + cbn [map erase]. rewrite map_app. cbn [map erase].
        change (TOpen name :: map erase (flat_map (tree_events c) (an_children n)) ++ [TClose name])
          with ([TOpen name] ++ kids_tags (an_children n) ++ [TClose name]).
        rewrite !app_assoc. apply Q_comment_node. apply Q_close; [exact Nb|].
        assert (H2 : Q (T ++ [TOpen name]) (push_str c [c_gt] st1)) by (apply Q_push_str; [reflexivity|exact H1]).
        destruct (h_snippet n (push_str c [c_gt] st1)) as [st'|] eqn:Es.
        * exact (h_snippet_spec n _ st' _ HF Hval Es H2).
        * apply h_plain_spec; assumption.
    - (* no name *)
      destruct (h_snippet n st0) as [st'|] eqn:Es.
      + exact (h_snippet_spec n st0 st' T HF Hval Es H0).
      + apply h_next_spec; [exact HF|].
        destruct (an_value n) as [[|t0 v0]|] eqn:Ev; try exact H0.
        apply Q_push_tokens; [exact Hval|exact H0].
  Qed.

  (* ---------------------------------------------------------------- the whole abbreviation *)
  Definition h_top (items : list anode) : nat -> list anode -> fstate -> fstate :=
    fix go (i : nat) (l : list anode) (st : fstate) : fstate :=
      match l with
      | [] => st
      | ch :: r => go (S i) r (html_element c None ch i items st)
      end.

  Lemma h_top_spec items : forall l i st T, forallb node_clean l = true -> Q T st ->
    Q (T ++ kids_tags l) (h_top items i l st).
  Proof.
    induction l as [|ch r IH]; intros i st T Hcl H.
    - unfold kids_tags. cbn [flat_map map h_top]. rewrite app_nil_r. exact H.
    - cbn [forallb] in Hcl. apply andb_true_iff in Hcl. destruct Hcl as [H1 H2]. cbn [h_top]. fold (h_top items).
      unfold kids_tags. cbn [flat_map]. rewrite map_app, app_assoc. apply IH; [assumption|].
      apply html_element_events; assumption.
  Qed.

  Theorem format_events_all forest : forallb node_clean forest = true ->
    tags (html_format c forest) = map erase (flat_map (tree_events c) forest).
  Proof.
    intros H. change (html_format c forest) with (h_top forest O forest (mkFs os_empty 1)).
    exact (h_top_spec forest forest O (mkFs os_empty 1) [] H eq_refl).
  Qed.
End Quiet.

(* ================================================================ nesting recovered from the events *)
(* depth of every open event: opens so far minus closes so far; a void (self-closed) element does not nest *)
Fixpoint nest (d : nat) (evs : list sev) : list (nat * str) :=
  match evs with
  | [] => []
  | SOpen n true :: r => (d, n) :: nest d r
  | SOpen n false :: r => (d, n) :: nest (S d) r
  | SClose _ :: r => nest (pred d) r
  end.

(* preorder walk with depths *)
Fixpoint preorder_nodes (d : nat) (n : anode) : list (nat * anode) :=
  match n with
  | ANode _ _ _ _ ch _ => (d, n) :: flat_map (preorder_nodes (S d)) ch
  end.
Definition node_name (n : anode) : str := match an_name n with Some x => x | None => [] end.

Fixpoint named_tree (n : anode) : bool :=
  match n with
  | ANode nm _ _ _ ch _ => truthy_s nm && forallb named_tree ch
  end.

Lemma preorder_nodes_eq d n : preorder_nodes d n = (d, n) :: flat_map (preorder_nodes (S d)) (an_children n).
Proof. destruct n; reflexivity. Qed.
Lemma named_tree_eq n : named_tree n = truthy_s (an_name n) && forallb named_tree (an_children n).
Proof. destruct n; reflexivity. Qed.

Definition dn (c : oconfig) (x : nat * anode) : nat * str := (fst x, tag_name c (node_name (snd x))).

Lemma nest_named c n d rest :
  truthy_s (an_name n) = true ->
  (forall d R, nest d (flat_map (tree_events c) (an_children n) ++ R)
               = map (dn c) (flat_map (preorder_nodes d) (an_children n)) ++ nest d R) ->
  nest d (tree_events c n ++ rest) = map (dn c) (preorder_nodes d n) ++ nest d rest.
Proof.
  intros Hn Hk. rewrite tree_events_eq, preorder_nodes_eq. cbn [map]. unfold dn at 1. cbn [fst snd].
  unfold node_name. destruct (an_name n) as [[|n0 nm]|]; try discriminate.
  destruct (self_closed n) eqn:Es.
  - assert (E : an_children n = []).
    { unfold self_closed in Es. destruct (an_children n); [reflexivity|]. rewrite andb_false_r in Es. discriminate. }
    rewrite E. reflexivity.
  - cbn [app nest]. f_equal. rewrite <- app_assoc, Hk. cbn [app nest pred]. reflexivity.
Qed.

Lemma nest_kids c : forall l,
  Forall (fun n => named_tree n = true -> forall d rest,
            nest d (tree_events c n ++ rest) = map (dn c) (preorder_nodes d n) ++ nest d rest) l ->
  forallb named_tree l = true -> forall d R,
  nest d (flat_map (tree_events c) l ++ R) = map (dn c) (flat_map (preorder_nodes d) l) ++ nest d R.
Proof.
  induction l as [|x l IHl]; intros HF Hl d R; [reflexivity|].
  inversion HF; subst. cbn [forallb] in Hl. apply andb_true_iff in Hl. destruct Hl as [Hx Hl].
  cbn [flat_map]. rewrite <- app_assoc, (H1 Hx), (IHl H2 Hl), map_app, <- app_assoc. reflexivity.
Qed.

Lemma nest_tree c : forall n, named_tree n = true -> forall d rest,
  nest d (tree_events c n ++ rest) = map (dn c) (preorder_nodes d n) ++ nest d rest.
Proof.
  induction n as [nm v rp at_ ch sc IHch] using anode_ind2. intros Hn d rest.
  rewrite named_tree_eq in Hn. apply andb_true_iff in Hn. destruct Hn as [Hnm Hch].
  apply nest_named; [exact Hnm|]. intros d' R. apply nest_kids; assumption.
Qed.

Theorem nest_forest c forest : forallb named_tree forest = true ->
  nest 0 (flat_map (tree_events c) forest)
  = map (dn c) (flat_map (preorder_nodes 0) forest).
Proof.
  intros H. rewrite <- (app_nil_r (flat_map (tree_events c) forest)).
  rewrite <- (app_nil_r (map _ _)). change (@nil (nat * str)) with (nest 0 []).
  generalize (@nil sev). induction forest as [|x l IH]; intros R; [reflexivity|].
  cbn [forallb] in H. apply andb_true_iff in H. destruct H as [Hx Hl].
  cbn [flat_map]. rewrite <- app_assoc, (nest_tree c x Hx), (IH Hl), map_app, <- app_assoc. reflexivity.
Qed.
