(* C05, the full value_seq_expand: several properties joined by `+`, each  name [:] values [!] .
   Scanner (continuation form of the loop lemma), parser (p_loop over siblings), resolver and
   formatter (one property per line). *)
From Coq Require Import ZifyBool String PrimFloat.
From Emmet Require Import lib.Base lib.StyleLib model.CssTokenizer model.CssParser model.Score model.Color
     model.CssSnippets model.CssResolve model.CssFormat
     proofs.CssTokenizerProofs proofs.StyleDashProofs proofs.StyleProofs proofs.StyleValueProofs proofs.StyleTokProofs.
Local Open Scope nat_scope.

(* ------------------------------------------------------------------ one-character operator rounds *)
Lemma op_round src acc pos c rest :
  (c = c_plus \/ c = c_excl \/ c = c_colon) ->
  ctoks src false 0 0 acc pos (c :: rest) =
  ctoks src false 0 0 (mkCTok (COperator c) pos (pos + 1) :: acc) (pos + 1) rest.
Proof.
  intros Hc.
  assert (H : cconsume (Nat.eqb 0 0 && negb false) (Nat.eqb pos 0) (c :: rest) = CTok (COperator c) 1).
  { destruct Hc as [ -> |[ -> | -> ]]; destruct rest; destruct (Nat.eqb pos 0); reflexivity. }
  rewrite (ctoks_round src false 0 acc pos _ _ _ H I). reflexivity.
Qed.

(* ------------------------------------------------------------------ scanner: one property followed by more input *)
Definition sib_tok (p : ctoken) : Prop := k_is_sibling (ck p) = true.

(* values [+ "!"] followed by "+ rest": the tokens of the values, the bang, the sibling; the loop goes on at [rest] *)
Lemma ctoks_vals_plus : forall vals src acc pos bang rest,
  Forall val_ok vals -> vals <> [] ->
  exists ts vs b p pos',
    body_of ts vs /\ map ck vs = map val_kind vals /\ k_is_important (ck b) = true /\ sib_tok p /\
    ctoks src false 0 0 acc pos (render_vals vals ++ bang_text bang ++ c_plus :: rest) =
    ctoks src false 0 0 (p :: rev (bang_tail bang b) ++ rev ts ++ acc) pos' rest.
Proof.
  induction vals as [|v vals IH]; intros src acc pos bang rest Hall Hne; [contradiction|].
  inversion Hall as [|? ? Hv Hrest]; subst.
  destruct (val_kind_facts v Hv) as [Hforce [Hnc Hnb]].
  set (n := length (val_text v)).
  set (t := mkCTok (val_kind v) pos (pos + n)).
  destruct vals as [|w vals'].
  - (* the last value of this property *)
    cbn [render_vals].
    set (M := bang_text bang ++ c_plus :: rest).
    assert (Hc : cconsume (Nat.eqb 0 0 && negb false) (Nat.eqb pos 0) (val_text v ++ M) = CTok (val_kind v) n).
    { apply cconsume_val; [exact Hv|]. subst M. destruct bang; cbn [bang_text app]; [right; left; reflexivity|].
      right. right. right. reflexivity. }
    rewrite (ctoks_round src false 0 acc pos _ _ n Hc Hnb). rewrite Hforce.
    subst n. rewrite skipn_app_exact.
    replace (skipn (length (val_text v) + 1) (val_text v ++ M)) with (skipn 1 M)
      by (rewrite <- (skipn_app_exact (val_text v) M) at 1; rewrite cskipn_add; f_equal; lia).
    subst M.
    destruct bang; cbn [bang_text bang_tail app rev].
    + (* "!" then "+" *)
      destruct (has_unit v); cbn [negb].
      * rewrite (op_round _ _ _ c_excl) by (right; left; reflexivity).
        rewrite (op_round _ _ _ c_plus) by (left; reflexivity).
        eexists [t], [t], _, _, _. split; [apply body_val; [exact Hnc|apply body_nil]|]. split; [reflexivity|].
        split; [|split; [|fold t; reflexivity]]; reflexivity.
      * cbn [coperator skipn]. change (assoc_N c_excl css_operator_map) with (Some c_excl). cbv iota beta.
        rewrite (op_round _ _ _ c_plus) by (left; reflexivity).
        eexists [t], [t], _, _, _. split; [apply body_val; [exact Hnc|apply body_nil]|]. split; [reflexivity|].
        split; [|split; [|fold t; reflexivity]]; reflexivity.
    + (* "+" directly *)
      destruct (has_unit v); cbn [negb].
      * rewrite (op_round _ _ _ c_plus) by (left; reflexivity).
        eexists [t], [t], (mkCTok (COperator c_excl) 0 0), _, _.
        split; [apply body_val; [exact Hnc|apply body_nil]|]. split; [reflexivity|].
        split; [|split; [|fold t; reflexivity]]; reflexivity.
      * cbn [coperator skipn]. change (assoc_N c_plus css_operator_map) with (Some c_plus). cbv iota beta.
        eexists [t], [t], (mkCTok (COperator c_excl) 0 0), _, _.
        split; [apply body_val; [exact Hnc|apply body_nil]|]. split; [reflexivity|].
        split; [|split; [|fold t; reflexivity]]; reflexivity.
  - (* more values follow *)
    change (render_vals (v :: w :: vals')) with (val_text v ++ conn v ++ render_vals (w :: vals')).
    repeat rewrite <- app_assoc.
    set (R := render_vals (w :: vals') ++ bang_text bang ++ c_plus :: rest).
    destruct (render_vals_head w vals' (bang_text bang ++ c_plus :: rest) Hrest) as [c0 [tl0 [ER Hst]]]. fold R in ER.
    assert (Hc : cconsume (Nat.eqb 0 0 && negb false) (Nat.eqb pos 0) (val_text v ++ conn v ++ R) = CTok (val_kind v) n).
    { apply cconsume_val; [exact Hv|]. unfold conn. destruct (has_unit v) eqn:Eu; cbn [app].
      - rewrite ER. right. right. left. split; [reflexivity|exact Hst].
      - left. reflexivity. }
    rewrite (ctoks_round src false 0 acc pos _ _ n Hc Hnb). rewrite Hforce.
    subst n. rewrite skipn_app_exact.
    unfold conn in *. destruct (has_unit v) eqn:Eu; cbn [negb app].
    + destruct (IH src (t :: acc) (pos + length (val_text v)) bang rest Hrest ltac:(discriminate))
        as [ts [vs [b [p [pos' [Hb [Hk [Hi [Hp Hrun]]]]]]]]].
      exists (t :: ts), (t :: vs), b, p, pos'. split; [apply body_val; assumption|].
      split; [cbn [map]; rewrite Hk; reflexivity|]. split; [exact Hi|]. split; [exact Hp|].
      fold R in Hrun. fold t. rewrite Hrun. cbn [rev]. rewrite <- !app_assoc. reflexivity.
    + cbn [coperator]. change (assoc_N c_dash css_operator_map) with (Some c_dash). cbv iota beta.
      replace (skipn (length (val_text v) + 1) (val_text v ++ c_dash :: R)) with R.
      2:{ replace (val_text v ++ c_dash :: R) with ((val_text v ++ [c_dash]) ++ R) by (rewrite <- app_assoc; reflexivity).
          replace (length (val_text v) + 1) with (length (val_text v ++ [c_dash])) by (rewrite app_length; reflexivity).
          rewrite skipn_app_exact. reflexivity. }
      set (op := mkCTok (COperator c_dash) (pos + length (val_text v)) (pos + length (val_text v) + 1)).
      destruct (IH src (op :: t :: acc) (pos + length (val_text v) + 1) bang rest Hrest ltac:(discriminate))
        as [ts [vs [b [p [pos' [Hb [Hk [Hi [Hp Hrun]]]]]]]]].
      exists (t :: op :: ts), (t :: vs), b, p, pos'.
      split; [apply body_val; [exact Hnc|apply body_delim; [reflexivity|exact Hb]]|].
      split; [cbn [map]; rewrite Hk; reflexivity|]. split; [exact Hi|]. split; [exact Hp|].
      fold R in Hrun. fold t. fold op. rewrite Hrun. cbn [rev]. rewrite <- !app_assoc. reflexivity.
Qed.

(* ------------------------------------------------------------------ properties *)
Record propv := mkPropv { pv_key : str; pv_colon : bool; pv_vals : list valv; pv_bang : bool }.

Definition colon_text (c : bool) : str := if c then [c_colon] else [].
Definition prop_text (p : propv) : str :=
  pv_key p ++ colon_text (pv_colon p) ++ render_vals (pv_vals p) ++ bang_text (pv_bang p).
Fixpoint render_props (l : list propv) : str :=
  match l with
  | [] => []
  | [p] => prop_text p
  | p :: r => prop_text p ++ c_plus :: render_props r
  end.

Definition propv_ok (p : propv) : Prop := key_ok (pv_key p) /\ Forall val_ok (pv_vals p) /\ pv_vals p <> [].

(* the token group of one property, and what it parses to *)
Inductive prop_toks : list ctoken -> propv -> list ctoken -> Prop :=
| PT lit0 ts vs b p :
    ck lit0 = CLiteral (pv_key p) -> body_of ts vs -> map ck vs = map val_kind (pv_vals p) -> vs <> [] ->
    k_is_important (ck b) = true ->
    prop_toks (lit0 :: ts ++ bang_tail (pv_bang p) b) p vs.

Definition colon_tail (c : bool) (t : ctoken) : list ctoken := if c then [t] else [].

(* scanner for one property that is followed by "+ rest" *)
Lemma ctoks_prop_plus src acc pos p rest :
  propv_ok p ->
  exists toks vs plus pos',
    prop_toks toks p vs /\ sib_tok plus /\
    ctoks src false 0 0 acc pos (prop_text p ++ c_plus :: rest) =
    ctoks src false 0 0 (plus :: rev toks ++ acc) pos' rest.
Proof.
  intros [Hk [Hall Hne]]. unfold prop_text. repeat rewrite <- app_assoc.
  set (V := render_vals (pv_vals p) ++ bang_text (pv_bang p) ++ c_plus :: rest).
  destruct (pv_vals p) as [|v vals'] eqn:Ev; [contradiction|].
  destruct (render_vals_head v vals' (bang_text (pv_bang p) ++ c_plus :: rest) Hall) as [c0 [tl0 [ER Hst]]].
  fold V in ER.
  assert (Hafter : cpeek_p is_cliteral (colon_text (pv_colon p) ++ V) = false).
  { destruct (pv_colon p); cbn [colon_text app cpeek_p]; [reflexivity|]. rewrite ER. cbn [cpeek_p].
    apply starter_facts. exact Hst. }
  assert (Hc : cconsume (Nat.eqb 0 0 && negb false) (Nat.eqb pos 0) (pv_key p ++ colon_text (pv_colon p) ++ V) =
               CTok (CLiteral (pv_key p)) (length (pv_key p))).
  { apply cconsume_key; assumption. }
  rewrite (ctoks_round src false 0 acc pos _ _ _ Hc I). cbn [should_consume_dash_after].
  rewrite skipn_app_exact.
  set (lit0 := mkCTok (CLiteral (pv_key p)) pos (pos + length (pv_key p))).
  destruct (pv_colon p); cbn [colon_text app].
  - rewrite (op_round _ _ _ c_colon) by (right; right; reflexivity).
    set (ct := mkCTok (COperator c_colon) (pos + length (pv_key p)) (pos + length (pv_key p) + 1)).
    destruct (ctoks_vals_plus (v :: vals') src (ct :: lit0 :: acc) (pos + length (pv_key p) + 1) (pv_bang p) rest Hall Hne)
      as [ts [vs [b [plus [pos' [Hb [Hkk [Hi [Hp Hrun]]]]]]]]].
    exists (lit0 :: (ct :: ts) ++ bang_tail (pv_bang p) b), vs, plus, pos'.
    split; [|split; [exact Hp|]].
    + apply PT; try assumption; try reflexivity.
      * apply body_delim; [reflexivity|exact Hb].
      * rewrite Ev. exact Hkk.
      * intros E. subst vs. discriminate.
    + subst V. rewrite Hrun. f_equal. cbn [rev app]. rewrite rev_app_distr. cbn [rev app].
      repeat rewrite <- app_assoc. reflexivity.
  - destruct (ctoks_vals_plus (v :: vals') src (lit0 :: acc) (pos + length (pv_key p)) (pv_bang p) rest Hall Hne)
      as [ts [vs [b [plus [pos' [Hb [Hkk [Hi [Hp Hrun]]]]]]]]].
    exists (lit0 :: ts ++ bang_tail (pv_bang p) b), vs, plus, pos'.
    split; [|split; [exact Hp|]].
    + apply PT; try assumption; try reflexivity.
      * rewrite Ev. exact Hkk.
      * intros E. subst vs. discriminate.
    + subst V. rewrite Hrun. f_equal. cbn [rev app]. rewrite rev_app_distr.
      repeat rewrite <- app_assoc. reflexivity.
Qed.

(* scanner for the last property *)
Lemma ctoks_prop_end src acc pos p :
  propv_ok p ->
  exists toks vs, prop_toks toks p vs /\ ctoks src false 0 0 acc pos (prop_text p) = CTOk (rev acc ++ toks).
Proof.
  intros [Hk [Hall Hne]]. unfold prop_text.
  set (V := render_vals (pv_vals p) ++ bang_text (pv_bang p)).
  destruct (pv_vals p) as [|v vals'] eqn:Ev; [contradiction|].
  destruct (render_vals_head v vals' (bang_text (pv_bang p)) Hall) as [c0 [tl0 [ER Hst]]]. fold V in ER.
  assert (Hafter : cpeek_p is_cliteral (colon_text (pv_colon p) ++ V) = false).
  { destruct (pv_colon p); cbn [colon_text app cpeek_p]; [reflexivity|]. rewrite ER. cbn [cpeek_p].
    apply starter_facts. exact Hst. }
  assert (Hc : cconsume (Nat.eqb 0 0 && negb false) (Nat.eqb pos 0) (pv_key p ++ colon_text (pv_colon p) ++ V) =
               CTok (CLiteral (pv_key p)) (length (pv_key p))).
  { apply cconsume_key; assumption. }
  rewrite (ctoks_round src false 0 acc pos _ _ _ Hc I). cbn [should_consume_dash_after].
  rewrite skipn_app_exact.
  set (lit0 := mkCTok (CLiteral (pv_key p)) pos (pos + length (pv_key p))).
  destruct (pv_colon p); cbn [colon_text app].
  - rewrite (op_round _ _ _ c_colon) by (right; right; reflexivity).
    set (ct := mkCTok (COperator c_colon) (pos + length (pv_key p)) (pos + length (pv_key p) + 1)).
    destruct (ctoks_vals (v :: vals') src (ct :: lit0 :: acc) (pos + length (pv_key p) + 1) (pv_bang p) Hall Hne)
      as [ts [vs [b [Hb [Hkk [Hi Hrun]]]]]].
    exists (lit0 :: (ct :: ts) ++ bang_tail (pv_bang p) b), vs.
    split.
    + apply PT; try assumption; try reflexivity.
      * apply body_delim; [reflexivity|exact Hb].
      * rewrite Ev. exact Hkk.
      * intros E. subst vs. discriminate.
    + subst V. rewrite Hrun. f_equal. cbn [rev app]. repeat rewrite <- app_assoc. reflexivity.
  - destruct (ctoks_vals (v :: vals') src (lit0 :: acc) (pos + length (pv_key p)) (pv_bang p) Hall Hne)
      as [ts [vs [b [Hb [Hkk [Hi Hrun]]]]]].
    exists (lit0 :: ts ++ bang_tail (pv_bang p) b), vs.
    split.
    + apply PT; try assumption; try reflexivity.
      * rewrite Ev. exact Hkk.
      * intros E. subst vs. discriminate.
    + subst V. rewrite Hrun. f_equal. cbn [rev app]. repeat rewrite <- app_assoc. reflexivity.
Qed.

(* the token list of a `+`-joined list of properties *)
Inductive props_toks : list ctoken -> list (propv * list ctoken) -> Prop :=
| PTs_one toks p vs : prop_toks toks p vs -> props_toks toks [(p, vs)]
| PTs_cons toks p vs plus rest ps :
    prop_toks toks p vs -> sib_tok plus -> props_toks rest ps -> props_toks (toks ++ plus :: rest) ((p, vs) :: ps).

Lemma ctoks_props : forall props src acc pos,
  Forall propv_ok props -> props <> [] ->
  exists toks pvs, props_toks toks pvs /\ map fst pvs = props /\
                   ctoks src false 0 0 acc pos (render_props props) = CTOk (rev acc ++ toks).
Proof.
  induction props as [|p props IH]; intros src acc pos Hall Hne; [contradiction|].
  inversion Hall as [|? ? Hp Hrest]; subst.
  destruct props as [|q props'].
  - cbn [render_props]. destruct (ctoks_prop_end src acc pos p Hp) as [toks [vs [Ht Hrun]]].
    exists toks, [(p, vs)]. split; [apply PTs_one; exact Ht|]. split; [reflexivity|exact Hrun].
  - change (render_props (p :: q :: props')) with (prop_text p ++ c_plus :: render_props (q :: props')).
    destruct (ctoks_prop_plus src acc pos p (render_props (q :: props')) Hp) as [toks [vs [plus [pos' [Ht [Hs Hrun]]]]]].
    rewrite Hrun.
    destruct (IH src (plus :: rev toks ++ acc) pos' Hrest ltac:(discriminate)) as [toks' [pvs [Hpt [Hfst Hrun']]]].
    exists (toks ++ plus :: toks'), ((p, vs) :: pvs).
    split; [apply PTs_cons; assumption|]. split; [cbn [map fst]; rewrite Hfst; reflexivity|].
    rewrite Hrun'. f_equal. cbn [rev]. rewrite rev_app_distr, rev_involutive. repeat rewrite <- app_assoc. reflexivity.
Qed.

(* ------------------------------------------------------------------ parser over siblings *)
Definition node_of (pv : propv * list ctoken) : cssprop :=
  mkProp (Some (pv_key (fst pv))) [map tokv (snd pv)] (pv_bang (fst pv)) false.

Definition more_ok (more : list ctoken) : Prop :=
  match more with [] => True | plus :: _ => sib_tok plus end.

Lemma sib_kind plus : sib_tok plus -> ck plus = COperator c_plus.
Proof.
  unfold sib_tok, k_is_sibling, k_is_operator. destruct (ck plus); try discriminate.
  intros H. apply N.eqb_eq in H. subst. reflexivity.
Qed.

Lemma stops_more more : more_ok more -> stops false more.
Proof.
  destruct more as [|plus r]; [intros; exact I|]. cbn [more_ok stops]. intros H. rewrite (sib_kind _ H).
  repeat split; reflexivity.
Qed.

Lemma p_prop_loop_more f imp vals more :
  more_ok more -> 1 <= f -> p_prop_loop f false more imp vals = Ok (imp, rev vals, more).
Proof.
  intros Hm Hf. destruct f as [|f]; [lia|]. cbn [p_prop_loop].
  destruct more as [|plus r]; [reflexivity|]. cbn [more_ok] in Hm. rewrite (sib_kind _ Hm).
  cbn [k_is_important k_is_operator]. change ((c_plus =? c_excl)%N) with false. cbv iota.
  cbn [length p_value]. rewrite (sib_kind _ Hm). cbn. rewrite (sib_kind _ Hm). reflexivity.
Qed.

Lemma p_prop_loop_body_more ts vs bang b more f :
  body_of ts vs -> vs <> [] -> k_is_important (ck b) = true -> more_ok more -> 3 <= f ->
  p_prop_loop f false (ts ++ bang_tail bang b ++ more) false [] = Ok (bang, [map tokv vs], more).
Proof.
  intros Hb Hne Hbang Hm Hf.
  destruct f as [|f]; [lia|]. cbn [p_prop_loop].
  destruct ts as [|t ts'] eqn:Ets; [inversion Hb; subst; contradiction|].
  destruct (body_first_not_bang _ _ _ _ Hb eq_refl) as [Hnb _].
  cbn [app]. rewrite Hnb.
  change (t :: ts' ++ bang_tail bang b ++ more) with ((t :: ts') ++ bang_tail bang b ++ more).
  rewrite (p_value_body _ _ Hb _ false [] (bang_tail bang b ++ more)).
  - cbn [bind rev app]. destruct (map tokv vs) as [|x v'] eqn:Em; [destruct vs; [contradiction|discriminate]|].
    destruct f as [|f]; [lia|]. destruct bang; cbn [bang_tail app].
    + cbn [p_prop_loop]. rewrite Hbang. apply p_prop_loop_more; [exact Hm|lia].
    + apply p_prop_loop_more; [exact Hm|lia].
  - rewrite app_length. cbn [length]. lia.
  - destruct bang; cbn [bang_tail app]; [apply stops_bang; exact Hbang|apply stops_more; exact Hm].
Qed.

Lemma p_property_prop toks p vs more :
  prop_toks toks p vs -> more_ok more ->
  p_property false (toks ++ more) = Ok (Some (node_of (p, vs)), more).
Proof.
  intros Hpt Hm. destruct Hpt as [lit0 ts vs b p Hl Hb Hk Hne Hbang].
  unfold p_property. cbn [app]. rewrite Hl. cbn [negb andb].
  destruct ts as [|t ts'] eqn:Ets; [inversion Hb; subst; contradiction|].
  destruct (body_first_not_bang _ _ _ _ Hb eq_refl) as [Hnb Hnbr].
  assert (Hfs : is_function_start (lit0 :: ((t :: ts') ++ bang_tail (pv_bang p) b) ++ more) = false).
  { cbn [is_function_start app]. rewrite Hnbr. apply andb_false_r. }
  rewrite Hfs. cbn [negb].
  set (W := ((t :: ts') ++ bang_tail (pv_bang p) b) ++ more).
  set (ts1 := match W with
              | d :: ts'' => if k_is_value_delimiter (ck d) then ts'' else W
              | [] => W
              end).
  assert (H1 : exists ts0, ts1 = ts0 ++ bang_tail (pv_bang p) b ++ more /\ body_of ts0 vs).
  { subst ts1 W. cbn [app]. destruct (k_is_value_delimiter (ck t)) eqn:Ed.
    - inversion Hb as [|t0 ts0 vs0 Ht Hb'|d ts0 vs0 Hd Hb']; subst.
      + destruct (ck t); cbn in Ht, Ed; discriminate.
      + exists ts'. split; [rewrite <- app_assoc; reflexivity|exact Hb'].
    - exists (t :: ts'). split; [cbn [app]; rewrite <- app_assoc; reflexivity|exact Hb]. }
  destruct H1 as [ts0 [E1 Hb0]]. rewrite E1.
  rewrite (p_prop_loop_body_more ts0 vs (pv_bang p) b more _ Hb0 Hne Hbang Hm).
  - cbn [bind]. unfold node_of. cbn [fst snd]. reflexivity.
  - rewrite app_length. destruct ts0 as [|x ts0']; [inversion Hb0; subst; contradiction|]. cbn [length]. lia.
Qed.

Lemma prop_toks_len toks p vs : prop_toks toks p vs -> 2 <= length toks.
Proof.
  intros H. destruct H as [lit0 ts vs b p Hl Hb Hk Hne Hbang]. cbn [length]. rewrite app_length.
  destruct ts; [inversion Hb; subst; contradiction|cbn [length]; lia].
Qed.

Lemma p_property_sib plus rest :
  sib_tok plus -> p_property false (plus :: rest) = Ok (None, plus :: rest).
Proof.
  intros Hs. unfold p_property. rewrite (sib_kind _ Hs).
  rewrite (p_prop_loop_more _ false [] (plus :: rest) Hs) by (cbn [length]; lia). reflexivity.
Qed.

Lemma p_loop_cons f vm ts acc :
  ts <> [] ->
  p_loop (S f) vm ts acc =
  (let* (po, rest) := p_property vm ts in
   match po with
   | Some p => p_loop f vm rest (p :: acc)
   | None =>
       match rest with
       | t :: rest' => if k_is_sibling (ck t) then p_loop f vm rest' acc else tok_error rest
       | [] => tok_error rest
       end
   end).
Proof. destruct ts; [contradiction|reflexivity]. Qed.

Lemma p_loop_props : forall toks pvs, props_toks toks pvs ->
  forall f acc, length toks < f -> p_loop f false toks acc = Ok (rev acc ++ map node_of pvs).
Proof.
  induction 1 as [toks p vs Hpt|toks p vs plus rest ps Hpt Hs Hrest IH]; intros f acc Hf.
  - pose proof (prop_toks_len _ _ _ Hpt) as Hlen.
    destruct f as [|f]; [lia|]. rewrite p_loop_cons by (intros E; subst; cbn in Hlen; lia).
    pose proof (p_property_prop toks p vs [] Hpt I) as Hp. rewrite app_nil_r in Hp. rewrite Hp.
    cbn [bind]. destruct f as [|f]; [lia|]. reflexivity.
  - pose proof (prop_toks_len _ _ _ Hpt) as Hlen. rewrite app_length in Hf. cbn [length] in Hf.
    destruct f as [|f]; [lia|]. rewrite p_loop_cons by (destruct toks; discriminate).
    rewrite (p_property_prop toks p vs (plus :: rest) Hpt Hs). cbn [bind].
    destruct f as [|f]; [lia|]. rewrite p_loop_cons by discriminate.
    rewrite (p_property_sib plus rest Hs). cbn [bind]. rewrite Hs.
    rewrite IH by lia. cbn [rev map]. rewrite <- app_assoc. reflexivity.
Qed.

Theorem parser_props toks pvs : props_toks toks pvs -> parser false toks = Ok (map node_of pvs).
Proof. intros H. unfold parser. rewrite (p_loop_props toks pvs H) by lia. reflexivity. Qed.

(* ------------------------------------------------------------------ resolver + formatter, per property *)
(* the property name the abbreviation's name resolves to *)
Definition matched_property (cfg : sconfig) (sn : list snippet) (key : str) : str :=
  match find_best_match sn_key key sn (c_min_score cfg) true with
  | Some (SnProp _ prop _ _ _) => prop
  | _ => []
  end.

(* the name selects a property snippet, entirely (no unmatched tail), and is not the gradient shortcut *)
Definition resolves (cfg : sconfig) (sn : list snippet) (key : str) : Prop :=
  str_eqb key gradient_name = false /\
  exists key' prop value kws deps,
    find_best_match sn_key key sn (c_min_score cfg) true = Some (SnProp key' prop value kws deps) /\
    get_unmatched_part key key' 0 = [].

(* SPEC: the line of one property *)
Definition prop_line (cfg : sconfig) (sn : list snippet) (p : propv) : str :=
  let prop := matched_property cfg sn (pv_key p) in
  push_string cfg (prop ++ c_between cfg) ++
  join [c_space] (map (fun v => value_text_k cfg prop (val_kind v)) (pv_vals p)) ++
  (if pv_bang p then lit " !important" else []) ++ c_after cfg.

Definition resolved_node (cfg : sconfig) (sn : list snippet) (pv : propv * list ctoken) : cssprop :=
  let prop := matched_property cfg sn (pv_key (fst pv)) in
  mkProp (Some prop) [map (resolve_numeric_token cfg (Some prop)) (map tokv (snd pv))] (pv_bang (fst pv)) true.

Lemma body_numcol ts vs : body_of ts vs -> Forall (fun t => is_numcol (ck t) = true) vs.
Proof. induction 1; [constructor|constructor; assumption|assumption]. Qed.

Lemma resolve_node_prop cfg sn toks p vs :
  prop_toks toks p vs -> c_context cfg = None -> resolves cfg sn (pv_key p) ->
  resolve_node cfg sn (node_of (p, vs)) = Ok (resolved_node cfg sn (p, vs)).
Proof.
  intros Hpt Hc [Hg [key' [prop [value [kws [deps [Hm Hu]]]]]]].
  destruct Hpt as [lit0 ts vs b p Hl Hb Hk Hne Hbang].
  unfold node_of, resolved_node, matched_property. cbn [fst snd]. rewrite Hm.
  apply (resolve_node_value_seq cfg sn (pv_key p) key' prop value kws deps vs (pv_bang p)); try assumption.
  apply (body_numcol ts vs Hb).
Qed.

Lemma css_property_resolved cfg sn toks p vs :
  prop_toks toks p vs -> c_json cfg = false ->
  css_property cfg (resolved_node cfg sn (p, vs)) = prop_line cfg sn p.
Proof.
  intros Hpt Hj. destruct Hpt as [lit0 ts vs b p Hl Hb Hk Hne Hbang].
  unfold resolved_node, prop_line. cbn [fst snd]. cbv zeta.
  set (prop := matched_property cfg sn (pv_key p)).
  rewrite (line_shape cfg _ prop) by (try reflexivity; try assumption; discriminate).
  cbn [pvalue pimportant map join].
  pose proof (body_numcol ts vs Hb) as Hall.
  assert (Hf : Forall no_field (map (resolve_numeric_token cfg (Some prop)) (map tokv vs)) /\
               map (output_token cfg) (map (resolve_numeric_token cfg (Some prop)) (map tokv vs)) =
               map (value_text cfg prop) vs).
  { clear -Hall. induction Hall as [|t vs Ht _ [IH1 IH2]]; [split; [constructor|reflexivity]|].
    destruct (output_resolved_token cfg prop t Ht) as [H1 H2]. cbn [map]. split.
    - constructor; assumption.
    - rewrite H1, IH2. reflexivity. }
  destruct Hf as [Hf1 Hf2]. rewrite output_value_spaces by exact Hf1. rewrite Hf2.
  assert (E : map (value_text cfg prop) vs = map (fun v => value_text_k cfg prop (val_kind v)) (pv_vals p)).
  { transitivity (map (value_text_k cfg prop) (map ck vs)).
    - rewrite map_map. apply map_ext. intros t. apply value_text_by_kind.
    - rewrite Hk, map_map. reflexivity. }
  rewrite E. reflexivity.
Qed.

Lemma props_toks_each toks pvs :
  props_toks toks pvs -> Forall (fun pv => exists toks', prop_toks toks' (fst pv) (snd pv)) pvs.
Proof.
  induction 1 as [toks p vs Hpt|toks p vs plus rest ps Hpt Hs Hrest IH].
  - constructor; [exists toks; exact Hpt|constructor].
  - constructor; [exists toks; exact Hpt|exact IH].
Qed.

Lemma map_res_map {A B} (f : A -> res B) (g : A -> B) : forall l,
  Forall (fun x => f x = Ok (g x)) l -> map_res f l = Ok (map g l).
Proof.
  induction 1 as [|x l Hx _ IH]; [reflexivity|]. cbn [map_res map]. rewrite Hx. cbn [bind]. rewrite IH. reflexivity.
Qed.

Lemma filter_all {A} (f : A -> bool) : forall l, Forall (fun x => f x = true) l -> filter f l = l.
Proof. induction 1 as [|x l Hx _ IH]; [reflexivity|]. cbn [filter]. rewrite Hx, IH. reflexivity. Qed.

Lemma map_res_map2 {A B C} (f : B -> res C) (h : A -> B) (g : A -> C) : forall l,
  Forall (fun x => f (h x) = Ok (g x)) l -> map_res f (map h l) = Ok (map g l).
Proof.
  induction 1 as [|x l Hx _ IH]; [reflexivity|]. cbn [map_res map]. rewrite Hx. cbn [bind]. rewrite IH. reflexivity.
Qed.

(* ------------------------------------------------------------------ value_seq_expand, full *)
Theorem value_seq_expand_multi cfg sn props :
  Forall propv_ok props -> props <> [] ->
  Forall (fun p => resolves cfg sn (pv_key p)) props ->
  c_context cfg = None -> c_json cfg = false -> c_format cfg = true ->
  expand_with cfg sn (render_props props) = Ok (join (nl_text cfg) (map (prop_line cfg sn) props)).
Proof.
  intros Hall Hne Hres Hc Hj Hf.
  destruct (ctoks_props props (render_props props) [] 0 Hall Hne) as [toks [pvs [Hpt [Hfst Hrun]]]].
  unfold expand_with, parse_with, is_value_scope. rewrite Hc. unfold css_parse, ctokenize. rewrite Hrun.
  cbn [rev app]. rewrite (parser_props toks pvs Hpt). cbn [bind].
  unfold get_snippets_for_scope. rewrite Hc.
  pose proof (props_toks_each toks pvs Hpt) as Heach.
  assert (Hres' : Forall (fun pv => resolves cfg sn (pv_key (fst pv))) pvs).
  { rewrite <- Hfst in Hres. clear -Hres. induction pvs as [|pv pvs IH]; [constructor|].
    cbn [map] in Hres. inversion Hres; subst. constructor; [assumption|apply IH; assumption]. }
  assert (Hmr : map_res (resolve_node cfg sn) (map node_of pvs) = Ok (map (resolved_node cfg sn) pvs)).
  { apply map_res_map2. apply Forall_forall. intros [p vs] Hin.
    rewrite Forall_forall in Heach, Hres'. destruct (Heach _ Hin) as [toks' Hpt']. cbn [fst snd] in Hpt'.
    apply (resolve_node_prop cfg sn toks' p vs Hpt' Hc). exact (Hres' _ Hin). }
  rewrite Hmr. cbn [bind]. f_equal. unfold stringify.
  assert (Hkeep : (if c_skip_unmatched cfg
                   then filter (fun n => psnippet n || pimportant n) (map (resolved_node cfg sn) pvs)
                   else map (resolved_node cfg sn) pvs) = map (resolved_node cfg sn) pvs).
  { destruct (c_skip_unmatched cfg); [|reflexivity]. apply filter_all. apply Forall_forall.
    intros n Hn. apply in_map_iff in Hn. destruct Hn as [pv [<- _]]. reflexivity. }
  rewrite Hkeep. rewrite (stringify_lines cfg _ Hf). f_equal.
  rewrite map_map. rewrite <- Hfst, map_map. apply map_ext_in. intros [p vs] Hin.
  rewrite Forall_forall in Heach. destruct (Heach _ Hin) as [toks' Hpt']. cbn [fst snd] in *.
  apply (css_property_resolved cfg sn toks' p vs Hpt' Hj).
Qed.
