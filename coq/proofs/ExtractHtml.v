(* The tag heuristic is_html of the extract_abbreviation model (C11):
   (1) it answers False when, walking left, a '>' or the start of the text
       comes before any '<' / backslash / unpaired quote  ([safe]);
   (2) it answers True at the end of every complete HTML tag ([tag_ok]). *)
From Coq Require Import ZArith List Bool Lia ZifyBool.
From Emmet Require Import lib.Base lib.ExtractLib model.Extract proofs.ExtractProofs.
Import ListNotations.
Local Open Scope N_scope.

(* ------------------------------------------------------------------ the loop, unfolded *)
Lemma html_loop_skip : forall lb rl k, html_loop lb k rl = html_loop lb 0 (skipn k rl).
Proof.
  induction rl as [|c r IH]; intros k.
  - destruct k; reflexivity.
  - destruct k as [|k]; [reflexivity|]. cbn [html_loop skipn]. apply IH.
Qed.

Lemma html_loop_eq : forall lb c r,
  html_loop lb 0 (c :: r) =
  match html_body lb (c :: r) with
  | HDone ok => ok
  | HCont m => html_loop lb 0 (skipn (S m) (c :: r))
  end.
Proof.
  intros lb c r. cbn [html_loop]. destruct (html_body lb (c :: r)); [reflexivity|].
  cbn [skipn]. apply html_loop_skip.
Qed.

(* ------------------------------------------------------------------ character facts *)
Ltac kill_char H := intros ->; vm_compute in H; discriminate.

Lemma plain_false : forall c, plain c = false -> c = 34 \/ c = 39 \/ c = 60 \/ c = 92.
Proof.
  intros c H. unfold plain, is_quote, c_dquote, c_squote, c_lt, c_bslash in H.
  destruct (N.eqb_spec c 34); [auto|]. destruct (N.eqb_spec c 39); [auto|].
  destruct (N.eqb_spec c 60); [auto|]. destruct (N.eqb_spec c 92); [auto|]. discriminate.
Qed.

Lemma plain_by : forall (p : char -> bool) c,
  p 34 = false -> p 39 = false -> p 60 = false -> p 92 = false -> p c = true -> plain c = true.
Proof.
  intros p c H1 H2 H3 H4 H. destruct (plain c) eqn:P; [reflexivity|].
  destruct (plain_false _ P) as [E|[E|[E|E]]]; subst c; congruence.
Qed.

Lemma h_ws_plain : forall c, h_ws c = true -> plain c = true /\ c <> c_gt.
Proof.
  intros c H. split; [apply (plain_by h_ws); auto|kill_char H].
Qed.
Lemma h_ident_plain : forall c, h_ident c = true -> plain c = true /\ c <> c_gt.
Proof.
  intros c H. split; [apply (plain_by h_ident); auto; vm_compute; reflexivity|kill_char H].
Qed.
Lemma quote_not_plain : forall c, is_quote c = true -> plain c = false.
Proof. intros c H. unfold plain. rewrite H. reflexivity. Qed.

(* ------------------------------------------------------------------ safe: inversion and preservation *)
Lemma safe_inv : forall c r, safe (c :: r) ->
  c = c_gt \/ (plain c = true /\ safe r) \/
  (is_quote c = true /\ exists mid r', r = mid ++ c :: r' /\ ~ In c mid /\ safe r').
Proof.
  intros c r H. inversion H; subst.
  - left; reflexivity.
  - right; left; split; assumption.
  - right; right. split; [assumption|]. exists mid, r0. repeat split; assumption.
Qed.

Lemma safe_plain_tail : forall c r, safe (c :: r) -> plain c = true -> c <> c_gt -> safe r.
Proof.
  intros c r H P G. destruct (safe_inv _ _ H) as [E|[[_ HS]|[Q _]]]; [contradiction|exact HS|].
  rewrite (quote_not_plain _ Q) in P. discriminate.
Qed.

Lemma safe_head : forall c r, safe (c :: r) -> c <> c_lt /\ c <> c_bslash.
Proof.
  intros c r H. destruct (safe_inv _ _ H) as [E|[[P _]|[Q _]]].
  - subst c. split; discriminate.
  - split; intros ->; vm_compute in P; discriminate.
  - split; intros ->; vm_compute in Q; discriminate.
Qed.

Lemma safe_span : forall p, (forall c, p c = true -> plain c = true /\ c <> c_gt) ->
  forall rl, safe rl -> safe (skipn (span p rl) rl).
Proof.
  intros p Hp. induction rl as [|c r IH]; intros HS; [exact HS|].
  cbn [span]. destruct (p c) eqn:E; [|exact HS].
  destruct (Hp _ E) as [P G]. cbn [skipn]. apply IH. exact (safe_plain_tail _ _ HS P G).
Qed.

Lemma bracket_plain : forall c, h_close_bracket c = true \/ h_open_bracket c = true -> plain c = true /\ c <> c_gt.
Proof.
  intros c [H|H]; (split; [|kill_char H]).
  - apply (plain_by h_close_bracket); auto.
  - apply (plain_by h_open_bracket); auto.
Qed.

Lemma unquoted_tail : forall c r, safe (c :: r) -> h_unquoted c = true -> safe r.
Proof.
  intros c r HS U. destruct (safe_inv _ _ HS) as [E|[[_ S']|[Q _]]].
  - subst c. vm_compute in U. discriminate.
  - exact S'.
  - unfold h_unquoted in U. rewrite Q in U. rewrite andb_false_r in U. discriminate.
Qed.

Lemma unq_scan_safe : forall rl st, safe rl -> safe (skipn (unq_scan rl st) rl).
Proof.
  induction rl as [|c r IH]; intros st HS; [exact HS|]. cbn [unq_scan].
  destruct (h_close_bracket c) eqn:CB.
  { destruct (bracket_plain c (or_introl CB)) as [P G]. cbn [skipn]. apply IH. exact (safe_plain_tail _ _ HS P G). }
  destruct (h_open_bracket c) eqn:OB.
  { destruct (bracket_plain c (or_intror OB)) as [P G].
    destruct st as [|t st]; [exact HS|]. destruct (t =? brace_pair c); [|exact HS].
    cbn [skipn]. apply IH. exact (safe_plain_tail _ _ HS P G). }
  destruct (h_unquoted c) eqn:U; [|exact HS].
  cbn [skipn]. apply IH. exact (unquoted_tail _ _ HS U).
Qed.

Lemma eq_ident_safe : forall rl e, eq_ident rl = Some e -> safe rl -> safe (skipn e rl).
Proof.
  intros rl e H HS. unfold eq_ident in H. destruct rl as [|c r]; [discriminate|].
  destruct (c =? c_eq) eqn:E; [|discriminate]. apply N.eqb_eq in E. subst c.
  destruct (span h_ident r) as [|k] eqn:SP; [discriminate|]. inversion H; subst e.
  assert (S' : safe r). { apply (safe_plain_tail _ _ HS); [reflexivity|discriminate]. }
  change (skipn (S (S k)) (c_eq :: r)) with (skipn (S k) r).
  rewrite <- SP. apply safe_span; [exact h_ident_plain|exact S'].
Qed.

Lemma attr_unquoted_safe : forall rl m, attr_unquoted rl = Some m -> safe rl -> safe (skipn (S m) rl).
Proof.
  intros rl m H HS. unfold attr_unquoted in H.
  destruct (unq_scan rl []) as [|n'] eqn:U; [discriminate|].
  destruct (eq_ident (skipn (S n') rl)) as [e|] eqn:E; [|discriminate]. inversion H; subst m.
  assert (X : forall l : str, skipn (S (n' + e)) l = skipn e (skipn (S n') l)).
  { intros l. rewrite skipn_skipn'. f_equal. }
  rewrite X.
  apply (eq_ident_safe _ _ E). rewrite <- U. apply unq_scan_safe. exact HS.
Qed.

Lemma find_quote_exact : forall q mid r,
  ~ In q mid -> match r with x :: _ => x <> c_bslash | [] => True end ->
  find_quote false q (mid ++ q :: r) = Some (S (length mid)).
Proof.
  induction mid as [|x mid IH]; intros r NI HB.
  - cbn [app find_quote length]. rewrite N.eqb_refl.
    destruct r as [|y r]; [reflexivity|]. apply N.eqb_neq in HB. rewrite HB. reflexivity.
  - cbn [app find_quote length].
    assert (x <> q) by (intros ->; apply NI; left; reflexivity).
    apply N.eqb_neq in H. rewrite H. cbn [andb].
    rewrite IH; [reflexivity| |exact HB]. intros I; apply NI; right; exact I.
Qed.

Lemma attr_quoted_safe : forall rl m, attr_quoted false rl = Some m -> safe rl -> safe (skipn (S m) rl).
Proof.
  intros rl m H HS. unfold attr_quoted, consume_quoted in H.
  destruct rl as [|q r0]; [discriminate|].
  destruct (is_quote q) eqn:Q; [|discriminate].
  destruct (safe_inv _ _ HS) as [E|[[P _]|[_ [mid [r' [E [NI S']]]]]]].
  - subst q. vm_compute in Q. discriminate.
  - rewrite (quote_not_plain _ Q) in P. discriminate.
  - subst r0. rewrite find_quote_exact in H; [|exact NI|].
    + destruct (eq_ident (skipn (S (S (length mid))) (q :: mid ++ q :: r'))) as [e|] eqn:EI; [|discriminate].
      inversion H; subst m.
      assert (X : forall l : str, skipn (S (S (length mid) + e)) l = skipn e (skipn (S (S (length mid))) l)).
      { intros l. rewrite skipn_skipn'. f_equal. }
      rewrite X.
      apply (eq_ident_safe _ _ EI).
      change (skipn (S (S (length mid))) (q :: mid ++ q :: r')) with (skipn (S (length mid)) (mid ++ q :: r')).
      replace (S (length mid)) with (length mid + 1)%nat by lia.
      rewrite <- skipn_skipn', skipn_app, skipn_all, Nat.sub_diag. cbn [app skipn]. exact S'.
    + destruct r' as [|y r']; [exact I|]. exact (proj2 (safe_head _ _ S')).
Qed.

Lemma skipn_skipn_S : forall {A} (l : list A) a b, skipn (S b) (skipn a l) = skipn (S (a + b)) l.
Proof. intros. rewrite skipn_skipn'. f_equal. lia. Qed.

(* one round of the loop on a safe text: either `break` with ok = False, or
   `continue` on a text that is safe again *)
Lemma html_body_safe : forall rl, safe rl ->
  match html_body false rl with
  | HDone ok => ok = false
  | HCont m => safe (skipn (S m) rl)
  end.
Proof.
  intros rl HS. unfold html_body.
  set (w := span h_ws rl).
  assert (S1 : safe (skipn w rl)) by (apply safe_span; [exact h_ws_plain|exact HS]).
  destruct (span h_ident (skipn w rl)) as [|k] eqn:SI.
  - (* no identifier: attribute *)
    unfold attribute. destruct (attr_quoted false (skipn w rl)) as [m|] eqn:AQ.
    + replace (S (w + m)) with (w + S m)%nat by lia. rewrite <- skipn_skipn'.
      exact (attr_quoted_safe _ _ AQ S1).
    + destruct (attr_unquoted (skipn w rl)) as [m|] eqn:AU; [|reflexivity].
      replace (S (w + m)) with (w + S m)%nat by lia. rewrite <- skipn_skipn'.
      exact (attr_unquoted_safe _ _ AU S1).
  - assert (S2 : safe (skipn (S k) (skipn w rl))).
    { rewrite <- SI. apply safe_span; [exact h_ident_plain|exact S1]. }
    destruct (skipn (S k) (skipn w rl)) as [|c r3] eqn:R2; [reflexivity|].
    assert (R3 : forall j, skipn j r3 = skipn (S (w + S k + j)) rl).
    { intros j. replace (S (w + S k + j)) with (w + (S k + S j))%nat by lia.
      rewrite <- !skipn_skipn', R2. reflexivity. }
    destruct (c =? c_slash) eqn:E1.
    { apply N.eqb_eq in E1. subst c.
      assert (S3 : safe r3) by (apply (safe_plain_tail _ _ S2); [reflexivity|discriminate]).
      destruct r3 as [|d r4]; [reflexivity|]. apply N.eqb_neq. exact (proj1 (safe_head _ _ S3)). }
    destruct (c =? c_lt) eqn:E2.
    { apply N.eqb_eq in E2. destruct (safe_head _ _ S2) as [H _]. contradiction. }
    destruct (h_ws c) eqn:E3.
    { destruct (h_ws_plain _ E3) as [P G]. rewrite <- (Nat.add_0_r (w + S k)), <- R3. cbn [skipn].
      exact (safe_plain_tail _ _ S2 P G). }
    destruct (c =? c_eq) eqn:E4.
    { apply N.eqb_eq in E4. subst c.
      assert (S3 : safe r3) by (apply (safe_plain_tail _ _ S2); [reflexivity|discriminate]).
      destruct (span h_ident r3) as [|j] eqn:SJ; [reflexivity|].
      rewrite <- R3, <- SJ. apply safe_span; [exact h_ident_plain|exact S3]. }
    destruct (attr_unquoted (c :: r3)) as [m|] eqn:AU; [|reflexivity].
    replace (S (w + S k + m)) with (w + (S k + S m))%nat by lia.
    rewrite <- !skipn_skipn', R2. exact (attr_unquoted_safe _ _ AU S2).
Qed.

Lemma html_loop_safe : forall n rl, (length rl <= n)%nat -> safe rl -> html_loop false 0 rl = false.
Proof.
  induction n as [|n IH]; intros rl L HS.
  - destruct rl; [reflexivity|cbn in L; lia].
  - destruct rl as [|c r]; [reflexivity|]. rewrite html_loop_eq.
    pose proof (html_body_safe _ HS) as B.
    destruct (html_body false (c :: r)) as [ok|m]; [exact B|].
    apply IH; [|exact B]. rewrite skipn_length. cbn [length] in *. lia.
Qed.

(* (1) no HTML tag ends here *)
Theorem is_html_safe : forall c r, safe r -> is_html false (c :: r) = false.
Proof.
  intros c r HS. unfold is_html. destruct (c =? c_gt); [|reflexivity].
  apply (html_loop_safe (length r)).
  - destruct r as [|d r2]; [lia|]. destruct (d =? c_slash); cbn [length]; lia.
  - destruct r as [|d r2]; [exact HS|]. destruct (d =? c_slash) eqn:E; [|exact HS].
    apply N.eqb_eq in E. subst d. apply (safe_plain_tail _ _ HS); [reflexivity|discriminate].
Qed.

(* ================================================================== *)
(* (2) a complete HTML tag is recognised                                *)
(* ================================================================== *)
Lemma span_app_exact : forall p a b,
  all p a -> match b with x :: _ => p x = false | [] => True end -> span p (a ++ b) = length a.
Proof.
  induction a as [|x a IH]; intros b Ha Hb.
  - cbn [app length]. destruct b as [|y b]; [reflexivity|]. cbn [span]. rewrite Hb. reflexivity.
  - cbn [app span length]. rewrite (Ha x (or_introl eq_refl)). f_equal. apply IH; [|exact Hb].
    intros c I. apply Ha. right. exact I.
Qed.

Lemma skipn_exact : forall {A} (a b : list A), skipn (length a) (a ++ b) = b.
Proof. intros. rewrite skipn_app, skipn_all, Nat.sub_diag. reflexivity. Qed.

Lemma all_rev : forall p s, all p s -> all p (rev s).
Proof. intros p s H c I. apply H. apply in_rev. exact I. Qed.

Lemma all_app : forall p a b, all p a -> all p b -> all p (a ++ b).
Proof. intros p a b Ha Hb c I. apply in_app_or in I. destruct I; [apply Ha|apply Hb]; assumption. Qed.

Lemma all_tl : forall p x s, all p (x :: s) -> all p s.
Proof. intros p x s H c I. apply H. right. exact I. Qed.

Lemma ident_not_ws : forall c, h_ident c = true -> h_ws c = false.
Proof.
  intros c H. destruct (h_ws c) eqn:W; [|reflexivity]. unfold h_ws in W.
  apply orb_true_iff in W. destruct W as [W|W]; apply N.eqb_eq in W; subst c; vm_compute in H; discriminate.
Qed.
Lemma ws_not_ident : forall c, h_ws c = true -> h_ident c = false.
Proof. intros c H. destruct (h_ident c) eqn:I; [|reflexivity]. rewrite (ident_not_ws _ I) in H. discriminate. Qed.
Lemma quote_not_ident : forall c, is_quote c = true -> h_ident c = false /\ h_ws c = false.
Proof.
  intros c H. unfold is_quote in H. apply orb_true_iff in H.
  destruct H as [H|H]; apply N.eqb_eq in H; subst c; split; vm_compute; reflexivity.
Qed.

(* head of a non-empty text all of whose characters satisfy p *)
Lemma head_all : forall p (s b : str), s <> [] -> all p s ->
  match s ++ b with x :: _ => p x = true | [] => False end.
Proof. intros p s b N H. destruct s as [|x s]; [contradiction|]. cbn. apply H. left. reflexivity. Qed.

(* one round of the loop when an identifier follows the white space *)
Lemma body_ident : forall w idn c r3,
  all h_ws w -> idn <> [] -> all h_ident idn -> h_ident c = false ->
  html_body false (w ++ idn ++ c :: r3) =
  if c =? c_slash then HDone (match r3 with d :: _ => d =? c_lt | [] => false end)
  else if c =? c_lt then HDone true
  else if h_ws c then HCont (length w + length idn)
  else if c =? c_eq then
    match span h_ident r3 with
    | S j => HCont (length w + length idn + S j)
    | O => HDone false
    end
  else match attr_unquoted (c :: r3) with
       | Some m => HCont (length w + length idn + m)
       | None => HDone false
       end.
Proof.
  intros w idn c r3 Hw Hn Hi Hc. unfold html_body.
  assert (SW : span h_ws (w ++ idn ++ c :: r3) = length w).
  { apply span_app_exact; [exact Hw|]. pose proof (head_all h_ident idn (c :: r3) Hn Hi) as Hh.
    destruct (idn ++ c :: r3) as [|x t]; [exact I|]. apply ident_not_ws. exact Hh. }
  rewrite SW, skipn_exact.
  assert (SI : span h_ident (idn ++ c :: r3) = length idn).
  { apply span_app_exact; [exact Hi|exact Hc]. }
  rewrite SI. destruct idn as [|x idn]; [contradiction|]. cbn [length].
  change (S (length idn)) with (length (x :: idn)). rewrite skipn_exact. reflexivity.
Qed.

Lemma skipn_app2 : forall (a b : str) c l, skipn (S (length a + length b)) (a ++ b ++ c :: l) = l.
Proof.
  intros a b c l. replace (S (length a + length b)) with (length a + (length b + 1))%nat by lia.
  rewrite <- !skipn_skipn', !skipn_exact. reflexivity.
Qed.

Lemma html_loop_eq' : forall l, l <> [] ->
  html_loop false 0 l =
  match html_body false l with
  | HDone ok => ok
  | HCont m => html_loop false 0 (skipn (S m) l)
  end.
Proof. intros [|c r] N; [contradiction|apply html_loop_eq]. Qed.

Lemma app_ne_r : forall a b : str, b <> [] -> a ++ b <> [].
Proof. intros a b N E. apply app_eq_nil in E. destruct E; contradiction. Qed.
Lemma app_ne_l : forall a b : str, a <> [] -> a ++ b <> [].
Proof. intros a b N E. apply app_eq_nil in E. destruct E; contradiction. Qed.

Lemma skipn_quoted_attr : forall (w v nm : str) (q e : char) T,
  skipn (S (length w + (S (length v) + S (length nm)))) (w ++ q :: v ++ q :: e :: nm ++ T) = T.
Proof.
  intros. replace (S (length w + (S (length v) + S (length nm))))
    with (length w + (1 + (length v + (1 + (1 + length nm)))))%nat by lia.
  rewrite <- !skipn_skipn', skipn_exact. cbn [skipn]. rewrite skipn_exact. cbn [skipn]. apply skipn_exact.
Qed.

Section TagLoop.
Variable name rest : str.
Hypothesis Hname : name_ok name.

Let tailtxt := rev name ++ c_lt :: rest.

Lemma name_rev_ok : rev name <> [] /\ all h_ident (rev name).
Proof.
  destruct Hname as [N A]. split; [|apply all_rev; exact A].
  intros E. apply N. rewrite <- (rev_involutive name), E. reflexivity.
Qed.

Lemma loop_name : forall w, all h_ws w -> html_loop false 0 (w ++ tailtxt) = true.
Proof.
  intros w Hw. destruct name_rev_ok as [N A]. unfold tailtxt.
  rewrite html_loop_eq' by (apply app_ne_r, app_ne_l; exact N).
  rewrite body_ident; [reflexivity|exact Hw|exact N|exact A|reflexivity].
Qed.

(* the attributes, rendered and reversed *)
Definition rattrs (attrs : list tattr) : str := rev (concat (map render_attr attrs)).

Lemma rattrs_snoc : forall attrs a,
  rattrs (attrs ++ [a]) = rev (render_value (ta_val a)) ++ rev (ta_name a) ++ rev (ta_ws a) ++ rattrs attrs.
Proof.
  intros attrs a. unfold rattrs, render_attr. rewrite map_app, concat_app. cbn [map concat].
  rewrite app_nil_r, !rev_app_distr, <- !app_assoc. reflexivity.
Qed.

Lemma rev_ok : forall s : str, s <> [] -> rev s <> [].
Proof. intros s N E. apply N. rewrite <- (rev_involutive s), E. reflexivity. Qed.

Lemma loop_attrs : forall attrs, Forall attr_ok attrs ->
  forall w, all h_ws w -> html_loop false 0 (w ++ rattrs attrs ++ tailtxt) = true.
Proof.
  induction attrs as [|a attrs IH] using rev_ind; intros HA w Hw.
  - unfold rattrs. cbn [map concat rev app]. apply loop_name. exact Hw.
  - apply Forall_app in HA. destruct HA as [HA Ha]. inversion Ha as [|? ? [[WN WA] [[NN NA] VO]] _]; subst.
    specialize (IH HA). rewrite rattrs_snoc, <- !app_assoc.
    set (T := rattrs attrs ++ tailtxt) in *.
    assert (RW : rev (ta_ws a) <> [] /\ all h_ws (rev (ta_ws a))) by (split; [apply rev_ok; exact WN|apply all_rev; exact WA]).
    assert (RN : rev (ta_name a) <> [] /\ all h_ident (rev (ta_name a))) by (split; [apply rev_ok; exact NN|apply all_rev; exact NA]).
    destruct RW as [RW1 RW2]. destruct RN as [RN1 RN2].
    destruct (rev (ta_ws a)) as [|w0 wr] eqn:EW; [contradiction|].
    assert (W0 : h_ws w0 = true) by (apply RW2; left; reflexivity).
    assert (Hwr : all h_ws wr) by exact (all_tl _ _ _ RW2).
    change ((w0 :: wr) ++ T) with (w0 :: wr ++ T).
    assert (SPN : span h_ident (rev (ta_name a) ++ w0 :: wr ++ T) = length (rev (ta_name a))).
    { apply span_app_exact; [exact RN2|]. apply ws_not_ident. exact W0. }
    destruct (ta_val a) as [|v|q v] eqn:EV.
    + (* boolean attribute *)
      change (rev (render_value VNone) ++ rev (ta_name a) ++ w0 :: wr ++ T) with (rev (ta_name a) ++ w0 :: wr ++ T).
      rewrite html_loop_eq' by (apply app_ne_r, app_ne_l; exact RN1).
      rewrite body_ident; [|exact Hw|exact RN1|exact RN2|apply ws_not_ident; exact W0].
      assert (E1 : w0 =? c_slash = false) by (apply N.eqb_neq; intros ->; vm_compute in W0; discriminate).
      assert (E2 : w0 =? c_lt = false) by (apply N.eqb_neq; intros ->; vm_compute in W0; discriminate).
      rewrite E1, E2, W0, skipn_app2. apply IH. exact Hwr.
    + (* name=value *)
      destruct VO as [VN VA].
      assert (RV : rev v <> [] /\ all h_ident (rev v)) by (split; [apply rev_ok; exact VN|apply all_rev; exact VA]).
      destruct RV as [RV1 RV2].
      replace (rev (render_value (VUnq v)) ++ rev (ta_name a) ++ w0 :: wr ++ T)
        with (rev v ++ c_eq :: rev (ta_name a) ++ w0 :: wr ++ T)
        by (cbn [render_value rev]; rewrite <- app_assoc; reflexivity).
      rewrite html_loop_eq' by (apply app_ne_r, app_ne_l; exact RV1).
      rewrite body_ident; [|exact Hw|exact RV1|exact RV2|reflexivity].
      change (c_eq =? c_slash) with false. change (c_eq =? c_lt) with false.
      change (h_ws c_eq) with false. change (c_eq =? c_eq) with true. cbv iota.
      rewrite SPN. destruct (rev (ta_name a)) as [|n0 nr] eqn:EN; [contradiction|]. cbn [length].
      replace (S (length w + length (rev v) + S (length nr))) with (S (length w + length (rev v)) + length (n0 :: nr))%nat
        by (cbn [length]; lia).
      rewrite <- skipn_skipn', skipn_app2, skipn_exact. apply (IH (w0 :: wr)). exact RW2.
    + (* name="value" *)
      destruct VO as [VQ VN]. destruct (quote_not_ident _ VQ) as [QI QW].
      set (X := rev v ++ q :: c_eq :: rev (ta_name a) ++ w0 :: wr ++ T).
      replace (rev (render_value (VQuo q v)) ++ rev (ta_name a) ++ w0 :: wr ++ T) with (q :: X)
        by (unfold X; cbn [render_value rev]; rewrite rev_app_distr; cbn [rev app]; rewrite <- !app_assoc; reflexivity).
      assert (BODY : html_body false (w ++ q :: X) = HCont (length w + (S (length (rev v)) + S (length (rev (ta_name a)))))).
      { unfold html_body.
        assert (SW : span h_ws (w ++ q :: X) = length w) by (apply span_app_exact; [exact Hw|exact QW]).
        rewrite SW, skipn_exact. cbn [span]. rewrite QI.
        unfold attribute, attr_quoted, consume_quoted. rewrite VQ. unfold X.
        rewrite find_quote_exact; [| intros I; apply VN; apply in_rev; exact I | discriminate].
        change (skipn (S (S (length (rev v)))) (q :: rev v ++ q :: c_eq :: rev (ta_name a) ++ w0 :: wr ++ T))
          with (skipn (S (length (rev v))) (rev v ++ q :: c_eq :: rev (ta_name a) ++ w0 :: wr ++ T)).
        assert (X1 : forall l : str, skipn (S (length (rev v))) l = skipn 1 (skipn (length (rev v)) l)).
        { intros l. rewrite skipn_skipn'. f_equal. rewrite Nat.add_1_r. reflexivity. }
        rewrite X1, skipn_exact. cbn [skipn eq_ident]. change (c_eq =? c_eq) with true. cbv iota.
        rewrite SPN. destruct (rev (ta_name a)) as [|n0 nr]; [contradiction|].
        cbn [length]. reflexivity. }
      rewrite html_loop_eq' by (apply app_ne_r; discriminate).
      rewrite BODY.
      unfold X. rewrite skipn_quoted_attr. apply (IH (w0 :: wr)). exact RW2.
Qed.
End TagLoop.

(* (2) *)
Theorem is_html_tag : forall L t, tag_ok t -> is_html false (rev (L ++ render_tag t)) = true.
Proof.
  intros L t OK. rewrite rev_app_distr. destruct t as [name attrs ws sc|name ws]; cbn [tag_ok render_tag] in *.
  - destruct OK as [HN [HA HW]].
    assert (E : rev (c_lt :: name ++ concat (map render_attr attrs) ++ ws ++ (if sc then [c_slash] else []) ++ [c_gt]) ++ rev L
                = c_gt :: (if sc then [c_slash] else []) ++ rev ws ++ rattrs attrs ++ rev name ++ c_lt :: rev L).
    { cbn [rev]. rewrite !rev_app_distr. cbn [rev app]. unfold rattrs.
      destruct sc; cbn [rev app]; rewrite <- !app_assoc; reflexivity. }
    rewrite E. unfold is_html. change (c_gt =? c_gt) with true. cbv iota.
    assert (K : html_loop false 0 (rev ws ++ rattrs attrs ++ rev name ++ c_lt :: rev L) = true).
    { apply loop_attrs; [exact HN|exact HA|apply all_rev; exact HW]. }
    destruct sc; cbn [app].
    + change (c_slash =? c_slash) with true. cbv iota. exact K.
    + (* the character after '>' is not '/' *)
      destruct (rev ws ++ rattrs attrs ++ rev name ++ c_lt :: rev L) as [|d r2] eqn:ED; [exact K|].
      assert (D : d =? c_slash = false).
      { apply N.eqb_neq. intros ->.
        (* d is a white-space, identifier or quote character *)
        assert (HD : h_ws c_slash = true \/ h_ident c_slash = true \/ is_quote c_slash = true).
        { destruct (rev ws) as [|x ws'] eqn:EW.
          - cbn [app] in ED. destruct attrs as [|a attrs'] using rev_ind.
            + unfold rattrs in ED. cbn [map concat rev app] in ED.
              destruct (name_rev_ok name HN) as [N A]. destruct (rev name) as [|y nr]; [contradiction|].
              inversion ED; subst. right; left. apply A. left. reflexivity.
            + rewrite rattrs_snoc in ED. apply Forall_app in HA. destruct HA as [_ Ha].
              inversion Ha as [|? ? [[WN WA] [[NN NA] VO]] _]; subst.
              destruct (ta_val a) as [|v|q v]; cbn [render_value rev app] in ED.
              * destruct (rev (ta_name a)) as [|y nr] eqn:EN; [exact (False_ind _ (rev_ok _ NN EN))|].
                inversion ED; subst. right; left. apply (all_rev _ _ NA). rewrite EN. left. reflexivity.
              * destruct VO as [VN VA]. destruct (rev v) as [|y vr] eqn:EN; [exact (False_ind _ (rev_ok _ VN EN))|].
                cbn [app] in ED. inversion ED; subst. right; left. apply (all_rev _ _ VA). rewrite EN. left. reflexivity.
              * destruct VO as [VQ _]. rewrite rev_app_distr in ED. cbn [rev app] in ED.
                inversion ED; subst. right; right. exact VQ.
          - cbn [app] in ED. inversion ED; subst. left. apply (all_rev _ _ HW). rewrite EW. left. reflexivity. }
        destruct HD as [HD|[HD|HD]]; vm_compute in HD; discriminate. }
      rewrite D. exact K.
  - destruct OK as [HN HW].
    assert (E : rev (c_lt :: c_slash :: name ++ ws ++ [c_gt]) ++ rev L
                = c_gt :: rev ws ++ rev name ++ c_slash :: c_lt :: rev L).
    { cbn [rev]. rewrite !rev_app_distr. cbn [rev app]. rewrite <- !app_assoc. reflexivity. }
    rewrite E. unfold is_html. change (c_gt =? c_gt) with true. cbv iota.
    destruct (name_rev_ok name HN) as [N A].
    assert (K : html_loop false 0 (rev ws ++ rev name ++ c_slash :: c_lt :: rev L) = true).
    { destruct (rev ws ++ rev name ++ c_slash :: c_lt :: rev L) as [|c r] eqn:EC.
      { destruct (rev ws); [destruct (rev name); [contradiction|discriminate]|discriminate]. }
      rewrite html_loop_eq, <- EC, body_ident; [reflexivity|apply all_rev; exact HW|exact N|exact A|reflexivity]. }
    destruct (rev ws ++ rev name ++ c_slash :: c_lt :: rev L) as [|d r2] eqn:ED; [exact K|].
    assert (D : d =? c_slash = false).
    { apply N.eqb_neq. intros ->.
      assert (HD : h_ws c_slash = true \/ h_ident c_slash = true).
      { destruct (rev ws) as [|x ws'] eqn:EW.
        - cbn [app] in ED. destruct (rev name) as [|y nr]; [contradiction|].
          inversion ED; subst. right. apply A. left. reflexivity.
        - cbn [app] in ED. inversion ED; subst. left. apply (all_rev _ _ HW). rewrite EW. left. reflexivity. }
      destruct HD as [HD|HD]; vm_compute in HD; discriminate. }
    rewrite D. exact K.
Qed.
