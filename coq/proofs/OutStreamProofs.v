(* C13: positions reported to the output.text / output.field callbacks are exact.
   Invariants of the output stream, for every sequence of stream operations.

   Part A (any option strings): offset = length of everything written before; line and column
   are relative to the line ends the stream itself accounts for (its own newline pushes and the
   line feeds inside field texts).
   Part B (newline option = some LF-free prefix followed by LF, e.g. "\n" or "\r\n"; indent and
   baseIndent LF-free; plain text pushes LF-free): line = number of line feeds in the text
   written before, column = number of characters after the last of them, i.e. line and column
   as read off the final string. *)
From Emmet Require Import lib.Base model.MarkupConvert model.OutStream.
Local Open Scope nat_scope.

Definition ev_off (e : oevent) : nat := match e with EvText _ _ o _ _ => o | EvField _ _ o _ _ => o end.
Definition ev_line (e : oevent) : nat := match e with EvText _ _ _ l _ => l | EvField _ _ _ l _ => l end.
Definition ev_col (e : oevent) : nat := match e with EvText _ _ _ _ c => c | EvField _ _ _ _ c => c end.
Definition is_nl (e : oevent) : bool := match e with EvText true _ _ _ _ => true | _ => false end.

(* ---------------------------------------------------------------- line feeds *)
Lemma lf_count_app a b : lf_count (a ++ b) = lf_count a + lf_count b.
Proof. induction a as [|c a IH]; cbn [lf_count app]; [reflexivity|]. rewrite IH. lia. Qed.

Lemma col_after_app c a b : col_after c (a ++ b) = col_after (col_after c a) b.
Proof.
  revert c. induction a as [|x a IH]; intros c; cbn [col_after app]; [reflexivity|].
  destruct (x =? c_nl)%N; apply IH.
Qed.

Lemma col_after_nolf c s : lf_count s = 0 -> col_after c s = c + length s.
Proof.
  revert c. induction s as [|x s IH]; intros c H; cbn [col_after length lf_count] in *; [lia|].
  destruct (x =? c_nl)%N; [discriminate|]. rewrite IH by lia. lia.
Qed.

Lemma col_after_lf c s : 0 < lf_count s -> col_after c s = col_after 0 s.
Proof.
  revert c. induction s as [|x s IH]; intros c H; cbn [col_after lf_count] in *; [lia|].
  destruct (x =? c_nl)%N; [reflexivity|].
  rewrite (IH (S c)) by lia. rewrite (IH 1) by lia. reflexivity.
Qed.

Lemma col_after_le s : col_after 0 s <= length s.
Proof.
  assert (G : forall c, col_after c s <= c + length s).
  { induction s as [|x s IH]; intros c; cbn [col_after length]; [lia|].
    destruct (x =? c_nl)%N; [specialize (IH 0)|specialize (IH (S c))]; lia. }
  apply (G 0).
Qed.

Lemma lf_count_repeat s n : lf_count s = 0 -> lf_count (repeat_str s n) = 0.
Proof. intros H. induction n as [|n IH]; cbn [repeat_str lf_count]; [reflexivity|]. rewrite lf_count_app. lia. Qed.

Lemma lf_count_rev s : lf_count (rev s) = lf_count s.
Proof. induction s as [|c s IH]; [reflexivity|]. cbn [rev lf_count]. rewrite lf_count_app, IH. cbn [lf_count]. lia. Qed.

(* splitting at CR / LF / CRLF never leaves a line feed inside a line *)
Lemma split_crlf_aux_nolf : forall n s cur, length s <= n ->
  lf_count cur = 0 -> Forall (fun l => lf_count l = 0) (split_crlf_aux s cur).
Proof.
  induction n as [|n IH]; intros s cur Hn Hc; destruct s as [|c s']; cbn [split_crlf_aux length] in *; try lia.
  - destruct cur; constructor; [|constructor]. rewrite lf_count_rev. exact Hc.
  - destruct cur; constructor; [|constructor]. rewrite lf_count_rev. exact Hc.
  - destruct (((c =? c_cr) || (c =? c_nl))%N) eqn:Hb.
    + destruct s' as [|c2 s''].
      * constructor; [rewrite lf_count_rev; exact Hc|constructor].
      * destruct ((c =? c_cr)%N && (c2 =? c_nl)%N).
        -- constructor; [rewrite lf_count_rev; exact Hc|]. apply IH; [|reflexivity].
           cbn [length] in *. lia.
        -- constructor; [rewrite lf_count_rev; exact Hc|]. apply IH; [|reflexivity].
           cbn [length] in *. lia.
    + apply IH; [lia|].
      cbn [lf_count]. destruct (c =? c_nl)%N eqn:E; [|lia].
      rewrite orb_true_r in Hb. discriminate.
Qed.

Lemma split_crlf_nolf s : Forall (fun l => lf_count l = 0) (split_crlf s).
Proof. apply (split_crlf_aux_nolf (length s)); [lia|reflexivity]. Qed.

(* ---------------------------------------------------------------- Part A: any option strings *)
(* over the event list as stored: most recent first *)
Fixpoint total_len (l : list oevent) : nat :=
  match l with [] => 0 | e :: older => total_len older + length (ev_text e) end.
(* line ends an event accounts for: 1 for a newline push, the line feeds of a field text *)
Definition ev_brk (e : oevent) : nat :=
  match e with
  | EvText true _ _ _ _ => 1
  | EvText false _ _ _ _ => 0
  | EvField _ ph _ _ _ => lf_count ph
  end.
Fixpoint count_nl (l : list oevent) : nat :=
  match l with [] => 0 | e :: older => count_nl older + ev_brk e end.
(* offset at which the current line starts: just after the newline string of the last
   newline push (the baseIndent that follows it belongs to the line, as the code counts it),
   or just after the last line feed of a field text *)
Fixpoint line_start (f : ofmt) (l : list oevent) : nat :=
  match l with
  | [] => 0
  | e :: older =>
      match e with
      | EvText true _ off _ _ => off + length (of_newline f)
      | EvText false _ _ _ _ => line_start f older
      | EvField _ ph off _ _ =>
          if 0 <? lf_count ph then off + (length ph - col_after 0 ph) else line_start f older
      end
  end.

Fixpoint events_wf (f : ofmt) (l : list oevent) : Prop :=
  match l with
  | [] => True
  | e :: older =>
      events_wf f older /\
      ev_off e = total_len older /\
      ev_line e = count_nl older /\
      ev_col e = total_len older - line_start f older /\
      (is_nl e = true -> ev_text e = of_newline f ++ of_base_indent f)
  end.

Definition stream_inv (f : ofmt) (o : ostream) : Prop :=
  events_wf f (os_events o) /\
  os_offset o = total_len (os_events o) /\
  os_line o = count_nl (os_events o) /\
  os_column o = total_len (os_events o) - line_start f (os_events o) /\
  line_start f (os_events o) <= total_len (os_events o).

Lemma inv_empty f : stream_inv f os_empty.
Proof. unfold stream_inv, os_empty. cbn [os_events os_offset os_line os_column events_wf total_len count_nl line_start]. repeat split; lia. Qed.

Lemma inv_set_level f o l : stream_inv f o -> stream_inv f (os_set_level o l).
Proof. unfold stream_inv, os_set_level. cbn [os_events os_offset os_line os_column]. intros H; exact H. Qed.
Lemma inv_add_level f o d : stream_inv f o -> stream_inv f (os_add_level o d).
Proof. apply inv_set_level. Qed.

Lemma inv_push f o s : stream_inv f o -> stream_inv f (os_push o s).
Proof.
  unfold stream_inv, os_push, os_push_gen. cbn [os_events os_offset os_line os_column os_level].
  intros [Hw [Ho [Hl [Hc Hle]]]].
  cbn [events_wf total_len count_nl line_start is_nl ev_off ev_line ev_col ev_text ev_brk].
  repeat split; try assumption; try lia; try discriminate.
Qed.

Lemma inv_push_field f o i ph : stream_inv f o -> stream_inv f (os_push_field o i ph).
Proof.
  unfold stream_inv, os_push_field. cbn [os_events os_offset os_line os_column os_level].
  intros [Hw [Ho [Hl [Hc Hle]]]].
  cbn [events_wf total_len count_nl line_start is_nl ev_off ev_line ev_col ev_text ev_brk].
  pose proof (col_after_le ph) as Hca.
  destruct (0 <? lf_count ph) eqn:E.
  - apply Nat.ltb_lt in E. rewrite (col_after_lf _ _ E).
    repeat split; try assumption; try lia; try discriminate.
  - apply Nat.ltb_ge in E. rewrite col_after_nolf by lia.
    repeat split; try assumption; try lia; try discriminate.
Qed.

Lemma inv_push_indent f o n : stream_inv f o -> stream_inv f (os_push_indent f o n).
Proof. apply inv_push. Qed.

Lemma inv_push_newline f o ind : stream_inv f o -> stream_inv f (os_push_newline f o ind).
Proof.
  intros H. unfold os_push_newline.
  set (o2 := mkOs _ _ _ _ _).
  assert (H2 : stream_inv f o2).
  { unfold o2, stream_inv, os_push_gen. cbn [os_events os_offset os_line os_column os_level].
    destruct H as [Hw [Ho [Hl [Hc Hle]]]].
    cbn [events_wf total_len count_nl line_start is_nl ev_off ev_line ev_col ev_text ev_brk].
    rewrite app_length. repeat split; try assumption; try lia. }
  destruct ind as [[n|]|]; [apply inv_push_indent| apply inv_push_indent|]; exact H2.
Qed.

Lemma inv_push_newline_int f o n : stream_inv f o -> stream_inv f (os_push_newline_int f o n).
Proof. apply inv_push_newline. Qed.

Lemma inv_push_string f o s : stream_inv f o -> stream_inv f (os_push_string f o s).
Proof.
  intros H. unfold os_push_string. destruct (split_crlf s) as [|l0 ls]; [exact H|].
  assert (G : forall ls o', stream_inv f o' ->
              stream_inv f (fold_left (fun o'' l => os_push (os_push_newline f o'' (Some None)) l) ls o')).
  { induction ls0 as [|l ls0 IH]; intros o' H'; cbn [fold_left]; [exact H'|].
    apply IH, inv_push, inv_push_newline, H'. }
  apply G, inv_push, H.
Qed.

(* ---------------------------------------------------------------- reachable streams *)
(* [r_push] is the raw push(text) used by the formatters for fixed fragments and padding:
   they never contain a line feed (needed for Part B only) *)
Inductive reach (f : ofmt) : ostream -> Prop :=
| r_empty : reach f os_empty
| r_level o l : reach f o -> reach f (os_set_level o l)
| r_push o s : lf_count s = 0 -> reach f o -> reach f (os_push o s)
| r_field o i ph : reach f o -> reach f (os_push_field o i ph)
| r_newline o ind : reach f o -> reach f (os_push_newline f o ind)
| r_indent o n : reach f o -> reach f (os_push_indent f o n)
| r_string o s : reach f o -> reach f (os_push_string f o s).

Theorem reach_inv f o : reach f o -> stream_inv f o.
Proof.
  induction 1; auto using inv_empty, inv_set_level, inv_push, inv_push_field, inv_push_newline,
                       inv_push_indent, inv_push_string.
Qed.

(* ---------------------------------------------------------------- what the callbacks are told *)
Definition chron (o : ostream) : list oevent := rev (os_events o).
Definition text_of (evs : list oevent) : str := concat (map ev_text evs).

Lemma text_of_app a b : text_of (a ++ b) = text_of a ++ text_of b.
Proof. unfold text_of. rewrite map_app, concat_app. reflexivity. Qed.

Lemma total_len_text l : total_len l = length (text_of (rev l)).
Proof.
  induction l as [|e l IH]; [reflexivity|]. cbn [total_len rev]. rewrite text_of_app, app_length.
  unfold text_of at 2. cbn [map concat]. rewrite app_nil_r. lia.
Qed.

Lemma wf_split f : forall l a e b,
  events_wf f l -> rev l = a ++ e :: b ->
  ev_off e = length (text_of a) /\
  ev_line e = count_nl (rev a) /\
  ev_col e = length (text_of a) - line_start f (rev a) /\
  (is_nl e = true -> ev_text e = of_newline f ++ of_base_indent f).
Proof.
  induction l as [|x l IH]; intros a e b Hw Hs.
  - destruct a; discriminate.
  - cbn [rev] in Hs. cbn [events_wf] in Hw. destruct Hw as [Hw [H1 [H2 [H3 H4]]]].
    destruct b as [|y b'] using rev_ind.
    + (* e is the most recent event *)
      apply app_inj_tail in Hs. destruct Hs as [Ha He]. subst x.
      assert (Hl : l = rev a) by (rewrite <- Ha, rev_involutive; reflexivity).
      subst l. rewrite total_len_text, rev_involutive in *. repeat split; assumption.
    + clear IHb'. rewrite app_comm_cons, app_assoc in Hs. apply app_inj_tail in Hs.
      destruct Hs as [Hs _]. eapply IH; eassumption.
Qed.

(* offset: exactly the length of everything pushed before, i.e. where the returned string
   lands in the final value; line: the number of line ends accounted before; column: distance
   from the start of the current line *)
Theorem positions_exact f o a e b :
  reach f o -> chron o = a ++ e :: b ->
  ev_off e = length (text_of a) /\
  ev_line e = count_nl (rev a) /\
  ev_col e = length (text_of a) - line_start f (rev a) /\
  os_value o = text_of a ++ ev_text e ++ text_of b.
Proof.
  intros Hr Hs. pose proof (reach_inv f o Hr) as [Hw _].
  destruct (wf_split f (os_events o) a e b Hw Hs) as [H1 [H2 [H3 _]]].
  repeat split; try assumption.
  change (os_value o) with (text_of (chron o)). rewrite Hs, text_of_app. reflexivity.
Qed.

(* ---------------------------------------------------------------- Part B: read off the final string *)
(* the newline option ends a line with a line feed (and has no other), indentation has none *)
Definition fmt_lf (f : ofmt) : Prop :=
  (exists pre, of_newline f = pre ++ [c_nl] /\ lf_count pre = 0) /\
  lf_count (of_base_indent f) = 0 /\ lf_count (of_indent f) = 0.

(* line and column of the position just after [s], as any editor computes them *)
Definition line_of (s : str) : nat := lf_count s.
Definition column_of (s : str) : nat := col_after 0 s.

Fixpoint val (l : list oevent) : str :=
  match l with [] => [] | e :: older => val older ++ ev_text e end.

Lemma val_text l : val l = text_of (rev l).
Proof.
  induction l as [|e l IH]; [reflexivity|]. cbn [val rev]. rewrite text_of_app, IH.
  unfold text_of at 3. cbn [map concat]. rewrite app_nil_r. reflexivity.
Qed.

Fixpoint events_lf (l : list oevent) : Prop :=
  match l with
  | [] => True
  | e :: older =>
      events_lf older /\
      ev_off e = length (val older) /\
      ev_line e = line_of (val older) /\
      ev_col e = column_of (val older)
  end.

Definition stream_lf (o : ostream) : Prop :=
  events_lf (os_events o) /\
  os_offset o = length (val (os_events o)) /\
  os_line o = line_of (val (os_events o)) /\
  os_column o = column_of (val (os_events o)).

Lemma lf_empty : stream_lf os_empty.
Proof. unfold stream_lf, os_empty; cbn. repeat split. Qed.

Lemma lf_push_gen b o s : lf_count s = 0 -> stream_lf o -> stream_lf (os_push_gen b o s).
Proof.
  unfold stream_lf, os_push_gen, line_of, column_of. cbn [os_events os_offset os_line os_column os_level].
  intros Hs [Hw [Ho [Hl Hc]]]. cbn [events_lf val ev_off ev_line ev_col ev_text].
  rewrite app_length, lf_count_app, col_after_app, (col_after_nolf _ s Hs).
  unfold line_of, column_of. repeat split; try assumption; lia.
Qed.

Lemma lf_push_field o i ph : stream_lf o -> stream_lf (os_push_field o i ph).
Proof.
  unfold stream_lf, os_push_field, line_of, column_of. cbn [os_events os_offset os_line os_column os_level].
  intros [Hw [Ho [Hl Hc]]]. cbn [events_lf val ev_off ev_line ev_col ev_text].
  rewrite app_length, lf_count_app, col_after_app.
  unfold line_of, column_of. repeat split; try assumption; try lia. rewrite Hc. reflexivity.
Qed.

Lemma lf_push_indent f o n : fmt_lf f -> stream_lf o -> stream_lf (os_push_indent f o n).
Proof. intros [_ [_ Hi]]. apply lf_push_gen, lf_count_repeat, Hi. Qed.

Lemma lf_push_newline f o ind : fmt_lf f -> stream_lf o -> stream_lf (os_push_newline f o ind).
Proof.
  intros Hf H. unfold os_push_newline.
  set (o2 := mkOs _ _ _ _ _).
  assert (H2 : stream_lf o2).
  { destruct Hf as [[pre [Hn Hp]] [Hb _]].
    unfold o2, stream_lf, os_push_gen, line_of, column_of. cbn [os_events os_offset os_line os_column os_level].
    destruct H as [Hw [Ho [Hl Hc]]]. cbn [events_lf val ev_off ev_line ev_col ev_text].
    rewrite Hn. rewrite !app_length, !lf_count_app, !col_after_app.
    cbn [lf_count col_after length]. rewrite N.eqb_refl. rewrite (col_after_nolf 0 _ Hb).
    unfold line_of, column_of in *. repeat split; try assumption; lia. }
  destruct ind as [[n|]|]; [apply lf_push_indent| apply lf_push_indent|]; assumption.
Qed.

Lemma lf_push_string f o s : fmt_lf f -> stream_lf o -> stream_lf (os_push_string f o s).
Proof.
  intros Hf H. unfold os_push_string. pose proof (split_crlf_nolf s) as Hl.
  destruct (split_crlf s) as [|l0 ls]; [exact H|].
  inversion Hl as [|x y H0 Hls]; subst.
  assert (G : forall ls o', Forall (fun l => lf_count l = 0) ls -> stream_lf o' ->
              stream_lf (fold_left (fun o'' l => os_push (os_push_newline f o'' (Some None)) l) ls o')).
  { induction ls0 as [|l ls0 IH]; intros o' HF H'; cbn [fold_left]; [exact H'|].
    inversion HF; subst. apply IH; [assumption|]. apply lf_push_gen; [assumption|].
    apply lf_push_newline; assumption. }
  apply G; [exact Hls|]. apply lf_push_gen; assumption.
Qed.

Theorem reach_lf f o : fmt_lf f -> reach f o -> stream_lf o.
Proof.
  intros Hf. induction 1.
  - apply lf_empty.
  - exact IHreach.
  - apply lf_push_gen; assumption.
  - apply lf_push_field; assumption.
  - apply lf_push_newline; assumption.
  - apply lf_push_indent; assumption.
  - apply lf_push_string; assumption.
Qed.

Lemma lf_split : forall l a e b,
  events_lf l -> rev l = a ++ e :: b ->
  ev_off e = length (text_of a) /\ ev_line e = line_of (text_of a) /\ ev_col e = column_of (text_of a).
Proof.
  induction l as [|x l IH]; intros a e b Hw Hs.
  - destruct a; discriminate.
  - cbn [rev] in Hs. cbn [events_lf] in Hw. destruct Hw as [Hw [H1 [H2 H3]]].
    destruct b as [|y b'] using rev_ind.
    + apply app_inj_tail in Hs. destruct Hs as [Ha He]. subst x.
      assert (Hl : l = rev a) by (rewrite <- Ha, rev_involutive; reflexivity).
      subst l. rewrite val_text, rev_involutive in *. repeat split; assumption.
    + clear IHb'. rewrite app_comm_cons, app_assoc in Hs. apply app_inj_tail in Hs.
      destruct Hs as [Hs _]. eapply IH; eassumption.
Qed.

(* every callback invocation: the text it returns sits at [offset] in the final string, and
   line / column are the line and column of that position in the final string *)
Theorem positions_exact_lf f o a e b :
  fmt_lf f -> reach f o -> chron o = a ++ e :: b ->
  os_value o = text_of a ++ ev_text e ++ text_of b /\
  ev_off e = length (text_of a) /\
  ev_line e = line_of (text_of a) /\
  ev_col e = column_of (text_of a).
Proof.
  intros Hf Hr Hs. pose proof (reach_lf f o Hf Hr) as [Hw _].
  destruct (lf_split (os_events o) a e b Hw Hs) as [H1 [H2 H3]].
  repeat split; try assumption.
  change (os_value o) with (text_of (chron o)). rewrite Hs, text_of_app. reflexivity.
Qed.
