(* C13: positions reported to the output.text / output.field callbacks are exact.
   Invariant of the output stream, for every sequence of stream operations. *)
From Emmet Require Import lib.Base model.MarkupConvert model.OutStream.
Local Open Scope nat_scope.

Definition ev_off (e : oevent) : nat := match e with EvText _ _ o _ _ => o | EvField _ _ o _ _ => o end.
Definition ev_line (e : oevent) : nat := match e with EvText _ _ _ l _ => l | EvField _ _ _ l _ => l end.
Definition ev_col (e : oevent) : nat := match e with EvText _ _ _ _ c => c | EvField _ _ _ _ c => c end.
Definition is_nl (e : oevent) : bool := match e with EvText true _ _ _ _ => true | _ => false end.

(* over the event list as stored: most recent first *)
Fixpoint total_len (l : list oevent) : nat :=
  match l with [] => 0 | e :: older => total_len older + length (ev_text e) end.
Fixpoint count_nl (l : list oevent) : nat :=
  match l with [] => 0 | e :: older => count_nl older + (if is_nl e then 1 else 0) end.
(* offset at which the current line starts: just after the newline string of the last
   newline push (the baseIndent that follows it belongs to the line, as the code counts it) *)
Fixpoint line_start (f : ofmt) (l : list oevent) : nat :=
  match l with
  | [] => 0
  | e :: older => if is_nl e then ev_off e + length (of_newline f) else line_start f older
  end.

Fixpoint events_wf (f : ofmt) (l : list oevent) : Prop :=
  match l with
  | [] => True
  | e :: older =>
      events_wf f older /\
      ev_off e = total_len older /\
      ev_line e = count_nl older /\
      ev_col e = total_len older - line_start f older /\
      (is_nl e = true -> ev_text e = of_newline f ++ of_base_indent f)
  end.

Definition stream_inv (f : ofmt) (o : ostream) : Prop :=
  events_wf f (os_events o) /\
  os_offset o = total_len (os_events o) /\
  os_line o = count_nl (os_events o) /\
  os_column o = total_len (os_events o) - line_start f (os_events o) /\
  line_start f (os_events o) <= total_len (os_events o).

Lemma inv_empty f : stream_inv f os_empty.
Proof. unfold stream_inv, os_empty. cbn [os_events os_offset os_line os_column events_wf total_len count_nl line_start]. repeat split; lia. Qed.

Lemma inv_set_level f o l : stream_inv f o -> stream_inv f (os_set_level o l).
Proof. unfold stream_inv, os_set_level. cbn [os_events os_offset os_line os_column]. intros H; exact H. Qed.
Lemma inv_add_level f o d : stream_inv f o -> stream_inv f (os_add_level o d).
Proof. apply inv_set_level. Qed.

Lemma inv_push f o s : stream_inv f o -> stream_inv f (os_push o s).
Proof.
  unfold stream_inv, os_push, os_push_gen. cbn [os_events os_offset os_line os_column os_level].
  intros [Hw [Ho [Hl [Hc Hle]]]].
  cbn [events_wf total_len count_nl line_start is_nl ev_off ev_line ev_col ev_text].
  repeat split; try assumption; try lia; try discriminate.
Qed.

Lemma inv_push_field f o i ph : stream_inv f o -> stream_inv f (os_push_field o i ph).
Proof.
  unfold stream_inv, os_push_field. cbn [os_events os_offset os_line os_column os_level].
  intros [Hw [Ho [Hl [Hc Hle]]]].
  cbn [events_wf total_len count_nl line_start is_nl ev_off ev_line ev_col ev_text].
  repeat split; try assumption; try lia; try discriminate.
Qed.

Lemma inv_push_indent f o n : stream_inv f o -> stream_inv f (os_push_indent f o n).
Proof. apply inv_push. Qed.

Lemma inv_push_newline f o ind : stream_inv f o -> stream_inv f (os_push_newline f o ind).
Proof.
  intros H. unfold os_push_newline.
  set (o2 := mkOs _ _ _ _ _).
  assert (H2 : stream_inv f o2).
  { unfold o2, stream_inv, os_push_gen. cbn [os_events os_offset os_line os_column os_level].
    destruct H as [Hw [Ho [Hl [Hc Hle]]]].
    cbn [events_wf total_len count_nl line_start is_nl ev_off ev_line ev_col ev_text].
    rewrite app_length. repeat split; try assumption; try lia. }
  destruct ind as [[n|]|]; [apply inv_push_indent| apply inv_push_indent|]; exact H2.
Qed.

Lemma inv_push_newline_int f o n : stream_inv f o -> stream_inv f (os_push_newline_int f o n).
Proof. apply inv_push_newline. Qed.

Lemma inv_push_string f o s : stream_inv f o -> stream_inv f (os_push_string f o s).
Proof.
  intros H. unfold os_push_string. destruct (split_crlf s) as [|l0 ls]; [exact H|].
  assert (G : forall ls o', stream_inv f o' ->
              stream_inv f (fold_left (fun o'' l => os_push (os_push_newline f o'' (Some None)) l) ls o')).
  { induction ls0 as [|l ls0 IH]; intros o' H'; cbn [fold_left]; [exact H'|].
    apply IH, inv_push, inv_push_newline, H'. }
  apply G, inv_push, H.
Qed.

(* ---------------------------------------------------------------- reachable streams *)
Inductive reach (f : ofmt) : ostream -> Prop :=
| r_empty : reach f os_empty
| r_level o l : reach f o -> reach f (os_set_level o l)
| r_push o s : reach f o -> reach f (os_push o s)
| r_field o i ph : reach f o -> reach f (os_push_field o i ph)
| r_newline o ind : reach f o -> reach f (os_push_newline f o ind)
| r_indent o n : reach f o -> reach f (os_push_indent f o n)
| r_string o s : reach f o -> reach f (os_push_string f o s).

Theorem reach_inv f o : reach f o -> stream_inv f o.
Proof.
  induction 1; auto using inv_empty, inv_set_level, inv_push, inv_push_field, inv_push_newline,
                       inv_push_indent, inv_push_string.
Qed.

(* ---------------------------------------------------------------- what the callbacks are told *)
Definition chron (o : ostream) : list oevent := rev (os_events o).
Definition text_of (evs : list oevent) : str := concat (map ev_text evs).

Lemma total_len_text l : total_len l = length (text_of (rev l)).
Proof.
  induction l as [|e l IH]; [reflexivity|]. cbn [total_len rev]. unfold text_of in *.
  rewrite map_app, concat_app, app_length. cbn [map concat]. rewrite app_nil_r. lia.
Qed.

Lemma wf_split f : forall l a e b,
  events_wf f l -> rev l = a ++ e :: b ->
  ev_off e = length (text_of a) /\
  ev_line e = count_nl (rev a) /\
  ev_col e = length (text_of a) - line_start f (rev a) /\
  (is_nl e = true -> ev_text e = of_newline f ++ of_base_indent f).
Proof.
  induction l as [|x l IH]; intros a e b Hw Hs.
  - destruct a; discriminate.
  - cbn [rev] in Hs. cbn [events_wf] in Hw. destruct Hw as [Hw [H1 [H2 [H3 H4]]]].
    destruct b as [|y b'] using rev_ind.
    + (* e is the most recent event *)
      apply app_inj_tail in Hs. destruct Hs as [Ha He]. subst x.
      assert (Hl : l = rev a) by (rewrite <- Ha, rev_involutive; reflexivity).
      subst l. rewrite total_len_text, rev_involutive in *. repeat split; assumption.
    + clear IHb'. rewrite app_comm_cons, app_assoc in Hs. apply app_inj_tail in Hs.
      destruct Hs as [Hs _]. eapply IH; eassumption.
Qed.

(* offset: exactly the length of everything pushed before, i.e. where the returned string
   lands in the final value; line: the number of newlines pushed before; column: distance
   from the start of the current line (the end of the last pushed newline string) *)
Theorem positions_exact f o a e b :
  reach f o -> chron o = a ++ e :: b ->
  ev_off e = length (text_of a) /\
  ev_line e = count_nl (rev a) /\
  ev_col e = length (text_of a) - line_start f (rev a) /\
  os_value o = text_of a ++ ev_text e ++ text_of b.
Proof.
  intros Hr Hs. pose proof (reach_inv f o Hr) as [Hw _].
  destruct (wf_split f (os_events o) a e b Hw Hs) as [H1 [H2 [H3 _]]].
  repeat split; try assumption.
  unfold os_value. fold (chron o). rewrite Hs. unfold text_of.
  rewrite map_app, concat_app. cbn [map concat]. reflexivity.
Qed.
