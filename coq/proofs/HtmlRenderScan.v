(* C09, Level B, part 2: documents, their rendering, the record of where every element lies,
   and  scan (render d) = events d  for every document of the grammar. *)
From Coq Require Import List NArith ZArith Bool Lia ZifyBool.
From Emmet Require Import lib.Base lib.HtmlLib gen.GenHtml model.HtmlScan model.HtmlMatch
  proofs.HtmlScanProofs proofs.HtmlFoldProofs proofs.HtmlForestProofs proofs.HtmlRenderLib proofs.HtmlRender.
Import ListNotations.
Local Open Scope nat_scope.

(* ================================================================== SPEC: documents *)
(* a piece of a processing instruction: a plain character or a quoted string *)
Inductive ppiece := PChar (c : char) | PQuoted (q : char) (body : str).
Definition render_ppiece (p : ppiece) : str :=
  match p with PChar c => [c] | PQuoted q body => q :: body ++ [q] end.
Definition render_pi_body (ps : list ppiece) : str := flat_map render_ppiece ps.

Inductive item :=
| IText (s : str)                                                     (* text *)
| ILt (s : str)                                                       (* `<` + text that starts no tag: `<!DOCTYPE html>`, `a < b` *)
| IComment (body : str)                                               (* <!--body--> *)
| ICData (body : str)                                                 (* <![CDATA[body]]> *)
| IPI (ps : list ppiece)                                              (* <?body?> *)
| IPaired (name : str) (attrs : list dattr) (ws : str) (kids : list item)   (* <name attrs ws>kids</name> *)
| ISelf (name : str) (attrs : list dattr) (ws : str)                  (* <name attrs ws/> *)
| IVoid (name : str) (attrs : list dattr) (ws : str)                  (* <name attrs ws> without close tag *)
| IRaw (name : str) (attrs : list dattr) (ws : str) (body : str).     (* <script attrs ws>body</script>, style *)

Definition open_tag (n : str) (l : list dattr) (w : str) (selfclose : bool) : str :=
  c_lt :: n ++ render_attrs l ++ w ++ (if selfclose then [c_slash; c_gt] else [c_gt]).
Definition close_tag (n : str) : str := c_lt :: c_slash :: n ++ [c_gt].

Fixpoint render_item (i : item) : str :=
  match i with
  | IText s => s
  | ILt s => c_lt :: s
  | IComment b => comment_open ++ b ++ comment_close
  | ICData b => cdata_open ++ b ++ cdata_close
  | IPI ps => pi_start ++ render_pi_body ps ++ pi_end
  | IPaired n l w kids => open_tag n l w false ++ flat_map render_item kids ++ close_tag n
  | ISelf n l w => open_tag n l w true
  | IVoid n l w => open_tag n l w false
  | IRaw n l w body => open_tag n l w false ++ body ++ close_tag n
  end.
Definition render (d : list item) : str := flat_map render_item d.

(* the record of where the elements lie: the node(s) of an item whose first character has offset [p] *)
Fixpoint nodes_item (p : N) (i : item) : list node :=
  match i with
  | IPaired n l w kids =>
      let oe := (p + N.of_nat (length (open_tag n l w false)))%N in
      let cs := (oe + N.of_nat (length (flat_map render_item kids)))%N in
      [Pair n p oe cs (cs + N.of_nat (length (close_tag n)))%N
         ((fix go (p : N) (ks : list item) : list node :=
             match ks with
             | [] => []
             | k :: r => nodes_item p k ++ go (p + N.of_nat (length (render_item k)))%N r
             end) oe kids)]
  | ISelf n l w => [Single n true p (p + N.of_nat (length (open_tag n l w true)))%N]
  | IVoid n l w => [Single n false p (p + N.of_nat (length (open_tag n l w false)))%N]
  | IRaw n l w body =>
      let oe := (p + N.of_nat (length (open_tag n l w false)))%N in
      let cs := (oe + N.of_nat (length body))%N in
      [Pair n p oe cs (cs + N.of_nat (length (close_tag n)))%N []]
  | _ => []
  end.
Fixpoint nodes_items (p : N) (d : list item) : list node :=
  match d with
  | [] => []
  | k :: r => nodes_item p k ++ nodes_items (p + N.of_nat (length (render_item k)))%N r
  end.
Definition forest_of (d : list item) : list node := nodes_items 0 d.
(* the tag events of the document, in document order, with exact ranges *)
Definition events (d : list item) : list event := events_forest (forest_of d).

(* ---- which documents *)
(* [body] followed by the terminator [pat] contains [pat] only at the end *)
Definition ends_first (pat body : str) : Prop :=
  forall i, i < length body -> starts_with pat (skipn i (body ++ pat)) = false.
Fixpoint ends_firstb (pat body : str) : bool :=
  match body with
  | [] => true
  | _ :: r => negb (starts_with pat (body ++ pat)) && ends_firstb pat r
  end.

(* the value get_attribute_value reports for an attribute: quotes stripped *)
Definition unquote (v : aval) : option str :=
  match v with
  | VNone => None
  | VQuoted _ body => Some body
  | VUnquoted body => Some body
  | VExpr ps => Some (c_lbrace :: render_expr ps ++ [c_rbrace])
  end.
Fixpoint type_value (l : list dattr) : option str :=
  match l with
  | [] => None
  | a :: r => if str_eqb (render_aname (da_name a)) type_name then unquote (da_val a) else type_value r
  end.
(* the element's content is raw text: `style`; `script` unless its type names something else *)
Definition is_raw (special : list (str * option (list str))) (name : str) (l : list dattr) : bool :=
  match assoc_str name special with
  | None => false
  | Some None => true
  | Some (Some type_values) => mem_str (opt_default [] (type_value l)) type_values
  end.

Definition tag_ok (n : str) (l : list dattr) (w : str) : bool :=
  name_ok n && forallb dattr_ok l && ws_ok w.

(* a piece of a PI: a plain character is not a quote; [pi_ok] also asks that no `?>` arises *)
Definition ppiece_ok (p : ppiece) : bool :=
  match p with PChar c => negb (is_quote c) | PQuoted q body => quoted_ok q body end.
Fixpoint pi_ok (ps : list ppiece) : bool :=
  match ps with
  | [] => true
  | p :: r => ppiece_ok p && negb (starts_with pi_end (render_pi_body ps ++ pi_end)) && pi_ok r
  end.

(* the text after a `<` that starts no tag, comment, CDATA section or PI: free of `<`, and it begins with
   a character that is no name start, `/`, `?` or `!` -- or with `!` followed by neither `-` nor `[` *)
Definition lt_text_ok (s : str) : bool :=
  forallb (fun c => negb (c =? c_lt)%N) s &&
  match s with
  | [] => false
  | c1 :: r =>
      if (c1 =? c_excl)%N
      then match r with c2 :: _ => negb (c2 =? c_dash)%N && negb (c2 =? c_lbrack)%N | [] => false end
      else negb (name_start_char c1) && negb (c1 =? c_slash)%N && negb (c1 =? c_quest)%N
  end.

Section Ok.
  Variable special : list (str * option (list str)).
  Fixpoint item_ok (i : item) : bool :=
    match i with
    | IText s => forallb (fun c => negb (c =? c_lt)%N) s
    | ILt s => lt_text_ok s
    | IComment b => ends_firstb comment_close b
    | ICData b => ends_firstb cdata_close b
    | IPI ps => pi_ok ps
    | IPaired n l w kids => tag_ok n l w && negb (is_raw special n l) && forallb item_ok kids
    | ISelf n l w => tag_ok n l w
    | IVoid n l w => tag_ok n l w && negb (is_raw special n l)
    | IRaw n l w body => tag_ok n l w && is_raw special n l && ends_firstb (close_tag n) body
    end.
End Ok.

(* ================================================================== induction principle *)
Section ItemInd.
  Variable P : item -> Prop.
  Variable Q : list item -> Prop.
  Hypothesis HT : forall s, P (IText s).
  Hypothesis HLt : forall s, P (ILt s).
  Hypothesis HCo : forall b, P (IComment b).
  Hypothesis HCd : forall b, P (ICData b).
  Hypothesis HPi : forall ps, P (IPI ps).
  Hypothesis HPa : forall n l w kids, Q kids -> P (IPaired n l w kids).
  Hypothesis HSe : forall n l w, P (ISelf n l w).
  Hypothesis HVo : forall n l w, P (IVoid n l w).
  Hypothesis HRa : forall n l w b, P (IRaw n l w b).
  Hypothesis HQ0 : Q [].
  Hypothesis HQ1 : forall i d, P i -> Q d -> Q (i :: d).
  Fixpoint item_ind2 (i : item) : P i :=
    match i with
    | IText s => HT s
    | ILt s => HLt s
    | IComment b => HCo b
    | ICData b => HCd b
    | IPI ps => HPi ps
    | IPaired n l w kids =>
        HPa n l w kids ((fix go (d : list item) : Q d :=
                           match d with [] => HQ0 | x :: r => HQ1 x r (item_ind2 x) (go r) end) kids)
    | ISelf n l w => HSe n l w
    | IVoid n l w => HVo n l w
    | IRaw n l w b => HRa n l w b
    end.
  Definition items_ind2 : forall d, Q d :=
    fix go (d : list item) : Q d :=
      match d with [] => HQ0 | x :: r => HQ1 x r (item_ind2 x) (go r) end.
End ItemInd.

(* ================================================================== tags *)
(* the part of tag_step after the `>` of the tag was found *)
Definition tag_finish (special : list (str * option (list str))) (s name : str) (nl : nat) (ty : etype) (en : nat)
  : step_res :=
  let ev := mkRev name ty 0 en in
  match ty, special with
  | EOpen, _ :: _ =>
      match is_special special name (firstn (en - 1 - (nl + 1)) (skipn (nl + 1) s)) with
      | Ok true =>
          let pat := c_lt :: c_slash :: name ++ [c_gt] in
          match find_closing pat (skipn en s) en with
          | Some cs => let ce := (cs + length pat)%nat in Step ce [ev; mkRev name EClose cs ce]
          | None => Step (length s) [ev]
          end
      | Ok false => Step en [ev]
      | ParseErr _ _ => StepErr [ev] IK_Exception
      | Internal k => StepErr [ev] k
      | OutOfFuel => StepErr [ev] IK_Exception
      end
  | _, _ => Step en [ev]
  end.

Lemma tag_ok_parts n l w : tag_ok n l w = true ->
  name_ok n = true /\ forallb dattr_ok l = true /\ forallb is_space w = true.
Proof. unfold tag_ok, ws_ok. intros H. repeat (apply andb_true_iff in H; destruct H as [H ?]). auto. Qed.

Lemma name_ok_peek_slash n T : name_ok n = true -> peek_is c_slash (n ++ T) = false.
Proof.
  destruct n as [|c r]; [discriminate|]. cbn [name_ok]. intros H. apply andb_true_iff in H. destruct H as [Hc _].
  cbn [app peek_is]. apply name_start_not_slash. exact Hc.
Qed.

Lemma open_tag_length n l w sc :
  length (open_tag n l w sc) = 1 + length n + length (render_attrs l) + length w + (if sc then 2 else 1).
Proof. unfold open_tag. cbn [length]. rewrite !app_length. destruct sc; cbn [length]; lia. Qed.

Lemma tag_step_open special n l w sc T :
  tag_ok n l w = true ->
  tag_step special (open_tag n l w sc ++ T) =
  tag_finish special (open_tag n l w sc ++ T) n (length n) (if sc then ESelfClose else EOpen)
             (length (open_tag n l w sc)).
Proof.
  intros Hok. destruct (tag_ok_parts n l w Hok) as (Hn & Hl & Hw).
  set (term := if sc then [c_slash; c_gt] else [c_gt]).
  set (X := render_attrs l ++ w ++ term ++ T).
  assert (Es : open_tag n l w sc ++ T = c_lt :: n ++ X).
  { unfold open_tag, X, term. cbn [app]. rewrite <- !app_assoc. reflexivity. }
  rewrite Es.
  assert (HX : exists c T', term ++ T = c :: T' /\ is_terminator c = true).
  { unfold term. destruct sc; eexists _, _; split; reflexivity. }
  destruct HX as (c0 & T0 & ET & Hc0).
  assert (HstopX : attr_stop X).
  { unfold X. rewrite ET. apply attr_stop_tail; assumption. }
  assert (E1 : skipn 1 (c_lt :: n ++ X) = n ++ X) by reflexivity.
  assert (E2 : skipn (1 + length n) (c_lt :: n ++ X) = X).
  { cbn [Nat.add skipn]. apply skipn_app_exact. reflexivity. }
  assert (Esk : skip_attributes 0 0 X = length (render_attrs l) + length w).
  { unfold X. rewrite ET. rewrite skip_attributes_render by assumption. lia. }
  assert (E3 : skipn (1 + length n + (length (render_attrs l) + length w)) (c_lt :: n ++ X) = term ++ T).
  { rewrite <- skipn_skipn. rewrite E2. unfold X. rewrite app_assoc. apply skipn_app_exact. rewrite app_length. reflexivity. }
  assert (Esp : span is_space (term ++ T) = 0).
  { rewrite ET. cbn [span]. rewrite terminator_not_space by exact Hc0. reflexivity. }
  unfold tag_step. cbv zeta.
  rewrite E1. rewrite (name_ok_peek_slash n X Hn).
  rewrite E1. rewrite (ident_name n X Hn (attr_stop_name X HstopX)).
  rewrite firstn_app_exact by reflexivity.
  rewrite E2, Esk. rewrite E3, Esp. rewrite Nat.add_0_r. rewrite E3.
  subst term. destruct sc.
  - cbn [app peek_is]. rewrite N.eqb_refl.
    replace (skipn (S (1 + length n + (length (render_attrs l) + length w))) (c_lt :: n ++ X)) with (c_gt :: T).
    2:{ change (S ?k) with (1 + k). rewrite Nat.add_comm. rewrite <- skipn_skipn. rewrite E3. reflexivity. }
    cbn [peek_is]. rewrite N.eqb_refl.
    unfold tag_finish. rewrite open_tag_length. cbv zeta.
    replace (1 + length n + length (render_attrs l) + length w + 2) with (S (S (1 + length n + (length (render_attrs l) + length w)))) by lia.
    reflexivity.
  - cbn [app peek_is]. change ((c_gt =? c_slash)%N) with false. cbv iota.
    rewrite E3. cbn [app peek_is]. rewrite N.eqb_refl.
    unfold tag_finish. rewrite open_tag_length. cbv zeta.
    replace (1 + length n + length (render_attrs l) + length w + 1) with (S (1 + length n + (length (render_attrs l) + length w))) by lia.
    reflexivity.
Qed.

Lemma tag_step_close special n T :
  name_ok n = true ->
  tag_step special (close_tag n ++ T) =
  Step (length (close_tag n)) [mkRev n EClose 0 (length (close_tag n))].
Proof.
  intros Hn. unfold close_tag. cbn [app]. rewrite <- app_assoc. cbn [app].
  set (X := c_gt :: T).
  assert (E2 : skipn 2 (c_lt :: c_slash :: n ++ X) = n ++ X) by reflexivity.
  assert (E3 : skipn (2 + length n) (c_lt :: c_slash :: n ++ X) = X).
  { cbn [Nat.add skipn]. apply skipn_app_exact. reflexivity. }
  unfold tag_step. cbv zeta. cbn [skipn peek_is]. rewrite N.eqb_refl.
  change (skipn 2 (c_lt :: c_slash :: n ++ X)) with (n ++ X).
  rewrite (ident_name n X Hn) by (unfold X; reflexivity).
  rewrite firstn_app_exact by reflexivity. rewrite E3. unfold X. cbn [peek_is]. rewrite N.eqb_refl.
  cbn [length]. rewrite app_length. cbn [length].
  replace (S (2 + length n)) with (S (S (length n + 1))) by lia. reflexivity.
Qed.

(* ---- is_special over the rendered attributes *)
Lemma get_unquoted_value_text v t :
  aval_ok v = true -> value_text v = Some t -> get_unquoted_value t = Ok (opt_default [] (unquote v)) /\ t <> [].
Proof.
  intros Hok Ht. destruct v as [|q body|body|ps]; cbn [value_text] in Ht; inversion Ht; subst t; clear Ht;
    cbn [aval_ok unquote opt_default] in *.
  - unfold quoted_ok in Hok. apply andb_true_iff in Hok. destruct Hok as [Hq _].
    split; [|discriminate]. unfold get_unquoted_value. rewrite Hq.
    rewrite rev_app_distr. cbn [rev app]. rewrite Hq. rewrite removelast_last. reflexivity.
  - destruct body as [|c body]; [discriminate|]. cbn [unquoted_ok] in Hok.
    apply andb_true_iff in Hok. destruct Hok as [_ Hall]. split; [|discriminate].
    assert (Hnq : forall x, In x (c :: body) -> is_quote x = false).
    { intros x Hx. rewrite forallb_forall in Hall. specialize (Hall x Hx).
      unfold is_unquoted in Hall. destruct (is_quote x); [discriminate|reflexivity]. }
    unfold get_unquoted_value. rewrite (Hnq c) by (left; reflexivity).
    destruct (rev (c :: body)) as [|z t] eqn:E.
    + apply (f_equal (@length _)) in E. rewrite rev_length in E. discriminate.
    + rewrite (Hnq z); [reflexivity|]. apply in_rev. rewrite E. left. reflexivity.
  - split; [|discriminate]. unfold get_unquoted_value.
    change (is_quote c_lbrace) with false. cbv iota.
    change (c_lbrace :: render_expr ps ++ [c_rbrace]) with ((c_lbrace :: render_expr ps) ++ [c_rbrace]).
    rewrite rev_app_distr. cbn [rev app]. reflexivity.
Qed.

Lemma get_attribute_value_tokens : forall l p,
  forallb dattr_ok l = true -> get_attribute_value (attr_tokens p l) type_name = Ok (type_value l).
Proof.
  induction l as [|a l IH]; intros p Hl; [reflexivity|].
  cbn [forallb] in Hl. apply andb_true_iff in Hl. destruct Hl as [Ha Hl].
  destruct (dattr_ok_parts a Ha) as (_ & _ & _ & Hv).
  cbn [attr_tokens get_attribute_value a_name a_value type_value].
  destruct (str_eqb (render_aname (da_name a)) type_name); [|apply IH; exact Hl].
  destruct (value_text (da_val a)) as [t|] eqn:Et.
  - destruct (get_unquoted_value_text _ _ Hv Et) as [Hu Hne].
    destruct t as [|c t]; [contradiction|]. rewrite Hu. cbn [bind].
    destruct (da_val a); cbn [value_text] in Et; try discriminate; reflexivity.
  - destruct (da_val a); cbn [value_text] in Et; try discriminate. reflexivity.
Qed.

Lemma is_special_render special n l w :
  forallb dattr_ok l = true -> forallb is_space w = true ->
  is_special special n (render_attrs l ++ w) = Ok (is_raw special n l).
Proof.
  intros Hl Hw. unfold is_special, is_raw.
  destruct (assoc_str n special) as [[tv|]|]; try reflexivity.
  rewrite (attributes_render l w Hl Hw). rewrite (get_attribute_value_tokens l 0 Hl). reflexivity.
Qed.

Lemma open_tag_frag n l w T :
  firstn (length (open_tag n l w false) - 1 - (length n + 1))
         (skipn (length n + 1) (open_tag n l w false ++ T)) = render_attrs l ++ w.
Proof.
  rewrite open_tag_length. unfold open_tag. cbn [app].
  replace (length n + 1) with (S (length n)) by lia. cbn [skipn].
  rewrite <- !app_assoc. rewrite skipn_app_exact by reflexivity.
  rewrite (app_assoc (render_attrs l)). apply firstn_app_exact. rewrite app_length. lia.
Qed.

Lemma tag_finish_open special n l w T :
  tag_ok n l w = true ->
  tag_finish special (open_tag n l w false ++ T) n (length n) EOpen (length (open_tag n l w false)) =
  let en := length (open_tag n l w false) in
  let ev := mkRev n EOpen 0 en in
  if is_raw special n l then
    match find_closing (close_tag n) T en with
    | Some cs => Step (cs + length (close_tag n)) [ev; mkRev n EClose cs (cs + length (close_tag n))]
    | None => Step (length (open_tag n l w false ++ T)) [ev]
    end
  else Step en [ev].
Proof.
  intros Hok. destruct (tag_ok_parts n l w Hok) as (Hn & Hl & Hw).
  unfold tag_finish. cbv zeta. destruct special as [|sp0 special'].
  - reflexivity.
  - set (special := sp0 :: special').
    rewrite open_tag_frag. rewrite (is_special_render special n l w Hl Hw).
    rewrite skipn_app_exact by reflexivity.
    destruct (is_raw special n l); reflexivity.
Qed.

(* ================================================================== sections with a terminator *)
Lemma starts_with_app_long : forall p a T, length p <= length a -> starts_with p (a ++ T) = starts_with p a.
Proof.
  induction p as [|x p IH]; intros a T H; [reflexivity|].
  destruct a as [|y a]; [cbn [length] in H; lia|]. cbn [app starts_with]. cbn [length] in H.
  rewrite IH by lia. reflexivity.
Qed.

Lemma ends_firstb_cons pat c body T :
  ends_firstb pat (c :: body) = true ->
  starts_with pat (c :: body ++ pat ++ T) = false /\ ends_firstb pat body = true.
Proof.
  cbn [ends_firstb]. intros H. apply andb_true_iff in H. destruct H as [H1 H2]. apply negb_true_iff in H1.
  split; [|exact H2].
  change (c :: body ++ pat ++ T) with ((c :: body) ++ pat ++ T). rewrite app_assoc.
  rewrite starts_with_app_long; [exact H1|]. rewrite app_length. lia.
Qed.

Lemma ends_firstb_spec pat body : ends_firstb pat body = true <-> ends_first pat body.
Proof.
  unfold ends_first. induction body as [|c body IH]; cbn [ends_firstb length].
  - split; [intros _ i Hi; lia|reflexivity].
  - rewrite andb_true_iff, negb_true_iff, IH. split.
    + intros [H1 H2] [|i] Hi; [exact H1|]. cbn [app skipn]. apply H2. lia.
    + intros H. split; [exact (H 0 ltac:(lia))|]. intros i Hi. exact (H (S i) ltac:(lia)).
Qed.

Lemma find_closing_body pat : forall body T off,
  pat <> [] -> ends_firstb pat body = true ->
  find_closing pat (body ++ pat ++ T) off = Some (off + length body).
Proof.
  induction body as [|c body IH]; intros T off Hp H.
  - cbn [app length]. destruct pat as [|x pat]; [contradiction|]. cbn [app find_closing].
    change (x :: pat ++ T) with ((x :: pat) ++ T). rewrite starts_with_app. f_equal. lia.
  - destruct (ends_firstb_cons pat c body T H) as [H1 H2].
    cbn [app find_closing]. rewrite H1. rewrite (IH T (S off) Hp H2). cbn [length]. f_equal. lia.
Qed.

Lemma section_body_body pat : forall body T off,
  pat <> [] -> ends_firstb pat body = true ->
  section_body pat (body ++ pat ++ T) off = off + length body + length pat.
Proof.
  induction body as [|c body IH]; intros T off Hp H.
  - cbn [app length]. destruct pat as [|x pat]; [contradiction|]. cbn [app section_body].
    change (x :: pat ++ T) with ((x :: pat) ++ T). rewrite starts_with_app. lia.
  - destruct (ends_firstb_cons pat c body T H) as [H1 H2].
    cbn [app section_body]. rewrite H1. rewrite (IH T (S off) Hp H2). cbn [length]. lia.
Qed.

Lemma step_comment special b T :
  ends_firstb comment_close b = true ->
  step special ((comment_open ++ b ++ comment_close) ++ T) = Step (length (comment_open ++ b ++ comment_close)) [].
Proof.
  intros H. rewrite <- !app_assoc. unfold step.
  match goal with |- context [cdata ?s] => set (S0 := s) end.
  assert (E1 : cdata S0 = None) by reflexivity.
  assert (E2 : comment S0 = Some (length comment_open + length b + length comment_close)).
  { unfold S0, comment, consume_section. rewrite starts_with_app. rewrite skipn_app_exact by reflexivity.
    rewrite section_body_body; [reflexivity|discriminate|exact H]. }
  rewrite E1, E2. cbn [orelse]. rewrite !app_length. f_equal; lia.
Qed.

Lemma step_cdata special b T :
  ends_firstb cdata_close b = true ->
  step special ((cdata_open ++ b ++ cdata_close) ++ T) = Step (length (cdata_open ++ b ++ cdata_close)) [].
Proof.
  intros H. rewrite <- !app_assoc. unfold step.
  match goal with |- context [cdata ?s] => set (S0 := s) end.
  assert (E2 : cdata S0 = Some (length cdata_open + length b + length cdata_close)).
  { unfold S0, cdata, consume_section. rewrite starts_with_app. rewrite skipn_app_exact by reflexivity.
    rewrite section_body_body; [reflexivity|discriminate|exact H]. }
  rewrite E2. cbn [orelse]. rewrite !app_length. f_equal; lia.
Qed.

(* ---- processing instructions *)
Lemma pi_body_render : forall ps T off,
  pi_ok ps = true ->
  pi_body 0 (render_pi_body ps ++ pi_end ++ T) off = off + length (render_pi_body ps) + length pi_end.
Proof.
  induction ps as [|p ps IH]; intros T off H.
  - cbn [render_pi_body flat_map app length]. change (pi_end ++ T) with (c_quest :: c_gt :: T).
    cbn [pi_body]. change (starts_with pi_end (c_quest :: c_gt :: T)) with true. cbv iota. lia.
  - cbn [pi_ok] in H. apply andb_true_iff in H. destruct H as [H H3].
    apply andb_true_iff in H. destruct H as [H1 H2]. apply negb_true_iff in H2.
    assert (Hsw : starts_with pi_end (render_pi_body (p :: ps) ++ pi_end ++ T) = false).
    { rewrite app_assoc. rewrite starts_with_app_long; [exact H2|]. rewrite app_length. cbn [length pi_end]. lia. }
    unfold render_pi_body in *. cbn [flat_map] in *. fold (render_pi_body ps) in *. rewrite <- app_assoc in *.
    destruct p as [c|q body]; cbn [render_ppiece ppiece_ok] in *.
    + apply negb_true_iff in H1. cbn [app] in *. cbn [pi_body]. rewrite Hsw.
      rewrite eat_quoted_not_quote by exact H1. rewrite (IH T (S off) H3). cbn [length]. lia.
    + rewrite <- app_comm_cons in *. rewrite <- app_assoc in *. cbn [app] in *. cbn [pi_body]. rewrite Hsw.
      rewrite (eat_quoted_plain q body _ H1).
      rewrite pi_body_skip by (rewrite app_length; cbn [length]; lia).
      replace (Init.Nat.pred (length body + 2)) with (length (body ++ [q])) by (rewrite app_length; cbn [length]; lia).
      change (body ++ q :: render_pi_body ps ++ pi_end ++ T) with (body ++ [q] ++ render_pi_body ps ++ pi_end ++ T).
      rewrite (app_assoc body [q]). rewrite skipn_app_exact by reflexivity.
      rewrite (IH T _ H3). cbn [length]. rewrite !app_length. cbn [length]. lia.
Qed.

Lemma step_pi special ps T :
  pi_ok ps = true ->
  step special ((pi_start ++ render_pi_body ps ++ pi_end) ++ T) =
  Step (length (pi_start ++ render_pi_body ps ++ pi_end)) [].
Proof.
  intros H. rewrite <- !app_assoc. unfold step.
  match goal with |- context [cdata ?s] => set (S0 := s) end.
  assert (E1 : cdata S0 = None) by reflexivity.
  assert (E2 : comment S0 = None) by reflexivity.
  assert (E3 : processing_instruction S0 =
               Some (length pi_start + length (render_pi_body ps) + length pi_end)).
  { unfold S0, processing_instruction. rewrite starts_with_app. rewrite skipn_app_exact by reflexivity.
    rewrite pi_body_render by exact H. reflexivity. }
  rewrite E1, E2, E3. cbn [orelse]. rewrite !app_length. f_equal; lia.
Qed.

(* ================================================================== the whole scan *)
Lemma step_is_tag_step special c r :
  (c =? c_excl)%N = false -> (c =? c_quest)%N = false ->
  step special (c_lt :: c :: r) = tag_step special (c_lt :: c :: r).
Proof.
  intros H1 H2. unfold step, cdata, comment, processing_instruction, consume_section.
  assert (E : forall x p, (x =? c)%N = false -> starts_with (c_lt :: x :: p) (c_lt :: c :: r) = false).
  { intros x p Hx. cbn [starts_with]. rewrite Hx. reflexivity. }
  change cdata_open with (c_lt :: c_excl :: tl (tl cdata_open)).
  change comment_open with (c_lt :: c_excl :: tl (tl comment_open)).
  change pi_start with (c_lt :: c_quest :: tl (tl pi_start)).
  rewrite !E by (rewrite N.eqb_sym; assumption). reflexivity.
Qed.

Lemma step_open_tag special n l w sc T :
  tag_ok n l w = true ->
  step special (open_tag n l w sc ++ T) =
  tag_finish special (open_tag n l w sc ++ T) n (length n) (if sc then ESelfClose else EOpen)
             (length (open_tag n l w sc)).
Proof.
  intros Hok. rewrite <- (tag_step_open special n l w sc T Hok).
  destruct (tag_ok_parts n l w Hok) as (Hn & _ & _).
  destruct n as [|c r]; [discriminate|]. cbn [name_ok] in Hn. apply andb_true_iff in Hn. destruct Hn as [Hc _].
  unfold open_tag. cbn [app]. apply step_is_tag_step; chars.
Qed.

Lemma step_close_tag special n T :
  name_ok n = true ->
  step special (close_tag n ++ T) = Step (length (close_tag n)) [mkRev n EClose 0 (length (close_tag n))].
Proof.
  intros Hn. rewrite <- (tag_step_close special n T Hn).
  unfold close_tag. cbn [app]. apply step_is_tag_step; reflexivity.
Qed.

Lemma open_tag_not_nil n l w sc : open_tag n l w sc <> [].
Proof. discriminate. Qed.

Lemma scan_go_text special : forall (s T : str) pos,
  forallb (fun c => negb (c =? c_lt)%N) s = true ->
  fst (scan_go special 0 pos (s ++ T)) = fst (scan_go special 0 (pos + N.of_nat (length s))%N T).
Proof.
  induction s as [|c s IH]; intros T pos H.
  - cbn [app length]. rewrite N.add_0_r. reflexivity.
  - cbn [forallb] in H. apply andb_true_iff in H. destruct H as [Hc H]. apply negb_true_iff in Hc.
    pose proof (scan_go_step special [c] (s ++ T) pos [] ltac:(discriminate) (step_plain special c (s ++ T) Hc)) as E.
    cbn [app length map] in E. cbn [app]. rewrite E.
    rewrite IH by exact H. cbn [length]. f_equal. f_equal. lia.
Qed.

(* a `<` that starts nothing is stepped over *)
Lemma step_stray_lt special (s T : str) :
  lt_text_ok s = true -> step special (c_lt :: s ++ T) = Step 1 [].
Proof.
  unfold lt_text_ok. intros H. apply andb_true_iff in H. destruct H as [_ H].
  destruct s as [|c1 r]; [discriminate|]. cbn [app].
  destruct (c1 =? c_excl)%N eqn:E1.
  - apply N.eqb_eq in E1. subst c1. destruct r as [|c2 r]; [discriminate|].
    apply andb_true_iff in H. destruct H as [H1 H2]. apply negb_true_iff in H1. apply negb_true_iff in H2.
    cbn [app]. unfold step, cdata, comment, processing_instruction, consume_section.
    assert (Ea : starts_with cdata_open (c_lt :: c_excl :: c2 :: r ++ T) = false).
    { change cdata_open with (c_lt :: c_excl :: c_lbrack :: tl (tl (tl cdata_open))). cbn [starts_with].
      rewrite !N.eqb_refl. rewrite (N.eqb_sym c_lbrack c2), H2. reflexivity. }
    assert (Eb : starts_with comment_open (c_lt :: c_excl :: c2 :: r ++ T) = false).
    { change comment_open with (c_lt :: c_excl :: c_dash :: tl (tl (tl comment_open))). cbn [starts_with].
      rewrite !N.eqb_refl. rewrite (N.eqb_sym c_dash c2), H1. reflexivity. }
    rewrite Ea, Eb. reflexivity.
  - apply andb_true_iff in H. destruct H as [H H3]. apply andb_true_iff in H. destruct H as [H1 H2].
    apply negb_true_iff in H1. apply negb_true_iff in H2. apply negb_true_iff in H3.
    rewrite step_is_tag_step by assumption.
    unfold tag_step. cbv zeta. cbn [skipn peek_is]. rewrite H2. cbn [skipn ident]. rewrite H1. reflexivity.
Qed.

Lemma lt_text_free s : lt_text_ok s = true -> forallb (fun c => negb (c =? c_lt)%N) s = true.
Proof. unfold lt_text_ok. intros H. apply andb_true_iff in H. tauto. Qed.

Lemma abs_ev_0 pos name ty en :
  abs_ev pos (mkRev name ty 0 en) = mkEv name ty pos (pos + N.of_nat en)%N.
Proof. unfold abs_ev. cbn [r_name r_type r_start r_end]. rewrite N.add_0_r. reflexivity. Qed.

Section Scan.
  Variable special : list (str * option (list str)).

  Definition scan_item_stmt (i : item) : Prop :=
    forall T pos, item_ok special i = true ->
      fst (scan_go special 0 pos (render_item i ++ T)) =
      events_forest (nodes_item pos i) ++
      fst (scan_go special 0 (pos + N.of_nat (length (render_item i)))%N T).
  Definition scan_items_stmt (d : list item) : Prop :=
    forall T pos, forallb (item_ok special) d = true ->
      fst (scan_go special 0 pos (render d ++ T)) =
      events_forest (nodes_items pos d) ++
      fst (scan_go special 0 (pos + N.of_nat (length (render d)))%N T).

  Lemma nodes_item_paired p n l w kids :
    nodes_item p (IPaired n l w kids) =
    (let oe := (p + N.of_nat (length (open_tag n l w false)))%N in
     let cs := (oe + N.of_nat (length (render kids)))%N in
     [Pair n p oe cs (cs + N.of_nat (length (close_tag n)))%N (nodes_items oe kids)]).
  Proof.
    reflexivity.
  Qed.

  Lemma scan_render_go : (forall i, scan_item_stmt i) /\ (forall d, scan_items_stmt d).
  Proof.
    assert (HT : forall s, scan_item_stmt (IText s)).
    { intros s T pos H. cbn [item_ok render_item nodes_item] in *.
      rewrite scan_go_text by exact H. reflexivity. }
    assert (HLt : forall s, scan_item_stmt (ILt s)).
    { intros s T pos H. cbn [item_ok render_item nodes_item] in *.
      pose proof (scan_go_step special [c_lt] (s ++ T) pos [] ltac:(discriminate) (step_stray_lt special s T H)) as E.
      cbn [app length map] in E. cbn [app]. rewrite E. rewrite scan_go_text by (apply lt_text_free; exact H).
      cbn [length events_forest flat_map app]. f_equal. f_equal. lia. }
    assert (HCo : forall b, scan_item_stmt (IComment b)).
    { intros b T pos H. cbn [item_ok render_item nodes_item] in *.
      rewrite (scan_go_step special _ T pos []); [reflexivity|discriminate|apply step_comment; exact H]. }
    assert (HCd : forall b, scan_item_stmt (ICData b)).
    { intros b T pos H. cbn [item_ok render_item nodes_item] in *.
      rewrite (scan_go_step special _ T pos []); [reflexivity|discriminate|apply step_cdata; exact H]. }
    assert (HPi : forall ps, scan_item_stmt (IPI ps)).
    { intros ps T pos H. cbn [item_ok render_item nodes_item] in *.
      rewrite (scan_go_step special _ T pos []); [reflexivity|discriminate|apply step_pi; exact H]. }
    assert (HSe : forall n l w, scan_item_stmt (ISelf n l w)).
    { intros n l w T pos H. cbn [item_ok render_item nodes_item] in *.
      rewrite (scan_go_step special _ T pos [mkRev n ESelfClose 0 (length (open_tag n l w true))]);
        [|apply open_tag_not_nil|rewrite step_open_tag by exact H; reflexivity].
      cbn [map]. rewrite abs_ev_0. reflexivity. }
    assert (HVo : forall n l w, scan_item_stmt (IVoid n l w)).
    { intros n l w T pos H. cbn [item_ok render_item nodes_item] in *.
      apply andb_true_iff in H. destruct H as [Hok Hraw]. apply negb_true_iff in Hraw.
      rewrite (scan_go_step special _ T pos [mkRev n EOpen 0 (length (open_tag n l w false))]);
        [|apply open_tag_not_nil|rewrite step_open_tag by exact Hok; rewrite tag_finish_open by exact Hok;
                                  cbv zeta; rewrite Hraw; reflexivity].
      cbn [map]. rewrite abs_ev_0. reflexivity. }
    assert (HRa : forall n l w b, scan_item_stmt (IRaw n l w b)).
    { intros n l w b T pos H. cbn [item_ok render_item] in *.
      apply andb_true_iff in H. destruct H as [H Hb]. apply andb_true_iff in H. destruct H as [Hok Hraw].
      set (en := length (open_tag n l w false)).
      set (cs := en + length b).
      rewrite (scan_go_step special _ T pos
                 [mkRev n EOpen 0 en; mkRev n EClose cs (cs + length (close_tag n))]).
      - cbn [nodes_item]. cbv zeta. cbn [map events_forest flat_map events_node app]. rewrite abs_ev_0.
        unfold abs_ev. cbn [r_name r_type r_start r_end].
        fold en. f_equal. f_equal.
        f_equal; unfold cs; lia.
      - discriminate.
      - rewrite <- app_assoc. rewrite step_open_tag by exact Hok. rewrite tag_finish_open by exact Hok.
        cbv zeta. rewrite Hraw. fold en. rewrite <- app_assoc.
        rewrite find_closing_body; [|discriminate|exact Hb]. fold cs.
        rewrite !app_length. fold en. f_equal. unfold cs. lia. }
    assert (HQ0 : scan_items_stmt []).
    { intros T pos _. cbn [render flat_map app length nodes_items events_forest]. rewrite N.add_0_r. reflexivity. }
    assert (HQ1 : forall i d, scan_item_stmt i -> scan_items_stmt d -> scan_items_stmt (i :: d)).
    { intros i d Hi Hd T pos H. cbn [forallb] in H. apply andb_true_iff in H. destruct H as [H1 H2].
      unfold render. cbn [flat_map nodes_items]. fold (render d). rewrite <- app_assoc.
      rewrite (Hi _ pos H1). rewrite (Hd T _ H2).
      unfold events_forest. rewrite flat_map_app, <- app_assoc. f_equal. f_equal. f_equal. f_equal.
      rewrite app_length. lia. }
    assert (HPa : forall n l w kids, scan_items_stmt kids -> scan_item_stmt (IPaired n l w kids)).
    { intros n l w kids IH T pos H. cbn [item_ok] in H.
      apply andb_true_iff in H. destruct H as [H Hk]. apply andb_true_iff in H. destruct H as [Hok Hraw].
      apply negb_true_iff in Hraw. destruct (tag_ok_parts n l w Hok) as (Hn & _ & _).
      rewrite nodes_item_paired. cbv zeta.
      cbn [render_item]. fold (render kids). rewrite <- !app_assoc.
      rewrite (scan_go_step special _ _ pos [mkRev n EOpen 0 (length (open_tag n l w false))]);
        [|apply open_tag_not_nil|rewrite step_open_tag by exact Hok; rewrite tag_finish_open by exact Hok;
                                  cbv zeta; rewrite Hraw; reflexivity].
      rewrite (IH _ _ Hk).
      rewrite (scan_go_step special _ T _ [mkRev n EClose 0 (length (close_tag n))]);
        [|discriminate|apply step_close_tag; exact Hn].
      cbn [map]. rewrite !abs_ev_0.
      cbn [events_forest flat_map events_node app]. fold (events_forest (nodes_items (pos + N.of_nat (length (open_tag n l w false)))%N kids)).
      rewrite app_nil_r. rewrite <- !app_assoc. cbn [app]. f_equal. f_equal. f_equal. f_equal. f_equal.
      rewrite !app_length. lia. }
    split.
    - exact (item_ind2 _ _ HT HLt HCo HCd HPi HPa HSe HVo HRa HQ0 HQ1).
    - exact (items_ind2 _ _ HT HLt HCo HCd HPi HPa HSe HVo HRa HQ0 HQ1).
  Qed.

  (* the scanner over the rendered document reports exactly the events of the record *)
  Theorem scan_render d :
    forallb (item_ok special) d = true -> scan special (render d) = (events d, None).
  Proof.
    intros H. pose proof (scan_no_internal_error special (render d)) as Herr.
    destruct scan_render_go as [_ G]. specialize (G d [] 0%N H).
    rewrite app_nil_r in G. cbn [scan_go fst] in G. rewrite app_nil_r in G.
    unfold scan in *. destruct (scan_go special 0 0 (render d)) as [evs err]. cbn [fst snd] in *.
    subst. reflexivity.
  Qed.
End Scan.
