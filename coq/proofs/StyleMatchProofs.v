(* C06, for ALL tables: the fuzzy matcher's direct hit (exact_key_wins), letter-case
   invariance of the scorer, user snippets override built-in ones (dict.update), scope filter. *)
From Coq Require Import PrimFloat ZifyBool.
From Emmet Require Import lib.Base lib.StyleLib model.CssTokenizer model.CssParser model.Score model.Color
     model.CssSnippets model.CssResolve run.StyleShow.
Local Open Scope N_scope.

(* ------------------------------------------------------------------ strings *)
Lemma str_eqb_iff : forall a b, str_eqb a b = true <-> a = b.
Proof.
  induction a as [|x a IH]; destruct b as [|y b]; cbn [str_eqb]; split; intros H; try discriminate; try reflexivity.
  - apply andb_true_iff in H. destruct H as [H1 H2]. apply N.eqb_eq in H1. apply IH in H2. subst. reflexivity.
  - inversion H; subst. rewrite N.eqb_refl. cbn. apply IH. reflexivity.
Qed.

Lemma str_eqb_spec a b : reflect (a = b) (str_eqb a b).
Proof. apply iff_reflect. symmetry. apply str_eqb_iff. Qed.

Lemma str_eqb_refl a : str_eqb a a = true.
Proof. apply str_eqb_iff. reflexivity. Qed.

(* ------------------------------------------------------------------ letter case *)
Lemma lower_c_idem c : lower_c (lower_c c) = lower_c c.
Proof.
  unfold lower_c, in_range, c_A, c_Z.
  destruct ((65 <=? c) && (c <=? 90)) eqn:E; [|rewrite E; reflexivity].
  destruct ((65 <=? c + 32) && (c + 32 <=? 90)) eqn:E2; [lia|reflexivity].
Qed.

Lemma lower_upper_c c : lower_c (upper_c c) = lower_c c.
Proof.
  unfold lower_c, upper_c, in_range, c_A, c_Z, c_a, c_z.
  destruct ((97 <=? c) && (c <=? 122)) eqn:E.
  - destruct ((65 <=? c - 32) && (c - 32 <=? 90)) eqn:E2; [|lia].
    destruct ((65 <=? c) && (c <=? 90)) eqn:E3; lia.
  - reflexivity.
Qed.

Lemma lower_idem s : lower (lower s) = lower s.
Proof. unfold lower. rewrite map_map. apply map_ext. intros; apply lower_c_idem. Qed.

Lemma lower_upper s : lower (upper s) = lower s.
Proof. unfold lower, upper. rewrite map_map. apply map_ext. intros; apply lower_upper_c. Qed.

(* the scorer only sees the lower-cased strings ... *)
Lemma score_lower_only a a' b b' p :
  lower a = lower a' -> lower b = lower b' -> calculate_score a b p = calculate_score a' b' p.
Proof. intros Ha Hb. unfold calculate_score. rewrite Ha, Hb. reflexivity. Qed.

(* ... hence score_case_invariant, for all strings *)
Lemma score_case_invariant a b p : calculate_score a b p = calculate_score (lower a) (lower b) p.
Proof. apply score_lower_only; symmetry; apply lower_idem. Qed.

Lemma score_upper_invariant a b p : calculate_score (upper a) b p = calculate_score a b p.
Proof. apply score_lower_only; [apply lower_upper|reflexivity]. Qed.

(* equal names (up to case) score exactly 1 *)
Lemma score_equal_names a b p : lower a = lower b -> calculate_score a b p = f_one.
Proof. intros H. unfold calculate_score. rewrite H, str_eqb_refl. reflexivity. Qed.

Lemma f_one_eqb : f_eqb f_one f_one = true.
Proof. reflexivity. Qed.

(* ------------------------------------------------------------------ exact_key_wins *)
Section Fbm.
  Context {A : Type} (key : A -> str).

  Lemma fbm_loop_direct abbr partial : forall pre it post ms m,
    lower (key it) = lower abbr ->
    Forall (fun x => lower (key x) <> lower abbr) pre ->
    exists ms', fbm_loop key abbr partial (pre ++ it :: post) ms m = (Some it, ms', true).
  Proof.
    induction pre as [|x pre IH]; intros it post ms m Hit Hpre.
    - cbn [app fbm_loop]. rewrite (score_equal_names abbr (key it) partial) by (symmetry; exact Hit).
      rewrite f_one_eqb. rewrite <- Hit, str_eqb_refl. cbn [andb]. eexists; reflexivity.
    - inversion Hpre as [|? ? Hx Hpre']; subst. cbn [app fbm_loop].
      assert (E : str_eqb (lower abbr) (lower (key x)) = false).
      { destruct (str_eqb_spec (lower abbr) (lower (key x))) as [e|]; [symmetry in e; contradiction|reflexivity]. }
      rewrite E, andb_false_r.
      destruct (negb (f_is_zero (calculate_score abbr (key x) partial)) && f_leb ms (calculate_score abbr (key x) partial));
        apply IH; assumption.
  Qed.

  (* the first item whose name equals the abbreviation (up to letter case) is returned,
     whatever the other items score and whatever the minimum score is *)
  Theorem exact_key_wins abbr min_score partial pre it post :
    lower (key it) = lower abbr ->
    Forall (fun x => lower (key x) <> lower abbr) pre ->
    find_best_match key abbr (pre ++ it :: post) min_score partial = Some it.
  Proof.
    intros Hit Hpre. unfold find_best_match.
    destruct (fbm_loop_direct abbr partial pre it post f_zero None Hit Hpre) as [ms' H]. rewrite H. reflexivity.
  Qed.

  (* with names distinct up to letter case: THE item under that name *)
  Corollary exact_key_wins_unique abbr min_score partial items it :
    In it items -> lower (key it) = lower abbr ->
    (forall x, In x items -> lower (key x) = lower abbr -> x = it) ->
    find_best_match key abbr items min_score partial = Some it.
  Proof.
    intros Hin Hit Huniq.
    (* split at the FIRST item with that name *)
    assert (Hsplit : exists pre x post, items = pre ++ x :: post /\ lower (key x) = lower abbr /\
                                        Forall (fun y => lower (key y) <> lower abbr) pre).
    { clear Huniq. induction items as [|y items IH]; [contradiction|].
      destruct (str_eqb_spec (lower (key y)) (lower abbr)) as [e|ne].
      - exists [], y, items. split; [reflexivity|]. split; [exact e|constructor].
      - destruct Hin as [->|Hin]; [contradiction|].
        destruct (IH Hin) as [pre [x [post [E [Hx Hp]]]]]. exists (y :: pre), x, post.
        split; [rewrite E; reflexivity|]. split; [exact Hx|constructor; assumption]. }
    destruct Hsplit as [pre [x [post [E [Hx Hp]]]]].
    assert (x = it). { apply Huniq; [rewrite E; apply in_or_app; right; left; reflexivity|exact Hx]. }
    subst x. rewrite E. apply exact_key_wins; assumption.
  Qed.
End Fbm.

(* ------------------------------------------------------------------ user_overrides: dict.update(user snippets) *)
Lemma dict_set_assoc {A} k k' (v : A) : forall d,
  assoc_str k (dict_set k' v d) = if str_eqb k k' then Some v else assoc_str k d.
Proof.
  induction d as [|[k2 v2] d IH]; cbn [dict_set assoc_str].
  - destruct (str_eqb k k'); reflexivity.
  - destruct (str_eqb_spec k' k2) as [e|ne]; cbn [assoc_str].
    + subst k2. destruct (str_eqb k k'); reflexivity.
    + rewrite IH. destruct (str_eqb_spec k k2) as [e2|ne2]; [|reflexivity].
      subst k2. destruct (str_eqb_spec k k') as [e3|]; [subst; contradiction|reflexivity].
Qed.

Lemma assoc_str_app_one {A} k k1 (v1 : A) : forall l,
  assoc_str k (l ++ [(k1, v1)]) =
  match assoc_str k l with Some v => Some v | None => if str_eqb k k1 then Some v1 else None end.
Proof.
  induction l as [|[k2 v2] l IH]; cbn [app assoc_str]; [reflexivity|].
  destruct (str_eqb k k2); [reflexivity|exact IH].
Qed.

(* the merged table maps k to the LAST user binding of k, else to the base binding *)
Theorem user_overrides : forall (user base : list (str * str)) k,
  assoc_str k (update_snippets base user) =
  match assoc_str k (rev user) with Some v => Some v | None => assoc_str k base end.
Proof.
  unfold update_snippets.
  induction user as [|[k1 v1] user IH]; intros base k; cbn [fold_left rev]; [reflexivity|].
  rewrite IH. cbn [fst snd]. rewrite assoc_str_app_one, dict_set_assoc.
  destruct (assoc_str k (rev user)); [reflexivity|]. destruct (str_eqb k k1); reflexivity.
Qed.

Corollary user_overrides_single base k v :
  assoc_str k (update_snippets base [(k, v)]) = Some v.
Proof. rewrite user_overrides. cbn. rewrite str_eqb_refl. reflexivity. Qed.

Corollary user_untouched base user k :
  assoc_str k (rev user) = None -> assoc_str k (update_snippets base user) = assoc_str k base.
Proof. intros H. rewrite user_overrides, H. reflexivity. Qed.

(* ------------------------------------------------------------------ scope_filter *)
Definition with_context (cfg : sconfig) (name : str) : Prop := c_context cfg = Some name.

Theorem scope_section_only_raw cfg sn :
  with_context cfg scope_section ->
  Forall (fun s => sn_is_property s = false) (get_snippets_for_scope sn cfg) /\
  (forall s, In s sn -> sn_is_property s = false -> In s (get_snippets_for_scope sn cfg)).
Proof.
  unfold with_context, get_snippets_for_scope. intros H. rewrite H.
  rewrite str_eqb_refl. split.
  - apply Forall_forall. intros s Hs. apply filter_In in Hs. destruct Hs as [_ Hs].
    destruct (sn_is_property s); [discriminate|reflexivity].
  - intros s Hin Hp. apply filter_In. split; [exact Hin|]. rewrite Hp. reflexivity.
Qed.

Theorem scope_property_only_props cfg sn :
  with_context cfg scope_property ->
  Forall (fun s => sn_is_property s = true) (get_snippets_for_scope sn cfg) /\
  (forall s, In s sn -> sn_is_property s = true -> In s (get_snippets_for_scope sn cfg)).
Proof.
  unfold with_context, get_snippets_for_scope. intros H. rewrite H.
  replace (str_eqb scope_property scope_section) with false by reflexivity.
  rewrite str_eqb_refl. split.
  - apply Forall_forall. intros s Hs. apply filter_In in Hs. destruct Hs as [_ Hs]. exact Hs.
  - intros s Hin Hp. apply filter_In. split; assumption.
Qed.

(* the matcher only ever returns an item of the list it is given: with the scope filter in
   front, a @@section context can only select raw snippets, @@property only property snippets *)
Lemma fbm_loop_in {A} (key : A -> str) abbr partial : forall items ms m m' ms' d,
  fbm_loop key abbr partial items ms m = (m', ms', d) ->
  match m' with Some x => In x items \/ m = Some x | None => True end.
Proof.
  induction items as [|it items IH]; intros ms m m' ms' d H; cbn [fbm_loop] in H.
  - inversion H; subst. destruct m'; [right; reflexivity|exact I].
  - destruct (f_eqb (calculate_score abbr (key it) partial) f_one && str_eqb (lower abbr) (lower (key it))).
    + inversion H; subst. left. left. reflexivity.
    + destruct (negb (f_is_zero (calculate_score abbr (key it) partial)) && f_leb ms (calculate_score abbr (key it) partial)).
      * apply IH in H. destruct m' as [x|]; [|exact I]. destruct H as [H|H].
        -- left. right. exact H.
        -- inversion H; subst. left. left. reflexivity.
      * apply IH in H. destruct m' as [x|]; [|exact I]. destruct H as [H|H]; [left; right; exact H|right; exact H].
Qed.

Theorem find_best_match_in {A} (key : A -> str) abbr items min_score partial x :
  find_best_match key abbr items min_score partial = Some x -> In x items.
Proof.
  unfold find_best_match. destruct (fbm_loop key abbr partial items f_zero None) as [[m ms] d] eqn:E.
  pose proof (fbm_loop_in key abbr partial items f_zero None m ms d E) as Hin.
  intros H. assert (m = Some x).
  { destruct d; [exact H|]. destruct (f_leb min_score ms); [exact H|discriminate]. }
  subst m. destruct Hin as [Hin|Hin]; [exact Hin|discriminate].
Qed.
