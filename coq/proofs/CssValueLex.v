(* C06 user value snippets, source level, part 1: the tokenizer on the lexemes of a written value
   (value mode: literals run over keyword characters).  One lemma per lexeme: a keyword, one blank, a quoted
   string, an opening / closing parenthesis, a comma; numbers and colours are proofs/StyleTokProofs.v
   (cconsume_number, cconsume_color). *)
From Coq Require Import ZArith List Bool Lia ZifyBool String.
From Emmet Require Import lib.Base lib.StyleLib gen.GenChars model.CssTokenizer
     proofs.CssTokenizerProofs proofs.StyleTokProofs.
Import ListNotations.
Local Open Scope nat_scope.

(* ---- "no token of this kind starts here", by the first character *)
Lemma custom_none (c : char) (r : str) : (c =? c_dash)%N = false -> ccustom_property (c :: r) = CNone.
Proof. intros H. unfold ccustom_property. destruct r; [reflexivity|]. rewrite H. reflexivity. Qed.
Lemma field_none (c : char) (r : str) : (c =? c_dollar)%N = false -> cfield (c :: r) = CNone.
Proof. intros H. unfold cfield. destruct r; [reflexivity|]. rewrite H. reflexivity. Qed.
Lemma number_none (c : char) (r : str) : (c =? c_dash)%N = false -> is_number c = false -> (c =? c_dot)%N = false ->
  cnumber_value (c :: r) = CNone.
Proof.
  intros Hd Hn Hdot. unfold cnumber_value, consume_number. cbn [cpeek_is]. rewrite Hd.
  unfold number_body. cbn [cspan]. rewrite Hn. cbn [skipn cpeek_is]. rewrite Hdot. reflexivity.
Qed.
Lemma color_none (c : char) (r : str) : (c =? c_hash)%N = false -> ccolor_value (c :: r) = CNone.
Proof. intros H. unfold ccolor_value. rewrite H. reflexivity. Qed.
Lemma string_none (c : char) (r : str) : is_quote c = false -> cstring_value (c :: r) = CNone.
Proof. intros H. unfold cstring_value. rewrite H. reflexivity. Qed.
Lemma bracket_none (c : char) (r : str) : is_cbracket c = false -> cbracket (c :: r) = CNone.
Proof. intros H. unfold cbracket. rewrite H. reflexivity. Qed.
Lemma operator_none (c : char) (r : str) : assoc_N c css_operator_map = None -> coperator (c :: r) = CNone.
Proof. intros H. unfold coperator. rewrite H. reflexivity. Qed.
Lemma space_none (c : char) (r : str) : is_space c = false -> cwhite_space (c :: r) = CNone.
Proof. intros H. unfold cwhite_space. cbn [cspan]. rewrite H. reflexivity. Qed.

(* ---- a keyword: a letter, then letters / digits / _ / - ; followed by none of those *)
Definition kw_ok (w : str) : Prop :=
  match w with
  | c :: tl => is_alpha c = true /\ Forall (fun x => is_keyword x = true) tl
  | [] => False
  end.

Lemma cconsume_keyword at_start (w after : str) :
  kw_ok w -> cpeek_p is_keyword after = false ->
  cconsume false at_start (w ++ after) = CTok (CLiteral w) (length w).
Proof.
  destruct w as [|k0 ktl]; [intros []|]. intros [Hk0 Htl] Hafter.
  destruct (alpha_facts_of k0 Hk0) as [Hnum [Hop [Hsp [Hq [Hbr [Hip [Haw [Hcl [Hd [Hdl [Hdot Hh]]]]]]]]]]].
  cbn [app]. unfold cconsume.
  rewrite (custom_none _ _ Hd); cbn [corelse]. rewrite (field_none _ _ Hdl); cbn [corelse].
  rewrite (number_none _ _ Hd Hnum Hdot); cbn [corelse]. rewrite (color_none _ _ Hh); cbn [corelse].
  rewrite (string_none _ _ Hq); cbn [corelse]. rewrite (bracket_none _ _ Hbr); cbn [corelse].
  rewrite (operator_none _ _ Hop); cbn [corelse]. rewrite (space_none _ _ Hsp); cbn [corelse].
  unfold cliteral. rewrite Hip, Haw. rewrite (cspan_app is_keyword ktl after Htl Hafter).
  cbn [length]. f_equal. f_equal.
  change (k0 :: ktl ++ after) with ((k0 :: ktl) ++ after).
  change (S (length ktl)) with (length (k0 :: ktl)). apply firstn_app_exact.
Qed.

(* ---- one blank *)
Lemma cconsume_blank short at_start (after : str) :
  cpeek_p is_space after = false -> cconsume short at_start (c_space :: after) = CTok CWhiteSpace 1.
Proof.
  intros Ha. unfold cconsume.
  rewrite (custom_none c_space after eq_refl); cbn [corelse]. rewrite (field_none c_space after eq_refl); cbn [corelse].
  rewrite (number_none c_space after eq_refl eq_refl eq_refl); cbn [corelse].
  rewrite (color_none c_space after eq_refl); cbn [corelse]. rewrite (string_none c_space after eq_refl); cbn [corelse].
  rewrite (bracket_none c_space after eq_refl); cbn [corelse].
  rewrite (operator_none c_space after ltac:(vm_compute; reflexivity)); cbn [corelse].
  unfold cwhite_space. cbn [cspan]. change (is_space c_space) with true. cbv iota.
  destruct after as [|a r]; [reflexivity|]. cbn [cpeek_p] in Ha. cbn [cspan]. rewrite Ha. reflexivity.
Qed.

(* ---- a quoted string whose body does not contain its quote *)
Lemma find_quote_app (q : char) (body rest : str) : Forall (fun c => (c =? q)%N = false) body ->
  find_quote q (body ++ q :: rest) = Some (length body).
Proof.
  induction 1 as [|c body Hc _ IH]; cbn [app find_quote length]; [rewrite N.eqb_refl; reflexivity|].
  rewrite Hc, IH. reflexivity.
Qed.
Definition quote_char (single : bool) : char := if single then c_squote else c_dquote.

Lemma cconsume_string short at_start single (body after : str) :
  Forall (fun c => (c =? quote_char single)%N = false) body ->
  cconsume short at_start (quote_char single :: body ++ quote_char single :: after)
  = CTok (CString body single) (length body + 2).
Proof.
  intros Hb. set (q := quote_char single).
  assert (Hq : is_quote q = true) by (destruct single; reflexivity).
  assert (F : (q =? c_dash)%N = false /\ (q =? c_dollar)%N = false /\ is_number q = false /\ (q =? c_dot)%N = false /\
              (q =? c_hash)%N = false) by (destruct single; vm_compute; repeat split; reflexivity).
  destruct F as [F1 [F2 [F3 [F4 F5]]]].
  unfold cconsume.
  rewrite (custom_none _ _ F1); cbn [corelse]. rewrite (field_none _ _ F2); cbn [corelse].
  rewrite (number_none _ _ F1 F3 F4); cbn [corelse]. rewrite (color_none _ _ F5); cbn [corelse].
  unfold cstring_value. rewrite Hq. fold q. rewrite (find_quote_app q body after Hb). cbn [corelse].
  rewrite firstn_app_exact. f_equal. unfold q. destruct single; reflexivity.
Qed.

(* ---- parentheses and the comma *)
Lemma cconsume_open short at_start (after : str) : cconsume short at_start (c_lparen :: after) = CTok (CBracket true) 1.
Proof.
  unfold cconsume.
  rewrite (custom_none c_lparen after eq_refl); cbn [corelse]. rewrite (field_none c_lparen after eq_refl); cbn [corelse].
  rewrite (number_none c_lparen after eq_refl eq_refl eq_refl); cbn [corelse].
  rewrite (color_none c_lparen after eq_refl); cbn [corelse]. rewrite (string_none c_lparen after eq_refl); cbn [corelse].
  reflexivity.
Qed.
Lemma cconsume_close short at_start (after : str) : cconsume short at_start (c_rparen :: after) = CTok (CBracket false) 1.
Proof.
  unfold cconsume.
  rewrite (custom_none c_rparen after eq_refl); cbn [corelse]. rewrite (field_none c_rparen after eq_refl); cbn [corelse].
  rewrite (number_none c_rparen after eq_refl eq_refl eq_refl); cbn [corelse].
  rewrite (color_none c_rparen after eq_refl); cbn [corelse]. rewrite (string_none c_rparen after eq_refl); cbn [corelse].
  reflexivity.
Qed.
Lemma coperator_comma (after : str) : coperator (c_comma :: after) = CTok (COperator c_comma) 1.
Proof. vm_compute. reflexivity. Qed.
Lemma cconsume_comma short at_start (after : str) : cconsume short at_start (c_comma :: after) = CTok (COperator c_comma) 1.
Proof.
  unfold cconsume.
  rewrite (custom_none c_comma after eq_refl); cbn [corelse]. rewrite (field_none c_comma after eq_refl); cbn [corelse].
  rewrite (number_none c_comma after eq_refl eq_refl eq_refl); cbn [corelse].
  rewrite (color_none c_comma after eq_refl); cbn [corelse]. rewrite (string_none c_comma after eq_refl); cbn [corelse].
  rewrite (bracket_none c_comma after eq_refl); cbn [corelse]. rewrite coperator_comma. reflexivity.
Qed.
