(* C01: implicit tag names (emmet/markup/implicit_tag.py) over the generated ELEMENT_MAP. *)
From Coq Require Import String.
From Emmet Require Import lib.Base lib.StrLit model.MarkupConvert model.MarkupResolve gen.GenImplicit.

Lemma implicit_mapped cfg p n :
  assoc_str (lower p) element_map = Some n -> implicit_name_of cfg (Some (Some p)) = n.
Proof. intros H. unfold implicit_name_of. rewrite H. reflexivity. Qed.

Lemma implicit_unmapped cfg p :
  assoc_str (lower p) element_map = None ->
  implicit_name_of cfg (Some (Some p)) =
    if mem_str (lower (lower p)) (mc_inline cfg) then S "span" else S "div".
Proof. intros H. unfold implicit_name_of. rewrite H. reflexivity. Qed.

(* the documented table: li in ul/ol, tr in table/tbody/thead/tfoot, td in tr,
   option in select/optgroup, span inside p *)
Definition documented_implicit : list (str * str) :=
  [(S "ul", S "li"); (S "ol", S "li"); (S "table", S "tr"); (S "tbody", S "tr"); (S "thead", S "tr");
   (S "tfoot", S "tr"); (S "tr", S "td"); (S "select", S "option"); (S "optgroup", S "option"); (S "p", S "span")].

Lemma documented_in_map :
  forallb (fun pn => match assoc_str (lower (fst pn)) element_map with
                     | Some m => str_eqb m (snd pn)
                     | None => false
                     end) documented_implicit = true.
Proof. vm_compute. reflexivity. Qed.

Lemma str_eqb_eq a b : str_eqb a b = true -> a = b.
Proof.
  revert b. induction a as [|x a IH]; destruct b as [|y b]; cbn [str_eqb]; try discriminate; [reflexivity|].
  intros H. apply andb_prop in H. destruct H as [H1 H2]. apply N.eqb_eq in H1. subst. f_equal. apply IH, H2.
Qed.

Theorem implicit_documented cfg p n :
  In (p, n) documented_implicit -> implicit_name_of cfg (Some (Some p)) = n.
Proof.
  intros H. apply implicit_mapped.
  pose proof documented_in_map as Hall. rewrite forallb_forall in Hall. specialize (Hall _ H).
  cbn [fst snd] in Hall. destruct (assoc_str (lower p) element_map) as [m|]; [|discriminate].
  apply str_eqb_eq in Hall. subst. reflexivity.
Qed.
