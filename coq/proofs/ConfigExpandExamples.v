(* C20 -- non-vacuity of the expand-model theorems on the GENERATED built-in tables: the option
   output.indent = two spaces given by the call's own config, or by the global config for the type, are two
   different layer stacks with the same effective lookups. *)
From Coq Require Import List Bool NArith ZArith.
From Emmet Require Import lib.Base lib.StyleLib lib.ConfigLib lib.ConfigVal gen.GenLayerOrder model.Config
     proofs.ConfigProofs proofs.ConfigExpand proofs.ConfigExpandTables.
Import ListNotations.

Definition two_spaces : cval := CStr [32; 32]%N.
(* expand(abbr, {'options': {'output.indent': '  '}}, {}) *)
Definition ex_u1 : user_config cval :=
  {| u_type := None; u_syntax := None; u_cfg := [(s_options, [(k_output_indent, two_spaces)])]; u_other := [] |}.
Definition ex_g1 : cfg_table cval := [].
(* expand(abbr, {}, {'markup': {'options': {'output.indent': '  '}}}) *)
Definition ex_u2 : user_config cval := {| u_type := None; u_syntax := None; u_cfg := []; u_other := [] |}.
Definition ex_g2 : cfg_table cval := [(s_markup, [(s_options, [(k_output_indent, two_spaces)])])].

Lemma ex_same_effective : same_effective builtin_cvals ex_u1 ex_g1 ex_u2 ex_g2.
Proof.
  split; [reflexivity|]. split; [reflexivity|]. split; [|reflexivity].
  intros sec k H.
  change (resolved_type ex_u1) with s_markup. change (resolved_type ex_u2) with s_markup.
  change (resolved_syntax builtin_cvals ex_u1) with s_html. change (resolved_syntax builtin_cvals ex_u2) with s_html.
  unfold spec_lookup, documented_order. cbn [rev app first_some].
  unfold layer_value, layer_section.
  cbn [source_of_layer source_cfg sel_name config_env e_user e_global e_default e_syntax_config u_cfg ex_u1 ex_u2 ex_g1 ex_g2].
  change (table_get (@nil (str * layer_cfg cval)) s_html) with (@nil (str * dict cval)).
  change (table_get (@nil (str * layer_cfg cval)) s_markup) with (@nil (str * dict cval)).
  change (table_get [(s_markup, [(s_options, [(k_output_indent, two_spaces)])])] s_html) with (@nil (str * dict cval)).
  change (table_get [(s_markup, [(s_options, [(k_output_indent, two_spaces)])])] s_markup)
    with [(s_options, [(k_output_indent, two_spaces)])].
  change (section_of (@nil (str * dict cval)) sec) with (@nil (str * cval)).
  cbn [dlast]. reflexivity.
Qed.
