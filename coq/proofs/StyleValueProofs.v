(* C05 end to end, from the token list on: a property name followed by numbers and
   colours (separated by `-` / `:` or juxtaposed), optionally `!`, is parsed into one
   property, resolved through its snippet and the unit rule, and printed as
      <property><between><values joined by single spaces>[ !important]<after>
   for ALL value sequences, all configurations without context/JSON, all snippet tables in
   which the name selects a property snippet.  The string -> token step is covered by the
   dash-rule lemmas (StyleDashProofs) and C18's tiling theorem; it is the missing link of
   the full [value_seq_expand] (see props/C05.v). *)
From Coq Require Import ZifyBool String PrimFloat.
From Emmet Require Import lib.Base lib.StyleLib model.CssTokenizer model.CssParser model.Score model.Color
     model.CssSnippets model.CssResolve model.CssFormat proofs.StyleProofs proofs.StyleMatchProofs.
Local Open Scope nat_scope.

(* ------------------------------------------------------------------ shapes *)
Definition is_numcol (k : ckind) : bool :=
  match k with CNumber _ _ _ | CColor _ _ _ _ _ => true | _ => false end.

(* [body_of ts vs]: [ts] is the value tokens [vs] (numbers / colours) with any number of value
   delimiters (`-`, `:`) in between *)
Inductive body_of : list ctoken -> list ctoken -> Prop :=
| body_nil : body_of [] []
| body_val t ts vs : is_numcol (ck t) = true -> body_of ts vs -> body_of (t :: ts) (t :: vs)
| body_delim d ts vs : k_is_value_delimiter (ck d) = true -> body_of ts vs -> body_of (d :: ts) vs.

(* a token at which consume_value stops *)
Definition stops (in_arg : bool) (rest : list ctoken) : Prop :=
  match rest with
  | [] => True
  | r :: _ => k_is_value (ck r) = false /\ k_is_value_delimiter (ck r) = false /\
              (in_arg && k_is_white_space (ck r)) = false
  end.

Lemma numcol_value k : is_numcol k = true -> k_is_value k = true /\ k_is_literal k = false.
Proof. destruct k; cbn; intros H; try discriminate; split; reflexivity. Qed.

Lemma delim_not_value k : k_is_value_delimiter k = true -> k_is_value k = false.
Proof. destruct k; cbn; intros H; try discriminate; reflexivity. Qed.

Lemma p_value_body : forall ts vs, body_of ts vs ->
  forall f in_arg acc rest, length ts < f -> stops in_arg rest ->
    p_value f in_arg (ts ++ rest) acc = Ok (rev acc ++ map tokv vs, rest).
Proof.
  induction 1 as [|t ts vs Ht Hb IH|d ts vs Hd Hb IH]; intros f in_arg acc rest Hf Hs.
  - cbn [app map]. rewrite app_nil_r. destruct f as [|f]; [cbn in Hf; lia|]. cbn [p_value].
    destruct rest as [|r rest']; [reflexivity|].
    destruct Hs as [H1 [H2 H3]]. rewrite H1, H2, H3. reflexivity.
  - destruct f as [|f]; [cbn in Hf; lia|]. cbn [length] in Hf. cbn [app p_value].
    destruct (numcol_value _ Ht) as [Hv Hl]. rewrite Hv.
    replace (match ck t with
             | CLiteral name =>
                 match ts ++ rest with
                 | [] => p_value f in_arg (ts ++ rest) (tokv t :: acc)
                 | b :: ts'' =>
                     if k_is_open_bracket (ck b)
                     then let* (args, rest0) := p_args f ts'' [] in p_value f in_arg rest0 (VFunc name args :: acc)
                     else p_value f in_arg (ts ++ rest) (tokv t :: acc)
                 end
             | _ => p_value f in_arg (ts ++ rest) (tokv t :: acc)
             end) with (p_value f in_arg (ts ++ rest) (tokv t :: acc))
      by (destruct (ck t); try reflexivity; discriminate).
    rewrite IH by (assumption || lia). cbn [rev map]. rewrite <- app_assoc. reflexivity.
  - destruct f as [|f]; [cbn in Hf; lia|]. cbn [length] in Hf. cbn [app p_value].
    rewrite (delim_not_value _ Hd), Hd. cbn [orb]. apply IH; [lia|assumption].
Qed.

(* ------------------------------------------------------------------ parser: one property *)
Definition bang_tail (bang : bool) (b : ctoken) : list ctoken := if bang then [b] else [].

Lemma stops_bang b tl : k_is_important (ck b) = true -> stops false (b :: tl).
Proof.
  intros H. cbn [stops]. destruct (ck b) as [| | | | | | |o|]; cbn in H; try discriminate.
  unfold k_is_value_delimiter, k_is_operator. apply N.eqb_eq in H. subst o. repeat split; reflexivity.
Qed.

Lemma body_first_not_bang ts vs t ts' :
  body_of ts vs -> ts = t :: ts' -> k_is_important (ck t) = false /\ k_is_bracket (ck t) = false.
Proof.
  intros Hb E. destruct Hb as [|t0 ts0 vs0 Ht _|d ts0 vs0 Hd _]; try discriminate; inversion E; subst.
  - destruct (ck t); cbn in Ht; try discriminate; split; reflexivity.
  - destruct (ck t) as [| | | | | | |o|]; cbn in Hd; try discriminate. split; [|reflexivity].
    unfold k_is_important, k_is_operator. unfold k_is_value_delimiter, k_is_operator in Hd.
    apply orb_true_iff in Hd. destruct Hd as [Hd|Hd]; apply N.eqb_eq in Hd; subst o; reflexivity.
Qed.

Lemma p_prop_loop_body ts vs bang b f :
  body_of ts vs -> vs <> [] -> k_is_important (ck b) = true -> 3 <= f ->
  p_prop_loop f false (ts ++ bang_tail bang b) false [] = Ok (bang, [map tokv vs], []).
Proof.
  intros Hb Hne Hbang Hf.
  destruct f as [|f]; [lia|]. cbn [p_prop_loop].
  destruct ts as [|t ts'] eqn:Ets; [inversion Hb; subst; contradiction|].
  destruct (body_first_not_bang _ _ _ _ Hb eq_refl) as [Hnb _].
  cbn [app]. rewrite Hnb.
  change (t :: ts' ++ bang_tail bang b) with ((t :: ts') ++ bang_tail bang b).
  rewrite (p_value_body _ _ Hb _ false [] (bang_tail bang b)).
  - cbn [bind rev app]. destruct (map tokv vs) as [|x v'] eqn:Em; [destruct vs; [contradiction|discriminate]|].
    destruct f as [|f]; [lia|]. destruct bang; cbn [bang_tail p_prop_loop].
    + rewrite Hbang. destruct f as [|f]; [lia|]. reflexivity.
    + reflexivity.
  - rewrite app_length. cbn [length]. lia.
  - destruct bang; cbn [bang_tail]; [apply stops_bang; exact Hbang|exact I].
Qed.

(* parser on  <name> [delimiter] <numbers / colours with delimiters> [!] *)
Theorem parser_value_seq (lit0 b : ctoken) key ts vs bang :
  ck lit0 = CLiteral key -> body_of ts vs -> vs <> [] -> k_is_important (ck b) = true ->
  parser false (lit0 :: ts ++ bang_tail bang b) = Ok [mkProp (Some key) [map tokv vs] bang false].
Proof.
  intros Hl Hb Hne Hbang. unfold parser. cbn [length p_loop].
  unfold p_property. rewrite Hl. cbn [negb andb].
  destruct ts as [|t ts'] eqn:Ets; [inversion Hb; subst; contradiction|].
  destruct (body_first_not_bang _ _ _ _ Hb eq_refl) as [Hnb Hnbr].
  assert (Hfs : is_function_start (lit0 :: (t :: ts') ++ bang_tail bang b) = false).
  { cbn [is_function_start app]. rewrite Hnbr. apply andb_false_r. }
  rewrite Hfs. cbn [negb].
  (* the optional delimiter right after the name *)
  set (ts1 := match (t :: ts') ++ bang_tail bang b with
              | d :: ts'' => if k_is_value_delimiter (ck d) then ts'' else (t :: ts') ++ bang_tail bang b
              | [] => (t :: ts') ++ bang_tail bang b
              end).
  assert (H1 : exists ts0, ts1 = ts0 ++ bang_tail bang b /\ body_of ts0 vs /\ length ts0 <= length (t :: ts')).
  { subst ts1. cbn [app]. destruct (k_is_value_delimiter (ck t)) eqn:Ed.
    - inversion Hb as [|t0 ts0 vs0 Ht Hb'|d ts0 vs0 Hd Hb']; subst.
      + destruct (ck t); cbn in Ht, Ed; discriminate.
      + exists ts'. split; [reflexivity|]. split; [exact Hb'|cbn [length]; lia].
    - exists (t :: ts'). split; [reflexivity|]. split; [exact Hb|lia]. }
  destruct H1 as [ts0 [E1 [Hb0 Hlen]]]. rewrite E1.
  rewrite (p_prop_loop_body ts0 vs bang b _ Hb0 Hne Hbang).
  - cbn [bind]. destruct (length (t :: ts') + length (bang_tail bang b)) eqn:El; reflexivity.
  - rewrite app_length. destruct ts0 as [|x ts0']; [inversion Hb0; subst; contradiction|]. cbn [length]. lia.
Qed.

(* ------------------------------------------------------------------ resolver *)
Lemma find_char_from_here ch : forall pre r idx,
  find_char_from ch (pre ++ ch :: r) (length pre) idx = Some (idx + length pre).
Proof.
  induction pre as [|c pre IH]; intros r idx; cbn [app length find_char_from].
  - rewrite N.eqb_refl. f_equal. lia.
  - rewrite IH. f_equal. lia.
Qed.

Lemma get_unmatched_part_self : forall abbr pre, get_unmatched_part abbr (pre ++ abbr) (length pre) = [].
Proof.
  induction abbr as [|ch r IH]; intros pre; cbn [get_unmatched_part]; [reflexivity|].
  rewrite find_char_from_here. cbn [Nat.add].
  replace (pre ++ ch :: r) with ((pre ++ [ch]) ++ r) by (rewrite <- app_assoc; reflexivity).
  replace (S (length pre)) with (length (pre ++ [ch])) by (rewrite app_length; cbn; lia).
  apply IH.
Qed.

Lemma get_unmatched_part_same k : get_unmatched_part k k 0 = [].
Proof. exact (get_unmatched_part_self k []). Qed.

Lemma resolve_value_keywords_numcol cfg sn ms (vs : list ctoken) :
  Forall (fun t => is_numcol (ck t) = true) vs ->
  resolve_value_keywords cfg sn ms [map tokv vs] = [map tokv vs].
Proof.
  intros H. unfold resolve_value_keywords. cbn [map]. f_equal.
  induction H as [|t vs Ht _ IH]; [reflexivity|]. cbn [map]. rewrite IH. f_equal.
  unfold tokv. destruct (ck t); cbn in Ht; try discriminate; reflexivity.
Qed.

Definition plain_cfg (cfg : sconfig) : Prop := c_context cfg = None /\ c_json cfg = false.

Lemma resolve_node_value_seq cfg sn key key' prop value kws deps (vs : list ctoken) bang :
  c_context cfg = None ->
  str_eqb key gradient_name = false ->
  find_best_match sn_key key sn (c_min_score cfg) true = Some (SnProp key' prop value kws deps) ->
  get_unmatched_part key key' 0 = [] ->
  vs <> [] -> Forall (fun t => is_numcol (ck t) = true) vs ->
  resolve_node cfg sn (mkProp (Some key) [map tokv vs] bang false) =
  Ok (mkProp (Some prop) [map (resolve_numeric_token cfg (Some prop)) (map tokv vs)] bang true).
Proof.
  intros Hc Hg Hm Hu Hne Hall. unfold resolve_node.
  assert (Hgr : resolve_gradient cfg (mkProp (Some key) [map tokv vs] bang false) = None).
  { unfold resolve_gradient, in_section_scope. rewrite Hc. cbn [pvalue pname]. rewrite Hg.
    destruct vs as [|t [|t2 vs']]; [contradiction| |reflexivity].
    cbn [map]. unfold tokv. reflexivity. }
  rewrite Hgr. unfold is_value_scope. rewrite Hc. cbn [pname pvalue pimportant]. cbv zeta.
  rewrite Hm. cbn [bind]. unfold resolve_as_property. rewrite Hu. cbn [pvalue pimportant].
  rewrite resolve_value_keywords_numcol by assumption. cbn [pname].
  reflexivity.
Qed.

(* ------------------------------------------------------------------ formatter *)
(* SPEC: how one value prints *)
Definition value_text (cfg : sconfig) (prop : str) (t : ctoken) : str :=
  match ck t with
  | CNumber v raw u => push_string cfg (frac v 4 ++ unit_spec cfg (Some prop) v raw u)
  | CColor r g b a _ => color r g b a (c_short_hex cfg)
  | _ => []
  end.

Lemma output_resolved_token cfg prop t :
  is_numcol (ck t) = true ->
  output_token cfg (resolve_numeric_token cfg (Some prop) (tokv t)) = value_text cfg prop t /\
  no_field (resolve_numeric_token cfg (Some prop) (tokv t)).
Proof.
  intros H. unfold tokv, value_text. destruct (ck t) eqn:E; cbn in H; try discriminate.
  - rewrite unit_rule. cbn [output_token no_field]. split; [reflexivity|exact I].
  - cbn [resolve_numeric_token output_token no_field]. split; [reflexivity|exact I].
Qed.

(* ------------------------------------------------------------------ end to end from the parse result *)
Theorem value_seq_expand_from_parse cfg sn abbr key key' prop value kws deps (vs : list ctoken) bang :
  css_parse false abbr = Ok [mkProp (Some key) [map tokv vs] bang false] ->
  c_context cfg = None -> c_json cfg = false ->
  str_eqb key gradient_name = false ->
  find_best_match sn_key key sn (c_min_score cfg) true = Some (SnProp key' prop value kws deps) ->
  get_unmatched_part key key' 0 = [] ->
  vs <> [] -> Forall (fun t => is_numcol (ck t) = true) vs ->
  expand_with cfg sn abbr =
  Ok (push_string cfg (prop ++ c_between cfg) ++
      join [c_space] (map (value_text cfg prop) vs) ++
      (if bang then lit " !important" else []) ++ c_after cfg).
Proof.
  intros Hp Hc Hj Hg Hm Hu Hne Hall.
  unfold expand_with, parse_with. unfold is_value_scope. rewrite Hc, Hp. cbn [bind map_res].
  unfold get_snippets_for_scope. rewrite Hc.
  rewrite (resolve_node_value_seq cfg sn key key' prop value kws deps vs bang Hc Hg Hm Hu Hne Hall).
  cbn [bind]. f_equal. unfold stringify.
  set (node := mkProp (Some prop) [map (resolve_numeric_token cfg (Some prop)) (map tokv vs)] bang true).
  replace (if c_skip_unmatched cfg then filter (fun n => psnippet n || pimportant n) [node] else [node]) with [node]
    by (destruct (c_skip_unmatched cfg); reflexivity).
  cbn [stringify_from]. rewrite andb_false_r. cbn [app]. rewrite app_nil_r.
  rewrite (line_shape cfg node prop) by (try reflexivity; try assumption; discriminate).
  cbn [pvalue pimportant map join].
  f_equal. f_equal.
  assert (Hf : Forall no_field (map (resolve_numeric_token cfg (Some prop)) (map tokv vs)) /\
               map (output_token cfg) (map (resolve_numeric_token cfg (Some prop)) (map tokv vs)) =
               map (value_text cfg prop) vs).
  { clear -Hall. induction Hall as [|t vs Ht _ [IH1 IH2]]; [split; [constructor|reflexivity]|].
    destruct (output_resolved_token cfg prop t Ht) as [H1 H2]. cbn [map]. split.
    - constructor; assumption.
    - rewrite H1, IH2. reflexivity. }
  destruct Hf as [Hf1 Hf2]. subst node. cbn [pvalue map join].
  rewrite output_value_spaces by exact Hf1. rewrite Hf2. reflexivity.
Qed.

(* the same, from the TOKEN list of the abbreviation *)
Theorem value_seq_expand_from_tokens cfg sn abbr (lit0 b : ctoken) key key' prop value kws deps ts vs bang :
  ctokenize false abbr = CTOk (lit0 :: ts ++ bang_tail bang b) ->
  ck lit0 = CLiteral key -> body_of ts vs -> k_is_important (ck b) = true ->
  c_context cfg = None -> c_json cfg = false ->
  str_eqb key gradient_name = false ->
  find_best_match sn_key key sn (c_min_score cfg) true = Some (SnProp key' prop value kws deps) ->
  get_unmatched_part key key' 0 = [] ->
  vs <> [] ->
  expand_with cfg sn abbr =
  Ok (push_string cfg (prop ++ c_between cfg) ++
      join [c_space] (map (value_text cfg prop) vs) ++
      (if bang then lit " !important" else []) ++ c_after cfg).
Proof.
  intros Ht Hl Hb Hbang Hc Hj Hg Hm Hu Hne.
  assert (Hall : Forall (fun t => is_numcol (ck t) = true) vs).
  { clear -Hb. induction Hb; [constructor|constructor; assumption|assumption]. }
  eapply value_seq_expand_from_parse; try eassumption.
  unfold css_parse. rewrite Ht. apply parser_value_seq; assumption.
Qed.
