(* C13, stylesheet formatter: which output.field invocations a stylesheet run makes.
   emmet/stylesheet/format.py has no tabstop counter: output_token hands the index and the name
   of every Field token to out.push_field verbatim, and css_property writes push_field(0, '') for a
   property without value.  So the field callbacks of a run are exactly the field tokens of the
   (kept) properties in document order -- depth first through the arguments of function calls --
   each with its own index and placeholder. *)
From Coq Require Import ZArith List Bool Lia ZifyBool String.
From Emmet Require Import lib.Base lib.StyleLib model.CssTokenizer model.CssParser model.Color
     model.MarkupConvert model.OutStream model.CssFormatStream proofs.OutStreamProofs proofs.FormatChunks
     proofs.CssFormatStream.
Import ListNotations.

(* SPEC: the (index, placeholder) pairs of the field tokens of a value, in document order *)
Fixpoint tok_field_args (v : cval) : list (option N * str) :=
  match v with
  | VTok (CField name index) _ _ => [(index, name)]
  | VTok _ _ _ => []
  | VFunc _ args => flat_map (flat_map tok_field_args) args
  end.
Definition value_field_args (vs : list cval) : list (option N * str) := flat_map tok_field_args vs.
Definition prop_field_args (p : cssprop) : list (option N * str) :=
  match pname p, pvalue p with
  | Some _, [] => [(Some 0%N, [])]
  | _, vs => flat_map value_field_args vs
  end.
(* what the event of a field invocation records: the index it was given (coded) and the string it returned *)
Definition call_of (c : cssfmt) (x : option N * str) : N * str := (idx_code (fst x), cf_field c (fst x) (snd x)).

Definition F (o : ostream) : list (N * str) := fields_of (chunks o).

Lemma F_push o s : F (os_push o s) = F o.
Proof. unfold F, os_push. rewrite ch_push_gen, fields_app. cbn. apply app_nil_r. Qed.
Lemma F_push_string c o s : F (cs_push_string c o s) = F o.
Proof. unfold F, cs_push_string. rewrite ch_push_string, fields_app, fields_string. apply app_nil_r. Qed.
Lemma F_push_field c o i ph : F (cs_push_field c o i ph) = F o ++ [call_of c (i, ph)].
Proof. unfold F, cs_push_field. rewrite ch_push_field, fields_app. reflexivity. Qed.
Lemma F_push_newline f o ind : F (os_push_newline f o ind) = F o.
Proof. unfold F. rewrite ch_push_newline, fields_app, fields_nl. apply app_nil_r. Qed.
Lemma F_space_if (b : bool) o : F (if b then os_push o [c_space] else o) = F o.
Proof. destruct b; [apply F_push|reflexivity]. Qed.
Lemma F_comma_if (b : bool) o : F (if b then o else os_push o (lit ", ")) = F o.
Proof. destruct b; [reflexivity|apply F_push]. Qed.

Definition tok_emits (c : cssfmt) (t : cval) : Prop :=
  forall o, F (s_output_token c t o) = F o ++ map (call_of c) (tok_field_args t).

Lemma F_value_from_gen c vs :
  Forall (tok_emits c) vs ->
  forall first pe o, F (s_output_value_from c vs first pe o) = F o ++ map (call_of c) (value_field_args vs).
Proof.
  induction 1 as [|t ts Ht _ IH]; intros first pe o; cbn [s_output_value_from value_field_args flat_map].
  - cbn. symmetry. apply app_nil_r.
  - fold (value_field_args ts). rewrite IH, Ht, F_space_if, map_app, app_assoc. reflexivity.
Qed.

Lemma F_args_gen c args :
  Forall (Forall (tok_emits c)) args ->
  forall first o, F (s_output_args c args first o) = F o ++ map (call_of c) (flat_map value_field_args args).
Proof.
  induction 1 as [|a r Ha _ IH]; intros first o; cbn [s_output_args flat_map].
  - cbn. symmetry. apply app_nil_r.
  - rewrite IH. unfold s_output_value. rewrite (F_value_from_gen c a Ha), F_comma_if, map_app, app_assoc. reflexivity.
Qed.

Lemma F_token c t : tok_emits c t.
Proof.
  induction t as [k st en|name args IH] using cval_ind2; unfold tok_emits; intros o.
  - destruct k; cbn [s_output_token tok_field_args map]; rewrite ?app_nil_r; try reflexivity;
      try apply F_push_string; try apply F_push.
    apply F_push_field.
  - rewrite s_output_token_func, F_push, (F_args_gen c args IH), F_push. reflexivity.
Qed.

Lemma F_output_value c v o : F (s_output_value c v o) = F o ++ map (call_of c) (value_field_args v).
Proof. apply F_value_from_gen, Forall_all, F_token. Qed.

Lemma F_join_values c l : forall first o,
  F (s_join_values c l first o) = F o ++ map (call_of c) (flat_map value_field_args l).
Proof.
  induction l as [|v r IH]; intros first o; cbn [s_join_values flat_map].
  - cbn. symmetry. apply app_nil_r.
  - rewrite IH, F_output_value, F_comma_if, map_app, app_assoc. reflexivity.
Qed.

Lemma single_numeric_no_fields node value u :
  get_single_numeric node = Some (value, u) -> flat_map value_field_args (pvalue node) = [].
Proof.
  unfold get_single_numeric. destruct (pvalue node) as [|[|[[]|] []] []]; try discriminate. reflexivity.
Qed.

Lemma F_css_property_value c node o :
  F (s_css_property_value c node o) = F o ++ map (call_of c) (flat_map value_field_args (pvalue node)).
Proof.
  unfold s_css_property_value.
  assert (Q : F (let o1 := if cf_json c then os_push o (get_quote c) else o in
                 let o2 := s_join_values c (pvalue node) true o1 in
                 if cf_json c then os_push o2 (get_quote c) else o2)
              = F o ++ map (call_of c) (flat_map value_field_args (pvalue node))).
  { cbv zeta. destruct (cf_json c).
    - rewrite F_push, F_join_values, F_push. reflexivity.
    - apply F_join_values. }
  cbv zeta in Q |- *.
  destruct (if cf_json c then get_single_numeric node else None) as [[value u]|] eqn:E; [|exact Q].
  destruct (match u with [] => true | _ => str_eqb u (lit "px") end); [|exact Q].
  destruct (cf_json c); [|discriminate].
  rewrite F_push, (single_numeric_no_fields node value u E). cbn. symmetry. apply app_nil_r.
Qed.

Lemma F_output_important node sep o : F (s_output_important node sep o) = F o.
Proof.
  unfold s_output_important. destruct (pimportant node); [|reflexivity].
  rewrite F_push. destruct sep; [apply F_push|reflexivity].
Qed.

Lemma F_fold_tokens c vs : forall o,
  F (fold_left (fun o v => s_output_token c v o) vs o) = F o ++ map (call_of c) (value_field_args vs).
Proof.
  induction vs as [|t ts IH]; intros o; cbn [fold_left value_field_args flat_map].
  - cbn. symmetry. apply app_nil_r.
  - fold (value_field_args ts). rewrite IH, F_token, map_app, app_assoc. reflexivity.
Qed.

Lemma F_css_property c node o : F (s_css_property c node o) = F o ++ map (call_of c) (prop_field_args node).
Proof.
  unfold s_css_property, prop_field_args. destruct (pname node) as [name0|].
  - set (o1 := cs_push_string c o _).
    assert (H1 : F o1 = F o) by apply F_push_string.
    assert (H2 : F (match pvalue node with [] => cs_push_field c o1 (Some 0%N) [] | _ => s_css_property_value c node o1 end)
                 = F o ++ map (call_of c) (match pvalue node with [] => [(Some 0%N, [])] | vs => flat_map value_field_args vs end)).
    { destruct (pvalue node) eqn:E.
      - rewrite F_push_field, H1. reflexivity.
      - rewrite F_css_property_value, H1, E. reflexivity. }
    destruct (cf_json c).
    + rewrite F_push. exact H2.
    + rewrite F_push, F_output_important. exact H2.
  - rewrite F_output_important.
    assert (G : forall vs o, F (fold_left (fun o css_val => fold_left (fun o v => s_output_token c v o) css_val o) vs o)
                             = F o ++ map (call_of c) (flat_map value_field_args vs)).
    { induction vs as [|v r IH]; intros o'; cbn [fold_left flat_map].
      - cbn. symmetry. apply app_nil_r.
      - rewrite IH, F_fold_tokens, map_app, app_assoc. reflexivity. }
    rewrite G. destruct (pvalue node); reflexivity.
Qed.

Lemma F_stringify_from c l : forall first o,
  F (s_stringify_from c l first o) = F o ++ map (call_of c) (flat_map prop_field_args l).
Proof.
  induction l as [|p r IH]; intros first o; cbn [s_stringify_from flat_map].
  - cbn. symmetry. apply app_nil_r.
  - rewrite IH, F_css_property, map_app, app_assoc. f_equal. f_equal.
    destruct (cf_format c && negb first); [apply F_push_newline|reflexivity].
Qed.

(* (2) the output.field invocations of a stylesheet run, in order *)
Theorem css_fields_lemma c abbr :
  fields_of (chunks (css_stream c abbr)) = map (call_of c) (flat_map prop_field_args (kept c abbr)).
Proof. unfold css_stream. fold (F (s_stringify_from c (kept c abbr) true os_empty)). rewrite F_stringify_from. reflexivity. Qed.
