(* C01, end to end, tree level: from the token tree of an abbreviation whose elements are bare
   literal names (optionally repeated `*N`, optionally inside groups) to the tag events of the
   HTML formatter's output stream.

     token tree --convert--> unrolled forest --walk_resolve--> same forest (no name is a snippet key)
                --transform--> same forest (no name matches the lorem pattern; no attributes)
                --html_format--> tag chunks whose nesting is the preorder (depth, name) list

   The string level (tokenizer + parser) is in ExpandFlat.v / ExpandRepeat.v. *)
From Emmet Require Import lib.Base model.MarkupTokenizer model.MarkupParser model.MarkupConvert
     model.MarkupResolve model.OutStream model.FormatHtml model.FormatIndent model.MarkupExpand.
From Emmet Require Import model.MarkupBem proofs.BemProofs.
From Emmet Require proofs.LoremFill.
From Emmet Require Import proofs.ParserSpine proofs.TokenizeRender proofs.NumberingProofs proofs.ConvertProofs
     proofs.SafeResolve proofs.IndentStream proofs.HtmlEvents.
Local Open Scope nat_scope.

(* ================================================================ generic list facts *)
Lemma forallb_flat_map {A B} (p : B -> bool) (f : A -> list B) l :
  forallb p (flat_map f l) = forallb (fun x => forallb p (f x)) l.
Proof. induction l as [|x l IH]; [reflexivity|]. cbn [flat_map forallb]. rewrite forallb_app, IH. reflexivity. Qed.

Lemma Forall_flat_map {A B} (P : B -> Prop) (f : A -> list B) l :
  (forall x, In x l -> Forall P (f x)) -> Forall P (flat_map f l).
Proof.
  induction l as [|x l IH]; intros H; [constructor|]. cbn [flat_map]. apply Forall_app. split.
  - apply H. left. reflexivity.
  - apply IH. intros y Hy. apply H. right. exact Hy.
Qed.

Lemma flat_map_ext_Forall {A B} (f g : A -> list B) l : Forall (fun x => f x = g x) l -> flat_map f l = flat_map g l.
Proof. induction 1 as [|x l Hx _ IH]; [reflexivity|]. cbn [flat_map]. rewrite Hx, IH. reflexivity. Qed.

Lemma flat_map_flat_map {A B C} (f : A -> list B) (g : B -> list C) l :
  flat_map g (flat_map f l) = flat_map (fun x => flat_map g (f x)) l.
Proof. induction l as [|x l IH]; [reflexivity|]. cbn [flat_map]. rewrite flat_map_app, IH. reflexivity. Qed.

Lemma map_flat_map {A B C} (g : B -> C) (f : A -> list B) l :
  map g (flat_map f l) = flat_map (fun x => map g (f x)) l.
Proof. induction l as [|x l IH]; [reflexivity|]. cbn [flat_map]. rewrite map_app, IH. reflexivity. Qed.

(* ================================================================ names *)
(* a written name: letters only, at least one *)
Definition good_name (n : str) : bool := match n with [] => false | _ :: _ => forallb is_alpha n end.

Lemma good_name_ok n : good_name n = true <-> name_ok n.
Proof.
  unfold good_name, name_ok. destruct n as [|c n].
  - split; [discriminate|]. intros [H _]. congruence.
  - rewrite forallb_forall, Forall_forall. split.
    + intros H. split; [discriminate|exact H].
    + intros [_ H]. exact H.
Qed.

Lemma good_name_nonempty n : good_name n = true -> n <> [].
Proof. destruct n; [discriminate|discriminate]. Qed.

(* letters are harmless for the tag reader: no '<', no line break, not '/' or '!' in front *)
Lemma alpha_nolt c : is_alpha c = true -> negb (c =? c_lt)%N = true.
Proof. intros H. rewrite (alpha_not c c_lt H) by (unfold c_lt; lia). reflexivity. Qed.
Lemma alpha_nocrlf c : is_alpha c = true -> negb (is_crlf c) = true.
Proof.
  intros H. unfold is_crlf. rewrite (alpha_not c c_cr H) by (unfold c_cr; lia).
  rewrite (alpha_not c c_nl H) by (unfold c_nl; lia). reflexivity.
Qed.

Lemma good_name_clean n :
  good_name n = true -> nolt n = true /\ nocrlf n = true /\ name_start n = true.
Proof.
  intros H. destruct n as [|c n]; [discriminate|]. cbn [good_name] in H.
  assert (Hall : forall x, In x (c :: n) -> is_alpha x = true) by (apply forallb_forall; exact H).
  repeat split.
  - unfold nolt. apply forallb_forall. intros x Hx. apply alpha_nolt, Hall, Hx.
  - unfold nocrlf. apply forallb_forall. intros x Hx. apply alpha_nocrlf, Hall, Hx.
  - cbn [name_start]. assert (Hc : is_alpha c = true) by (apply Hall; left; reflexivity).
    rewrite (alpha_not c c_slash Hc) by (unfold c_slash; lia).
    rewrite (alpha_not c c_excl Hc) by (unfold c_excl; lia). reflexivity.
Qed.

(* ================================================================ token trees of bare names *)
Definition lit_name (o : option (list token)) : option str :=
  match o with
  | Some [t] => match tk t with TLiteral v => Some v | _ => None end
  | _ => None
  end.

Definition named_leaf (P : str -> bool) (l : leaf) : bool :=
  match lit_name (lf_name l), lf_attrs l, lf_value l, lf_self l with
  | Some v, None, None, false => P v && clean_rep (lf_repeat l)
  | _, _, _, _ => false
  end.

Lemma named_leaf_inv P l :
  named_leaf P l = true ->
  exists t v, l = mkLeaf (Some [t]) None None (lf_repeat l) false /\ tk t = TLiteral v /\ P v = true /\
              clean_rep (lf_repeat l) = true.
Proof.
  unfold named_leaf, lit_name. destruct l as [nm at_ vl rp sc]. cbn [lf_name lf_attrs lf_value lf_self lf_repeat].
  destruct nm as [[|t [|t2 r]]|]; try discriminate.
  destruct (tk t) eqn:Et; try discriminate.
  destruct at_; [discriminate|]. destruct vl; [discriminate|]. destruct sc; [discriminate|].
  intros H. apply andb_prop in H. destruct H as [H1 H2]. exists t. eexists. repeat split; eassumption.
Qed.

(* every element of the tree is a bare literal name satisfying P, repeaters are written ones *)
Fixpoint named (P : str -> bool) (n : tnode) : bool :=
  match n with
  | TElem a b c r s els => named_leaf P (mkLeaf a b c r s) && forallb (named P) els
  | TGroup els r => clean_rep r && forallb (named P) els
  end.

Definition leaf_name (l : leaf) : str := match lit_name (lf_name l) with Some v => v | None => [] end.

(* the unrolled preorder (depth, name) list of a token tree: every unit contributes, once per copy
   and in order, its element at its depth followed by its children one level deeper; a group
   contributes its contents at its own depth *)
Fixpoint nshape (d : nat) (node : tnode) {struct node} : list (nat * str) :=
  let once :=
    match node with
    | TGroup els _ => flat_map (nshape d) els
    | TElem a b c r s els => (d, leaf_name (mkLeaf a b c r s)) :: flat_map (nshape (S d)) els
    end in
  match node_rep node with
  | None => once
  | Some r0 => flat_map (fun _ => once) (nseq (N.to_nat (written_count r0)) 0%N)
  end.

Definition nshape_once (d : nat) (node : tnode) : list (nat * str) :=
  match node with
  | TGroup els _ => flat_map (nshape d) els
  | TElem a b c r s els => (d, leaf_name (mkLeaf a b c r s)) :: flat_map (nshape (S d)) els
  end.
Lemma nshape_unfold d node :
  nshape d node =
  match node_rep node with
  | None => nshape_once d node
  | Some r0 => flat_map (fun _ => nshape_once d node) (nseq (N.to_nat (written_count r0)) 0%N)
  end.
Proof. destruct node; reflexivity. Qed.

(* ================================================================ unrolled forests of bare names *)
Fixpoint simple (P : str -> bool) (n : anode) : bool :=
  match n with
  | ANode nm v _ at_ ch sc =>
      match nm, v, at_, sc with
      | Some x, None, None, false => P x && forallb (simple P) ch
      | _, _, _, _ => false
      end
  end.

Lemma simple_inv P n :
  simple P n = true ->
  exists x, n = ANode (Some x) None (an_repeat n) None (an_children n) false /\ P x = true /\
            forallb (simple P) (an_children n) = true.
Proof.
  destruct n as [nm v rp at_ ch sc]. cbn [simple an_repeat an_children].
  destruct nm as [x|]; [|discriminate]. destruct v; [discriminate|]. destruct at_; [discriminate|].
  destruct sc; [discriminate|]. intros H. apply andb_prop in H. destruct H as [H1 H2].
  exists x. repeat split; assumption.
Qed.

Lemma simple_attach P r items : forallb (simple P) (attach_repeater items r) = forallb (simple P) items.
Proof.
  unfold attach_repeater. induction items as [|x l IH]; [reflexivity|]. cbn [map forallb]. rewrite IH. f_equal.
  destruct x as [nm v [rp|] at_ ch sc]; reflexivity.
Qed.

(* preorder (depth, name) list of an unrolled forest *)
Fixpoint pnames (d : nat) (n : anode) : list (nat * str) :=
  match n with ANode nm _ _ _ ch _ => (d, match nm with Some x => x | None => [] end) :: flat_map (pnames (S d)) ch end.
Definition pnamesL (d : nat) (l : list anode) : list (nat * str) := flat_map (pnames d) l.

Lemma pnames_attach d r items : pnamesL d (attach_repeater items r) = pnamesL d items.
Proof.
  unfold pnamesL, attach_repeater. induction items as [|x l IH]; [reflexivity|]. cbn [map flat_map]. rewrite IH. f_equal.
  destruct x as [nm v [rp|] at_ ch sc]; reflexivity.
Qed.

Lemma name_str_literal env reps t v : tk t = TLiteral v -> name_str env reps [t] = v.
Proof. intros Ht. unfold name_str. cbn [stringify_name]. unfold stringify. rewrite Ht. apply app_nil_r. Qed.

Lemma leaf_items_named env reps P l cur kids :
  named_leaf P l = true ->
  exists v, leaf_name l = v /\ P v = true /\
    leaf_items env reps (lf_name l) (lf_attrs l) (lf_value l) (lf_self l) cur kids = [ANode (Some v) None cur None kids false].
Proof.
  intros H. destruct (named_leaf_inv P l H) as [t [v [El [Ht [Hp Hr]]]]]. exists v.
  rewrite El. cbn [lf_name lf_attrs lf_value lf_self]. unfold leaf_name, lit_name. cbn [lf_name]. rewrite Ht.
  repeat split; [exact Hp|]. unfold leaf_items. cbn [nonempty option_map]. rewrite (name_str_literal env reps t v Ht).
  cbn [text_only_of]. destruct v; reflexivity.
Qed.

(* one copy of a unit *)
Lemma once_named env P node :
  named P node = true ->
  Forall (fun c => named P c = true -> forall reps d,
            forallb (simple P) (unroll env reps c) = true /\ pnamesL d (unroll env reps c) = nshape d c) (elements_of' node) ->
  forall cur reps d,
    forallb (simple P) (once_u env node cur reps) = true /\ pnamesL d (once_u env node cur reps) = nshape_once d node.
Proof.
  intros Hn IH cur reps d.
  assert (Hkids : forall d', forallb (named P) (elements_of' node) = true ->
            forallb (simple P) (flat_map (unroll env reps) (elements_of' node)) = true /\
            pnamesL d' (flat_map (unroll env reps) (elements_of' node)) = flat_map (nshape d') (elements_of' node)).
  { intros d' Hall. split.
    - rewrite forallb_flat_map. apply forallb_forall. intros c Hc.
      rewrite Forall_forall in IH. rewrite forallb_forall in Hall. apply (IH c Hc (Hall c Hc) reps d').
    - unfold pnamesL. rewrite flat_map_flat_map. apply flat_map_ext_Forall. apply Forall_forall. intros c Hc.
      rewrite Forall_forall in IH. rewrite forallb_forall in Hall. apply (IH c Hc (Hall c Hc) reps d'). }
  destruct node as [a b c r s els|els r]; cbn [named elements_of' once_u nshape_once] in *.
  - apply andb_prop in Hn. destruct Hn as [Hl Hels].
    destruct (leaf_items_named env reps P (mkLeaf a b c r s) cur (flat_map (unroll env reps) els) Hl) as [v [Hv [Hp E]]].
    cbn [lf_name lf_attrs lf_value lf_self] in E. rewrite E. destruct (Hkids (S d) Hels) as [K1 K2]. split.
    + cbn [forallb simple]. rewrite Hp, K1. reflexivity.
    + unfold pnamesL in *. cbn [flat_map pnames]. rewrite app_nil_r, K2, Hv. reflexivity.
  - apply andb_prop in Hn. destruct Hn as [_ Hels]. destruct (Hkids d Hels) as [K1 K2].
    destruct cur; [rewrite simple_attach, pnames_attach|]; split; assumption.
Qed.

Theorem unroll_named env P : forall node, named P node = true -> forall reps d,
  forallb (simple P) (unroll env reps node) = true /\ pnamesL d (unroll env reps node) = nshape d node.
Proof.
  induction node as [a b c r s els IH|els r IH] using tnode_ind'; intros Hn reps d;
    rewrite unroll_unfold, nshape_unfold; cbn [node_rep].
  - pose proof (once_named env P (TElem a b c r s els) Hn IH) as H. destruct r as [r0|]; [|apply H].
    cbv zeta. split.
    + rewrite forallb_flat_map. apply forallb_forall. intros i _. apply H. exact 0.
    + unfold pnamesL. rewrite flat_map_flat_map. apply flat_map_ext. intros i. apply H.
  - pose proof (once_named env P (TGroup els r) Hn IH) as H. destruct r as [r0|]; [|apply H].
    cbv zeta. split.
    + rewrite forallb_flat_map. apply forallb_forall. intros i _. apply H. exact 0.
    + unfold pnamesL. rewrite flat_map_flat_map. apply flat_map_ext. intros i. apply H.
Qed.

Lemma named_clean P : forall node, named P node = true -> clean_node node = true.
Proof.
  induction node as [a b c r s els IH|els r IH] using tnode_ind'; intros Hn; cbn [named clean_node] in *.
  - apply andb_prop in Hn. destruct Hn as [Hl Hels].
    destruct (named_leaf_inv P _ Hl) as [t [v [El [Ht [_ Hr]]]]]. cbn [lf_repeat] in *.
    injection El as -> -> -> _.
    cbn [clean_otoks clean_toks forallb clean_oattrs]. unfold clean_tok. rewrite Ht, Hr. cbn [andb].
    apply forallb_forall. intros x Hx. rewrite Forall_forall in IH. rewrite forallb_forall in Hels. apply IH; auto.
  - apply andb_prop in Hn. destruct Hn as [Hr Hels]. rewrite Hr. cbn [andb].
    apply forallb_forall. intros x Hx. rewrite Forall_forall in IH. rewrite forallb_forall in Hels. apply IH; auto.
Qed.

(* the converter on a forest of bare names, budget not exceeded *)
Theorem convert_named env max_repeat P root :
  ce_text env = WNone -> forallb (named P) root = true ->
  (total_list root <= budget_of max_repeat)%Z ->
  exists forest,
    convert env max_repeat root = Ok forest /\
    forallb (simple P) forest = true /\
    pnamesL 0 forest = flat_map (nshape 0) root.
Proof.
  intros Ht Hn Hb. exists (flat_map (unroll env []) root). split; [|split].
  - apply convert_enough; [exact Ht| |exact Hb]. apply forallb_forall. intros x Hx.
    rewrite forallb_forall in Hn. apply (named_clean P), Hn, Hx.
  - rewrite forallb_flat_map. apply forallb_forall. intros x Hx. rewrite forallb_forall in Hn.
    apply (unroll_named env P x (Hn x Hx) [] 0).
  - unfold pnamesL. rewrite flat_map_flat_map. apply flat_map_ext_Forall. apply Forall_forall. intros x Hx.
    rewrite forallb_forall in Hn. apply (unroll_named env P x (Hn x Hx) [] 0).
Qed.

(* ================================================================ snippet resolution leaves the forest alone *)
(* the name is not the key of a (non-empty) snippet definition *)
Definition no_snippet (cfg : mconfig) (x : str) : bool :=
  match assoc_str x (mc_snippets cfg) with Some (_ :: _) => false | _ => true end.

Lemma snippet_of_none cfg stack x : no_snippet cfg x = true -> snippet_of cfg stack (Some x) = None.
Proof.
  unfold no_snippet, snippet_of. intros H. destruct x as [|c x]; [reflexivity|].
  destruct (assoc_str (c :: x) (mc_snippets cfg)) as [[|s0 s]|]; try reflexivity. discriminate.
Qed.

Lemma walk_simple cfg stack rec P :
  (forall x, P x = true -> no_snippet cfg x = true) ->
  forall n, simple P n = true -> walk_node' cfg stack rec n = Ok [n].
Proof.
  intros HP. induction n as [nm v rp at_ ch sc IH] using anode_ind'. intros Hs.
  destruct (simple_inv P _ Hs) as [x [E [Hp Hch]]]. cbn [an_repeat an_children] in *.
  injection E as -> -> -> ->. cbn [walk_node']. rewrite (snippet_of_none cfg stack x (HP x Hp)).
  assert (Hk : (fix walk_kids (k : list anode) : res (list anode) :=
                  match k with
                  | [] => Ok []
                  | c :: k' => let* a := walk_node' cfg stack rec c in let* b := walk_kids k' in Ok (a ++ b)
                  end) ch = Ok ch).
  { clear Hs. induction ch as [|c k IHk]; [reflexivity|].
    inversion IH as [|c' k' Hc Hk']; subst. cbn [forallb] in Hch. apply andb_prop in Hch. destruct Hch as [H1 H2].
    rewrite (Hc H1). cbn [bind]. rewrite (IHk Hk' H2). reflexivity. }
  rewrite Hk. reflexivity.
Qed.

Lemma walk_list_simple cfg stack rec P :
  (forall x, P x = true -> no_snippet cfg x = true) ->
  forall l, forallb (simple P) l = true -> walk_list' cfg stack rec l = Ok l.
Proof.
  intros HP. induction l as [|c l IH]; intros H; [reflexivity|].
  cbn [forallb] in H. apply andb_prop in H. destruct H as [H1 H2].
  cbn [walk_list']. rewrite (walk_simple cfg stack rec P HP c H1). cbn [bind]. rewrite (IH H2). reflexivity.
Qed.

(* ================================================================ transform leaves the forest alone *)
Definition not_lorem (x : str) : bool := match match_lorem x with LNo => true | LYes _ _ _ => false end.

Lemma transform_node_pre_simple cfg pn top x rp ch :
  x <> [] -> not_lorem x = true ->
  fst (transform_node_pre cfg pn top (ANode (Some x) None rp None ch false)) = ANode (Some x) None rp None ch false.
Proof.
  intros Hne Hl. destruct x as [|c x]; [contradiction|]. unfold not_lorem in Hl.
  unfold transform_node_pre. cbn [nonempty merge_attributes].
  destruct (match_lorem (c :: x)); [|discriminate]. cbn [nonempty]. rewrite !andb_false_r.
  destruct (opt_str_eqb (Some (c :: x)) s_label && has_input (ANode (Some (c :: x)) None rp None ch false)); reflexivity.
Qed.

(* with or without BEM: a node without attributes has no class names, the addon returns it unchanged *)
Lemma transform_node_simple cfg pn top anc x rp ch :
  x <> [] -> not_lorem x = true ->
  exists found path,
    transform_node cfg pn top anc (ANode (Some x) None rp None ch false) =
      Ok (ANode (Some x) None rp None ch false, found, path).
Proof.
  intros Hne Hl. unfold transform_node.
  pose proof (transform_node_pre_simple cfg pn top x rp ch Hne Hl) as Hpre.
  destruct (transform_node_pre cfg pn top (ANode (Some x) None rp None ch false)) as [n1 found]. cbn [fst] in Hpre. subst n1.
  destruct (mc_bem cfg).
  - rewrite (BemProofs.bem_no_class (bem_cfg_of cfg) anc (ANode (Some x) None rp None ch false)) by reflexivity. cbn [bind]. eexists _, _. reflexivity.
  - eexists _, _. reflexivity.
Qed.

Lemma bind_ok {A B} (r : res A) (a : A) (f : A -> res B) : r = Ok a -> bind r f = f a.
Proof. intros ->. reflexivity. Qed.

Definition tt_kids (cfg : mconfig) (nm1 : option str) :=
  fix go (l : list anode) (pd : bool) (pth : list pnode) : res (list anode * bool * list pnode) :=
    match l with
    | [] => Ok ([], pd, pth)
    | c :: r =>
        let* (c', pd1, pth1) := transform_tree cfg (Some nm1) false pd pth c in
        let* (r', pd2, pth2) := go r pd1 pth1 in
        Ok (c' :: r', pd2, pth2)
    end.

Lemma transform_tree_eq cfg pn top pending anc nm v rp at_ ch sc :
  transform_tree cfg pn top pending anc (ANode nm v rp at_ ch sc) =
  let hit := pending && is_input_name nm in
  let n0 := if hit then ANode nm v rp (drop_empty_named s_id at_) ch sc else ANode nm v rp at_ ch sc in
  let* (n1, found, path) := transform_node cfg pn top anc n0 in
  let pending1 := (pending && negb hit) || found in
  match n1 with
  | ANode nm1 v1 rp1 at1 _ sc1 =>
      let* (ch', pending2, path2) := tt_kids cfg nm1 ch pending1 path in
      Ok (ANode nm1 v1 rp1 at1 ch' sc1, pending2, firstn (length anc) path2)
  end.
Proof. reflexivity. Qed.

Lemma transform_tree_simple cfg P :
  (forall x, P x = true -> x <> [] /\ not_lorem x = true) ->
  forall n, simple P n = true -> forall pn top pending anc,
    exists pd path, transform_tree cfg pn top pending anc n = Ok (n, pd, path).
Proof.
  intros HP. induction n as [nm v rp at_ ch sc IH] using anode_ind'. intros Hs pn top pending anc.
  destruct (simple_inv P _ Hs) as [x [E [Hp Hch]]]. cbn [an_repeat an_children] in *.
  injection E as -> -> -> ->. destruct (HP x Hp) as [Hne Hl].
  rewrite transform_tree_eq. cbv zeta.
  assert (E0 : (if pending && is_input_name (Some x)
                then ANode (Some x) None rp (drop_empty_named s_id None) ch false
                else ANode (Some x) None rp None ch false) = ANode (Some x) None rp None ch false)
    by (destruct (pending && is_input_name (Some x)); reflexivity).
  rewrite E0.
  destruct (transform_node_simple cfg pn top anc x rp ch Hne Hl) as [found [path0 Etn]].
  assert (Hgo : forall pd pth, exists pd2 pth2, tt_kids cfg (Some x) ch pd pth = Ok (ch, pd2, pth2)).
  { clear Hs E0 Etn. induction ch as [|c k IHk]; intros pd pth; [eexists _, _; reflexivity|].
    inversion IH as [|c' k' Hc Hk']; subst. cbn [forallb] in Hch. apply andb_prop in Hch. destruct Hch as [H1 H2].
    destruct (Hc H1 (Some (Some x)) false pd pth) as [pd1 [pth1 Ec]]. cbn [tt_kids]. fold (tt_kids cfg (Some x)).
    rewrite Ec. cbn [bind].
    destruct (IHk Hk' H2 pd1 pth1) as [pd2 [pth2 Ek]]. rewrite Ek. cbn [bind]. eexists _, _. reflexivity. }
  destruct (Hgo (pending && negb (pending && is_input_name (Some x)) || found) path0) as [pd2 [pth2 Eg]].
  exists pd2, (firstn (length anc) pth2).
  eapply eq_trans; [apply (bind_ok _ _ _ Etn)|]. cbv beta iota.
  eapply eq_trans; [apply (bind_ok _ _ _ Eg)|]. reflexivity.
Qed.

(* no name of a simple forest is a lorem header: the lorem pass leaves it alone *)
Lemma simple_lorem_free P :
  (forall x, P x = true -> x <> [] /\ not_lorem x = true) ->
  forall l, forallb (simple P) l = true -> forallb LoremFill.lorem_free l = true.
Proof.
  intros HP. assert (Hn : forall n, simple P n = true -> LoremFill.lorem_free n = true).
  { induction n as [nm v rp at_ ch sc IH] using anode_ind'. intros Hs.
    destruct (simple_inv P _ Hs) as [x [E [Hp Hch]]]. cbn [an_repeat an_children] in *.
    injection E as -> -> -> ->. destruct (HP x Hp) as [Hne Hl].
    rewrite LoremFill.lorem_free_eq. unfold lorem_header. destruct x as [|c x]; [contradiction|].
    unfold not_lorem in Hl. destruct (match_lorem (c :: x)); [|discriminate]. cbn [andb].
    clear Hs. induction IH as [|k ks Hk _ IHks]; [reflexivity|].
    cbn [forallb] in *. apply andb_prop in Hch. destruct Hch as [H1 H2]. rewrite (Hk H1), (IHks H2). reflexivity. }
  induction l as [|c l IH]; intros H; [reflexivity|].
  cbn [forallb] in *. apply andb_prop in H. destruct H as [H1 H2]. rewrite (Hn c H1), (IH H2). reflexivity.
Qed.

Lemma transform_list_simple cfg P :
  (forall x, P x = true -> x <> [] /\ not_lorem x = true) ->
  forall l, forallb (simple P) l = true -> transform_list cfg l = Ok l.
Proof.
  intros HP l H. rewrite LoremFill.transform_list_free by (apply (simple_lorem_free P HP); exact H).
  revert H. induction l as [|c l IH]; intros H; [reflexivity|].
  cbn [forallb] in H. apply andb_prop in H. destruct H as [H1 H2].
  cbn [transform_forest]. destruct (transform_tree_simple cfg P HP c H1 None true false []) as [pd [path E]].
  rewrite E. cbn [bind]. rewrite (IH H2). reflexivity.
Qed.

(* ================================================================ the formatter's tag events *)
(* reading the tag chunks as open/close events: depth of every opening tag *)
Fixpoint nestT (d : nat) (evs : list tagev) : list (nat * str) :=
  match evs with
  | [] => []
  | TOpen n :: r => (d, n) :: nestT (S d) r
  | TClose _ :: r => nestT (pred d) r
  end.

Definition nonvoid (e : sev) : Prop := match e with SOpen _ true => False | _ => True end.

Lemma nestT_erase : forall evs d, Forall nonvoid evs -> nestT d (map erase evs) = nest d evs.
Proof.
  induction evs as [|e r IH]; intros d H; [reflexivity|]. inversion H as [|x y He Hr]; subst.
  destruct e as [n [|]|n]; cbn [map erase nestT nest]; [contradiction| |]; rewrite IH by exact Hr; reflexivity.
Qed.

Section Format.
  Variable c : oconfig.
  Variable P : str -> bool.
  Hypothesis HP : forall x, P x = true -> x <> [] /\ nolt x = true /\ nocrlf x = true /\ name_start x = true.

  Lemma simple_facts : forall n, simple P n = true ->
    node_clean n = true /\ named_tree n = true /\ Forall nonvoid (tree_events c n).
  Proof.
    induction n as [nm v rp at_ ch sc IH] using anode_ind'. intros Hs.
    destruct (simple_inv P _ Hs) as [x [E [Hp Hch]]]. cbn [an_repeat an_children] in *.
    injection E as -> -> -> ->.
    destruct (HP x Hp) as [Hne [H1 [H2 H3]]].
    assert (Hk : forall k, In k ch -> node_clean k = true /\ named_tree k = true /\ Forall nonvoid (tree_events c k)).
    { intros k Hk. rewrite Forall_forall in IH. rewrite forallb_forall in Hch.
      destruct (IH k Hk (Hch k Hk)) as [A [B C]]. auto. }
    repeat split.
    - cbn [node_clean]. rewrite H1, H2, H3. cbn [oval_nolt forallb andb].
      apply forallb_forall. intros k Hk'. apply (Hk k Hk').
    - cbn [named_tree].
      destruct x as [|x0 x]; [contradiction|]. cbn [truthy_s andb].
      apply forallb_forall. intros k Hk'. apply (Hk k Hk').
    - destruct x as [|x0 x]; [contradiction|].
      cbn [tree_events]. unfold self_closed. cbn [an_self andb].
      constructor; [exact I|]. apply Forall_app. split; [|constructor; [exact I|constructor]].
      apply Forall_flat_map. intros k Hk'. apply (Hk k Hk').
  Qed.

  Lemma dn_pnames : forall n d,
    map (dn c) (preorder_nodes d n) = map (fun x => (fst x, tag_name c (snd x))) (pnames d n).
  Proof.
    induction n as [nm v rp at_ ch sc IH] using anode_ind'. intros d.
    cbn [preorder_nodes pnames map]. f_equal. rewrite !map_flat_map.
    apply flat_map_ext_Forall. eapply Forall_impl; [|exact IH]. cbn beta. intros k Hk. apply Hk.
  Qed.

  (* the tag chunks of the formatted forest nest to its preorder (depth, tag name) list *)
  Theorem format_nest forest :
    cfg_clean c = true -> forallb (simple P) forest = true ->
    nestT 0 (tags (html_format c forest)) = map (fun x => (fst x, tag_name c (snd x))) (pnamesL 0 forest).
  Proof.
    intros Hc Hs.
    assert (Hall : forall n, In n forest -> node_clean n = true /\ named_tree n = true /\ Forall nonvoid (tree_events c n)).
    { intros n Hn. rewrite forallb_forall in Hs. destruct (simple_facts n (Hs n Hn)) as [A [B C]]. auto. }
    rewrite (format_events_all c Hc forest) by (apply forallb_forall; intros n Hn; apply (Hall n Hn)).
    rewrite nestT_erase by (apply Forall_flat_map; intros n Hn; apply (Hall n Hn)).
    rewrite (nest_forest c forest) by (apply forallb_forall; intros n Hn; apply (Hall n Hn)).
    unfold pnamesL. rewrite !map_flat_map. apply flat_map_ext. intros n. apply dn_pnames.
  Qed.
End Format.

(* ================================================================ the clean configuration domain *)
Definition html_syntax (s : str) : bool :=
  negb (str_eqb s s_haml) && negb (str_eqb s s_slim) && negb (str_eqb s s_pug).

Lemma stringify_html s c forest : html_syntax s = true -> stringify_markup s c forest = html_format c forest.
Proof.
  unfold html_syntax, stringify_markup. intros H.
  apply andb_prop in H. destruct H as [H H3]. apply andb_prop in H. destruct H as [H1 H2].
  apply negb_true_iff in H1. apply negb_true_iff in H2. apply negb_true_iff in H3.
  rewrite H1, H2, H3. reflexivity.
Qed.

(* configuration side: an HTML-family formatter (not haml/slim/pug), no wrapped text,
   comments off, indent / newline strings and attribute tables free of '<' *)
Definition cfg_ok (x : xconfig) : bool :=
  html_syntax (mc_syntax (xc_m x)) &&
  match mc_text (xc_m x) with WNone => true | _ => false end &&
  cfg_clean (xc_o x).

(* name side: letters, not a snippet key, not `lorem...` *)
Definition name_fine (x : xconfig) (n : str) : bool :=
  good_name n && no_snippet (xc_m x) n && not_lorem n.

(* what the pipeline needs of a written name, whatever its characters: not empty, harmless for the
   tag reader, not a snippet key, not `lorem...` *)
Definition name_sem (x : xconfig) (n : str) : bool :=
  match n with [] => false | _ => true end && nolt n && nocrlf n && name_start n &&
  no_snippet (xc_m x) n && not_lorem n.

(* from a token tree of bare names satisfying P (which implies [name_sem]) to the nesting of the
   output's tag chunks *)
Theorem expand_tree_P (P : str -> bool) x s toks root :
  (forall n, P n = true -> name_sem x n = true) ->
  cfg_ok x = true ->
  tokenize s = TOk toks -> parse (mc_jsx (xc_m x)) toks = POk root ->
  forallb (named P) root = true ->
  (total_list root <= budget_of (mc_max_repeat (xc_m x)))%Z ->
  exists st,
    expand_markup x s = Ok st /\
    nestT 0 (tags st) = map (fun p => (fst p, tag_name (xc_o x) (snd p))) (flat_map (nshape 0) root).
Proof.
  intros HP Hc Ht Hp Hn Hb. unfold cfg_ok in Hc.
  apply andb_prop in Hc. destruct Hc as [Hc Hclean]. apply andb_prop in Hc. destruct Hc as [Hsyn Htext].
  set (m := xc_m x) in *.
  assert (Htx : mc_text m = WNone) by (destruct (mc_text m); [reflexivity|discriminate|discriminate]).
  destruct (convert_named (mkCenv (mc_text m) (mc_variables m) (mc_href m)) (mc_max_repeat m) P root Htx Hn Hb)
    as [forest [Hcv [Hsimple Hshape]]].
  assert (Hsem : forall n, P n = true ->
            n <> [] /\ nolt n = true /\ nocrlf n = true /\ name_start n = true /\ no_snippet m n = true /\ not_lorem n = true).
  { intros n H. specialize (HP n H). unfold name_sem in HP. fold m in HP.
    repeat (apply andb_prop in HP; let H' := fresh in destruct HP as [HP H']).
    repeat split; try assumption. destruct n; discriminate. }
  assert (HP1 : forall n, P n = true -> no_snippet m n = true) by (intros n H; apply (Hsem n H)).
  assert (HP2 : forall n, P n = true -> n <> [] /\ not_lorem n = true) by (intros n H; split; apply (Hsem n H)).
  assert (HP3 : forall n, P n = true -> n <> [] /\ nolt n = true /\ nocrlf n = true /\ name_start n = true).
  { intros n H. destruct (Hsem n H) as [A [B [C [D _]]]]. auto. }
  exists (html_format (xc_o x) forest). split.
  - unfold expand_markup, markup_parse. fold m. unfold parse_abbr. rewrite Ht. fold m in Hp. rewrite Hp, Hcv. cbn [bind].
    rewrite walk_resolve_eq. rewrite (walk_list_simple m [] _ P HP1 forest Hsimple). cbn [bind].
    rewrite (transform_list_simple m P HP2 forest Hsimple). cbn [bind].
    rewrite (stringify_html _ _ _ Hsyn). reflexivity.
  - rewrite (format_nest (xc_o x) P HP3 forest Hclean Hsimple). rewrite Hshape. reflexivity.
Qed.

Lemma name_fine_sem x n : name_fine x n = true -> name_sem x n = true.
Proof.
  unfold name_fine, name_sem. intros H. apply andb_prop in H. destruct H as [H H3]. apply andb_prop in H. destruct H as [H1 H2].
  destruct (good_name_clean n H1) as [A [B C]]. rewrite A, B, C, H2, H3. destruct n; [discriminate|reflexivity].
Qed.

(* from a token tree of fine (letter) names to the nesting of the output's tag chunks *)
Theorem expand_tree x s toks root :
  cfg_ok x = true ->
  tokenize s = TOk toks -> parse (mc_jsx (xc_m x)) toks = POk root ->
  forallb (named (name_fine x)) root = true ->
  (total_list root <= budget_of (mc_max_repeat (xc_m x)))%Z ->
  exists st,
    expand_markup x s = Ok st /\
    nestT 0 (tags st) = map (fun p => (fst p, tag_name (xc_o x) (snd p))) (flat_map (nshape 0) root).
Proof. apply expand_tree_P. apply name_fine_sem. Qed.
