(* C04 -- the parser on an element with text: `name{ ... }` is one block whose value is exactly the
   tokens between the braces.  Plugs into the C01 spine theorem (ParserSpine.flat). *)
From Coq Require Import ZArith List Bool Lia.
From Emmet Require Import lib.Base model.MarkupTokenizer model.MarkupParser proofs.ParserSpine.
Local Open Scope nat_scope.

Definition not_expr_bracket (t : token) : Prop :=
  match tk t with TBracket _ BExpr => False | _ => True end.

Lemma text_loop_inner : forall inner b close rest,
  Forall not_expr_bracket inner -> tk close = TBracket false BExpr ->
  text_loop b (inner ++ close :: rest) = length inner + text_loop b (close :: rest).
Proof.
  induction inner as [|t inner IH]; intros b close rest HF Hc; [reflexivity|].
  inversion HF as [|x y Ht HF']; subst. cbn [app text_loop length].
  unfold not_expr_bracket in Ht.
  destruct (tk t) as [| | |op c| | | | |]; try (rewrite IH by assumption; reflexivity).
  destruct c; try (rewrite IH by assumption; reflexivity). contradiction.
Qed.

Definition shiftE (k : nat) (r : pres (est * nat)) : pres (est * nat) :=
  match r with POk (s, c) => POk (s, k + c) | PErr p => PErr p end.

Lemma elem_loop_skip jsx : forall a s b,
  elem_loop jsx (length a) s (a ++ b) = shiftE (length a) (elem_loop jsx 0 s b).
Proof.
  induction a as [|t a IH]; intros s b.
  - cbn [length app]. destruct (elem_loop jsx 0 s b) as [[s' c]|p]; reflexivity.
  - cbn [length app elem_loop]. rewrite IH.
    destruct (elem_loop jsx 0 s b) as [[s' c]|p]; reflexivity.
Qed.

Definition boundary_op (t : token) : Prop :=
  tk t = TOperator OpChild \/ tk t = TOperator OpSibling \/ tk t = TOperator OpClimb.

(* at `>`, `+`, `^` the element ends, whatever it has collected so far *)
Lemma elem_body_boundary jsx s t r : boundary_op t -> elem_body jsx s (t :: r) = EBreak s 0.
Proof.
  intros Hop. unfold elem_body.
  assert (Hrep : rep_of t = None) by (unfold rep_of; destruct Hop as [H|[H|H]]; rewrite H; reflexivity).
  rewrite Hrep.
  assert (Htx : text (t :: r) = 0).
  { unfold text, is_bracket. destruct Hop as [H|[H|H]]; rewrite H; reflexivity. }
  assert (Hid : short_attribute jsx OpId (t :: r) = None).
  { unfold short_attribute. cbn [span_tok]. unfold is_operator. destruct Hop as [H|[H|H]]; rewrite H; reflexivity. }
  assert (Hcl : short_attribute jsx OpClass (t :: r) = None).
  { unfold short_attribute. cbn [span_tok]. unfold is_operator. destruct Hop as [H|[H|H]]; rewrite H; reflexivity. }
  assert (Has : attribute_set (t :: r) = ASNone).
  { unfold attribute_set, is_bracket. destruct Hop as [H|[H|H]]; rewrite H; reflexivity. }
  assert (Hclose : is_operator t (Some OpClose) = false).
  { unfold is_operator. destruct Hop as [H|[H|H]]; rewrite H; reflexivity. }
  rewrite Htx, Hid, Hcl, Has, Hclose. rewrite andb_false_r.
  destruct (e_repeat s), (negb (est_empty s)), (e_value s); reflexivity.
Qed.

Lemma elem_loop_boundary jsx s rest : boundary rest -> elem_loop jsx 0 s rest = POk (s, 0).
Proof.
  intros Hb. destruct rest as [|t r]; [reflexivity|].
  cbn [elem_loop]. rewrite elem_body_boundary; [reflexivity|exact Hb].
Qed.

Lemma get_text_run open inner close :
  tk close = TBracket false BExpr -> get_text (open :: inner ++ [close]) = inner.
Proof.
  intros Hc. unfold get_text. cbn [tl rev]. rewrite rev_app_distr. cbn [rev app].
  unfold is_bracket. rewrite Hc. cbn [bctx_eqb Bool.eqb andb].
  rewrite app_length. cbn [length]. replace (length inner + 1 - 1) with (length inner) by lia.
  rewrite firstn_app, firstn_all, Nat.sub_diag. cbn [firstn]. apply app_nil_r.
Qed.

(* `name{inner}`: element() consumes the whole block and the value is [inner] *)
Theorem block_text jsx (nt open close : token) (v : str) (inner : list token) :
  tk nt = TLiteral v -> tk open = TBracket true BExpr -> tk close = TBracket false BExpr ->
  Forall not_expr_bracket inner ->
  block_ok jsx (nt :: open :: inner ++ [close]) (mkLeaf (Some [nt]) None (Some inner) None false).
Proof.
  intros Hn Ho Hc HF. split; [discriminate|]. split.
  - cbn [hd_is]. unfold is_climb_op, is_operator. rewrite Hn. reflexivity.
  - intros rest Hb.
    assert (Hname : element_name jsx ((nt :: open :: inner ++ [close]) ++ rest) = 1).
    { unfold element_name. cbn [app hd_is tl].
      assert (Hchain : jsx_chain (open :: (inner ++ [close]) ++ rest) = 0).
      { cbn [jsx_chain]. unfold is_operator. rewrite Ho. reflexivity. }
      assert (Hn1 : is_element_name_tok nt = true) by (unfold is_element_name_tok; rewrite Hn; reflexivity).
      assert (Hn2 : is_element_name_tok open = false) by (unfold is_element_name_tok; rewrite Ho; reflexivity).
      destruct (jsx && is_capitalized_literal nt).
      - rewrite Hchain. cbn [skipn span_tok Nat.add]. rewrite Hn2. reflexivity.
      - cbn [skipn span_tok Nat.add]. rewrite Hn1, Hn2. reflexivity. }
    unfold element. rewrite Hname. cbn [app firstn].
    cbn [elem_loop].
    (* the `{` : text() *)
    set (s0 := mkEst (Some [nt]) None None None false).
    assert (Htx : text (open :: (inner ++ [close]) ++ rest) = S (length inner + 1)).
    { unfold text, is_bracket. rewrite Ho. cbn [bctx_eqb Bool.eqb andb].
      rewrite <- app_assoc. cbn [app]. rewrite text_loop_inner by assumption.
      cbn [text_loop]. rewrite Hc. reflexivity. }
    assert (Hbody : elem_body jsx s0 (open :: (inner ++ [close]) ++ rest)
                    = ECont (mkEst (Some [nt]) None (Some inner) None false) (S (length inner + 1))).
    { unfold elem_body. unfold rep_of. rewrite Ho.
      cbn [s0 e_repeat est_empty e_name e_value e_attrs negb e_self].
      rewrite Htx. f_equal. f_equal.
      cbn [firstn]. rewrite <- app_assoc.
      replace (length inner + 1) with (length (inner ++ [close])) by (rewrite app_length; reflexivity).
      rewrite app_assoc. rewrite firstn_app, firstn_all, Nat.sub_diag. cbn [firstn]. rewrite app_nil_r.
      rewrite get_text_run by exact Hc. reflexivity. }
    rewrite Hbody. cbn [pred].
    replace (length inner + 1) with (length (inner ++ [close])) by (rewrite app_length; reflexivity).
    rewrite elem_loop_skip. rewrite elem_loop_boundary by exact Hb.
    cbn [shiftE est_empty e_name leaf_node lf_name lf_attrs lf_value lf_repeat lf_self e_attrs e_value e_repeat e_self].
    cbn [length]. rewrite Nat.add_0_r. reflexivity.
Qed.
