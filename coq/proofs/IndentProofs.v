(* C15: HAML / Pug / Slim output has one line per element at its depth.
   SPEC ([node_lines]) + proof that the model of indent_format.py produces exactly these lines,
   for ALL trees, ALL indent / newline strings, ALL punctuation records. *)
From Coq Require Import List NArith ZArith Bool Lia.
From Emmet Require Import lib.Base model.MarkupTokenizer model.MarkupParser model.MarkupConvert
     model.OutStream model.FormatHtml model.FormatIndent proofs.IndentStream.
Import ListNotations.

Definition is_nil {A} (l : list A) : bool := match l with [] => true | _ => false end.
Definition non_nil {A} (l : list A) : bool := match l with [] => false | _ => true end.

(* ================================================================ SPEC *)
Section Spec.
  Variable c : oconfig.
  Variable o : iopts.
  Let f := oc_fmt c.

  Definition attrs_of (n : anode) : list aattr := match an_attrs n with Some l => l | None => [] end.
  (* id and class, in the order written *)
  Definition primary_of (n : anode) : list aattr := filter is_primary (attrs_of n).
  (* every other attribute that is to be output *)
  Definition secondary_of (n : anode) : list aattr :=
    filter should_output_attribute (filter (fun a => negb (is_primary a)) (attrs_of n)).
  Definition has_value (a : aattr) : bool := match aa_value a with Some _ => true | None => false end.
  (* an id or a class is present *)
  Definition has_class_or_id (n : anode) : bool := existsb has_value (primary_of n).

  (* `#id` / `.c1.c2`: the class value holds the class names separated by whitespace; every run of
     whitespace is written as one dot ([class_dots]) *)
  Definition class_tok (t : vtok) : vtok := match t with VStr s => VStr (ws_to_dot false s) | _ => t end.
  Definition primary_text (a : aattr) : str :=
    match aa_value a with
    | None => []
    | Some v => if name_is a s_class then c_dot :: val_text (map class_tok v) else c_hash :: val_text v
    end.

  Definition value_or_caret (v : option (list vtok)) : list vtok :=
    match v with Some ((_ :: _) as x) => x | _ => caret end.

  (* one attribute of the syntax's attribute list *)
  Definition attr_text (a : aattr) : str :=
    attr_name c (match aa_name a with Some x => x | None => [] end) ++
    if is_boolean_attribute c a && negb (truthy_l (aa_value a)) then
      if negb (oc_compact_boolean c) && negb (is_nil (io_boolean_value o)) then c_eq :: io_boolean_value o else []
    else c_eq :: attr_quote c a true ++ val_text (value_or_caret (aa_value a)) ++ attr_quote c a false.

  Definition attr_list (l : list aattr) : str :=
    match l with
    | [] => []
    | _ => io_before_attr o ++ join (io_glue_attr o) (map attr_text l) ++ io_after_attr o
    end.

  (* name#id.c1.c2(attributes); `div` is omitted iff an id or class is present *)
  Definition head (n : anode) : str :=
    (match an_name n with
     | Some ((_ :: _) as nm) =>
         if str_eqb nm s_div && has_class_or_id n then [] else io_before_name o ++ nm ++ io_after_name o
     | _ => []
     end)
    ++ concat (map primary_text (primary_of n))
    ++ attr_list (secondary_of n).

  Definition is_self_closed (n : anode) : bool :=
    an_self n && negb (truthy_l (an_value n)) && is_nil (an_children n).
  (* no value and not a leaf: nothing follows the head *)
  Definition no_value_part (n : anode) : bool := negb (truthy_l (an_value n)) && non_nil (an_children n).

  (* what follows the head on the element's own line *)
  Definition inline_value (n : anode) : str :=
    if is_self_closed n then io_self_close o
    else if no_value_part n then []
    else match split_by_lines (value_or_caret (an_value n)) with
         | [line] => (if truthy_s (an_name n) || truthy_l (an_attrs n) then [c_space] else []) ++ val_text line
         | _ => []
         end.

  (* one line of a multi-line value: before-mark, text, padding to the longest line and after-mark *)
  Definition text_line (d : nat) (width : nat) (line : list vtok) : str :=
    ind f d ++ io_before_text o ++ val_text line ++
    match io_after_text o with
    | [] => []
    | a => repeat_str [c_space] (width - value_length line) ++ a
    end.

  (* a value with k > 1 lines: k lines *)
  Definition text_lines (d : nat) (n : anode) : list str :=
    if is_self_closed n || no_value_part n then []
    else match split_by_lines (value_or_caret (an_value n)) with
         | [_] => []
         | lines => map (text_line d (fold_left Nat.max (map value_length lines) O)) lines
         end.

  (* the lines of a node at depth d: its own line, its text lines and its children one level deeper *)
  Fixpoint node_lines (d : nat) (n : anode) : list str :=
    match n with
    | ANode _ _ _ _ ch _ =>
        (ind f d ++ head n ++ inline_value n) :: text_lines (S d) n ++ flat_map (node_lines (S d)) ch
    end.

  (* ---------------------------------------------------------------- domain of the theorem *)
  (* class: any value (names separated by whitespace); id, other attributes: name and value without CR / LF *)
  Definition attr_wf (a : aattr) : bool :=
    if name_is a s_class then true
    else (is_primary a || nocrlf (match aa_name a with Some x => x | None => [] end))
         && match aa_value a with Some v => toks_nocrlf v | None => true end.

  Fixpoint node_wf (n : anode) : bool :=
    match n with
    | ANode nm v _ at_ ch _ =>
        negb (is_snippet n)                               (* an element: it has a name or attributes *)
        && nocrlf (match nm with Some x => x | None => [] end)
        && forallb attr_wf (attrs_of n)
        && forallb node_wf ch
    end.

  (* punctuation that goes through push_string *)
  Definition iopts_wf : bool :=
    nocrlf (io_before_name o) && nocrlf (io_after_name o) && nocrlf (io_before_attr o) && nocrlf (io_after_attr o)
    && nocrlf (io_glue_attr o) && nocrlf (io_boolean_value o) && nocrlf (io_self_close o).
End Spec.

(* ================================================================ auxiliary facts *)
Lemma letter_not_crlf x : (65 <= x <= 122)%N -> is_crlf x = false.
Proof.
  intros Hx. unfold is_crlf, c_cr, c_nl.
  destruct (N.eqb_spec x 13); destruct (N.eqb_spec x 10); try reflexivity; lia.
Qed.
Lemma lower_c_lb ch : is_crlf (lower_c ch) = is_crlf ch.
Proof.
  unfold lower_c. destruct (in_range c_A c_Z ch) eqn:E; [|reflexivity].
  unfold in_range, c_A, c_Z in E. apply andb_true_iff in E. destruct E as [E1 E2].
  apply N.leb_le in E1. apply N.leb_le in E2.
  rewrite (letter_not_crlf ch) by lia. apply letter_not_crlf. lia.
Qed.
Lemma upper_c_lb ch : is_crlf (upper_c ch) = is_crlf ch.
Proof.
  unfold upper_c. destruct (in_range c_a c_z ch) eqn:E; [|reflexivity].
  unfold in_range, c_a, c_z in E. apply andb_true_iff in E. destruct E as [E1 E2].
  apply N.leb_le in E1. apply N.leb_le in E2.
  rewrite (letter_not_crlf ch) by lia. apply letter_not_crlf. lia.
Qed.

Lemma forallb_map_ {A B} (g : A -> B) (p : B -> bool) l : forallb p (map g l) = forallb (fun x => p (g x)) l.
Proof. induction l as [|x l IH]; [reflexivity|]. cbn [map forallb]. rewrite IH. reflexivity. Qed.
Lemma forallb_ext_ {A} (p q : A -> bool) l : (forall x, p x = q x) -> forallb p l = forallb q l.
Proof. intros H. induction l as [|x l IH]; [reflexivity|]. cbn [forallb]. rewrite H, IH. reflexivity. Qed.

Lemma nocrlf_str_case s k : nocrlf (str_case s k) = nocrlf s.
Proof.
  unfold str_case. destruct k as [|k0 k]; [reflexivity|].
  destruct (str_eqb (k0 :: k) s_upper); unfold nocrlf, upper, lower; rewrite forallb_map_;
    apply forallb_ext_; intros x; [rewrite upper_c_lb|rewrite lower_c_lb]; reflexivity.
Qed.

Lemma nocrlf_attr_quote c a b : nocrlf (attr_quote c a b) = true.
Proof.
  unfold attr_quote. destruct (aa_vtype a); destruct b; try destruct (str_eqb _ _); vm_compute; reflexivity.
Qed.

Lemma ws_to_dot_id : forall s b, nows s = true -> ws_to_dot b s = s.
Proof.
  induction s as [|ch s IH]; intros b H; [reflexivity|].
  cbn [nows forallb] in H. fold (nows s) in H. apply andb_true_iff in H. destruct H as [Hc Hs].
  apply negb_true_iff in Hc. cbn [ws_to_dot]. rewrite Hc, (IH false Hs). reflexivity.
Qed.

Lemma nocrlf_ws_to_dot : forall s b, nocrlf (ws_to_dot b s) = true.
Proof.
  induction s as [|ch s IH]; intros b; [reflexivity|]. cbn [ws_to_dot].
  destruct (is_py_space ch) eqn:E.
  - destruct b; [apply IH|]. cbn [nocrlf forallb]. fold (nocrlf (ws_to_dot true s)). rewrite IH. reflexivity.
  - cbn [nocrlf forallb]. fold (nocrlf (ws_to_dot false s)). rewrite IH.
    destruct (is_crlf ch) eqn:E2; [apply linebreak_is_space in E2; congruence|reflexivity].
Qed.

Lemma toks_nocrlf_class v : toks_nocrlf (map class_tok v) = true.
Proof.
  induction v as [|t v IH]; [reflexivity|]. cbn [map toks_nocrlf forallb]. fold (toks_nocrlf (map class_tok v)).
  rewrite IH. destruct t; cbn [class_tok tok_nocrlf]; [rewrite nocrlf_ws_to_dot|]; reflexivity.
Qed.

(* class names joined by spaces are written joined by dots *)
Lemma ws_to_dot_app : forall x b r, nows x = true -> x <> [] -> ws_to_dot b (x ++ r) = x ++ ws_to_dot false r.
Proof.
  induction x as [|ch x IH]; intros b r H Hne; [contradiction|].
  cbn [nows forallb] in H. fold (nows x) in H. apply andb_true_iff in H. destruct H as [Hc Hx].
  apply negb_true_iff in Hc. cbn [app ws_to_dot]. rewrite Hc. destruct x as [|c2 x'].
  - reflexivity.
  - rewrite (IH false r Hx) by discriminate. reflexivity.
Qed.

Lemma ws_to_dot_true_word : forall x r, nows x = true -> x <> [] -> ws_to_dot true (x ++ r) = ws_to_dot false (x ++ r).
Proof. intros x r H Hne. rewrite !ws_to_dot_app by assumption. reflexivity. Qed.

Theorem class_dots_join : forall names,
  Forall (fun x => nows x = true /\ x <> []) names ->
  ws_to_dot false (join [c_space] names) = join [c_dot] names.
Proof.
  induction names as [|x l IH]; intros H; [reflexivity|]. inversion H as [|? ? [Hx Hne] Hl]; subst.
  destruct l as [|y l'].
  - cbn [join]. apply ws_to_dot_id, Hx.
  - change (join [c_space] (x :: y :: l')) with (x ++ [c_space] ++ join [c_space] (y :: l')).
    change (join [c_dot] (x :: y :: l')) with (x ++ [c_dot] ++ join [c_dot] (y :: l')).
    rewrite ws_to_dot_app by assumption. f_equal. cbn [app ws_to_dot].
    assert (Es : is_py_space c_space = true) by (vm_compute; reflexivity). rewrite Es.
    f_equal. rewrite <- (IH Hl). inversion Hl as [|? ? [Hy Hyne] Hl']; subst.
    destruct l' as [|z l''].
    + cbn [join]. rewrite <- (app_nil_r y). apply ws_to_dot_true_word; assumption.
    + change (join [c_space] (y :: z :: l'')) with (y ++ [c_space] ++ join [c_space] (z :: l'')).
      apply ws_to_dot_true_word; assumption.
Qed.

(* ---------------------------------------------------------------- split_by_lines of a value without line breaks *)
Definition sbl_step : (list (list vtok) * list vtok) -> vtok -> (list (list vtok) * list vtok) :=
  fun '(result, line) t =>
    match t with
    | VStr s =>
        match split_crlf s with
        | [] => (result, line ++ [VStr []])
        | l0 :: ls => fold_left (fun '(res, ln) l => (res ++ [ln], [VStr l])) ls (result, line ++ [VStr l0])
        end
    | VField _ _ => (result, line ++ [t])
    end.

Lemma split_by_lines_eq v :
  split_by_lines v = let '(result, line) := fold_left sbl_step v ([], []) in
                     match line with [] => result | _ => result ++ [line] end.
Proof. reflexivity. Qed.

Lemma sbl_fold_nocrlf : forall v result line, toks_nocrlf v = true ->
  fold_left sbl_step v (result, line) = (result, line ++ v).
Proof.
  induction v as [|t v IH]; intros result line H.
  - cbn [fold_left]. rewrite app_nil_r. reflexivity.
  - cbn [toks_nocrlf forallb] in H. fold (toks_nocrlf v) in H. apply andb_true_iff in H. destruct H as [Ht Hv].
    cbn [fold_left].
    assert (E : sbl_step (result, line) t = (result, line ++ [t])).
    { destruct t as [s|i nm]; [|reflexivity]. cbn [tok_nocrlf] in Ht. unfold sbl_step.
      rewrite (split_crlf_nocrlf s Ht). destruct s; reflexivity. }
    rewrite E, (IH _ _ Hv), <- app_assoc. reflexivity.
Qed.

Lemma split_by_lines_single v : toks_nocrlf v = true -> v <> [] -> split_by_lines v = [v].
Proof.
  intros H Hne. rewrite split_by_lines_eq, (sbl_fold_nocrlf v [] [] H). cbn [app].
  destruct v; [contradiction|reflexivity].
Qed.

(* every line produced by split_crlf / split_by_lines is free of CR and LF *)
Lemma nocrlf_rev cur : nocrlf cur = true -> nocrlf (rev cur) = true.
Proof. intros H. unfold nocrlf in *. rewrite forallb_forall in *. intros x Hx. apply H, in_rev, Hx. Qed.

Lemma split_crlf_aux_pieces : forall n s cur, length s <= n -> nocrlf cur = true ->
  Forall (fun l => nocrlf l = true) (split_crlf_aux s cur).
Proof.
  induction n as [|n IH]; intros s cur Hl Hc; destruct s as [|ch s]; cbn [length] in Hl; try lia.
  - cbn [split_crlf_aux]. destruct cur; [constructor|]. constructor; [apply nocrlf_rev, Hc|constructor].
  - cbn [split_crlf_aux]. destruct cur; [constructor|]. constructor; [apply nocrlf_rev, Hc|constructor].
  - cbn [split_crlf_aux]. fold (is_crlf ch). destruct (is_crlf ch) eqn:E.
    + destruct s as [|c2 s'].
      * constructor; [apply nocrlf_rev, Hc|constructor].
      * cbn [length] in Hl.
        destruct ((ch =? c_cr)%N && (c2 =? c_nl)%N);
          (constructor; [apply nocrlf_rev, Hc|apply IH; [cbn [length]; lia|reflexivity]]).
    + apply IH; [lia|]. cbn [nocrlf forallb]. rewrite E. cbn [negb andb]. exact Hc.
Qed.

Lemma split_crlf_pieces s : Forall (fun l => nocrlf l = true) (split_crlf s).
Proof. unfold split_crlf. apply (split_crlf_aux_pieces (length s)); [lia|reflexivity]. Qed.

Lemma sbl_inner_pieces : forall ls res ln,
  Forall (fun l => toks_nocrlf l = true) res -> toks_nocrlf ln = true -> Forall (fun l => nocrlf l = true) ls ->
  let '(res', ln') := fold_left (fun '(res, ln) l => (res ++ [ln], [VStr l])) ls (res, ln) in
  Forall (fun l => toks_nocrlf l = true) res' /\ toks_nocrlf ln' = true.
Proof.
  induction ls as [|l ls IH]; intros res ln Hr Hl Hls; cbn [fold_left].
  - split; assumption.
  - inversion Hls; subst. apply IH; [|cbn; rewrite H1; reflexivity|assumption].
    apply Forall_app. split; [assumption|constructor; [assumption|constructor]].
Qed.

Lemma toks_nocrlf_app a b : toks_nocrlf (a ++ b) = toks_nocrlf a && toks_nocrlf b.
Proof. unfold toks_nocrlf. apply forallb_app. Qed.

Lemma sbl_fold_pieces : forall v res ln,
  Forall (fun l => toks_nocrlf l = true) res -> toks_nocrlf ln = true ->
  let '(res', ln') := fold_left sbl_step v (res, ln) in
  Forall (fun l => toks_nocrlf l = true) res' /\ toks_nocrlf ln' = true.
Proof.
  induction v as [|t v IH]; intros res ln Hr Hl; cbn [fold_left].
  - split; assumption.
  - destruct t as [s|i nm]; cbn [sbl_step].
    + pose proof (split_crlf_pieces s) as Hp. destruct (split_crlf s) as [|l0 ls].
      * apply IH; [assumption|]. rewrite toks_nocrlf_app, Hl. reflexivity.
      * inversion Hp; subst.
        pose proof (sbl_inner_pieces ls res (ln ++ [VStr l0]) Hr) as G.
        destruct (fold_left _ ls (res, ln ++ [VStr l0])) as [res' ln'].
        destruct G as [G1 G2]; [rewrite toks_nocrlf_app, Hl; cbn; rewrite H1; reflexivity|assumption|].
        apply IH; assumption.
    + apply IH; [assumption|]. rewrite toks_nocrlf_app, Hl. reflexivity.
Qed.

Lemma split_by_lines_pieces v : Forall (fun l => toks_nocrlf l = true) (split_by_lines v).
Proof.
  rewrite split_by_lines_eq. pose proof (sbl_fold_pieces v [] [] (Forall_nil _) eq_refl) as G.
  destruct (fold_left sbl_step v ([], [])) as [res ln]. destruct G as [G1 G2].
  destruct ln; [assumption|]. apply Forall_app. split; [assumption|constructor; [assumption|constructor]].
Qed.

(* a value with exactly one line: no token has a second line; the line is the first line of every token *)
Lemma sbl_step_single res ln t : tok_single t = true -> sbl_step (res, ln) t = (res, ln ++ [first_line t]).
Proof.
  destruct t as [s|i nm]; [|reflexivity]. cbn [tok_single sbl_step first_line].
  destruct (split_crlf s) as [|l0 [|l1 ls]]; try discriminate; reflexivity.
Qed.
Lemma sbl_fold_single : forall v res ln, forallb tok_single v = true ->
  fold_left sbl_step v (res, ln) = (res, ln ++ map first_line v).
Proof.
  induction v as [|t v IH]; intros res ln H; cbn [fold_left map].
  - rewrite app_nil_r. reflexivity.
  - cbn [forallb] in H. apply andb_true_iff in H. destruct H as [Ht Hv].
    rewrite (sbl_step_single _ _ _ Ht), (IH _ _ Hv), <- app_assoc. reflexivity.
Qed.

Lemma sbl_inner_grow : forall ls res ln,
  let '(res', ln') := fold_left (fun '(res, ln) l => (res ++ [ln], [VStr l])) ls (res, ln) in
  length res' = length res + length ls /\ (ln <> [] -> ln' <> []).
Proof.
  induction ls as [|l ls IH]; intros res ln; cbn [fold_left].
  - split; [cbn [length]; lia|auto].
  - specialize (IH (res ++ [ln]) [VStr l]). destruct (fold_left _ ls (res ++ [ln], [VStr l])) as [res' ln'].
    destruct IH as [I1 I2]. rewrite app_length in I1. cbn [length] in *. split; [lia|]. intros _. apply I2. discriminate.
Qed.

Lemma sbl_step_grow res ln t :
  let '(res', ln') := sbl_step (res, ln) t in
  length res <= length res' /\ ln' <> [] /\ (tok_single t = false -> length res < length res').
Proof.
  destruct t as [s|i nm]; cbn [sbl_step tok_single].
  - destruct (split_crlf s) as [|l0 [|l1 ls]].
    + repeat split; [lia|destruct ln; discriminate|discriminate].
    + cbn [fold_left]. repeat split; [lia|destruct ln; discriminate|discriminate].
    + pose proof (sbl_inner_grow (l1 :: ls) res (ln ++ [VStr l0])) as G.
      destruct (fold_left _ (l1 :: ls) (res, ln ++ [VStr l0])) as [res' ln']. destruct G as [G1 G2].
      cbn [length] in G1. repeat split; [lia|apply G2; destruct ln; discriminate|intros _; lia].
  - repeat split; [lia|destruct ln; discriminate|discriminate].
Qed.

Lemma sbl_fold_grow : forall v res ln,
  let '(res', ln') := fold_left sbl_step v (res, ln) in
  length res <= length res' /\ (ln <> [] \/ v <> [] -> ln' <> [])
  /\ (forallb tok_single v = false -> length res < length res').
Proof.
  induction v as [|t v IH]; intros res ln; cbn [fold_left].
  - repeat split; [lia|intros [H|H]; [exact H|contradiction]|discriminate].
  - pose proof (sbl_step_grow res ln t) as S. destruct (sbl_step (res, ln) t) as [res1 ln1]. destruct S as [S1 [S2 S3]].
    specialize (IH res1 ln1). destruct (fold_left sbl_step v (res1, ln1)) as [res' ln']. destruct IH as [I1 [I2 I3]].
    repeat split; [lia|intros _; apply I2; left; exact S2|].
    cbn [forallb]. intros H. apply andb_false_iff in H. destruct H as [H|H]; [specialize (S3 H); lia|specialize (I3 H); lia].
Qed.

Lemma split_by_lines_one v line : split_by_lines v = [line] ->
  forallb tok_single v = true /\ line = map first_line v.
Proof.
  intros E. rewrite split_by_lines_eq in E. destruct (forallb tok_single v) eqn:Hs.
  - rewrite (sbl_fold_single v [] [] Hs) in E. cbn [app] in E. split; [reflexivity|].
    destruct (map first_line v); [discriminate|]. injection E as <-. reflexivity.
  - exfalso. pose proof (sbl_fold_grow v [] []) as G.
    destruct (fold_left sbl_step v ([], [])) as [res' ln']. destruct G as [_ [G2 G3]].
    specialize (G3 Hs). cbn [length] in G3.
    assert (Hv : v <> []) by (destruct v; [discriminate|discriminate]).
    specialize (G2 (or_intror Hv)).
    destruct ln' as [|t0 ln']; [contradiction|]. apply (f_equal (@length _)) in E. rewrite app_length in E.
    cbn [length] in E. lia.
Qed.

(* nested induction over trees *)
Fixpoint anode_ind' (P : anode -> Prop)
  (H : forall nm v rp at_ ch sc, Forall P ch -> P (ANode nm v rp at_ ch sc)) (n : anode) : P n :=
  match n with
  | ANode nm v rp at_ ch sc =>
      H nm v rp at_ ch sc
        ((fix go (l : list anode) : Forall P l :=
            match l with
            | [] => Forall_nil P
            | x :: r => Forall_cons x (anode_ind' P H x) (go r)
            end) ch)
  end.

(* ================================================================ the model, step by step *)
Section Proofs.
  Variable c : oconfig.
  Variable o : iopts.
  Let f := oc_fmt c.
  Hypothesis Ho : iopts_wf o = true.

  Definition emit (ls : list str) : str := concat (map (app (nlb f)) ls).
  Lemma emit_app a b : emit (a ++ b) = emit a ++ emit b.
  Proof. unfold emit. rewrite map_app, concat_app. reflexivity. Qed.
  Lemma emit_flat_map {A} (g : A -> list str) l : emit (flat_map g l) = concat (map (fun x => emit (g x)) l).
  Proof. induction l as [|x l IH]; [reflexivity|]. cbn [flat_map map concat]. rewrite emit_app, IH. reflexivity. Qed.

  Lemma Ho_parts :
    nocrlf (io_before_name o) = true /\ nocrlf (io_after_name o) = true /\ nocrlf (io_before_attr o) = true /\
    nocrlf (io_after_attr o) = true /\ nocrlf (io_glue_attr o) = true /\ nocrlf (io_boolean_value o) = true /\
    nocrlf (io_self_close o) = true.
  Proof.
    pose proof Ho as H. unfold iopts_wf in H. repeat (apply andb_true_iff in H; destruct H as [H ?]). repeat split; assumption.
  Qed.

  (* ---------------------------------------------------------------- id / class *)
  Lemma primary_spec attrs st :
    Forall (fun a => attr_wf a = true /\ is_primary a = true) attrs ->
    appends st (push_primary_attributes c attrs st) (concat (map primary_text attrs)).
  Proof.
    intros H. unfold push_primary_attributes.
    apply (appends_fold _ primary_text (fun a => attr_wf a = true /\ is_primary a = true)); [|exact H].
    clear. intros st a [Hw Hp]. unfold primary_text. unfold attr_wf in Hw.
    destruct (aa_value a) as [v|]; [|apply appends_refl].
    destruct (name_is a s_class).
    - eapply (appends_trans _ _ _ [c_dot] (val_text (map class_tok v))); [apply appends_push_str; reflexivity|].
      apply appends_push_tokens, toks_nocrlf_class.
    - apply andb_true_iff in Hw. destruct Hw as [_ Hw].
      eapply (appends_trans _ _ _ [c_hash] (val_text v)); [apply appends_push_str; reflexivity|].
      apply appends_push_tokens, Hw.
  Qed.

  (* ---------------------------------------------------------------- attribute list *)
  Definition sec_wf (a : aattr) : Prop :=
    nocrlf (match aa_name a with Some x => x | None => [] end) = true
    /\ match aa_value a with Some v => toks_nocrlf v = true | None => True end.

  Definition attr_step (a : aattr) (st : fstate) : fstate :=
    let st := push_str c (attr_name c (match aa_name a with Some x => x | None => [] end)) st in
    if is_boolean_attribute c a && negb (truthy_l (aa_value a)) then
      if negb (oc_compact_boolean c) && negb (match io_boolean_value o with [] => true | _ => false end)
      then push_str c (c_eq :: io_boolean_value o) st
      else st
    else
      let st := push_str c (c_eq :: attr_quote c a true) st in
      let st := push_tokens c (match aa_value a with Some ((_ :: _) as v) => v | _ => caret end) st in
      push_str c (attr_quote c a false) st.

  Lemma attr_step_spec a st : sec_wf a -> appends st (attr_step a st) (attr_text c o a).
  Proof.
    intros [Hn Hv]. destruct Ho_parts as [_ [_ [_ [_ [_ [Hb _]]]]]].
    unfold attr_step, attr_text. cbv zeta.
    eapply appends_trans; [apply appends_push_str; unfold attr_name; rewrite nocrlf_str_case; exact Hn|].
    destruct (is_boolean_attribute c a && negb (truthy_l (aa_value a))).
    - unfold is_nil. destruct (negb (oc_compact_boolean c) && negb match io_boolean_value o with [] => true | _ => false end).
      + apply appends_push_str. cbn [nocrlf forallb]. fold (nocrlf (io_boolean_value o)). rewrite Hb. reflexivity.
      + apply appends_refl.
    - change (c_eq :: attr_quote c a true ++ val_text (value_or_caret (aa_value a)) ++ attr_quote c a false)
        with ((c_eq :: attr_quote c a true) ++ val_text (value_or_caret (aa_value a)) ++ attr_quote c a false).
      eapply appends_trans; [apply appends_push_str; cbn [nocrlf forallb]; fold (nocrlf (attr_quote c a true));
                             rewrite nocrlf_attr_quote; reflexivity|].
      eapply appends_trans; [|apply appends_push_str, nocrlf_attr_quote].
      apply appends_push_tokens. unfold value_or_caret.
      destruct (aa_value a) as [[|t v]|]; try reflexivity. exact Hv.
  Qed.

  Definition psa_go (n : nat) : nat -> list aattr -> fstate -> fstate :=
    fix go (i : nat) (l : list aattr) (st : fstate) : fstate :=
      match l with
      | [] => st
      | a :: r =>
          let st := attr_step a st in
          let st := if negb (Nat.eqb i (n - 1)) then push_str c (io_glue_attr o) st else st in
          go (S i) r st
      end.

  Lemma psa_eq attrs st :
    push_secondary_attributes c o attrs st =
    match attrs with
    | [] => st
    | _ => push_str c (io_after_attr o) (psa_go (length attrs) O attrs (push_str c (io_before_attr o) st))
    end.
  Proof. reflexivity. Qed.

  Lemma psa_go_spec n : forall l i st, i + length l = n -> Forall sec_wf l ->
    appends st (psa_go n i l st) (join (io_glue_attr o) (map (attr_text c o) l)).
  Proof.
    destruct Ho_parts as [_ [_ [_ [_ [Hg _]]]]].
    induction l as [|a r IH]; intros i st Hn Hw.
    - apply appends_refl.
    - inversion Hw; subst. cbn [psa_go]. cbv zeta. fold (psa_go (i + length (a :: r))).
      destruct r as [|b r'].
      + cbn [length] in *. replace (Nat.eqb i (i + 1 - 1)) with true by (symmetry; apply Nat.eqb_eq; lia).
        cbn [negb psa_go map join]. apply attr_step_spec; assumption.
      + replace (Nat.eqb i (i + length (a :: b :: r') - 1)) with false
          by (symmetry; apply Nat.eqb_neq; cbn [length]; lia).
        cbn [negb]. change (join (io_glue_attr o) (map (attr_text c o) (a :: b :: r')))
          with (attr_text c o a ++ io_glue_attr o ++ join (io_glue_attr o) (map (attr_text c o) (b :: r'))).
        eapply appends_trans; [apply attr_step_spec; assumption|].
        eapply appends_trans; [apply appends_push_str, Hg|].
        apply IH; [cbn [length] in *; lia|assumption].
  Qed.

  Lemma secondary_spec attrs st : Forall sec_wf attrs ->
    appends st (push_secondary_attributes c o attrs st) (attr_list c o attrs).
  Proof.
    intros H. destruct Ho_parts as [_ [_ [Hb [Ha _]]]].
    rewrite psa_eq. unfold attr_list. destruct attrs as [|a r]; [apply appends_refl|].
    eapply appends_trans; [apply appends_push_str, Hb|].
    eapply appends_trans; [|apply appends_push_str, Ha].
    apply psa_go_spec; [reflexivity|exact H].
  Qed.

  (* ---------------------------------------------------------------- value *)
  Lemma appends_fold_lvl {A} (L : Z) (g : fstate -> A -> fstate) (h : A -> str) (P : A -> Prop) :
    (forall st a, P a -> lvl st = L -> appends st (g st a) (h a)) ->
    forall l st, Forall P l -> lvl st = L -> appends st (fold_left g l st) (concat (map h l)).
  Proof.
    intros Hg. induction l as [|a l IH]; intros st HP HL; cbn [fold_left map concat].
    - apply appends_refl.
    - inversion HP; subst. pose proof (Hg st a H1 eq_refl) as Ha.
      eapply appends_trans; [exact Ha|]. apply IH; [assumption|]. destruct Ha as [_ Ha]. exact Ha.
  Qed.

  Lemma to_nat_level (d : nat) : Z.to_nat (Z.max (Z.of_nat d) 0) = d.
  Proof. lia. Qed.

  (* one line of a multi-line value, as a function of the formatter state alone (the second component of
     [pv_line] only tracks the next free field index and does not influence the stream) *)
  Definition text_step (w : nat) (field : N) (st : fstate) (line : list vtok) : fstate :=
    let st := map_out (fun os => os_push_newline (oc_fmt c) os (Some None)) st in
    let st := match io_before_text o with [] => st | b => push_raw b st end in
    let st := push_tokens c line (mkFs (fs_out st) field) in
    match io_after_text o with
    | [] => st
    | a => push_raw a (push_raw (repeat_str [c_space] (w - value_length line)) st)
    end.

  Lemma pv_line_fst w field st nf line : fst (pv_line c o w field (st, nf) line) = text_step w field st line.
  Proof. unfold pv_line, text_step. cbv zeta. destruct (io_after_text o); reflexivity. Qed.

  Lemma pv_fold_fst w field : forall lines st nf,
    fst (fold_left (pv_line c o w field) lines (st, nf)) = fold_left (text_step w field) lines st.
  Proof.
    induction lines as [|l ls IH]; intros st nf; [reflexivity|].
    cbn [fold_left]. destruct (pv_line c o w field (st, nf) l) as [st1 nf1] eqn:E.
    rewrite IH. f_equal. rewrite <- (pv_line_fst w field st nf l), E. reflexivity.
  Qed.

  Lemma text_step_spec w field d st line : toks_nocrlf line = true -> lvl st = Z.of_nat d ->
    appends st (text_step w field st line) (nlb f ++ text_line c o d w line).
  Proof.
    intros Hline HL. unfold text_step. cbv zeta.
    destruct (newline_spec c st) as [NV NL].
    set (st2 := map_out (fun os => os_push_newline (oc_fmt c) os (Some None)) st) in *.
    assert (A2 : appends st st2 (nlb f ++ ind f d)).
    { split; [rewrite NV, HL, to_nat_level; reflexivity|exact NL]. }
    unfold text_line. fold f. rewrite (app_assoc (nlb f) (ind f d)).
    eapply appends_trans; [exact A2|].
    set (st3 := match io_before_text o with [] => st2 | b => push_raw b st2 end).
    assert (A3 : appends st2 st3 (io_before_text o)).
    { unfold st3. destruct (io_before_text o); [apply appends_refl|apply appends_push_raw]. }
    eapply appends_trans; [exact A3|].
    assert (A4 : appends st3 (mkFs (fs_out st3) field) []) by (split; [unfold val; cbn [fs_out]; rewrite app_nil_r; reflexivity|reflexivity]).
    eapply appends_eq; [|eapply appends_trans; [exact A4|]]; [reflexivity|].
    eapply appends_trans; [apply appends_push_tokens, Hline|].
    destruct (io_after_text o) as [|a0 ar]; [apply appends_refl|].
    eapply appends_trans; apply appends_push_raw.
  Qed.

  Lemma text_block_spec lines w field st (d : nat) :
    Forall (fun l => toks_nocrlf l = true) lines -> lvl st = Z.of_nat d ->
    appends st
      (map_out (fun os => os_add_level os (-1)) (fold_left (text_step w field) lines (map_out (fun os => os_add_level os 1) st)))
      (emit (map (text_line c o (S d) w) lines)).
  Proof.
    intros Hl HL. set (st1 := map_out (fun os => os_add_level os 1) st).
    assert (L1 : lvl st1 = Z.of_nat (S d)).
    { unfold st1, lvl, map_out. cbn [fs_out]. rewrite level_add_level. fold (lvl st). lia. }
    assert (F : appends st1 (fold_left (text_step w field) lines st1)
                        (concat (map (fun line => nlb f ++ text_line c o (S d) w line) lines))).
    { apply (appends_fold_lvl (Z.of_nat (S d)) (text_step w field) _ (fun l => toks_nocrlf l = true)); [|exact Hl|exact L1].
      intros st' line Hline HL'. apply text_step_spec; assumption. }
    destruct F as [FV FL]. split.
    - unfold val, map_out in *. cbn [fs_out] in *. rewrite value_add_level, FV.
      unfold emit. rewrite map_map. reflexivity.
    - unfold lvl, map_out in *. cbn [fs_out] in *. rewrite level_add_level, FL. unfold st1. cbn [fs_out].
      rewrite level_add_level. lia.
  Qed.

  (* the stream written by push_value: the multi-line branch as a fold of [text_step] (the field counter the
     model threads beside it is set at the end and does not touch the stream) *)
  Definition pv_stream (node : anode) (st : fstate) : fstate :=
    if no_value_part node then st
    else let value := value_or_caret (an_value node) in
         let lines := split_by_lines value in
         match lines with
         | [_] => push_tokens c value
                    (if truthy_s (an_name node) || truthy_l (an_attrs node) then push_raw [c_space] st else st)
         | _ => map_out (fun os => os_add_level os (-1))
                      (fold_left (text_step (fold_left Nat.max (map value_length lines) O) (fs_field st)) lines
                                 (map_out (fun os => os_add_level os 1) st))
         end.

  Lemma push_value_out node st : fs_out (push_value c o node st) = fs_out (pv_stream node st).
  Proof.
    unfold push_value, pv_stream.
    change (negb (truthy_l (an_value node)) && match an_children node with [] => false | _ => true end)
      with (no_value_part node).
    destruct (no_value_part node); [reflexivity|].
    change (match an_value node with Some ((_ :: _) as v) => v | _ => caret end) with (value_or_caret (an_value node)).
    cbv zeta.
    destruct (split_by_lines (value_or_caret (an_value node))) as [|l1 [|l2 ls]].
    - reflexivity.
    - reflexivity.
    - set (w := fold_left Nat.max (map value_length (l1 :: l2 :: ls)) O).
      set (st1 := map_out (fun os => os_add_level os 1) st).
      change (fs_field st1) with (fs_field st).
      pose proof (pv_fold_fst w (fs_field st) (l1 :: l2 :: ls) st1 (fs_field st)) as E.
      destruct (fold_left (pv_line c o w (fs_field st)) (l1 :: l2 :: ls) (st1, fs_field st)) as [stf nff].
      cbn [fst] in E. rewrite <- E. reflexivity.
  Qed.

  Lemma appends_same_out st a b s0 : fs_out a = fs_out b -> appends st b s0 -> appends st a s0.
  Proof. unfold appends, val, lvl. intros ->. exact (fun H => H). Qed.

  Lemma push_value_spec node st (d : nat) :
    is_self_closed node = false ->
    lvl st = Z.of_nat d ->
    appends st (push_value c o node st) (inline_value o node ++ emit (text_lines c o (S d) node)).
  Proof.
    intros Hs HL. apply (appends_same_out _ _ (pv_stream node st)); [apply push_value_out|].
    unfold pv_stream, inline_value, text_lines. rewrite Hs. cbn [orb].
    destruct (no_value_part node); [apply appends_refl|]. cbv zeta.
    set (value := value_or_caret (an_value node)) in *.
    pose proof (split_by_lines_pieces value) as Hp.
    destruct (split_by_lines value) as [|l1 [|l2 ls]] eqn:E.
    - apply (text_block_spec [] _ _ st d); [constructor|exact HL].
    - destruct (split_by_lines_one value l1 E) as [Hsingle ->].
      unfold emit. cbn [map concat]. rewrite app_nil_r.
      eapply appends_trans; [|apply appends_push_tokens_single, Hsingle].
      destruct (truthy_s (an_name node) || truthy_l (an_attrs node)); [apply appends_push_raw|apply appends_refl].
    - apply (text_block_spec (l1 :: l2 :: ls) _ _ st d); [exact Hp|exact HL].
  Qed.

  (* ---------------------------------------------------------------- one element *)
  Definition el_level (parent : option anode) : Z := match parent with Some _ => 1 | None => 0 end.
  Definition el_fmt (parent : option anode) (node : anode) (index : nat) : bool :=
    negb (match parent with None => Nat.eqb index 0 | Some _ => false end) && negb (is_snippet node).

  Definition st_open (parent : option anode) (node : anode) (index : nat) (st : fstate) : fstate :=
    let st := map_out (fun os => os_add_level os (el_level parent)) st in
    if el_fmt parent node index then map_out (fun os => os_push_newline (oc_fmt c) os (Some None)) st else st.

  Definition st_name (node : anode) (st : fstate) : fstate :=
    match an_name node with
    | Some ((_ :: _) as nm) =>
        if negb (str_eqb nm s_div) || negb (has_class_or_id node)
        then push_str c (io_before_name o ++ nm ++ io_after_name o) st
        else st
    | _ => st
    end.

  Definition st_attrs (node : anode) (st : fstate) : fstate :=
    push_secondary_attributes c o (secondary_of node) (push_primary_attributes c (primary_of node) st).

  Definition kids_go (node : anode) : nat -> list anode -> fstate -> fstate :=
    fix go (i : nat) (l : list anode) (st : fstate) : fstate :=
      match l with
      | [] => st
      | ch :: r => go (S i) r (indent_element c o (Some node) ch i st)
      end.

  Definition st_content (node : anode) (st : fstate) : fstate :=
    if is_self_closed node
    then match io_self_close o with [] => st | sc => push_str c sc st end
    else kids_go node O (an_children node) (push_value c o node st).

  Lemma indent_element_eq parent node index st :
    indent_element c o parent node index st =
    map_out (fun os => os_add_level os (- el_level parent)%Z)
            (st_content node (st_attrs node (st_name node (st_open parent node index st)))).
  Proof. destruct node; reflexivity. Qed.

  Lemma node_wf_eq n :
    node_wf n = negb (is_snippet n)
                && nocrlf (match an_name n with Some x => x | None => [] end)
                && forallb attr_wf (attrs_of n)
                && forallb node_wf (an_children n).
  Proof. destruct n; reflexivity. Qed.

  Lemma node_lines_eq d n :
    node_lines c o d n =
    (ind f d ++ head c o n ++ inline_value o n) :: text_lines c o (S d) n ++ flat_map (node_lines c o (S d)) (an_children n).
  Proof. destruct n; reflexivity. Qed.

  (* what one element appends: (newline,) its own line, then every further line after a newline *)
  Definition emit_node (newline : bool) (d : nat) (n : anode) : str :=
    (if newline then nlb f else []) ++
    match node_lines c o d n with
    | [] => []
    | l0 :: rest => l0 ++ emit rest
    end.

  Lemma emit_node_true d n : emit_node true d n = emit (node_lines c o d n).
  Proof. unfold emit_node. rewrite node_lines_eq. unfold emit. cbn [map concat]. rewrite app_assoc. reflexivity. Qed.

  Lemma name_spec node st : nocrlf (match an_name node with Some x => x | None => [] end) = true ->
    appends st (st_name node st)
      (match an_name node with
       | Some ((_ :: _) as nm) =>
           if str_eqb nm s_div && has_class_or_id node then [] else io_before_name o ++ nm ++ io_after_name o
       | _ => []
       end).
  Proof.
    intros Hn. destruct Ho_parts as [Hb [Ha _]]. unfold st_name.
    destruct (an_name node) as [[|c0 nm]|]; try apply appends_refl.
    rewrite <- negb_andb. destruct (str_eqb (c0 :: nm) s_div && has_class_or_id node); cbn [negb].
    - apply appends_refl.
    - apply appends_push_str. rewrite !nocrlf_app, Hb, Ha, Hn. reflexivity.
  Qed.

  Lemma attrs_spec node st : forallb attr_wf (attrs_of node) = true ->
    appends st (st_attrs node st) (concat (map primary_text (primary_of node)) ++ attr_list c o (secondary_of node)).
  Proof.
    intros Hw. rewrite forallb_forall in Hw. unfold st_attrs.
    eapply appends_trans.
    - apply primary_spec. apply Forall_forall. intros a Ha. unfold primary_of in Ha.
      apply filter_In in Ha. destruct Ha as [Ha Hp]. split; [apply Hw, Ha|exact Hp].
    - apply secondary_spec. apply Forall_forall. intros a Ha. unfold secondary_of in Ha.
      apply filter_In in Ha. destruct Ha as [Ha _]. apply filter_In in Ha. destruct Ha as [Ha Hp].
      apply negb_true_iff in Hp. specialize (Hw a Ha). unfold attr_wf in Hw.
      unfold is_primary in Hp. apply orb_false_iff in Hp. destruct Hp as [Hp1 Hp2].
      unfold is_primary in Hw. rewrite Hp1, Hp2 in Hw. cbn [orb] in Hw.
      apply andb_true_iff in Hw. destruct Hw as [H1 H2]. split; [exact H1|].
      destruct (aa_value a); [exact H2|exact I].
  Qed.

  Definition elem_ok (n : anode) : Prop :=
    forall parent index st (d : nat),
      Z.of_nat d = (lvl st + el_level parent)%Z ->
      (parent = None -> d = O) ->
      appends st (indent_element c o parent n index st) (emit_node (el_fmt parent n index) d n).

  Lemma kids_spec node (d : nat) : forall l i st,
    Forall elem_ok l -> forallb node_wf l = true -> lvl st = Z.of_nat d ->
    appends st (kids_go node i l st) (emit (flat_map (node_lines c o (S d)) l)).
  Proof.
    induction l as [|ch r IH]; intros i st Hok Hwf HL.
    - apply appends_refl.
    - inversion Hok; subst. cbn [forallb] in Hwf. apply andb_true_iff in Hwf. destruct Hwf as [Hch Hr].
      cbn [kids_go flat_map]. fold (kids_go node). rewrite emit_app.
      assert (Hsn : is_snippet ch = false).
      { rewrite node_wf_eq in Hch. repeat (apply andb_true_iff in Hch; destruct Hch as [Hch ?]).
        apply negb_true_iff in Hch. exact Hch. }
      pose proof (H1 (Some node) i st (S d)) as E.
      assert (Ef : el_fmt (Some node) ch i = true) by (unfold el_fmt; rewrite Hsn; reflexivity).
      rewrite Ef, emit_node_true in E.
      assert (A : appends st (indent_element c o (Some node) ch i st) (emit (node_lines c o (S d) ch))).
      { apply E; [cbn [el_level]; lia|discriminate]. }
      eapply appends_trans; [exact A|]. apply IH; [assumption|assumption|]. destruct A as [_ A]. rewrite A. exact HL.
  Qed.

  Lemma element_spec : forall n, node_wf n = true -> elem_ok n.
  Proof.
    induction n as [nm v rp at_ ch sc IHch] using anode_ind'. intros Hwf.
    set (n := ANode nm v rp at_ ch sc) in *.
    assert (Hkids : Forall elem_ok ch /\ forallb node_wf ch = true).
    { rewrite node_wf_eq in Hwf. apply andb_true_iff in Hwf. destruct Hwf as [_ Hk]. change (an_children n) with ch in Hk.
      split; [|exact Hk]. rewrite forallb_forall in Hk. rewrite Forall_forall in *. intros x Hx. apply IHch; [exact Hx|apply Hk, Hx]. }
    destruct Hkids as [Hkok Hkwf].
    rewrite node_wf_eq in Hwf.
    apply andb_true_iff in Hwf. destruct Hwf as [Hwf _].
    apply andb_true_iff in Hwf. destruct Hwf as [Hwf Hattrs].
    apply andb_true_iff in Hwf. destruct Hwf as [Hsnip Hname].
    apply negb_true_iff in Hsnip.
    intros parent index st d Hd Htop.
    rewrite indent_element_eq.
    (* open: level and newline *)
    set (st1 := st_open parent n index st).
    assert (O1 : val st1 = val st ++ (if el_fmt parent n index then nlb f ++ ind f d else []) /\ lvl st1 = Z.of_nat d).
    { unfold st1, st_open. cbv zeta.
      destruct (appends_add_level st (el_level parent)) as [V0 L0].
      set (st0 := map_out (fun os => os_add_level os (el_level parent)) st) in *.
      destruct (el_fmt parent n index).
      - destruct (newline_spec c st0) as [NV NL]. rewrite NV, NL, V0, L0, <- Hd, to_nat_level. split; reflexivity.
      - rewrite V0, L0, app_nil_r. split; [reflexivity|lia]. }
    destruct O1 as [V1 L1].
    (* name, attributes *)
    pose proof (name_spec n st1 Hname) as A2. set (st2 := st_name n st1) in *.
    pose proof (attrs_spec n st2 Hattrs) as A3. set (st3 := st_attrs n st2) in *.
    pose proof (appends_trans _ _ _ _ _ A2 A3) as A23.
    assert (L3 : lvl st3 = Z.of_nat d) by (destruct A23 as [_ L]; rewrite L; exact L1).
    (* content *)
    assert (A4 : appends st3 (st_content n st3)
                   (inline_value o n ++ emit (text_lines c o (S d) n ++ flat_map (node_lines c o (S d)) ch))).
    { unfold st_content. destruct (is_self_closed n) eqn:Es.
      - assert (Ech : ch = []).
        { unfold is_self_closed in Es. apply andb_true_iff in Es. destruct Es as [_ Es]. change (an_children n) with ch in Es.
          destruct ch; [reflexivity|discriminate]. }
        unfold inline_value, text_lines. rewrite Es, Ech. cbn [orb flat_map app]. unfold emit. cbn [map concat].
        rewrite app_nil_r. destruct Ho_parts as [_ [_ [_ [_ [_ [_ Hsc]]]]]].
        destruct (io_self_close o) eqn:Esc; [apply appends_refl|]. rewrite <- Esc in *. apply appends_push_str, Hsc.
      - rewrite emit_app, app_assoc.
        pose proof (push_value_spec n st3 d Es L3) as A.
        eapply appends_trans; [exact A|]. change (an_children n) with ch.
        apply kids_spec; [exact Hkok|exact Hkwf|]. destruct A as [_ A]. rewrite A. exact L3. }
    pose proof (appends_trans _ _ _ _ _ A23 A4) as A.
    set (st4 := st_content n st3) in *.
    destruct A as [VA LA]. split.
    - unfold val, map_out in *. cbn [fs_out] in *. rewrite value_add_level, VA, V1.
      unfold emit_node. rewrite node_lines_eq. change (an_children n) with ch. unfold head.
      destruct (el_fmt parent n index) eqn:Ef.
      + rewrite <- !app_assoc. reflexivity.
      + assert (d = O).
        { apply Htop. unfold el_fmt in Ef. rewrite Hsnip in Ef. cbn [negb] in Ef. rewrite andb_true_r in Ef.
          destruct parent; [discriminate|reflexivity]. }
        subst d. cbn [ind repeat_str app]. rewrite <- !app_assoc. reflexivity.
    - unfold lvl, map_out in *. cbn [fs_out] in *. rewrite level_add_level, LA, L1. lia.
  Qed.

  (* ---------------------------------------------------------------- the whole abbreviation *)
  Definition top_go : nat -> list anode -> fstate -> fstate :=
    fix go (i : nat) (l : list anode) (st : fstate) : fstate :=
      match l with
      | [] => st
      | ch :: r => go (S i) r (indent_element c o None ch i st)
      end.

  Lemma indent_format_eq forest : indent_format c o forest = top_go O forest (mkFs os_empty 1).
  Proof. reflexivity. Qed.

  Lemma top_spec_later : forall l i st, forallb node_wf l = true -> lvl st = 0%Z ->
    appends st (top_go (S i) l st) (emit (flat_map (node_lines c o 0) l)).
  Proof.
    induction l as [|ch r IH]; intros i st Hwf HL.
    - apply appends_refl.
    - cbn [forallb] in Hwf. apply andb_true_iff in Hwf. destruct Hwf as [Hch Hr].
      cbn [top_go flat_map]. fold top_go. rewrite emit_app.
      pose proof (element_spec ch Hch None (S i) st O) as E.
      assert (Hsn : is_snippet ch = false).
      { rewrite node_wf_eq in Hch. repeat (apply andb_true_iff in Hch; destruct Hch as [Hch ?]).
        apply negb_true_iff in Hch. exact Hch. }
      assert (Ef : el_fmt None ch (S i) = true) by (unfold el_fmt; rewrite Hsn; reflexivity).
      rewrite Ef, emit_node_true in E.
      assert (A : appends st (indent_element c o None ch (S i) st) (emit (node_lines c o 0 ch))).
      { apply E; [cbn [el_level]; lia|reflexivity]. }
      eapply appends_trans; [exact A|]. apply IH; [assumption|]. destruct A as [_ A]. rewrite A. exact HL.
  Qed.

  Theorem indent_lines_all forest : forallb node_wf forest = true ->
    os_value (fs_out (indent_format c o forest)) = join (nlb f) (flat_map (node_lines c o 0) forest).
  Proof.
    intros Hwf. rewrite indent_format_eq. destruct forest as [|n r]; [reflexivity|].
    cbn [forallb] in Hwf. apply andb_true_iff in Hwf. destruct Hwf as [Hn Hr].
    cbn [top_go flat_map]. fold top_go.
    set (st0 := mkFs os_empty 1).
    pose proof (element_spec n Hn None O st0 O) as E.
    assert (Ef : el_fmt None n O = false) by reflexivity.
    rewrite Ef in E.
    assert (A : appends st0 (indent_element c o None n 0 st0) (emit_node false 0 n)) by (apply E; reflexivity).
    pose proof (top_spec_later r O (indent_element c o None n 0 st0) Hr) as B.
    assert (LB : lvl (indent_element c o None n 0 st0) = 0%Z) by (destruct A as [_ A]; rewrite A; reflexivity).
    specialize (B LB). pose proof (appends_trans _ _ _ _ _ A B) as [V _].
    unfold val in V. rewrite V. change (os_value (fs_out st0)) with (@nil char). cbn [app].
    unfold emit_node. rewrite node_lines_eq. cbn [app]. rewrite join_cons. fold (emit). 
    rewrite <- app_assoc. f_equal. symmetry. apply emit_app.
  Qed.
End Proofs.

(* ================================================================ the three syntaxes *)
Lemma haml_opts_wf : iopts_wf haml_opts = true.
Proof. vm_compute. reflexivity. Qed.
Lemma slim_opts_wf : iopts_wf slim_opts = true.
Proof. vm_compute. reflexivity. Qed.
Lemma pug_opts_wf c : iopts_wf (pug_opts c) = true.
Proof. unfold pug_opts. destruct (str_eqb (oc_self_closing_style c) s_xml); vm_compute; reflexivity. Qed.

(* punctuation record of a syntax name, as chosen by markup.stringify *)
Definition syntax_opts (syntax : str) (c : oconfig) : option iopts :=
  if str_eqb syntax s_haml then Some haml_opts
  else if str_eqb syntax s_slim then Some slim_opts
  else if str_eqb syntax s_pug then Some (pug_opts c)
  else None.

Theorem indent_lines_syntax syntax c o forest :
  syntax_opts syntax c = Some o -> forallb node_wf forest = true ->
  os_value (fs_out (stringify_markup syntax c forest))
  = join (nlb (oc_fmt c)) (flat_map (node_lines c o 0) forest).
Proof.
  unfold syntax_opts, stringify_markup. intros Ho Hwf.
  destruct (str_eqb syntax s_haml); [injection Ho as <-; apply indent_lines_all; [apply haml_opts_wf|exact Hwf]|].
  destruct (str_eqb syntax s_slim); [injection Ho as <-; apply indent_lines_all; [apply slim_opts_wf|exact Hwf]|].
  destruct (str_eqb syntax s_pug); [injection Ho as <-; apply indent_lines_all; [apply pug_opts_wf|exact Hwf]|].
  discriminate.
Qed.

(* a value with k > 1 lines: the element line carries no text, k text lines follow one level deeper *)
Theorem multiline_text_lines c o d n lines :
  truthy_l (an_value n) = true ->
  split_by_lines (value_or_caret (an_value n)) = lines -> 1 < length lines ->
  node_lines c o d n =
    (ind (oc_fmt c) d ++ head c o n)
    :: map (text_line c o (S d) (fold_left Nat.max (map value_length lines) O)) lines
    ++ flat_map (node_lines c o (S d)) (an_children n).
Proof.
  intros Hv Hs Hl. rewrite node_lines_eq. unfold inline_value, text_lines, is_self_closed, no_value_part.
  rewrite Hv, Hs. cbn [negb andb orb]. rewrite andb_false_r. cbn [orb].
  destruct lines as [|l1 [|l2 ls]]; cbn [length] in Hl; try lia.
  rewrite app_nil_r. reflexivity.
Qed.

(* end to end: expand() under an indent syntax, for every abbreviation whose parsed tree is in the domain *)
From Emmet Require Import model.MarkupResolve model.MarkupExpand.
Theorem expand_indent_lines x abbr tree o :
  markup_parse (xc_m x) abbr = Ok tree ->
  syntax_opts (mc_syntax (xc_m x)) (xc_o x) = Some o ->
  forallb node_wf tree = true ->
  expand_markup_str x abbr = Ok (join (nlb (oc_fmt (xc_o x))) (flat_map (node_lines (xc_o x) o 0) tree)).
Proof.
  intros Hp Ho Hwf. unfold expand_markup_str, expand_markup. rewrite Hp. cbn [bind].
  rewrite (indent_lines_syntax _ _ _ _ Ho Hwf). reflexivity.
Qed.
