(* C12 indent_is_depth / close_aligned: the indentation level at which element() is entered for
   a node equals the number of enclosing elements that indent their content; the line breaks an
   element makes are indented relative to that level. *)
From Coq Require Import ZArith List Bool Lia ZifyBool.
From Emmet Require Import lib.Base model.MarkupTokenizer model.MarkupParser model.MarkupConvert
     model.OutStream model.FormatHtml model.FormatIndent proofs.OutStreamProofs proofs.FormatSteps
     proofs.FormatReach proofs.FormatProofs proofs.FormatChunks.
Local Open Scope Z_scope.

(* ---------------------------------------------------------------- where the children walk starts *)
(* the state at which el_snippet / el_body invoke [next] (if they do) *)
Definition snippet_pre (c : oconfig) (node : anode) (st : fstate) : option fstate :=
  match an_value node, an_children node with
  | Some ((_ :: _) as value), _ :: _ =>
      match find_field_ix value with
      | Some ix => Some (push_tokens c (firstn ix value) st)
      | None => None
      end
  | _, _ => None
  end.

Definition body_pre (c : oconfig) (node : anode) (st : fstate) : fstate :=
  match an_name node with
  | Some ((_ :: _) as nm) =>
      let st := push_str c [c_gt] (el_open c nm node st) in
      match snippet_pre c node st with
      | Some p => p
      | None => el_value c node st
      end
  | _ =>
      match snippet_pre c node st with
      | Some p => p
      | None => match an_value node with Some ((_ :: _) as value) => push_tokens c value st | _ => st end
      end
  end.

Lemma el_snippet_some c node st p :
  snippet_pre c node st = Some p ->
  exists f : fstate -> fstate, forall next, el_snippet c node next st = Some (f (next p)).
Proof.
  unfold snippet_pre, el_snippet.
  destruct (an_value node) as [[|v0 value]|]; try discriminate.
  destruct (an_children node) as [|c0 ch]; try discriminate.
  destruct (find_field_ix (v0 :: value)) as [ix|]; try discriminate.
  intros E. injection E as <-.
  exists (fun st2 =>
            let '(st3, pos) :=
              match nth_error (v0 :: value) (S ix) with
              | Some (VStr s) =>
                  if negb (Nat.eqb (os_line (fs_out st2)) (os_line (fs_out (push_tokens c (firstn ix (v0 :: value)) st))))
                  then (push_str c (lstrip s) st2, S (S ix))
                  else (st2, S ix)
              | _ => (st2, S ix)
              end in
            push_tokens c (skipn pos (v0 :: value)) st3).
  intros next. cbv zeta. destruct (nth_error (v0 :: value) (S ix)) as [[s|? ?]|]; try reflexivity.
  destruct (negb _); reflexivity.
Qed.
Lemma el_snippet_none c node next st : snippet_pre c node st = None -> el_snippet c node next st = None.
Proof.
  unfold snippet_pre, el_snippet.
  destruct (an_value node) as [[|v0 value]|]; try reflexivity.
  destruct (an_children node) as [|c0 ch]; try reflexivity.
  destruct (find_field_ix (v0 :: value)) as [ix|]; [discriminate|reflexivity].
Qed.

(* element() invokes the children walk only at [body_pre]: replacing [next] by the constant
   function that returns what [next] gives there does not change the result *)
Lemma el_body_calls_next_at_pre c node next st :
  el_body c node next st = el_body c node (fun _ => next (body_pre c node st)) st.
Proof.
  unfold el_body, body_pre. destruct (an_name node) as [[|x nm]|].
  - unfold el_unnamed. destruct (snippet_pre c node st) as [p|] eqn:E.
    + destruct (el_snippet_some c node st p E) as [f Hf]. rewrite !Hf. reflexivity.
    + rewrite !(el_snippet_none c node _ st E). destruct (an_value node) as [[|? ?]|]; reflexivity.
  - unfold el_named, el_content. cbv zeta.
    set (st' := push_str c [c_gt] (el_open c (x :: nm) node st)).
    destruct (snippet_pre c node st') as [p|] eqn:E.
    + destruct (el_snippet_some c node st' p E) as [f Hf]. rewrite !Hf. reflexivity.
    + rewrite !(el_snippet_none c node _ st' E). reflexivity.
  - unfold el_unnamed. destruct (snippet_pre c node st) as [p|] eqn:E.
    + destruct (el_snippet_some c node st p E) as [f Hf]. rewrite !Hf. reflexivity.
    + rewrite !(el_snippet_none c node _ st E). destruct (an_value node) as [[|? ?]|]; reflexivity.
Qed.

Definition entry (c : oconfig) (parent : option anode) (node : anode) (index : nat) (items : list anode)
           (st : fstate) : fstate :=
  let st := map_out (fun o => os_add_level o (get_indent c parent)) st in
  if should_format c parent node index items
  then map_out (fun o => os_push_newline (oc_fmt c) o (Some None)) st else st.

(* the state at which the walk over the children of [node] starts *)
Definition pre_children (c : oconfig) (parent : option anode) (node : anode) (index : nat) (items : list anode)
           (st : fstate) : fstate := body_pre c node (entry c parent node index items st).

Theorem children_start c parent node index items st :
  html_element c parent node index items st =
  html_element_step c parent node index items
    (fun _ => html_walk c (Some node) (an_children node) O (an_children node) (pre_children c parent node index items st)) st.
Proof.
  rewrite html_element_unfold. unfold html_element_step. fold (entry c parent node index items st).
  rewrite el_body_calls_next_at_pre. rewrite html_children_walk. reflexivity.
Qed.

(* ---------------------------------------------------------------- which invocations happen *)
(* [visits c st0 top p n i items s L]: during html_format-like walk of [top] from state [st0],
   element() is invoked for node [n] (parent p, position i among items) at stream state [s];
   L = number of enclosing nodes that indent their content (get_indent = 1) *)
Inductive visits (c : oconfig) (st0 : fstate) (top : list anode) :
  option anode -> anode -> nat -> list anode -> fstate -> Z -> Prop :=
| v_top i n :
    nth_error top i = Some n ->
    visits c st0 top None n i top (html_walk c None top O (firstn i top) st0) 0
| v_child p n i items s L j ch :
    visits c st0 top p n i items s L ->
    nth_error (an_children n) j = Some ch ->
    visits c st0 top (Some n) ch j (an_children n)
           (html_walk c (Some n) (an_children n) O (firstn j (an_children n)) (pre_children c p n i items s))
           (L + get_indent c (Some n)).

Lemma lvl_walk c parent items l i st : lvl (html_walk c parent items i l st) = lvl st.
Proof.
  apply lvl_html_walk. apply Forall_forall. intros n _ p idx its s. apply level_restored_lemma.
Qed.

Lemma lvl_entry c parent node index items st :
  lvl (entry c parent node index items st) = lvl st + get_indent c parent.
Proof.
  unfold entry. destruct (should_format c parent node index items); [rewrite lvl_map_newline|]; apply lvl_map_level.
Qed.

Lemma lvl_snippet_pre c node st p : snippet_pre c node st = Some p -> lvl p = lvl st.
Proof.
  unfold snippet_pre. destruct (an_value node) as [[|v0 value]|]; try discriminate.
  destruct (an_children node) as [|c0 ch]; try discriminate.
  destruct (find_field_ix (v0 :: value)) as [ix|]; try discriminate.
  intros E. injection E as <-. apply lvl_push_tokens.
Qed.

Lemma lvl_body_pre c node st : lvl (body_pre c node st) = lvl st.
Proof.
  unfold body_pre. destruct (an_name node) as [[|x nm]|]; cbv zeta.
  - destruct (snippet_pre c node st) as [p|] eqn:E; [apply (lvl_snippet_pre c node st p E)|].
    destruct (an_value node) as [[|v0 value]|]; try reflexivity. apply lvl_push_tokens.
  - destruct (snippet_pre c node _) as [p|] eqn:E.
    + rewrite (lvl_snippet_pre c node _ p E), lvl_push_str, lvl_el_open. reflexivity.
    + rewrite lvl_el_value, lvl_push_str, lvl_el_open. reflexivity.
  - destruct (snippet_pre c node st) as [p|] eqn:E; [apply (lvl_snippet_pre c node st p E)|].
    destruct (an_value node) as [[|v0 value]|]; try reflexivity. apply lvl_push_tokens.
Qed.

(* level_is_depth: whenever element() is invoked for a node, the stream level (after the node's
   own get_indent is added) is the level of the start state plus the number of enclosing nodes
   that indent their content *)
Theorem level_is_depth_lemma c st0 top p n i items s L :
  visits c st0 top p n i items s L -> lvl s + get_indent c p = lvl st0 + L.
Proof.
  induction 1 as [i n Hn|p n i items s L j ch Hv IH Hj].
  - rewrite lvl_walk. cbn [get_indent]. lia.
  - rewrite lvl_walk. unfold pre_children. rewrite lvl_body_pre, lvl_entry. lia.
Qed.

(* ---------------------------------------------------------------- the line breaks of one element *)
(* a formatted element starts with a line break followed by (level + get_indent) indent units *)
Lemma entry_chunks c parent node index items st :
  should_format c parent node index items = true ->
  fchunks (entry c parent node index items st) =
  fchunks st ++ [nl_chunk (oc_fmt c); indent_chunk (oc_fmt c) (lvl st + get_indent c parent)].
Proof.
  intros Hf. unfold entry. rewrite Hf, ch_map_newline, ch_map_level. reflexivity.
Qed.

(* the closing line break after the last formatted child: (level of the child) - 1 units, i.e.
   the level of the parent element, whose closing tag follows *)
Lemma tail_chunks c parent node index items next st :
  (forall s, lvl (next s) = lvl s) ->
  tail_newline c (should_format c parent node index items) parent index items = true ->
  let L := lvl st + get_indent c parent in
  let n := L - (if is_snippet_opt parent then 0 else 1) in
  fchunks (html_element_step c parent node index items next st) =
  fchunks (el_body c node next (entry c parent node index items st)) ++ nl_chunks (oc_fmt c) L (int_ind n).
Proof.
  intros Hn Ht. cbv zeta. unfold html_element_step. fold (entry c parent node index items st).
  rewrite ch_map_level. unfold el_tail. rewrite Ht.
  unfold fchunks at 1, map_out, os_push_newline_int. cbn [fs_out]. rewrite ch_push_newline.
  fold (fchunks (el_body c node next (entry c parent node index items st))).
  fold (lvl (el_body c node next (entry c parent node index items st))).
  rewrite (lvl_el_body c node next _ Hn), lvl_entry. reflexivity.
Qed.

(* the text of an element whose value has a line break: line break + (level+1) units before it,
   line break + level units after it (before the closing tag) when there are no children *)
Lemma value_chunks c node st v0 value :
  an_value node = Some (v0 :: value) ->
  existsb has_newline (v0 :: value) || starts_with_block_tag c (v0 :: value) = true ->
  an_children node = [] ->
  fchunks (el_value c node st) =
  fchunks st ++ nl_chunks (oc_fmt c) (lvl st + 1) (int_ind (lvl st + 1))
             ++ token_chunks (oc_fmt c) (lvl st + 1) (fs_field st) (v0 :: value)
             ++ nl_chunks (oc_fmt c) (lvl st) (int_ind (lvl st)).
Proof.
  intros Hv Hi Hc. unfold el_value. rewrite Hv, Hi, Hc.
  rewrite ch_level_newline. destruct (push_tokens_spec c (v0 :: value) (level_newline c 1 st)) as [E _].
  rewrite E, ch_level_newline, lvl_push_tokens, !lvl_level_newline.
  change (fs_field (level_newline c 1 st)) with (fs_field st).
  replace (lvl st + 1 + -1) with (lvl st) by lia. rewrite <- !app_assoc. reflexivity.
Qed.

(* the tabstop of an empty leaf under formatLeafNode / formatForce: on its own line with level+1
   units, then a line break with level units before the closing tag *)
Lemma leaf_chunks c nm node st :
  negb (truthy_l (an_value node)) && match an_children node with [] => true | _ => false end = true ->
  oc_format_leaf c || mem_str nm (oc_format_force c) = true ->
  fchunks (el_leaf c nm node st) =
  fchunks st ++ nl_chunks (oc_fmt c) (lvl st + 1) (int_ind (lvl st + 1))
             ++ [CF (fs_field st) []]
             ++ nl_chunks (oc_fmt c) (lvl st) (int_ind (lvl st)).
Proof.
  intros Hl Hi. unfold el_leaf. rewrite Hl, Hi.
  rewrite ch_level_newline. destruct (push_tokens_spec c caret (level_newline c 1 st)) as [E _].
  rewrite E, ch_level_newline, lvl_push_tokens, !lvl_level_newline.
  change (fs_field (level_newline c 1 st)) with (fs_field st).
  replace (lvl st + 1 + -1) with (lvl st) by lia. cbn [token_chunks caret flat_map app].
  rewrite N.add_0_r, <- !app_assoc. reflexivity.
Qed.

(* which nodes indent their content: elements (named, not listed in formatSkip); text nodes
   (no name, no attributes) do not *)
Lemma get_indent_element c a x nm :
  an_name a = Some (x :: nm) -> mem_str (x :: nm) (oc_format_skip c) = false -> get_indent c (Some a) = 1.
Proof. intros Hn Hs. unfold get_indent, is_snippet. rewrite Hn, Hs. reflexivity. Qed.
Lemma get_indent_text c a :
  truthy_s (an_name a) = false -> truthy_l (an_attrs a) = false -> get_indent c (Some a) = 0.
Proof. intros Hn Ha. unfold get_indent, is_snippet. rewrite Hn, Ha. reflexivity. Qed.

Lemma lvl_html_children c node s : lvl (html_children c node s) = lvl s.
Proof. rewrite html_children_walk. apply lvl_walk. Qed.

(* ---------------------------------------------------------------- statements for props/C12.v *)
Theorem indent_is_depth_lemma c st0 top p n i items s L :
  visits c st0 top p n i items s L -> lvl st0 = 0 ->
  should_format c p n i items = true ->
  fchunks (entry c p n i items s) = fchunks s ++ [nl_chunk (oc_fmt c); indent_chunk (oc_fmt c) L].
Proof.
  intros Hv H0 Hf. rewrite (entry_chunks c p n i items s Hf).
  pose proof (level_is_depth_lemma c st0 top p n i items s L Hv) as E. rewrite H0 in E.
  replace (lvl s + get_indent c p) with L by lia. reflexivity.
Qed.

Theorem close_aligned_lemma c st0 top p n i items s L :
  visits c st0 top p n i items s L -> lvl st0 = 0 ->
  tail_newline c (should_format c p n i items) p i items = true ->
  fchunks (html_element c p n i items s) =
  fchunks (el_body c n (html_children c n) (entry c p n i items s))
  ++ nl_chunks (oc_fmt c) L (int_ind (L - (if is_snippet_opt p then 0 else 1))).
Proof.
  intros Hv H0 Ht. rewrite html_element_unfold.
  rewrite (tail_chunks c p n i items (html_children c n) s (lvl_html_children c n) Ht).
  pose proof (level_is_depth_lemma c st0 top p n i items s L Hv) as E. rewrite H0 in E.
  replace (lvl s + get_indent c p) with L by lia. reflexivity.
Qed.
