(* C13, stylesheet: no Literal token of the abbreviation tokenizer contains a line feed -- for every input
   string, in property and in value mode.  Literals are runs of word characters (plus . % / - @ $), the lone
   "#", or the text that merge_tokens re-reads from the source over adjacent Literal / NumberValue tokens.
   (Step 1 of: the raw pushes of the stylesheet formatter are free of line feeds for every abbreviation.) *)
From Coq Require Import ZArith List Bool Lia ZifyBool String.
From Emmet Require Import lib.Base lib.StyleLib model.CssTokenizer model.CssParser
     model.MarkupConvert model.OutStream proofs.OutStreamProofs proofs.CssTokenizerProofs
     model.CssFormatStream proofs.CssFormatStream proofs.CssNamesParser.
Import ListNotations.
Local Open Scope nat_scope.

(* ---------------------------------------------------------------- strings without line feed *)
Definition nl_free (s : str) : Prop := Forall (fun c => c <> c_nl) s.
Lemma nl_free_lf s : nl_free s -> lf_count s = 0.
Proof.
  induction 1 as [|c s Hc _ IH]; [reflexivity|]. cbn [lf_count]. rewrite IH.
  destruct (c =? c_nl)%N eqn:E; [apply N.eqb_eq in E; contradiction|reflexivity].
Qed.
Lemma nl_free_app a b : nl_free a -> nl_free b -> nl_free (a ++ b).
Proof. intros. apply Forall_app; split; assumption. Qed.
Lemma nl_free_pred (p : char -> bool) s : p c_nl = false -> Forall (fun c => p c = true) s -> nl_free s.
Proof.
  intros Hp H. eapply Forall_impl; [|exact H]. intros c Hc E. subst c. congruence.
Qed.
Lemma nl_free_span p s : p c_nl = false -> nl_free (firstn (cspan p s) s).
Proof. intros Hp. apply (nl_free_pred p); [exact Hp|apply cspan_forall]. Qed.

Lemma cls_number : is_number c_nl = false. Proof. vm_compute. reflexivity. Qed.
Lemma cls_alpha_word : is_alpha_word c_nl = false. Proof. vm_compute. reflexivity. Qed.
Lemma cls_cliteral : is_cliteral c_nl = false. Proof. vm_compute. reflexivity. Qed.
Lemma cls_keyword : is_keyword c_nl = false. Proof. vm_compute. reflexivity. Qed.
Lemma cls_ident_prefix : is_ident_prefix c_nl = false. Proof. vm_compute. reflexivity. Qed.

Lemma not_nl_of (p : char -> bool) c : p c_nl = false -> p c = true -> c <> c_nl.
Proof. intros Hp Hc E. subst c. congruence. Qed.
Lemma not_nl_eqb c d : (c =? d)%N = true -> d <> c_nl -> c <> c_nl.
Proof. intros E Hd. apply N.eqb_eq in E. subst. exact Hd. Qed.

(* ---------------------------------------------------------------- what one consumer returns *)
(* a Literal value has no line feed; the source text of a Literal / NumberValue token has none *)
Definition tok_res_ok (s : str) (r : ccres) : Prop :=
  match r with
  | CTok k n => (forall v, k = CLiteral v -> lf_count v = 0) /\
                (is_lit_or_num k = true -> lf_count (firstn n s) = 0)
  | _ => True
  end.
Definition other_kind (k : ckind) : Prop := is_lit_or_num k = false.
Lemma other_ok s k n : other_kind k -> tok_res_ok s (CTok k n).
Proof.
  unfold other_kind. intros H. split.
  - intros v ->. discriminate.
  - intros H'. congruence.
Qed.

Lemma cfield_kind s k n : cfield s = CTok k n -> other_kind k.
Proof.
  unfold cfield. destruct s as [|c1 [|c2 r]]; try discriminate.
  destruct ((c1 =? c_dollar)%N && (c2 =? c_lbrace)%N); [|discriminate].
  cbv zeta.
  set (body := match cspan is_number r with O => _ | S _ => _ end).
  destruct body as [pp|ee]; [destruct pp as [[idx name] used]|destruct ee; discriminate].
  destruct (cpeek_is c_rbrace (skipn used r)); [|discriminate]. intros E. injection E as <- _. reflexivity.
Qed.

Lemma ccustom_ok s : tok_res_ok s (ccustom_property s).
Proof.
  unfold ccustom_property. destruct s as [|c1 [|c2 r]]; try exact I.
  destruct ((c1 =? c_dash)%N && (c2 =? c_dash)%N); [|exact I]. apply other_ok. reflexivity.
Qed.
Lemma cfield_ok' s : tok_res_ok s (cfield s).
Proof. destruct (cfield s) as [|k n| |] eqn:E; try exact I. apply other_ok. eapply cfield_kind. exact E. Qed.
Lemma cstring_ok s : tok_res_ok s (cstring_value s).
Proof.
  unfold cstring_value. destruct s as [|c r]; [exact I|]. destruct (is_quote c); [|exact I].
  destruct (find_quote c r); apply other_ok; reflexivity.
Qed.
Lemma cbracket_ok' s : tok_res_ok s (cbracket s).
Proof. unfold cbracket. destruct s as [|c r]; [exact I|]. destruct (is_cbracket c); [apply other_ok; reflexivity|exact I]. Qed.
Lemma coperator_ok' s : tok_res_ok s (coperator s).
Proof. unfold coperator. destruct s as [|c r]; [exact I|]. destruct (assoc_N c css_operator_map); [apply other_ok; reflexivity|exact I]. Qed.
Lemma cwhite_ok s : tok_res_ok s (cwhite_space s).
Proof. unfold cwhite_space. destruct (cspan is_space s); [exact I|apply other_ok; reflexivity]. Qed.

Lemma ccolor_ok s : tok_res_ok s (ccolor_value s).
Proof.
  unfold ccolor_value. destruct s as [|c r]; [exact I|]. destruct (c =? c_hash)%N eqn:Eh; [|exact I].
  set (x := match cspan is_hex r with O => _ | S _ => _ end). destruct x as [[color alpha] used].
  assert (Hlit : tok_res_ok (c :: r) (CTok (CLiteral [c_hash]) 1)).
  { split; [intros v E; injection E as <-; reflexivity|]. intros _. cbn [firstn lf_count].
    apply N.eqb_eq in Eh. subst c. reflexivity. }
  assert (Hcol : tok_res_ok (c :: r) match parse_color color alpha with
                                     | Some (rv, gv, bv, a) => CTok (CColor rv gv bv a (firstn used r)) (S used)
                                     | None => CInt IK_Value
                                     end).
  { destruct (parse_color color alpha) as [[[[rv gv] bv] a]|]; [apply other_ok; reflexivity|exact I]. }
  destruct color; [destruct alpha; [destruct (match skipn used r with [] => true | _ => false end)|]|]; assumption.
Qed.

Lemma number_body_free s1 : nl_free (firstn (number_body s1) s1).
Proof.
  destruct (number_body_spec s1) as [_ H]. destruct (number_body s1) as [|u] eqn:E; [constructor|].
  destruct H as [ip [fpo [Hf [H1 [H2 _]]]]]; [congruence|]. rewrite Hf.
  apply nl_free_app; [apply (nl_free_pred is_number); [exact cls_number|exact H1]|].
  destruct fpo as [fp|]; [|constructor]. constructor; [discriminate|]. apply (nl_free_pred is_number); [exact cls_number|exact H2].
Qed.
Lemma consume_number_free s : nl_free (firstn (consume_number s) s).
Proof.
  unfold consume_number. destruct (cpeek_is c_dash s) eqn:Hneg.
  - destruct s as [|c s1]; [discriminate|]. cbn [cpeek_is] in Hneg. cbn [tl].
    pose proof (number_body_free s1) as H. destruct (number_body s1) as [|u]; [constructor|].
    change (firstn (1 + S u) (c :: s1)) with (c :: firstn (S u) s1). constructor; [|exact H].
    apply (not_nl_eqb c c_dash Hneg). discriminate.
  - pose proof (number_body_free s) as H. destruct (number_body s) as [|u]; [constructor|]. exact H.
Qed.
Lemma cnumber_ok s : tok_res_ok s (cnumber_value s).
Proof.
  unfold cnumber_value. pose proof (consume_number_free s) as Hn.
  destruct (consume_number s) as [|n'] eqn:En; [exact I|].
  destruct (dec_of_raw (firstn (S n') s)); [|exact I].
  split; [intros v0 E; discriminate|]. intros _. apply nl_free_lf. rewrite firstn_add.
  apply nl_free_app; [exact Hn|].
  set (rest := skipn (S n') s). destruct (cpeek_is c_percent rest) eqn:Hp.
  - destruct rest as [|x xs]; [discriminate|]. cbn [cpeek_is] in Hp. cbn [firstn]. constructor; [|constructor].
    apply (not_nl_eqb x c_percent Hp). discriminate.
  - apply nl_free_span. exact cls_alpha_word.
Qed.

Lemma cliteral_ok' short at_start s : tok_res_ok s (cliteral short at_start s).
Proof.
  unfold cliteral. destruct s as [|c r]; [exact I|].
  assert (Hrun : forall (p : char -> bool) n, p c_nl = false -> c <> c_nl -> n = S (cspan p r) ->
                 tok_res_ok (c :: r) (CTok (CLiteral (firstn n (c :: r))) n)).
  { intros p n Hp Hc ->. assert (F : nl_free (firstn (S (cspan p r)) (c :: r))).
    { cbn [firstn]. constructor; [exact Hc|apply nl_free_span, Hp]. }
    split; [intros v E; injection E as <-; apply nl_free_lf, F|intros _; apply nl_free_lf, F]. }
  destruct (is_ident_prefix c) eqn:E1.
  - apply (Hrun (if at_start then is_cliteral else is_keyword)); [destruct at_start; [exact cls_cliteral|exact cls_keyword]| |reflexivity].
    apply (not_nl_of is_ident_prefix); [exact cls_ident_prefix|exact E1].
  - destruct (is_alpha_word c) eqn:E2.
    + apply (Hrun (if short then is_cliteral else is_keyword)); [destruct short; [exact cls_cliteral|exact cls_keyword]| |reflexivity].
      apply (not_nl_of is_alpha_word); [exact cls_alpha_word|exact E2].
    + destruct (cpeek_is c_dot (c :: r)) eqn:Ed.
      * cbn [cpeek_is] in Ed. cbn [Nat.add].
        apply (Hrun is_cliteral); [exact cls_cliteral| |reflexivity]. apply (not_nl_eqb c c_dot Ed). discriminate.
      * cbn [Nat.add]. destruct (cspan is_cliteral (c :: r)) as [|m] eqn:Em; [exact I|].
        assert (F : nl_free (firstn (S m) (c :: r))) by (rewrite <- Em; apply nl_free_span, cls_cliteral).
        split; [intros v E; injection E as <-; apply nl_free_lf, F|intros _; apply nl_free_lf, F].
Qed.

Lemma corelse_res s a b : tok_res_ok s a -> tok_res_ok s (b tt) -> tok_res_ok s (corelse a b).
Proof. intros Ha Hb. destruct a; assumption. Qed.

Lemma cconsume_res short at_start s : tok_res_ok s (cconsume short at_start s).
Proof.
  unfold cconsume.
  repeat (apply corelse_res; [first [apply ccustom_ok|apply cfield_ok'|apply cnumber_ok|apply ccolor_ok|apply cstring_ok
                                     |apply cbracket_ok'|apply coperator_ok'|apply cwhite_ok]|]).
  apply cliteral_ok'.
Qed.

(* ---------------------------------------------------------------- the loop *)
Definition span_ok (src : str) (t : ctoken) : Prop :=
  is_lit_or_num (ck t) = true -> lf_count (slice src (cstart t) (cend t)) = 0.
Definition tok_ok (src : str) (t : ctoken) : Prop := lit_ok t /\ span_ok src t.

Lemma merge_pop_ok src : forall acc st en b rest st' en',
  rtiles acc 0 b -> Forall (tok_ok src) acc ->
  merge_pop acc st en = (rest, st', en') ->
  Forall (tok_ok src) rest /\
  ((rest = acc /\ st' = st /\ en' = en) \/
   (st' < b /\ en' = match en with O => b | _ => en end /\ lf_count (slice src st' b) = 0)).
Proof.
  induction acc as [|t r IH]; intros st en b rest st' en' Ht Hok H; cbn [merge_pop] in H.
  - injection H as <- <- <-. split; [constructor|left; auto].
  - destruct (is_lit_or_num (ck t)) eqn:El.
    + cbn [rtiles] in Ht. destruct Ht as [He [Hlt Hr]]. pose proof (Forall_inv Hok) as [_ Hsp]. pose proof (Forall_inv_tail Hok) as Hok'.
      specialize (Hsp El). rewrite He in Hsp.
      destruct (IH _ _ _ _ _ _ Hr Hok' H) as [Hrest [[-> [-> ->]]|[H1 [H2 H3]]]].
      * split; [exact Hrest|]. right. split; [lia|]. split; [destruct en; [exact He|reflexivity]|exact Hsp].
      * split; [exact Hrest|]. right. split; [lia|]. split.
        -- subst en'. destruct en; [|reflexivity]. destruct (cend t) eqn:E; [lia|]. lia.
        -- rewrite <- (cslice_app src st' (cstart t) b) by lia. rewrite lf_count_app. lia.
    + injection H as <- <- <-. split; [exact Hok|left; auto].
Qed.

Lemma merge_tokens_ok src acc b : rtiles acc 0 b -> Forall (tok_ok src) acc -> Forall (tok_ok src) (merge_tokens src acc).
Proof.
  intros Ht Hok. unfold merge_tokens. destruct (merge_pop acc 0 0) as [[rest st] en] eqn:E.
  destruct (merge_pop_ok src _ _ _ _ _ _ _ Ht Hok E) as [Hrest [[-> [-> ->]]|[H1 [H2 H3]]]].
  - cbn [Nat.eqb]. exact Hok.
  - subst en. destruct (Nat.eqb st b); [exact Hrest|]. constructor; [|exact Hrest].
    split; [unfold lit_ok; cbn [ck]; exact H3|intros _; cbn [cstart cend]; exact H3].
Qed.

Lemma skipn_step {A} : forall pos (src : list A) c r, skipn pos src = c :: r -> skipn (S pos) src = r.
Proof.
  induction pos as [|p IH]; intros src c r H.
  - cbn [skipn] in H. subst src. reflexivity.
  - destruct src as [|x xs]; [discriminate|]. cbn [skipn] in H |- *. apply (IH xs c r H).
Qed.

Lemma ctoks_lit_ok : forall s src v skip br acc pos l,
  s = skipn pos src -> skip <= length s ->
  rtiles acc 0 (pos + skip) -> Forall (tok_ok src) acc ->
  ctoks src v skip br acc pos s = CTOk l -> Forall lit_ok l.
Proof.
  induction s as [|c r IH]; intros src v skip br acc pos l Hsrc Hs Hacc Hok H.
  - cbn [ctoks] in H. injection H as <-. apply Forall_rev. eapply Forall_impl; [|exact Hok]. intros t [Ht _]. exact Ht.
  - cbn [ctoks] in H. cbn [length] in Hs. pose proof (skipn_step pos src c r (eq_sym Hsrc)) as Hnext.
    destruct skip as [|k].
    + pose proof (cconsume_ok (Nat.eqb br 0 && negb v) (Nat.eqb pos 0) (c :: r)) as Hc.
      pose proof (cconsume_res (Nat.eqb br 0 && negb v) (Nat.eqb pos 0) (c :: r)) as Hres.
      destruct (cconsume (Nat.eqb br 0 && negb v) (Nat.eqb pos 0) (c :: r)) as [|kd n|off|ik]; try discriminate.
      cbn [ccres_ok length] in Hc. cbn [tok_res_ok] in Hres. destruct Hres as [Hlit Hspan].
      rewrite Nat.add_0_r in Hacc.
      assert (Htok : tok_ok src (mkCTok kd pos (pos + n))).
      { split.
        - unfold lit_ok. cbn [ck]. destruct kd; try exact I. apply Hlit. reflexivity.
        - intros Hk. cbn [ck cstart cend] in *. unfold slice. replace (pos + n - pos) with n by lia.
          rewrite <- Hsrc. apply Hspan, Hk. }
      assert (Hplain : forall b' acc', rtiles acc' 0 pos -> Forall (tok_ok src) acc' ->
                 ctoks src v (pred n) b' (mkCTok kd pos (pos + n) :: acc') (S pos) r = CTOk l -> Forall lit_ok l).
      { intros b' acc' Ha' Hok' H'. eapply IH; [symmetry; exact Hnext| | | |exact H']; [lia| |constructor; assumption].
        cbn [rtiles cstart cend]. split; [lia|]. split; [lia|exact Ha']. }
      assert (Hdash : (match (if should_consume_dash_after kd then coperator (skipn n (c :: r)) else CNone) with
                       | CTok k2 _ => ctoks src v n br (mkCTok k2 (pos + n) (pos + n + 1) :: mkCTok kd pos (pos + n) :: acc) (S pos) r
                       | _ => ctoks src v (pred n) br (mkCTok kd pos (pos + n) :: acc) (S pos) r
                       end = CTOk l) -> Forall lit_ok l).
      { intros H'.
        destruct (if should_consume_dash_after kd then coperator (skipn n (c :: r)) else CNone) as [|k2 n2|off|ik] eqn:Eop;
          try (apply (Hplain br acc Hacc Hok H')).
        destruct (should_consume_dash_after kd); [|discriminate].
        pose proof (coperator_ok' (skipn n (c :: r))) as Hop. rewrite Eop in Hop.
        assert (Hk2 : other_kind k2).
        { unfold coperator in Eop. destruct (skipn n (c :: r)) as [|x xs]; [discriminate|].
          destruct (assoc_N x css_operator_map); [|discriminate]. injection Eop as <- _. reflexivity. }
        apply coperator_tok in Eop. rewrite skipn_length in Eop. cbn [length] in Eop.
        eapply IH; [symmetry; exact Hnext| | | |exact H']; [lia| |].
        - cbn [rtiles cstart cend]. split; [lia|]. split; [lia|]. split; [reflexivity|]. split; [lia|exact Hacc].
        - constructor; [|constructor; assumption]. split.
          + unfold lit_ok. cbn [ck]. destruct k2; try exact I. discriminate.
          + intros Hk. cbn [ck] in Hk. unfold other_kind in Hk2. congruence. }
      destruct kd as [v0|v0|v0 raw u|cr cg cb ca raw|v0 sg|nm ix|op|op|]; try (apply Hdash; exact H).
      destruct op; destruct br as [|br']; try discriminate; cbn [Nat.eqb andb] in H;
        (eapply Hplain; [| |exact H]); try exact Hacc; try exact Hok.
      * apply merge_tokens_tiles. exact Hacc.
      * eapply merge_tokens_ok; eassumption.
    + eapply IH in H; [exact H|symmetry; exact Hnext|lia| |exact Hok].
      replace (S pos + k) with (pos + S k) by lia. exact Hacc.
Qed.

(* every Literal token of every input is free of line feeds *)
Theorem ctokenize_lit_ok v s l : ctokenize v s = CTOk l -> Forall lit_ok l.
Proof.
  intros H. apply (ctoks_lit_ok s s v 0 0 [] 0 l); [reflexivity|lia|reflexivity|constructor|exact H].
Qed.

(* css_abbreviation.parse: no FunctionCall name of the parsed properties contains a line feed *)
Theorem css_parse_names_ok vm abbr l : css_parse vm abbr = Ok l -> Forall Gp l.
Proof.
  unfold css_parse. destruct (ctokenize vm abbr) as [ts|p|k] eqn:E; try discriminate.
  apply parser_names_ok. eapply ctokenize_lit_ok. exact E.
Qed.
