(* C07, the full composition for the markup pipeline:
     expand_safe          wf_cfg  ->  Ok | parse error with position inside the abbreviation
     expand_safe_general  (any snippet table, malformed user snippets included)
                                  ->  Ok | parse error with position inside the abbreviation or inside
                                      the text of one of the snippet values; never Internal / OutOfFuel. *)
From Coq Require Import List Bool Lia Arith ZArith.
From Emmet Require Import lib.Base model.MarkupTokenizer model.MarkupParser model.MarkupConvert model.MarkupResolve
     model.OutStream model.FormatHtml model.FormatIndent model.MarkupExpand
     proofs.SafeConvert proofs.SafeResolve proofs.SafeExpand proofs.SafeBridge proofs.SafeBridgeTok proofs.BemProofs
     proofs.SafeFormat model.MarkupLorem.
Import ListNotations.

(* the link: for ALL strings, whatever the parser builds from the tokenizer's output is stringifiable *)
Theorem abbr_wf_all : forall jsx s, abbr_wf jsx s.
Proof.
  intros jsx s toks root HT HP. eapply parse_tree_ok; [eapply tokenize_W; exact HT|exact HP].
Qed.

Theorem parse_abbr_safe_all : forall jsx env mr s, safe_outcome (length s) (parse_abbr jsx env mr s).
Proof. intros. apply parse_abbr_safe. apply abbr_wf_all. Qed.

(* with the lorem oracle: additionally OutOfFuel, exactly when the stream of draws ran out (SafeExpand.draws_exhausted) *)
Theorem expand_safe : forall x s, wf_cfg (xc_m x) -> safe_or_exhausted (xc_m x) s (expand_markup_str x s).
Proof. intros x s H. apply expand_safe_under_wf; [exact H|apply abbr_wf_all]. Qed.

(* ---------------------------------------------------------------- any snippet table *)
(* the outcome when snippet values may be malformed: a parse error may point into a snippet value *)
Definition snip_outcome {A} (vals : list str) (r : res A) : Prop :=
  match r with
  | Ok _ => True
  | ParseErr k None => k = EK_Token
  | ParseErr k (Some p) =>
      (k = EK_Scanner \/ k = EK_Token) /\ exists v, In v vals /\ (0 <= p <= Z.of_nat (length v))%Z
  | Internal _ => False
  | OutOfFuel => False
  end.

Lemma snip_bind : forall A B vals (r : res A) (f : A -> res B),
  snip_outcome vals r -> (forall a, snip_outcome vals (f a)) -> snip_outcome vals (bind r f).
Proof. intros A B vals [a|k [p|]| |] f H Hf; simpl in *; auto. Qed.

Lemma safe_to_snip : forall A vals v (r : res A), In v vals -> safe_outcome (length v) r -> snip_outcome vals r.
Proof.
  intros A vals v [a|k [p|]| |] Hin H; simpl in *; auto.
  destruct H as [Hk Hp]. split; auto. exists v. auto.
Qed.

Lemma snip_mono : forall A vals vals' (r : res A), incl vals vals' -> snip_outcome vals r -> snip_outcome vals' r.
Proof.
  intros A vals vals' [a|k [p|]| |] Hi H; simpl in *; auto.
  destruct H as [Hk [v [Hv Hp]]]. split; auto. exists v. auto.
Qed.

Section WalkSafe.
  Variable cfg : mconfig.
  Variable stack : list str.
  Variable rec : list str -> list anode -> res (list anode).
  Let vals := map snd (mc_snippets cfg).
  Hypothesis Hrec : forall s parsed,
    ~ In s stack -> In s vals -> snip_outcome vals (rec (s :: stack) parsed).

  Lemma snippet_of_some' : forall nm s, snippet_of cfg stack nm = Some s -> ~ In s stack /\ In s vals.
  Proof.
    intros nm s H. unfold snippet_of in H.
    destruct nm as [[|c name]|]; try discriminate.
    destruct (assoc_str (c :: name) (mc_snippets cfg)) as [[|c2 s2]|] eqn:A; try discriminate.
    destruct (mem_str (c2 :: s2) stack) eqn:M; try discriminate.
    inversion H; subst. apply mem_str_false in M. split; [exact M|].
    apply assoc_str_in in A. destruct A as [k Hk]. unfold vals. apply in_map_iff. exists (k, c2 :: s2). split; auto.
  Qed.

  Lemma walk_node_safe : forall n, snip_outcome vals (walk_node' cfg stack rec n).
  Proof.
    apply anode_ind'. intros nm v rp at_ ch sc HF.
    cbn [walk_node'].
    set (walk_kids := fix walk_kids (k : list anode) : res (list anode) :=
             match k with
             | [] => Ok []
             | c :: k' => let* a := walk_node' cfg stack rec c in let* b := walk_kids k' in Ok (a ++ b)
             end).
    assert (HK : snip_outcome vals (walk_kids ch)).
    { clear -HF. induction ch as [|c k IH]; [exact I|].
      inversion HF as [|? ? Hc Hk]; subst. cbn [walk_kids].
      apply snip_bind; [exact Hc|]. intros a.
      apply snip_bind; [apply IH; exact Hk|]. intros b. exact I. }
    destruct (snippet_of cfg stack nm) as [s|] eqn:SN.
    - apply snippet_of_some' in SN. destruct SN as [H1 H2].
      apply snip_bind.
      { eapply safe_to_snip; [exact H2|]. apply parse_abbr_safe_all. }
      intros parsed. apply snip_bind; [apply Hrec; assumption|].
      intros resolved. cbv zeta.
      destruct (map (merge_into (mc_reverse_attrs cfg) (ANode nm v rp at_ ch sc)) resolved); [exact I|].
      apply snip_bind; [exact HK|]. intros kids. exact I.
    - apply snip_bind; [exact HK|]. intros kids. exact I.
  Qed.

  Lemma walk_list_safe : forall l, snip_outcome vals (walk_list' cfg stack rec l).
  Proof.
    induction l as [|c r IH]; [exact I|].
    cbn [walk_list']. apply snip_bind; [apply walk_node_safe|]. intros a.
    apply snip_bind; [exact IH|]. intros b. exact I.
  Qed.
End WalkSafe.

Theorem walk_resolve_safe : forall cfg fuel stack l,
  NoDup stack -> incl stack (map snd (mc_snippets cfg)) ->
  length (mc_snippets cfg) < fuel + length stack ->
  snip_outcome (map snd (mc_snippets cfg)) (walk_resolve fuel cfg stack l).
Proof.
  intros cfg. induction fuel as [|f IH]; intros stack l Hnd Hincl Hlen.
  - exfalso. pose proof (NoDup_incl_length Hnd Hincl) as H. rewrite map_length in H. lia.
  - rewrite walk_resolve_eq. apply walk_list_safe.
    intros s parsed Hnin Hin. apply IH.
    + constructor; assumption.
    + intros x [->|Hx]; auto.
    + simpl. lia.
Qed.

(* resolve_safe for ANY table: never OutOfFuel, never Internal; a parse error comes from a snippet value
   and its position lies inside that value *)
Theorem resolve_safe_general : forall cfg tree,
  snip_outcome (map snd (mc_snippets cfg)) (walk_resolve (S (length (mc_snippets cfg))) cfg [] tree).
Proof.
  intros cfg tree. apply walk_resolve_safe.
  - constructor.
  - intros x [].
  - simpl. lia.
Qed.

Theorem expand_safe_general : forall x s,
  match expand_markup_str x s with
  | OutOfFuel => draws_exhausted (xc_m x) s
  | r => snip_outcome (s :: map snd (mc_snippets (xc_m x))) r
  end.
Proof.
  intros x s. unfold expand_markup_str, expand_markup, markup_parse.
  set (vals := s :: map snd (mc_snippets (xc_m x))).
  assert (HP : snip_outcome vals (parse_abbr (mc_jsx (xc_m x)) (mkCenv (mc_text (xc_m x)) (mc_variables (xc_m x)) (mc_href (xc_m x)))
                                             (mc_max_repeat (xc_m x)) s)).
  { eapply safe_to_snip; [left; reflexivity|]. apply parse_abbr_safe_all. }
  destruct (parse_abbr _ _ _ s) as [tree|k p| |] eqn:EP; cbn [bind]; try exact HP; [|destruct HP].
  assert (HR : snip_outcome vals (walk_resolve (S (length (mc_snippets (xc_m x)))) (xc_m x) [] tree)).
  { eapply snip_mono; [|apply resolve_safe_general]. apply incl_tl, incl_refl. }
  destruct (walk_resolve _ (xc_m x) [] tree) as [resolved|k p| |] eqn:ER; cbn [bind]; try exact HR; [|destruct HR].
  (* the transform pass: lorem draws, then the rest (BEM addon included) *)
  pose proof (transform_total (xc_m x) resolved) as Ht.
  destruct (transform_list (xc_m x) resolved) as [t|k p| |]; cbn [bind]; [exact I|destruct Ht|destruct Ht|].
  exists tree, resolved. auto.
Qed.
