(* C04 / C02 -- the converter with wrap text, for ALL token trees: elements, groups, explicit repeaters
   `*N` and implicit repeaters `*` at any depth, numbering, attributes, text with or without `$#`.
   conv_stmt (model of convert_statement / convert_element / convert_group) is shown equal to the pure
   unrolling spec [unroll_w]: ConvertProofs' [unroll_b] extended with the implicit-repeater rule and the
   two flags of ConvertState (`inserted`, `_text_inserted`) threaded in document order next to the budget. *)
From Coq Require Import ZArith List Bool Lia ZifyBool.
From Emmet Require Import lib.Base model.MarkupTokenizer model.MarkupParser model.MarkupConvert.
From Emmet Require Import proofs.NumberingProofs proofs.ConvertProofs proofs.TextSpec proofs.TextConvert.
Local Open Scope Z_scope.

(* ================================================================ SPEC *)
(* what the converter threads through the abbreviation in document order: the remaining repeat budget,
   `state.inserted` (a `$#` was met, or an implicit repeater has finished) and `state._text_inserted`
   (the wrap text was handed out at least once) *)
Record wst := mkW { w_budget : Z; w_ins : bool; w_tins : bool }.

(* a `$#` was stringified *)
Definition w_mark (p : bool) (w : wst) : wst := if p then mkW (w_budget w) true true else w.
Definition w_dec (w : wst) : wst := mkW (w_budget w - 1) (w_ins w) (w_tins w).
Definition w_set_ins (w : wst) : wst := mkW (w_budget w) true (w_tins w).
Definition w_set_tins (w : wst) : wst := mkW (w_budget w) (w_ins w) true.

(* `$#` occurs in a token list / attribute / attribute list *)
Definition ph_tok (t : token) : bool := match tk t with TRepeaterPlaceholder => true | _ => false end.
Definition ph_toks (l : list token) : bool := existsb ph_tok l.
Definition ph_otoks (o : option (list token)) : bool := match o with Some l => ph_toks l | None => false end.
Definition ph_attr (a : tattr) : bool := ph_otoks (ta_name a) || ph_otoks (ta_value a).
Definition ph_oattrs (o : option (list tattr)) : bool := match o with Some l => existsb ph_attr l | None => false end.

(* the line copy i of an implicit repeater receives: the i-th non-blank line, trimmed; with a plain
   string as text the string itself; nothing without text (ConvertState.get_text) *)
Definition wrap_line (env : cenv) (i : N) : str :=
  match ce_text env with
  | WList l => nth (N.to_nat i) (wrap_lines l) []
  | WStr s => s
  | WNone => []
  end.

(* number of copies: an implicit repeater over a line list makes one per non-blank line;
   every other repeater its written count (`*0` and the bare `*` count as 1) *)
Definition copies_of (env : cenv) (r0 : rep) : N :=
  match rimplicit r0, ce_text env with
  | true, WList l => N.of_nat (length (wrap_lines l))
  | _, _ => written_count r0
  end.

(* after copy i of an implicit repeater: if no `$#` has been met so far (`inserted` still unset) the
   line goes to the end of the deepest last element of the copy *)
Definition place_line (env : cenv) (implicit : bool) (i : N) (xw : list anode * wst) : list anode * wst :=
  let '(x, w) := xw in
  if implicit && negb (w_ins w) then
    match x with
    | [] => (x, w)
    | _ :: _ => (on_last_deepest (fun n => insert_text n (wrap_line env i)) x, w_set_tins w)
    end
  else (x, w).

Definition list_w (F : tnode -> wst -> list anode * wst) :=
  fix go (l : list tnode) (w : wst) : list anode * wst :=
    match l with
    | [] => ([], w)
    | c :: l' => let '(x, w1) := F c w in let '(y, w2) := go l' w1 in (x ++ y, w2)
    end.

(* copies i, i+1, ... of at most [k]; every completed copy costs one unit of budget and the repeater
   stops after the copy that uses the budget up *)
Fixpoint copies_w (f : N -> wst -> list anode * wst) (k : nat) (i : N) (w : wst) : list anode * wst :=
  match k with
  | O => ([], w)
  | S k' =>
      let '(x, w1) := f i w in
      let w2 := w_dec w1 in
      if w_budget w2 <=? 0 then (x, w2)
      else let '(y, w3) := copies_w f k' (i + 1)%N w2 in (x ++ y, w3)
  end.

(* [reps] = the enclosing repeated units, innermost first (count, 0-based copy index, implicit?) *)
Fixpoint unroll_w (env : cenv) (reps : list rep) (node : tnode) (w : wst) {struct node} : list anode * wst :=
  let once (cur : option rep) (reps' : list rep) (w : wst) : list anode * wst :=
    match node with
    | TGroup els _ =>
        let '(items, w1) := list_w (unroll_w env reps') els w in
        (match cur with Some r => attach_repeater items r | None => items end, w1)
    | TElem name attrs value _ self_close els =>
        (* order of evaluation in convert_element: name, text, children, attributes *)
        let w0 := w_mark (ph_otoks name || ph_otoks value) w in
        let '(kids, w1) := list_w (unroll_w env reps') els w0 in
        (leaf_items env reps' name attrs value self_close cur kids, w_mark (ph_oattrs attrs) w1)
    end in
  match node_rep node with
  | None => once None reps w
  | Some r0 =>
      let n := copies_of env r0 in
      let imp := rimplicit r0 in
      let '(items, w') :=
        copies_w (fun i w => place_line env imp i (once (Some (mkRep n i imp)) (mkRep n i imp :: reps) w))
                 (N.to_nat n) 0%N w in
      (items, if imp then w_set_ins w' else w')
  end.

Definition once_w (env : cenv) (node : tnode) (cur : option rep) (reps' : list rep) (w : wst) : list anode * wst :=
  match node with
  | TGroup els _ =>
      let '(items, w1) := list_w (unroll_w env reps') els w in
      (match cur with Some r => attach_repeater items r | None => items end, w1)
  | TElem name attrs value _ self_close els =>
      let w0 := w_mark (ph_otoks name || ph_otoks value) w in
      let '(kids, w1) := list_w (unroll_w env reps') els w0 in
      (leaf_items env reps' name attrs value self_close cur kids, w_mark (ph_oattrs attrs) w1)
  end.

Definition copy_w (env : cenv) (node : tnode) (n : N) (imp : bool) (reps : list rep) (i : N) (w : wst) :=
  place_line env imp i (once_w env node (Some (mkRep n i imp)) (mkRep n i imp :: reps) w).

Lemma unroll_w_unfold env reps node w :
  unroll_w env reps node w =
  match node_rep node with
  | None => once_w env node None reps w
  | Some r0 =>
      let n := copies_of env r0 in
      let imp := rimplicit r0 in
      let '(items, w') := copies_w (copy_w env node n imp reps) (N.to_nat n) 0%N w in
      (items, if imp then w_set_ins w' else w')
  end.
Proof. destruct node; reflexivity. Qed.

(* the whole abbreviation: when no implicit repeater and no `$#` took the text, it goes once into the
   deepest last element (convert); [insert_wrap] = insert_text followed, on an `a` element under
   markup.href, by insert_href (proofs/HrefProofs.v: value as by insert_text, only attributes differ) *)
Definition whole_text (t : wtext) : str :=
  match t with
  | WList l => strip (join [c_nl] l)
  | WStr s => strip s
  | WNone => []
  end.
Definition finish_w (env : cenv) (xw : list anode * wst) : list anode :=
  let '(x, w) := xw in
  match ce_text env with
  | WNone => x
  | _ => if w_tins w then x else on_last_deepest (fun n => insert_wrap env n (whole_text (ce_text env))) x
  end.
Definition convert_w (env : cenv) (max_repeat : option N) (root : list tnode) : list anode :=
  finish_w env (list_w (unroll_w env []) root (mkW (budget_of max_repeat) false false)).

(* ================================================================ domain: tokens the converter can print *)
(* everything the tokenizer puts into a name / value / attribute; a Repeater token or an operator the
   table does not know would make stringify raise *)
Definition conv_tok (t : token) : bool :=
  match tk t with
  | TRepeater _ _ _ => false
  | TOperator OpUnknown => false
  | _ => true
  end.
Definition conv_toks (l : list token) : bool := forallb conv_tok l.
Definition conv_otoks (o : option (list token)) : bool := match o with Some l => conv_toks l | None => true end.
Definition conv_attr (a : tattr) : bool := conv_otoks (ta_name a) && conv_otoks (ta_value a).
Definition conv_oattrs (o : option (list tattr)) : bool :=
  match o with Some l => forallb conv_attr l | None => true end.
Fixpoint conv_node (n : tnode) : bool :=
  match n with
  | TElem name attrs value _ _ els => conv_otoks name && conv_oattrs attrs && conv_otoks value && forallb conv_node els
  | TGroup els _ => forallb conv_node els
  end.

(* repeater stacks the converter builds: the copy index of an implicit repeater over a line list is
   the index of one of the non-blank lines *)
Definition reps_ok (env : cenv) (reps : list rep) : Prop :=
  match ce_text env with
  | WList l => Forall (fun r => rimplicit r = true -> (N.to_nat (rvalue r) < length (wrap_lines l))%nat) reps
  | _ => True
  end.

Lemma reps_ok_nil env : reps_ok env [].
Proof. unfold reps_ok. destruct (ce_text env); [exact I|exact I|constructor]. Qed.

Lemma reps_ok_range env st : reps_ok env (cs_repeaters st) -> reps_in_range env st.
Proof.
  unfold reps_ok, reps_in_range. intros H r Hin Himp. destruct (ce_text env) as [|s|l]; [exact I|exact I|].
  rewrite Forall_forall in H. apply H; assumption.
Qed.

Lemma reps_ok_cons env r reps :
  reps_ok env reps ->
  (rimplicit r = true -> forall l, ce_text env = WList l -> (N.to_nat (rvalue r) < length (wrap_lines l))%nat) ->
  reps_ok env (r :: reps).
Proof.
  unfold reps_ok. intros H Hr. destruct (ce_text env) as [|s|l]; [exact I|exact I|].
  constructor; [|exact H]. intros Hi. apply Hr; [exact Hi|reflexivity].
Qed.

(* ================================================================ states *)
Definition st_r (reps : list rep) (w : wst) : cst := mkCst (w_ins w) (w_budget w) reps (w_tins w).
Definition wst_of (st : cst) : wst := mkW (cs_guard st) (cs_inserted st) (cs_text_inserted st).
Definition markc (p : bool) (st : cst) : cst := if p then set_text_inserted (set_inserted st) else st.

Lemma st_r_of st : st_r (cs_repeaters st) (wst_of st) = st.
Proof. destruct st; reflexivity. Qed.
Lemma markc_st_r p reps w : markc p (st_r reps w) = st_r reps (w_mark p w).
Proof. destruct p; reflexivity. Qed.
Lemma markc_reps p st : cs_repeaters (markc p st) = cs_repeaters st.
Proof. destruct p; reflexivity. Qed.
Lemma markc_markc p q st : markc q (markc p st) = markc (p || q) st.
Proof. destruct p, q; reflexivity. Qed.
Lemma w_mark_mark p q w : w_mark q (w_mark p w) = w_mark (p || q) w.
Proof. destruct p, q; reflexivity. Qed.
Lemma w_mark_budget p w : w_budget (w_mark p w) = w_budget w.
Proof. destruct p; reflexivity. Qed.

(* ================================================================ tokens, names, values, attributes *)
Lemma placeholder_text_reps env st st' :
  cs_repeaters st = cs_repeaters st' -> placeholder_text env st = placeholder_text env st'.
Proof. intros H. unfold placeholder_text. rewrite H. reflexivity. Qed.

Lemma stringify_conv env t st :
  conv_tok t = true -> reps_ok env (cs_repeaters st) ->
  stringify env t st = Ok (tok_str env (cs_repeaters st) t, markc (ph_tok t) st).
Proof.
  intros Hc Hr. destruct (ph_tok t) eqn:Ep.
  - assert (Ht : tk t = TRepeaterPlaceholder).
    { unfold ph_tok in Ep. destruct (tk t); try discriminate. reflexivity. }
    unfold tok_str.
    rewrite (placeholder_total env t st Ht) by (apply reps_ok_range; exact Hr).
    rewrite (placeholder_total env t (st_of (cs_repeaters st)) Ht) by (apply reps_ok_range; exact Hr).
    rewrite (placeholder_text_reps env (st_of (cs_repeaters st)) st) by reflexivity. reflexivity.
  - unfold markc. unfold conv_tok in Hc. unfold ph_tok in Ep. unfold tok_str, stringify.
    destruct (tk t) as [v|v|s|op b|o|c v i|size rev base par| |name idx]; try discriminate; try reflexivity.
    + destruct o; try discriminate; reflexivity.
    + destruct idx as [i|]; [destruct name; reflexivity|destruct name; reflexivity].
Qed.

Lemma stringify_name_conv env : forall toks st,
  conv_toks toks = true -> reps_ok env (cs_repeaters st) ->
  stringify_name env toks st = Ok (name_str env (cs_repeaters st) toks, markc (ph_toks toks) st).
Proof.
  induction toks as [|t r IH]; intros st H Hr; [reflexivity|].
  cbn [conv_toks forallb] in H. apply andb_prop in H. destruct H as [Ht Hrest].
  unfold name_str. cbn [stringify_name].
  rewrite (stringify_conv env t st Ht Hr).
  rewrite (stringify_conv env t (st_of (cs_repeaters st)) Ht) by exact Hr.
  rewrite (IH (markc (ph_tok t) st) Hrest) by (rewrite markc_reps; exact Hr).
  rewrite (IH (markc (ph_tok t) (st_of (cs_repeaters st))) Hrest) by (rewrite markc_reps; exact Hr).
  rewrite !markc_reps. cbn [st_of cs_repeaters]. rewrite markc_markc. reflexivity.
Qed.

Lemma stringify_value_acc_conv env : forall toks acc st,
  conv_toks toks = true -> reps_ok env (cs_repeaters st) ->
  stringify_value_acc env toks acc st =
  Ok (value_acc env (cs_repeaters st) toks acc, markc (ph_toks toks) st).
Proof.
  induction toks as [|t r IH]; intros acc st H Hr; [reflexivity|].
  cbn [conv_toks forallb] in H. apply andb_prop in H. destruct H as [Ht Hrest].
  unfold value_acc. cbn [stringify_value_acc]. unfold ph_toks. cbn [existsb]. fold (ph_toks r).
  assert (Hs : forall s, cs_repeaters s = cs_repeaters st ->
                 stringify env t s = Ok (tok_str env (cs_repeaters st) t, markc (ph_tok t) s)).
  { intros s Es. rewrite <- Es. apply stringify_conv; [exact Ht|]. rewrite Es. exact Hr. }
  assert (Hgo : forall a s, cs_repeaters s = cs_repeaters st ->
                 stringify_value_acc env r a s = Ok (value_acc env (cs_repeaters st) r a, markc (ph_toks r) s)).
  { intros a s Es. rewrite <- Es. apply IH; [exact Hrest|]. rewrite Es. exact Hr. }
  assert (Hgen :
    match stringify env t st with
    | Ok (s, st1) => stringify_value_acc env r (Some (match acc with Some a => a ++ s | None => s end)) st1
    | ParseErr k p => ParseErr k p | Internal k => Internal k | OutOfFuel => OutOfFuel
    end =
    Ok (match match stringify env t (st_of (cs_repeaters st)) with
              | Ok (s, st1) => stringify_value_acc env r (Some (match acc with Some a => a ++ s | None => s end)) st1
              | ParseErr k p => ParseErr k p | Internal k => Internal k | OutOfFuel => OutOfFuel
              end with Ok (v, _) => v | _ => [] end,
        markc (ph_tok t || ph_toks r) st)).
  { rewrite (Hs st eq_refl), (Hs (st_of (cs_repeaters st)) eq_refl).
    rewrite !Hgo by (rewrite markc_reps; reflexivity). rewrite markc_markc. reflexivity. }
  destruct (tk t) as [v|v|s|op b|o|c v i|size rev base par| |name idx] eqn:Ek; try exact Hgen.
  destruct idx as [i|]; [|exact Hgen].
  assert (Hp : ph_tok t = false) by (unfold ph_tok; rewrite Ek; reflexivity).
  rewrite Hp. cbn [orb].
  rewrite (Hgo None st eq_refl), (Hgo None (st_of (cs_repeaters st)) eq_refl). reflexivity.
Qed.

Lemma stringify_value_conv env toks st :
  conv_toks toks = true -> reps_ok env (cs_repeaters st) ->
  stringify_value env toks st = Ok (value_toks env (cs_repeaters st) toks, markc (ph_toks toks) st).
Proof. apply stringify_value_acc_conv. Qed.

Lemma conv_toks_firstn n l : conv_toks l = true -> conv_toks (firstn n l) = true.
Proof.
  revert n. induction l as [|t r IH]; intros [|n] H; try reflexivity.
  cbn [conv_toks forallb firstn] in *. apply andb_prop in H. destruct H as [Ht Hr].
  rewrite Ht. cbn [andb]. apply IH. exact Hr.
Qed.

Lemma last_opt_snoc {A} (l : list A) x : last_opt l = Some x -> l = drop_last l ++ [x].
Proof.
  unfold last_opt, drop_last. intros H. destruct (rev l) as [|y r] eqn:E; [discriminate|]. inversion H; subst y.
  apply (f_equal (@rev A)) in E. rewrite rev_involutive in E. cbn [rev] in E. subst l.
  rewrite app_length. cbn [length]. replace (length (rev r) + 1 - 1)%nat with (length (rev r)) by lia.
  rewrite firstn_app, firstn_all, Nat.sub_diag. cbn [firstn]. rewrite app_nil_r. reflexivity.
Qed.

Lemma ph_toks_app a b : ph_toks (a ++ b) = ph_toks a || ph_toks b.
Proof. apply existsb_app. Qed.

(* the quote / brace that convert_attribute strips from a value is never a `$#` *)
Lemma ph_toks_drop_last l x : last_opt l = Some x -> ph_tok x = false -> ph_toks (drop_last l) = ph_toks l.
Proof.
  intros H Hx. rewrite (last_opt_snoc l x H) at 2. rewrite ph_toks_app. unfold ph_toks at 3. cbn [existsb].
  rewrite Hx. cbn [orb]. rewrite orb_false_r. reflexivity.
Qed.

Lemma is_quote_not_ph l : is_quote_tok l None = true -> ph_tok l = false.
Proof. unfold is_quote_tok, ph_tok. destruct (tk l); try discriminate; reflexivity. Qed.
Lemma is_bracket_not_ph l c o : is_bracket l c o = true -> ph_tok l = false.
Proof. unfold is_bracket, ph_tok. destruct (tk l); try discriminate; reflexivity. Qed.

Lemma convert_attribute_conv env a st :
  conv_attr a = true -> reps_ok env (cs_repeaters st) ->
  convert_attribute env a st = Ok (attr_of env (cs_repeaters st) a, markc (ph_attr a) st).
Proof.
  unfold conv_attr. intros H Hr. apply andb_prop in H. destruct H as [Hn Hv].
  unfold attr_of, convert_attribute.
  assert (Hname : forall s, cs_repeaters s = cs_repeaters st ->
    match nonempty (ta_name a) with
    | Some toks => match stringify_name env toks s with
                   | Ok (x, st') => Ok (Some x, st')
                   | ParseErr k p => ParseErr k p | Internal k => Internal k | OutOfFuel => OutOfFuel
                   end
    | None => Ok (None, s)
    end = Ok (match nonempty (ta_name a) with Some toks => Some (name_str env (cs_repeaters st) toks) | None => None end,
              markc (ph_otoks (ta_name a)) s)).
  { intros s Es. destruct (ta_name a) as [[|t0 l0]|] eqn:E; cbn [nonempty ph_otoks]; try reflexivity.
    cbn [conv_otoks] in Hn.
    rewrite stringify_name_conv by (try exact Hn; rewrite Es; exact Hr). rewrite Es. reflexivity. }
  rewrite (Hname st eq_refl), (Hname (st_of (cs_repeaters st)) eq_refl). cbn [bind].
  set (name0 := match nonempty (ta_name a) with Some toks => Some (name_str env (cs_repeaters st) toks) | None => None end).
  destruct (match name0 with
            | Some (_ :: _ as n) => _
            | _ => _ end) as [[name boolean] implied].
  unfold ph_attr.
  destruct (ta_value a) as [[|t0 rest]|] eqn:Ev; cbn [nonempty ph_otoks ph_toks existsb];
    try (rewrite orb_false_r; reflexivity).
  cbn [conv_otoks] in Hv.
  match goal with |- context [let '(toks', vtype) := ?X in _] => destruct X as [toks' vtype] eqn:Et end.
  assert (Hc : conv_toks toks' = true /\ ph_toks toks' = ph_toks (t0 :: rest)).
  { assert (Hrest : conv_toks rest = true).
    { cbn [conv_toks forallb] in Hv. apply andb_prop in Hv. apply Hv. }
    assert (Hstrip : forall (p : token -> bool), (forall l, p l = true -> ph_tok l = false) ->
              ph_tok t0 = false ->
              conv_toks (match last_opt rest with Some l => if p l then drop_last rest else rest | None => rest end) = true /\
              ph_toks (match last_opt rest with Some l => if p l then drop_last rest else rest | None => rest end)
                = ph_toks (t0 :: rest)).
    { intros p Hp H0. unfold ph_toks at 2. cbn [existsb]. rewrite H0. cbn [orb]. fold (ph_toks rest).
      destruct (last_opt rest) as [l|] eqn:El; [|split; [exact Hrest|reflexivity]].
      destruct (p l) eqn:Epl; [|split; [exact Hrest|reflexivity]].
      split; [apply conv_toks_firstn; exact Hrest|]. apply (ph_toks_drop_last rest l El). apply Hp. exact Epl. }
    destruct (tk t0) as [v|v|s|op b|o|c v i|size rev base par| |nm idx] eqn:Ek;
      try (inversion Et; subst; split; [exact Hv|reflexivity]).
    - inversion Et; subst. apply (Hstrip (fun l => is_quote_tok l None)).
      + intros l. apply is_quote_not_ph.
      + unfold ph_tok. rewrite Ek. reflexivity.
    - destruct op; [|inversion Et; subst; split; [exact Hv|reflexivity]].
      destruct b; try (inversion Et; subst; split; [exact Hv|reflexivity]).
      inversion Et; subst. apply (Hstrip (fun l => is_bracket l (Some BExpr) (Some false))).
      + intros l. apply is_bracket_not_ph.
      + unfold ph_tok. rewrite Ek. reflexivity. }
  destruct Hc as [Hc Hph].
  rewrite (stringify_value_conv env toks' _ Hc) by (rewrite markc_reps; exact Hr).
  rewrite (stringify_value_conv env toks' (markc _ (st_of _)) Hc) by (rewrite markc_reps; exact Hr).
  cbn [bind]. rewrite !markc_reps. cbn [st_of cs_repeaters]. rewrite markc_markc.
  fold (ph_toks (t0 :: rest)). rewrite Hph. reflexivity.
Qed.

Lemma convert_attributes_conv env : forall l st,
  forallb conv_attr l = true -> reps_ok env (cs_repeaters st) ->
  convert_attributes env l st = Ok (map (attr_of env (cs_repeaters st)) l, markc (existsb ph_attr l) st).
Proof.
  induction l as [|a r IH]; intros st H Hr; [reflexivity|].
  cbn [forallb] in H. apply andb_prop in H. destruct H as [Ha Hrest].
  cbn [convert_attributes map existsb]. rewrite convert_attribute_conv by assumption. cbn [bind].
  rewrite IH by (try exact Hrest; rewrite markc_reps; exact Hr). cbn [bind].
  rewrite markc_reps, markc_markc. reflexivity.
Qed.

(* ================================================================ the budget never grows *)
Lemma place_line_budget env imp i xw : w_budget (snd (place_line env imp i xw)) = w_budget (snd xw).
Proof.
  destruct xw as [x w]. unfold place_line. destruct (imp && negb (w_ins w)); [|reflexivity].
  destruct x; reflexivity.
Qed.

Lemma copies_w_le f : (forall i w, w_budget (snd (f i w)) <= w_budget w) ->
  forall k i w, w_budget (snd (copies_w f k i w)) <= w_budget w.
Proof.
  intros Hf. induction k as [|k IH]; intros i w; cbn [copies_w]; [cbn; lia|].
  specialize (Hf i w). destruct (f i w) as [x w1]. cbn [snd] in Hf.
  destruct (w_budget (w_dec w1) <=? 0) eqn:E; [cbn [snd w_dec w_budget]; lia|].
  specialize (IH (i + 1)%N (w_dec w1)). destruct (copies_w f k (i + 1)%N (w_dec w1)) as [y w3].
  cbn [snd w_dec w_budget] in *. lia.
Qed.

Lemma list_w_le F : forall els, Forall (fun c => forall w, w_budget (snd (F c w)) <= w_budget w) els ->
  forall w, w_budget (snd (list_w F els w)) <= w_budget w.
Proof.
  induction els as [|c l IH]; intros H w; cbn [list_w]; [cbn; lia|].
  inversion H as [|x y Hc Hl]; subst. specialize (Hc w). destruct (F c w) as [x w1]. cbn [snd] in Hc.
  specialize (IH Hl w1). destruct (list_w F l w1) as [y w2]. cbn [snd] in *. lia.
Qed.

Lemma once_w_le env node :
  Forall (fun c => forall reps w, w_budget (snd (unroll_w env reps c w)) <= w_budget w) (elements_of' node) ->
  forall cur reps w, w_budget (snd (once_w env node cur reps w)) <= w_budget w.
Proof.
  intros H cur reps w.
  assert (Hl : forall w', w_budget (snd (list_w (unroll_w env reps) (elements_of' node) w')) <= w_budget w').
  { intros w'. apply list_w_le. eapply Forall_impl; [|exact H]. cbn beta. intros c Hc b'. apply Hc. }
  destruct node as [a at_ v r s els|els r]; cbn [once_w elements_of'] in *.
  - specialize (Hl (w_mark (ph_otoks a || ph_otoks v) w)).
    destruct (list_w (unroll_w env reps) els _) as [x w1]. cbn [snd] in *.
    rewrite w_mark_budget in *. exact Hl.
  - specialize (Hl w). destruct (list_w (unroll_w env reps) els w) as [x w1]. cbn [snd] in *. exact Hl.
Qed.

Lemma unroll_w_le env : forall node reps w, w_budget (snd (unroll_w env reps node w)) <= w_budget w.
Proof.
  induction node as [a at_ v r s els IH|els r IH] using tnode_ind'; intros reps w; rewrite unroll_w_unfold; cbn [node_rep].
  - destruct r as [r0|]; [|apply once_w_le; exact IH]. cbv zeta.
    pose proof (copies_w_le (copy_w env (TElem a at_ v (Some r0) s els) (copies_of env r0) (rimplicit r0) reps)) as Hc.
    match goal with |- context [copies_w ?f ?k ?i ?w0] => specialize (Hc ltac:(intros i' w'; unfold copy_w; rewrite place_line_budget; apply once_w_le; exact IH) k i w0); destruct (copies_w f k i w0) as [x w'] end.
    cbn [snd] in *. destruct (rimplicit r0); exact Hc.
  - destruct r as [r0|]; [|apply once_w_le; exact IH]. cbv zeta.
    pose proof (copies_w_le (copy_w env (TGroup els (Some r0)) (copies_of env r0) (rimplicit r0) reps)) as Hc.
    match goal with |- context [copies_w ?f ?k ?i ?w0] => specialize (Hc ltac:(intros i' w'; unfold copy_w; rewrite place_line_budget; apply once_w_le; exact IH) k i w0); destruct (copies_w f k i w0) as [x w'] end.
    cbn [snd] in *. destruct (rimplicit r0); exact Hc.
Qed.

(* ================================================================ model = spec *)
Definition conv_okw (env : cenv) (node : tnode) : Prop :=
  forall reps w, reps_ok env reps ->
    conv_stmt env node (st_r reps w) =
    Ok (fst (unroll_w env reps node w), st_r reps (snd (unroll_w env reps node w))).

Lemma list_conv_specw env : forall els, Forall (conv_okw env) els ->
  forall reps w, reps_ok env reps ->
    list_conv (conv_stmt env) els (st_r reps w) =
    Ok (fst (list_w (unroll_w env reps) els w), st_r reps (snd (list_w (unroll_w env reps) els w))).
Proof.
  induction els as [|c l IH]; intros H reps w Hr.
  - reflexivity.
  - inversion H as [|x y Hc Hl]; subst. cbn [list_conv list_w].
    rewrite (Hc reps w Hr). cbn [bind].
    destruct (unroll_w env reps c w) as [x w1]. cbn [fst snd].
    rewrite (IH Hl reps w1 Hr). cbn [bind].
    destruct (list_w (unroll_w env reps) l w1) as [y w2]. reflexivity.
Qed.

Lemma once_gen_specw env node cur reps w :
  conv_node node = true -> reps_ok env reps ->
  Forall (conv_okw env) (elements_of' node) ->
  once_gen env node cur (st_r reps w) =
  Ok (fst (once_w env node cur reps w), st_r reps (snd (once_w env node cur reps w))).
Proof.
  intros Hc Hr Hk.
  destruct node as [name attrs value r sc els|els r]; cbn [once_gen once_w elements_of'] in *.
  - cbn [conv_node] in Hc. repeat (apply andb_prop in Hc; destruct Hc as [Hc ?]).
    assert (Hnm : forall w', match nonempty name with
                  | Some toks => let* (s, s') := stringify_name env toks (st_r reps w') in Ok (Some s, s')
                  | None => Ok (None, st_r reps w')
                  end = Ok (option_map (name_str env reps) (nonempty name), st_r reps (w_mark (ph_otoks name) w'))).
    { intros w'. destruct name as [[|t0 l0]|]; cbn [nonempty ph_otoks option_map]; try reflexivity.
      rewrite stringify_name_conv by assumption. cbn [bind]. rewrite markc_st_r. reflexivity. }
    rewrite Hnm. cbn [bind].
    assert (Hval : forall w', match nonempty value with
                   | Some toks => let* (v, s') := stringify_value env toks (st_r reps w') in Ok (Some v, s')
                   | None => Ok (None, st_r reps w')
                   end = Ok (option_map (value_toks env reps) (nonempty value), st_r reps (w_mark (ph_otoks value) w'))).
    { intros w'. destruct value as [[|t0 l0]|]; cbn [nonempty ph_otoks option_map]; try reflexivity.
      rewrite stringify_value_conv by assumption. cbn [bind]. rewrite markc_st_r. reflexivity. }
    rewrite Hval. cbn [bind]. rewrite w_mark_mark.
    rewrite (list_conv_specw env els Hk reps _ Hr). cbn [bind].
    destruct (list_w (unroll_w env reps) els _) as [kids w1]. cbn [fst snd].
    assert (Hat : match nonempty attrs with
                  | Some l => let* (l', s') := convert_attributes env l (st_r reps w1) in Ok (Some l', s')
                  | None => Ok (None, st_r reps w1)
                  end = Ok (option_map (map (attr_of env reps)) (nonempty attrs), st_r reps (w_mark (ph_oattrs attrs) w1))).
    { destruct attrs as [[|a0 l0]|]; cbn [nonempty ph_oattrs option_map]; try reflexivity.
      cbn [conv_oattrs] in *.
      rewrite convert_attributes_conv by assumption. cbn [bind]. rewrite markc_st_r. reflexivity. }
    rewrite Hat. cbn [bind]. unfold leaf_items.
    destruct (text_only_of _ _ _); reflexivity.
  - cbn [conv_node] in Hc.
    rewrite (list_conv_specw env els Hk reps w Hr). cbn [bind].
    destruct (list_w (unroll_w env reps) els w) as [items w1]. reflexivity.
Qed.

Lemma last_opt_cons {A} (a : A) l : exists x, last_opt (a :: l) = Some x.
Proof.
  unfold last_opt. destruct (rev (a :: l)) as [|x r] eqn:E; [|eexists; reflexivity].
  apply (f_equal (@length A)) in E. rewrite rev_length in E. discriminate.
Qed.

(* the line handed to copy i *)
Lemma get_text_wrap_line env r0 i st :
  rimplicit r0 = true -> (i < copies_of env r0)%N ->
  get_text_at env (Some i) st = Ok (wrap_line env i, set_text_inserted st).
Proof.
  intros Himp Hi. unfold get_text_at, wrap_line, copies_of in *. rewrite Himp in Hi.
  destruct (ce_text env) as [|s|l]; try reflexivity.
  rewrite clean_text_filter. unfold wrap_lines in *. rewrite map_length in Hi.
  destruct (nth_error (filter nonblank l) (N.to_nat i)) as [line|] eqn:En.
  - rewrite (nth_error_nth _ _ _ (map_nth_error strip _ _ En)). reflexivity.
  - apply nth_error_None in En. lia.
Qed.

(* the copy loop: [k] rounds of fuel suffice as soon as k >= min(count - i, max(budget, 1)) *)
Lemma iter_specw env node r0 reps
      (Honce : forall cur reps' w, reps_ok env reps' ->
                 once_gen env node cur (st_r reps' w) =
                 Ok (fst (once_w env node cur reps' w), st_r reps' (snd (once_w env node cur reps' w))))
      (Hle : forall cur reps' w, w_budget (snd (once_w env node cur reps' w)) <= w_budget w)
      (Hr : reps_ok env reps) :
  let count := copies_of env r0 in
  let imp := rimplicit r0 in
  let f := copy_w env node count imp reps in
  forall k i acc w v,
    (Z.of_N count - Z.of_N i <= Z.of_nat k \/ Z.max (w_budget w) 1 <= Z.of_nat k) ->
    (i <= count)%N ->
    exists v',
      iter_gen env node count imp k i acc (st_r (mkRep count v imp :: reps) w) =
      Ok (acc ++ fst (copies_w f (N.to_nat (count - i)) i w),
          st_r (mkRep count v' imp :: reps) (snd (copies_w f (N.to_nat (count - i)) i w))).
Proof.
  intros count imp f. induction k as [|k IH]; intros i acc w v Hk Hi.
  - assert (i = count) by lia. subst i. rewrite N.sub_diag. cbn [N.to_nat copies_w fst snd iter_gen].
    exists v. rewrite app_nil_r. reflexivity.
  - cbn [iter_gen]. destruct (i <? count)%N eqn:Elt.
    + apply N.ltb_lt in Elt.
      replace (N.to_nat (count - i)) with (S (N.to_nat (count - (i + 1)))) by lia.
      cbn [copies_w].
      assert (Hri : reps_ok env (mkRep count i imp :: reps)).
      { apply reps_ok_cons; [exact Hr|]. cbn [rimplicit rvalue]. intros Himp l El.
        unfold count, copies_of in Elt. fold imp in Elt. rewrite Himp, El in Elt. lia. }
      change (set_top_value i (st_r (mkRep count v imp :: reps) w)) with (st_r (mkRep count i imp :: reps) w).
      rewrite (Honce _ _ w Hri). cbn [bind].
      pose proof (Hle (Some (mkRep count i imp)) (mkRep count i imp :: reps) w) as Hl.
      destruct (f i w) as [x' w1'] eqn:Ef. unfold f, copy_w in Ef.
      destruct (once_w env node (Some (mkRep count i imp)) (mkRep count i imp :: reps) w) as [x w1].
      cbn [fst snd] in *.
      (* the text insertion of this round *)
      assert (Hstep :
        (if imp && negb (cs_inserted (st_r (mkRep count i imp :: reps) w1)) then
           match last_opt x with
           | Some _ =>
               let* (txt, s') := get_text_at env (Some i) (st_r (mkRep count i imp :: reps) w1) in
               Ok (on_last_deepest (fun n => insert_text n txt) x, s')
           | None => Ok (x, st_r (mkRep count i imp :: reps) w1)
           end
         else Ok (x, st_r (mkRep count i imp :: reps) w1)) =
        Ok (x', st_r (mkRep count i imp :: reps) w1')).
      { unfold place_line in Ef. cbn [st_r cs_inserted].
        destruct (imp && negb (w_ins w1)) eqn:Ec; [|inversion Ef; reflexivity].
        destruct x as [|x0 xs]; [inversion Ef; reflexivity|].
        destruct (last_opt_cons x0 xs) as [lx Elx]. rewrite Elx.
        apply andb_prop in Ec. destruct Ec as [Ei _].
        rewrite (get_text_wrap_line env r0 i _ Ei Elt). inversion Ef. reflexivity. }
      assert (Hb : w_budget w1' = w_budget w1).
      { pose proof (place_line_budget env imp i (x, w1)) as Hp. rewrite Ef in Hp. exact Hp. }
      rewrite Hstep. cbn [bind].
      change (dec_guard (st_r (mkRep count i imp :: reps) w1')) with (st_r (mkRep count i imp :: reps) (w_dec w1')).
      change (cs_guard (st_r (mkRep count i imp :: reps) (w_dec w1'))) with (w_budget (w_dec w1')).
      destruct (w_budget (w_dec w1') <=? 0) eqn:E.
      * exists i. reflexivity.
      * apply Z.leb_gt in E. cbn [w_dec w_budget] in E.
        destruct (IH (i + 1)%N (acc ++ x') (w_dec w1') i) as [v' Hv]; [cbn [w_dec w_budget]; lia|lia|].
        exists v'. rewrite Hv.
        destruct (copies_w f (N.to_nat (count - (i + 1))) (i + 1)%N (w_dec w1')) as [y w3]. cbn [fst snd].
        rewrite app_assoc. reflexivity.
    + apply N.ltb_ge in Elt. assert (i = count) by lia. subst i. rewrite N.sub_diag.
      cbn [N.to_nat copies_w fst snd]. exists v. rewrite app_nil_r. reflexivity.
Qed.

Lemma eff_count_copies env r0 : eff_count env r0 = copies_of env r0.
Proof.
  unfold eff_count, copies_of, written_count. destruct (rimplicit r0); [|reflexivity].
  destruct (ce_text env) as [|s|l] eqn:E; try reflexivity.
  rewrite <- (clean_text_lines l), map_length. reflexivity.
Qed.

Lemma conv_node_specw env node :
  conv_node node = true ->
  Forall (conv_okw env) (elements_of' node) -> conv_okw env node.
Proof.
  intros Hc Hk reps w Hr. rewrite conv_stmt_unfold, unroll_w_unfold. unfold conv_stmt_body.
  destruct (node_rep node) as [r0|] eqn:Er; [|apply once_gen_specw; assumption].
  cbv zeta. rewrite eff_count_copies.
  change (push_rep (mkRep (copies_of env r0) (rvalue r0) (rimplicit r0)) (st_r reps w))
    with (st_r (mkRep (copies_of env r0) (rvalue r0) (rimplicit r0) :: reps) w).
  assert (Honce : forall cur reps' w', reps_ok env reps' ->
             once_gen env node cur (st_r reps' w') =
             Ok (fst (once_w env node cur reps' w'), st_r reps' (snd (once_w env node cur reps' w'))))
    by (intros cur reps' w' Hr'; apply once_gen_specw; assumption).
  assert (Hle : forall cur reps' w', w_budget (snd (once_w env node cur reps' w')) <= w_budget w').
  { apply once_w_le. apply Forall_forall. intros c _ reps' b'. apply unroll_w_le. }
  pose proof (iter_specw env node r0 reps Honce Hle Hr) as Hit. cbv zeta in Hit.
  change (cs_guard (st_r (mkRep (copies_of env r0) (rvalue r0) (rimplicit r0) :: reps) w)) with (w_budget w).
  destruct (Hit (N.to_nat (N.min (copies_of env r0) (Z.to_N (Z.max (w_budget w) 1)))) 0%N [] w (rvalue r0))
    as [v' Hv]; [lia|lia|].
  rewrite N.sub_0_r in Hv. rewrite Hv.
  cbn [bind app].
  destruct (copies_w _ _ _ _) as [items w']. cbn [fst snd].
  destruct (rimplicit r0); reflexivity.
Qed.

(* MAIN: for every token tree whose tokens can be printed, convert_statement is the unrolling spec, in every
   state the converter can be in -- any repeater stack, any budget, any value of the two flags *)
Theorem conv_stmt_specw env : forall node, conv_node node = true -> conv_okw env node.
Proof.
  induction node as [name attrs value r sc els IH|els r IH] using tnode_ind'; intros Hc.
  - apply conv_node_specw; [exact Hc|].
    apply (Forall_forallb_and conv_node); [exact IH|].
    cbn [conv_node] in Hc. apply andb_prop in Hc. apply Hc.
  - apply conv_node_specw; [exact Hc|].
    apply (Forall_forallb_and conv_node); [exact IH|]. exact Hc.
Qed.

(* the same for an arbitrary converter state *)
Theorem conv_stmt_wrap env node st :
  conv_node node = true -> reps_ok env (cs_repeaters st) ->
  conv_stmt env node st =
  Ok (fst (unroll_w env (cs_repeaters st) node (wst_of st)),
      st_r (cs_repeaters st) (snd (unroll_w env (cs_repeaters st) node (wst_of st)))).
Proof.
  intros Hc Hr. rewrite <- (st_r_of st) at 1. apply conv_stmt_specw; assumption.
Qed.

(* the whole converter, every text (none, a string, a list of lines), every budget *)
Theorem convert_wrap_full env max_repeat root :
  forallb conv_node root = true ->
  convert env max_repeat root = Ok (convert_w env max_repeat root).
Proof.
  intros Hc. unfold convert, convert_w. rewrite conv_list_list_conv.
  change (mkCst false (match max_repeat with Some m => Z.of_N m | None => 1000000 end) [] false)
    with (st_r [] (mkW (budget_of max_repeat) false false)).
  rewrite list_conv_specw.
  - cbn [bind]. destruct (list_w _ _ _) as [x w']. cbn [fst snd finish_w st_r cs_text_inserted].
    destruct (ce_text env); [reflexivity| |]; destruct (w_tins w'); reflexivity.
  - apply (Forall_forallb_and conv_node); [|exact Hc]. apply Forall_forall. intros c _ H. apply conv_stmt_specw. exact H.
  - apply reps_ok_nil.
Qed.
