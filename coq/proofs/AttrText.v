(* C03 / C04, character level: the TEXT of an element with `#id`, `.class` and `[ ... ]` attribute sets is
   cut by the tokenizer into exactly the tokens the parser theorems (AttrParseProofs, AttrTextParse) speak
   about.  This file: the written grammar (SPEC side), its rendering to text, the expected token layout,
   and the tokenizer theorem [tokenize_elem].

   Method: a text segment [s] read in tokenizer context [ctx] yields the tokens [ts pos] and leaves the
   context [ctx'], whatever follows it as long as the follower satisfies [P] -- predicate [seg]; segments
   compose by [seg_app]. *)
From Coq Require Import ZArith List Bool Lia ZifyBool.
From Emmet Require Import lib.Base model.MarkupTokenizer proofs.TextSpec proofs.TextProofs.
Local Open Scope N_scope.

(* ================================================================ the written grammar *)
(* how the value of an attribute is written *)
Inductive sval :=
| SNone                              (* n            *)
| SEmpty                             (* n=           *)
| SUnq (v : str)                     (* n=v          (v may contain balanced `(` `)`) *)
| SQuo (single : bool) (q : str)     (* n='q' n="q"  *)
| SBrace (e : str).                  (* n={e}        *)

(* one attribute inside [ ]: optional `!` in front (implied), optional `.` behind (boolean) *)
Record sattr := mkSAttr { sa_implied : bool; sa_name : str; sa_boolean : bool; sa_value : sval }.

Inductive spart :=
| PId (k : nat) (v : str)            (* #v ; k further `#` in front: ##v ... (a "multiple" mention) *)
| PClass (k : nat) (v : str)         (* .v ; k further `.` in front: ..v ...                        *)
| PSet (lead : str) (l : list (sattr * str)).
     (* [ lead a1 w1 a2 w2 ... an wn ]: white space [lead] after `[`, [wi] after attribute i; any white space
        (blanks, tabs, nbsp, line breaks), at least one character between two attributes *)

(* an element: name, parts, optionally a text `{T}`, optionally the self-closing mark `/` written last *)
Record selem := mkSElem { se_name : str; se_parts : list spart; se_text : option str; se_close : bool }.

(* ---------------------------------------------------------------- rendering to text *)
Definition qchar (single : bool) : char := if single then c_squote else c_dquote.

Definition aname_text (a : sattr) : str :=
  (if sa_implied a then [c_excl] else []) ++ sa_name a ++ (if sa_boolean a then [c_dot] else []).
Definition val_text (v : sval) : str :=
  match v with
  | SNone => []
  | SEmpty => [c_eq]
  | SUnq v => c_eq :: v
  | SQuo s q => c_eq :: qchar s :: q ++ [qchar s]
  | SBrace e => c_eq :: c_lbrace :: e ++ [c_rbrace]
  end.
Definition attr_text (a : sattr) : str := aname_text a ++ val_text (sa_value a).

Fixpoint attrs_text (l : list (sattr * str)) : str :=
  match l with
  | [] => []
  | (a, w) :: l' => attr_text a ++ w ++ attrs_text l'
  end.

(* attributes separated by single spaces, the usual way of writing a set *)
Fixpoint spaced (l : list sattr) : list (sattr * str) :=
  match l with
  | [] => []
  | [a] => [(a, [])]
  | a :: l' => (a, [c_space]) :: spaced l'
  end.

Definition part_text (p : spart) : str :=
  match p with
  | PId k v => repeat c_hash (S k) ++ v
  | PClass k v => repeat c_dot (S k) ++ v
  | PSet lead l => c_lbrack :: lead ++ attrs_text l ++ [c_rbrack]
  end.
Fixpoint parts_text (ps : list spart) : str :=
  match ps with [] => [] | p :: ps' => part_text p ++ parts_text ps' end.
Definition tail_text (t : option str) : str :=
  match t with None => [] | Some T => c_lbrace :: T ++ [c_rbrace] end.
Definition close_text (b : bool) : str := if b then [c_slash] else [].
Definition elem_text (e : selem) : str :=
  se_name e ++ parts_text (se_parts e) ++ tail_text (se_text e) ++ close_text (se_close e).

(* ---------------------------------------------------------------- alphabets *)
(* characters that end an unquoted run inside [ ]: `=`, white space, quotes, brackets *)
Definition abreak (c : char) : bool :=
  (c =? c_eq) || is_space c || is_quote c || match bracket_type c with Some _ => true | None => false end.
(* unquoted-safe alphabet inside [ ]: everything else but backslash and `$`
   (so `.`, `#`, `>`, `+`, `^`, `*`, `/`, `!`, `:`, `@`, `-`, letters, digits, unicode ... are all in) *)
Definition asafe (c : char) : bool := negb (c =? c_bslash) && negb (c =? c_dollar) && negb (abreak c).

(* an unquoted VALUE may in addition contain parentheses, as long as they balance *)
Definition is_paren (c : char) : bool := (c =? c_lparen) || (c =? c_rparen).
Definition usafe (c : char) : bool := asafe c || is_paren c.
(* [pdepth d v]: the nesting depth after reading [v] from depth [d]; None if a `)` closes nothing *)
Fixpoint pdepth (d : nat) (v : str) : option nat :=
  match v with
  | [] => Some d
  | c :: r =>
      if c =? c_lparen then pdepth (S d) r
      else if c =? c_rparen then match d with O => None | S d' => pdepth d' r end
      else pdepth d r
  end.
Definition uq_ok (v : str) : Prop := v <> [] /\ forallb usafe v = true /\ pdepth 0 v = Some O.

Definition last_is (c : char) (s : str) : bool := match rev s with x :: _ => x =? c | [] => false end.
Definition head_is (c : char) (s : str) : bool := match s with x :: _ => x =? c | [] => false end.

Definition sval_ok (v : sval) : Prop :=
  match v with
  | SNone | SEmpty => True
  | SUnq v => uq_ok v
  | SQuo s q => qpayload (qchar s) q = true        (* any text; the quote, `$`, `\` only escaped *)
  | SBrace e => bal 0 e = true                     (* braces balanced modulo escapes; `$` only escaped *)
  end.
(* the name proper does not itself end in `.` / begin with `!` unless the flag is written too *)
Definition sattr_ok (a : sattr) : Prop :=
  aname_text a <> [] /\ forallb asafe (sa_name a) = true /\
  (sa_boolean a = false -> last_is c_dot (aname_text a) = false) /\
  (sa_implied a = false -> head_is c_excl (sa_name a) = false) /\
  sval_ok (sa_value a).

Definition word_ok (w : str) : Prop := w <> [] /\ Forall name_char w.
(* white space: blanks, tabs, nbsp, line breaks *)
Definition ws_ok (w : str) : Prop := Forall (fun c => is_space c = true) w.
(* two attributes are separated by at least one white-space character *)
Fixpoint seps_ok (l : list (sattr * str)) : Prop :=
  match l with
  | [] => True
  | (_, w) :: l' => (l' <> [] -> w <> []) /\ seps_ok l'
  end.
Definition spart_ok (p : spart) : Prop :=
  match p with
  | PId _ v | PClass _ v => word_ok v
  | PSet lead l => ws_ok lead /\ Forall (fun aw => sattr_ok (fst aw) /\ ws_ok (snd aw)) l /\ seps_ok l
  end.
Definition selem_ok (e : selem) : Prop :=
  word_ok (se_name e) /\ Forall spart_ok (se_parts e) /\
  match se_text e with None => True | Some T => bal 0 T = true end.

(* ================================================================ expected token layout *)
Definition tk1 (k : tkind) (pos : nat) : token := mkTok k pos (pos + 1).

Definition word_tok (pos : nat) (w : str) : token := mkTok (TLiteral w) pos (pos + length w).

(* an unquoted value: maximal runs of safe characters are Literal tokens, each parenthesis a Bracket *)
Fixpoint uq_toks (fuel : nat) (pos : nat) (v : str) : list token :=
  match fuel with
  | O => []
  | S f =>
      match v with
      | [] => []
      | c :: r =>
          if c =? c_lparen then tk1 (TBracket true BGroup) pos :: uq_toks f (pos + 1) r
          else if c =? c_rparen then tk1 (TBracket false BGroup) pos :: uq_toks f (pos + 1) r
          else let n := span asafe v in
               word_tok pos (firstn n v) :: uq_toks f (pos + n) (skipn n v)
      end
  end.

Definition val_toks (pos : nat) (v : sval) : list token :=
  match v with
  | SNone => []
  | SEmpty => [tk1 (TOperator OpEqual) pos]
  | SUnq v => tk1 (TOperator OpEqual) pos :: uq_toks (length v) (pos + 1) v
  | SQuo s q =>
      [tk1 (TOperator OpEqual) pos; tk1 (TQuote s) (pos + 1)] ++ text_tokens (pos + 2) q
      ++ [tk1 (TQuote s) (pos + 2 + length q)]
  | SBrace e =>
      [tk1 (TOperator OpEqual) pos; tk1 (TBracket true BExpr) (pos + 1)] ++ text_tokens (pos + 2) e
      ++ [tk1 (TBracket false BExpr) (pos + 2 + length e)]
  end.
Definition aname_tok (pos : nat) (a : sattr) : token :=
  mkTok (TLiteral (aname_text a)) pos (pos + length (aname_text a)).
Definition attr_toks (pos : nat) (a : sattr) : list token :=
  aname_tok pos a :: val_toks (pos + length (aname_text a)) (sa_value a).

Definition ws_toks (pos : nat) (w : str) : list token :=
  match w with [] => [] | _ => [mkTok (TWhiteSpace w) pos (pos + length w)] end.

Fixpoint attrs_toks (pos : nat) (l : list (sattr * str)) : list token :=
  match l with
  | [] => []
  | (a, w) :: l' =>
      attr_toks pos a ++ ws_toks (pos + length (attr_text a)) w
      ++ attrs_toks (pos + length (attr_text a) + length w) l'
  end.

(* a run of [n] operator characters *)
Fixpoint op_run (o : optype) (pos : nat) (n : nat) : list token :=
  match n with O => [] | S n' => tk1 (TOperator o) pos :: op_run o (pos + 1) n' end.

Definition part_toks (pos : nat) (p : spart) : list token :=
  match p with
  | PId k v => op_run OpId pos (S k) ++ [word_tok (pos + S k) v]
  | PClass k v => op_run OpClass pos (S k) ++ [word_tok (pos + S k) v]
  | PSet lead l =>
      tk1 (TBracket true BAttr) pos :: ws_toks (pos + 1) lead ++ attrs_toks (pos + 1 + length lead) l
      ++ [tk1 (TBracket false BAttr) (pos + 1 + length lead + length (attrs_text l))]
  end.
Fixpoint parts_toks (pos : nat) (ps : list spart) : list token :=
  match ps with
  | [] => []
  | p :: ps' => part_toks pos p ++ parts_toks (pos + length (part_text p)) ps'
  end.
Definition tail_toks (pos : nat) (t : option str) : list token :=
  match t with
  | None => []
  | Some T => tk1 (TBracket true BExpr) pos :: text_tokens (pos + 1) T ++ [tk1 (TBracket false BExpr) (pos + 1 + length T)]
  end.
Definition close_toks (pos : nat) (b : bool) : list token := if b then [tk1 (TOperator OpClose) pos] else [].
Definition elem_toks (pos : nat) (e : selem) : list token :=
  word_tok pos (se_name e) :: parts_toks (pos + length (se_name e)) (se_parts e)
  ++ tail_toks (pos + length (se_name e) + length (parts_text (se_parts e))) (se_text e)
  ++ close_toks (pos + length (se_name e) + length (parts_text (se_parts e)) + length (tail_text (se_text e))) (se_close e).

(* ================================================================ segments *)
Definition seg (ctx : tctx) (s : str) (ts : nat -> list token) (ctx' : tctx) (P : str -> Prop) : Prop :=
  forall prev pos rest, P rest ->
    toks 0 ctx prev pos (s ++ rest) = tcons (ts pos) (toks 0 ctx' (last_prev prev s) (pos + length s) rest).

Lemma seg_nil ctx P : seg ctx [] (fun _ => []) ctx P.
Proof.
  intros prev pos rest _. cbn [app length]. rewrite Nat.add_0_r. unfold last_prev. cbn [rev].
  symmetry. apply tcons_nil.
Qed.

Lemma seg_app c1 c2 c3 s1 s2 t1 t2 (P1 P2 : str -> Prop) :
  seg c1 s1 t1 c2 P1 -> seg c2 s2 t2 c3 P2 -> (forall rest, P2 rest -> P1 (s2 ++ rest)) ->
  seg c1 (s1 ++ s2) (fun pos => t1 pos ++ t2 (pos + length s1)%nat) c3 P2.
Proof.
  intros H1 H2 Himp prev pos rest HP. rewrite <- app_assoc.
  rewrite H1 by (apply Himp; exact HP). rewrite H2 by exact HP.
  rewrite tcons_app, last_prev_app, app_length, Nat.add_assoc. reflexivity.
Qed.

Lemma seg_app' c1 c2 c3 s1 s2 t1 t2 ts (P1 P2 : str -> Prop) :
  seg c1 s1 t1 c2 P1 -> seg c2 s2 t2 c3 P2 -> (forall rest, P2 rest -> P1 (s2 ++ rest)) ->
  (forall pos, ts pos = t1 pos ++ t2 (pos + length s1)%nat) ->
  seg c1 (s1 ++ s2) ts c3 P2.
Proof.
  intros H1 H2 Himp E prev pos rest HP. rewrite E. apply (seg_app c1 c2 c3 s1 s2 t1 t2 P1 P2 H1 H2 Himp). exact HP.
Qed.

Lemma seg_ext ctx s ts ts' ctx' P :
  (forall pos, ts pos = ts' pos) -> seg ctx s ts ctx' P -> seg ctx s ts' ctx' P.
Proof. intros E H prev pos rest HP. rewrite <- E. apply H. exact HP. Qed.

Lemma seg_weaken ctx s ts ctx' (P Q : str -> Prop) :
  (forall rest, Q rest -> P rest) -> seg ctx s ts ctx' P -> seg ctx s ts ctx' Q.
Proof. intros I H prev pos rest HQ. apply H. apply I. exact HQ. Qed.

(* a single token *)
Lemma seg_token ctx (c : N) (a : list N) k ctx' (P : str -> Prop) :
  (forall prev rest, P rest -> consume ctx prev (c :: a ++ rest) = (CTok k (S (length a)), ctx')) ->
  seg ctx (c :: a) (fun pos => [mkTok k pos (pos + S (length a))]) ctx' P.
Proof.
  intros H prev pos rest HP. cbn [app length]. rewrite last_prev_cons.
  apply toks_token. apply H. exact HP.
Qed.

(* ================================================================ one round of the tokenizer *)
Lemma consume_operator ctx prev (c : N) (r : list N) op :
  (c =? c_dollar) = false -> is_space c = false -> is_allowed_repeater c ctx = false ->
  (exists e, lit (cquote ctx) (cattr ctx) (Z.min (cexpr ctx) 1) (cexpr ctx) prev false (c :: r) = ([], O, e)) ->
  operator_type c = Some op ->
  consume ctx prev (c :: r) = (CTok (TOperator op) 1, ctx).
Proof.
  intros Hd Hs Hr [e Hl] Ho. unfold consume.
  rewrite (field_none ctx c r Hd); cbn [orelse]. rewrite (rp_none c r Hd); cbn [orelse].
  rewrite (rn_none c r Hd); cbn [orelse]. rewrite (repeater_none ctx c r Hr); cbn [orelse].
  rewrite (ws_none c r Hs). rewrite Hl. unfold operator. rewrite Ho. cbn [orelse]. reflexivity.
Qed.

Lemma consume_quote ctx prev (c : N) (r : list N) :
  (c =? c_dollar) = false -> is_space c = false -> is_allowed_repeater c ctx = false ->
  (exists e, lit (cquote ctx) (cattr ctx) (Z.min (cexpr ctx) 1) (cexpr ctx) prev false (c :: r) = ([], O, e)) ->
  operator_type c = None -> is_quote c = true ->
  consume ctx prev (c :: r) =
    (CTok (TQuote (c =? c_squote)) 1,
     mkCtx (cgroup ctx) (cattr ctx) (cexpr ctx)
           (match cquote ctx with Some q => if c =? q then None else Some c | None => Some c end)).
Proof.
  intros Hd Hs Hr [e Hl] Ho Hq. unfold consume.
  rewrite (field_none ctx c r Hd); cbn [orelse]. rewrite (rp_none c r Hd); cbn [orelse].
  rewrite (rn_none c r Hd); cbn [orelse]. rewrite (repeater_none ctx c r Hr); cbn [orelse].
  rewrite (ws_none c r Hs). rewrite Hl. unfold operator, quote. rewrite Ho, Hq. cbn [orelse]. reflexivity.
Qed.

Lemma space_not_star c : is_space c = true -> (c =? c_star) = false.
Proof.
  intros H. unfold is_space, is_white_space in H.
  repeat match type of H with
  | (_ || _) = true => apply orb_true_iff in H; destruct H as [H|H]
  end; apply N.eqb_eq in H; subst c; reflexivity.
Qed.

(* a run of white space is one WhiteSpace token, in every context *)
Lemma consume_ws ctx prev (w : N) (W X : list N) :
  Forall (fun c => is_space c = true) (w :: W) ->
  match X with [] => True | x :: _ => is_space x = false end ->
  consume ctx prev (w :: W ++ X) = (CTok (TWhiteSpace (w :: W)) (S (length W)), ctx).
Proof.
  intros HW HX. inversion HW as [|x y Hw HW']; subst.
  destruct (space_not_special w Hw) as [Hd _].
  unfold consume.
  rewrite (field_none ctx w (W ++ X) Hd); cbn [orelse]. rewrite (rp_none w (W ++ X) Hd); cbn [orelse].
  rewrite (rn_none w (W ++ X) Hd); cbn [orelse].
  assert (Hr : is_allowed_repeater w ctx = false).
  { unfold is_allowed_repeater. rewrite (space_not_star w Hw). reflexivity. }
  rewrite (repeater_none ctx w (W ++ X) Hr); cbn [orelse].
  unfold white_space.
  change (w :: W ++ X) with ((w :: W) ++ X).
  rewrite (span_app_all is_space (w :: W) X HW HX). cbn [length].
  rewrite firstn_app. cbn [length]. rewrite Nat.sub_diag. cbn [firstn].
  change (w :: firstn (length W) W) with (firstn (length (w :: W)) (w :: W)).
  rewrite firstn_all, app_nil_r. reflexivity.
Qed.

Definition nospace (rest : str) : Prop := match rest with [] => True | x :: _ => is_space x = false end.

Lemma seg_ws ctx (w : N) (W : list N) :
  Forall (fun c => is_space c = true) (w :: W) ->
  seg ctx (w :: W) (fun pos => [mkTok (TWhiteSpace (w :: W)) pos (pos + S (length W))]) ctx nospace.
Proof. intros HW. apply seg_token. intros prev rest HP. apply consume_ws; assumption. Qed.

(* ================================================================ element level: ctx = (g, 0, 0, no quote) *)
Definition C0 (g : Z) : tctx := mkCtx g 0 0 None.
Definition CA (g : Z) : tctx := mkCtx g 1 0 None.
Definition CQ (g : Z) (q : char) : tctx := mkCtx g 1 0 (Some q).
Definition CE (g : Z) : tctx := mkCtx g 1 1 None.

(* what may follow a word at element level: anything that is not a name character nor `\`; a `/` only
   when no digit follows it (between two digits `/` is part of the word: `w-1/2`) *)
Definition wstop (rest : str) : Prop :=
  match rest with
  | [] => True
  | c :: r => is_element_name c = false /\ c <> c_bslash /\ (c = c_slash -> peek_p is_digit_py r = false)
  end.

Lemma lit_stop0 prev c r : wstop (c :: r) -> lit None 0 0 0 prev false (c :: r) = ([], O, 0%Z).
Proof.
  intros [Hn [Hb Hs]]. rewrite lit_cons. cbv beta zeta.
  apply N.eqb_neq in Hb. rewrite Hb.
  assert (Hsp : (c =? c_slash) && true && negb (truthy 0) && negb (truthy 0)
                && match prev with Some p => is_digit_py p | None => false end && peek_p is_digit_py r = false).
  { destruct (c =? c_slash) eqn:E; [|reflexivity]. apply N.eqb_eq in E. rewrite (Hs E). apply andb_false_r. }
  rewrite Hsp. cbn [orb].
  destruct ((c =? c_dollar) || is_allowed_operator c (mkCtx 0 0 0 None)); [reflexivity|].
  replace (truthy 0) with false by reflexivity. rewrite Hn. reflexivity.
Qed.

Lemma lit_word0 : forall w prev rest,
  Forall name_char w -> wstop rest ->
  lit None 0 0 0 prev false (w ++ rest) = (w, length w, 0%Z).
Proof.
  induction w as [|c w IH]; intros prev rest HF Hst.
  - cbn [app length]. destruct rest as [|c r]; [reflexivity|]. apply lit_stop0. exact Hst.
  - inversion HF as [|x y Hc HF']; subst.
    destruct (name_char_facts c Hc) as [H1 [H2 [H3 [H4 [H5 [H6 H7]]]]]].
    cbn [app]. rewrite lit_cons. cbv beta zeta.
    rewrite H1, H3. cbn [andb].
    unfold is_allowed_operator. rewrite (name_not_operator c Hc). rewrite H2. cbn [orb].
    replace (truthy 0) with false by reflexivity. cbn [negb andb].
    unfold name_char in Hc. rewrite Hc. cbn [negb].
    unfold is_allowed_space, is_allowed_repeater. rewrite H4, H5, H6, H7. cbn [andb orb].
    rewrite IH by assumption. reflexivity.
Qed.

Lemma seg_word0 g w :
  word_ok w -> seg (C0 g) w (fun pos => [word_tok pos w]) (C0 g) wstop.
Proof.
  intros [Hne HF]. destruct w as [|c a]; [congruence|].
  inversion HF as [|x y Hc HF']; subst.
  destruct (name_char_facts c Hc) as [H1 [H2 [H3 [H4 [H5 [H6 H7]]]]]].
  apply (seg_token (C0 g) c a (TLiteral (c :: a)) (C0 g) wstop).
  intros prev rest Hst.
  apply (consume_plain (C0 g) prev c (a ++ rest) H2 H4).
  - unfold is_allowed_repeater. rewrite H5. reflexivity.
  - exact (lit_word0 (c :: a) prev rest HF Hst).
Qed.

Ltac wstop_const := cbn [wstop]; split; [vm_compute; reflexivity|split; [discriminate|intros E; discriminate E]].

(* `#` and `.` at element level are operators *)
Lemma seg_op0 g c op :
  (c = c_hash /\ op = OpId) \/ (c = c_dot /\ op = OpClass) ->
  seg (C0 g) [c] (fun pos => [tk1 (TOperator op) pos]) (C0 g) (fun _ => True).
Proof.
  intros H. apply (seg_token (C0 g) c [] (TOperator op) (C0 g)).
  intros prev rest _. cbn [app].
  destruct H as [[-> ->]|[-> ->]]; (apply consume_operator; try reflexivity;
    eexists; apply lit_stop0; wstop_const).
Qed.

(* `[` at element level opens an attribute set *)
Lemma seg_lbrack g :
  seg (C0 g) [c_lbrack] (fun pos => [tk1 (TBracket true BAttr) pos]) (CA g) (fun _ => True).
Proof.
  apply (seg_token (C0 g) c_lbrack [] (TBracket true BAttr) (CA g)).
  intros prev rest _. cbn [app].
  rewrite (consume_bracket (C0 g) prev c_lbrack rest BAttr); try reflexivity.
  eexists. apply lit_stop0. wstop_const.
Qed.

(* ================================================================ inside [ ]: ctx = (g, 1, 0, no quote) *)
Definition astop (rest : str) : Prop := match rest with [] => True | c :: _ => abreak c = true end.

Lemma no_repeater_in_attr c g e q : is_allowed_repeater c (mkCtx g 1 e q) = false.
Proof. unfold is_allowed_repeater. cbn [cattr cexpr]. destruct (c =? c_star); reflexivity. Qed.

Lemma assoc_N_in_pair {A} (c : N) (l : list (N * A)) v : assoc_N c l = Some v -> In (c, v) l.
Proof.
  induction l as [|[k x] l IH]; cbn [assoc_N In]; [discriminate|].
  destruct (c =? k) eqn:E.
  - apply N.eqb_eq in E. subst. intros H. injection H as ->. left. reflexivity.
  - intros H. right. apply IH. exact H.
Qed.

Lemma op_table_equal :
  forallb (fun kv => implb (match optype_of_name (snd kv) with OpEqual => true | _ => false end) (fst kv =? c_eq))
          markup_operator_types = true.
Proof. vm_compute. reflexivity. Qed.

(* inside [ ] the only operator is `=` *)
Lemma attr_operator_eq c g : is_allowed_operator c (mkCtx g 1 0 None) = true -> c = c_eq.
Proof.
  unfold is_allowed_operator, operator_type.
  destruct (assoc_N c markup_operator_types) as [nm|] eqn:E; [|discriminate].
  cbn [cquote cexpr cattr]. replace (truthy 0) with false by reflexivity.
  replace (negb (truthy 1)) with false by reflexivity. cbn [orb].
  intros H. apply assoc_N_in_pair in E.
  pose proof op_table_equal as F. rewrite forallb_forall in F. specialize (F _ E). cbn [fst snd] in F.
  destruct (optype_of_name nm); try discriminate. cbn [implb] in F. apply N.eqb_eq. exact F.
Qed.

Lemma abreak_not_bslash c : abreak c = true -> (c =? c_bslash) = false.
Proof. intros H. not_char H. Qed.
Lemma abreak_not_dollar c : abreak c = true -> (c =? c_dollar) = false.
Proof. intros H. not_char H. Qed.

Lemma slash_special_attr (c : N) (prev : option char) (r : list N) (x : bool) :
  (c =? c_slash) && x && negb (truthy 0) && negb (truthy 1)
  && match prev with Some p => is_digit_py p | None => false end && peek_p is_digit_py r = false.
Proof. replace (negb (truthy 1)) with false by reflexivity. rewrite andb_false_r. reflexivity. Qed.

Lemma lit_astop prev c r : abreak c = true -> lit None 1 0 0 prev false (c :: r) = ([], O, 0%Z).
Proof.
  intros H. rewrite lit_cons. cbv beta zeta.
  rewrite (abreak_not_bslash c H). rewrite slash_special_attr. cbn [orb].
  destruct ((c =? c_dollar) || is_allowed_operator c (mkCtx 0 1 0 None)) eqn:E; [reflexivity|].
  apply orb_false_iff in E. destruct E as [_ Eop].
  replace (truthy 0) with false by reflexivity. replace (negb (truthy 1)) with false by reflexivity.
  cbn [andb]. rewrite no_repeater_in_attr.
  unfold is_allowed_space. cbn [cexpr]. replace (negb (truthy 0)) with true by reflexivity.
  rewrite andb_true_r, orb_false_r.
  unfold abreak in H.
  destruct (c =? c_eq) eqn:Eq.
  - apply N.eqb_eq in Eq. subst c. vm_compute in Eop. discriminate.
  - cbn [orb] in H. rewrite H. reflexivity.
Qed.

Lemma asafe_facts c : asafe c = true ->
  (c =? c_bslash) = false /\ (c =? c_dollar) = false /\ (c =? c_eq) = false /\ is_space c = false /\
  is_quote c = false /\ bracket_type c = None.
Proof.
  unfold asafe, abreak. intros H.
  apply andb_true_iff in H. destruct H as [H H3]. apply andb_true_iff in H. destruct H as [H1 H2].
  apply negb_true_iff in H1. apply negb_true_iff in H2. apply negb_true_iff in H3.
  apply orb_false_iff in H3. destruct H3 as [H3 H6]. apply orb_false_iff in H3. destruct H3 as [H3 H5].
  apply orb_false_iff in H3. destruct H3 as [H3 H4].
  repeat split; try assumption. destruct (bracket_type c); [discriminate|reflexivity].
Qed.

Lemma lit_aword : forall w prev rest,
  forallb asafe w = true -> astop rest ->
  lit None 1 0 0 prev false (w ++ rest) = (w, length w, 0%Z).
Proof.
  induction w as [|c w IH]; intros prev rest HF Hst.
  - cbn [app length]. destruct rest as [|c r]; [reflexivity|]. apply (lit_astop prev c r). exact Hst.
  - cbn [forallb] in HF. apply andb_true_iff in HF. destruct HF as [Hc HF'].
    destruct (asafe_facts c Hc) as [H1 [H2 [H3 [H4 [H5 H6]]]]].
    cbn [app]. rewrite lit_cons. cbv beta zeta.
    rewrite H1. rewrite slash_special_attr. rewrite H2. cbn [orb].
    destruct (is_allowed_operator c (mkCtx 0 1 0 None)) eqn:Eop.
    { apply attr_operator_eq in Eop. subst c. discriminate. }
    replace (truthy 0) with false by reflexivity. replace (negb (truthy 1)) with false by reflexivity.
    cbn [andb]. rewrite no_repeater_in_attr.
    unfold is_allowed_space. rewrite H4, H5, H6. cbn [andb orb].
    rewrite IH by assumption. reflexivity.
Qed.

(* an unquoted run inside [ ] is one Literal token *)
Lemma seg_aword g w :
  w <> [] -> forallb asafe w = true ->
  seg (CA g) w (fun pos => [word_tok pos w]) (CA g) astop.
Proof.
  intros Hne HF. destruct w as [|c a]; [congruence|].
  pose proof HF as HF0. cbn [forallb] in HF. apply andb_true_iff in HF. destruct HF as [Hc _].
  destruct (asafe_facts c Hc) as [H1 [H2 [H3 [H4 [H5 H6]]]]].
  apply (seg_token (CA g) c a (TLiteral (c :: a)) (CA g) astop).
  intros prev rest Hst.
  apply (consume_plain (CA g) prev c (a ++ rest) H2 H4 (no_repeater_in_attr c g 0%Z None)).
  exact (lit_aword (c :: a) prev rest HF0 Hst).
Qed.

Lemma seg_eq g : seg (CA g) [c_eq] (fun pos => [tk1 (TOperator OpEqual) pos]) (CA g) (fun _ => True).
Proof.
  apply (seg_token (CA g) c_eq [] (TOperator OpEqual) (CA g)).
  intros prev rest _. cbn [app]. apply consume_operator; try reflexivity.
  eexists. apply (lit_astop prev c_eq rest). reflexivity.
Qed.

Lemma seg_ws_opt ctx w : ws_ok w -> seg ctx w (fun pos => ws_toks pos w) ctx nospace.
Proof.
  intros H. destruct w as [|c W]; [apply seg_nil|]. cbn [ws_toks].
  apply (seg_ext _ _ (fun pos => [mkTok (TWhiteSpace (c :: W)) pos (pos + S (length W))])); [reflexivity|].
  apply seg_ws. exact H.
Qed.

Lemma seg_rbrack g :
  seg (CA g) [c_rbrack] (fun pos => [tk1 (TBracket false BAttr) pos]) (C0 g) (fun _ => True).
Proof.
  apply (seg_token (CA g) c_rbrack [] (TBracket false BAttr) (C0 g)).
  intros prev rest _. cbn [app].
  rewrite (consume_bracket (CA g) prev c_rbrack rest BAttr); try reflexivity.
  eexists. apply (lit_astop prev c_rbrack rest). reflexivity.
Qed.

Lemma seg_lbrace g :
  seg (CA g) [c_lbrace] (fun pos => [tk1 (TBracket true BExpr) pos]) (CE g) (fun _ => True).
Proof.
  apply (seg_token (CA g) c_lbrace [] (TBracket true BExpr) (CE g)).
  intros prev rest _. cbn [app].
  rewrite (consume_bracket (CA g) prev c_lbrace rest BExpr); try reflexivity.
  eexists. apply (lit_astop prev c_lbrace rest). reflexivity.
Qed.

Lemma seg_rbrace g :
  seg (CE g) [c_rbrace] (fun pos => [tk1 (TBracket false BExpr) pos]) (CA g) (fun _ => True).
Proof.
  apply (seg_token (CE g) c_rbrace [] (TBracket false BExpr) (CA g)).
  intros prev rest _. cbn [app].
  rewrite (consume_bracket (CE g) prev c_rbrace rest BExpr); try reflexivity.
  eexists. apply lit_stops_at_rbrace.
Qed.

(* the payload of {...} *)
Definition starts_with_c (c : char) (rest : str) : Prop := exists r, rest = c :: r.

Lemma seg_expr g e :
  bal 0 e = true -> seg (CE g) e (fun pos => text_tokens pos e) (CE g) (starts_with_c c_rbrace).
Proof. intros Hb prev pos rest [r ->]. apply toks_text. exact Hb. Qed.

(* quotes *)
Lemma is_quote_qchar s : is_quote (qchar s) = true.
Proof. destruct s; reflexivity. Qed.
Lemma qchar_single s : (qchar s =? c_squote) = s.
Proof. destruct s; reflexivity. Qed.

Lemma seg_qopen g s :
  seg (CA g) [qchar s] (fun pos => [tk1 (TQuote s) pos]) (CQ g (qchar s)) (fun _ => True).
Proof.
  apply (seg_ext _ _ (fun pos => [mkTok (TQuote (qchar s =? c_squote)) pos (pos + 1)])).
  { intros pos. rewrite qchar_single. reflexivity. }
  apply (seg_token (CA g) (qchar s) [] (TQuote (qchar s =? c_squote)) (CQ g (qchar s))).
  intros prev rest _. cbn [app].
  rewrite (consume_quote (CA g) prev (qchar s) rest); try (destruct s; reflexivity).
  eexists. apply (lit_astop prev (qchar s) rest). destruct s; reflexivity.
Qed.

Lemma seg_qclose g s :
  seg (CQ g (qchar s)) [qchar s] (fun pos => [tk1 (TQuote s) pos]) (CA g) (fun _ => True).
Proof.
  apply (seg_ext _ _ (fun pos => [mkTok (TQuote (qchar s =? c_squote)) pos (pos + 1)])).
  { intros pos. rewrite qchar_single. reflexivity. }
  apply (seg_token (CQ g (qchar s)) (qchar s) [] (TQuote (qchar s =? c_squote)) (CA g)).
  intros prev rest _. cbn [app].
  rewrite (consume_quote (CQ g (qchar s)) prev (qchar s) rest); try (destruct s; reflexivity).
  eexists. exact (lit_quoted [] (qchar s) prev 1%Z 0%Z rest (is_quote_qchar s) eq_refl).
Qed.

(* the payload between quotes: leading white space (if any), then ONE literal up to the closing quote *)
Lemma qpayload_ws : forall W B q, Forall (fun c => is_space c = true) W -> qpayload q (W ++ B) = qpayload q B \/ is_space q = true.
Proof.
  induction W as [|w W IH]; intros B q HW; [left; reflexivity|].
  inversion HW as [|x y Hw HW']; subst.
  destruct (space_not_special w Hw) as [H1 [H2 _]].
  destruct (w =? q) eqn:E.
  - apply N.eqb_eq in E. subst q. right. exact Hw.
  - destruct (IH B q HW') as [H|H]; [|right; exact H]. left.
    cbn [app qpayload]. rewrite H2, H1, E. cbn [orb]. exact H.
Qed.

Lemma quote_not_space q : is_quote q = true -> is_space q = false.
Proof.
  intros H. unfold is_quote in H. apply orb_true_iff in H.
  destruct H as [H|H]; apply N.eqb_eq in H; subst q; reflexivity.
Qed.

Lemma toks_qbody (b : N) (B rest : list N) g q prev pos :
  is_quote q = true -> is_space b = false -> qpayload q (b :: B) = true ->
  toks 0 (CQ g q) prev pos ((b :: B) ++ q :: rest) =
    tcons [mkTok (TLiteral (unescape (b :: B))) pos (pos + length (b :: B))]
          (toks 0 (CQ g q) (last_prev prev (b :: B)) (pos + length (b :: B)) (q :: rest)).
Proof.
  intros Hq Hs Hb. cbn [app]. rewrite last_prev_cons. cbn [length].
  apply toks_token.
  assert (Hd : (b =? c_dollar) = false).
  { cbn [qpayload] in Hb. destruct (b =? c_bslash) eqn:E1.
    - apply N.eqb_eq in E1. subst b. reflexivity.
    - destruct (b =? c_dollar); [discriminate|reflexivity]. }
  pose proof (lit_quoted (b :: B) q prev 1%Z 0%Z rest Hq Hb) as Hl.
  cbn [length app] in Hl.
  rewrite (consume_plain (CQ g q) prev b (B ++ q :: rest) Hd Hs
             (no_repeater_in_attr b g 0%Z (Some q)) _ _ _ Hl).
  reflexivity.
Qed.

Lemma seg_quoted g q T :
  is_quote q = true -> qpayload q T = true ->
  seg (CQ g q) T (fun pos => text_tokens pos T) (CQ g q) (starts_with_c q).
Proof.
  intros Hq Hb prev pos rest [rr ->]. unfold text_tokens.
  set (W := ws_part T). set (B := body_part T).
  assert (HW : Forall (fun c => is_space c = true) W) by apply span_all.
  assert (HB : match B with [] => True | x :: _ => is_space x = false end) by apply span_stop.
  assert (HT : W ++ B = T) by apply firstn_skipn.
  clearbody W B.
  rewrite <- HT in Hb.
  destruct (qpayload_ws W B q HW) as [Hpw|Hsp]; [|rewrite (quote_not_space q Hq) in Hsp; discriminate].
  rewrite Hpw in Hb.
  rewrite <- HT at 1. rewrite <- app_assoc.
  assert (HlenT : length T = (length W + length B)%nat) by (rewrite <- HT, app_length; reflexivity).
  assert (Hprev : last_prev prev T = last_prev (last_prev prev W) B) by (rewrite <- HT; apply last_prev_app).
  rewrite Hprev, HlenT.
  destruct W as [|w W'].
  - cbn [app length]. rewrite Nat.add_0_r. unfold last_prev at 2. cbn [rev].
    destruct B as [|b B'].
    + cbn [app length]. rewrite Nat.add_0_r. symmetry. apply tcons_nil.
    + apply (toks_qbody b B' rr g q prev pos Hq HB Hb).
  - etransitivity.
    { apply (seg_ws (CQ g q) w W' HW prev pos (B ++ q :: rr)).
      destruct B as [|b B']; [cbn [app nospace]; apply quote_not_space; exact Hq|exact HB]. }
    destruct B as [|b B'].
    + cbn [app length]. rewrite Nat.add_0_r. reflexivity.
    + rewrite tcons_app. f_equal.
      etransitivity; [apply (toks_qbody b B' rr g q _ _ Hq HB Hb)|].
      rewrite Nat.add_assoc. reflexivity.
Qed.

(* ================================================================ unquoted values with parentheses *)
Lemma seg_lparen g :
  seg (CA g) [c_lparen] (fun pos => [tk1 (TBracket true BGroup) pos]) (CA (g + 1)) (fun _ => True).
Proof.
  apply (seg_token (CA g) c_lparen [] (TBracket true BGroup) (CA (g + 1))).
  intros prev rest _. cbn [app].
  rewrite (consume_bracket (CA g) prev c_lparen rest BGroup); try reflexivity.
  eexists. apply (lit_astop prev c_lparen rest). reflexivity.
Qed.
Lemma seg_rparen g :
  seg (CA g) [c_rparen] (fun pos => [tk1 (TBracket false BGroup) pos]) (CA (g + -1)) (fun _ => True).
Proof.
  apply (seg_token (CA g) c_rparen [] (TBracket false BGroup) (CA (g + -1))).
  intros prev rest _. cbn [app].
  rewrite (consume_bracket (CA g) prev c_rparen rest BGroup); try reflexivity.
  eexists. apply (lit_astop prev c_rparen rest). reflexivity.
Qed.

(* net change of the group counter *)
Fixpoint pdelta (v : str) : Z :=
  match v with
  | [] => 0%Z
  | c :: r => Z.add (if c =? c_lparen then 1%Z else if c =? c_rparen then (-1)%Z else 0%Z) (pdelta r)
  end.

Lemma asafe_not_paren c : asafe c = true -> (c =? c_lparen) = false /\ (c =? c_rparen) = false.
Proof.
  intros H. destruct (asafe_facts c H) as [_ [_ [_ [_ [_ Hb]]]]].
  split; [destruct (c =? c_lparen) eqn:E|destruct (c =? c_rparen) eqn:E]; try reflexivity;
    apply N.eqb_eq in E; subst c; discriminate.
Qed.

Lemma paren_abreak c : is_paren c = true -> abreak c = true.
Proof.
  unfold is_paren. intros H. apply orb_true_iff in H. destruct H as [H|H]; apply N.eqb_eq in H; subst c; reflexivity.
Qed.

Lemma pdelta_asafe : forall w v, forallb asafe w = true -> pdelta (w ++ v) = pdelta v.
Proof.
  induction w as [|c w IH]; intros v H; [reflexivity|].
  cbn [forallb] in H. apply andb_true_iff in H. destruct H as [Hc Hw].
  destruct (asafe_not_paren c Hc) as [H1 H2]. cbn [app pdelta]. rewrite H1, H2, IH by exact Hw. reflexivity.
Qed.

Lemma Forall_forallb {A} (p : A -> bool) l : Forall (fun x => p x = true) l -> forallb p l = true.
Proof. intros H. apply forallb_forall. apply Forall_forall. exact H. Qed.

Lemma forallb_skipn {A} (p : A -> bool) n l : forallb p l = true -> forallb p (skipn n l) = true.
Proof.
  intros H. rewrite <- (firstn_skipn n l) in H. rewrite forallb_app in H. apply andb_true_iff in H. tauto.
Qed.

Lemma toks_uq : forall n v, (length v <= n)%nat -> forallb usafe v = true ->
  forall g prev pos rest, astop rest ->
  toks 0 (CA g) prev pos (v ++ rest) =
    tcons (uq_toks n pos v) (toks 0 (CA (g + pdelta v)) (last_prev prev v) (pos + length v) rest).
Proof.
  induction n as [|n IH]; intros v Hlen Hsafe g prev pos rest Hst.
  - destruct v; [|cbn [length] in Hlen; lia].
    cbn [app uq_toks pdelta length]. rewrite Z.add_0_r, Nat.add_0_r. unfold last_prev. cbn [rev].
    symmetry. apply tcons_nil.
  - destruct v as [|c r].
    { cbn [app uq_toks pdelta length]. rewrite Z.add_0_r, Nat.add_0_r. unfold last_prev. cbn [rev].
      symmetry. apply tcons_nil. }
    cbn [length] in Hlen. pose proof Hsafe as Hsafe0.
    cbn [forallb] in Hsafe. apply andb_true_iff in Hsafe. destruct Hsafe as [Hc Hr].
    cbn [uq_toks pdelta].
    destruct (c =? c_lparen) eqn:E1.
    { apply N.eqb_eq in E1. subst c.
      change ((c_lparen :: r) ++ rest) with ([c_lparen] ++ (r ++ rest)).
      rewrite (seg_lparen g prev pos (r ++ rest) I).
      rewrite (IH r ltac:(lia) Hr (g + 1)%Z _ _ rest Hst).
      rewrite <- tcons_app, <- last_prev_app. cbn [app length].
      replace (g + 1 + pdelta r)%Z with (g + (1 + pdelta r))%Z by lia.
      replace (pos + 1 + length r)%nat with (pos + S (length r))%nat by lia.
      reflexivity. }
    destruct (c =? c_rparen) eqn:E2.
    { apply N.eqb_eq in E2. subst c.
      change ((c_rparen :: r) ++ rest) with ([c_rparen] ++ (r ++ rest)).
      rewrite (seg_rparen g prev pos (r ++ rest) I).
      rewrite (IH r ltac:(lia) Hr (g + -1)%Z _ _ rest Hst).
      rewrite <- tcons_app, <- last_prev_app. cbn [app length].
      replace (g + -1 + pdelta r)%Z with (g + (-1 + pdelta r))%Z by lia.
      replace (pos + 1 + length r)%nat with (pos + S (length r))%nat by lia.
      reflexivity. }
    (* a run of safe characters *)
    assert (Hca : asafe c = true).
    { unfold usafe, is_paren in Hc. rewrite E1, E2 in Hc. cbn [orb] in Hc. rewrite orb_false_r in Hc. exact Hc. }
    set (v := c :: r) in *.
    set (k := span asafe v).
    set (w := firstn k v). set (v' := skipn k v).
    assert (HW : forallb asafe w = true) by (apply Forall_forallb, span_all).
    assert (HV : match v' with [] => True | x :: _ => asafe x = false end) by apply span_stop.
    assert (HT : w ++ v' = v) by apply firstn_skipn.
    assert (Hk : length w = k) by apply span_len.
    assert (Hwne : w <> []).
    { unfold w, k, v. cbn [span]. rewrite Hca. cbn [firstn]. discriminate. }
    assert (Hv'safe : forallb usafe v' = true) by (apply forallb_skipn; exact Hsafe0).
    assert (Hlen' : (length v' <= n)%nat).
    { assert (length v = length w + length v')%nat by (rewrite <- HT, app_length; reflexivity).
      destruct w; [congruence|]. cbn [length] in *. unfold v in H. cbn [length] in H. lia. }
    assert (Hst' : astop (v' ++ rest)).
    { destruct v' as [|x v'']; [exact Hst|]. cbn [app astop]. apply paren_abreak.
      cbn [forallb] in Hv'safe. apply andb_true_iff in Hv'safe. destruct Hv'safe as [Hx _].
      unfold usafe in Hx. rewrite HV in Hx. exact Hx. }
    clearbody w v' k.
    rewrite <- HT at 1. rewrite <- app_assoc.
    rewrite (seg_aword g w Hwne HW prev pos (v' ++ rest) Hst').
    rewrite (IH v' Hlen' Hv'safe g _ _ rest Hst).
    assert (Hd : ((0 + pdelta r) = pdelta v')%Z).
    { replace (0 + pdelta r)%Z with (pdelta v) by (unfold v; cbn [pdelta]; rewrite E1, E2; reflexivity).
      rewrite <- HT. apply pdelta_asafe. exact HW. }
    rewrite Hd. rewrite <- tcons_app, <- (last_prev_app prev w v'), HT.
    replace (pos + length w + length v')%nat with (pos + length v)%nat
      by (rewrite <- HT, app_length; lia).
    rewrite Hk. reflexivity.
Qed.

Lemma pdepth_delta : forall v d d', pdepth d v = Some d' -> pdelta v = (Z.of_nat d' - Z.of_nat d)%Z.
Proof.
  induction v as [|c r IH]; intros d d' H.
  - cbn in H. injection H as <-. cbn. lia.
  - cbn [pdepth pdelta] in *. destruct (c =? c_lparen).
    + rewrite (IH _ _ H). lia.
    + destruct (c =? c_rparen).
      * destruct d as [|d0]; [discriminate|]. rewrite (IH _ _ H). lia.
      * rewrite (IH _ _ H). lia.
Qed.

Lemma seg_uq g v :
  uq_ok v -> seg (CA g) v (fun pos => uq_toks (length v) pos v) (CA g) astop.
Proof.
  intros [_ [Hsafe Hbal]] prev pos rest Hst.
  rewrite (toks_uq (length v) v (le_n _) Hsafe g prev pos rest Hst).
  rewrite (pdepth_delta v 0 0 Hbal). cbn [Z.of_nat Z.sub Z.opp]. rewrite Z.add_0_r. reflexivity.
Qed.

(* ================================================================ one attribute *)
Lemma abreak_eq : abreak c_eq = true. Proof. reflexivity. Qed.

Ltac pos_eq := intros pos; cbn [length app val_toks attr_toks part_toks word_tok]; repeat (f_equal; try lia).

Lemma seg_val g v :
  sval_ok v -> seg (CA g) (val_text v) (fun pos => val_toks pos v) (CA g) astop.
Proof.
  destruct v as [| |v|s q|e]; cbn [sval_ok val_text]; intros Hok.
  - apply (seg_weaken _ _ _ _ (fun _ => True)); [auto|]. apply seg_nil.
  - apply (seg_weaken _ _ _ _ (fun _ => True)); [auto|]. apply seg_eq.
  - change (c_eq :: v) with ([c_eq] ++ v).
    eapply seg_app'; [apply seg_eq|apply seg_uq; exact Hok|(intros; exact I)|intros pos; reflexivity].
  - (* quoted *)
    apply (seg_weaken _ _ _ _ (fun _ => True)); [auto|].
    change (c_eq :: qchar s :: q ++ [qchar s]) with ([c_eq] ++ ([qchar s] ++ (q ++ [qchar s]))).
    eapply seg_app'; [apply seg_eq| |(intros; exact I)|].
    + eapply seg_app'; [apply seg_qopen| |(intros; exact I)|intros pos; reflexivity].
      eapply seg_app'; [apply seg_quoted; [apply is_quote_qchar|exact Hok]|apply seg_qclose| |intros pos; reflexivity].
      intros rest _. eexists. reflexivity.
    + pos_eq.
  - (* expression *)
    apply (seg_weaken _ _ _ _ (fun _ => True)); [auto|].
    change (c_eq :: c_lbrace :: e ++ [c_rbrace]) with ([c_eq] ++ ([c_lbrace] ++ (e ++ [c_rbrace]))).
    eapply seg_app'; [apply seg_eq| |(intros; exact I)|].
    + eapply seg_app'; [apply seg_lbrace| |(intros; exact I)|intros pos; reflexivity].
      eapply seg_app'; [apply seg_expr; exact Hok|apply seg_rbrace| |intros pos; reflexivity].
      intros rest _. eexists. reflexivity.
    + pos_eq.
Qed.

Lemma asafe_aname a : forallb asafe (sa_name a) = true -> forallb asafe (aname_text a) = true.
Proof.
  intros H. unfold aname_text. rewrite !forallb_app. rewrite H.
  destruct (sa_implied a), (sa_boolean a); reflexivity.
Qed.

Lemma val_text_astop v rest : astop rest -> astop (val_text v ++ rest).
Proof. destruct v; cbn [val_text app astop]; auto. Qed.

Lemma seg_attr g a :
  sattr_ok a -> seg (CA g) (attr_text a) (fun pos => attr_toks pos a) (CA g) astop.
Proof.
  intros [Hne [Hsafe [_ [_ Hv]]]]. unfold attr_text.
  eapply seg_app'; [apply seg_aword; [exact Hne|apply asafe_aname; exact Hsafe]|apply seg_val; exact Hv| |].
  - intros rest. apply val_text_astop.
  - intros pos. reflexivity.
Qed.

(* the first character of an attribute is an unquoted-safe one *)
Lemma attr_text_head a : sattr_ok a -> exists c r, attr_text a = c :: r /\ asafe c = true.
Proof.
  intros [Hne [Hsafe _]]. apply asafe_aname in Hsafe. unfold attr_text.
  destruct (aname_text a) as [|c r]; [congruence|].
  cbn [forallb] in Hsafe. apply andb_true_iff in Hsafe. exists c, (r ++ val_text (sa_value a)). split; [reflexivity|tauto].
Qed.

Lemma attrs_text_head a w l : sattr_ok a -> exists c r, attrs_text ((a, w) :: l) = c :: r /\ asafe c = true.
Proof.
  intros H. destruct (attr_text_head a H) as [c [r [E Hc]]].
  cbn [attrs_text]. rewrite E. cbn [app]. eauto.
Qed.

Lemma space_abreak c : is_space c = true -> abreak c = true.
Proof. intros H. unfold abreak. rewrite H. rewrite orb_true_r. reflexivity. Qed.

Lemma seg_attrs g : forall l,
  Forall (fun aw => sattr_ok (fst aw) /\ ws_ok (snd aw)) l -> seps_ok l ->
  seg (CA g) (attrs_text l) (fun pos => attrs_toks pos l) (CA g) (starts_with_c c_rbrack).
Proof.
  induction l as [|[a w] l IH]; intros HF Hs.
  - apply (seg_weaken _ _ _ _ (fun _ => True)); [auto|]. apply seg_nil.
  - inversion HF as [|x y [Ha Hw] HF']; subst. cbn [fst snd] in *. cbn [seps_ok] in Hs. destruct Hs as [Hsep Hs'].
    cbn [attrs_text].
    eapply seg_app'; [apply seg_attr; exact Ha| | |].
    + eapply seg_app'; [apply seg_ws_opt; exact Hw|apply IH; assumption| |intros pos; reflexivity].
      intros rest [rr ->]. destruct l as [|[b wb] l'].
      * cbn [attrs_text app nospace]. reflexivity.
      * inversion HF' as [|x y [Hb _] _]; subst. cbn [fst] in Hb.
        destruct (attrs_text_head b wb l' Hb) as [c [r [E Hc]]]. rewrite E. cbn [app nospace].
        destruct (asafe_facts c Hc) as [_ [_ [_ [H4 _]]]]. exact H4.
    + intros rest [rr ->]. destruct w as [|c0 W].
      * destruct l as [|x l']; [cbn [attrs_text app astop]; reflexivity|]. exfalso. apply Hsep; [discriminate|reflexivity].
      * cbn [app astop]. apply space_abreak. inversion Hw; assumption.
    + intros pos. reflexivity.
Qed.

(* ================================================================ parts and the element *)
Lemma wstop_hash r : wstop (c_hash :: r). Proof. wstop_const. Qed.
Lemma wstop_dot r : wstop (c_dot :: r). Proof. wstop_const. Qed.
Lemma wstop_lbrack r : wstop (c_lbrack :: r). Proof. wstop_const. Qed.

Lemma seg_op_run g c op : (c = c_hash /\ op = OpId) \/ (c = c_dot /\ op = OpClass) ->
  forall n, seg (C0 g) (repeat c n) (fun pos => op_run op pos n) (C0 g) (fun _ => True).
Proof.
  intros H. induction n as [|n IH]; [apply seg_nil|].
  change (repeat c (S n)) with ([c] ++ repeat c n).
  eapply seg_app'; [apply seg_op0; exact H|exact IH|(intros; exact I)|intros pos; reflexivity].
Qed.

Lemma seg_part g p :
  spart_ok p -> seg (C0 g) (part_text p) (fun pos => part_toks pos p) (C0 g) wstop.
Proof.
  destruct p as [k v|k v|lead l]; cbn [spart_ok part_text]; intros Hok.
  - eapply seg_app'; [apply (seg_op_run g c_hash OpId); auto|apply seg_word0; exact Hok|(intros; exact I)|].
    intros pos. cbn [part_toks]. rewrite repeat_length. reflexivity.
  - eapply seg_app'; [apply (seg_op_run g c_dot OpClass); auto|apply seg_word0; exact Hok|(intros; exact I)|].
    intros pos. cbn [part_toks]. rewrite repeat_length. reflexivity.
  - destruct Hok as [Hlead [HF Hs]].
    apply (seg_weaken _ _ _ _ (fun _ => True)); [auto|].
    change (c_lbrack :: lead ++ attrs_text l ++ [c_rbrack]) with ([c_lbrack] ++ (lead ++ (attrs_text l ++ [c_rbrack]))).
    eapply seg_app'; [apply seg_lbrack| |(intros; exact I)|].
    + eapply seg_app'; [apply seg_ws_opt; exact Hlead| | |].
      * eapply seg_app'; [apply seg_attrs; assumption|apply seg_rbrack| |intros pos; reflexivity].
        intros rest _. eexists. reflexivity.
      * intros rest _. destruct l as [|[b wb] l'].
        -- cbn [attrs_text app nospace]. reflexivity.
        -- inversion HF as [|x y [Hb _] _]; subst. cbn [fst] in Hb.
           destruct (attrs_text_head b wb l' Hb) as [c [r [E Hc]]]. rewrite <- app_assoc. rewrite E. cbn [app nospace].
           destruct (asafe_facts c Hc) as [_ [_ [_ [H4 _]]]]. exact H4.
      * intros pos. reflexivity.
    + intros pos. cbn [part_toks app length]. reflexivity.
Qed.

Lemma part_text_wstop p rest : wstop (part_text p ++ rest).
Proof. destruct p; cbn [part_text repeat app]; [apply wstop_hash|apply wstop_dot|apply wstop_lbrack]. Qed.

Lemma parts_text_wstop ps rest : wstop rest -> wstop (parts_text ps ++ rest).
Proof.
  intros H. destruct ps as [|p ps']; [exact H|]. cbn [parts_text]. rewrite <- app_assoc. apply part_text_wstop.
Qed.

Lemma seg_parts g : forall ps,
  Forall spart_ok ps -> seg (C0 g) (parts_text ps) (fun pos => parts_toks pos ps) (C0 g) wstop.
Proof.
  induction ps as [|p ps IH]; intros HF.
  - apply seg_nil.
  - inversion HF as [|x y Hp HF']; subst. cbn [parts_text].
    eapply seg_app'; [apply seg_part; exact Hp|apply IH; exact HF'| |intros pos; reflexivity].
    intros rest. apply parts_text_wstop.
Qed.

(* `{` ... `}` at element level *)
Lemma wstop_lbrace r : wstop (c_lbrace :: r). Proof. wstop_const. Qed.

Lemma seg_lbrace0 g :
  seg (C0 g) [c_lbrace] (fun pos => [tk1 (TBracket true BExpr) pos]) (mkCtx g 0 1 None) (fun _ => True).
Proof.
  apply (seg_token (C0 g) c_lbrace [] (TBracket true BExpr) (mkCtx g 0 1 None)).
  intros prev rest _. cbn [app].
  rewrite (consume_bracket (C0 g) prev c_lbrace rest BExpr); try reflexivity.
  eexists. apply lit_stop0. apply wstop_lbrace.
Qed.
Lemma seg_rbrace0 g :
  seg (mkCtx g 0 1 None) [c_rbrace] (fun pos => [tk1 (TBracket false BExpr) pos]) (C0 g) (fun _ => True).
Proof.
  apply (seg_token (mkCtx g 0 1 None) c_rbrace [] (TBracket false BExpr) (C0 g)).
  intros prev rest _. cbn [app].
  rewrite (consume_bracket (mkCtx g 0 1 None) prev c_rbrace rest BExpr); try reflexivity.
  eexists. apply lit_stops_at_rbrace.
Qed.
Lemma seg_expr0 g T :
  bal 0 T = true -> seg (mkCtx g 0 1 None) T (fun pos => text_tokens pos T) (mkCtx g 0 1 None) (starts_with_c c_rbrace).
Proof. intros Hb prev pos rest [r ->]. apply toks_text. exact Hb. Qed.

Lemma seg_tail g t :
  match t with None => True | Some T => bal 0 T = true end ->
  seg (C0 g) (tail_text t) (fun pos => tail_toks pos t) (C0 g) wstop.
Proof.
  destruct t as [T|]; cbn [tail_text tail_toks]; intros Hb; [|apply seg_nil].
  apply (seg_weaken _ _ _ _ (fun _ => True)); [auto|].
  change (c_lbrace :: T ++ [c_rbrace]) with ([c_lbrace] ++ (T ++ [c_rbrace])).
  eapply seg_app'; [apply seg_lbrace0| |(intros; exact I)|].
  - eapply seg_app'; [apply seg_expr0; exact Hb|apply seg_rbrace0| |intros pos; reflexivity].
    intros rest _. eexists. reflexivity.
  - intros pos. reflexivity.
Qed.

Lemma tail_text_wstop t rest : wstop rest -> wstop (tail_text t ++ rest).
Proof. destruct t; cbn [tail_text app]; [intros _; apply wstop_lbrace|auto]. Qed.

(* `/` at element level is the Close operator (unless it stands between two digits) *)
Lemma seg_close g :
  seg (C0 g) [c_slash] (fun pos => [tk1 (TOperator OpClose) pos]) (C0 g) (fun rest => peek_p is_digit_py rest = false).
Proof.
  apply (seg_token (C0 g) c_slash [] (TOperator OpClose) (C0 g)).
  intros prev rest Hd. cbn [app].
  apply consume_operator; try reflexivity.
  eexists. apply lit_stop0. cbn [wstop]. split; [reflexivity|]. split; [discriminate|]. intros _. exact Hd.
Qed.

(* what may follow an element: as for a word, and (for the `/` mark) not a digit *)
Definition estop (rest : str) : Prop := wstop rest /\ peek_p is_digit_py rest = false.

Lemma seg_close_opt g b :
  seg (C0 g) (close_text b) (fun pos => close_toks pos b) (C0 g) estop.
Proof.
  destruct b; cbn [close_text close_toks].
  - apply (seg_weaken _ _ _ _ (fun rest => peek_p is_digit_py rest = false)); [intros rest [_ H]; exact H|]. apply seg_close.
  - apply seg_nil.
Qed.

Lemma close_text_wstop b rest : estop rest -> wstop (close_text b ++ rest).
Proof.
  intros [Hw Hd]. destruct b; cbn [close_text app]; [|exact Hw].
  cbn [wstop]. split; [reflexivity|]. split; [discriminate|]. intros _. exact Hd.
Qed.

Theorem seg_elem g e :
  selem_ok e -> seg (C0 g) (elem_text e) (fun pos => elem_toks pos e) (C0 g) estop.
Proof.
  intros [Hn [Hp Ht]]. unfold elem_text.
  eapply seg_app'; [apply seg_word0; exact Hn| | |].
  - eapply seg_app'; [apply seg_parts; exact Hp| | |intros pos; reflexivity].
    + eapply seg_app'; [apply seg_tail; exact Ht|apply seg_close_opt| |intros pos; reflexivity].
      intros rest. apply close_text_wstop.
    + intros rest Hr. rewrite <- app_assoc. apply tail_text_wstop. apply close_text_wstop. exact Hr.
  - intros rest Hr. rewrite <- !app_assoc. apply parts_text_wstop. apply tail_text_wstop. apply close_text_wstop. exact Hr.
  - intros pos. unfold elem_toks. cbn [app]. reflexivity.
Qed.

(* the tokenizer on the text of an element *)
Theorem tokenize_elem e : selem_ok e -> tokenize (elem_text e) = TOk (elem_toks 0 e).
Proof.
  intros H. unfold tokenize. pose proof (seg_elem 0%Z e H None 0%nat [] (conj I eq_refl)) as E.
  rewrite app_nil_r in E. change (C0 0) with ctx0 in E. rewrite E. cbn [toks tcons]. rewrite app_nil_r. reflexivity.
Qed.

(* for concrete elements: discharge the well-formedness conditions of the grammar by computation *)
Ltac grammar_ok :=
  repeat first
    [ exact I | reflexivity | discriminate
    | apply Forall_nil | apply Forall_cons | split
    | solve [auto]
    | (intros; first [discriminate | assumption | (exfalso; congruence)]) ].
